(* Proofs about Model/KeyStore.v (bumble/keys.py JsonKeyStore, PairingKeys). *)
From Coq Require Import String Ascii.
From Coq Require Import ZArith List Bool Lia Decimal DecimalZ DecimalPos ZifyBool.
From BV Require Import Model.KeyStore.
Import ListNotations.
Open Scope Z_scope.

(* ================================================================== strings *)
Lemma str_eqb_refl : forall a, str_eqb a a = true.
Proof. induction a; simpl; auto. rewrite Z.eqb_refl; auto. Qed.

Lemma str_eqb_eq : forall a b, str_eqb a b = true <-> a = b.
Proof.
  induction a; destruct b; simpl; split; intro H; try discriminate; auto.
  - apply andb_true_iff in H. destruct H as [H1 H2]. apply Z.eqb_eq in H1.
    apply IHa in H2. subst; auto.
  - inversion H; subst. rewrite Z.eqb_refl. apply str_eqb_refl.
Qed.

Lemma str_eqb_neq : forall a b, str_eqb a b = false <-> a <> b.
Proof.
  intros a b. split; intro H.
  - intro E. apply str_eqb_eq in E. congruence.
  - destruct (str_eqb a b) eqn:E; auto. apply str_eqb_eq in E. contradiction.
Qed.

Lemma str_eqb_sym : forall a b, str_eqb a b = str_eqb b a.
Proof.
  intros a b. destruct (str_eqb a b) eqn:E.
  - apply str_eqb_eq in E. subst. symmetry. apply str_eqb_refl.
  - symmetry. apply str_eqb_neq. apply str_eqb_neq in E. auto.
Qed.

Lemma str_ltb_irrefl : forall a, str_ltb a a = false.
Proof. induction a; simpl; auto. rewrite Z.ltb_irrefl, Z.eqb_refl. auto. Qed.

Lemma str_ltb_trans : forall a b c, str_ltb a b = true -> str_ltb b c = true -> str_ltb a c = true.
Proof.
  induction a; destruct b, c; simpl; intros H1 H2; try discriminate; auto.
  destruct (Z.ltb a z) eqn:L1.
  - destruct (Z.ltb z z0) eqn:L2.
    + assert (Z.ltb a z0 = true) by lia. rewrite H. auto.
    + destruct (Z.eqb z z0) eqn:E2; try discriminate.
      assert (Z.ltb a z0 = true) by lia. rewrite H. auto.
  - destruct (Z.eqb a z) eqn:E1; try discriminate.
    destruct (Z.ltb z z0) eqn:L2.
    + assert (Z.ltb a z0 = true) by lia. rewrite H. auto.
    + destruct (Z.eqb z z0) eqn:E2; try discriminate.
      assert (Z.ltb a z0 = false) by lia. assert (Z.eqb a z0 = true) by lia.
      rewrite H, H0. eapply IHa; eauto.
Qed.

Lemma str_ltb_neq : forall a b, str_ltb a b = true -> str_eqb a b = false.
Proof.
  intros a b H. apply str_eqb_neq. intro E. subst. rewrite str_ltb_irrefl in H. discriminate.
Qed.

(* total order: not equal and not below means above *)
Lemma str_ltb_total : forall a b, str_eqb a b = false -> str_ltb a b = false -> str_ltb b a = true.
Proof.
  induction a; destruct b; simpl; intros H1 H2; try discriminate; auto.
  destruct (Z.ltb a z) eqn:L1; try discriminate.
  destruct (Z.eqb a z) eqn:E1.
  - simpl in H1. assert (Z.ltb z a = false) by lia. assert (Z.eqb z a = true) by lia.
    rewrite H, H0. apply IHa; auto.
  - assert (Z.ltb z a = true) by lia. rewrite H. auto.
Qed.

(* ================================================================== dictionaries *)
Section Dict.
  Variable A : Type.
  Implicit Types (l : list (str * A)).

  Lemma lookup_ins_same : forall k v l, lookup k (ins k v l) = Some v.
  Proof.
    induction l as [|[k' v'] r IH]; simpl.
    - rewrite str_eqb_refl; auto.
    - destruct (str_eqb k k') eqn:E; simpl.
      + rewrite str_eqb_refl; auto.
      + destruct (str_ltb k k'); simpl.
        * rewrite str_eqb_refl; auto.
        * rewrite E; auto.
  Qed.

  Lemma lookup_ins_other : forall k k' v l, str_eqb k' k = false -> lookup k' (ins k v l) = lookup k' l.
  Proof.
    induction l as [|[k2 v2] r IH]; simpl; intro H.
    - rewrite H; auto.
    - destruct (str_eqb k k2) eqn:E; simpl.
      + apply str_eqb_eq in E. subst. rewrite H. auto.
      + destruct (str_ltb k k2); simpl.
        * rewrite H. auto.
        * destruct (str_eqb k' k2); auto.
  Qed.

  Lemma lookup_ins : forall k k' v l,
    lookup k' (ins k v l) = if str_eqb k' k then Some v else lookup k' l.
  Proof.
    intros. destruct (str_eqb k' k) eqn:E.
    - apply str_eqb_eq in E. subst. apply lookup_ins_same.
    - apply lookup_ins_other; auto.
  Qed.

  Lemma lookup_del_same : forall k l, lookup k (del k l) = None.
  Proof.
    induction l as [|[k' v'] r IH]; simpl; auto.
    destruct (str_eqb k k') eqn:E; simpl; auto. rewrite E. auto.
  Qed.

  Lemma lookup_del_other : forall k k' l, str_eqb k' k = false -> lookup k' (del k l) = lookup k' l.
  Proof.
    induction l as [|[k2 v2] r IH]; simpl; intro H; auto.
    destruct (str_eqb k k2) eqn:E; simpl.
    - apply str_eqb_eq in E. subst. rewrite H. auto.
    - destruct (str_eqb k' k2); auto.
  Qed.

  Lemma has_ins_same : forall k v l, has k (ins k v l) = true.
  Proof. intros. unfold has. rewrite lookup_ins_same. auto. Qed.

  Lemma has_ins_other : forall k k' v l, str_eqb k' k = false -> has k' (ins k v l) = has k' l.
  Proof. intros. unfold has. rewrite lookup_ins_other; auto. Qed.

  (* sortedness is kept: the lists stay what a reload of the sort_keys file yields *)
  Lemma sorted_from_ins : forall k v l k0,
    str_ltb k0 k = true -> sorted_from k0 l = true -> sorted_from k0 (ins k v l) = true.
  Proof.
    induction l as [|[k' v'] r IH]; simpl; intros k0 H0 H.
    - rewrite H0. auto.
    - apply andb_true_iff in H. destruct H as [Ha Hb].
      destruct (str_eqb k k') eqn:E; simpl.
      + apply str_eqb_eq in E. subst. rewrite H0. auto.
      + destruct (str_ltb k k') eqn:L; simpl.
        * rewrite H0, L. auto.
        * rewrite Ha. simpl. apply IH; auto. apply str_ltb_total; auto.
  Qed.

  Lemma sorted_ins : forall k v l, sorted l = true -> sorted (ins k v l) = true.
  Proof.
    destruct l as [|[k' v'] r]; simpl; auto. intro H.
    destruct (str_eqb k k') eqn:E; simpl.
    - apply str_eqb_eq in E. subst. auto.
    - destruct (str_ltb k k') eqn:L; simpl.
      + rewrite L. auto.
      + apply sorted_from_ins; auto. apply str_ltb_total; auto.
  Qed.

  Lemma sorted_from_del : forall k l k0, sorted_from k0 l = true -> sorted_from k0 (del k l) = true.
  Proof.
    induction l as [|[k' v'] r IH]; simpl; intros k0 H; auto.
    apply andb_true_iff in H. destruct H as [Ha Hb].
    destruct (str_eqb k k'); simpl.
    - apply IH. clear IH. destruct r as [|[k2 v2] r2]; simpl in *; auto.
      apply andb_true_iff in Hb. destruct Hb as [Hc Hd].
      rewrite (str_ltb_trans _ _ _ Ha Hc). auto.
    - rewrite Ha. simpl. apply IH. auto.
  Qed.

  Lemma sorted_from_weaken : forall (l : list (str * A)) k0, sorted_from k0 l = true -> sorted l = true.
  Proof.
    destruct l as [|[k' v'] r]; simpl; auto. intros k0 H.
    apply andb_true_iff in H. tauto.
  Qed.

  Lemma sorted_del : forall k l, sorted l = true -> sorted (del k l) = true.
  Proof.
    destruct l as [|[k' v'] r]; simpl; auto. intro H.
    destruct (str_eqb k k').
    - eapply sorted_from_weaken. apply sorted_from_del. eauto.
    - simpl. apply sorted_from_del. auto.
  Qed.

  Lemma sorted_merge : forall (new d : list (str * A)), sorted d = true -> sorted (merge d new) = true.
  Proof.
    induction new as [|[k v] r IH]; simpl; intros d H; auto.
    apply IH. apply sorted_ins. auto.
  Qed.

  Lemma merge_app : forall (a b d : list (str * A)), merge d (a ++ b) = merge (merge d a) b.
  Proof. induction a as [|[k v] r IH]; simpl; intros; auto. Qed.
End Dict.
Arguments lookup_ins_same {A}. Arguments lookup_ins_other {A}. Arguments lookup_ins {A}.
Arguments lookup_del_same {A}. Arguments lookup_del_other {A}.
Arguments has_ins_same {A}. Arguments has_ins_other {A}.
Arguments sorted_ins {A}. Arguments sorted_del {A}. Arguments sorted_merge {A}. Arguments merge_app {A}.

(* optional insertion: what d.update({k: v} if o is not None) does *)
Definition oins {A B : Type} (k : str) (f : A -> B) (o : option A) (d : list (str * B)) :=
  match o with Some a => ins k (f a) d | None => d end.

Lemma merge_optm : forall (A B : Type) k (f : A -> B) o d, merge d (optm k f o) = oins k f o d.
Proof. intros. destruct o; reflexivity. Qed.

Lemma lookup_oins : forall (A B : Type) k k' (f : A -> B) o d,
  lookup k' (oins k f o d) =
  if str_eqb k' k then match o with Some a => Some (f a) | None => lookup k' d end else lookup k' d.
Proof.
  intros. destruct o; simpl.
  - apply lookup_ins.
  - destruct (str_eqb k' k); auto.
Qed.

Lemma lookup_optm_app : forall (A B : Type) k k' (f : A -> B) o rest,
  lookup k' (optm k f o ++ rest) =
  if str_eqb k' k then match o with Some a => Some (f a) | None => lookup k' rest end else lookup k' rest.
Proof.
  intros. destruct o; simpl.
  - rewrite (str_eqb_sym k' k). destruct (str_eqb k k'); auto.
  - destruct (str_eqb k' k); auto.
Qed.

Lemma lookup_optm : forall (A B : Type) k k' (f : A -> B) o,
  lookup k' (optm k f o) = if str_eqb k' k then option_map f o else None.
Proof.
  intros. destruct o; simpl.
  - rewrite (str_eqb_sym k' k). destruct (str_eqb k k'); auto.
  - destruct (str_eqb k' k); auto.
Qed.

(* ================================================================== hex *)
Lemma hex_digit_val : forall n, 0 <= n < 16 -> hex_val (hex_digit n) = Some n.
Proof.
  intros n H.
  replace n with (Z.of_nat (Z.to_nat n)) by lia.
  assert (Z.to_nat n < 16)%nat as C by lia. revert C. generalize (Z.to_nat n). intros m C.
  do 16 (destruct m as [|m]; [reflexivity|]). lia.
Qed.

Lemma hex_rt : forall bs, bytes_ok bs = true -> hex_dec (hex_enc bs) = Some bs.
Proof.
  induction bs as [|b r IH]; intro H; [reflexivity|].
  cbn [bytes_ok forallb] in H. apply andb_true_iff in H. destruct H as [Hb Hr].
  unfold byte_ok in Hb.
  assert (0 <= b < 256) by lia.
  cbn [hex_enc hex_dec].
  rewrite !hex_digit_val.
  - fold (bytes_ok r) in Hr. rewrite IH; auto.
    pose proof (Z.div_mod b 16 ltac:(lia)) as E. rewrite <- E. reflexivity.
  - apply Z.mod_pos_bound. lia.
  - split. apply Z.div_pos; lia. apply Z.div_lt_upper_bound; lia.
Qed.

Lemma hex_digit_range : forall n, 0 <= n < 16 -> 48 <= hex_digit n <= 102.
Proof. intros n H. unfold hex_digit. destruct (n <? 10) eqn:E; lia. Qed.

Lemma hex_digit_ok : forall n, 0 <= n < 16 -> cp_ok (hex_digit n) = true.
Proof. intros n H. pose proof (hex_digit_range n H). unfold cp_ok. lia. Qed.

Lemma hex_enc_ok : forall bs, bytes_ok bs = true -> str_ok (hex_enc bs) = true.
Proof.
  induction bs as [|b r IH]; simpl; intro H; auto.
  apply andb_true_iff in H. destruct H as [Hb Hr]. unfold byte_ok in Hb.
  assert (0 <= b < 256) by lia.
  rewrite !hex_digit_ok, IH; auto.
  - apply Z.mod_pos_bound. lia.
  - split. apply Z.div_pos; lia. apply Z.div_lt_upper_bound; lia.
Qed.

(* ================================================================== PairingKeys round trip *)
Definition obytes_ok (o : option (list Z)) : bool :=
  match o with Some b => bytes_ok b | None => true end.
Definition key_ok (k : pkey) : bool := bytes_ok (k_value k) && obytes_ok (k_rand k).
Definition okey_ok (o : option pkey) : bool := match o with Some k => key_ok k | None => true end.
Definition keys_ok (k : pkeys) : bool :=
  okey_ok (ltk k) && okey_ok (ltk_central k) && okey_ok (ltk_peripheral k)
  && okey_ok (irk k) && okey_ok (csrk k) && okey_ok (link_key k).

Lemma key_rt : forall k, key_ok k = true -> key_from_dict (key_to_dict k) = Some k.
Proof.
  intros [v a e r] H. unfold key_ok in H. simpl in H.
  apply andb_true_iff in H. destruct H as [Hv Hr].
  unfold key_from_dict, key_to_dict, get_khex, get_kint.
  destruct e as [e|], r as [r|]; cbn -[hex_enc hex_dec]; simpl in Hr;
    rewrite ?hex_rt; auto.
Qed.

Definition fkey (x : pkey) : fval := FvKey (key_to_dict x).

Lemma to_dict_lookup : forall k,
  lookup F_address_type (to_dict k) = option_map FvInt (address_type k) /\
  lookup F_csrk (to_dict k) = option_map fkey (csrk k) /\
  lookup F_irk (to_dict k) = option_map fkey (irk k) /\
  lookup F_link_key (to_dict k) = option_map fkey (link_key k) /\
  lookup F_link_key_type (to_dict k) = option_map FvInt (link_key_type k) /\
  lookup F_ltk (to_dict k) = option_map fkey (ltk k) /\
  lookup F_ltk_central (to_dict k) = option_map fkey (ltk_central k) /\
  lookup F_ltk_peripheral (to_dict k) = option_map fkey (ltk_peripheral k).
Proof.
  intros [a k1 k2 k3 k4 k5 k6 t]. unfold to_dict. cbn [address_type ltk ltk_central ltk_peripheral irk csrk link_key link_key_type].
  repeat split; rewrite !lookup_optm_app, ?lookup_optm;
    repeat match goal with |- context [str_eqb ?x ?y] =>
      let b := eval vm_compute in (str_eqb x y) in
      change (str_eqb x y) with b; cbv iota end;
    repeat match goal with |- context [match ?o with Some _ => _ | None => _ end] =>
      is_var o; destruct o end; reflexivity.
Qed.

Lemma get_fkey_rt : forall F d o, okey_ok o = true ->
  lookup F d = option_map fkey o -> get_fkey F d = Some o.
Proof.
  intros F d o Hok H. unfold get_fkey. rewrite H. destruct o as [k|]; simpl; auto.
  rewrite key_rt; auto.
Qed.

Lemma get_fint_rt : forall F d o, lookup F d = option_map FvInt o -> get_fint F d = Some o.
Proof. intros F d o H. unfold get_fint. rewrite H. destruct o; auto. Qed.

Theorem keys_roundtrip : forall k, keys_ok k = true -> from_dict (to_dict k) = Some k.
Proof.
  intros k H. unfold keys_ok in H.
  repeat (apply andb_true_iff in H; destruct H as [H ?]).
  destruct (to_dict_lookup k) as (L1 & L2 & L3 & L4 & L5 & L6 & L7 & L8).
  unfold from_dict.
  rewrite (get_fint_rt _ _ _ L1), (get_fint_rt _ _ _ L5).
  rewrite (get_fkey_rt _ _ (ltk k)), (get_fkey_rt _ _ (ltk_central k)), (get_fkey_rt _ _ (ltk_peripheral k)),
          (get_fkey_rt _ _ (irk k)), (get_fkey_rt _ _ (csrk k)), (get_fkey_rt _ _ (link_key k)); auto.
  destruct k; reflexivity.
Qed.

(* ================================================================== well-formed databases *)
Definition obj_ok {A : Type} (f : A -> bool) (ms : list (str * A)) : bool :=
  forallb (fun m => str_ok (fst m) && f (snd m)) ms.
Definition kval_ok (v : kval) : bool := match v with KStr s => str_ok s | _ => true end.
Definition fval_ok (v : fval) : bool := match v with FvInt _ => true | FvKey d => obj_ok kval_ok d end.
Definition pdict_ok (d : pdict) : bool := obj_ok fval_ok d.
Definition kmap_ok (m : kmap) : bool := obj_ok pdict_ok m.
Definition db_ok (d : db) : bool := obj_ok kmap_ok d.

(* ================================================================== tokens of a database *)
Definition tok_member {A : Type} (tv : A -> list token) (m : str * A) : list token :=
  TStr (fst m) :: TColon :: tv (snd m).
Definition tok_obj {A : Type} (tv : A -> list token) (ms : list (str * A)) : list token :=
  match ms with
  | [] => [TLB; TRB]
  | m :: r => TLB :: tok_member tv m ++ flat_map (fun m' => TComma :: tok_member tv m') r ++ [TRB]
  end.
Definition tok_kval (v : kval) : list token :=
  match v with KStr s => [TStr s] | KBool true => [TTrue] | KBool false => [TFalse] | KInt z => [TInt z] end.
Definition tok_fval (v : fval) : list token :=
  match v with FvInt z => [TInt z] | FvKey d => tok_obj tok_kval d end.
Definition tok_db (d : db) : list token := tok_obj (tok_obj (tok_obj tok_fval)) d.

(* ================================================================== the lexer on serialised text *)
Lemma pre_pre : forall a b x, pre a (pre b x) = pre (a ++ b) x.
Proof. intros. destruct x; simpl; auto. rewrite app_assoc. auto. Qed.

Lemma pre_nil : forall x, pre [] x = x.
Proof. destruct x; auto. Qed.

Lemma lex_ws : forall c r, is_ws c = true -> lex LIdle (c :: r) = lex LIdle r.
Proof. intros c r H. cbn [lex]. rewrite H. reflexivity. Qed.

Lemma lex_spaces : forall n r, lex LIdle (repeat 32 n ++ r) = lex LIdle r.
Proof. induction n; intros; cbn [repeat List.app]; auto. rewrite lex_ws; auto. Qed.

Lemma lex_nl : forall i r, lex LIdle (nl i ++ r) = lex LIdle r.
Proof. intros. unfold nl. cbn [List.app]. rewrite lex_ws by reflexivity. apply lex_spaces. Qed.

(* \uXXXX escapes *)
Lemma hex4_rt : forall n, 0 <= n < 65536 ->
  hex4_val (hex_digit (n / 4096)) (hex_digit ((n / 256) mod 16)) (hex_digit ((n / 16) mod 16)) (hex_digit (n mod 16))
  = Some n.
Proof.
  intros n H. unfold hex4_val.
  rewrite !hex_digit_val.
  - f_equal. Z.div_mod_to_equations. lia.
  - apply Z.mod_pos_bound. lia.
  - apply Z.mod_pos_bound. lia.
  - apply Z.mod_pos_bound. lia.
  - split. apply Z.div_pos; lia. apply Z.div_lt_upper_bound; lia.
Qed.

(* one unfolding of the lexer at a \u escape, stated once so that no tactic has to
   normalise [lex] on a long literal list *)
Lemma lex_str_u : forall acc h1 h2 h3 h4 r2,
  lex (LStr acc) (92 :: 117 :: h1 :: h2 :: h3 :: h4 :: r2) =
  match hex4_val h1 h2 h3 h4 with
  | Some n =>
      if is_high n then
        match r2 with
        | b1 :: b2 :: l1 :: l2 :: l3 :: l4 :: r3 =>
            if (b1 =? 92) && (b2 =? 117) then
              match hex4_val l1 l2 l3 l4 with
              | Some m =>
                  if is_low m
                  then lex (LStr (65536 + (n - 55296) * 1024 + (m - 56320) :: acc)) r3
                  else lex (LStr (n :: acc)) r2
              | None => lex (LStr (n :: acc)) r2
              end
            else lex (LStr (n :: acc)) r2
        | _ => lex (LStr (n :: acc)) r2
        end
      else lex (LStr (n :: acc)) r2
  | None => None
  end.
Proof. intros. reflexivity. Qed.

Lemma lex_uesc_plain : forall n acc rest, 0 <= n < 65536 -> is_high n = false ->
  lex (LStr acc) (uesc n ++ rest) = lex (LStr (n :: acc)) rest.
Proof.
  intros n acc rest Hn Hh. unfold uesc, hex4. cbn [List.app].
  rewrite lex_str_u. rewrite hex4_rt by auto. rewrite Hh. reflexivity.
Qed.

Lemma lex_uesc_pair : forall hi lo acc rest, is_high hi = true -> is_low lo = true ->
  lex (LStr acc) (uesc hi ++ uesc lo ++ rest) =
  lex (LStr (65536 + (hi - 55296) * 1024 + (lo - 56320) :: acc)) rest.
Proof.
  intros hi lo acc rest Hh Hl. unfold uesc, hex4. cbn [List.app].
  rewrite lex_str_u.
  assert (0 <= hi < 65536) as Bh by (unfold is_high in Hh; lia).
  assert (0 <= lo < 65536) as Bl by (unfold is_low in Hl; lia).
  rewrite (hex4_rt hi Bh). rewrite Hh.
  change ((92 =? 92) && (117 =? 117)) with true. cbv iota.
  rewrite (hex4_rt lo Bl). rewrite Hl. reflexivity.
Qed.

Lemma lex_str_raw : forall c acc r, (c =? 34) = false -> (c =? 92) = false -> (32 <=? c) = true ->
  lex (LStr acc) (c :: r) = lex (LStr (c :: acc)) r.
Proof. intros c acc r H1 H2 H3. cbn [lex]. rewrite H1, H2, H3. reflexivity. Qed.

Lemma lex_esc_char : forall c acc rest, cp_ok c = true ->
  lex (LStr acc) (esc_char c ++ rest) = lex (LStr (c :: acc)) rest.
Proof.
  intros c acc rest H. unfold cp_ok in H. unfold esc_char.
  destruct (c =? 34) eqn:E1. { assert (c = 34) by lia. subst. reflexivity. }
  destruct (c =? 92) eqn:E2. { assert (c = 92) by lia. subst. reflexivity. }
  destruct (c =? 10) eqn:E3. { assert (c = 10) by lia. subst. reflexivity. }
  destruct (c =? 13) eqn:E4. { assert (c = 13) by lia. subst. reflexivity. }
  destruct (c =? 9) eqn:E5. { assert (c = 9) by lia. subst. reflexivity. }
  destruct (c =? 8) eqn:E6. { assert (c = 8) by lia. subst. reflexivity. }
  destruct (c =? 12) eqn:E7. { assert (c = 12) by lia. subst. reflexivity. }
  destruct ((32 <=? c) && (c <=? 126)) eqn:E8.
  { cbn [List.app]. apply lex_str_raw; auto. lia. }
  destruct (c <? 65536) eqn:E9.
  { apply lex_uesc_plain. lia. unfold is_high. lia. }
  rewrite <- app_assoc. rewrite lex_uesc_pair.
  - f_equal. f_equal. f_equal. Z.div_mod_to_equations. lia.
  - unfold is_high. Z.div_mod_to_equations. lia.
  - unfold is_low. Z.div_mod_to_equations. lia.
Qed.

Lemma lex_str_body : forall s acc r, str_ok s = true ->
  lex (LStr acc) (esc_str s ++ 34 :: r) = pre [TStr (List.rev acc ++ s)] (lex LIdle r).
Proof.
  induction s as [|c s IH]; intros acc r H.
  - cbn [esc_str flat_map List.app]. cbn [lex]. rewrite Z.eqb_refl. rewrite app_nil_r. reflexivity.
  - simpl in H. apply andb_true_iff in H. destruct H as [Hc Hs].
    unfold esc_str. cbn [flat_map]. rewrite <- app_assoc. rewrite lex_esc_char by auto.
    fold (esc_str s). rewrite IH; auto.
    simpl List.rev. rewrite <- app_assoc. reflexivity.
Qed.

Lemma lex_quote : forall s r, str_ok s = true -> lex LIdle (quote s ++ r) = pre [TStr s] (lex LIdle r).
Proof.
  intros s r H. unfold quote. cbn [List.app]. rewrite <- app_assoc. cbn [List.app].
  change (lex LIdle (34 :: esc_str s ++ 34 :: r)) with (lex (LStr []) (esc_str s ++ 34 :: r)).
  rewrite lex_str_body; auto.
Qed.

(* numbers *)
Lemma uint_chars_digits : forall u, forallb is_digit (uint_chars u) = true.
Proof. induction u; simpl; auto. Qed.

Lemma chars_uint_rt : forall u, chars_uint (uint_chars u) = Some u.
Proof. induction u; simpl; auto; rewrite IHu; reflexivity. Qed.

Lemma uint_chars_nonnil : forall u, u <> Nil -> uint_chars u <> [].
Proof. destruct u; simpl; intros; congruence. Qed.

Lemma lex_digits : forall ds neg acc c r, forallb is_digit ds = true -> is_digit c = false ->
  lex (LNum neg acc) (ds ++ c :: r) =
  match num_tok neg (List.rev ds ++ acc) with Some t => pre [t] (lex LIdle (c :: r)) | None => None end.
Proof.
  induction ds as [|d ds IH]; intros neg acc c r H Hc.
  - cbn [List.app]. cbn [lex]. rewrite Hc. reflexivity.
  - simpl in H. apply andb_true_iff in H. destruct H as [Hd Hs].
    cbn [List.app]. cbn [lex]. rewrite Hd. rewrite IH; auto.
    simpl List.rev. rewrite <- app_assoc. reflexivity.
Qed.

Lemma lex_idle_digit : forall d r, is_digit d = true -> lex LIdle (d :: r) = lex (LNum false [d]) r.
Proof.
  intros d r H. unfold is_digit in H. cbn [lex].
  replace (is_ws d) with false by (unfold is_ws; lia).
  replace (d =? 123) with false by lia. replace (d =? 125) with false by lia.
  replace (d =? 58) with false by lia. replace (d =? 44) with false by lia.
  replace (d =? 34) with false by lia. replace (d =? 45) with false by lia.
  unfold is_digit. replace ((48 <=? d) && (d <=? 57)) with true by lia. reflexivity.
Qed.

Definition delim (c : Z) : bool := (c =? 44) || (c =? 10).

Lemma delim_not_digit : forall c, delim c = true -> is_digit c = false.
Proof. intros c H. unfold delim in H. unfold is_digit. lia. Qed.

Lemma num_tok_uint : forall neg u, u <> Nil ->
  num_tok neg (List.rev (uint_chars u)) = Some (TInt (Z.of_int (if neg then Neg u else Pos u))).
Proof.
  intros neg u H. unfold num_tok. rewrite rev_involutive.
  destruct (uint_chars u) eqn:E.
  - exfalso. eapply uint_chars_nonnil; eauto.
  - rewrite <- E. rewrite chars_uint_rt. reflexivity.
Qed.

Lemma lex_uint : forall u neg c r, u <> Nil -> delim c = true ->
  lex (LNum neg []) (uint_chars u ++ c :: r) =
  pre [TInt (Z.of_int (if neg then Neg u else Pos u))] (lex LIdle (c :: r)).
Proof.
  intros u neg c r Hu Hc. rewrite lex_digits.
  - rewrite app_nil_r. rewrite num_tok_uint; auto.
  - apply uint_chars_digits.
  - apply delim_not_digit; auto.
Qed.

Lemma lex_num_start : forall u c r, u <> Nil ->
  lex LIdle (uint_chars u ++ c :: r) = lex (LNum false []) (uint_chars u ++ c :: r).
Proof.
  intros u c r Hu. pose proof (uint_chars_digits u) as Hd.
  destruct (uint_chars u) as [|d ds] eqn:E.
  - exfalso. eapply uint_chars_nonnil; eauto.
  - simpl in Hd. apply andb_true_iff in Hd. destruct Hd as [Hd _].
    cbn [List.app]. rewrite lex_idle_digit; auto. cbn [lex]. rewrite Hd. reflexivity.
Qed.

Lemma to_int_nonnil : forall z, match Z.to_int z with Pos u => u <> Nil | Neg u => u <> Nil end.
Proof.
  destruct z; simpl.
  - discriminate.
  - apply Unsigned.to_uint_nonnil.
  - apply Unsigned.to_uint_nonnil.
Qed.

Lemma lex_int : forall z c r, delim c = true ->
  lex LIdle (ser_int z ++ c :: r) = pre [TInt z] (lex LIdle (c :: r)).
Proof.
  intros z c r Hc. unfold ser_int. pose proof (to_int_nonnil z) as Hn. pose proof (DecimalZ.of_to z) as Hz.
  destruct (Z.to_int z) as [u|u].
  - rewrite lex_num_start; auto. rewrite lex_uint; auto. rewrite Hz. reflexivity.
  - cbn [List.app]. change (lex LIdle (45 :: uint_chars u ++ c :: r)) with (lex (LNum true []) (uint_chars u ++ c :: r)).
    rewrite lex_uint; auto. rewrite Hz. reflexivity.
Qed.

(* values and objects *)
Definition LexOK {A : Type} (pv : nat -> A -> str) (tv : A -> list token) (v : A) : Prop :=
  forall i c r, delim c = true -> lex LIdle (pv i v ++ c :: r) = pre (tv v) (lex LIdle (c :: r)).

Lemma lex_kval : forall v, kval_ok v = true -> LexOK ser_kval tok_kval v.
Proof.
  intros v H i c r Hc. destruct v as [s|[|]|z]; simpl in *.
  - apply lex_quote; auto.
  - reflexivity.
  - reflexivity.
  - apply lex_int; auto.
Qed.

Lemma lex_member : forall (A : Type) (pv : nat -> A -> str) tv (m : str * A) j c r,
  str_ok (fst m) = true -> LexOK pv tv (snd m) -> delim c = true ->
  lex LIdle (ser_member pv j m ++ c :: r) = pre (tok_member tv m) (lex LIdle (c :: r)).
Proof.
  intros A pv tv [k v] j c r Hk Hv Hc. unfold ser_member, tok_member. simpl fst in *. simpl snd in *.
  rewrite <- !app_assoc. rewrite lex_quote; auto. cbn [List.app].
  change (lex LIdle (58 :: 32 :: pv j v ++ c :: r)) with (pre [TColon] (lex LIdle (32 :: pv j v ++ c :: r))).
  rewrite lex_ws by reflexivity. rewrite Hv; auto. rewrite !pre_pre. reflexivity.
Qed.

Lemma lex_members_tail : forall (A : Type) (pv : nat -> A -> str) tv (ms : list (str * A)) j i r,
  (forall m, In m ms -> str_ok (fst m) = true /\ LexOK pv tv (snd m)) ->
  lex LIdle (flat_map (fun m' => [44] ++ nl j ++ ser_member pv j m') ms ++ nl i ++ [125] ++ r) =
  pre (flat_map (fun m' => TComma :: tok_member tv m') ms ++ [TRB]) (lex LIdle r).
Proof.
  induction ms as [|m ms IH]; intros j i r H.
  - cbn [flat_map List.app]. rewrite lex_nl. reflexivity.
  - cbn [flat_map]. rewrite <- !app_assoc.
    remember (flat_map (fun m' => [44] ++ nl j ++ ser_member pv j m') ms ++ nl i ++ [125] ++ r) as T eqn:ET.
    cbn [List.app].
    change (lex LIdle (44 :: ?x)) with (pre [TComma] (lex LIdle x)).
    rewrite lex_nl.
    destruct (H m (or_introl eq_refl)) as [Hk Hv].
    assert (exists c r', delim c = true /\ T = c :: r') as Hd.
    { subst T. destruct ms; cbn [flat_map List.app nl]; eexists; eexists; split; try reflexivity; reflexivity. }
    destruct Hd as (c & r' & Hc & E).
    rewrite E. rewrite (lex_member A pv tv m j c r' Hk Hv Hc). rewrite <- E. subst T.
    rewrite IH by (intros m' Hm; apply H; right; auto).
    rewrite !pre_pre. reflexivity.
Qed.

Lemma lex_obj : forall (A : Type) (pv : nat -> A -> str) tv (ms : list (str * A)) i r,
  (forall m, In m ms -> str_ok (fst m) = true /\ LexOK pv tv (snd m)) ->
  lex LIdle (ser_obj pv i ms ++ r) = pre (tok_obj tv ms) (lex LIdle r).
Proof.
  intros A pv tv ms i r H. destruct ms as [|m ms].
  - cbn [ser_obj tok_obj List.app].
    change (lex LIdle (123 :: 125 :: r)) with (pre [TLB] (pre [TRB] (lex LIdle r))).
    rewrite pre_pre. reflexivity.
  - unfold ser_obj, tok_obj. rewrite <- !app_assoc.
    remember (flat_map (fun m' => [44] ++ nl (S i) ++ ser_member pv (S i) m') ms ++ nl i ++ [125] ++ r) as T eqn:ET.
    cbn [List.app].
    change (lex LIdle (123 :: ?x)) with (pre [TLB] (lex LIdle x)).
    rewrite lex_nl.
    destruct (H m (or_introl eq_refl)) as [Hk Hv].
    assert (exists c r', delim c = true /\ T = c :: r') as Hd.
    { subst T. destruct ms; cbn [flat_map List.app nl]; eexists; eexists; split; try reflexivity; reflexivity. }
    destruct Hd as (c & r' & Hc & E).
    rewrite E. rewrite (lex_member A pv tv m (S i) c r' Hk Hv Hc). rewrite <- E. subst T.
    rewrite (lex_members_tail A pv tv) by (intros m' Hm; apply H; right; auto).
    rewrite !pre_pre. reflexivity.
Qed.

Lemma obj_ok_in : forall (A : Type) (f : A -> bool) ms m, obj_ok f ms = true -> In m ms ->
  str_ok (fst m) = true /\ f (snd m) = true.
Proof.
  intros A f ms m H Hin. unfold obj_ok in H. rewrite forallb_forall in H.
  apply H in Hin. apply andb_true_iff in Hin. auto.
Qed.

Lemma lex_obj_ok : forall (A : Type) (pv : nat -> A -> str) tv (f : A -> bool) (ms : list (str * A)),
  (forall v, f v = true -> LexOK pv tv v) -> obj_ok f ms = true ->
  forall i r, lex LIdle (ser_obj pv i ms ++ r) = pre (tok_obj tv ms) (lex LIdle r).
Proof.
  intros A pv tv f ms Hf H i r. apply lex_obj. intros m Hin.
  destruct (obj_ok_in A f ms m H Hin). auto.
Qed.

Lemma lex_fval : forall v, fval_ok v = true -> LexOK ser_fval tok_fval v.
Proof.
  intros v H i c r Hc. destruct v as [z|d]; simpl in *.
  - apply lex_int; auto.
  - apply (lex_obj_ok _ ser_kval tok_kval kval_ok); auto. apply lex_kval.
Qed.

Lemma lex_pdict : forall d, pdict_ok d = true -> LexOK ser_pdict (tok_obj tok_fval) d.
Proof. intros d H i c r Hc. apply (lex_obj_ok _ ser_fval tok_fval fval_ok); auto. apply lex_fval. Qed.

Lemma lex_kmap : forall m, kmap_ok m = true -> LexOK ser_kmap (tok_obj (tok_obj tok_fval)) m.
Proof. intros d H i c r Hc. apply (lex_obj_ok _ ser_pdict (tok_obj tok_fval) pdict_ok); auto. apply lex_pdict. Qed.

Lemma lex_db : forall d, db_ok d = true -> lex LIdle (ser_db d) = Some (tok_db d).
Proof.
  intros d H. unfold ser_db. rewrite <- (app_nil_r (ser_obj ser_kmap 0 d)).
  rewrite (lex_obj_ok _ ser_kmap (tok_obj (tok_obj tok_fval)) kmap_ok); auto.
  - simpl. rewrite app_nil_r. reflexivity.
  - apply lex_kmap.
Qed.

(* ================================================================== the parser on tokens *)
Definition PvOK {A : Type} (pv : list token -> option (A * list token)) (tv : A -> list token) (v : A) : Prop :=
  forall r, pv (tv v ++ r) = Some (v, r).

Lemma p_members_ok : forall (A : Type) pv (tv : A -> list token) (ms : list (str * A)) m fuel r,
  (forall m', In m' (m :: ms) -> PvOK pv tv (snd m')) ->
  (List.length ms < fuel)%nat ->
  p_members pv fuel (tok_member tv m ++ flat_map (fun m' => TComma :: tok_member tv m') ms ++ TRB :: r)
  = Some (m :: ms, r).
Proof.
  induction ms as [|m2 ms IH]; intros [k v] fuel r H Hf.
  - destruct fuel as [|f]; [inversion Hf|].
    pose proof (H (k, v) (or_introl eq_refl)) as Hv. cbn [snd] in Hv. unfold PvOK in Hv.
    assert (tok_member tv (k, v) ++ flat_map (fun m' => TComma :: tok_member tv m') [] ++ TRB :: r
            = TStr k :: TColon :: (tv v ++ TRB :: r)) as E by reflexivity.
    rewrite E. cbn [p_members]. rewrite Hv. reflexivity.
  - destruct fuel as [|f]; [inversion Hf|].
    pose proof (H (k, v) (or_introl eq_refl)) as Hv. cbn [snd] in Hv. unfold PvOK in Hv.
    assert (tok_member tv (k, v) ++ flat_map (fun m' => TComma :: tok_member tv m') (m2 :: ms) ++ TRB :: r
            = TStr k :: TColon :: (tv v ++ TComma ::
                (tok_member tv m2 ++ flat_map (fun m' => TComma :: tok_member tv m') ms ++ TRB :: r))) as E.
    { unfold tok_member at 1. cbn [flat_map fst snd List.app]. rewrite <- !app_assoc. reflexivity. }
    rewrite E. cbn [p_members]. rewrite Hv. rewrite IH.
    + reflexivity.
    + intros m' Hm. apply H. right. auto.
    + simpl in Hf. lia.
Qed.

Lemma flat_map_len : forall (A : Type) (tv : A -> list token) (ms : list (str * A)),
  (List.length ms <= List.length (flat_map (fun m' => TComma :: tok_member tv m') ms))%nat.
Proof.
  induction ms as [|m ms IH]; [simpl; auto|]. cbn [flat_map List.length List.app]. rewrite app_length. lia.
Qed.

Lemma p_obj_ok : forall (A : Type) pv (tv : A -> list token) (ms : list (str * A)),
  (forall m, In m ms -> PvOK pv tv (snd m)) -> PvOK (p_obj pv) (tok_obj tv) ms.
Proof.
  intros A pv tv ms H r. destruct ms as [|[k v] ms].
  - reflexivity.
  - unfold tok_obj. cbn [tok_member fst snd List.app p_obj].
    rewrite <- !app_assoc. cbn [List.app].
    change (TStr k :: TColon :: tv v ++ flat_map (fun m' => TComma :: tok_member tv m') ms ++ TRB :: r)
      with (tok_member tv (k, v) ++ flat_map (fun m' => TComma :: tok_member tv m') ms ++ TRB :: r).
    apply p_members_ok; auto.
    pose proof (flat_map_len A tv ms) as Hl.
    unfold tok_member at 1. cbn [List.app List.length]. rewrite !app_length. cbn [List.length]. lia.
Qed.

Lemma p_kval_ok : forall v, PvOK p_kval tok_kval v.
Proof. intros v r. destruct v as [s|[|]|z]; reflexivity. Qed.

Lemma p_fval_ok : forall v, PvOK p_fval tok_fval v.
Proof.
  intros v r. destruct v as [z|d]; [reflexivity|].
  pose proof (p_obj_ok _ p_kval tok_kval d (fun m _ => p_kval_ok (snd m)) r) as E.
  unfold tok_fval. unfold p_fval. destruct d as [|m d]; cbn [tok_obj List.app] in *; rewrite E; reflexivity.
Qed.

Lemma p_db_ok : forall d r, p_db (tok_db d ++ r) = Some (d, r).
Proof.
  intros d r. unfold p_db, tok_db. apply p_obj_ok. intros m _.
  apply p_obj_ok. intros m' _. apply p_obj_ok. intros m'' _. apply p_fval_ok.
Qed.

Theorem parse_ser : forall d, db_ok d = true -> parse (ser_db d) = Some d.
Proof.
  intros d H. unfold parse. rewrite lex_db; auto.
  rewrite <- (app_nil_r (tok_db d)). rewrite p_db_ok. reflexivity.
Qed.

(* ================================================================== well-formedness is kept by the operations *)
Lemma obj_ok_ins : forall (A : Type) (f : A -> bool) k v l,
  obj_ok f l = true -> str_ok k = true -> f v = true -> obj_ok f (ins k v l) = true.
Proof.
  induction l as [|[k' v'] r IH]; simpl; intros H Hk Hv.
  - rewrite Hk, Hv. reflexivity.
  - apply andb_true_iff in H. destruct H as [H1 H2]. simpl in H1.
    destruct (str_eqb k k'); simpl.
    + rewrite Hk, Hv, H2. reflexivity.
    + destruct (str_ltb k k'); simpl.
      * rewrite Hk, Hv, H1, H2. reflexivity.
      * rewrite H1. simpl. apply IH; auto.
Qed.

Lemma obj_ok_del : forall (A : Type) (f : A -> bool) k l, obj_ok f l = true -> obj_ok f (del k l) = true.
Proof.
  induction l as [|[k' v'] r IH]; simpl; intro H; auto.
  apply andb_true_iff in H. destruct H as [H1 H2].
  destruct (str_eqb k k'); simpl; auto. rewrite H1. simpl. auto.
Qed.

Lemma obj_ok_merge : forall (A : Type) (f : A -> bool) new d,
  obj_ok f d = true -> obj_ok f new = true -> obj_ok f (merge d new) = true.
Proof.
  induction new as [|[k v] r IH]; simpl; intros d Hd Hn; auto.
  apply andb_true_iff in Hn. destruct Hn as [H1 H2]. simpl in H1. apply andb_true_iff in H1. destruct H1.
  apply IH; auto. apply obj_ok_ins; auto.
Qed.

Lemma obj_ok_lookup : forall (A : Type) (f : A -> bool) k l v,
  obj_ok f l = true -> lookup k l = Some v -> f v = true.
Proof.
  induction l as [|[k' v'] r IH]; simpl; intros v H L; try discriminate.
  apply andb_true_iff in H. destruct H as [H1 H2]. simpl in H1. apply andb_true_iff in H1.
  destruct (str_eqb k k').
  - inversion L; subst. tauto.
  - eapply IH; eauto.
Qed.

Lemma obj_ok_entries : forall (A : Type) (f : A -> bool) k (l : list (str * list (str * A))),
  obj_ok (obj_ok f) l = true -> obj_ok f (entries k l) = true.
Proof.
  intros. unfold entries. destruct (lookup k l) eqn:E; auto.
  eapply obj_ok_lookup in E; eauto.
Qed.

Lemma obj_ok_app : forall (A : Type) (f : A -> bool) a b, obj_ok f (a ++ b) = obj_ok f a && obj_ok f b.
Proof. intros. unfold obj_ok. apply forallb_app. Qed.

Lemma key_to_dict_ok : forall k, key_ok k = true -> obj_ok kval_ok (key_to_dict k) = true.
Proof.
  intros [v a e r] H. unfold key_ok in H. simpl in H. apply andb_true_iff in H. destruct H as [Hv Hr].
  unfold key_to_dict. simpl. destruct e, r; simpl; simpl in Hr; rewrite ?hex_enc_ok; auto.
Qed.

Lemma optm_key_ok : forall F o, str_ok F = true -> okey_ok o = true ->
  obj_ok fval_ok (optm F (fun x => FvKey (key_to_dict x)) o) = true.
Proof.
  intros F o HF H. destruct o as [x|]; [|reflexivity]. simpl in H.
  pose proof (key_to_dict_ok x H) as Hx.
  change (obj_ok fval_ok (optm F (fun x0 => FvKey (key_to_dict x0)) (Some x)))
    with (str_ok F && obj_ok kval_ok (key_to_dict x) && true).
  rewrite HF, Hx. reflexivity.
Qed.

Lemma optm_int_ok : forall F o, str_ok F = true -> obj_ok fval_ok (optm F FvInt o) = true.
Proof. intros F o HF. destruct o; simpl; auto. rewrite HF. auto. Qed.

Lemma to_dict_ok : forall k, keys_ok k = true -> pdict_ok (to_dict k) = true.
Proof.
  intros k H. unfold keys_ok in H. repeat (apply andb_true_iff in H; destruct H as [H ?]).
  unfold pdict_ok, to_dict. rewrite !obj_ok_app.
  rewrite !optm_int_ok by reflexivity. rewrite !optm_key_ok by (auto; reflexivity). reflexivity.
Qed.

Definition op_ok (o : op) : bool :=
  match o with
  | Update name k => str_ok name && keys_ok k
  | Delete name => str_ok name
  | Get name => str_ok name
  | _ => true
  end.

Lemma resolve_ok : forall d h, db_ok d = true -> str_ok h = true -> str_ok (resolve d h) = true.
Proof.
  intros d h Hd Hh. unfold resolve. destruct (has h d); auto.
  destruct (str_eqb h DEFAULT_NAMESPACE && Nat.eqb (List.length d) ADOPT_COUNT); auto.
  destruct d as [|[ns m] r]; auto. simpl in Hd. apply andb_true_iff in Hd. destruct Hd as [H1 _].
  simpl in H1. apply andb_true_iff in H1. tauto.
Qed.

Lemma a_load_ok : forall d h, db_ok d = true -> str_ok h = true ->
  db_ok (fst (a_load d h)) = true /\ str_ok (snd (a_load d h)) = true.
Proof.
  intros d h Hd Hh. unfold a_load. pose proof (resolve_ok d h Hd Hh) as Hr.
  destruct (has (resolve d h) d); simpl; split; auto.
  apply obj_ok_ins; auto.
Qed.

Lemma a_apply_ok : forall d h o d' r, db_ok d = true -> str_ok h = true -> op_ok o = true ->
  a_apply d h o = (Some d', r) -> db_ok d' = true.
Proof.
  intros d h o d' r Hd Hh Ho E. unfold a_apply in E.
  destruct (a_load_ok d h Hd Hh) as [H1 H2].
  destruct (a_load d h) as [d1 ns]. simpl in H1, H2.
  assert (kmap_ok (entries ns d1) = true) as Hkm by (apply obj_ok_entries; auto).
  destruct o; simpl in Ho.
  - inversion E; subst. apply andb_true_iff in Ho. destruct Ho as [Hn Hk].
    apply obj_ok_ins; auto. apply obj_ok_ins; auto.
    apply obj_ok_merge. apply obj_ok_entries; auto. apply to_dict_ok; auto.
  - destruct (has name (entries ns d1)); inversion E; subst.
    apply obj_ok_ins; auto. apply obj_ok_del; auto.
  - inversion E; subst. apply obj_ok_ins; auto.
  - inversion E.
  - inversion E.
Qed.

(* ================================================================== file-system steps of save *)
Lemma exec_steps_app : forall a b f,
  exec_steps f (a ++ b) = match exec_steps f a with Some f' => exec_steps f' b | None => None end.
Proof.
  induction a as [|s a IH]; intros; simpl; auto.
  destruct (exec_step f s); auto.
Qed.

Lemma chunks_concat : forall lens b, concat (chunks lens b) = b.
Proof.
  induction lens as [|n ls IH]; intros; simpl.
  - apply app_nil_r.
  - rewrite IH. apply firstn_skipn.
Qed.

(* writes only fill the buffer *)
Lemma exec_writes : forall cs d m t b,
  exec_steps (MkFs d m t (Some (PTmp, b))) (map (SWrite PTmp) cs) = Some (MkFs d m t (Some (PTmp, b ++ concat cs))).
Proof.
  induction cs as [|c cs IH]; intros; simpl.
  - rewrite app_nil_r. reflexivity.
  - unfold set_buf. simpl. rewrite IH. rewrite <- app_assoc. reflexivity.
Qed.

Definition saved (d : db) : fs := mkFs true (Some (ser_db d)) None.

(* everything before the rename *)
Definition save_pre (f : fs) (d : db) (lens : list nat) : list step :=
  (if f_dir f then [] else [SMkdir]) ++ [SOpenTrunc PTmp]
  ++ map (SWrite PTmp) (chunks lens (ser_db d)) ++ [SClose PTmp].

Lemma save_steps_split : forall f d lens, save_steps f d lens = save_pre f d lens ++ [SRename PTmp PMain].
Proof.
  intros. unfold save_steps, save_pre. rewrite <- !app_assoc. simpl. reflexivity.
Qed.

Lemma save_pre_exec : forall f d lens,
  exec_steps f (save_pre f d lens) = Some (mkFs true (f_main f) (Some (ser_db d))).
Proof.
  intros [dir m t bf] d lens. unfold save_pre. simpl f_dir.
  assert (forall m t bf, exec_steps (MkFs true m t bf) ([SOpenTrunc PTmp] ++ map (SWrite PTmp) (chunks lens (ser_db d)) ++ [SClose PTmp])
          = Some (mkFs true m (Some (ser_db d)))) as H.
  { intros m0 t0 b0. simpl. rewrite exec_steps_app. unfold fset, set_buf. simpl.
    rewrite exec_writes. simpl. rewrite chunks_concat. reflexivity. }
  destruct dir; simpl List.app.
  - apply H.
  - change (exec_steps (MkFs false m t bf) (SMkdir :: ?l)) with (exec_steps (MkFs true m t bf) l). apply H.
Qed.

(* a completed save: exactly the new text in the key file, no temporary file, nothing buffered *)
Theorem save_exec : forall f d lens, exec_steps f (save_steps f d lens) = Some (saved d).
Proof.
  intros. rewrite save_steps_split, exec_steps_app, save_pre_exec. reflexivity.
Qed.

(* steps that cannot touch the key file *)
Definition tmp_only (s : step) : bool :=
  match s with
  | SMkdir | SOpenTrunc PTmp | SWrite PTmp _ | SClose PTmp => true
  | _ => false
  end.

(* no file object is writing to the key file *)
Definition buf_off_main (f : fs) : bool :=
  match f_buf f with Some (PMain, _) => false | _ => true end.

Lemma tmp_only_step : forall s f f', tmp_only s = true -> buf_off_main f = true -> exec_step f s = Some f' ->
  f_main f' = f_main f /\ buf_off_main f' = true.
Proof.
  intros s [dir m t bf] f' H B E. unfold buf_off_main in *. simpl in B.
  destruct s as [|[|]|[|] c|[|]|a b]; simpl in H; try discriminate; simpl in E.
  - inversion E; subst; simpl; auto.
  - destruct dir; inversion E; subst; simpl; auto.
  - destruct bf as [[[|] b]|]; simpl in E; try discriminate. inversion E; subst; simpl; auto.
  - destruct bf as [[[|] b]|]; simpl in E; try discriminate.
    destruct t; inversion E; subst; simpl; auto.
Qed.

Lemma die_main : forall cut f, buf_off_main f = true ->
  f_main (die cut f) = f_main f /\ f_buf (die cut f) = None \/ (f_buf f = None /\ die cut f = f).
Proof.
  intros cut [dir m t bf] B. unfold buf_off_main in B. simpl in B. unfold die. simpl.
  destruct bf as [[[|] b]|]; try discriminate.
  - left. destruct t; simpl; auto.
  - right. auto.
Qed.

Lemma die_props : forall cut f, buf_off_main f = true ->
  f_main (die cut f) = f_main f /\ (f_buf f = None -> die cut f = f) /\
  (f_buf (die cut f) = None).
Proof.
  intros cut [dir m t bf] B. unfold buf_off_main in B. simpl in B. unfold die. simpl.
  destruct bf as [[[|] b]|]; try discriminate.
  - destruct t; simpl; repeat split; auto; discriminate.
  - simpl. repeat split; auto.
Qed.

Lemma crash_tmp_only : forall l f f1 k cut,
  forallb tmp_only l = true -> buf_off_main f = true -> exec_steps f l = Some f1 ->
  exists f', crash_exec k cut l f = Some f' /\ f_main f' = f_main f /\ f_buf f' = None.
Proof.
  induction l as [|s l IH]; intros f f1 k cut H B E.
  - destruct (die_props cut f B) as (M & _ & N). exists (die cut f). destruct k; auto.
  - simpl in H. apply andb_true_iff in H. destruct H as [Hs Hl].
    simpl in E. destruct (exec_step f s) as [f2|] eqn:E2; try discriminate.
    destruct (tmp_only_step s f f2 Hs B E2) as [M2 B2].
    destruct k as [|k]; cbn [crash_exec].
    + destruct (die_props cut f B) as (M & _ & N). destruct (die_props cut f2 B2) as (M' & _ & N').
      destruct s as [|p|p c|p|a b]; try (exists (die cut f); auto; fail).
      rewrite E2. exists (die cut f2). repeat split; auto. congruence.
    + rewrite E2. destruct (IH f2 f1 k cut Hl B2 E) as (f' & C & M & N). exists f'. repeat split; auto. congruence.
Qed.

Lemma crash_exec_app : forall a b k cut f,
  crash_exec k cut (a ++ b) f =
  if (k <? List.length a)%nat then crash_exec k cut a f
  else match exec_steps f a with Some f' => crash_exec (k - List.length a) cut b f' | None => None end.
Proof.
  induction a as [|s a IH]; intros b k cut f.
  - simpl. rewrite Nat.sub_0_r. reflexivity.
  - destruct k as [|k].
    + reflexivity.
    + cbn [List.app crash_exec List.length exec_steps]. destruct (exec_step f s) as [f2|].
      * rewrite IH. reflexivity.
      * destruct (S k <? S (List.length a))%nat; reflexivity.
Qed.

Lemma crash_exec_all : forall l k cut f, (List.length l <= k)%nat ->
  crash_exec k cut l f = option_map (die cut) (exec_steps f l).
Proof.
  induction l as [|s l IH]; intros k cut f H.
  { destruct k; reflexivity. }
  destruct k as [|k]; [simpl in H; lia|]. simpl.
  destruct (exec_step f s); auto. apply IH. simpl in H. lia.
Qed.

Lemma save_pre_tmp_only : forall f d lens, forallb tmp_only (save_pre f d lens) = true.
Proof.
  intros. unfold save_pre. rewrite !forallb_app. destruct (f_dir f); simpl.
  - rewrite andb_true_r. induction (chunks lens (ser_db d)); simpl; auto.
  - rewrite andb_true_r. induction (chunks lens (ser_db d)); simpl; auto.
Qed.

(* the heart of crash atomicity: wherever save is interrupted and whatever part of the buffered
   data had reached the temporary file, the key file is untouched until the rename, and complete
   after it (the rename comes after the close, so nothing is buffered any more) *)
Theorem save_crash : forall f d lens k cut, f_buf f = None ->
  exists f', crash_exec k cut (save_steps f d lens) f = Some f' /\ f_buf f' = None /\
    ((k < List.length (save_steps f d lens))%nat -> f_main f' = f_main f) /\
    ((List.length (save_steps f d lens) <= k)%nat -> f' = saved d).
Proof.
  intros f d lens k cut Hb.
  assert (buf_off_main f = true) as B by (unfold buf_off_main; rewrite Hb; reflexivity).
  destruct (Nat.le_gt_cases (List.length (save_steps f d lens)) k) as [Hk|Hk].
  - exists (saved d). rewrite crash_exec_all by auto. rewrite save_exec. repeat split; auto. lia.
  - rewrite save_steps_split in *. rewrite app_length in Hk. simpl in Hk.
    rewrite crash_exec_app.
    destruct (k <? List.length (save_pre f d lens))%nat eqn:L.
    + destruct (crash_tmp_only _ f _ k cut (save_pre_tmp_only f d lens) B (save_pre_exec f d lens)) as (f' & C & M & N).
      exists f'. repeat split; auto. rewrite app_length. simpl. lia.
    + rewrite save_pre_exec.
      assert (k - List.length (save_pre f d lens) = 0)%nat as Z by lia. rewrite Z. simpl.
      eexists. split; [reflexivity|]. repeat split; auto. rewrite app_length. simpl. lia.
Qed.

(* ================================================================== refinement: the files behave like the database *)
(* the key file holds (a text that reads as) the well-formed database d and no file object is open
   (between operations none is); the ".tmp" file and the directory flag are unconstrained: leftovers
   of an interrupted save are harmless *)
Definition rel (f : fs) (d : db) : Prop := db_ok d = true /\ read_db f = Some d /\ f_buf f = None.

Lemma rel_saved : forall d, db_ok d = true -> rel (saved d) d.
Proof. intros d H. split; auto. split; [|reflexivity]. unfold read_db, saved. simpl. apply parse_ser; auto. Qed.

Lemma rel_init : forall dir tmp, rel (mkFs dir None tmp) [].
Proof. intros. repeat split; reflexivity. Qed.

Lemma rel_same_main : forall f f' d, rel f d -> f_main f' = f_main f -> f_buf f' = None -> rel f' d.
Proof. intros f f' d (H1 & H2 & H3) E N. repeat split; auto. unfold read_db in *. rewrite E. auto. Qed.

Definition item_ok (it : item) : bool :=
  match it with
  | Do h o _ => str_ok h && op_ok o
  | Crash h o _ _ _ => str_ok h && op_ok o
  end.

Lemma c_item_do : forall f d h o lens, rel f d -> str_ok h = true -> op_ok o = true ->
  let '(f', x) := c_item f (Do h o lens) in
  let '(d', x') := a_step d h o in
  x = x' /\ rel f' d'.
Proof.
  intros f d h o lens (Hd & Hr & Hb) Hh Ho. unfold c_item, a_step. rewrite Hr.
  destruct (a_apply d h o) as [[d'|] r] eqn:E.
  - rewrite save_exec. split; auto. apply rel_saved. eapply a_apply_ok; eauto.
  - split; auto. repeat split; auto.
Qed.

(* an interrupted operation leaves the old database or the new one *)
Lemma c_item_crash : forall f d h o lens k cut, rel f d -> str_ok h = true -> op_ok o = true ->
  let '(f', x) := c_item f (Crash h o lens k cut) in
  (rel f' d /\ x = match fst (a_apply d h o) with Some _ => OCrashed | None => snd (a_apply d h o) end)
  \/ (rel f' (fst (a_step d h o)) /\ x = snd (a_step d h o)).
Proof.
  intros f d h o lens k cut (Hd & Hr & Hb) Hh Ho. unfold c_item, a_step. rewrite Hr.
  destruct (a_apply d h o) as [[d'|] r] eqn:E; simpl fst; simpl snd.
  - destruct (save_crash f d' lens k cut Hb) as (f' & C & N & Hold & Hnew).
    destruct (k <? List.length (save_steps f d' lens))%nat eqn:L.
    + rewrite C. left. split; auto. apply rel_same_main with f; auto. repeat split; auto. apply Hold. lia.
    + rewrite save_exec. right. split; auto. apply rel_saved. eapply a_apply_ok; eauto.
  - left. split; auto. repeat split; auto.
Qed.

Theorem store_refines_map : forall items f d,
  rel f d -> forallb item_ok items = true ->
  exists commits,
    let '(f', outs) := c_run f items in
    let '(d', outs') := a_run d items commits in
    outs = outs' /\ rel f' d'.
Proof.
  induction items as [|it items IH]; intros f d R Hok.
  - exists []. simpl. auto.
  - simpl in Hok. apply andb_true_iff in Hok. destruct Hok as [Hit Hrest].
    destruct it as [h o lens|h o lens k cut]; simpl in Hit; apply andb_true_iff in Hit; destruct Hit as [Hh Ho].
    + pose proof (c_item_do f d h o lens R Hh Ho) as S1.
      cbn [c_run a_run]. destruct (c_item f (Do h o lens)) as [f1 x].
      destruct (a_step d h o) as [d1 x1]. destruct S1 as [Ex R1].
      destruct (IH f1 d1 R1 Hrest) as [cs S2]. exists cs.
      destruct (c_run f1 items) as [f2 os]. destruct (a_run d1 items cs) as [d2 os'].
      destruct S2 as [Eo R2]. subst. auto.
    + pose proof (c_item_crash f d h o lens k cut R Hh Ho) as S1.
      cbn [c_run]. destruct (c_item f (Crash h o lens k cut)) as [f1 x].
      destruct S1 as [[R1 Ex]|[R1 Ex]].
      * destruct (IH f1 d R1 Hrest) as [cs S2]. exists (false :: cs). cbn [a_run].
        destruct (c_run f1 items) as [f2 os]. destruct (a_run d items cs) as [d2 os'].
        destruct S2 as [Eo R2]. subst. auto.
      * destruct (IH f1 _ R1 Hrest) as [cs S2]. exists (true :: cs). cbn [a_run].
        destruct (a_step d h o) as [d1 x1]. simpl fst in *. simpl snd in *.
        destruct (c_run f1 items) as [f2 os]. destruct (a_run d1 items cs) as [d2 os'].
        destruct S2 as [Eo R2]. subst. auto.
Qed.

(* without crashes: every history of operations through any handles on one file returns
   exactly what the database operations return, and the file always reads back *)
Fixpoint no_crash (l : list item) : bool :=
  match l with [] => true | Do _ _ _ :: r => no_crash r | Crash _ _ _ _ _ :: _ => false end.

Lemma a_run_no_crash : forall items d cs, no_crash items = true -> a_run d items cs = a_run d items [].
Proof.
  induction items as [|[h o lens|h o lens k cut] items IH]; intros d cs H; simpl in *; auto; try discriminate.
  destruct (a_step d h o) as [d1 x]. rewrite (IH d1 cs H). reflexivity.
Qed.

Theorem store_refines_map_no_crash : forall items f d,
  rel f d -> forallb item_ok items = true -> no_crash items = true ->
  let '(f', outs) := c_run f items in
  let '(d', outs') := a_run d items [] in
  outs = outs' /\ rel f' d'.
Proof.
  intros items f d R Hok Hn. destruct (store_refines_map items f d R Hok) as [cs S].
  rewrite (a_run_no_crash items d cs Hn) in S. exact S.
Qed.

(* crash atomicity of one operation: for every mutating operation, every crash point k of its
   step list and every amount [cut] of the still-buffered data that had reached the disk, the file
   afterwards reads as the complete previous database or the complete new one *)
Theorem crash_atomic : forall f d h o lens k cut,
  rel f d -> str_ok h = true -> op_ok o = true ->
  exists f', crash_exec k cut (op_steps f h o lens) f = Some f' /\
    (f_main f' = f_main f \/ f_main f' = Some (ser_db (fst (a_step d h o)))) /\
    (read_db f' = Some d \/ read_db f' = Some (fst (a_step d h o))) /\
    ((k < List.length (op_steps f h o lens))%nat -> read_db f' = Some d) /\
    ((List.length (op_steps f h o lens) <= k)%nat -> read_db f' = Some (fst (a_step d h o))).
Proof.
  intros f d h o lens k cut (Hd & Hr & Hb) Hh Ho. unfold op_steps, a_step. rewrite Hr.
  destruct (a_apply d h o) as [[d'|] r] eqn:E; simpl fst.
  - destruct (save_crash f d' lens k cut Hb) as (f' & C & N & Hold & Hnew).
    assert (db_ok d' = true) as Hd' by (eapply a_apply_ok; eauto).
    exists f'. split; auto.
    destruct (Nat.le_gt_cases (List.length (save_steps f d' lens)) k) as [Hk|Hk].
    + rewrite (Hnew Hk). unfold read_db, saved. simpl. rewrite parse_ser by auto.
      repeat split; auto. intro. lia.
    + assert (read_db f' = Some d) as Hrd by (unfold read_db in *; rewrite (Hold Hk); auto).
      repeat split; auto. intro. lia.
  - exists f. split.
    { assert (die cut f = f) as D by (unfold die; rewrite Hb; reflexivity). destruct k; simpl; rewrite D; reflexivity. }
    repeat split; auto.
Qed.

(* ================================================================== the database as a map: isolation and the map laws *)
Lemma a_load_lookup : forall d h ns, str_eqb ns (resolve d h) = false ->
  lookup ns (fst (a_load d h)) = lookup ns d.
Proof.
  intros d h ns H. unfold a_load. destruct (has (resolve d h) d); simpl; auto.
  apply lookup_ins_other; auto.
Qed.

Lemma a_load_snd : forall d h, snd (a_load d h) = resolve d h.
Proof. intros. unfold a_load. destruct (has (resolve d h) d); reflexivity. Qed.

Lemma entries_ins_same : forall (A : Type) k (v : list A) l, entries k (ins k v l) = v.
Proof. intros. unfold entries. rewrite lookup_ins_same. reflexivity. Qed.

Lemma has_false_entries : forall (A : Type) k (l : list (str * list A)), has k l = false -> entries k l = [].
Proof. intros A k l. unfold has, entries. destruct (lookup k l); [discriminate|reflexivity]. Qed.

Lemma has_lookup_eq : forall (A : Type) k (l l' : list (str * A)), lookup k l = lookup k l' -> has k l = has k l'.
Proof. intros A k l l' E. unfold has. rewrite E. reflexivity. Qed.

Lemma entries_lookup_eq : forall (A : Type) k (l l' : list (str * list A)),
  lookup k l = lookup k l' -> entries k l = entries k l'.
Proof. intros A k l l' E. unfold entries. rewrite E. reflexivity. Qed.

Lemma a_load_entries : forall d h, entries (resolve d h) (fst (a_load d h)) = entries (resolve d h) d.
Proof.
  intros. unfold a_load. destruct (has (resolve d h) d) eqn:E; simpl.
  - reflexivity.
  - rewrite entries_ins_same. symmetry. apply has_false_entries. exact E.
Qed.

(* the new key map of the namespace a handle works on, for the operations that save *)
Definition new_kmap (m : kmap) (o : op) : kmap :=
  match o with
  | Update name k => ins name (merge (entries name m) (to_dict k)) m
  | Delete name => del name m
  | DeleteAll => []
  | _ => m
  end.

(* a_apply in terms of what the handle sees *)
Lemma a_apply_eq : forall d h o,
  a_apply d h o =
  let R := resolve d h in let V := view d h in let D1 := fst (a_load d h) in
  match o with
  | Update name k => (Some (ins R (new_kmap V o) D1), ODone)
  | Delete name => if has name V then (Some (ins R (del name V) D1), ODone) else (None, OKeyError)
  | DeleteAll => (Some (ins R [] D1), ODone)
  | Get name => (None, match lookup name V with
                       | None => OGet None
                       | Some pd => match from_dict pd with Some k => OGet (Some k) | None => OBadKeys end
                       end)
  | GetAll => (None, match all_from_dict V with Some l => OAll l | None => OBadKeys end)
  end.
Proof.
  intros d h o. unfold a_apply, view. rewrite <- (a_load_entries d h). pose proof (a_load_snd d h) as Hs.
  destruct (a_load d h) as [d1 ns]. simpl in *. subst ns. destruct o; reflexivity.
Qed.

Lemma a_apply_shape : forall d h o d' r, a_apply d h o = (Some d', r) ->
  d' = ins (resolve d h) (new_kmap (view d h) o) (fst (a_load d h)) /\ r = ODone.
Proof.
  intros d h o d' r E. rewrite a_apply_eq in E. destruct o; simpl in E.
  - inversion E; auto.
  - destruct (has name (view d h)); inversion E; auto.
  - inversion E; auto.
  - inversion E.
  - inversion E.
Qed.

(* Namespaces are isolated: an operation through handle h changes nothing but the entry of
   the namespace h resolves to. *)
Theorem namespaces_isolated : forall d h o ns,
  str_eqb ns (resolve d h) = false -> lookup ns (fst (a_step d h o)) = lookup ns d.
Proof.
  intros d h o ns H. unfold a_step. destruct (a_apply d h o) as [[d'|] r] eqn:E; simpl; auto.
  apply a_apply_shape in E. destruct E as [E _]. subst d'.
  rewrite lookup_ins_other; auto. apply a_load_lookup; auto.
Qed.

(* ... hence what any other named handle (or a default handle whose namespace exists) sees
   is unchanged *)
Lemma resolve_named : forall d h, str_eqb h DEFAULT_NAMESPACE = false -> resolve d h = h.
Proof. intros d h H. unfold resolve. rewrite H. simpl. destruct (has h d); reflexivity. Qed.

Lemma resolve_present : forall d h, has h d = true -> resolve d h = h.
Proof. intros d h H. unfold resolve. rewrite H. reflexivity. Qed.

Theorem other_handles_unchanged : forall d h o h2,
  str_eqb h2 (resolve d h) = false ->
  (str_eqb h2 DEFAULT_NAMESPACE = false \/ has h2 d = true) ->
  view (fst (a_step d h o)) h2 = view d h2.
Proof.
  intros d h o h2 Hne Hh2.
  pose proof (namespaces_isolated d h o h2 Hne) as L.
  assert (resolve d h2 = h2 /\ resolve (fst (a_step d h o)) h2 = h2) as [R1 R2].
  { destruct Hh2 as [Hn|Hp].
    - split; apply resolve_named; auto.
    - split; apply resolve_present; auto. rewrite (has_lookup_eq _ _ _ _ L). auto. }
  unfold view. rewrite R1, R2. apply entries_lookup_eq. exact L.
Qed.

(* the handle that performed the operation keeps resolving to the same namespace *)
Lemma resolve_after : forall d h o d' r, a_apply d h o = (Some d', r) -> resolve d' h = resolve d h.
Proof.
  intros d h o d' r E. apply a_apply_shape in E. destruct E as [E _]. subst d'.
  unfold resolve at 2 3. unfold a_load. unfold resolve at 2 3 4 5.
  destruct (has h d) eqn:Hh.
  - rewrite Hh. simpl. apply resolve_present. apply has_ins_same.
  - destruct (str_eqb h DEFAULT_NAMESPACE && Nat.eqb (List.length d) ADOPT_COUNT) eqn:C.
    + destruct d as [|[ns m] [|x y]]; simpl in C; try (rewrite andb_false_r in C; discriminate).
      unfold has in Hh. simpl in Hh. destruct (str_eqb h ns) eqn:Ens; try discriminate.
      unfold has. simpl. rewrite !str_eqb_refl. simpl. rewrite str_eqb_refl.
      unfold resolve. unfold has. simpl. rewrite Ens. apply andb_true_iff in C. destruct C as [C _].
      rewrite C. reflexivity.
    + destruct (has h d) eqn:Hh2; try discriminate.
      simpl. apply resolve_present. apply has_ins_same.
Qed.

(* The view of the handle evolves as a map: update inserts the merged entry, delete removes
   it, delete_all empties it, reads change nothing. *)
Theorem view_after : forall d h o,
  view (fst (a_step d h o)) h =
  match o with
  | Delete name => if has name (view d h) then del name (view d h) else view d h
  | _ => new_kmap (view d h) o
  end.
Proof.
  intros d h o. unfold a_step. destruct (a_apply d h o) as [[d'|] r] eqn:E; simpl fst.
  - pose proof (resolve_after d h o d' r E) as R. pose proof E as E0.
    apply a_apply_shape in E. destruct E as [E _].
    unfold view at 1. rewrite R. subst d'. unfold entries at 1. rewrite lookup_ins_same.
    destruct o; try reflexivity.
    rewrite a_apply_eq in E0. simpl in E0. destruct (has name (view d h)); try discriminate. reflexivity.
  - rewrite a_apply_eq in E. destruct o; simpl in E; try discriminate; try reflexivity.
    destruct (has name (view d h)); try discriminate. reflexivity.
Qed.

(* what the reads return is a function of the view alone *)
Theorem reads_from_view : forall d h,
  (forall name, snd (a_step d h (Get name)) =
     match lookup name (view d h) with
     | None => OGet None
     | Some pd => match from_dict pd with Some k => OGet (Some k) | None => OBadKeys end
     end) /\
  snd (a_step d h GetAll) = match all_from_dict (view d h) with Some l => OAll l | None => OBadKeys end.
Proof. intros d h. unfold a_step. split; [intro name|]; rewrite a_apply_eq; reflexivity. Qed.

(* delete of a name that is not stored: KeyError and no change *)
Theorem delete_missing : forall d h name, has name (view d h) = false ->
  a_step d h (Delete name) = (d, OKeyError).
Proof. intros d h name H. unfold a_step. rewrite a_apply_eq. simpl. rewrite H. reflexivity. Qed.

(* ================================================================== update merges field by field *)
Definition over {A : Type} (new old : option A) : option A :=
  match new with Some x => Some x | None => old end.

(* the PairingKeys an update leaves: the fields present in the new value replace the stored
   ones, the others are kept *)
Definition overlay (old new : pkeys) : pkeys :=
  mkKeys (over (address_type new) (address_type old))
         (over (ltk new) (ltk old)) (over (ltk_central new) (ltk_central old))
         (over (ltk_peripheral new) (ltk_peripheral old)) (over (irk new) (irk old))
         (over (csrk new) (csrk old)) (over (link_key new) (link_key old))
         (over (link_key_type new) (link_key_type old)).

Lemma merge_to_dict : forall pd k,
  merge pd (to_dict k) =
  oins F_ltk_peripheral fkey (ltk_peripheral k) (oins F_ltk_central fkey (ltk_central k)
  (oins F_ltk fkey (ltk k) (oins F_link_key_type FvInt (link_key_type k)
  (oins F_link_key fkey (link_key k) (oins F_irk fkey (irk k) (oins F_csrk fkey (csrk k)
  (oins F_address_type FvInt (address_type k) pd))))))).
Proof. intros. unfold to_dict. rewrite !merge_app, !merge_optm. reflexivity. Qed.

Ltac eqb_compute :=
  repeat match goal with |- context [str_eqb ?x ?y] =>
    let b := eval vm_compute in (str_eqb x y) in change (str_eqb x y) with b; cbv iota end.

Lemma merge_to_dict_lookup : forall pd k,
  let M := merge pd (to_dict k) in
  lookup F_address_type M = over (option_map FvInt (address_type k)) (lookup F_address_type pd) /\
  lookup F_csrk M = over (option_map fkey (csrk k)) (lookup F_csrk pd) /\
  lookup F_irk M = over (option_map fkey (irk k)) (lookup F_irk pd) /\
  lookup F_link_key M = over (option_map fkey (link_key k)) (lookup F_link_key pd) /\
  lookup F_link_key_type M = over (option_map FvInt (link_key_type k)) (lookup F_link_key_type pd) /\
  lookup F_ltk M = over (option_map fkey (ltk k)) (lookup F_ltk pd) /\
  lookup F_ltk_central M = over (option_map fkey (ltk_central k)) (lookup F_ltk_central pd) /\
  lookup F_ltk_peripheral M = over (option_map fkey (ltk_peripheral k)) (lookup F_ltk_peripheral pd).
Proof.
  intros pd k M. subst M. rewrite merge_to_dict.
  repeat split; rewrite !lookup_oins; eqb_compute;
    match goal with |- context [match ?o with Some _ => _ | None => _ end] => destruct o end; reflexivity.
Qed.

Lemma get_fint_over : forall F M pd o old,
  lookup F M = over (option_map FvInt o) (lookup F pd) -> get_fint F pd = Some old ->
  get_fint F M = Some (over o old).
Proof.
  intros F M pd o old L G. unfold get_fint in *. rewrite L. destruct o; simpl; auto.
Qed.

Lemma get_fkey_over : forall F M pd o old, okey_ok o = true ->
  lookup F M = over (option_map fkey o) (lookup F pd) -> get_fkey F pd = Some old ->
  get_fkey F M = Some (over o old).
Proof.
  intros F M pd o old Hok L G. unfold get_fkey in *. rewrite L. destruct o as [x|]; simpl; auto.
  simpl in Hok. rewrite key_rt; auto.
Qed.

Lemma from_dict_inv : forall pd old, from_dict pd = Some old ->
  get_fint F_address_type pd = Some (address_type old) /\ get_fkey F_ltk pd = Some (ltk old) /\
  get_fkey F_ltk_central pd = Some (ltk_central old) /\ get_fkey F_ltk_peripheral pd = Some (ltk_peripheral old) /\
  get_fkey F_irk pd = Some (irk old) /\ get_fkey F_csrk pd = Some (csrk old) /\
  get_fkey F_link_key pd = Some (link_key old) /\ get_fint F_link_key_type pd = Some (link_key_type old).
Proof.
  intros pd old H. unfold from_dict in H.
  destruct (get_fint F_address_type pd), (get_fkey F_ltk pd), (get_fkey F_ltk_central pd),
    (get_fkey F_ltk_peripheral pd), (get_fkey F_irk pd), (get_fkey F_csrk pd), (get_fkey F_link_key pd),
    (get_fint F_link_key_type pd); try discriminate.
  inversion H; subst. simpl. repeat split; reflexivity.
Qed.

Theorem update_overlay : forall pd old k,
  from_dict pd = Some old -> keys_ok k = true ->
  from_dict (merge pd (to_dict k)) = Some (overlay old k).
Proof.
  intros pd old k Hold Hk. unfold keys_ok in Hk. repeat (apply andb_true_iff in Hk; destruct Hk as [Hk ?]).
  destruct (from_dict_inv pd old Hold) as (G1 & G2 & G3 & G4 & G5 & G6 & G7 & G8).
  destruct (merge_to_dict_lookup pd k) as (L1 & L2 & L3 & L4 & L5 & L6 & L7 & L8).
  unfold from_dict.
  rewrite (get_fint_over _ _ _ _ _ L1 G1), (get_fint_over _ _ _ _ _ L5 G8).
  rewrite (get_fkey_over _ _ _ (ltk k) _ Hk L6 G2), (get_fkey_over _ _ _ (ltk_central k) _ H3 L7 G3),
          (get_fkey_over _ _ _ (ltk_peripheral k) _ H2 L8 G4), (get_fkey_over _ _ _ (irk k) _ H1 L3 G5),
          (get_fkey_over _ _ _ (csrk k) _ H0 L2 G6), (get_fkey_over _ _ _ (link_key k) _ H L4 G7).
  reflexivity.
Qed.

(* a new peer: the stored keys are exactly the keys given *)
Lemma from_dict_nil : from_dict [] = Some (mkKeys None None None None None None None None).
Proof. reflexivity. Qed.

Corollary update_new_peer : forall k, keys_ok k = true -> from_dict (merge [] (to_dict k)) = Some k.
Proof.
  intros k H. rewrite (update_overlay [] _ k from_dict_nil H). destruct k as [a k1 k2 k3 k4 k5 k6 t].
  unfold overlay, over; simpl. destruct a, k1, k2, k3, k4, k5, k6, t; reflexivity.
Qed.

(* ================================================================== key order is kept (sort_keys) *)
Definition fval_sorted (v : fval) : bool := match v with FvKey d => sorted d | FvInt _ => true end.
Definition all_snd {A : Type} (f : A -> bool) (l : list (str * A)) : bool := forallb (fun m => f (snd m)) l.
Definition pdict_sorted (d : pdict) : bool := sorted d && all_snd fval_sorted d.
Definition kmap_sorted (m : kmap) : bool := sorted m && all_snd pdict_sorted m.
Definition db_sorted (d : db) : bool := sorted d && all_snd kmap_sorted d.

Lemma all_snd_ins : forall (A : Type) (f : A -> bool) k v l, all_snd f l = true -> f v = true -> all_snd f (ins k v l) = true.
Proof.
  induction l as [|[k' v'] r IH]; simpl; intros H Hv.
  - rewrite Hv. reflexivity.
  - apply andb_true_iff in H. destruct H as [H1 H2]. simpl in H1.
    destruct (str_eqb k k'); simpl.
    + rewrite Hv, H2. reflexivity.
    + destruct (str_ltb k k'); simpl.
      * rewrite Hv, H1, H2. reflexivity.
      * rewrite H1. simpl. apply IH; auto.
Qed.

Lemma all_snd_del : forall (A : Type) (f : A -> bool) k l, all_snd f l = true -> all_snd f (del k l) = true.
Proof.
  induction l as [|[k' v'] r IH]; simpl; intro H; auto.
  apply andb_true_iff in H. destruct H as [H1 H2].
  destruct (str_eqb k k'); simpl; auto. rewrite H1. simpl. auto.
Qed.

Lemma all_snd_merge : forall (A : Type) (f : A -> bool) new d,
  all_snd f d = true -> all_snd f new = true -> all_snd f (merge d new) = true.
Proof.
  induction new as [|[k v] r IH]; simpl; intros d Hd Hn; auto.
  apply andb_true_iff in Hn. destruct Hn as [H1 H2]. simpl in H1.
  apply IH; auto. apply all_snd_ins; auto.
Qed.

Lemma all_snd_lookup : forall (A : Type) (f : A -> bool) k l v, all_snd f l = true -> lookup k l = Some v -> f v = true.
Proof.
  induction l as [|[k' v'] r IH]; simpl; intros v H L; try discriminate.
  apply andb_true_iff in H. destruct H as [H1 H2]. simpl in H1.
  destruct (str_eqb k k').
  - inversion L; subst. auto.
  - eapply IH; eauto.
Qed.

Lemma key_to_dict_sorted : forall k, sorted (key_to_dict k) = true.
Proof. intros [v a [e|] [r|]]; reflexivity. Qed.

Lemma to_dict_sorted : forall k, pdict_sorted (to_dict k) = true.
Proof.
  intros [a k1 k2 k3 k4 k5 k6 t]. unfold pdict_sorted, to_dict, all_snd.
  cbn [address_type ltk ltk_central ltk_peripheral irk csrk link_key link_key_type].
  destruct a, k1, k2, k3, k4, k5, k6, t; cbn -[key_to_dict]; rewrite ?key_to_dict_sorted; reflexivity.
Qed.

Lemma entries_sorted : forall (A : Type) (f : list (str * A) -> bool) k (l : list (str * list (str * A))),
  f [] = true -> all_snd f l = true -> f (entries k l) = true.
Proof.
  intros A f k l H0 H. unfold entries. destruct (lookup k l) eqn:E; auto.
  eapply all_snd_lookup; eauto.
Qed.

Theorem a_step_sorted : forall d h o, db_sorted d = true -> db_sorted (fst (a_step d h o)) = true.
Proof.
  intros d h o H. unfold a_step. destruct (a_apply d h o) as [[d'|] r] eqn:E; simpl; auto.
  apply a_apply_shape in E. destruct E as [E _]. subst d'.
  unfold db_sorted in H. apply andb_true_iff in H. destruct H as [Hs Ha].
  assert (db_sorted (fst (a_load d h)) = true) as H1.
  { unfold a_load. destruct (has (resolve d h) d); simpl; unfold db_sorted.
    - rewrite Hs, Ha. reflexivity.
    - rewrite sorted_ins, all_snd_ins; auto. }
  unfold db_sorted in H1. apply andb_true_iff in H1. destruct H1 as [Hs1 Ha1].
  assert (kmap_sorted (view d h) = true) as Hv by (unfold view; apply entries_sorted; auto).
  unfold kmap_sorted in Hv. apply andb_true_iff in Hv. destruct Hv as [Hvs Hva].
  unfold db_sorted. rewrite sorted_ins, all_snd_ins; auto.
  destruct o; simpl; unfold kmap_sorted.
  - rewrite sorted_ins, all_snd_ins; auto.
    pose proof (to_dict_sorted k) as Ht. unfold pdict_sorted in Ht. apply andb_true_iff in Ht. destruct Ht as [Ht1 Ht2].
    assert (pdict_sorted (entries name (view d h)) = true) as He by (apply entries_sorted; auto).
    unfold pdict_sorted in He. apply andb_true_iff in He. destruct He as [He1 He2].
    unfold pdict_sorted. rewrite sorted_merge, all_snd_merge; auto.
  - rewrite sorted_del, all_snd_del; auto.
  - reflexivity.
  - rewrite Hvs, Hva. reflexivity.
  - rewrite Hvs, Hva. reflexivity.
Qed.

(* ================================================================== end to end: one namespace's view over a whole history *)
(* what one operation does to the key map it works on *)
Definition step_view (m : kmap) (o : op) : kmap :=
  match o with
  | Delete name => if has name m then del name m else m
  | _ => new_kmap m o
  end.

Definition item_named (it : item) : bool :=
  match it with
  | Do h _ _ => negb (str_eqb h DEFAULT_NAMESPACE)
  | Crash _ _ _ _ _ => false
  end.

(* the operations of a history that go through namespace h, applied in order to a key map *)
Definition replay_view (h : str) (items : list item) (m : kmap) : kmap :=
  fold_left (fun m it => if str_eqb (fst (item_hop it)) h then step_view m (snd (item_hop it)) else m) items m.

(* What a named store sees after any history of operations through any named stores on the
   same file is its own updates and deletions applied in order to what it saw before; the
   operations through the other namespaces leave no trace in it. *)
Theorem view_history : forall items d h,
  str_eqb h DEFAULT_NAMESPACE = false -> forallb item_named items = true ->
  view (fst (a_run d items [])) h = replay_view h items (view d h).
Proof.
  induction items as [|it items IH]; intros d h Hh Hn.
  - reflexivity.
  - simpl in Hn. apply andb_true_iff in Hn. destruct Hn as [Hi Hr].
    destruct it as [h' o lens|]; simpl in Hi; try discriminate.
    apply negb_true_iff in Hi.
    cbn [a_run]. destruct (a_step d h' o) as [d1 x] eqn:E.
    specialize (IH d1 h Hh Hr). destruct (a_run d1 items []) as [d2 xs]. simpl fst in *.
    rewrite IH. unfold replay_view. cbn [fold_left item_hop fst snd]. f_equal.
    assert (d1 = fst (a_step d h' o)) as Ed by (rewrite E; reflexivity). subst d1.
    destruct (str_eqb h' h) eqn:Eh.
    + apply str_eqb_eq in Eh. subst h'. rewrite view_after. unfold step_view. destruct o; reflexivity.
    + apply other_handles_unchanged.
      * rewrite (resolve_named d h' Hi). rewrite str_eqb_sym. exact Eh.
      * left. exact Hh.
Qed.

(* ... and what it then reads is a function of that replayed view alone *)
Corollary get_after_history : forall items d h name,
  str_eqb h DEFAULT_NAMESPACE = false -> forallb item_named items = true ->
  snd (a_step (fst (a_run d items [])) h (Get name)) =
  match lookup name (replay_view h items (view d h)) with
  | None => OGet None
  | Some pd => match from_dict pd with Some k => OGet (Some k) | None => OBadKeys end
  end.
Proof.
  intros items d h name Hh Hn. destruct (reads_from_view (fst (a_run d items [])) h) as [G _].
  rewrite G. rewrite view_history by auto. reflexivity.
Qed.

(* ================================================================== get_resolving_keys *)
Theorem resolving_keys_spec : forall l v name t,
  In (v, name, t) (resolving_keys l) <->
  exists k key, In (name, k) l /\ irk k = Some key /\ v = k_value key /\
                t = match address_type k with Some a => a | None => RANDOM_DEVICE_ADDRESS end.
Proof.
  induction l as [|[n k] r IH]; intros v name t; simpl.
  - split; [tauto|]. intros (k & key & H & _). exact H.
  - destruct (irk k) as [key|] eqn:E; simpl; rewrite IH; split.
    + intros [H|(k' & key' & H1 & H2)].
      * inversion H; subst. exists k, key. auto.
      * exists k', key'. tauto.
    + intros (k' & key' & [H|H] & H2 & H3 & H4).
      * inversion H; subst. left. rewrite E in H2. inversion H2; subst. reflexivity.
      * right. exists k', key'. auto.
    + intros (k' & key' & H1 & H2). exists k', key'. tauto.
    + intros (k' & key' & [H|H] & H2 & H3 & H4).
      * inversion H; subst. rewrite E in H2. discriminate.
      * exists k', key'. auto.
Qed.

Lemma resolving_keys_length : forall l, (List.length (resolving_keys l) <= List.length l)%nat.
Proof. induction l as [|[n k] r IH]; simpl; auto. destruct (irk k); simpl; lia. Qed.
