(* Proofs about Model/KeyStore.v (bumble/keys.py JsonKeyStore, PairingKeys). *)
From Coq Require Import String Ascii.
From Coq Require Import ZArith List Bool Lia Decimal DecimalZ ZifyBool.
From BV Require Import Model.KeyStore.
Import ListNotations.
Open Scope Z_scope.

(* ================================================================== strings *)
Lemma str_eqb_refl : forall a, str_eqb a a = true.
Proof. induction a; simpl; auto. rewrite Z.eqb_refl; auto. Qed.

Lemma str_eqb_eq : forall a b, str_eqb a b = true <-> a = b.
Proof.
  induction a; destruct b; simpl; split; intro H; try discriminate; auto.
  - apply andb_true_iff in H. destruct H as [H1 H2]. apply Z.eqb_eq in H1.
    apply IHa in H2. subst; auto.
  - inversion H; subst. rewrite Z.eqb_refl. apply str_eqb_refl.
Qed.

Lemma str_eqb_neq : forall a b, str_eqb a b = false <-> a <> b.
Proof.
  intros a b. split; intro H.
  - intro E. apply str_eqb_eq in E. congruence.
  - destruct (str_eqb a b) eqn:E; auto. apply str_eqb_eq in E. contradiction.
Qed.

Lemma str_eqb_sym : forall a b, str_eqb a b = str_eqb b a.
Proof.
  intros a b. destruct (str_eqb a b) eqn:E.
  - apply str_eqb_eq in E. subst. symmetry. apply str_eqb_refl.
  - symmetry. apply str_eqb_neq. apply str_eqb_neq in E. auto.
Qed.

Lemma str_ltb_irrefl : forall a, str_ltb a a = false.
Proof. induction a; simpl; auto. rewrite Z.ltb_irrefl, Z.eqb_refl. auto. Qed.

Lemma str_ltb_trans : forall a b c, str_ltb a b = true -> str_ltb b c = true -> str_ltb a c = true.
Proof.
  induction a; destruct b, c; simpl; intros H1 H2; try discriminate; auto.
  destruct (Z.ltb a z) eqn:L1.
  - destruct (Z.ltb z z0) eqn:L2.
    + assert (Z.ltb a z0 = true) by lia. rewrite H. auto.
    + destruct (Z.eqb z z0) eqn:E2; try discriminate.
      assert (Z.ltb a z0 = true) by lia. rewrite H. auto.
  - destruct (Z.eqb a z) eqn:E1; try discriminate.
    destruct (Z.ltb z z0) eqn:L2.
    + assert (Z.ltb a z0 = true) by lia. rewrite H. auto.
    + destruct (Z.eqb z z0) eqn:E2; try discriminate.
      assert (Z.ltb a z0 = false) by lia. assert (Z.eqb a z0 = true) by lia.
      rewrite H, H0. eapply IHa; eauto.
Qed.

Lemma str_ltb_neq : forall a b, str_ltb a b = true -> str_eqb a b = false.
Proof.
  intros a b H. apply str_eqb_neq. intro E. subst. rewrite str_ltb_irrefl in H. discriminate.
Qed.

(* total order: not equal and not below means above *)
Lemma str_ltb_total : forall a b, str_eqb a b = false -> str_ltb a b = false -> str_ltb b a = true.
Proof.
  induction a; destruct b; simpl; intros H1 H2; try discriminate; auto.
  destruct (Z.ltb a z) eqn:L1; try discriminate.
  destruct (Z.eqb a z) eqn:E1.
  - simpl in H1. assert (Z.ltb z a = false) by lia. assert (Z.eqb z a = true) by lia.
    rewrite H, H0. apply IHa; auto.
  - assert (Z.ltb z a = true) by lia. rewrite H. auto.
Qed.

(* ================================================================== dictionaries *)
Section Dict.
  Variable A : Type.
  Implicit Types (l : list (str * A)).

  Lemma lookup_ins_same : forall k v l, lookup k (ins k v l) = Some v.
  Proof.
    induction l as [|[k' v'] r IH]; simpl.
    - rewrite str_eqb_refl; auto.
    - destruct (str_eqb k k') eqn:E; simpl.
      + rewrite str_eqb_refl; auto.
      + destruct (str_ltb k k'); simpl.
        * rewrite str_eqb_refl; auto.
        * rewrite E; auto.
  Qed.

  Lemma lookup_ins_other : forall k k' v l, str_eqb k' k = false -> lookup k' (ins k v l) = lookup k' l.
  Proof.
    induction l as [|[k2 v2] r IH]; simpl; intro H.
    - rewrite H; auto.
    - destruct (str_eqb k k2) eqn:E; simpl.
      + apply str_eqb_eq in E. subst. rewrite H. auto.
      + destruct (str_ltb k k2); simpl.
        * rewrite H. auto.
        * destruct (str_eqb k' k2); auto.
  Qed.

  Lemma lookup_ins : forall k k' v l,
    lookup k' (ins k v l) = if str_eqb k' k then Some v else lookup k' l.
  Proof.
    intros. destruct (str_eqb k' k) eqn:E.
    - apply str_eqb_eq in E. subst. apply lookup_ins_same.
    - apply lookup_ins_other; auto.
  Qed.

  Lemma lookup_del_same : forall k l, lookup k (del k l) = None.
  Proof.
    induction l as [|[k' v'] r IH]; simpl; auto.
    destruct (str_eqb k k') eqn:E; simpl; auto. rewrite E. auto.
  Qed.

  Lemma lookup_del_other : forall k k' l, str_eqb k' k = false -> lookup k' (del k l) = lookup k' l.
  Proof.
    induction l as [|[k2 v2] r IH]; simpl; intro H; auto.
    destruct (str_eqb k k2) eqn:E; simpl.
    - apply str_eqb_eq in E. subst. rewrite H. auto.
    - destruct (str_eqb k' k2); auto.
  Qed.

  Lemma has_ins_same : forall k v l, has k (ins k v l) = true.
  Proof. intros. unfold has. rewrite lookup_ins_same. auto. Qed.

  Lemma has_ins_other : forall k k' v l, str_eqb k' k = false -> has k' (ins k v l) = has k' l.
  Proof. intros. unfold has. rewrite lookup_ins_other; auto. Qed.

  (* sortedness is kept: the lists stay what a reload of the sort_keys file yields *)
  Lemma sorted_from_ins : forall k v l k0,
    str_ltb k0 k = true -> sorted_from k0 l = true -> sorted_from k0 (ins k v l) = true.
  Proof.
    induction l as [|[k' v'] r IH]; simpl; intros k0 H0 H.
    - rewrite H0. auto.
    - apply andb_true_iff in H. destruct H as [Ha Hb].
      destruct (str_eqb k k') eqn:E; simpl.
      + apply str_eqb_eq in E. subst. rewrite H0. auto.
      + destruct (str_ltb k k') eqn:L; simpl.
        * rewrite H0, L. auto.
        * rewrite Ha. simpl. apply IH; auto. apply str_ltb_total; auto.
  Qed.

  Lemma sorted_ins : forall k v l, sorted l = true -> sorted (ins k v l) = true.
  Proof.
    destruct l as [|[k' v'] r]; simpl; auto. intro H.
    destruct (str_eqb k k') eqn:E; simpl.
    - apply str_eqb_eq in E. subst. auto.
    - destruct (str_ltb k k') eqn:L; simpl.
      + rewrite L. auto.
      + apply sorted_from_ins; auto. apply str_ltb_total; auto.
  Qed.

  Lemma sorted_from_del : forall k l k0, sorted_from k0 l = true -> sorted_from k0 (del k l) = true.
  Proof.
    induction l as [|[k' v'] r IH]; simpl; intros k0 H; auto.
    apply andb_true_iff in H. destruct H as [Ha Hb].
    destruct (str_eqb k k'); simpl.
    - apply IH. clear IH. destruct r as [|[k2 v2] r2]; simpl in *; auto.
      apply andb_true_iff in Hb. destruct Hb as [Hc Hd].
      rewrite (str_ltb_trans _ _ _ Ha Hc). auto.
    - rewrite Ha. simpl. apply IH. auto.
  Qed.

  Lemma sorted_from_weaken : forall (l : list (str * A)) k0, sorted_from k0 l = true -> sorted l = true.
  Proof.
    destruct l as [|[k' v'] r]; simpl; auto. intros k0 H.
    apply andb_true_iff in H. tauto.
  Qed.

  Lemma sorted_del : forall k l, sorted l = true -> sorted (del k l) = true.
  Proof.
    destruct l as [|[k' v'] r]; simpl; auto. intro H.
    destruct (str_eqb k k').
    - eapply sorted_from_weaken. apply sorted_from_del. eauto.
    - simpl. apply sorted_from_del. auto.
  Qed.

  Lemma sorted_merge : forall (new d : list (str * A)), sorted d = true -> sorted (merge d new) = true.
  Proof.
    induction new as [|[k v] r IH]; simpl; intros d H; auto.
    apply IH. apply sorted_ins. auto.
  Qed.

  Lemma merge_app : forall (a b d : list (str * A)), merge d (a ++ b) = merge (merge d a) b.
  Proof. induction a as [|[k v] r IH]; simpl; intros; auto. Qed.
End Dict.
Arguments lookup_ins_same {A}. Arguments lookup_ins_other {A}. Arguments lookup_ins {A}.
Arguments lookup_del_same {A}. Arguments lookup_del_other {A}.
Arguments has_ins_same {A}. Arguments has_ins_other {A}.
Arguments sorted_ins {A}. Arguments sorted_del {A}. Arguments sorted_merge {A}. Arguments merge_app {A}.

(* optional insertion: what d.update({k: v} if o is not None) does *)
Definition oins {A B : Type} (k : str) (f : A -> B) (o : option A) (d : list (str * B)) :=
  match o with Some a => ins k (f a) d | None => d end.

Lemma merge_optm : forall (A B : Type) k (f : A -> B) o d, merge d (optm k f o) = oins k f o d.
Proof. intros. destruct o; reflexivity. Qed.

Lemma lookup_oins : forall (A B : Type) k k' (f : A -> B) o d,
  lookup k' (oins k f o d) =
  if str_eqb k' k then match o with Some a => Some (f a) | None => lookup k' d end else lookup k' d.
Proof.
  intros. destruct o; simpl.
  - apply lookup_ins.
  - destruct (str_eqb k' k); auto.
Qed.

Lemma lookup_optm_app : forall (A B : Type) k k' (f : A -> B) o rest,
  lookup k' (optm k f o ++ rest) =
  if str_eqb k' k then match o with Some a => Some (f a) | None => lookup k' rest end else lookup k' rest.
Proof.
  intros. destruct o; simpl.
  - rewrite (str_eqb_sym k' k). destruct (str_eqb k k'); auto.
  - destruct (str_eqb k' k); auto.
Qed.

(* ================================================================== hex *)
Lemma hex_digit_val : forall n, 0 <= n < 16 -> hex_val (hex_digit n) = Some n.
Proof.
  intros n H.
  replace n with (Z.of_nat (Z.to_nat n)) by lia.
  assert (Z.to_nat n < 16)%nat as C by lia. revert C. generalize (Z.to_nat n). intros m C.
  do 16 (destruct m as [|m]; [reflexivity|]). lia.
Qed.

Lemma hex_rt : forall bs, bytes_ok bs = true -> hex_dec (hex_enc bs) = Some bs.
Proof.
  induction bs as [|b r IH]; simpl; intro H; auto.
  apply andb_true_iff in H. destruct H as [Hb Hr].
  unfold byte_ok in Hb.
  assert (0 <= b < 256) by lia.
  rewrite !hex_digit_val.
  - rewrite IH; auto. f_equal. f_equal. pose proof (Z.div_mod b 16 ltac:(lia)) as E. rewrite <- E. reflexivity.
  - apply Z.mod_pos_bound. lia.
  - split. apply Z.div_pos; lia. apply Z.div_lt_upper_bound; lia.
Qed.

Lemma hex_digit_safe : forall n, 0 <= n < 16 -> safe (hex_digit n) = true.
Proof.
  intros n H.
  replace n with (Z.of_nat (Z.to_nat n)) by lia.
  assert (Z.to_nat n < 16)%nat as C by lia. revert C. generalize (Z.to_nat n). intros m C.
  do 16 (destruct m as [|m]; [reflexivity|]). lia.
Qed.

Lemma hex_enc_ok : forall bs, bytes_ok bs = true -> str_ok (hex_enc bs) = true.
Proof.
  induction bs as [|b r IH]; simpl; intro H; auto.
  apply andb_true_iff in H. destruct H as [Hb Hr]. unfold byte_ok in Hb.
  assert (0 <= b < 256) by lia.
  rewrite !hex_digit_safe, IH; auto.
  - apply Z.mod_pos_bound. lia.
  - split. apply Z.div_pos; lia. apply Z.div_lt_upper_bound; lia.
Qed.

(* ================================================================== PairingKeys round trip *)
Definition obytes_ok (o : option (list Z)) : bool :=
  match o with Some b => bytes_ok b | None => true end.
Definition key_ok (k : pkey) : bool := bytes_ok (k_value k) && obytes_ok (k_rand k).
Definition okey_ok (o : option pkey) : bool := match o with Some k => key_ok k | None => true end.
Definition keys_ok (k : pkeys) : bool :=
  okey_ok (ltk k) && okey_ok (ltk_central k) && okey_ok (ltk_peripheral k)
  && okey_ok (irk k) && okey_ok (csrk k) && okey_ok (link_key k).

Lemma key_rt : forall k, key_ok k = true -> key_from_dict (key_to_dict k) = Some k.
Proof.
  intros [v a e r] H. unfold key_ok in H. simpl in H.
  apply andb_true_iff in H. destruct H as [Hv Hr].
  unfold key_from_dict, key_to_dict, get_khex, get_kint.
  destruct e as [e|], r as [r|]; cbn -[hex_enc hex_dec]; simpl in Hr;
    rewrite ?hex_rt; auto.
Qed.

Definition fkey (x : pkey) : fval := FvKey (key_to_dict x).

Lemma to_dict_lookup : forall k,
  lookup F_address_type (to_dict k) = option_map FvInt (address_type k) /\
  lookup F_csrk (to_dict k) = option_map fkey (csrk k) /\
  lookup F_irk (to_dict k) = option_map fkey (irk k) /\
  lookup F_link_key (to_dict k) = option_map fkey (link_key k) /\
  lookup F_link_key_type (to_dict k) = option_map FvInt (link_key_type k) /\
  lookup F_ltk (to_dict k) = option_map fkey (ltk k) /\
  lookup F_ltk_central (to_dict k) = option_map fkey (ltk_central k) /\
  lookup F_ltk_peripheral (to_dict k) = option_map fkey (ltk_peripheral k).
Proof.
  intros [a k1 k2 k3 k4 k5 k6 t]. unfold to_dict. cbn [address_type ltk ltk_central ltk_peripheral irk csrk link_key link_key_type].
  repeat split; rewrite !lookup_optm_app;
    repeat match goal with |- context [str_eqb ?x ?y] =>
      let b := eval vm_compute in (str_eqb x y) in
      change (str_eqb x y) with b; cbv iota end;
    repeat match goal with |- context [match ?o with Some _ => _ | None => _ end] =>
      is_var o; destruct o end; reflexivity.
Qed.

Lemma get_fkey_rt : forall F d o, okey_ok o = true ->
  lookup F d = option_map fkey o -> get_fkey F d = Some o.
Proof.
  intros F d o Hok H. unfold get_fkey. rewrite H. destruct o as [k|]; simpl; auto.
  rewrite key_rt; auto.
Qed.

Lemma get_fint_rt : forall F d o, lookup F d = option_map FvInt o -> get_fint F d = Some o.
Proof. intros F d o H. unfold get_fint. rewrite H. destruct o; auto. Qed.

Theorem keys_roundtrip : forall k, keys_ok k = true -> from_dict (to_dict k) = Some k.
Proof.
  intros k H. unfold keys_ok in H.
  repeat (apply andb_true_iff in H; destruct H as [H ?]).
  destruct (to_dict_lookup k) as (L1 & L2 & L3 & L4 & L5 & L6 & L7 & L8).
  unfold from_dict.
  rewrite (get_fint_rt _ _ _ L1), (get_fint_rt _ _ _ L5).
  rewrite (get_fkey_rt _ _ (ltk k)), (get_fkey_rt _ _ (ltk_central k)), (get_fkey_rt _ _ (ltk_peripheral k)),
          (get_fkey_rt _ _ (irk k)), (get_fkey_rt _ _ (csrk k)), (get_fkey_rt _ _ (link_key k)); auto.
  destruct k; reflexivity.
Qed.
