(* The regenerated shape of the anchored functions (Gen/C13Skeleton.v) is the shape the model was
   written from (property C13).  Re-checked on every run against the current source. *)
From Coq Require Import ZArith List Bool String Lia.
From BV Require Import Gen.C13Tables Gen.C13Skeleton Model.Pairing Model.PairingSkel.
Import ListNotations.
Open Scope Z_scope.

Lemma zlist_eq_eq : forall a b, zlist_eq a b = true -> a = b.
Proof.
  induction a as [|x a IH]; destruct b as [|y b]; simpl; try discriminate; auto.
  intro H. apply andb_true_iff in H. destruct H as [H1 H2].
  apply Z.eqb_eq in H1. subst. f_equal. auto.
Qed.

Lemma skeleton_all :
  forallb (fun sc => forallb (fun bredr => forallb (fun kd => skeleton_case sc bredr kd) bytes256)
                             [false; true]) [false; true] = true.
Proof. vm_cast_no_check (eq_refl true). Qed.

Lemma in_bytes256 : forall k, 0 <= k < 256 -> In k bytes256.
Proof.
  intros k Hk. unfold bytes256. apply in_map_iff. exists (Z.to_nat k). split; [lia|].
  apply in_seq. lia.
Qed.

Lemma forallb_In' : forall (A : Type) (f : A -> bool) (l : list A),
  forallb f l = true -> forall x, In x l -> f x = true.
Proof. intros A f l H. apply forallb_forall. exact H. Qed.

Lemma in_bools' : forall b : bool, In b [false; true].
Proof. destruct b; simpl; auto. Qed.

(* compute_peer_expected_distributions and distribute_keys (both roles), as parsed from the
   source, compute the model's [expected] / [distributed] / link-key condition for every
   one-byte mask, SC on/off, LE and BR/EDR *)
Lemma distribution_matches_source : forall sc bredr kd, 0 <= kd < 256 ->
  interp_expected expected_skeleton sc bredr kd = expected sc bredr kd /\
  interp_distribute distribute_skeleton_initiator sc bredr kd = distributed sc bredr kd /\
  interp_distribute distribute_skeleton_responder sc bredr kd = distributed sc bredr kd /\
  interp_link distribute_skeleton_initiator sc bredr kd = model_link sc bredr kd /\
  interp_link distribute_skeleton_responder sc bredr kd = model_link sc bredr kd.
Proof.
  intros sc bredr kd Hk.
  pose proof (forallb_In' _ _ _ (forallb_In' _ _ _ (forallb_In' _ _ _ skeleton_all sc (in_bools' sc))
                bredr (in_bools' bredr)) kd (in_bytes256 kd Hk)) as H.
  unfold skeleton_case in H.
  repeat match goal with
  | H : _ && _ = true |- _ => apply andb_true_iff in H; destruct H
  end.
  repeat match goal with
  | H : zlist_eq _ _ = true |- _ => apply zlist_eq_eq in H
  | H : Bool.eqb _ _ = true |- _ => apply eqb_prop in H
  end.
  auto.
Qed.

(* the statements that file and read keys are the ones the model was written from *)
Lemma filing_matches_source :
  on_pairing_source = on_pairing_reading /\
  encrypt_source = encrypt_reading /\
  provider_source = provider_reading /\
  session_provider_source = session_provider_reading.
Proof. repeat split; vm_compute; reflexivity. Qed.

(* the order of negotiation, decision and sends inside the two negotiation handlers *)
Lemma handlers_match_source :
  request_handler_source = request_handler_reading /\
  response_handler_source = response_handler_reading.
Proof. split; vm_compute; reflexivity. Qed.

(* the statements that maintain Manager.sessions *)
Lemma session_table_matches_source :
  session_on_disconnection_source = session_on_disconnection_reading /\
  session_on_pairing_failure_source = session_on_pairing_failure_reading /\
  manager_on_session_end_source = manager_on_session_end_reading /\
  manager_pair_source = manager_pair_reading /\
  manager_on_smp_pdu_source = manager_on_smp_pdu_reading.
Proof. repeat split; vm_compute; reflexivity. Qed.
