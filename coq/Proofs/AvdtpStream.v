(* AVDTP stream state machine on both ends (Model/AvdtpStream.v): the state space of the pair
   is finite (6 x 2 x 2 x 6 x 2 x 2 = 576 states, 6 operations); the one-step facts are
   established by complete case analysis inside the kernel and lifted to every operation
   sequence by induction. *)
From Coq Require Import List Bool.
From BV Require Import Model.AvdtpStream.
Import ListNotations.

Lemma sst_eqb_eq : forall a b, sst_eqb a b = true <-> a = b.
Proof. intros a b; destruct a, b; simpl; split; intro H; try reflexivity; discriminate H. Qed.

(* the enumeration used by the correspondence check is complete *)
Lemma all_pairs_complete : forall p, In p all_pairs.
Proof.
  intros [a b c d e f]. unfold all_pairs.
  apply in_flat_map. exists a. split; [destruct a; simpl; tauto|].
  apply in_flat_map. exists b. split; [destruct b; simpl; tauto|].
  apply in_flat_map. exists c. split; [destruct c; simpl; tauto|].
  apply in_flat_map. exists d. split; [destruct d; simpl; tauto|].
  apply in_flat_map. exists e. split; [destruct e; simpl; tauto|].
  apply in_map. destruct f; simpl; tauto.
Qed.

(* one-step properties as a boolean check over a state and an operation *)
Definition pair_eqb (p q : pair) : bool :=
  sst_eqb (src_st p) (src_st q) && Bool.eqb (src_rtp p) (src_rtp q) && Bool.eqb (snk_has p) (snk_has q)
  && sst_eqb (snk_st p) (snk_st q) && Bool.eqb (snk_rtp p) (snk_rtp q) && Bool.eqb (snk_acc p) (snk_acc q).

Lemma pair_eqb_eq : forall p q, pair_eqb p q = true -> p = q.
Proof.
  intros [a b c d e f] [a' b' c' d' e' f'] H. unfold pair_eqb in H. simpl in H.
  repeat rewrite andb_true_iff in H. destruct H as (((((H1 & H2) & H3) & H4) & H5) & H6).
  apply sst_eqb_eq in H1, H4. apply eqb_prop in H2, H3, H5, H6. subst. reflexivity.
Qed.

Definition sres_eqb (a b : sres) : bool :=
  match a, b with Ok, Ok | Refused, Refused | Rejected, Rejected => true | _, _ => false end.

Definition step_check (p : pair) (o : sop) : bool :=
  implb (agree p)
    (let '(p', r) := step p o in
     agree p'
     && sst_eqb (src_st p') (spec_next o (src_st p))
     && (if legal o (src_st p) then sres_eqb r Ok else sres_eqb r (refusal o) && pair_eqb p' p)).

Lemma step_check_all : forallb (fun p => forallb (step_check p) all_ops) all_pairs = true.
Proof. vm_compute. reflexivity. Qed.

Lemma all_ops_complete : forall o, In o all_ops.
Proof. destruct o; simpl; tauto. Qed.

Lemma step_check_holds : forall p o, step_check p o = true.
Proof.
  intros p o. pose proof step_check_all as H. rewrite forallb_forall in H.
  specialize (H p (all_pairs_complete p)). rewrite forallb_forall in H.
  exact (H o (all_ops_complete o)).
Qed.

Lemma step_facts : forall p o, agree p = true ->
  agree (fst (step p o)) = true /\
  src_st (fst (step p o)) = spec_next o (src_st p) /\
  (legal o (src_st p) = true -> snd (step p o) = Ok) /\
  (legal o (src_st p) = false -> step p o = (p, refusal o)).
Proof.
  intros p o Ha. pose proof (step_check_holds p o) as H. unfold step_check in H.
  rewrite Ha in H. simpl implb in H. destruct (step p o) as [p' r]. simpl fst; simpl snd.
  repeat rewrite andb_true_iff in H. destruct H as ((H1 & H2) & H3).
  apply sst_eqb_eq in H2. repeat split; try assumption.
  - intro Hl. rewrite Hl in H3. destruct r; simpl in H3; try discriminate; reflexivity.
  - intro Hl. rewrite Hl in H3. apply andb_true_iff in H3. destruct H3 as [H3 H4].
    apply pair_eqb_eq in H4. subst p'. destruct r, o; simpl in H3; try discriminate; reflexivity.
Qed.

Lemma agree_same_state : forall p, agree p = true -> src_st p = snk_st p /\ src_rtp p = snk_rtp p.
Proof.
  intros p H. unfold agree in H. repeat rewrite andb_true_iff in H.
  destruct H as ((((H1 & H2) & _) & _) & _). apply sst_eqb_eq in H1. apply eqb_prop in H2. tauto.
Qed.

Lemma run_snoc : forall ops p o,
  run p (ops ++ [o]) =
  (fst (step (fst (run p ops)) o), snd (run p ops) ++ [snd (step (fst (run p ops)) o)]).
Proof.
  induction ops as [|a ops IH]; intros p o; simpl.
  - destruct (step p o). reflexivity.
  - destruct (step p a) as [p1 r]. rewrite IH. destruct (run p1 ops). reflexivity.
Qed.

Lemma run_agree : forall ops p, agree p = true -> agree (fst (run p ops)) = true.
Proof.
  induction ops as [|o ops IH]; intros p Ha; simpl; [exact Ha|].
  destruct (step p o) as [p1 r] eqn:E.
  assert (H1 : agree p1 = true) by (pose proof (step_facts p o Ha) as H; rewrite E in H; simpl in H; tauto).
  specialize (IH p1 H1). destruct (run p1 ops). exact IH.
Qed.

(* After ANY sequence of procedures from the initiating side the two ends hold the same state
   (and the same view of the transport channel). *)
Theorem states_agree : forall ops,
  let p := fst (run p_init ops) in src_st p = snk_st p /\ src_rtp p = snk_rtp p.
Proof. intros ops p. apply agree_same_state. apply run_agree. reflexivity. Qed.

(* The state reached is the one the specification's table gives. *)
Theorem states_follow_spec : forall ops,
  src_st (fst (run p_init ops)) = fold_left (fun st o => spec_next o st) ops Idle.
Proof.
  intros ops. induction ops as [|o ops IH] using rev_ind; [reflexivity|].
  rewrite run_snoc, fold_left_app. simpl fst. simpl fold_left.
  destruct (step_facts (fst (run p_init ops)) o (run_agree ops p_init eq_refl)) as (_ & H & _).
  rewrite H, IH. reflexivity.
Qed.

(* A procedure that is not legal in the current state is refused and changes nothing on either
   end; a legal one is accepted.  For every history. *)
Theorem illegal_refused_unchanged : forall ops o,
  let p := fst (run p_init ops) in
  legal o (src_st p) = false -> step p o = (p, refusal o).
Proof.
  intros ops o p Hl. exact (proj2 (proj2 (proj2 (step_facts p o (run_agree ops p_init eq_refl)))) Hl).
Qed.

Theorem legal_accepted : forall ops o,
  let p := fst (run p_init ops) in
  legal o (src_st p) = true -> snd (step p o) = Ok.
Proof.
  intros ops o p Hl. exact (proj1 (proj2 (proj2 (step_facts p o (run_agree ops p_init eq_refl)))) Hl).
Qed.
