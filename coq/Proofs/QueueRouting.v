(* Proofs about Model/QueueRouting.v: every handle a queue knows about (waiting packets,
   per-connection in-flight state) is a LIVE handle that the host routes to that very queue.
   Hence completion reports always reach the queue that accounts the packets, nothing is
   kept for a closed handle, and handle reuse (by any kind of link) starts from nothing. *)
From Coq Require Import ZArith List Bool Lia Arith.
From BV Require Import Model.DataQueue Model.QueueRouting Proofs.DataQueue.
Import ListNotations.
Open Scope Z_scope.

Definition mentions (q : qstate) : list Z := handles (q_conns q) ++ map snd (q_wait q).

(* ---------- queue level: which handles a step can introduce ---------- *)
Lemma check_queue_mentions maxf k : forall w infl cs,
  In k (handles (snd (fst (fst (check_queue maxf infl cs w))))
        ++ map snd (snd (fst (check_queue maxf infl cs w)))) ->
  In k (handles cs ++ map snd w).
Proof.
  induction w as [|[p h] w IH]; intros infl cs; cbn [check_queue].
  - cbn. auto.
  - destruct (Z.ltb infl maxf).
    + specialize (IH (infl + 1) (bump_conn h cs)).
      destruct (check_queue maxf (infl + 1) (bump_conn h cs) w) as [[[i c] w'] s].
      cbn in *. intros H. apply IH in H. apply in_app_or in H. apply in_or_app.
      destruct H as [H|H].
      * apply bump_handles_in in H. destruct H as [->|H]; [right; left; reflexivity|left; exact H].
      * right. right. exact H.
    + cbn. auto.
Qed.

Lemma run_check_mentions s k : In k (mentions (fst (run_check s))) -> In k (mentions s).
Proof.
  unfold run_check, mentions.
  pose proof (check_queue_mentions (q_max s) k (q_wait s) (q_inflight s) (q_conns s)) as H.
  destruct (check_queue (q_max s) (q_inflight s) (q_conns s) (q_wait s)) as [[[i c] w'] snt].
  cbn in *. exact H.
Qed.

Lemma find_conn_none h cs : find_conn h cs = None -> ~ In h (handles cs).
Proof.
  induction cs as [|c cs IH]; cbn; [tauto|].
  destruct (Z.eqb (c_handle c) h) eqn:E; [discriminate|].
  intros H [Hc|Hc]; [apply Z.eqb_neq in E; contradiction|apply IH; assumption].
Qed.

Lemma in_filter_snd (f : Z * Z -> bool) k w : In k (map snd (filter f w)) -> In k (map snd w).
Proof.
  intros H. apply in_map_iff in H. destruct H as (x & Hx & Hin). apply filter_In in Hin.
  apply in_map_iff. exists x. tauto.
Qed.

Lemma step_mentions q o k :
  In k (mentions (fst (q_step q o))) -> In k (mentions q) \/ (exists p, o = Enqueue p k).
Proof.
  destruct o as [p h|h|n h]; cbn [q_step].
  - intros H. apply run_check_mentions in H. unfold mentions in *. cbn in H.
    rewrite map_app in H. cbn in H. apply in_app_or in H. destruct H as [H|H].
    + left. apply in_or_app. left. exact H.
    + apply in_app_or in H. destruct H as [H|[H|[]]].
      * left. apply in_or_app. right. exact H.
      * right. exists p. now subst.
  - cbn [q_conns]. destruct (find_conn h (q_conns q)); intros H; apply run_check_mentions in H; left;
      unfold mentions in *; cbn in H; apply in_app_or in H; apply in_or_app;
      destruct H as [H|H].
    + left. eapply remove_conn_incl; exact H.
    + right. eapply in_filter_snd; exact H.
    + left. exact H.
    + right. eapply in_filter_snd; exact H.
  - destruct (find_conn h (q_conns q)) as [c|]; [|cbn; auto].
    intros H. apply run_check_mentions in H. left. unfold mentions in *. cbn in H.
    rewrite set_conn_handles in H. exact H.
Qed.

Lemma flush_unmentions q h : ~ In h (mentions (fst (q_step q (Flush h)))).
Proof.
  cbn [q_step q_conns].
  assert (W : ~ In h (map snd (filter (not_handle h) (q_wait q)))).
  { intros Hin. apply in_map_iff in Hin. destruct Hin as ([p k] & Hk & Hin). cbn in Hk. subst k.
    apply filter_In in Hin. destruct Hin as [_ Hf]. unfold not_handle in Hf. cbn in Hf.
    rewrite Z.eqb_refl in Hf. discriminate. }
  destruct (find_conn h (q_conns q)) eqn:E; intros H; apply run_check_mentions in H;
    unfold mentions in H; cbn in H; apply in_app_or in H; destruct H as [H|H].
  - eapply remove_conn_absent; exact H.
  - exact (W H).
  - eapply find_conn_none; eassumption.
  - exact (W H).
Qed.

(* ---------- list plumbing ---------- *)
Lemma step_at_nth o : forall qs qi i,
  nth_error (fst (step_at qi o qs)) i =
  if Nat.eqb i qi then option_map (fun q => fst (q_step q o)) (nth_error qs i) else nth_error qs i.
Proof.
  induction qs as [|q qs IH]; intros qi i.
  - cbn. destruct (Nat.eqb i qi); destruct i; reflexivity.
  - destruct qi as [|qi]; cbn [step_at].
    + destruct (q_step q o) as [q' out] eqn:E. destruct i; cbn; rewrite ?E; reflexivity.
    + specialize (IH qi). destruct (step_at qi o qs) as [qs' out]. cbn [fst] in *.
      destruct i; cbn; [reflexivity|apply IH].
Qed.

Lemma step_all_nth o : forall qs i,
  nth_error (fst (step_all o qs)) i = option_map (fun q => fst (q_step q o)) (nth_error qs i).
Proof.
  induction qs as [|q qs IH]; intros i; cbn [step_all].
  - destruct i; reflexivity.
  - destruct (q_step q o) as [q' out1] eqn:E. destruct (step_all o qs) as [qs' out2].
    cbn [fst] in *. destruct i; cbn; [rewrite E; reflexivity|apply IH].
Qed.

Lemma step_at_length o : forall qs qi, length (fst (step_at qi o qs)) = length qs.
Proof.
  induction qs as [|q qs IH]; intros qi; [reflexivity|].
  destruct qi as [|qi]; cbn [step_at].
  - destruct (q_step q o). reflexivity.
  - specialize (IH qi). destruct (step_at qi o qs). cbn in *. now rewrite IH.
Qed.

Lemma step_all_length o : forall qs, length (fst (step_all o qs)) = length qs.
Proof.
  induction qs as [|q qs IH]; [reflexivity|]. cbn [step_all].
  destruct (q_step q o). destruct (step_all o qs). cbn in *. now rewrite IH.
Qed.

(* ---------- routing ---------- *)
Lemma route_unlink_other k h ls : k <> h -> route k (unlink h ls) = route k ls.
Proof.
  intros Hk. induction ls as [|[a qi] ls IH]; [reflexivity|]. cbn. unfold other_link. cbn.
  destruct (Z.eqb a h) eqn:E; cbn.
  - apply Z.eqb_eq in E. subst a. destruct (Z.eqb h k) eqn:E2; [apply Z.eqb_eq in E2; congruence|exact IH].
  - destruct (Z.eqb a k); [reflexivity|exact IH].
Qed.

Lemma route_unlink_same h ls : route h (unlink h ls) = None.
Proof.
  induction ls as [|[a qi] ls IH]; [reflexivity|]. cbn. unfold other_link. cbn.
  destruct (Z.eqb a h) eqn:E; cbn; [exact IH|]. rewrite E. exact IH.
Qed.

Definition owned (s : hstate) : Prop :=
  forall i q k, nth_error (h_queues s) i = Some q -> In k (mentions q) ->
                route k (h_links s) = Some i.

Definition in_range (s : hstate) : Prop :=
  forall k i, route k (h_links s) = Some i -> (i < length (h_queues s))%nat.

Lemma init_owned maxfs : owned (h_init maxfs).
Proof.
  intros i q k Hq Hk. unfold h_init in Hq. cbn in Hq. rewrite nth_error_map in Hq.
  destruct (nth_error maxfs i); [|discriminate]. cbn in Hq. injection Hq as <-. destruct Hk.
Qed.

Lemma init_in_range maxfs : in_range (h_init maxfs).
Proof. intros k i H. discriminate. Qed.

Lemma step_at_owned s qi o :
  owned s ->
  (forall k, (exists p, o = Enqueue p k) -> route k (h_links s) = Some qi) ->
  owned (mkH (h_links s) (fst (step_at qi o (h_queues s)))).
Proof.
  intros Ho Hnew i q' k Hq Hk. cbn [h_queues h_links fst route] in *. rewrite step_at_nth in Hq.
  destruct (Nat.eqb i qi) eqn:E.
  - apply Nat.eqb_eq in E. subst i. destruct (nth_error (h_queues s) qi) as [q|] eqn:Eq; [|discriminate].
    unfold option_map in Hq; cbv beta in Hq. apply (f_equal (fun x => match x with Some y => y | None => q' end)) in Hq; cbv beta iota in Hq; subst q'. apply step_mentions in Hk. destruct Hk as [Hk|Hk].
    + eapply Ho; eassumption.
    + apply Hnew. exact Hk.
  - eapply Ho; eassumption.
Qed.

Lemma step_owned s o : owned s -> owned (fst (h_step s o)).
Proof.
  intros Ho. destruct o as [h qi|h|h|p h|n h]; cbn [h_step].
  - destruct (route h (h_links s)) eqn:R; [exact Ho|].
    destruct (Nat.ltb qi (length (h_queues s))); [|exact Ho].
    intros i q k Hq Hk. cbn [h_queues h_links fst route] in *. specialize (Ho i q k Hq Hk).
    destruct (Z.eqb h k) eqn:E; [apply Z.eqb_eq in E; subst k; congruence|exact Ho].
  - destruct (step_all (Flush h) (h_queues s)) as [qs out] eqn:E.
    assert (Eq : qs = fst (step_all (Flush h) (h_queues s))) by (rewrite E; reflexivity).
    intros i q' k Hq Hk. cbn [h_queues h_links fst route] in *. subst qs. rewrite step_all_nth in Hq.
    destruct (nth_error (h_queues s) i) as [q|] eqn:Eqi; [|discriminate]. unfold option_map in Hq; cbv beta in Hq. apply (f_equal (fun x => match x with Some y => y | None => q' end)) in Hq; cbv beta iota in Hq; subst q'.
    assert (Hne : k <> h) by (intros ->; exact (flush_unmentions q h Hk)).
    apply step_mentions in Hk. destruct Hk as [Hk|[p Hk]]; [|discriminate].
    rewrite route_unlink_other by exact Hne. eapply Ho; eassumption.
  - destruct (route h (h_links s)) as [qi|] eqn:R; [|exact Ho].
    destruct (step_at qi (Flush h) (h_queues s)) as [qs out] eqn:E.
    assert (Eq : qs = fst (step_at qi (Flush h) (h_queues s))) by (rewrite E; reflexivity).
    intros i q' k Hq Hk. cbn [h_queues h_links fst route] in *. subst qs. rewrite step_at_nth in Hq.
    destruct (Nat.eqb i qi) eqn:Ei.
    + apply Nat.eqb_eq in Ei. subst i.
      destruct (nth_error (h_queues s) qi) as [q|] eqn:Eqi; [|discriminate]. unfold option_map in Hq; cbv beta in Hq. apply (f_equal (fun x => match x with Some y => y | None => q' end)) in Hq; cbv beta iota in Hq; subst q'.
      assert (Hne : k <> h) by (intros ->; exact (flush_unmentions q h Hk)).
      apply step_mentions in Hk. destruct Hk as [Hk|[p Hk]]; [|discriminate].
      rewrite route_unlink_other by exact Hne. eapply Ho; eassumption.
    + specialize (Ho i q' k Hq Hk).
      assert (Hne : k <> h).
      { intros ->. rewrite R in Ho. injection Ho as ->. rewrite Nat.eqb_refl in Ei. discriminate. }
      rewrite route_unlink_other by exact Hne. exact Ho.
  - destruct (route h (h_links s)) as [qi|] eqn:R; [|exact Ho].
    destruct (step_at qi (Enqueue p h) (h_queues s)) as [qs out] eqn:E.
    assert (Eq : qs = fst (step_at qi (Enqueue p h) (h_queues s))) by (rewrite E; reflexivity).
    cbn [fst]. subst qs. apply step_at_owned; [exact Ho|].
    intros k [p' Hk]. injection Hk as _ <-. exact R.
  - destruct (route h (h_links s)) as [qi|] eqn:R; [|exact Ho].
    destruct (step_at qi (Completed n h) (h_queues s)) as [qs out] eqn:E.
    assert (Eq : qs = fst (step_at qi (Completed n h) (h_queues s))) by (rewrite E; reflexivity).
    cbn [fst]. subst qs. apply step_at_owned; [exact Ho|].
    intros k [p' Hk]. discriminate.
Qed.

Lemma route_unlink_some k h ls i : route k (unlink h ls) = Some i -> route k ls = Some i.
Proof.
  intros H. destruct (Z.eq_dec k h) as [->|Hne].
  - rewrite route_unlink_same in H. discriminate.
  - now rewrite route_unlink_other in H.
Qed.

Lemma step_in_range s o : in_range s -> in_range (fst (h_step s o)).
Proof.
  intros Hr. destruct o as [h qi|h|h|p h|n h]; cbn [h_step].
  - destruct (route h (h_links s)) eqn:R; [exact Hr|].
    destruct (Nat.ltb qi (length (h_queues s))) eqn:L; [|exact Hr].
    intros k i H. cbn [h_queues h_links fst route] in *. destruct (Z.eqb h k).
    + injection H as <-. apply Nat.ltb_lt. exact L.
    + eapply Hr; exact H.
  - destruct (step_all (Flush h) (h_queues s)) as [qs out] eqn:E.
    assert (Eq : qs = fst (step_all (Flush h) (h_queues s))) by (rewrite E; reflexivity).
    intros k i H. cbn [h_queues h_links fst route] in *. subst qs. rewrite step_all_length. apply route_unlink_some in H.
    eapply Hr; exact H.
  - destruct (route h (h_links s)) as [qi|] eqn:R; [|exact Hr].
    destruct (step_at qi (Flush h) (h_queues s)) as [qs out] eqn:E.
    assert (Eq : qs = fst (step_at qi (Flush h) (h_queues s))) by (rewrite E; reflexivity).
    intros k i H. cbn [h_queues h_links fst route] in *. subst qs. rewrite step_at_length. apply route_unlink_some in H.
    eapply Hr; exact H.
  - destruct (route h (h_links s)) as [qi|] eqn:R; [|exact Hr].
    destruct (step_at qi (Enqueue p h) (h_queues s)) as [qs out] eqn:E.
    assert (Eq : qs = fst (step_at qi (Enqueue p h) (h_queues s))) by (rewrite E; reflexivity).
    intros k i H. cbn [h_queues h_links fst route] in *. subst qs. rewrite step_at_length. eapply Hr; exact H.
  - destruct (route h (h_links s)) as [qi|] eqn:R; [|exact Hr].
    destruct (step_at qi (Completed n h) (h_queues s)) as [qs out] eqn:E.
    assert (Eq : qs = fst (step_at qi (Completed n h) (h_queues s))) by (rewrite E; reflexivity).
    intros k i H. cbn [h_queues h_links fst route] in *. subst qs. rewrite step_at_length. eapply Hr; exact H.
Qed.

(* ---------- every queue keeps the queue invariant ---------- *)
Definition hop_ok (o : hop) : Prop := match o with HDone n _ => 0 <= n | _ => True end.

Lemma step_at_inv o : op_ok o -> forall qs qi, Forall inv qs -> Forall inv (fst (step_at qi o qs)).
Proof.
  intros Hok. induction qs as [|q qs IH]; intros qi H; [constructor|].
  inversion H as [|? ? Hq Hqs]; subst. destruct qi as [|qi]; cbn [step_at].
  - pose proof (step_inv q o Hok Hq) as Hs. destruct (q_step q o). cbn in *. constructor; assumption.
  - specialize (IH qi Hqs). destruct (step_at qi o qs). cbn in *. constructor; assumption.
Qed.

Lemma step_all_inv o : op_ok o -> forall qs, Forall inv qs -> Forall inv (fst (step_all o qs)).
Proof.
  intros Hok. induction qs as [|q qs IH]; intros H; [constructor|].
  inversion H as [|? ? Hq Hqs]; subst. cbn [step_all].
  pose proof (step_inv q o Hok Hq) as Hs. destruct (q_step q o). specialize (IH Hqs).
  destruct (step_all o qs). cbn in *. constructor; assumption.
Qed.

Lemma step_all_inv_h s o : hop_ok o -> Forall inv (h_queues s) -> Forall inv (h_queues (fst (h_step s o))).
Proof.
  intros Hok Hi. destruct o as [h qi|h|h|p h|n h]; cbn [h_step].
  - destruct (route h (h_links s)); [exact Hi|]. destruct (Nat.ltb _ _); exact Hi.
  - pose proof (step_all_inv (Flush h) I (h_queues s) Hi) as H.
    destruct (step_all (Flush h) (h_queues s)). exact H.
  - destruct (route h (h_links s)) as [qi|]; [|exact Hi].
    pose proof (step_at_inv (Flush h) I (h_queues s) qi Hi) as H.
    destruct (step_at qi (Flush h) (h_queues s)). exact H.
  - destruct (route h (h_links s)) as [qi|]; [|exact Hi].
    pose proof (step_at_inv (Enqueue p h) I (h_queues s) qi Hi) as H.
    destruct (step_at qi (Enqueue p h) (h_queues s)). exact H.
  - destruct (route h (h_links s)) as [qi|]; [|exact Hi].
    pose proof (step_at_inv (Completed n h) Hok (h_queues s) qi Hi) as H.
    destruct (step_at qi (Completed n h) (h_queues s)). exact H.
Qed.

(* ---------- all reachable states ---------- *)
Record hinv (s : hstate) : Prop := {
  hi_owned : owned s;
  hi_range : in_range s;
  hi_queues : Forall inv (h_queues s)
}.

Lemma hinv_init maxfs : Forall (fun m => 0 <= m) maxfs -> hinv (h_init maxfs).
Proof.
  intros H. constructor; [apply init_owned|apply init_in_range|].
  unfold h_init. cbn. induction H; cbn; constructor; [apply inv_init; assumption|assumption].
Qed.

Lemma hinv_step s o : hop_ok o -> hinv s -> hinv (fst (h_step s o)).
Proof.
  intros Hok [Ho Hr Hq]. constructor;
    [apply step_owned; exact Ho|apply step_in_range; exact Hr|apply step_all_inv_h; assumption].
Qed.

Lemma hinv_run ops : forall s, Forall hop_ok ops -> hinv s -> hinv (fst (h_run s ops)).
Proof.
  induction ops as [|o ops IH]; intros s Hok Hi; [exact Hi|].
  inversion Hok as [|? ? Ho Hos]; subst. cbn [h_run].
  pose proof (hinv_step s o Ho Hi) as H1. destruct (h_step s o) as [s1 out1]. cbn [fst] in H1.
  specialize (IH s1 Hos H1). destruct (h_run s1 ops) as [s2 out2]. exact IH.
Qed.

(* ---------- consequences ---------- *)
(* A completion report for a handle is delivered to exactly the queue that accounts packets of
   that handle: wherever a queue holds per-connection state for h, HDone n h steps that queue. *)
Lemma done_reaches_owner s i q c n h :
  owned s -> nth_error (h_queues s) i = Some q -> find_conn h (q_conns q) = Some c ->
  fst (h_step s (HDone n h)) = mkH (h_links s) (fst (step_at i (Completed n h) (h_queues s))).
Proof.
  intros Ho Hq Hc. cbn [h_step].
  assert (R : route h (h_links s) = Some i).
  { eapply Ho; [exact Hq|]. unfold mentions. apply in_or_app. left.
    apply find_conn_in in Hc. destruct Hc as [Hin <-]. clear -Hin.
    induction (q_conns q) as [|d cs IH]; [destruct Hin|]. cbn. destruct Hin as [->|Hin]; auto. }
  rewrite R. destruct (step_at i (Completed n h) (h_queues s)). reflexivity.
Qed.

Lemma handles_nil_conns cs : handles cs = [] -> cs = [].
Proof. destruct cs; [reflexivity|discriminate]. Qed.

(* A queue none of whose links is live holds nothing: no packet waiting, none in flight, no
   per-connection state - all its credits are free (whatever links, of whatever kind, used its
   handles before). *)
Lemma idle_queue_is_empty s i q :
  hinv s -> nth_error (h_queues s) i = Some q ->
  (forall k, route k (h_links s) <> Some i) ->
  q_conns q = [] /\ q_wait q = [] /\ q_inflight q = 0.
Proof.
  intros [Ho _ Hq] Hn Hidle.
  assert (M : mentions q = []).
  { destruct (mentions q) as [|k m] eqn:E; [reflexivity|].
    exfalso. apply (Hidle k). eapply Ho; [exact Hn|]. rewrite E. left. reflexivity. }
  unfold mentions in M. apply app_eq_nil in M. destruct M as [Mc Mw].
  apply handles_nil_conns in Mc. apply map_eq_nil in Mw.
  rewrite Forall_forall in Hq. pose proof (Hq q (nth_error_In _ _ Hn)) as Hi.
  repeat split; try assumption. rewrite (inv_sum _ Hi), Mc. reflexivity.
Qed.

(* A closed handle is known to no queue, so a link that re-uses the handle starts from nothing. *)
Lemma closed_handle_unknown s i q h :
  hinv s -> nth_error (h_queues s) i = Some q -> route h (h_links s) = None ->
  find_conn h (q_conns q) = None /\ filter (is_handle h) (q_wait q) = [].
Proof.
  intros [Ho _ _] Hn R. split.
  - destruct (find_conn h (q_conns q)) as [c|] eqn:E; [|reflexivity]. exfalso.
    assert (In h (mentions q)).
    { unfold mentions. apply in_or_app. left. apply find_conn_in in E. destruct E as [Hin <-].
      clear -Hin. induction (q_conns q) as [|d cs IH]; [destruct Hin|]. cbn. destruct Hin as [->|Hin]; auto. }
    rewrite (Ho i q h Hn H) in R. discriminate.
  - destruct (filter (is_handle h) (q_wait q)) as [|[p k] w] eqn:E; [reflexivity|]. exfalso.
    assert (Hin : In (p, k) (filter (is_handle h) (q_wait q))) by (rewrite E; left; reflexivity).
    apply filter_In in Hin. destruct Hin as [Hin Hk]. unfold is_handle in Hk. cbn in Hk.
    apply Z.eqb_eq in Hk. subst k.
    assert (In h (mentions q)).
    { unfold mentions. apply in_or_app. right. apply in_map_iff. exists (p, h). tauto. }
    rewrite (Ho i q h Hn H) in R. discriminate.
Qed.
