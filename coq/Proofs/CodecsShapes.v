(* Proofs/CodecsShapes.v — the hand-written codec models ARE the interpreter of
   Model/CodecsShapes.v on the layouts recorded there (so that the per-run obligation
   "layouts extracted from the source AST = recorded layouts" ties every shift, mask, octet index,
   threshold and stride of the models to the code). *)
From Coq Require Import ZArith List Bool Lia.
From BV Require Import Base.Bytes Model.CodecsBase Proofs.CodecsBase Model.CodecsSdp Model.CodecsL2cap Model.CodecsRfcomm
  Proofs.CodecsRfcomm Model.CodecsAv Model.CodecsA2dp Model.CodecsShapes Gen.C18Tables Gen.C18Shapes.
Import ListNotations.
Open Scope Z_scope.

(* ---- ERTM *)
Lemma ertm_i_parse_is_shape : forall b0 b1,
  [i_tx_seq (iframe_parse b0 b1); i_sar (iframe_parse b0 b1); i_req_seq (iframe_parse b0 b1); i_final (iframe_parse b0 b1)]
  = eval_shape [b0; b1] [] ertm_i_parse_layout.
Proof. reflexivity. Qed.
Lemma ertm_i_ser_is_shape : forall f,
  iframe_bytes f = eval_shape [] [i_tx_seq f; i_sar f; i_req_seq f; i_final f] ertm_i_ser_layout.
Proof. intros [tx sar req fin]. reflexivity. Qed.
Lemma ertm_s_parse_is_shape : forall b0 b1,
  [s_function (sframe_parse b0 b1); s_poll (sframe_parse b0 b1); s_req_seq (sframe_parse b0 b1); s_final (sframe_parse b0 b1)]
  = eval_shape [b0; b1] [] ertm_s_parse_layout.
Proof. reflexivity. Qed.
Lemma ertm_s_ser_is_shape : forall f,
  sframe_bytes f = eval_shape [] [s_function f; s_poll f; s_req_seq f; s_final f] ertm_s_ser_layout.
Proof. intros [fn poll req fin]. reflexivity. Qed.

(* ---- RFCOMM *)
Lemma msc_parse_is_shape : forall d0 d1 r, msc_parse (d0 :: d1 :: r) = Some (eval_shape [d0; d1] [] msc_parse_layout).
Proof. reflexivity. Qed.
Lemma msc_ser_is_shape : forall dlci fc rtc rtr ic dv,
  msc_bytes [dlci; fc; rtc; rtr; ic; dv] = eval_shape [] [dlci; fc; rtc; rtr; ic; dv] msc_ser_layout.
Proof. reflexivity. Qed.
Lemma pn_parse_is_shape : forall d0 d1 d2 d3 d4 d5 d6 d7 r,
  pn_parse (d0 :: d1 :: d2 :: d3 :: d4 :: d5 :: d6 :: d7 :: r) = Some (eval_shape [d0; d1; d2; d3; d4; d5; d6; d7] [] pn_parse_layout).
Proof. reflexivity. Qed.
Lemma pn_ser_is_shape : forall a b c d e f g,
  pn_bytes [a; b; c; d; e; f; g] = eval_shape [] [a; b; c; d; e; f; g] pn_ser_layout.
Proof. reflexivity. Qed.
Lemma rfcomm_header_parse_is_shape : forall b0 b1 info,
  let f := mk_parsed b0 b1 info in
  [f_dlci f; f_cr f; f_type f; f_pf f] = eval_shape [b0; b1] [] rfcomm_header_parse_layout.
Proof. reflexivity. Qed.
Lemma rfcomm_header_ser_is_shape : forall f,
  [frame_address f; frame_control f] = eval_shape [] [f_dlci f; f_cr f; f_type f; f_pf f] rfcomm_header_ser_layout.
Proof. intros [t cr d pf info c]. reflexivity. Qed.
Lemma rfcomm_length_is_shape : forall L,
  length_bytes L = if rfcomm_length_threshold_layout <? L then eval_shape [] [L] rfcomm_length2_layout else eval_shape [] [L] rfcomm_length1_layout.
Proof. intro L. unfold length_bytes. change rfcomm_length_threshold_layout with 127. destruct (127 <? L); reflexivity. Qed.

(* ---- AVDTP / AVCTP / RTP *)
Lemma epi_parse_is_shape : forall b0 b1 r, epi_parse (b0 :: b1 :: r) = Some (eval_shape [b0; b1] [] epi_parse_layout).
Proof. reflexivity. Qed.
Lemma epi_ser_is_shape : forall a b c d, epi_bytes [a; b; c; d] = eval_shape [] [a; b; c; d] epi_ser_layout.
Proof. reflexivity. Qed.
Lemma avdtp_b0_ser_is_shape : forall tl pt mt, [avdtp_b0 tl pt mt] = eval_shape [] [tl; pt; mt] avdtp_b0_ser_layout.
Proof. reflexivity. Qed.
Lemma avdtp_b0_parse_is_shape : forall b0 r,
  avdtp_header_parse (b0 :: r) =
  match eval_shape [b0] [] avdtp_b0_parse_layout with
  | [tl; pt; mt] =>
      if pt =? 0 then match r with b1 :: p => Some ([tl; pt; mt; Z.land b1 63], p) | _ => None end
      else if pt =? 1 then match r with b1 :: c :: p => Some ([tl; pt; mt; Z.land b1 63; c], p) | _ => None end
      else Some ([tl; pt; mt], r)
  | _ => None
  end.
Proof. reflexivity. Qed.
Lemma avctp_b0_parse_is_shape : forall b0 r,
  avctp_parse (b0 :: r) =
  match eval_shape [b0] [] avctp_b0_parse_layout with
  | [tl; pt; cr; ipid] =>
      if (cr =? 0) && negb (ipid =? 0) then Some None
      else if pt =? 0 then
        match r with
        | p0 :: p1 :: payload => Some (Some (tl, cr =? 0, negb (ipid =? 0), be_decode [p0; p1], payload))
        | _ => None
        end
      else None
  | _ => None
  end.
Proof. reflexivity. Qed.
Lemma rtp_header_parse_is_shape : forall b0 b1 s0 s1 t0 t1 t2 t3 c0 c1 c2 c3 r,
  rtp_parse (b0 :: b1 :: s0 :: s1 :: t0 :: t1 :: t2 :: t3 :: c0 :: c1 :: c2 :: c3 :: r) =
  match eval_shape [b0; b1] [] rtp_header_parse_layout with
  | [v; p; x; cc; m; pt] =>
      match rtp_words (Z.to_nat cc) r with
      | Some (ws, payload) =>
          Some {| r_version := v; r_padding := p; r_extension := x; r_marker := m;
                  r_seq := be_decode [s0; s1]; r_ts := be_decode [t0; t1; t2; t3];
                  r_ssrc := be_decode [c0; c1; c2; c3]; r_csrc := ws; r_pt := pt; r_payload := payload |}
      | None => None
      end
  | _ => None
  end.
Proof. reflexivity. Qed.
(* the CSRC list starts after [rtp_csrc_base] octets and each entry takes [rtp_csrc_stride] *)
Lemma rtp_csrc_layout : forall a b c d r hdr,
  rtp_words 1 (a :: b :: c :: d :: r) = Some ([be_decode [a; b; c; d]], r) /\
  length [a; b; c; d] = Z.to_nat rtp_csrc_stride_layout /\
  (length hdr < Z.to_nat rtp_csrc_base_layout -> rtp_parse hdr = None)%nat.
Proof.
  intros a b c d r hdr. split; [reflexivity|]. split; [reflexivity|].
  intro H. change (Z.to_nat rtp_csrc_base_layout) with 12%nat in H.
  do 12 (destruct hdr as [|? hdr]; [reflexivity|]). cbn [length] in H. lia.
Qed.

(* ---- A2DP *)
Lemma sbc_parse_is_shape : forall d0 d1 d2 d3 r, sbc_parse (d0 :: d1 :: d2 :: d3 :: r) = Some (eval_shape [d0; d1; d2; d3] [] sbc_parse_layout).
Proof. reflexivity. Qed.
Lemma sbc_ser_is_shape : forall a b c d e f g, sbc_bytes [a; b; c; d; e; f; g] = eval_shape [] [a; b; c; d; e; f; g] sbc_ser_layout.
Proof. reflexivity. Qed.
Lemma aac_parse_is_shape : forall d0 d1 d2 d3 d4 d5 r,
  aac_parse (d0 :: d1 :: d2 :: d3 :: d4 :: d5 :: r) = Some (eval_shape [d0; d1; d2; d3; d4; d5] [] aac_parse_layout).
Proof. reflexivity. Qed.
Lemma aac_ser_is_shape : forall a b c d e,
  aac_bytes [a; b; c; d; e] = eval_shape_masked [] [a; b; c; d; e] aac_ser_layout aac_ser_outer_layout.
Proof. reflexivity. Qed.

(* ---- SDP size tables *)
Lemma sdp_fixed_index_is_table : forall n, fixed_index n = fixed_index_tab sdp_fixed_index_layout n.
Proof.
  intro n. unfold fixed_index, sdp_fixed_index_layout. cbn [fixed_index_tab Z.eqb Pos.eqb].
  destruct (n <=? 1); [reflexivity|]. destruct (n =? 2); [reflexivity|]. destruct (n =? 4); [reflexivity|].
  destruct (n =? 8); [reflexivity|]. destruct (n =? 16); reflexivity.
Qed.
Lemma sdp_var_header_is_table : forall ty d,
  var_header ty d =
  match var_index_tab sdp_var_index_layout (lenZ d) with
  | Some (idx, w) => Some (hdr ty idx :: (if w =? 1 then [lenZ d] else be_encode (Z.to_nat w) (lenZ d)) ++ d)
  | None => None
  end.
Proof.
  intros ty d. unfold var_header, sdp_var_index_layout. cbn [var_index_tab].
  destruct (lenZ d <=? 255); [reflexivity|]. destruct (lenZ d <=? 65535); [reflexivity|].
  destruct (lenZ d <=? 4294967295); reflexivity.
Qed.
Lemma sdp_size_of_header_is_table : forall ty idx d1, 0 <= idx < 8 ->
  size_of_header ty idx d1 =
  if idx =? 0 then Some (O, if ty =? 0 then 0 else 1)
  else match assoc_tab sdp_parse_fixed_layout idx with
       | Some vs => Some (O, vs)
       | None =>
           match assoc_tab sdp_parse_var_layout idx with
           | Some w => if (Z.to_nat w <=? length d1)%nat
                       then Some (Z.to_nat w, be_decode (firstn (Z.to_nat w) d1)) else None
           | None => None
           end
       end.
Proof.
  intros ty idx d1 H.
  assert (C : idx = 0 \/ idx = 1 \/ idx = 2 \/ idx = 3 \/ idx = 4 \/ idx = 5 \/ idx = 6 \/ idx = 7) by lia.
  destruct C as [-> | [-> | [-> | [-> | [-> | [-> | [-> | ->]]]]]]]; try reflexivity.
  - destruct d1 as [|b r]; [reflexivity|].
    change (size_of_header ty 5 (b :: r)) with (Some (1%nat, b)).
    change (assoc_tab sdp_parse_fixed_layout 5) with (@None Z).
    change (assoc_tab sdp_parse_var_layout 5) with (Some 1). change (5 =? 0) with false. cbv iota.
    change (Z.to_nat 1) with 1%nat. cbn [length Nat.leb firstn].
    unfold be_decode. cbn [rev app le_decode]. f_equal. f_equal. lia.
  - destruct d1 as [|b0 [|b1 r]]; reflexivity.
  - destruct d1 as [|b0 [|b1 [|b2 [|b3 r]]]]; reflexivity.
Qed.

(* ---- the per-run obligation: the layouts extracted from the source AST are the recorded ones *)
Definition shapes_match : bool :=
  let eqs (a b : list (list (Z * Z * Z * Z * Z))) :=
    zlist_eqb (flat_map (fun row => (-7) :: flat_map (fun t => let '(k, i, s, m, l) := t in [k; i; s; m; l]) row) a)
              (flat_map (fun row => (-7) :: flat_map (fun t => let '(k, i, s, m, l) := t in [k; i; s; m; l]) row) b) in
  eqs ertm_i_parse_src ertm_i_parse_layout && eqs ertm_i_ser_src ertm_i_ser_layout &&
  eqs ertm_s_parse_src ertm_s_parse_layout && eqs ertm_s_ser_src ertm_s_ser_layout &&
  eqs msc_parse_src msc_parse_layout && eqs msc_ser_src msc_ser_layout && eqs pn_parse_src pn_parse_layout && eqs pn_ser_src pn_ser_layout &&
  eqs rfcomm_header_parse_src rfcomm_header_parse_layout && eqs rfcomm_header_ser_src rfcomm_header_ser_layout &&
  (rfcomm_length_threshold_src =? rfcomm_length_threshold_layout) &&
  eqs rfcomm_length2_src rfcomm_length2_layout && eqs rfcomm_length1_src rfcomm_length1_layout &&
  eqs epi_parse_src epi_parse_layout && eqs epi_ser_src epi_ser_layout &&
  eqs avdtp_b0_parse_src avdtp_b0_parse_layout && eqs avdtp_b0_ser_src avdtp_b0_ser_layout &&
  eqs avctp_b0_parse_src avctp_b0_parse_layout && eqs rtp_header_parse_src rtp_header_parse_layout &&
  (rtp_csrc_base_src =? rtp_csrc_base_layout) && (rtp_csrc_stride_src =? rtp_csrc_stride_layout).

Lemma shapes_match_checked : shapes_match = true.
Proof. vm_compute. reflexivity. Qed.

(* the same as Leibniz equalities *)
Lemma shapes_equal_checked :
  ertm_i_parse_src = ertm_i_parse_layout /\ ertm_i_ser_src = ertm_i_ser_layout /\ ertm_s_parse_src = ertm_s_parse_layout /\
  ertm_s_ser_src = ertm_s_ser_layout /\ msc_parse_src = msc_parse_layout /\ msc_ser_src = msc_ser_layout /\
  pn_parse_src = pn_parse_layout /\ pn_ser_src = pn_ser_layout /\ rfcomm_header_parse_src = rfcomm_header_parse_layout /\
  rfcomm_header_ser_src = rfcomm_header_ser_layout /\ rfcomm_length_threshold_src = rfcomm_length_threshold_layout /\
  rfcomm_length2_src = rfcomm_length2_layout /\ rfcomm_length1_src = rfcomm_length1_layout /\
  epi_parse_src = epi_parse_layout /\ epi_ser_src = epi_ser_layout /\ avdtp_b0_parse_src = avdtp_b0_parse_layout /\
  avdtp_b0_ser_src = avdtp_b0_ser_layout /\ avctp_b0_parse_src = avctp_b0_parse_layout /\
  rtp_header_parse_src = rtp_header_parse_layout /\ rtp_csrc_base_src = rtp_csrc_base_layout /\ rtp_csrc_stride_src = rtp_csrc_stride_layout /\
  sdp_fixed_index_src = sdp_fixed_index_layout /\ sdp_var_index_src = sdp_var_index_layout /\
  sdp_parse_fixed_src = sdp_parse_fixed_layout /\ sdp_parse_var_src = sdp_parse_var_layout /\
  sbc_parse_src = sbc_parse_layout /\ sbc_ser_src = sbc_ser_layout /\ aac_parse_src = aac_parse_layout /\
  aac_ser_src = aac_ser_layout /\ aac_ser_src_outer = aac_ser_outer_layout /\
  sdp_list_exits_src = sdp_list_exits_layout /\ exits_restore_depth sdp_list_exits_src = true.
Proof. repeat split; reflexivity. Qed.

(* all model-is-layout statements together *)
Definition models_are_layouts_stmt : Prop :=
  (forall b0 b1, [i_tx_seq (iframe_parse b0 b1); i_sar (iframe_parse b0 b1); i_req_seq (iframe_parse b0 b1); i_final (iframe_parse b0 b1)]
                 = eval_shape [b0; b1] [] ertm_i_parse_layout) /\
  (forall f, iframe_bytes f = eval_shape [] [i_tx_seq f; i_sar f; i_req_seq f; i_final f] ertm_i_ser_layout) /\
  (forall b0 b1, [s_function (sframe_parse b0 b1); s_poll (sframe_parse b0 b1); s_req_seq (sframe_parse b0 b1); s_final (sframe_parse b0 b1)]
                 = eval_shape [b0; b1] [] ertm_s_parse_layout) /\
  (forall f, sframe_bytes f = eval_shape [] [s_function f; s_poll f; s_req_seq f; s_final f] ertm_s_ser_layout) /\
  (forall d0 d1 r, msc_parse (d0 :: d1 :: r) = Some (eval_shape [d0; d1] [] msc_parse_layout)) /\
  (forall dlci fc rtc rtr ic dv, msc_bytes [dlci; fc; rtc; rtr; ic; dv] = eval_shape [] [dlci; fc; rtc; rtr; ic; dv] msc_ser_layout) /\
  (forall d0 d1 d2 d3 d4 d5 d6 d7 r,
     pn_parse (d0 :: d1 :: d2 :: d3 :: d4 :: d5 :: d6 :: d7 :: r) = Some (eval_shape [d0; d1; d2; d3; d4; d5; d6; d7] [] pn_parse_layout)) /\
  (forall a b c d e f g, pn_bytes [a; b; c; d; e; f; g] = eval_shape [] [a; b; c; d; e; f; g] pn_ser_layout) /\
  (forall b0 b1 info, let f := mk_parsed b0 b1 info in
     [f_dlci f; f_cr f; f_type f; f_pf f] = eval_shape [b0; b1] [] rfcomm_header_parse_layout) /\
  (forall f, [frame_address f; frame_control f] = eval_shape [] [f_dlci f; f_cr f; f_type f; f_pf f] rfcomm_header_ser_layout) /\
  (forall L, length_bytes L = if rfcomm_length_threshold_layout <? L then eval_shape [] [L] rfcomm_length2_layout
                              else eval_shape [] [L] rfcomm_length1_layout) /\
  (forall b0 b1 r, epi_parse (b0 :: b1 :: r) = Some (eval_shape [b0; b1] [] epi_parse_layout)) /\
  (forall a b c d, epi_bytes [a; b; c; d] = eval_shape [] [a; b; c; d] epi_ser_layout) /\
  (forall tl pt mt, [avdtp_b0 tl pt mt] = eval_shape [] [tl; pt; mt] avdtp_b0_ser_layout) /\
  (forall d0 d1 d2 d3 r, sbc_parse (d0 :: d1 :: d2 :: d3 :: r) = Some (eval_shape [d0; d1; d2; d3] [] sbc_parse_layout)) /\
  (forall a b c d e f g, sbc_bytes [a; b; c; d; e; f; g] = eval_shape [] [a; b; c; d; e; f; g] sbc_ser_layout) /\
  (forall d0 d1 d2 d3 d4 d5 r, aac_parse (d0 :: d1 :: d2 :: d3 :: d4 :: d5 :: r) = Some (eval_shape [d0; d1; d2; d3; d4; d5] [] aac_parse_layout)) /\
  (forall a b c d e, aac_bytes [a; b; c; d; e] = eval_shape_masked [] [a; b; c; d; e] aac_ser_layout aac_ser_outer_layout).

Lemma models_are_layouts : models_are_layouts_stmt.
Proof.
  unfold models_are_layouts_stmt.
  split; [exact ertm_i_parse_is_shape|]. split; [exact ertm_i_ser_is_shape|].
  split; [exact ertm_s_parse_is_shape|]. split; [exact ertm_s_ser_is_shape|].
  split; [exact msc_parse_is_shape|]. split; [exact msc_ser_is_shape|].
  split; [exact pn_parse_is_shape|]. split; [exact pn_ser_is_shape|].
  split; [exact rfcomm_header_parse_is_shape|]. split; [exact rfcomm_header_ser_is_shape|].
  split; [exact rfcomm_length_is_shape|]. split; [exact epi_parse_is_shape|].
  split; [exact epi_ser_is_shape|]. split; [exact avdtp_b0_ser_is_shape|].
  split; [exact sbc_parse_is_shape|]. split; [exact sbc_ser_is_shape|]. split; [exact aac_parse_is_shape|]. exact aac_ser_is_shape.
Qed.
