(* Library lemmas for Proofs/ChanMgr.v: association tables with dictionary semantics, the
   channel heap, the waiter list, indexed maps, and the CID allocator. *)
From Coq Require Import ZArith List Bool Lia.
From BV Require Import Gen.C09Tables Model.ChanMgr.
Import ListNotations.
Open Scope Z_scope.

(* ------------------------------------------------------------------ small facts *)
Lemma memz_In x l : memz x l = true <-> In x l.
Proof.
  induction l as [|y l IH]; cbn; [split; [discriminate|tauto]|].
  rewrite orb_true_iff, IH, Z.eqb_eq. split; intros [H|H]; auto.
Qed.

Lemma memz_false x l : memz x l = false <-> ~ In x l.
Proof. rewrite <- memz_In. destruct (memz x l); split; congruence. Qed.

Lemma nodupz_NoDup l : nodupz l = true <-> NoDup l.
Proof.
  induction l as [|x l IH]; cbn; [split; [constructor|reflexivity]|].
  rewrite andb_true_iff, negb_true_iff, memz_false, IH. split.
  - intros [H1 H2]. constructor; auto.
  - intros H. inversion H; auto.
Qed.

Lemma any_mem_false xs ys : any_mem xs ys = false <-> (forall x, In x xs -> ~ In x ys).
Proof.
  induction xs as [|x xs IH]; cbn; [split; [intros _ ? []|reflexivity]|].
  rewrite orb_false_iff, IH, memz_false. split.
  - intros [H1 H2] y [<-|Hy]; auto.
  - intros H. split; [apply H; auto|intros y Hy; apply H; auto].
Qed.

(* ------------------------------------------------------------------ tables *)
Section Tables.
  Context {V : Type}.
  Implicit Types (t : table V) (h k : Z) (v : V).

  Lemma key_is_iff h k (e : Z * Z * V) :
    key_is h k e = true <-> fst (fst e) = h /\ snd (fst e) = k.
  Proof. unfold key_is. rewrite andb_true_iff, !Z.eqb_eq. tauto. Qed.

  Lemma tget_In h k v t : tget h k t = Some v -> In (h, k, v) t.
  Proof.
    induction t as [|[[h' k'] v'] t IH]; cbn; [discriminate|].
    destruct (key_is h k (h', k', v')) eqn:E.
    - apply key_is_iff in E. cbn in E. destruct E; subst. intros [= ->]. auto.
    - auto.
  Qed.

  Lemma tget_None_In h k t : tget h k t = None -> forall v, ~ In (h, k, v) t.
  Proof.
    induction t as [|[[h' k'] v'] t IH]; cbn; [intros _ v []|].
    destruct (key_is h k (h', k', v')) eqn:E; [discriminate|].
    intros Hn v [Hv|Hv]; [|eapply IH; eauto].
    inversion Hv; subst. unfold key_is in E. cbn in E. rewrite !Z.eqb_refl in E. discriminate.
  Qed.

  Lemma In_tget h k v t : NoDup (map fst t) -> In (h, k, v) t -> tget h k t = Some v.
  Proof.
    induction t as [|[[h' k'] v'] t IH]; cbn; [intros _ []|].
    intros Hnd [He|Hi].
    - inversion He; subst. unfold key_is. cbn. now rewrite !Z.eqb_refl.
    - inversion Hnd as [|? ? Hni Hnd']; subst.
      destruct (key_is h k (h', k', v')) eqn:E; [|auto].
      apply key_is_iff in E. cbn in E. destruct E; subst.
      exfalso. apply Hni. change (h, k) with (fst (h, k, v)). now apply in_map.
  Qed.

  Lemma tget_tset h k v t h' k' :
    tget h' k' (tset h k v t) = if Z.eqb h' h && Z.eqb k' k then Some v else tget h' k' (tdel h k t).
  Proof. unfold tset. cbn [tget]. unfold key_is at 1. cbn. now rewrite (Z.eqb_sym h h'), (Z.eqb_sym k k'). Qed.

  Lemma tget_tdel h k t h' k' :
    tget h' k' (tdel h k t) = if Z.eqb h' h && Z.eqb k' k then None else tget h' k' t.
  Proof.
    unfold tdel. induction t as [|[[h2 k2] v2] t IH]; cbn; [now destruct (_ && _)|].
    unfold key_is in *. cbn in *.
    destruct (Z.eqb_spec h2 h), (Z.eqb_spec k2 k), (Z.eqb_spec h' h), (Z.eqb_spec k' k);
      subst; cbn in *; rewrite ?IH; cbn; unfold key_is, conn_is; cbn;
      repeat match goal with
             | |- context [Z.eqb ?a ?b] => destruct (Z.eqb_spec a b); subst; cbn; try congruence
             end; auto.
  Qed.

  Lemma tget_tdrop h t h' k' :
    tget h' k' (tdrop h t) = if Z.eqb h' h then None else tget h' k' t.
  Proof.
    unfold tdrop. induction t as [|[[h2 k2] v2] t IH]; cbn; [now destruct (_ =? _)|].
    unfold key_is, conn_is in *. cbn in *.
    destruct (Z.eqb_spec h2 h), (Z.eqb_spec h' h);
      subst; cbn in *; rewrite ?IH; cbn; unfold key_is, conn_is; cbn;
      repeat match goal with
             | |- context [Z.eqb ?a ?b] => destruct (Z.eqb_spec a b); subst; cbn; try congruence
             end; auto.
  Qed.

  Lemma map_fst_filter (f : Z * Z * V -> bool) t x :
    In x (map fst (filter f t)) -> In x (map fst t).
  Proof.
    rewrite !in_map_iff. intros [e [He Hi]]. apply filter_In in Hi. exists e. tauto.
  Qed.

  Lemma NoDup_filter_keys (f : Z * Z * V -> bool) t :
    NoDup (map fst t) -> NoDup (map fst (filter f t)).
  Proof.
    induction t as [|e t IH]; cbn; [auto|]. intros H. inversion H; subst.
    destruct (f e); cbn; [constructor|]; auto.
    intros Hi. apply map_fst_filter in Hi. auto.
  Qed.

  Lemma NoDup_tdel h k t : NoDup (map fst t) -> NoDup (map fst (tdel h k t)).
  Proof. apply NoDup_filter_keys. Qed.
  Lemma NoDup_tdrop h t : NoDup (map fst t) -> NoDup (map fst (tdrop h t)).
  Proof. apply NoDup_filter_keys. Qed.

  Lemma NoDup_tset h k v t : NoDup (map fst t) -> NoDup (map fst (tset h k v t)).
  Proof.
    intros H. unfold tset. cbn. constructor; [|now apply NoDup_tdel].
    rewrite in_map_iff. intros [[[h' k'] v'] [He Hi]]. cbn in He. inversion He; subst.
    unfold tdel in Hi. apply filter_In in Hi. destruct Hi as [_ Hi].
    unfold key_is in Hi. cbn in Hi. rewrite !Z.eqb_refl in Hi. discriminate.
  Qed.

  (* projection on one connection *)
  Lemma conn_is_iff h (e : Z * Z * V) : conn_is h e = true <-> fst (fst e) = h.
  Proof. unfold conn_is. apply Z.eqb_eq. Qed.

  Ltac tconn_tac IH :=
    cbn; unfold key_is, conn_is in *; cbn in *;
    repeat match goal with
           | |- context [Z.eqb ?a ?b] => destruct (Z.eqb_spec a b); subst; cbn; try congruence
           end; rewrite ?IH; auto.

  Lemma tconn_tdel_other h k t b : b <> h -> tconn b (tdel h k t) = tconn b t.
  Proof.
    intros Hb. unfold tconn, tdel. induction t as [|[[h2 k2] v2] t IH]; [auto|]. tconn_tac IH.
  Qed.

  Lemma tconn_tset_other h k v t b : b <> h -> tconn b (tset h k v t) = tconn b t.
  Proof.
    intros Hb. unfold tset. unfold tconn at 1. cbn [filter]. unfold conn_is at 1. cbn.
    destruct (Z.eqb_spec h b); [congruence|]. now apply tconn_tdel_other.
  Qed.

  Lemma tconn_tdrop_other h t b : b <> h -> tconn b (tdrop h t) = tconn b t.
  Proof.
    intros Hb. unfold tconn, tdrop. induction t as [|[[h2 k2] v2] t IH]; [auto|]. tconn_tac IH.
  Qed.

  Lemma tconn_tdrop_same h t : tconn h (tdrop h t) = [].
  Proof.
    unfold tconn, tdrop. induction t as [|e t IH]; cbn; [auto|].
    destruct (conn_is h e) eqn:E; cbn; [auto|]. now rewrite E.
  Qed.

  Lemma In_tconn h t e : In e (tconn h t) <-> In e t /\ fst (fst e) = h.
  Proof. unfold tconn. rewrite filter_In, conn_is_iff. tauto. Qed.

  Lemma tkeys_In h k t : In k (tkeys h t) <-> exists v, In (h, k, v) t.
  Proof.
    unfold tkeys. rewrite in_map_iff. split.
    - intros [[[h' k'] v] [Hk Hi]]. apply In_tconn in Hi. cbn in *. destruct Hi; subst. eauto.
    - intros [v Hi]. exists (h, k, v). split; [auto|]. apply In_tconn. auto.
  Qed.

  Lemma tkeys_tget h k t : In k (tkeys h t) <-> tget h k t <> None.
  Proof.
    rewrite tkeys_In. split.
    - intros [v Hi] Hn. eapply tget_None_In; eauto.
    - destruct (tget h k t) eqn:E; [|congruence]. intros _. eauto using tget_In.
  Qed.
End Tables.

(* ------------------------------------------------------------------ lists with update *)
Lemma nth_error_lupd {A} (l : list A) n f n' :
  nth_error (lupd l n f) n' = if Nat.eqb n' n then option_map f (nth_error l n') else nth_error l n'.
Proof.
  revert n n'. induction l as [|x l IH]; intros n n'; cbn.
  - destruct (Nat.eqb n' n); destruct n'; auto.
  - destruct n, n'; cbn; auto.
Qed.

Lemma length_lupd {A} (l : list A) n f : length (lupd l n f) = length l.
Proof. revert n. induction l; intros [|n]; cbn; auto. Qed.

Lemma nth_error_map_from {A B} (f : Z -> A -> B) i l n :
  nth_error (map_from f i l) n = option_map (f (i + Z.of_nat n)) (nth_error l n).
Proof.
  revert i n. induction l as [|x l IH]; intros i n; cbn.
  - now destruct n.
  - destruct n; cbn. { now rewrite Z.add_0_r. }
    rewrite IH. f_equal. f_equal. lia.
Qed.

Lemma length_map_from {A B} (f : Z -> A -> B) i l : length (map_from f i l) = length l.
Proof. revert i. induction l; intros; cbn; auto. Qed.

Lemma In_flat_map_from {A B} (f : Z -> A -> list B) i l y :
  In y (flat_map_from f i l) <-> exists n x, nth_error l n = Some x /\ In y (f (i + Z.of_nat n) x).
Proof.
  revert i. induction l as [|x l IH]; intros i; cbn.
  - split; [intros []|intros [n [x [H _]]]; now destruct n].
  - rewrite in_app_iff, IH. split.
    + intros [H|[n [x' [Hn Hy]]]].
      * exists O, x. cbn. now rewrite Z.add_0_r.
      * exists (S n), x'. cbn. split; auto. replace (i + Z.pos (Pos.of_succ_nat n)) with (i + 1 + Z.of_nat n) by lia. auto.
    + intros [[|n] [x' [Hn Hy]]]; cbn in *.
      * inversion Hn; subst. rewrite Z.add_0_r in Hy. auto.
      * right. exists n, x'. split; auto. replace (i + 1 + Z.of_nat n) with (i + Z.pos (Pos.of_succ_nat n)) by lia. auto.
Qed.

(* ------------------------------------------------------------------ heap and waiters *)
Definition wget (m : mgr) (w : Z) : option waiter :=
  if w <? 0 then None else nth_error (m_w m) (Z.to_nat w).

Lemma wout_wget m w : wout m w = match wget m w with Some x => w_out x | None => O_ERROR end.
Proof. unfold wout, wget. now destruct (w <? 0). Qed.

Lemma hget_bound m u c : hget m u = Some c -> 0 <= u < Z.of_nat (length (m_heap m)).
Proof.
  unfold hget. destruct (Z.ltb_spec u 0) as [|Hu]; [discriminate|]. intros Hn.
  assert (Hs : nth_error (m_heap m) (Z.to_nat u) <> None) by congruence.
  apply nth_error_Some in Hs. lia.
Qed.

Lemma wget_bound m w x : wget m w = Some x -> 0 <= w < Z.of_nat (length (m_w m)).
Proof.
  unfold wget. destruct (Z.ltb_spec w 0) as [|Hw]; [discriminate|]. intros Hn.
  assert (Hs : nth_error (m_w m) (Z.to_nat w) <> None) by congruence.
  apply nth_error_Some in Hs. lia.
Qed.

Lemma hget_lupd m u f u' l :
  m_heap m = l ->
  (if u' <? 0 then None else nth_error (lupd l (Z.to_nat u) f) (Z.to_nat u')) =
  if u <? 0 then (if u' <? 0 then None else nth_error (lupd l (Z.to_nat u) f) (Z.to_nat u'))
  else if Z.eqb u' u then option_map f (hget m u') else hget m u'.
Proof.
  intros <-. unfold hget. destruct (Z.ltb_spec u 0); [auto|].
  destruct (Z.ltb_spec u' 0).
  - destruct (Z.eqb_spec u' u); auto.
  - rewrite nth_error_lupd. destruct (Z.eqb_spec u' u).
    + subst. now rewrite Nat.eqb_refl.
    + destruct (Nat.eqb_spec (Z.to_nat u') (Z.to_nat u)); [lia|auto].
Qed.

Lemma hget_hupd m u f u' :
  hget (hupd m u f) u' = if Z.eqb u' u then option_map f (hget m u') else hget m u'.
Proof.
  unfold hupd. destruct (Z.ltb_spec u 0).
  - destruct (Z.eqb_spec u' u); auto. subst. unfold hget. destruct (Z.ltb_spec u 0); [auto|lia].
  - unfold hget at 1. cbn [m_heap with_heap]. rewrite (hget_lupd m u f u' _ eq_refl).
    destruct (Z.ltb_spec u 0); [lia|auto].
Qed.

Lemma hget_hnew m c u' :
  hget (hnew m c) u' = if Z.eqb u' (huid m) then Some c else hget m u'.
Proof.
  unfold hnew, hget, huid. cbn. destruct (Z.ltb_spec u' 0).
  - destruct (Z.eqb_spec u' (Z.of_nat (length (m_heap m)))); [lia|auto].
  - destruct (Z.eqb_spec u' (Z.of_nat (length (m_heap m)))).
    + subst. rewrite Nat2Z.id, nth_error_app2, Nat.sub_diag; auto.
    + destruct (Nat.lt_ge_cases (Z.to_nat u') (length (m_heap m))).
      * now rewrite nth_error_app1.
      * rewrite nth_error_app2 by lia.
        destruct (Z.to_nat u' - length (m_heap m))%nat eqn:E; [lia|]. cbn.
        assert (Hnn : nth_error (m_heap m) (Z.to_nat u') = None) by (apply nth_error_None; lia).
        rewrite Hnn. now destruct n0.
Qed.

Lemma wget_wres m w o w' :
  wget (wres m w o) w' = if Z.eqb w' w then option_map (wres1 o) (wget m w') else wget m w'.
Proof.
  unfold wres. destruct (Z.ltb_spec w 0).
  - destruct (Z.eqb_spec w' w); auto. subst. unfold wget. destruct (Z.ltb_spec w 0); [auto|lia].
  - unfold wget. cbn [m_w with_w]. destruct (Z.ltb_spec w' 0).
    + destruct (Z.eqb_spec w' w); auto.
    + rewrite nth_error_lupd. destruct (Z.eqb_spec w' w).
      * subst. now rewrite Nat.eqb_refl.
      * destruct (Nat.eqb_spec (Z.to_nat w') (Z.to_nat w)); [lia|auto].
Qed.

Lemma wget_wnew m o k h r w' :
  wget (wnew m o k h r) w' = if Z.eqb w' (wuid m) then Some (mkW o k h r) else wget m w'.
Proof.
  unfold wnew, wget, wuid. cbn. destruct (Z.ltb_spec w' 0).
  - destruct (Z.eqb_spec w' (Z.of_nat (length (m_w m)))); [lia|auto].
  - destruct (Z.eqb_spec w' (Z.of_nat (length (m_w m)))).
    + subst. rewrite Nat2Z.id, nth_error_app2, Nat.sub_diag; auto.
    + destruct (Nat.lt_ge_cases (Z.to_nat w') (length (m_w m))).
      * now rewrite nth_error_app1.
      * rewrite nth_error_app2 by lia.
        destruct (Z.to_nat w' - length (m_w m))%nat eqn:E; [lia|]. cbn.
        assert (Hnn : nth_error (m_w m) (Z.to_nat w') = None) by (apply nth_error_None; lia).
        rewrite Hnn. now destruct n0.
Qed.

(* ------------------------------------------------------------------ CID allocator *)
Lemma scan_spec fuel cid hi used count x :
  In x (scan fuel cid hi used count) -> cid <= x <= hi /\ ~ In x used.
Proof.
  revert cid count. induction fuel as [|fuel IH]; intros cid count; destruct count; cbn; try tauto.
  destruct (Z.ltb_spec hi cid); [intros []|].
  destruct (memz cid used) eqn:E.
  - intros Hx. apply IH in Hx. destruct Hx. split; [lia|auto].
  - intros [<-|Hx]; [split; [lia|now apply memz_false]|]. apply IH in Hx. destruct Hx. split; [lia|auto].
Qed.

Lemma scan_sorted fuel cid hi used count :
  NoDup (scan fuel cid hi used count).
Proof.
  revert cid count. induction fuel as [|fuel IH]; intros cid count; destruct count; cbn; try constructor.
  destruct (Z.ltb_spec hi cid); [constructor|].
  destruct (memz cid used); [apply IH|]. constructor; [|apply IH].
  intros Hx. apply scan_spec in Hx. lia.
Qed.

Lemma scan_length fuel cid hi used count : (length (scan fuel cid hi used count) <= count)%nat.
Proof.
  revert cid count. induction fuel as [|fuel IH]; intros cid count; destruct count; cbn; try lia.
  destruct (Z.ltb_spec hi cid); [cbn; lia|].
  destruct (memz cid used); [apply IH|]. cbn. specialize (IH (cid + 1) count). lia.
Qed.

Lemma find_free_n_spec lo hi used count x :
  In x (find_free_n lo hi used count) -> lo <= x <= hi /\ ~ In x used.
Proof.
  unfold find_free_n. destruct (Nat.eqb _ _); [apply scan_spec|intros []].
Qed.

Lemma find_free_n_NoDup lo hi used count : NoDup (find_free_n lo hi used count).
Proof. unfold find_free_n. destruct (Nat.eqb _ _); [apply scan_sorted|constructor]. Qed.

Lemma find_free_n_length lo hi used count :
  find_free_n lo hi used count = [] \/ length (find_free_n lo hi used count) = count.
Proof.
  unfold find_free_n. destruct (Nat.eqb_spec (length (scan (length used + count) lo hi used count)) count); auto.
Qed.

(* completeness: with `count` free CIDs left in the range the scan finds them.
   The number of candidates scanned that are in `used` is bounded by the number of
   distinct used CIDs at or above the current candidate. *)
Fixpoint count_ge (cid : Z) (used : list Z) : nat :=
  match used with [] => O | y :: l => (if cid <=? y then 1 else 0) + count_ge cid l end.

Lemma count_ge_remove cid used :
  In cid used -> (S (count_ge (cid + 1) (remove Z.eq_dec cid used)) <= count_ge cid used)%nat.
Proof.
  induction used as [|y l IH]; cbn; [intros []|].
  intros [->|Hi].
  - destruct (Z.eq_dec cid cid); [|congruence]. destruct (Z.leb_spec cid cid); [|lia].
    clear. induction l as [|z l IH]; cbn; [lia|].
    destruct (Z.eq_dec cid z); cbn.
    + subst. destruct (Z.leb_spec z z); lia.
    + destruct (Z.leb_spec (cid + 1) z), (Z.leb_spec cid z); lia.
  - destruct (Z.eq_dec cid y); cbn.
    + subst. destruct (Z.leb_spec y y); [|lia]. specialize (IH Hi). lia.
    + specialize (IH Hi). destruct (Z.leb_spec (cid + 1) y), (Z.leb_spec cid y); lia.
Qed.

Lemma count_ge_mono cid used : (count_ge (cid + 1) used <= count_ge cid used)%nat.
Proof.
  induction used as [|y l IH]; cbn; [lia|].
  destruct (Z.leb_spec (cid + 1) y), (Z.leb_spec cid y); lia.
Qed.

Lemma memz_remove x y l : y <> x -> memz x (remove Z.eq_dec y l) = memz x l.
Proof.
  intros Hn. induction l as [|z l IH]; cbn; [auto|].
  destruct (Z.eq_dec y z); cbn.
  - subst. destruct (Z.eqb_spec x z); [congruence|auto].
  - now rewrite IH.
Qed.

Lemma scan_remove fuel cid hi used count y :
  y < cid -> scan fuel cid hi (remove Z.eq_dec y used) count = scan fuel cid hi used count.
Proof.
  revert cid count. induction fuel as [|fuel IH]; intros cid count Hy; destruct count; cbn; auto.
  destruct (hi <? cid); auto. rewrite memz_remove by lia.
  destruct (memz cid used); rewrite IH by lia; auto.
Qed.

Lemma scan_complete fuel cid hi used count :
  (count_ge cid used + count <= fuel)%nat ->
  cid + Z.of_nat (count_ge cid used) + Z.of_nat count - 1 <= hi ->
  length (scan fuel cid hi used count) = count.
Proof.
  revert cid used count. induction fuel as [|fuel IH]; intros cid used count Hf Hh.
  - destruct count; [reflexivity|lia].
  - destruct count; [reflexivity|]. cbn.
    destruct (Z.ltb_spec hi cid); [lia|].
    destruct (memz cid used) eqn:E.
    + apply memz_In in E. pose proof (count_ge_remove cid used E).
      rewrite <- (scan_remove fuel (cid + 1) hi used (S count) cid) by lia.
      apply IH; lia.
    + cbn. f_equal. pose proof (count_ge_mono cid used). apply IH; lia.
Qed.

Lemma count_ge_length cid used : (count_ge cid used <= length used)%nat.
Proof. induction used as [|y l IH]; cbn; [lia|]. destruct (cid <=? y); lia. Qed.

(* if fewer than (range size - count + 1) CIDs are in use, `count` free ones are found *)
Lemma find_free_n_complete lo hi used count :
  (count > 0)%nat ->
  lo + Z.of_nat (length used) + Z.of_nat count - 1 <= hi ->
  length (find_free_n lo hi used count) = count.
Proof.
  intros Hc Hr. unfold find_free_n.
  pose proof (count_ge_length lo used).
  assert (Hs : length (scan (length used + count) lo hi used count) = count)
    by (apply scan_complete; lia).
  rewrite Hs, Nat.eqb_refl. exact Hs.
Qed.
