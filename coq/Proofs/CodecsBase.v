(* Proofs/CodecsBase.v — lemmas about Model/CodecsBase.v: finite ranges and the
   lifting of complete finite evaluation ([forallb ... = true] by [vm_compute]) to
   universally quantified statements. *)
From Coq Require Import ZArith List Bool Lia.
From BV Require Import Base.Bytes Proofs.Bytes Model.CodecsBase.
Import ListNotations.
Open Scope Z_scope.

Lemma zrange_from_In : forall n lo x,
  In x (zrange_from lo n) <-> lo <= x < lo + Z.of_nat n.
Proof.
  induction n as [|n IH]; intros lo x.
  - cbn. lia.
  - cbn [zrange_from In]. rewrite IH. lia.
Qed.

Lemma zrange_In : forall n x, In x (zrange n) <-> 0 <= x < Z.of_nat n.
Proof. intros. unfold zrange. rewrite zrange_from_In. lia. Qed.

Lemma zlt_iff : forall n v, zlt n v = true <-> 0 <= v < n.
Proof. intros. unfold zlt. rewrite andb_true_iff, Z.leb_le, Z.ltb_lt. tauto. Qed.

(* lifting: a boolean checked on the whole range holds for every member *)
Lemma forall_range : forall (n : nat) (f : Z -> bool),
  forallb f (zrange n) = true -> forall x, 0 <= x < Z.of_nat n -> f x = true.
Proof.
  intros n f H x Hx. rewrite forallb_forall in H. apply H. apply zrange_In. exact Hx.
Qed.

Lemma forall2_range : forall (n m : nat) (f : Z -> Z -> bool),
  forall2b (zrange n) (zrange m) f = true ->
  forall x y, 0 <= x < Z.of_nat n -> 0 <= y < Z.of_nat m -> f x y = true.
Proof.
  intros n m f H x y Hx Hy. unfold forall2b in H.
  pose proof (forall_range n _ H x Hx) as H1. cbv beta in H1.
  exact (forall_range m _ H1 y Hy).
Qed.

Lemma byte_range : forall b, byte_ok b = true <-> 0 <= b < Z.of_nat 256.
Proof. intro b. rewrite byte_ok_iff. cbn. lia. Qed.

Lemma zlist_eqb_eq : forall a b, zlist_eqb a b = true <-> a = b.
Proof.
  induction a as [|x a IH]; intros [|y b]; cbn; split; intro H; try reflexivity; try discriminate.
  - apply andb_true_iff in H as [H1 H2]. apply Z.eqb_eq in H1. apply IH in H2. subst. reflexivity.
  - inversion H; subst. rewrite Z.eqb_refl. cbn. apply IH. reflexivity.
Qed.

Lemma lenZ_app : forall (A : Type) (a b : list A), lenZ (a ++ b) = lenZ a + lenZ b.
Proof. intros. unfold lenZ. rewrite app_length. lia. Qed.

Lemma lenZ_nonneg : forall (A : Type) (a : list A), 0 <= lenZ a.
Proof. intros. unfold lenZ. lia. Qed.

Lemma bytes_ok_forall : forall bs, bytes_ok bs = true <-> (forall b, In b bs -> 0 <= b < 256).
Proof.
  intro bs. unfold bytes_ok. rewrite forallb_forall. split; intros H b Hb.
  - apply byte_ok_iff. auto.
  - apply byte_ok_iff. auto.
Qed.

(* inversion lemmas that do not reduce the terms (unlike [inversion] / [injection]) *)
Lemma some_inv : forall (A : Type) (a a' : A), Some a = Some a' -> a = a'.
Proof. intros. congruence. Qed.
Lemma pair_inv : forall (A B : Type) (a a' : A) (b b' : B), (a, b) = (a', b') -> a = a' /\ b = b'.
Proof. intros. split; congruence. Qed.
Lemma some_pair_inv : forall (A B : Type) (a a' : A) (b b' : B),
  Some (a, b) = Some (a', b') -> a = a' /\ b = b'.
Proof. intros. split; congruence. Qed.
Lemma some_quad_inv : forall (A B C D : Type) (a a' : A) (b b' : B) (c c' : C) (d d' : D),
  Some (a, b, c, d) = Some (a', b', c', d') -> a = a' /\ b = b' /\ c = c' /\ d = d'.
Proof. intros. repeat split; congruence. Qed.
