(* C14 - the model of pow(z, -1, p) (extended Euclid) returns a modular inverse, and
   to_affine therefore divides correctly: the affine coordinates it returns satisfy
   x * z^2 = X and y * z^3 = Y modulo p. *)
From Coq Require Import ZArith List Bool Lia ZifyBool.
From BV Require Import Model.CryptoBytes Model.P256.
Import ListNotations.
Open Scope Z_scope.

(* invariant of the loop: both remainders are multiples of z modulo p *)
Lemma egcd_inv : forall fuel z p a b x0 x1 g x,
  (exists k, a = x0 * z + k * p) -> (exists k, b = x1 * z + k * p) ->
  egcd fuel a b x0 x1 = Some (g, x) ->
  exists k, g = x * z + k * p.
Proof.
  induction fuel as [|f IH]; intros z p a b x0 x1 g x Ha Hb H; [discriminate|].
  cbn [egcd] in H. destruct (b =? 0) eqn:E.
  - inversion H; subst. assumption.
  - apply (IH z p b (a mod b) x1 (x0 - a / b * x1) g x); auto.
    destruct Ha as [ka Ha]. destruct Hb as [kb Hb].
    rewrite Z.mod_eq by lia.
    remember (a / b) as q eqn:Hq. clear Hq.
    exists (ka - q * kb). rewrite Ha, Hb. ring.
Qed.

Theorem modinv_correct : forall z p x, 0 < p ->
  modinv z p = Some x -> (z * x) mod p = 1 mod p /\ 0 <= x < p.
Proof.
  intros z p x Hp H. unfold modinv in H.
  destruct (egcd _ (z mod p) p 1 0) as [[g x']|] eqn:E; [|discriminate].
  destruct (g =? 1) eqn:Eg; [|discriminate]. inversion H; subst x. clear H.
  apply Z.eqb_eq in Eg. subst g.
  split; [|apply Z.mod_pos_bound; assumption].
  apply egcd_inv with (z := z) (p := p) in E.
  - destruct E as [k Hk].
    rewrite Z.mul_mod_idemp_r by lia.
    replace (z * x') with (1 + (- k) * p) by lia.
    apply Z_mod_plus_full.
  - exists (- (z / p)). rewrite Z.mod_eq by lia. ring.
  - exists 1. ring.
Qed.

(* to_affine: the returned coordinates are the Jacobian ones divided by z^2 and z^3 *)
Theorem to_affine_correct : forall c X Y Z0 x y, 0 < cp c ->
  to_affine c (X, Y, Z0) = Affine x y ->
  (x * Z0 ^ 2) mod cp c = X mod cp c /\ (y * Z0 ^ 3) mod cp c = Y mod cp c /\
  0 <= x < cp c /\ 0 <= y < cp c.
Proof.
  intros c X Y Z0 x y Hp H. unfold to_affine in H.
  destruct (Z0 =? 0); [discriminate|].
  destruct (modinv Z0 (cp c)) as [iz|] eqn:E; [|discriminate].
  inversion H; subst x y. clear H.
  destruct (modinv_correct _ _ _ Hp E) as [Hinv _].
  assert (H2 : (iz ^ 2 * Z0 ^ 2) mod cp c = 1 mod cp c).
  { replace (iz ^ 2 * Z0 ^ 2) with ((Z0 * iz) * (Z0 * iz)) by ring.
    rewrite Z.mul_mod, Hinv by lia. rewrite <- Z.mul_mod by lia. reflexivity. }
  assert (H3 : (iz ^ 3 * Z0 ^ 3) mod cp c = 1 mod cp c).
  { replace (iz ^ 3 * Z0 ^ 3) with ((Z0 * iz) * ((Z0 * iz) * (Z0 * iz))) by ring.
    rewrite Z.mul_mod, (Z.mul_mod (Z0 * iz) (Z0 * iz)), Hinv by lia.
    rewrite <- (Z.mul_mod 1 1), <- Z.mul_mod by lia. reflexivity. }
  change (Z.pow_pos iz 2) with (iz ^ 2). change (Z.pow_pos iz 3) with (iz ^ 3).
  repeat split; try (apply Z.mod_pos_bound; assumption).
  - rewrite Z.mul_mod_idemp_l by lia.
    replace (X * iz ^ 2 * Z0 ^ 2) with (X * (iz ^ 2 * Z0 ^ 2)) by ring.
    rewrite (Z.mul_mod X (iz ^ 2 * Z0 ^ 2)) by lia. rewrite H2.
    rewrite <- Z.mul_mod by lia. f_equal. ring.
  - rewrite Z.mul_mod_idemp_l by lia.
    replace (Y * iz ^ 3 * Z0 ^ 3) with (Y * (iz ^ 3 * Z0 ^ 3)) by ring.
    rewrite (Z.mul_mod Y (iz ^ 3 * Z0 ^ 3)) by lia. rewrite H3.
    rewrite <- Z.mul_mod by lia. f_equal. ring.
Qed.
