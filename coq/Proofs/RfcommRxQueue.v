(* Proofs about Model/RfcommRxQueue.v: a sink that is set late still receives the exact
   stream as long as no more than the queue size of data frames arrived before; one frame
   more and the oldest data is lost (known finding D20h). *)
From Coq Require Import ZArith List Bool Lia.
From BV Require Import Model.RfcommRxQueue.
Import ListNotations.
Open Scope Z_scope.

Lemma dq_append_fits maxlen q x :
  Z.of_nat (length q) + 1 <= maxlen -> dq_append maxlen q x = q ++ [x].
Proof.
  intros H. unfold dq_append. rewrite app_length. cbn [length].
  destruct (Z.of_nat (length q + 1) >? maxlen) eqn:E; [|reflexivity].
  rewrite Z.gtb_ltb in E. apply Z.ltb_lt in E. lia.
Qed.

Lemma recv_nosink_fits maxlen : forall frames q out,
  Z.of_nat (length q) + Z.of_nat (length frames) <= maxlen ->
  rxq_recv maxlen (mkRxq false q out) frames = mkRxq false (q ++ frames) out.
Proof.
  induction frames as [|f r IH]; intros q out H; cbn [rxq_recv fold_left].
  - now rewrite app_nil_r.
  - unfold rxq_data at 2. cbn [q_sink q_queue q_out]. cbn [length] in H.
    rewrite dq_append_fits by lia.
    change (fold_left (rxq_data maxlen) r ?s) with (rxq_recv maxlen s r).
    rewrite IH by (rewrite app_length; cbn [length]; lia).
    now rewrite <- app_assoc.
Qed.

Lemma recv_sink maxlen : forall frames q out,
  rxq_recv maxlen (mkRxq true q out) frames = mkRxq true q (out ++ concat frames).
Proof.
  induction frames as [|f r IH]; intros q out; cbn [rxq_recv fold_left concat].
  - now rewrite app_nil_r.
  - unfold rxq_data at 2. cbn [q_sink q_queue q_out].
    change (fold_left (rxq_data maxlen) r ?s) with (rxq_recv maxlen s r).
    rewrite IH. now rewrite <- app_assoc.
Qed.

(* late_sink_exact: at most maxlen frames before the sink is set, any number after *)
Lemma late_sink_exact maxlen before after :
  Z.of_nat (length before) <= maxlen ->
  q_out (rxq_recv maxlen (rxq_set_sink (rxq_recv maxlen rxq_init before)) after)
  = concat before ++ concat after.
Proof.
  intros H. unfold rxq_init. rewrite recv_nosink_fits by (cbn [length]; lia).
  unfold rxq_set_sink. cbn [q_out q_queue app]. rewrite recv_sink. reflexivity.
Qed.

(* one frame too many: the first frame's bytes never reach the sink *)
Definition numbered (n : nat) : list (list Z) := map (fun k => [Z.of_nat k]) (seq 0 n).

Lemma late_sink_overflow_refuted :
  q_out (rxq_set_sink (rxq_recv 32 rxq_init (numbered 33))) = concat (tl (numbered 33))
  /\ q_out (rxq_set_sink (rxq_recv 32 rxq_init (numbered 33))) <> concat (numbered 33).
Proof. split; [vm_compute; reflexivity|vm_compute; discriminate]. Qed.
