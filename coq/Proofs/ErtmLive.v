(* Proofs about Model/Ertm.v, part 3:
   - every frame the two-party system ever sends is well formed (so the wire round trip
     of Proofs/ErtmWire.v applies to it);
   - draining: from any reachable state every run of deliveries is finite, bounded by an
     explicit measure (so writes that stop are followed by quiescence, where - if no timer
     has fired - ertm_exactly_once_in_order says everything has been delivered).
   Both hold with or without timer events; reliable FIFO channels. *)
From Coq Require Import ZArith List Bool Lia.
From BV Require Import Model.Crc16 Model.Ertm Proofs.ErtmSeg Proofs.Ertm Proofs.ErtmWire.
Import ListNotations.
Open Scope Z_scope.

(* ---------- well-formed frames ---------- *)
Definition seg_ok (g : seg) : Prop :=
  match g_sar g with START => 0 <= g_len g < 65536 | _ => True end.
Definition pdu_ok (p : pdu) : Prop := 0 <= p_tx p < 64 /\ seg_ok (p_seg p).

Record ep_ok (e : ep) : Prop := {
  k_next : 0 <= e_next e < 64;
  k_req : 0 <= e_req e < 64;
  k_pend : Forall pdu_ok (e_pend e);
  k_txw : Forall pdu_ok (e_txw e)
}.

Lemma mod64_range x : 0 <= x mod MAX_SEQ_NUM < 64.
Proof. unfold MAX_SEQ_NUM. apply Z.mod_pos_bound. lia. Qed.

Lemma iframe_wf r p : 0 <= r < 64 -> pdu_ok p -> frame_wf (iframe_of r p).
Proof.
  intros Hr [Ht Hs]. unfold iframe_of, frame_wf, seg_ok in *.
  destruct (g_sar (p_seg p)); auto.
Qed.

Lemma iframes_wf r ps : 0 <= r < 64 -> Forall pdu_ok ps -> Forall frame_wf (map (iframe_of r) ps).
Proof. intros Hr H. induction H; cbn; constructor; auto using iframe_wf. Qed.

Lemma Forall_firstn {A} (P : A -> Prop) n l : Forall P l -> Forall P (firstn n l).
Proof. revert l. induction n; intros l H; cbn; [constructor|]. destruct H; constructor; auto. Qed.
Lemma Forall_skipn {A} (P : A -> Prop) n l : Forall P l -> Forall P (skipn n l).
Proof. revert l. induction n; intros l H; cbn; [assumption|]. destruct H; [constructor|auto]. Qed.

Lemma po_ok e e' out : ep_ok e -> process_output e = (e', out) ->
  ep_ok e' /\ Forall frame_wf out.
Proof.
  intros [] H. unfold process_output in H. destruct (_ || _).
  - injection H as <- <-. split; [constructor; auto|constructor].
  - injection H as <- <-. split.
    + constructor; cbn; auto using Forall_skipn.
      apply Forall_app. split; auto using Forall_firstn.
    + apply iframes_wf; auto using Forall_firstn.
Qed.

Lemma update_ack_ok e n fin e' out : ep_ok e -> update_ack e n fin = (e', out) ->
  ep_ok e' /\ Forall frame_wf out.
Proof.
  intros Hk H. unfold update_ack in H. destruct (Z.ltb _ _).
  - injection H as <- <-. split; [assumption|constructor].
  - eapply po_ok; [|exact H]. destruct Hk. constructor; cbn; auto using Forall_skipn.
Qed.

Lemma assign_ok segs : forall next, 0 <= next < 64 -> Forall seg_ok segs ->
  Forall pdu_ok (fst (assign next segs)) /\ 0 <= snd (assign next segs) < 64.
Proof.
  induction segs as [|g r IH]; intros next Hn Hs; cbn [assign].
  - cbn. split; [constructor|assumption].
  - inversion Hs; subst.
    destruct (IH ((next + 1) mod MAX_SEQ_NUM) (mod64_range _) H2) as [I1 I2].
    destruct (assign ((next + 1) mod MAX_SEQ_NUM) r) as [ps n]. cbn in *.
    split; [constructor; [split; assumption|assumption]|assumption].
Qed.

Lemma seg_loop_ok total : 0 <= total < 65536 -> forall fuel first mps rest,
  Forall seg_ok (seg_loop fuel first mps total rest).
Proof.
  intros Ht. induction fuel as [|f IH]; intros first mps rest; cbn [seg_loop]; [constructor|].
  destruct rest; [constructor|]. constructor; [|apply IH].
  unfold seg_ok. cbn [g_sar g_len]. destruct first; [assumption|].
  match goal with |- context [Nat.leb ?a ?b] => destruct (Nat.leb a b) end; exact I.
Qed.

Lemma segment_ok mps w : zlen w < 65536 -> Forall seg_ok (segment mps w).
Proof.
  intros H. unfold segment. destruct (Z.leb _ _).
  - constructor; [exact I|constructor].
  - apply seg_loop_ok. unfold zlen in H. lia.
Qed.

Lemma send_sdu_ok e w e' out : ep_ok e -> zlen w < 65536 -> send_sdu e w = (e', out) ->
  ep_ok e' /\ Forall frame_wf out.
Proof.
  intros Hk Hw H. unfold send_sdu in H. destruct Hk.
  pose proof (assign_ok (segment (e_pmps e) w) (e_next e) k_next0 (segment_ok _ _ Hw)) as [A1 A2].
  destruct (assign (e_next e) (segment (e_pmps e) w)) as [ps n]. cbn in A1, A2.
  eapply po_ok; [|exact H]. constructor; cbn; auto. apply Forall_app. auto.
Qed.

Lemma on_frame_ok e f e' out sdus : ep_ok e -> on_frame e f = (e', out, sdus) ->
  ep_ok e' /\ Forall frame_wf out.
Proof.
  intros Hk H. destruct f as [tx req s l data ifin | func poll final req]; cbn [on_frame] in H.
  - destruct (update_ack e req ifin) as [e1 out1] eqn:Hu.
    destruct (update_ack_ok _ _ _ _ _ Hk Hu) as [[] Ho].
    destruct (negb (tx =? e_req e1)).
    + injection H as <- <- <-. split; [constructor; auto|assumption].
    + match type of H with (if ?c then _ else _) = _ => destruct c end.
      * injection H as <- <- <-. split; [|assumption].
        constructor; cbn; auto. apply mod64_range.
      * cbn in H. injection H as <- <- <-. split.
        -- constructor; cbn; auto. apply mod64_range.
        -- apply Forall_app. split; [assumption|]. constructor; [|constructor].
           cbn. split; [unfold RR; lia|apply mod64_range].
  - destruct (update_ack e req final) as [e1 out1] eqn:Hu.
    destruct (update_ack_ok _ _ _ _ _ Hk Hu) as [[] Ho].
    destruct (((func =? RR) || (func =? RNR)) && poll).
    + cbn in H. injection H as <- <- <-. split; [constructor; cbn; auto|].
      apply Forall_app. split; [assumption|]. constructor; [|constructor].
      cbn. split; [unfold RR; lia|assumption].
    + injection H as <- <- <-. split; [constructor; cbn; auto|assumption].
Qed.

Lemma send_rr_ok e fin e' out : ep_ok e -> send_rr e fin = (e', out) ->
  ep_ok e' /\ Forall frame_wf out.
Proof.
  intros [] H. cbn in H. injection H as <- <-. split; [constructor; cbn; auto|].
  constructor; [|constructor]. cbn. split; [unfold RR; lia|assumption].
Qed.

Lemma send_poll_ok e e' out : ep_ok e -> send_poll e = (e', out) ->
  ep_ok e' /\ Forall frame_wf out.
Proof.
  intros [] H. cbn in H. injection H as <- <-. split; [constructor; cbn; auto|].
  constructor; [|constructor]. cbn. split; [unfold RR; lia|assumption].
Qed.

Lemma retx_timeout_ok e e' out : ep_ok e -> retx_timeout e = (e', out) ->
  ep_ok e' /\ Forall frame_wf out.
Proof.
  intros Hk H. unfold retx_timeout in H. destruct (e_rrarm e).
  - eapply send_poll_ok; [|exact H]. destruct Hk. constructor; cbn; auto.
  - injection H as <- <-. split; [assumption|constructor].
Qed.

Lemma mon_timeout_ok e e' out : ep_ok e -> mon_timeout e = (e', out) ->
  ep_ok e' /\ Forall frame_wf out.
Proof.
  intros Hk H. unfold mon_timeout in H.
  destruct (e_mon e); try (injection H as <- <-; split; [assumption|constructor]).
  destruct (_ || _).
  - eapply send_poll_ok; [|exact H]. destruct Hk. constructor; cbn; auto.
  - injection H as <- <-. split; [|constructor]. destruct Hk. constructor; cbn; auto.
Qed.

Fixpoint sdus_small (sched : list label) : Prop :=
  match sched with
  | [] => True
  | WriteA w :: r => zlen w < 65536 /\ sdus_small r
  | WriteB w :: r => zlen w < 65536 /\ sdus_small r
  | _ :: r => sdus_small r
  end.

Record sys_ok (s : sys) : Prop := {
  y_a : ep_ok (s_a s);
  y_b : ep_ok (s_b s);
  y_lab : Forall frame_wf (s_log_ab s);
  y_lba : Forall frame_wf (s_log_ba s)
}.

Lemma sys_ok_run sched : forall s, sys_ok s -> sdus_small sched -> sys_ok (run s sched).
Proof.
  unfold run. induction sched as [|l r IH]; intros s Hs Hw; cbn [fold_left]; [assumption|].
  apply IH.
  - destruct Hs. destruct l; cbn [step].
    + destruct Hw as [Hw _]. destruct (send_sdu (s_a s) sdu) as [a out] eqn:E.
      destruct (send_sdu_ok _ _ _ _ y_a0 Hw E). constructor; cbn; auto. apply Forall_app; auto.
    + destruct Hw as [Hw _]. destruct (send_sdu (s_b s) sdu) as [b out] eqn:E.
      destruct (send_sdu_ok _ _ _ _ y_b0 Hw E). constructor; cbn; auto. apply Forall_app; auto.
    + destruct (s_ab s) as [|f rest]; [constructor; auto|].
      destruct (on_frame (s_b s) f) as [[b out] sdus] eqn:E.
      destruct (on_frame_ok _ _ _ _ _ y_b0 E). constructor; cbn; auto. apply Forall_app; auto.
    + destruct (s_ba s) as [|f rest]; [constructor; auto|].
      destruct (on_frame (s_a s) f) as [[a out] sdus] eqn:E.
      destruct (on_frame_ok _ _ _ _ _ y_a0 E). constructor; cbn; auto. apply Forall_app; auto.
    + destruct (retx_timeout (s_a s)) as [a out] eqn:E.
      destruct (retx_timeout_ok _ _ _ y_a0 E). constructor; cbn; auto. apply Forall_app; auto.
    + destruct (retx_timeout (s_b s)) as [b out] eqn:E.
      destruct (retx_timeout_ok _ _ _ y_b0 E). constructor; cbn; auto. apply Forall_app; auto.
    + destruct (mon_timeout (s_a s)) as [a out] eqn:E.
      destruct (mon_timeout_ok _ _ _ y_a0 E). constructor; cbn; auto. apply Forall_app; auto.
    + destruct (mon_timeout (s_b s)) as [b out] eqn:E.
      destruct (mon_timeout_ok _ _ _ y_b0 E). constructor; cbn; auto. apply Forall_app; auto.
  - destruct l; cbn in Hw; tauto.
Qed.

(* every frame ever sent is well formed: sequence numbers in 0..63, the SDU length field
   of a START frame fits 16 bits (SDUs shorter than 65536 bytes), only RR is sent *)
Theorem frames_wf mps_a win_a mps_b win_b sched :
  sdus_small sched ->
  let s := run (sys_init mps_a win_a mps_b win_b) sched in
  Forall frame_wf (s_log_ab s) /\ Forall frame_wf (s_log_ba s).
Proof.
  intros Hw s.
  assert (H0 : sys_ok (sys_init mps_a win_a mps_b win_b)).
  { assert (He : forall m w, ep_ok (ep_init m w))
      by (intros; constructor; cbn; try lia; constructor).
    constructor; cbn; auto; constructor. }
  destruct (sys_ok_run sched _ H0 Hw). auto.
Qed.

(* ---------- draining ---------- *)
(* a poll weighs 2: consuming it produces its answer *)
Definition fweight (f : frame) : Z :=
  match f with IFrame _ _ _ _ _ _ => 2 | SFrame _ true _ _ => 2 | SFrame _ false _ _ => 1 end.
Fixpoint weight (fs : list frame) : Z :=
  match fs with [] => 0 | f :: r => fweight f + weight r end.

Lemma weight_app a b : weight (a ++ b) = weight a + weight b.
Proof. induction a as [|f a IH]; cbn [app weight]; lia. Qed.
Lemma weight_iframes r ps : weight (map (iframe_of r) ps) = 2 * zlen ps.
Proof.
  induction ps as [|p ps IH]; cbn [map weight]; [reflexivity|].
  rewrite zlen_cons, IH. unfold iframe_of. cbn [fweight]. lia.
Qed.
Lemma weight_nonneg fs : 0 <= weight fs.
Proof.
  induction fs as [|f r IH]; cbn [weight]; [lia|]. destruct f as [| ? [] ? ?]; cbn [fweight]; lia.
Qed.

Definition measure (s : sys) : Z :=
  3 * (zlen (e_pend (s_a s)) + zlen (e_pend (s_b s))) + weight (s_ab s) + weight (s_ba s).

Lemma po_measure e e' out : process_output e = (e', out) ->
  3 * zlen (e_pend e') + weight out <= 3 * zlen (e_pend e).
Proof.
  unfold process_output. destruct (_ || _); intros [= <- <-]; cbn [e_pend weight]; [lia|].
  set (k := Z.to_nat _). rewrite weight_iframes.
  rewrite <- (firstn_skipn k (e_pend e)) at 3. rewrite zlen_app.
  pose proof (zlen_nonneg (firstn k (e_pend e))). lia.
Qed.

Lemma update_ack_measure e n fin e' out : update_ack e n fin = (e', out) ->
  3 * zlen (e_pend e') + weight out <= 3 * zlen (e_pend e).
Proof.
  unfold update_ack. destruct (Z.ltb _ _); [intros [= <- <-]; cbn [weight]; lia|].
  intros H. apply po_measure in H. exact H.
Qed.

Lemma on_frame_measure e f e' out sdus :
  on_frame e f = (e', out, sdus) -> sframe_ok f ->
  3 * zlen (e_pend e') + weight out + 1 <= 3 * zlen (e_pend e) + fweight f.
Proof.
  destruct f as [tx req s l data ifin | func poll final req]; cbn [on_frame sframe_ok fweight].
  - intros H _. destruct (update_ack e req ifin) as [e1 out1] eqn:Hu.
    apply update_ack_measure in Hu.
    destruct (negb (tx =? e_req e1)); [injection H as <- <- <-; lia|].
    match type of H with (if ?c then _ else _) = _ => destruct c end.
    + injection H as <- <- <-. cbn [e_pend]. lia.
    + cbn [send_rr] in H. injection H as <- <- <-. rewrite weight_app.
      cbn [e_pend weight fweight]. lia.
  - intros H ->. destruct (update_ack e req final) as [e1 out1] eqn:Hu.
    apply update_ack_measure in Hu.
    change ((RR =? RR) || (RR =? RNR)) with true in H. cbn [andb] in H. destruct poll.
    + cbn [send_rr] in H. injection H as <- <- <-. rewrite weight_app.
      cbn [e_pend weight fweight]. lia.
    + injection H as <- <- <-. cbn [e_pend]. lia.
Qed.

Definition is_delivery (l : label) : bool :=
  match l with DeliverAB | DeliverBA => true | _ => false end.
Definition enabled (s : sys) (l : label) : Prop :=
  match l with
  | DeliverAB => s_ab s <> []
  | DeliverBA => s_ba s <> []
  | _ => False
  end.
Fixpoint all_enabled (s : sys) (sched : list label) : Prop :=
  match sched with
  | [] => True
  | l :: r => enabled s l /\ all_enabled (step s l) r
  end.

Lemma Inv_heads_ok s WA WB : Inv s WA WB ->
  Forall sframe_ok (s_ab s) /\ Forall sframe_ok (s_ba s).
Proof.
  intros [(d1 & r1 & i1 & x1 & []) (d2 & r2 & i2 & x2 & [])]. auto.
Qed.

Lemma deliver_decreases s WA WB l :
  Inv s WA WB -> enabled s l -> measure (step s l) + 1 <= measure s.
Proof.
  intros I He. destruct (Inv_heads_ok _ _ _ I) as [Hab Hba].
  destruct l; cbn [enabled] in He; try contradiction; cbn [step]; unfold measure.
  - destruct (s_ab s) as [|f rest]; [congruence|]. inversion Hab; subst.
    destruct (on_frame (s_b s) f) as [[b out] sdus] eqn:E.
    pose proof (on_frame_measure _ _ _ _ _ E H1). cbn [s_a s_b s_ab s_ba weight]. rewrite weight_app. lia.
  - destruct (s_ba s) as [|f rest]; [congruence|]. inversion Hba; subst.
    destruct (on_frame (s_a s) f) as [[a out] sdus] eqn:E.
    pose proof (on_frame_measure _ _ _ _ _ E H1). cbn [s_a s_b s_ab s_ba weight]. rewrite weight_app. lia.
Qed.

Lemma measure_nonneg s : 0 <= measure s.
Proof.
  unfold measure. pose proof (weight_nonneg (s_ab s)). pose proof (weight_nonneg (s_ba s)).
  pose proof (zlen_nonneg (e_pend (s_a s))). pose proof (zlen_nonneg (e_pend (s_b s))). lia.
Qed.

Lemma drains_from sched : forall s WA WB,
  Inv s WA WB -> all_enabled s sched -> zlen sched <= measure s.
Proof.
  induction sched as [|l r IH]; intros s WA WB I H.
  - rewrite zlen_nil. apply measure_nonneg.
  - destruct H as [He Hr]. pose proof (deliver_decreases _ _ _ _ I He) as Hd.
    apply (inv_step _ _ _ l) in I. specialize (IH _ _ _ I Hr). rewrite zlen_cons. lia.
Qed.

(* From every reachable state, a run of deliveries (each enabled when taken) has at most
   measure(s) steps: 3 per queued pdu, 2 per I-frame and 1 per S-frame in flight.  So once
   writing stops the system becomes quiescent after finitely many deliveries, whatever the
   order, and there ertm_exactly_once_in_order gives complete delivery. *)
Theorem ertm_drains mps_a win_a mps_b win_b sched more :
  params_ok mps_a win_a mps_b win_b ->
  let s := run (sys_init mps_a win_a mps_b win_b) sched in
  all_enabled s more -> zlen more <= measure s.
Proof.
  intros H s Hm. eapply drains_from; [|exact Hm]. apply inv_reachable; assumption.
Qed.

(* and a non-quiescent state always has an enabled delivery *)
Lemma not_quiescent_enabled s :
  quiescent s = false -> enabled s DeliverAB \/ enabled s DeliverBA.
Proof.
  unfold quiescent, enabled. destruct (s_ab s); [|left; congruence].
  destruct (s_ba s); [discriminate|right; congruence].
Qed.
