(* End to end: what Client.get_attributes / search_attributes hand to the caller is exactly the selected
   attributes (id, value) of the record table -- chunking (Proofs/Sdp.v) composed with the DataElement
   round trip of property C18 (Proofs/CodecsSdp.v, used read-only). *)
From Coq Require Import ZArith List Bool Lia.
From BV Require Import Base.Bytes Model.CodecsBase Model.CodecsSdp Model.C19Chunks Model.Sdp Model.SdpE2E.
From BV Require Import Proofs.CodecsBase Proofs.CodecsSdp Proofs.C19Chunks Proofs.Sdp.
Import ListNotations.
Open Scope Z_scope.

Lemma zlen_lenZ : forall A (l : list A), zlen l = lenZ l.
Proof. reflexivity. Qed.

(* ---- the two serialisers agree ---- *)
Lemma be16_be_encode : forall n, 0 <= n <= 65535 -> be_encode 2 n = be16 n.
Proof.
  intros n H. unfold be_encode, be16. cbn [le_encode rev app].
  rewrite (Z.mod_small (n / 256) 256); [reflexivity|].
  split; [apply Z.div_pos; lia|apply Z.div_lt_upper_bound; lia].
Qed.

Lemma be32_be_encode : forall n, 0 <= n <= 4294967295 -> be_encode 4 n = be32 n.
Proof.
  intros n H. unfold be_encode, be32. cbn [le_encode rev app].
  assert (E3 : n / 256 / 256 / 256 = n / 16777216) by (rewrite !Z.div_div by lia; reflexivity).
  assert (E2 : n / 256 / 256 = n / 65536) by (rewrite Z.div_div by lia; reflexivity).
  rewrite E3, E2.
  rewrite (Z.mod_small (n / 16777216) 256); [reflexivity|].
  split; [apply Z.div_pos; lia|apply Z.div_lt_upper_bound; lia].
Qed.

Lemma seq_bytes_var_header : forall data,
  zlen data <= 4294967295 -> var_header 6 data = Some (seq_bytes data).
Proof.
  intros data H. unfold var_header, seq_bytes. rewrite <- zlen_lenZ.
  pose proof (zlen_nonneg _ data) as Hn.
  destruct (zlen data <=? 255) eqn:E1; [reflexivity|].
  destruct (zlen data <=? 65535) eqn:E2.
  - apply Z.leb_le in E2. rewrite be16_be_encode by lia. reflexivity.
  - apply Z.leb_le in H. rewrite H. apply Z.leb_le in H. rewrite be32_be_encode by lia. reflexivity.
Qed.

Lemma encode_id_elem : forall id, 0 <= id <= 65535 -> encode (id_elem id) = Some (uint16_bytes id).
Proof.
  intros id H. unfold id_elem, uint16_bytes. cbn [encode].
  assert (E : ((0 <=? id) && int_size_ok 2 && u_range (Z.to_nat 2) id) = true).
  { unfold u_range, pow256. change (256 ^ Z.of_nat (Z.to_nat 2)) with 65536.
    repeat rewrite andb_true_iff. repeat split; try reflexivity; try (apply Z.leb_le; lia). apply Z.ltb_lt. lia. }
  rewrite E. change (fixed_index 2) with (Some 1). change (hdr 1 1) with 9.
  change (Z.to_nat 2) with 2%nat. rewrite be16_be_encode by lia. reflexivity.
Qed.

Section Typed.
Variable max_depth : nat.
Variable tv : attr -> elem.

Lemma encode_attr_elems : forall l,
  (forall a, In a l -> attr_typed max_depth tv a) ->
  encode_list (attr_elems tv l) = Some (flat_map (fun a => uint16_bytes (at_id a) ++ at_bytes a) l).
Proof.
  induction l as [|a l IH]; intro H; [reflexivity|].
  destruct (H a (or_introl eq_refl)) as (He & _ & _ & Hid).
  cbn [attr_elems encode_list flat_map].
  rewrite (encode_id_elem _ Hid), He, (IH (fun x Hx => H x (or_intror Hx))).
  rewrite <- app_assoc. reflexivity.
Qed.

Lemma attr_elems_ok : forall l,
  (forall a, In a l -> attr_typed max_depth tv a) ->
  list_bytes_ok (attr_elems tv l) = true /\ (S (S (list_depth (attr_elems tv l))) <= max_depth \/ l = [])%nat.
Proof.
  induction l as [|a l IH]; intro H; [split; [reflexivity|right; reflexivity]|].
  destruct (H a (or_introl eq_refl)) as (_ & Hb & Hd & _).
  destruct (IH (fun x Hx => H x (or_intror Hx))) as [Hb' Hd'].
  cbn [attr_elems list_bytes_ok list_depth]. split.
  - change (elem_bytes_ok (id_elem (at_id a))) with true. rewrite Hb, Hb'. reflexivity.
  - left. change (elem_depth (id_elem (at_id a))) with 0%nat. destruct Hd' as [Hd' | ->]; cbn [attr_elems list_depth]; lia.
Qed.

Lemma list_from_attr_elems : forall l, list_from_data_elements (attr_elems tv l) = typed tv l.
Proof. induction l as [|a l IH]; [reflexivity|]. cbn [attr_elems list_from_data_elements id_elem typed map]. rewrite IH. reflexivity. Qed.

(* one attribute list: the server's bytes are the encoding of SEQUENCE [UINT16 id, value, ...] *)
Lemma encode_attr_list : forall l,
  (forall a, In a l -> attr_typed max_depth tv a) -> zlen (attr_list_bytes l) <= 4294967295 ->
  encode (attr_list_elem tv l) = Some (attr_list_bytes l).
Proof.
  intros l H Hsz. unfold attr_list_elem. rewrite encode_seq, (encode_attr_elems l H).
  unfold attr_list_bytes in *. apply seq_bytes_var_header.
  unfold seq_bytes in Hsz. pose proof (zlen_nonneg _ (flat_map (fun a => uint16_bytes (at_id a) ++ at_bytes a) l)).
  destruct (zlen _ <=? 255) eqn:E; [apply Z.leb_le in E; lia|].
  destruct (zlen (flat_map (fun a => uint16_bytes (at_id a) ++ at_bytes a) l) <=? 65535) eqn:E2; [apply Z.leb_le in E2; lia|].
  rewrite zlen_cons, zlen_app in Hsz. pose proof (zlen_nonneg _ (be32 (zlen (flat_map (fun a => uint16_bytes (at_id a) ++ at_bytes a) l)))). lia.
Qed.

Lemma attr_list_elem_ok : forall l,
  (forall a, In a l -> attr_typed max_depth tv a) -> (1 <= max_depth)%nat ->
  elem_bytes_ok (attr_list_elem tv l) = true /\ (S (elem_depth (attr_list_elem tv l)) <= max_depth \/ l = [])%nat /\
  (elem_depth (attr_list_elem tv l) <= max_depth)%nat.
Proof.
  intros l H Hm. destruct (attr_elems_ok l H) as [Hb Hd]. unfold attr_list_elem.
  rewrite elem_bytes_ok_seq, elem_depth_seq. split; [exact Hb|].
  destruct Hd as [Hd | ->]; [split; [left|]; lia|]. split; [right; reflexivity|]. cbn [attr_elems list_depth]. lia.
Qed.

(* Client.get_attributes, end to end *)
Theorem get_attributes_end_to_end : forall recs mtu cur h ids svc,
  lookup_record h recs = Some svc -> 10 <= mtu -> (1 <= max_depth)%nat ->
  (forall a, In a svc -> attr_typed max_depth tv a) ->
  zlen (attr_list_bytes (get_service_attributes svc ids)) <= 64 * capacity mtu ->
  exists acc,
    client_get_attributes recs mtu cur h ids = (RNone, CDoneBytes acc) /\
    client_parse_attributes max_depth acc = PValue (typed tv (get_service_attributes svc ids)).
Proof.
  intros recs mtu cur h ids svc Hl Hmtu Hm Ht Hsz.
  set (sel := get_service_attributes svc ids) in *.
  exists (attr_list_bytes sel). split; [apply get_attributes_exact; assumption|].
  assert (Hsel : forall a, In a sel -> attr_typed max_depth tv a).
  { intros a Ha. apply Ht. apply (proj1 (get_service_attributes_spec svc ids)) in Ha. tauto. }
  assert (H32 : zlen (attr_list_bytes sel) <= 4294967295) by (unfold capacity in Hsz; lia).
  pose proof (encode_attr_list sel Hsel H32) as He.
  destruct (attr_list_elem_ok sel Hsel Hm) as (Hb & _ & Hd).
  unfold client_parse_attributes.
  rewrite (sdp_value_roundtrip max_depth (attr_list_elem tv sel) (attr_list_bytes sel)); [|  | exact He].
  - unfold attr_list_elem. rewrite list_from_attr_elems. reflexivity.
  - unfold elem_ok. rewrite Hb, He. apply Nat.leb_le in Hd. rewrite Hd. reflexivity.
Qed.

(* ---- search_attributes: an outer SEQUENCE of attribute lists ---- *)
Lemma encode_attr_lists : forall ls,
  (forall l, In l ls -> (forall a, In a l -> attr_typed max_depth tv a) /\ zlen (attr_list_bytes l) <= 4294967295) ->
  encode_list (map (attr_list_elem tv) ls) = Some (flat_map attr_list_bytes ls).
Proof.
  induction ls as [|l ls IH]; intro H; [reflexivity|].
  destruct (H l (or_introl eq_refl)) as [Ht Hs]. cbn [map encode_list flat_map].
  rewrite (encode_attr_list l Ht Hs), (IH (fun x Hx => H x (or_intror Hx))). reflexivity.
Qed.

Lemma attr_lists_ok : forall ls,
  (forall l, In l ls -> l <> [] /\ forall a, In a l -> attr_typed max_depth tv a) ->
  list_bytes_ok (map (attr_list_elem tv) ls) = true /\
  (S (list_depth (map (attr_list_elem tv) ls)) <= max_depth \/ ls = [])%nat.
Proof.
  induction ls as [|l ls IH]; intro H; [split; [reflexivity|right; reflexivity]|].
  destruct (H l (or_introl eq_refl)) as [Hne Ht].
  destruct (IH (fun x Hx => H x (or_intror Hx))) as [Hb' Hd'].
  destruct (attr_elems_ok l Ht) as [Hb Hd]. destruct Hd as [Hd|Hd]; [|congruence].
  cbn [map list_bytes_ok list_depth]. unfold attr_list_elem at 1 3. rewrite elem_bytes_ok_seq, elem_depth_seq.
  split; [rewrite Hb, Hb'; reflexivity|]. left. destruct Hd' as [Hd' | ->]; cbn [map list_depth]; lia.
Qed.

Lemma lists_from_attr_lists : forall ls,
  flat_map (fun s => match s with ESeq x => [list_from_data_elements x] | _ => [] end) (map (attr_list_elem tv) ls)
  = map (typed tv) ls.
Proof.
  induction ls as [|l ls IH]; [reflexivity|]. cbn [map flat_map]. unfold attr_list_elem at 1.
  rewrite list_from_attr_elems, IH. reflexivity.
Qed.

Lemma zlen_flat_map_le : forall (ls : list (list attr)) l,
  In l ls -> zlen (attr_list_bytes l) <= zlen (flat_map attr_list_bytes ls).
Proof.
  induction ls as [|x ls IH]; intros l H; [destruct H|]. cbn [flat_map]. rewrite zlen_app.
  destruct H as [->|H].
  - pose proof (zlen_nonneg _ (flat_map attr_list_bytes ls)). lia.
  - pose proof (IH l H). pose proof (zlen_nonneg _ (attr_list_bytes x)). lia.
Qed.

Lemma zlen_seq_bytes_ge : forall d, zlen d <= zlen (seq_bytes d).
Proof.
  intro d. unfold seq_bytes. destruct (zlen d <=? 255); [rewrite !zlen_cons; lia|].
  destruct (zlen d <=? 65535); rewrite zlen_cons, zlen_app;
    [pose proof (zlen_nonneg _ (be16 (zlen d)))|pose proof (zlen_nonneg _ (be32 (zlen d)))]; lia.
Qed.

(* Client.search_attributes, end to end: one list per matching record that has a requested attribute *)
Theorem search_attributes_end_to_end : forall recs mtu cur pat ids,
  10 <= mtu -> (1 <= max_depth)%nat ->
  (forall h svc a, In (h, svc) recs -> In a svc -> attr_typed max_depth tv a) ->
  zlen (search_attr_bytes recs pat ids) <= 64 * capacity mtu ->
  exists acc,
    client_search_attributes recs mtu cur pat ids = (RNone, CDoneBytes acc) /\
    client_parse_attribute_lists max_depth acc = PValue (map (typed tv) (search_attr_lists recs pat ids)).
Proof.
  intros recs mtu cur pat ids Hmtu Hm Ht Hsz.
  exists (search_attr_bytes recs pat ids). split; [apply search_attributes_exact; assumption|].
  set (ls := search_attr_lists recs pat ids).
  assert (Hbytes : search_attr_bytes recs pat ids = seq_bytes (flat_map attr_list_bytes ls)) by reflexivity.
  assert (Hls : forall l, In l ls -> l <> [] /\ forall a, In a l -> attr_typed max_depth tv a).
  { intros l Hl. unfold ls, search_attr_lists in Hl. apply filter_In in Hl. destruct Hl as [Hl Hne].
    split; [destruct l; [discriminate|discriminate]|].
    apply in_map_iff in Hl. destruct Hl as ([h svc] & <- & Hin). cbn [snd].
    intros a Ha. apply (proj1 (get_service_attributes_spec svc ids)) in Ha.
    apply (proj1 (match_iff_all_uuids recs pat h svc)) in Hin. exact (Ht h svc a (proj1 Hin) (proj1 Ha)). }
  assert (H32 : zlen (flat_map attr_list_bytes ls) <= 4294967295).
  { pose proof (zlen_seq_bytes_ge (flat_map attr_list_bytes ls)). rewrite <- Hbytes in H. unfold capacity in Hsz. lia. }
  assert (Henc : encode (ESeq (map (attr_list_elem tv) ls)) = Some (search_attr_bytes recs pat ids)).
  { rewrite encode_seq, (encode_attr_lists ls).
    - rewrite Hbytes. apply seq_bytes_var_header. exact H32.
    - intros l Hl. split; [exact (proj2 (Hls l Hl))|]. pose proof (zlen_flat_map_le ls l Hl). lia. }
  destruct (attr_lists_ok ls Hls) as [Hb Hd].
  unfold client_parse_attribute_lists.
  rewrite (sdp_value_roundtrip max_depth (ESeq (map (attr_list_elem tv) ls)) (search_attr_bytes recs pat ids)); [| |exact Henc].
  - rewrite lists_from_attr_lists. reflexivity.
  - unfold elem_ok. rewrite elem_bytes_ok_seq, elem_depth_seq, Hb, Henc.
    assert (Hle : (S (list_depth (map (attr_list_elem tv) ls)) <= max_depth)%nat).
    { destruct Hd as [Hd | ->]; [exact Hd|]. cbn [map list_depth]. lia. }
    apply Nat.leb_le in Hle. rewrite Hle. reflexivity.
Qed.

End Typed.
