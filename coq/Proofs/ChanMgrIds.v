(* C09: the signalling identifier allocator (ChannelManager.next_identifier).  Identifiers are
   one byte, 0 is invalid: whatever the history, the identifier handed out is in 1..255, the
   next one is its successor with 255 followed by 1 (so consecutive identifiers differ), and
   every request / credit frame the manager sends carries such an identifier. *)
From Coq Require Import ZArith List Bool Lia.
From BV Require Import Gen.C09Tables Model.ChanMgr Proofs.ChanMgrLib Proofs.ChanMgr.
Import ListNotations.
Open Scope Z_scope.

Lemma nid_range m h : 1 <= nid m h <= 255.
Proof.
  unfold nid. cbv zeta.
  set (cur := match aget h (m_ids m) with Some v => v | None => 0 end).
  pose proof (Z.mod_pos_bound (cur + 1) 256 ltac:(lia)).
  destruct (Z.eqb_spec ((cur + 1) mod 256) 0); lia.
Qed.

Lemma aget_next_id m h : aget h (m_ids (next_id m h)) = Some (nid m h).
Proof. unfold next_id, with_ids. cbn. now rewrite Z.eqb_refl. Qed.

Lemma nid_successor m h :
  nid (next_id m h) h = if Z.eqb (nid m h) 255 then 1 else nid m h + 1.
Proof.
  pose proof (nid_range m h) as R.
  unfold nid at 1. rewrite aget_next_id. cbv zeta.
  destruct (Z.eqb_spec (nid m h) 255) as [E|E].
  - rewrite E. reflexivity.
  - rewrite Z.mod_small by lia. destruct (Z.eqb_spec (nid m h + 1) 0); [lia|reflexivity].
Qed.

Lemma nid_consecutive_differ m h : nid (next_id m h) h <> nid m h.
Proof. rewrite nid_successor. pose proof (nid_range m h). destruct (Z.eqb_spec (nid m h) 255); lia. Qed.

(* the identifier of a frame the manager originates (responses echo the peer's identifier) *)
Definition own_id (f : frame) : option Z :=
  match f with
  | FConnReq id _ _ | FConfReq id _ _ _ | FDiscReq id _ _ | FLeReq id _ _ _ _
  | FEnhReq id _ _ _ _ | FCredit id _ _ => Some id
  | _ => None
  end.

Definition ids_valid (fs : list frame) : Prop :=
  forall f i, In f fs -> own_id f = Some i -> 1 <= i <= 255.

Lemma ids_valid_nil : ids_valid [].
Proof. intros f i []. Qed.
Lemma ids_valid_cons f fs : (forall i, own_id f = Some i -> 1 <= i <= 255) -> ids_valid fs -> ids_valid (f :: fs).
Proof. intros H1 H2 g i [<-|Hin]; [apply H1|apply (H2 g i Hin)]. Qed.
Lemma ids_valid_datas cid n : ids_valid (datas cid n).
Proof. unfold datas. intros f i Hin. apply repeat_spec in Hin. subst f. discriminate. Qed.

Ltac ids_tac :=
  repeat match goal with
         | |- ids_valid [] => apply ids_valid_nil
         | |- ids_valid (datas _ _) => apply ids_valid_datas
         | |- ids_valid (_ :: _) => apply ids_valid_cons; [cbn [own_id]; intros ? E; try discriminate; injection E as <-; apply nid_range|]
         | |- ids_valid (snd (if ?b then _ else _)) => destruct b
         | |- ids_valid (snd (match ?x with _ => _ end)) => destruct x
         | |- ids_valid (snd (let '(_, _) := ?x in _)) => destruct x
         | |- ids_valid (snd (_, _)) => cbn [snd]
         end.

(* every request, configuration request and credit frame sent in any state for any event carries
   an identifier of 1..255 *)
Theorem sent_identifiers_valid m e : ids_valid (snd (step m e)).
Proof.
  destruct e as [h kind psm n mode credits|u|u|w|u k|u n|h f|h]; cbn [step].
  - unfold open_le, open_enh, open_cl. cbv zeta. ids_tac.
  - unfold do_close. cbv zeta. ids_tac.
  - ids_tac.
  - ids_tac.
  - unfold do_write. cbv zeta. ids_tac.
  - unfold do_grant. ids_tac.
  - destruct f; cbn [recv]; unfold recv_conn_req, recv_conn_rsp, recv_conf_req, recv_conf_rsp, recv_disc_req,
      recv_disc_rsp, recv_le_req, recv_le_rsp, recv_enh_req, recv_enh_rsp, recv_credit; cbv zeta; ids_tac.
  - ids_tac.
Qed.

(* along any history: every frame of every step *)
Theorem run_identifiers_valid es : forall m, Forall ids_valid (snd (run m es)).
Proof.
  induction es as [|e es IH]; intros m; cbn [run]; [constructor|].
  pose proof (sent_identifiers_valid m e) as H. destruct (step m e) as [m1 out]. cbn [snd] in H.
  specialize (IH m1). destruct (run m1 es) as [m2 outs]. cbn [snd] in *. constructor; auto.
Qed.
