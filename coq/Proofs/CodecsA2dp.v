(* Proofs/CodecsA2dp.v — round trips of the A2DP codec information elements. *)
From Coq Require Import ZArith List Bool Lia.
From BV Require Import Base.Bytes Proofs.Bytes Model.CodecsBase Proofs.CodecsBase Model.CodecsA2dp.
Import ListNotations.
Open Scope Z_scope.

(* ---- SBC: octet 0 and octet 1 are bijections with their field tuples (complete evaluation) *)
Definition sbc_b0_chk (sf cm : Z) : bool :=
  let b := Z.lor (Z.shiftl sf 4) cm in byte_ok b && (Z.land (Z.shiftr b 4) 15 =? sf) && (Z.land (Z.shiftr b 0) 15 =? cm).
Lemma sbc_b0_all : forall2b (zrange 16) (zrange 16) sbc_b0_chk = true.
Proof. vm_compute. reflexivity. Qed.
Definition sbc_b1_chk (bl sb : Z) : bool :=
  forallb (fun am => let b := Z.lor (Z.lor (Z.shiftl bl 4) (Z.shiftl sb 2)) am in
                     byte_ok b && (Z.land (Z.shiftr b 4) 15 =? bl) && (Z.land (Z.shiftr b 2) 3 =? sb) && (Z.land (Z.shiftr b 0) 3 =? am))
          (zrange 4).
Lemma sbc_b1_all : forall2b (zrange 16) (zrange 4) sbc_b1_chk = true.
Proof. vm_compute. reflexivity. Qed.
Definition sbc_back_chk (b : Z) : bool :=
  (Z.lor (Z.shiftl (Z.land (Z.shiftr b 4) 15) 4) (Z.land (Z.shiftr b 0) 15) =? b) &&
  (Z.lor (Z.lor (Z.shiftl (Z.land (Z.shiftr b 4) 15) 4) (Z.shiftl (Z.land (Z.shiftr b 2) 3) 2)) (Z.land (Z.shiftr b 0) 3) =? b) &&
  (Z.land (Z.shiftr b 0) 255 =? b) &&
  zlt 16 (Z.land (Z.shiftr b 4) 15) && zlt 16 (Z.land (Z.shiftr b 0) 15) && zlt 4 (Z.land (Z.shiftr b 2) 3) && zlt 4 (Z.land (Z.shiftr b 0) 3).
Lemma sbc_back_all : forallb sbc_back_chk (zrange 256) = true.
Proof. vm_compute. reflexivity. Qed.

Theorem sbc_value_roundtrip : forall p tail, sbc_ok p = true -> sbc_parse (sbc_bytes p ++ tail) = Some p /\ bytes_ok (sbc_bytes p) = true.
Proof.
  intros p tail H. destruct p as [|sf [|cm [|bl [|sb [|am [|mn [|mx [|? ?]]]]]]]]; try discriminate.
  cbn [sbc_ok] in H. rewrite !andb_true_iff, !zlt_iff in H. destruct H as [[[[[[Hsf Hcm] Hbl] Hsb] Ham] Hmn] Hmx].
  pose proof (forall2_range 16 16 _ sbc_b0_all sf cm ltac:(cbn; lia) ltac:(cbn; lia)) as B0.
  unfold sbc_b0_chk in B0. rewrite !andb_true_iff in B0. destruct B0 as [[B0a B0b] B0c].
  pose proof (forall2_range 16 4 _ sbc_b1_all bl sb ltac:(cbn; lia) ltac:(cbn; lia)) as B1. unfold sbc_b1_chk in B1.
  pose proof (forall_range 4 _ B1 am ltac:(cbn; lia)) as B1'. cbv beta zeta in B1'.
  rewrite !andb_true_iff in B1'. destruct B1' as [[[B1a B1b] B1c] B1d].
  apply Z.eqb_eq in B0b, B0c, B1b, B1c, B1d.
  pose proof (forall_range 256 _ sbc_back_all mn ltac:(cbn; lia)) as M1.
  pose proof (forall_range 256 _ sbc_back_all mx ltac:(cbn; lia)) as M2.
  unfold sbc_back_chk in M1, M2. rewrite !andb_true_iff in M1, M2.
  destruct M1 as [[[[[[_ _] M1] _] _] _] _]. destruct M2 as [[[[[[_ _] M2] _] _] _] _]. apply Z.eqb_eq in M1, M2.
  split.
  - cbn [sbc_bytes app sbc_parse]. rewrite B0b, B0c, B1b, B1c, B1d, M1, M2. reflexivity.
  - cbn [sbc_bytes bytes_ok forallb]. rewrite B0a, B1a. cbn [andb].
    replace (byte_ok mn) with true by (symmetry; apply byte_ok_iff; lia).
    replace (byte_ok mx) with true by (symmetry; apply byte_ok_iff; lia). reflexivity.
Qed.

(* every four received octets re-serialise identically: SBC has no reserved bits *)
Theorem sbc_bytes_roundtrip : forall d0 d1 d2 d3 tail p,
  bytes_ok [d0; d1; d2; d3] = true -> sbc_parse (d0 :: d1 :: d2 :: d3 :: tail) = Some p ->
  sbc_bytes p = [d0; d1; d2; d3] /\ sbc_ok p = true.
Proof.
  intros d0 d1 d2 d3 tail p Hok Hp. cbn [sbc_parse] in Hp. apply some_inv in Hp. subst p.
  cbn [bytes_ok forallb] in Hok. rewrite !andb_true_iff in Hok. destruct Hok as [H0 [H1 [H2 [H3 _]]]].
  pose proof (forall_range 256 _ sbc_back_all d0 ltac:(apply byte_range; exact H0)) as A0.
  pose proof (forall_range 256 _ sbc_back_all d1 ltac:(apply byte_range; exact H1)) as A1.
  pose proof (forall_range 256 _ sbc_back_all d2 ltac:(apply byte_range; exact H2)) as A2.
  pose proof (forall_range 256 _ sbc_back_all d3 ltac:(apply byte_range; exact H3)) as A3.
  unfold sbc_back_chk in *. rewrite !andb_true_iff in A0, A1, A2, A3.
  destruct A0 as [[[[[[A0a _] _] A0b] A0c] _] _]. destruct A1 as [[[[[[_ A1a] _] A1b] _] A1c] A1d].
  destruct A2 as [[[[[[_ _] A2a] _] _] _] _]. destruct A3 as [[[[[[_ _] A3a] _] _] _] _].
  apply Z.eqb_eq in A0a, A1a, A2a, A3a. split.
  - cbn [sbc_bytes]. rewrite A0a, A1a, A2a, A3a. reflexivity.
  - cbn [sbc_ok]. rewrite A0b, A0c, A1b, A1c, A1d, A2a, A3a. cbn [andb].
    apply byte_ok_iff in H2, H3. rewrite !andb_true_iff, !zlt_iff. lia.
Qed.

(* ---- AAC *)
Lemma land_ones' : forall v k, 0 <= k -> Z.land v (Z.ones k) = v mod 2 ^ k.
Proof. intros. apply Z.land_ones. assumption. Qed.

Theorem aac_value_roundtrip : forall p tail, aac_ok p = true -> aac_parse (aac_bytes p ++ tail) = Some p /\ bytes_ok (aac_bytes p) = true.
Proof.
  intros p tail H. destruct p as [|ot [|sf [|ch [|vbr [|br [|? ?]]]]]]; try discriminate.
  cbn [aac_ok] in H. rewrite !andb_true_iff, !zlt_iff in H. destruct H as [[[[Hot Hsf] Hch] Hvbr] Hbr].
  (* every octet as arithmetic *)
  assert (E0 : Z.land ot 255 = ot).
  { change 255 with (Z.ones 8). rewrite land_ones' by lia. apply Z.mod_small. cbn. lia. }
  assert (E1 : Z.land (Z.shiftr sf 4) 255 = sf / 16).
  { change 255 with (Z.ones 8). rewrite land_ones', Z.shiftr_div_pow2 by lia. change (2 ^ 4) with 16. change (2 ^ 8) with 256.
    apply Z.mod_small. split; [apply Z.div_pos; lia|apply Z.div_lt_upper_bound; lia]. }
  assert (Hs15 : Z.land sf 15 = sf mod 16) by (change 15 with (Z.ones 4); apply land_ones'; lia).
  assert (Hm : 0 <= sf mod 16 < 16) by (apply Z.mod_pos_bound; lia).
  assert (E2a : Z.lor (Z.shiftl (sf mod 16) 4) (Z.shiftl ch 2) = ch * 4 + (sf mod 16) * 16).
  { rewrite (Z.shiftl_mul_pow2 ch 2) by lia. change (2 ^ 2) with 4.
    rewrite Z.lor_comm. rewrite lor_shiftl_add by (try lia; change (2 ^ 4) with 16; lia). change (2 ^ 4) with 16. reflexivity. }
  assert (E2 : Z.land (Z.lor (Z.shiftl (Z.land sf 15) 4) (Z.shiftl ch 2)) 255 = ch * 4 + (sf mod 16) * 16).
  { rewrite Hs15, E2a. change 255 with (Z.ones 8). rewrite land_ones' by lia. apply Z.mod_small. change (2 ^ 8) with 256. lia. }
  assert (Hb16 : Z.land (Z.shiftr br 16) 127 = br / 65536).
  { change 127 with (Z.ones 7). rewrite land_ones', Z.shiftr_div_pow2 by lia. change (2 ^ 16) with 65536. change (2 ^ 7) with 128.
    apply Z.mod_small. split; [apply Z.div_pos; lia|apply Z.div_lt_upper_bound; lia]. }
  assert (Hq : 0 <= br / 65536 < 128) by (split; [apply Z.div_pos; lia|apply Z.div_lt_upper_bound; lia]).
  assert (E3a : Z.lor (Z.shiftl vbr 7) (br / 65536) = br / 65536 + vbr * 128).
  { rewrite Z.lor_comm. rewrite lor_shiftl_add by (try lia; change (2 ^ 7) with 128; lia). reflexivity. }
  assert (E3 : Z.land (Z.lor (Z.shiftl vbr 7) (Z.land (Z.shiftr br 16) 127)) 255 = br / 65536 + vbr * 128).
  { rewrite Hb16, E3a. change 255 with (Z.ones 8). rewrite land_ones' by lia. apply Z.mod_small. change (2 ^ 8) with 256. lia. }
  assert (E4 : Z.land (Z.land (Z.shiftr br 8) 255) 255 = (br / 256) mod 256).
  { change 255 with (Z.ones 8). rewrite !land_ones', Z.shiftr_div_pow2 by lia. change (2 ^ 8) with 256. apply Z.mod_mod. lia. }
  assert (E5 : Z.land br 255 = br mod 256) by (change 255 with (Z.ones 8); apply land_ones'; lia).
  cbn [aac_bytes]. rewrite E0, E1, E2, E3, E4, E5.
  set (b2 := ch * 4 + sf mod 16 * 16). set (b3 := br / 65536 + vbr * 128).
  assert (Hb2 : 0 <= b2 < 256) by (subst b2; lia). assert (Hb3 : 0 <= b3 < 256) by (subst b3; lia).
  assert (Hd1 : 0 <= sf / 16 < 256) by (split; [apply Z.div_pos; lia|apply Z.div_lt_upper_bound; lia]).
  assert (Hb4 : 0 <= (br / 256) mod 256 < 256) by (apply Z.mod_pos_bound; lia).
  assert (Hb5 : 0 <= br mod 256 < 256) by (apply Z.mod_pos_bound; lia).
  split.
  - cbn [app aac_parse]. f_equal. f_equal. f_equal; [|f_equal; [|f_equal; [|f_equal]]].
    + (* sampling frequency *)
      assert (Hn : Z.land (Z.shiftr b2 4) 15 = sf mod 16).
      { change 15 with (Z.ones 4). rewrite land_ones', Z.shiftr_div_pow2 by lia. change (2 ^ 4) with 16. subst b2.
        rewrite Z.div_add by lia. replace (ch * 4 / 16) with 0 by (symmetry; apply Z.div_small; lia). rewrite Z.add_0_l.
        apply Z.mod_small. exact Hm. }
      rewrite Hn. rewrite Z.lor_comm. rewrite lor_shiftl_add by (try lia; change (2 ^ 4) with 16; lia). change (2 ^ 4) with 16.
      pose proof (Z.div_mod sf 16). lia.
    + (* channels *)
      change 3 with (Z.ones 2). rewrite land_ones', Z.shiftr_div_pow2 by lia. change (2 ^ 2) with 4. subst b2.
      replace (ch * 4 + sf mod 16 * 16) with ((ch + (sf mod 16 * 4)) * 4) by lia. rewrite Z.div_mul by lia.
      replace (ch + sf mod 16 * 4) with (ch + (sf mod 16) * 4) by lia. rewrite Z.mod_add by lia. apply Z.mod_small. lia.
    + (* vbr *)
      replace (Z.land (Z.shiftr b3 7) 1) with (Z.land (Z.shiftr b3 7) (Z.ones 1)) by reflexivity. rewrite land_ones', Z.shiftr_div_pow2 by lia. change (2 ^ 7) with 128. change (2 ^ 1) with 2. subst b3.
      rewrite Z.div_add by lia. rewrite (Z.div_small (br / 65536)) by lia. rewrite Z.add_0_l. apply Z.mod_small. lia.
    + (* bitrate *)
      assert (Hl : Z.land b3 127 = br / 65536).
      { change 127 with (Z.ones 7). rewrite land_ones' by lia. change (2 ^ 7) with 128. subst b3.
        rewrite Z.mod_add by lia. apply Z.mod_small. lia. }
      rewrite Hl.
      rewrite (Z.lor_comm (Z.shiftl (br / 65536) 16)).
      rewrite (lor_shiftl_add (Z.shiftl ((br / 256) mod 256) 8) (br / 65536) 16).
      2: lia.
      2:{ rewrite Z.shiftl_mul_pow2 by lia. change (2 ^ 8) with 256. change (2 ^ 16) with 65536. lia. }
      rewrite Z.shiftl_mul_pow2 by lia. change (2 ^ 8) with 256. change (2 ^ 16) with 65536.
      rewrite Z.lor_comm.
      assert (Hlow : Z.lor (br mod 256) ((br / 256) mod 256 * 256 + br / 65536 * 65536) = br mod 256 + ((br / 256) mod 256 + br / 65536 * 256) * 256).
      { replace ((br / 256) mod 256 * 256 + br / 65536 * 65536) with (Z.shiftl ((br / 256) mod 256 + br / 65536 * 256) 8)
          by (rewrite Z.shiftl_mul_pow2 by lia; change (2 ^ 8) with 256; lia).
        rewrite lor_shiftl_add by (try lia; change (2 ^ 8) with 256; lia). reflexivity. }
      rewrite Hlow.
      pose proof (Z.div_mod br 256 ltac:(lia)). pose proof (Z.div_mod (br / 256) 256 ltac:(lia)).
      assert (br / 256 / 256 = br / 65536) by (rewrite Z.div_div by lia; reflexivity). lia.
  - cbn [bytes_ok forallb]. rewrite !andb_true_iff. repeat split; try reflexivity; apply byte_ok_iff; lia.
Qed.
