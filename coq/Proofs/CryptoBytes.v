(* C14 - lemmas about the byte-string helpers of Model/CryptoBytes.v *)
From Coq Require Import ZArith List Bool Lia.
From BV Require Import Model.CryptoBytes.
Import ListNotations.
Open Scope Z_scope.

Ltac Zify.zify_post_hook ::= Z.div_mod_to_equations.

(* ------------------------------------------------------------------ finite case analysis *)
Definition all_bytes : list Z := map Z.of_nat (seq 0 256).

Lemma in_all_bytes : forall b, 0 <= b < 256 -> In b all_bytes.
Proof.
  intros b Hb. unfold all_bytes. apply in_map_iff. exists (Z.to_nat b). split.
  - lia.
  - apply in_seq. lia.
Qed.

Lemma byte_cases : forall P : Z -> bool,
  forallb P all_bytes = true -> forall b, 0 <= b < 256 -> P b = true.
Proof.
  intros P H b Hb. rewrite forallb_forall in H. apply H. apply in_all_bytes. exact Hb.
Qed.

Lemma byte_ok_iff : forall b, byte_ok b = true <-> 0 <= b < 256.
Proof. intros b. unfold byte_ok. rewrite andb_true_iff, Z.leb_le, Z.ltb_lt. tauto. Qed.

Lemma bytes_ok_app : forall a b, bytes_ok (a ++ b) = bytes_ok a && bytes_ok b.
Proof. intros. unfold bytes_ok. apply forallb_app. Qed.

Lemma bytes_ok_cons : forall x l, bytes_ok (x :: l) = byte_ok x && bytes_ok l.
Proof. reflexivity. Qed.

Lemma bytes_ok_zeros : forall n, bytes_ok (zeros n) = true.
Proof. induction n; simpl; auto. Qed.

Lemma bytes_ok_firstn : forall n l, bytes_ok l = true -> bytes_ok (firstn n l) = true.
Proof.
  induction n; intros [|x l] H; simpl; auto.
  rewrite bytes_ok_cons in H. apply andb_true_iff in H as [H1 H2].
  change (byte_ok x && bytes_ok (firstn n l) = true). rewrite H1, IHn; auto.
Qed.

Lemma bytes_ok_skipn : forall n l, bytes_ok l = true -> bytes_ok (skipn n l) = true.
Proof.
  induction n; intros [|x l] H; simpl; auto.
  rewrite bytes_ok_cons in H. apply andb_true_iff in H as [H1 H2]. auto.
Qed.

Lemma bytes_ok_rev : forall l, bytes_ok (rev l) = bytes_ok l.
Proof.
  induction l; simpl; auto. rewrite bytes_ok_app, IHl. simpl.
  rewrite andb_true_r. apply andb_comm.
Qed.

(* ------------------------------------------------------------------ zeros / length *)
Lemma length_zeros : forall n, length (zeros n) = n.
Proof. intros. apply repeat_length. Qed.

Lemma len_app : forall a b, len (a ++ b) = len a + len b.
Proof. intros. unfold len. rewrite app_length. lia. Qed.

Lemma len_nonneg : forall l, 0 <= len l.
Proof. intros. unfold len. lia. Qed.

(* ------------------------------------------------------------------ xor_zip *)
Lemma xor_zip_comm : forall a b, xor_zip a b = xor_zip b a.
Proof.
  induction a as [|x a IH]; intros [|y b]; simpl; auto.
  rewrite Z.lxor_comm, IH. reflexivity.
Qed.

Lemma xor_zip_assoc : forall a b c, xor_zip (xor_zip a b) c = xor_zip a (xor_zip b c).
Proof.
  induction a as [|x a IH]; intros [|y b] [|z c]; simpl; auto.
  rewrite Z.lxor_assoc, IH. reflexivity.
Qed.

Lemma xor_zip_length : forall a b, length (xor_zip a b) = Nat.min (length a) (length b).
Proof. induction a as [|x a IH]; intros [|y b]; simpl; auto. Qed.

Lemma xor_zip_length_eq : forall a b n, length a = n -> length b = n -> length (xor_zip a b) = n.
Proof. intros. rewrite xor_zip_length. lia. Qed.

Lemma xor_zip_zeros_l : forall b n, length b = n -> xor_zip (zeros n) b = b.
Proof.
  unfold zeros. induction b as [|y b IH]; intros n H; destruct n; simpl in *; try discriminate; auto.
  rewrite (IH n) by lia. reflexivity.
Qed.

Lemma xor_zip_zeros_r : forall b n, length b = n -> xor_zip b (zeros n) = b.
Proof. intros. rewrite xor_zip_comm. apply xor_zip_zeros_l. assumption. Qed.

Lemma xor_zip_app : forall a1 b1 a2 b2, length a1 = length b1 ->
  xor_zip (a1 ++ a2) (b1 ++ b2) = xor_zip a1 b1 ++ xor_zip a2 b2.
Proof.
  induction a1 as [|x a1 IH]; intros [|y b1] a2 b2 H; simpl in *; try discriminate; auto.
  rewrite IH by lia. reflexivity.
Qed.

(* ------------------------------------------------------------------ Python slices *)
Lemma py_from_neg_app : forall a b n, len b = n -> 0 < n -> py_from (a ++ b) (- n) = b.
Proof.
  intros a b n Hb Hn. unfold py_from, py_slice, norm_index.
  rewrite len_app. pose proof (len_nonneg a).
  destruct (- n <? 0) eqn:E1; [|lia].
  destruct (len a + len b <? 0) eqn:E2; [lia|].
  rewrite Z.max_r by lia. rewrite Z.min_l by lia.
  replace (Z.to_nat (len a + len b + - n)) with (length a) by (unfold len in *; lia).
  rewrite skipn_app, skipn_all, Nat.sub_diag. simpl.
  apply firstn_all2. unfold len in *. lia.
Qed.

Lemma py_upto_neg_app : forall a b n, len b = n -> 0 < n -> py_upto (a ++ b) (- n) = a.
Proof.
  intros a b n Hb Hn. unfold py_upto, py_slice, norm_index.
  rewrite len_app. pose proof (len_nonneg a).
  destruct (- n <? 0) eqn:E1; [|lia].
  change (0 <? 0) with false. cbv iota.
  rewrite Z.max_r by lia. rewrite Z.min_l by lia.
  replace (Z.to_nat (len a + len b + - n - 0)) with (length a) by (unfold len in *; lia).
  simpl. rewrite firstn_app, firstn_all, Nat.sub_diag. simpl. apply app_nil_r.
Qed.

Lemma py_upto_nonneg : forall l k, 0 <= k -> py_upto l k = firstn (Z.to_nat k) l.
Proof.
  intros l k Hk. unfold py_upto, py_slice, norm_index. pose proof (len_nonneg l).
  change (0 <? 0) with false. cbv iota. rewrite (Z.min_l 0) by lia.
  destruct (k <? 0) eqn:E; [lia|]. change (Z.to_nat 0) with 0%nat. cbn [skipn].
  rewrite Z.sub_0_r.
  destruct (Z.le_ge_cases k (len l)).
  - rewrite Z.min_l by lia. reflexivity.
  - rewrite Z.min_r by lia.
    rewrite !firstn_all2; auto; unfold len in *; lia.
Qed.

Lemma py_from_nonneg : forall l k, 0 <= k -> py_from l k = skipn (Z.to_nat k) l.
Proof.
  intros l k Hk. unfold py_from, py_slice, norm_index. pose proof (len_nonneg l).
  destruct (k <? 0) eqn:E; [lia|]. destruct (len l <? 0) eqn:E2; [lia|].
  rewrite (Z.min_l (len l)) by lia.
  destruct (Z.le_ge_cases k (len l)).
  - rewrite Z.min_l by lia. apply firstn_all2. rewrite skipn_length. unfold len in *. lia.
  - rewrite Z.min_r by lia. rewrite Z.sub_diag. change (Z.to_nat 0) with 0%nat. cbn [firstn].
    symmetry. apply skipn_all2. unfold len in *. lia.
Qed.

Lemma py_slice_second_last : forall a c1 c2, len c1 = 16 -> len c2 = 16 ->
  py_slice (a ++ c1 ++ c2) (-32) (-16) = c1.
Proof.
  intros a c1 c2 H1 H2. unfold py_slice, norm_index. rewrite !len_app.
  pose proof (len_nonneg a). change (-32 <? 0) with true. change (-16 <? 0) with true. cbv iota.
  rewrite !Z.max_r by lia.
  replace (Z.to_nat (len a + (len c1 + len c2) + -32)) with (length a) by (unfold len in *; lia).
  replace (Z.to_nat (len a + (len c1 + len c2) + -16 - (len a + (len c1 + len c2) + -32))) with 16%nat by lia.
  rewrite skipn_app, skipn_all, Nat.sub_diag. cbn [skipn app].
  rewrite firstn_app. replace (16 - length c1)%nat with 0%nat by (unfold len in *; lia).
  rewrite firstn_O, app_nil_r. apply firstn_all2. unfold len in *. lia.
Qed.

Lemma py_splice_app : forall a b v n, len a = n -> py_splice (a ++ b) n (len (a ++ b)) v = a ++ v.
Proof.
  intros a b v n Ha. unfold py_splice. rewrite len_app.
  pose proof (len_nonneg b).
  rewrite Z.max_r by lia.
  replace (Z.to_nat n) with (length a) by (unfold len in *; lia).
  rewrite firstn_app, firstn_all, Nat.sub_diag. simpl. rewrite app_nil_r.
  rewrite skipn_all2 by (rewrite app_length; unfold len in *; lia).
  rewrite app_nil_r. reflexivity.
Qed.

(* ------------------------------------------------------------------ be_int / to_be *)
Lemma len_cons : forall x l, len (x :: l) = len l + 1.
Proof. intros. unfold len. cbn [length]. lia. Qed.

Lemma be_int_acc : forall l acc,
  fold_left (fun a b => a * 256 + b) l acc = acc * 256 ^ len l + be_int l.
Proof.
  unfold be_int. induction l as [|x l IH]; intros acc.
  - cbn [fold_left]. change (len []) with 0. rewrite Z.pow_0_r. ring.
  - cbn [fold_left]. rewrite (IH (acc * 256 + x)), (IH (0 * 256 + x)).
    rewrite len_cons. rewrite Z.pow_add_r by (unfold len; lia).
    change (256 ^ 1) with 256. ring.
Qed.

Lemma be_int_cons : forall x l, be_int (x :: l) = x * 256 ^ len l + be_int l.
Proof.
  intros. unfold be_int at 1. cbn [fold_left]. rewrite be_int_acc. ring.
Qed.

Lemma be_int_bound : forall l, bytes_ok l = true -> 0 <= be_int l < 256 ^ len l.
Proof.
  induction l as [|x l IH]; intros H.
  - unfold be_int. change (len []) with 0. cbn. lia.
  - rewrite bytes_ok_cons in H. apply andb_true_iff in H as [Hx Hl].
    apply byte_ok_iff in Hx. specialize (IH Hl). rewrite be_int_cons.
    rewrite len_cons. rewrite Z.pow_add_r by (unfold len; lia). change (256 ^ 1) with 256.
    assert (0 < 256 ^ len l) by (apply Z.pow_pos_nonneg; unfold len; lia). nia.
Qed.

Lemma to_be_length : forall n v, length (to_be n v) = n.
Proof. induction n; intros; simpl; auto. rewrite app_length, IHn. simpl. lia. Qed.

Lemma to_be_ok : forall n v, bytes_ok (to_be n v) = true.
Proof.
  induction n; intros; simpl; auto. rewrite bytes_ok_app, IHn. simpl.
  rewrite andb_true_r. apply byte_ok_iff. apply Z.mod_pos_bound. lia.
Qed.

Lemma to_be_mod : forall n v, to_be n (v mod 256 ^ Z.of_nat n) = to_be n v.
Proof.
  induction n; intros v; [reflexivity|].
  cbn [to_be]. rewrite Nat2Z.inj_succ, Z.pow_succ_r by lia.
  assert (Hp : 0 < 256 ^ Z.of_nat n) by (apply Z.pow_pos_nonneg; lia).
  rewrite Z.rem_mul_r by lia.
  set (a := v mod 256). set (b := (v / 256) mod 256 ^ Z.of_nat n).
  assert (Ha : 0 <= a < 256) by (apply Z.mod_pos_bound; lia).
  replace ((a + 256 * b) / 256) with b by lia.
  replace ((a + 256 * b) mod 256) with a by lia.
  unfold b. rewrite IHn. reflexivity.
Qed.

Lemma lxor_div_256 : forall a b, Z.lxor a b / 256 = Z.lxor (a / 256) (b / 256).
Proof.
  intros. change 256 with (2 ^ 8). rewrite <- !Z.shiftr_div_pow2 by lia. apply Z.shiftr_lxor.
Qed.

Lemma lxor_mod_256 : forall a b, Z.lxor a b mod 256 = Z.lxor (a mod 256) (b mod 256).
Proof.
  intros. change 256 with (2 ^ 8). rewrite <- !Z.land_ones by lia.
  apply Z.bits_inj'. intros n Hn.
  rewrite Z.lxor_spec, !Z.land_spec, Z.lxor_spec.
  destruct (Z.testbit (Z.ones 8) n); rewrite ?andb_true_r, ?andb_false_r; reflexivity.
Qed.

Lemma to_be_lxor : forall n a b, to_be n (Z.lxor a b) = xor_zip (to_be n a) (to_be n b).
Proof.
  induction n; intros a b; [reflexivity|].
  cbn [to_be]. rewrite lxor_div_256, IHn, lxor_mod_256.
  rewrite xor_zip_app by (rewrite !to_be_length; reflexivity). reflexivity.
Qed.

Lemma to_be_tail : forall n v, tl (to_be (S n) v) = to_be n v.
Proof.
  induction n; intros v.
  - reflexivity.
  - change (to_be (S (S n)) v) with (to_be (S n) (v / 256) ++ [v mod 256]).
    assert (H : forall (l : list Z) r, l <> [] -> tl (l ++ r) = tl l ++ r)
      by (intros [|? ?] ? ?; [congruence|reflexivity]).
    rewrite H. 2:{ intro E. apply (f_equal (@length Z)) in E. rewrite to_be_length in E. discriminate. }
    rewrite IHn. reflexivity.
Qed.

(* ------------------------------------------------------------------ chunks16 *)
Definition blocks_ok (bs : list (list Z)) : Prop := Forall (fun b => length b = 16%nat) bs.

Lemma chunks_fuel_concat : forall bs f, blocks_ok bs -> (length bs <= f)%nat ->
  chunks_fuel f (concat bs) = bs.
Proof.
  induction bs as [|b bs IH]; intros f Hok Hf.
  - destruct f; reflexivity.
  - inversion Hok as [|? ? Hb Hbs]; subst. destruct f as [|f]; [simpl in Hf; lia|].
    simpl concat. cbn [chunks_fuel].
    destruct b as [|x b']; [discriminate|].
    change ((x :: b') ++ concat bs) with (x :: (b' ++ concat bs)) at 1.
    cbv iota.
    change (x :: b' ++ concat bs) with ((x :: b') ++ concat bs).
    rewrite firstn_app, skipn_app, Hb, Nat.sub_diag.
    rewrite firstn_all2 by lia. rewrite skipn_all2 by lia. simpl.
    rewrite app_nil_r. f_equal. apply IH; auto. simpl in Hf. lia.
Qed.

Lemma concat_blocks_length : forall bs, blocks_ok bs -> length (concat bs) = (16 * length bs)%nat.
Proof.
  induction bs as [|b bs IH]; intros H; [reflexivity|].
  inversion H; subst. simpl. rewrite app_length, IH by assumption. lia.
Qed.

Lemma chunks16_concat : forall bs, blocks_ok bs -> chunks16 (concat bs) = bs.
Proof.
  intros bs H. unfold chunks16. apply chunks_fuel_concat; auto.
  rewrite concat_blocks_length by assumption. lia.
Qed.

(* every byte string is a sequence of full blocks followed by a shorter remainder *)
Lemma split_blocks_fuel : forall f (M : list Z), (length M <= f)%nat ->
  exists bs r, M = concat bs ++ r /\ blocks_ok bs /\ (length r < 16)%nat.
Proof.
  induction f; intros M Hf.
  - destruct M; [|simpl in Hf; lia]. exists [], []. repeat split; [constructor|simpl; lia].
  - destruct (Nat.lt_ge_cases (length M) 16) as [Hs|Hl].
    + exists [], M. repeat split; [constructor|assumption].
    + destruct (IHf (skipn 16 M)) as (bs & r & E & Hok & Hr).
      { rewrite skipn_length. lia. }
      exists (firstn 16 M :: bs), r. split; [|split].
      * cbn [concat]. rewrite <- app_assoc, <- E. symmetry. apply firstn_skipn.
      * constructor; auto. apply firstn_length_le. assumption.
      * assumption.
Qed.

Lemma split_blocks : forall M : list Z,
  exists bs r, M = concat bs ++ r /\ blocks_ok bs /\ (length r < 16)%nat.
Proof. intros M. apply (split_blocks_fuel (length M)). lia. Qed.

Lemma blocks_ok_app : forall a b, blocks_ok (a ++ b) <-> blocks_ok a /\ blocks_ok b.
Proof. intros. unfold blocks_ok. apply Forall_app. Qed.

(* ------------------------------------------------------------------ list_eqb *)
Lemma list_eqb_refl : forall l, list_eqb l l = true.
Proof. induction l; simpl; auto. rewrite Z.eqb_refl. assumption. Qed.

Lemma list_eqb_eq : forall a b, list_eqb a b = true <-> a = b.
Proof.
  induction a as [|x a IH]; intros [|y b]; simpl; split; intros H; try discriminate; auto.
  - apply andb_true_iff in H as [H1 H2]. apply Z.eqb_eq in H1. apply IH in H2. congruence.
  - inversion H; subst. rewrite Z.eqb_refl. apply IH. reflexivity.
Qed.
