(* Proofs about Model/DataQueueFail.v: the queue when hand-overs can raise. *)
From Coq Require Import ZArith List Bool Lia.
From BV Require Import Model.DataQueue Model.DataQueueFail Proofs.DataQueue.
Import ListNotations.
Open Scope Z_scope.

(* the plain model is the failing model with no failure *)
Lemma q_step_pre s o :
  q_step s o = match q_pre s o with Some t => run_check t | None => (s, []) end.
Proof.
  destruct o as [p h|h|n h]; cbn [q_step q_pre]; try reflexivity.
  destruct (find_conn h (q_conns s)); reflexivity.
Qed.

Lemma check_queue_f_nofail fails maxf : (forall p, fails p = false) ->
  forall w infl cs, check_queue_f fails maxf infl cs w = (check_queue maxf infl cs w, false).
Proof.
  intros Hf. induction w as [|[p h] w IH]; intros infl cs; cbn [check_queue_f check_queue].
  - reflexivity.
  - destruct (Z.ltb infl maxf); [|reflexivity]. rewrite Hf, IH.
    destruct (check_queue maxf (infl + 1) (bump_conn h cs) w) as [[[i c] w'] s]. reflexivity.
Qed.

Lemma q_step_f_nofail fails s o : (forall p, fails p = false) ->
  q_step_f fails s o = (q_step s o, false).
Proof.
  intros Hf. rewrite q_step_pre. unfold q_step_f. destruct (q_pre s o) as [t|]; [|reflexivity].
  unfold run_check_f, run_check. rewrite (check_queue_f_nofail fails _ Hf).
  destruct (check_queue (q_max t) (q_inflight t) (q_conns t) (q_wait t)) as [[[i c] w'] snt]. reflexivity.
Qed.

(* what one run of the send-while-credit loop does when hand-overs can raise *)
Definition sent_ok (fails : Z -> bool) (sent : list (Z * Z)) : Prop :=
  Forall (fun ph => fails (fst ph) = false) sent.

Lemma check_queue_f_spec fails maxf : forall w infl cs,
  let '(infl', cs', w', sent, r) := check_queue_f fails maxf infl cs w in
  infl' = infl + Z.of_nat (length sent) /\
  sum_conns cs' = sum_conns cs + Z.of_nat (length sent) /\
  (infl <= maxf -> infl' <= maxf) /\
  (conns_nonneg cs -> conns_nonneg cs') /\
  (NoDup (handles cs) -> NoDup (handles cs')) /\
  (conns_nonneg cs -> drained_ok cs -> drained_ok cs') /\
  sent_ok fails sent /\
  (if r then exists p h, w = sent ++ (p, h) :: w' /\ fails p = true /\ infl' < maxf
   else w = sent ++ w' /\ (w' <> [] -> maxf <= infl')).
Proof.
  induction w as [|[p h] w IH]; intros infl cs; cbn [check_queue_f].
  - cbn. repeat split; auto; try lia. constructor. intros H; congruence.
  - destruct (Z.ltb infl maxf) eqn:E.
    + apply Z.ltb_lt in E. destruct (fails p) eqn:Fp.
      * cbn. repeat split; auto; try lia. constructor. exists p, h. repeat split; auto.
      * specialize (IH (infl + 1) (bump_conn h cs)).
        destruct (check_queue_f fails maxf (infl + 1) (bump_conn h cs) w) as [[[[i c] w'] s] r].
        destruct IH as (Hi & Hs & Hle & Hn & Hd & Hdr & Hok & Hr).
        repeat split.
        -- cbn [length]. lia.
        -- rewrite Hs, bump_sum. cbn [length]. lia.
        -- lia.
        -- intros; apply Hn, bump_nonneg; assumption.
        -- intros; apply Hd, bump_nodup; assumption.
        -- intros; apply Hdr; [apply bump_nonneg|apply bump_drained]; assumption.
        -- constructor; [exact Fp|exact Hok].
        -- destruct r.
           ++ destruct Hr as (p' & h' & Hw & Hf & Hlt). exists p', h'. cbn. rewrite Hw. auto.
           ++ destruct Hr as (Hw & Hwc). cbn. rewrite Hw at 1. auto.
    + apply Z.ltb_ge in E. cbn. repeat split; auto; try lia. constructor.
Qed.

(* the invariant that survives failing hand-overs: everything of [inv] except work conservation
   (an operation that raised left the loop early: the next operation pumps the queue again) *)
Record inv_f (s : qstate) : Prop := {
  invf_sum : q_inflight s = sum_conns (q_conns s);
  invf_nonneg : conns_nonneg (q_conns s);
  invf_nodup : NoDup (handles (q_conns s));
  invf_bound : q_inflight s <= q_max s;
  invf_drained : drained_ok (q_conns s)
}.

Lemma inv_inv_f s : inv s -> inv_f s.
Proof. intros [A B C D _ E]. constructor; assumption. Qed.

Lemma run_check_f_inv fails t : inv_f t -> inv_f (fst (fst (run_check_f fails t))).
Proof.
  intros [Hs Hn Hd Hb Hdr]. unfold run_check_f.
  pose proof (check_queue_f_spec fails (q_max t) (q_wait t) (q_inflight t) (q_conns t)) as H.
  destruct (check_queue_f fails (q_max t) (q_inflight t) (q_conns t) (q_wait t)) as [[[[i c] w'] snt] r].
  destruct H as (Hi & Hsum & Hle & Hnn & Hnd & Hdd & _ & _). cbn.
  constructor; cbn; auto; lia.
Qed.

Lemma pre_inv_f s o t : op_ok o -> inv_f s -> q_pre s o = Some t -> inv_f t.
Proof.
  intros Hok [Hs Hn Hd Hb Hdr]. destruct o as [p h|h|n h]; cbn [q_pre].
  - intros H. injection H as <-. constructor; cbn; auto.
  - cbn [q_conns q_inflight q_max q_wait q_queued q_completed].
    destruct (find_conn h (q_conns s)) as [c|] eqn:Hf; intros H; injection H as <-.
    + destruct (find_conn_in _ _ _ Hf) as [Hin _].
      assert (0 <= c_inflight c) by (eapply Forall_forall in Hn; eauto).
      constructor; cbn.
      * rewrite (remove_conn_sum _ _ _ Hd Hf). lia.
      * apply remove_conn_Forall; assumption.
      * apply remove_conn_nodup; assumption.
      * lia.
      * apply remove_conn_Forall; assumption.
    + constructor; cbn; auto.
  - destruct (find_conn h (q_conns s)) as [c|] eqn:Hf; [|discriminate].
    intros H. injection H as <-.
    destruct (find_conn_in _ _ _ Hf) as [Hin _].
    assert (0 <= c_inflight c) by (eapply Forall_forall in Hn; eauto).
    cbn in Hok. constructor; cbn.
    + rewrite (set_conn_sum _ _ _ _ _ Hd Hf). destruct (Z.leb n (c_inflight c)) eqn:E; lia.
    + apply set_conn_Forall; [assumption|]. cbn.
      destruct (Z.leb n (c_inflight c)) eqn:E; [apply Z.leb_le in E|]; lia.
    + now rewrite set_conn_handles.
    + destruct (Z.leb n (c_inflight c)) eqn:E; [apply Z.leb_le in E|]; lia.
    + apply set_conn_Forall; [assumption|]. cbn.
      assert (Hc : c_inflight c = 0 <-> c_drained c = true)
        by (eapply Forall_forall in Hdr; eauto).
      destruct (Z.leb n (c_inflight c)) eqn:E; [apply Z.leb_le in E|apply Z.leb_gt in E].
      * split.
        -- intros E0. apply Z.eqb_eq in E0. now rewrite E0.
        -- intros Ho. apply orb_true_iff in Ho. destruct Ho as [Ho|Ho].
           ++ now apply Z.eqb_eq in Ho.
           ++ apply Hc in Ho. lia.
      * split; [intros _|intros _; lia].
        replace (c_inflight c - c_inflight c) with 0 by lia. reflexivity.
Qed.

Lemma step_inv_f fails s o : op_ok o -> inv_f s -> inv_f (fst (fst (q_step_f fails s o))).
Proof.
  intros Hok Hi. unfold q_step_f. destruct (q_pre s o) as [t|] eqn:E; [|exact Hi].
  apply run_check_f_inv. eapply pre_inv_f; eassumption.
Qed.

Lemma run_inv_f fails ops : forall s, ops_ok ops -> inv_f s -> inv_f (fst (q_run_f fails s ops)).
Proof.
  induction ops as [|o ops IH]; intros s Hok Hi; cbn [q_run_f]; [exact Hi|].
  inversion Hok as [|? ? Ho Hos]; subst.
  pose proof (step_inv_f fails s o Ho Hi) as H. destruct (q_step_f fails s o) as [[s1 o1] r1]. cbn in H.
  specialize (IH s1 Hos H). destruct (q_run_f fails s1 ops) as [s2 outs]. exact IH.
Qed.

(* per step: credits are taken for exactly the packets whose hand-over returned; the packet whose
   hand-over raised is dropped (it is the only one), order is kept, nothing is invented *)
Lemma step_f_accounting fails s o t :
  q_pre s o = Some t ->
  let '(s', sent, r) := q_step_f fails s o in
  q_inflight s' = q_inflight t + Z.of_nat (length sent) /\
  sum_conns (q_conns s') = sum_conns (q_conns t) + Z.of_nat (length sent) /\
  sent_ok fails sent /\
  (if r then exists p h, q_wait t = sent ++ (p, h) :: q_wait s' /\ fails p = true /\ q_inflight s' < q_max s'
   else q_wait t = sent ++ q_wait s' /\ (q_wait s' <> [] -> q_max s' <= q_inflight s')).
Proof.
  intros E. unfold q_step_f. rewrite E. unfold run_check_f.
  pose proof (check_queue_f_spec fails (q_max t) (q_wait t) (q_inflight t) (q_conns t)) as H.
  destruct (check_queue_f fails (q_max t) (q_inflight t) (q_conns t) (q_wait t)) as [[[[i c] w'] snt] r].
  destruct H as (Hi & Hsum & _ & _ & _ & _ & Hok & Hr). cbn. repeat split; assumption.
Qed.
