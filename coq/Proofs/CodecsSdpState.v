(* Proofs/CodecsSdpState.v — the parser with its nesting counter as state (Model/CodecsSdpState.v):
   the counter is restored by every successful parse, the stateful parser is exactly the functional
   one of Model/CodecsSdp.v, and parsing a serialised element succeeds iff its real nesting is within
   the limit, whatever its breadth. *)
From Coq Require Import ZArith List Bool Lia.
From BV Require Import Base.Bytes Proofs.Bytes Model.CodecsBase Proofs.CodecsBase Model.CodecsSdp Proofs.CodecsSdp
  Model.CodecsSdpState.
Import ListNotations.
Open Scope Z_scope.

(* the container case with the list loop as the top-level [slist] *)
Lemma sparse_next_unfold : forall leak k maxd depth b d1,
  sparse_next leak (S k) maxd depth (b :: d1) =
  if is_container b then
    let d := b :: d1 in
    let ty := Z.shiftr b 3 in
    let idx := Z.land b 7 in
    match size_of_header ty idx d1 with
    | None => SErr
    | Some (hs, vs) =>
        let body := skipn hs d1 in
        let consumed := 1 + Z.of_nat hs + Z.max 0 vs in
        let raw := takeZ consumed d in
        let whole := vs <=? lenZ body in
        if (maxd <=? depth)%nat then SErr
        else
          if leak && (vs <=? 0)
          then SOk (if ty =? 6 then ESeq [] else EAlt []) consumed raw (whole && var_canon idx vs && (0 =? vs)) (S depth)
          else
          match slist leak k maxd k (S depth) body vs with
          | SLOk l used cn dep' =>
              SOk (if ty =? 6 then ESeq l else EAlt l) consumed raw
                  (whole && var_canon idx vs && cn && (used =? vs)) (Nat.pred dep')
          | SLErr => SErr
          | SLFuel => SFuel
          end
    end
  else lift_leaf (parse_next 1 0 (b :: d1)) depth.
Proof.
  intros leak k maxd depth b d1. cbn [sparse_next]. cbv zeta.
  destruct (is_container b); [|reflexivity].
  destruct (size_of_header (Z.shiftr b 3) (Z.land b 7) d1) as [[hs vs]|]; [|reflexivity].
  destruct (maxd <=? depth)%nat; [reflexivity|].
  destruct (leak && (vs <=? 0)); [reflexivity|].
  match goal with
  | |- match ?F ?a1 ?a2 ?a3 ?a4 with _ => _ end = match slist leak k maxd k ?dp ?bd ?bg with _ => _ end =>
      assert (E : forall fuel dep body budget, F fuel dep body budget = slist leak k maxd fuel dep body budget)
  end.
  { induction fuel as [|k' IH]; intros dep body budget.
    - reflexivity.
    - cbn [slist]. destruct (budget <=? 0); [reflexivity|].
      destruct (sparse_next leak k maxd dep body) as [e c raw cn dep'| |]; try reflexivity.
      destruct (budget - c <? 0); [reflexivity|].
      rewrite IH. reflexivity. }
  rewrite E. reflexivity.
Qed.

(* leaves do not look at the nesting budget nor at the remaining fuel *)
Lemma leaf_indep : forall k D b d1, is_container b = false ->
  parse_next (S k) D (b :: d1) = parse_next 1 0 (b :: d1).
Proof.
  intros k D b d1 H. unfold is_container in H. rewrite !parse_next_unfold. cbv zeta.
  destruct (size_of_header (Z.shiftr b 3) (Z.land b 7) d1) as [[hs vs]|]; [|reflexivity].
  destruct (Z.shiftr b 3 =? 0); [reflexivity|]. destruct (Z.shiftr b 3 =? 1); [reflexivity|].
  destruct (Z.shiftr b 3 =? 2); [reflexivity|]. destruct (Z.shiftr b 3 =? 3); [reflexivity|].
  destruct (Z.shiftr b 3 =? 4); [reflexivity|]. destruct (Z.shiftr b 3 =? 5); [reflexivity|].
  rewrite H. reflexivity.
Qed.

Lemma container_types : forall b, is_container b = true ->
  (Z.shiftr b 3 =? 0) = false /\ (Z.shiftr b 3 =? 1) = false /\ (Z.shiftr b 3 =? 2) = false /\
  (Z.shiftr b 3 =? 3) = false /\ (Z.shiftr b 3 =? 4) = false /\ (Z.shiftr b 3 =? 5) = false.
Proof.
  intros b H. unfold is_container in H. apply orb_true_iff in H as [H|H]; apply Z.eqb_eq in H; rewrite H; repeat split; reflexivity.
Qed.

(* the stateful parser IS the functional parser with budget maxd - depth, and returns the counter
   it was called with *)
Definition refines (pn : nat) : Prop :=
  forall maxd depth d, (depth <= maxd)%nat ->
  sparse_next false pn maxd depth d = inject (parse_next pn (maxd - depth) d) depth.

Lemma slist_refines : forall pn, refines pn ->
  forall maxd fuel depth d budget, (depth <= maxd)%nat ->
  slist false pn maxd fuel depth d budget = injectl (parse_list pn (maxd - depth) fuel d budget) depth.
Proof.
  intros pn Hpn maxd fuel. induction fuel as [|k' IH]; intros depth d budget Hd.
  - cbn [slist parse_list]. destruct (budget <=? 0); reflexivity.
  - cbn [slist parse_list]. destruct (budget <=? 0); [reflexivity|].
    rewrite (Hpn maxd depth d Hd).
    destruct (parse_next pn (maxd - depth) d) as [e c raw cn| |]; cbn [inject lift_leaf]; try reflexivity.
    destruct (budget - c <? 0); [reflexivity|].
    rewrite (IH depth _ _ Hd).
    destruct (parse_list pn (maxd - depth) k' (dropZ c d) (budget - c)); reflexivity.
Qed.

Lemma refines_all : forall pn, refines pn.
Proof.
  induction pn as [|k IH]; intros maxd depth d Hd; [reflexivity|].
  destruct d as [|b d1]; [reflexivity|].
  rewrite sparse_next_unfold. destruct (is_container b) eqn:Ec.
  - rewrite parse_next_unfold. cbv zeta.
    destruct (container_types b Ec) as [T0 [T1 [T2 [T3 [T4 T5]]]]].
    destruct (size_of_header (Z.shiftr b 3) (Z.land b 7) d1) as [[hs vs]|]; [|reflexivity].
    rewrite T0, T1, T2, T3, T4, T5. unfold is_container in Ec. rewrite Ec.
    cbn [andb]. rewrite takeZ_firstn, whole_nat, consumed_nat.
    destruct (maxd <=? depth)%nat eqn:El.
    + apply Nat.leb_le in El. replace (maxd - depth)%nat with 0%nat by lia. reflexivity.
    + apply Nat.leb_gt in El. replace (maxd - depth)%nat with (S (maxd - S depth)) by lia.
      rewrite (slist_refines k IH maxd k (S depth) _ _ ltac:(lia)).
      destruct (parse_list k (maxd - S depth) k (skipn hs d1) vs); reflexivity.
  - rewrite (leaf_indep k (maxd - depth)%nat b d1 Ec). reflexivity.
Qed.

Theorem sparse_refines_parse : forall fuel maxd depth d, (depth <= maxd)%nat ->
  sparse_next false fuel maxd depth d = inject (parse_next fuel (maxd - depth) d) depth.
Proof. intros. apply refines_all. assumption. Qed.

(* the nesting counter after parsing one element equals the counter before, for all inputs *)
Theorem depth_restored : forall fuel maxd depth d e c raw cn dep',
  (depth <= maxd)%nat -> sparse_next false fuel maxd depth d = SOk e c raw cn dep' -> dep' = depth.
Proof.
  intros fuel maxd depth d e c raw cn dep' Hd H. rewrite sparse_refines_parse in H by exact Hd.
  destruct (parse_next fuel (maxd - depth) d); cbn in H; try discriminate. injection H as _ _ _ _ <-. reflexivity.
Qed.

Theorem sfrom_bytes_is_from_bytes : forall maxd d, erase (sfrom_bytes false maxd d) = from_bytes maxd d.
Proof.
  intros maxd d. unfold sfrom_bytes, from_bytes, sdp_fuel. rewrite sparse_refines_parse by lia.
  rewrite Nat.sub_0_r. destruct (parse_next (S (length d)) maxd d); reflexivity.
Qed.

(* ---- success does not depend on a larger budget: a successful parse stays the same *)
Definition mono (pn : nat) : Prop :=
  forall D D' d e c raw cn, (D <= D')%nat -> parse_next pn D d = POk e c raw cn -> parse_next pn D' d = POk e c raw cn.

Lemma list_mono : forall pn, mono pn -> forall D D' fuel d budget l used cn, (D <= D')%nat ->
  parse_list pn D fuel d budget = LOk l used cn -> parse_list pn D' fuel d budget = LOk l used cn.
Proof.
  intros pn Hm D D' fuel. induction fuel as [|k' IH]; intros d budget l used cn Hd H.
  - cbn [parse_list] in *. destruct (budget <=? 0); [exact H|discriminate].
  - cbn [parse_list] in *. destruct (budget <=? 0); [exact H|].
    destruct (parse_next pn D d) as [e c raw cn1| |] eqn:Ep; try discriminate.
    rewrite (Hm D D' d e c raw cn1 Hd Ep).
    destruct (budget - c <? 0); [discriminate|].
    destruct (parse_list pn D k' (dropZ c d) (budget - c)) as [l' used' cn'| |] eqn:El; try discriminate.
    rewrite (IH _ _ _ _ _ Hd El). exact H.
Qed.

Lemma mono_all : forall pn, mono pn.
Proof.
  induction pn as [|k IH]; intros D D' d e c raw cn Hd H; [discriminate|].
  destruct d as [|b d1]; [discriminate|].
  rewrite parse_next_unfold in *. cbv zeta in *.
  destruct (size_of_header (Z.shiftr b 3) (Z.land b 7) d1) as [[hs vs]|]; [|discriminate].
  destruct (Z.shiftr b 3 =? 0); [exact H|]. destruct (Z.shiftr b 3 =? 1); [exact H|].
  destruct (Z.shiftr b 3 =? 2); [exact H|]. destruct (Z.shiftr b 3 =? 3); [exact H|].
  destruct (Z.shiftr b 3 =? 4); [exact H|]. destruct (Z.shiftr b 3 =? 5); [exact H|].
  destruct ((Z.shiftr b 3 =? 6) || (Z.shiftr b 3 =? 7)); [|exact H].
  destruct D as [|dep]; [discriminate|]. destruct D' as [|dep']; [lia|].
  destruct (parse_list k dep k (skipn hs d1) vs) as [l used cnl| |] eqn:El; try discriminate.
  rewrite (list_mono k IH dep dep' k _ _ _ _ _ ltac:(lia) El). exact H.
Qed.

(* a successful parse never yields an element nested deeper than the budget *)
Definition bounded (pn : nat) : Prop :=
  forall D d e c raw cn, parse_next pn D d = POk e c raw cn -> (elem_depth e <= D)%nat.

Lemma list_bounded : forall pn, bounded pn -> forall D fuel d budget l used cn,
  parse_list pn D fuel d budget = LOk l used cn -> (list_depth l <= D)%nat.
Proof.
  intros pn Hb D fuel. induction fuel as [|k' IH]; intros d budget l used cn H.
  - cbn [parse_list] in H. destruct (budget <=? 0); [|discriminate]. inversion H; subst. cbn. lia.
  - cbn [parse_list] in H. destruct (budget <=? 0); [inversion H; subst; cbn; lia|].
    destruct (parse_next pn D d) as [e c raw cn1| |] eqn:Ep; try discriminate.
    destruct (budget - c <? 0); [discriminate|].
    destruct (parse_list pn D k' (dropZ c d) (budget - c)) as [l' used' cn'| |] eqn:El; try discriminate.
    inversion H; subst. cbn [list_depth]. pose proof (Hb _ _ _ _ _ _ Ep). pose proof (IH _ _ _ _ _ El). lia.
Qed.

Lemma bounded_all : forall pn, bounded pn.
Proof.
  induction pn as [|k IH]; intros D d e c raw cn H; [discriminate|].
  destruct d as [|b d1]; [discriminate|].
  rewrite parse_next_unfold in H. cbv zeta in H.
  destruct (size_of_header (Z.shiftr b 3) (Z.land b 7) d1) as [[hs vs]|]; [|discriminate].
  destruct (Z.shiftr b 3 =? 0); [apply POk_inv in H as [<- _]; cbn; lia|].
  destruct (Z.shiftr b 3 =? 1).
  { destruct (int_size_ok vs && _); [|discriminate]. apply POk_inv in H as [<- _]. cbn. lia. }
  destruct (Z.shiftr b 3 =? 2).
  { destruct (int_size_ok vs && _); [|discriminate]. apply POk_inv in H as [<- _]. cbn. lia. }
  destruct (Z.shiftr b 3 =? 3).
  { destruct ((_ =? 2) || _ || _); [|discriminate]. apply POk_inv in H as [<- _]. cbn. lia. }
  destruct (Z.shiftr b 3 =? 4); [apply POk_inv in H as [<- _]; cbn; lia|].
  destruct (Z.shiftr b 3 =? 5).
  { destruct (skipn hs d1); [discriminate|]. apply POk_inv in H as [<- _]. cbn. lia. }
  destruct ((Z.shiftr b 3 =? 6) || (Z.shiftr b 3 =? 7)).
  { destruct D as [|dep]; [discriminate|].
    destruct (parse_list k dep k (skipn hs d1) vs) as [l used cnl| |] eqn:El; try discriminate.
    pose proof (list_bounded k IH dep k _ _ _ _ _ El) as Hl.
    apply POk_inv in H as [<- _]. destruct (Z.shiftr b 3 =? 6); [rewrite elem_depth_seq|rewrite elem_depth_alt]; lia. }
  destruct (Z.shiftr b 3 =? 8); apply POk_inv in H as [<- _]; cbn; lia.
Qed.

(* parsing a serialised element succeeds iff its REAL nesting is within the budget; breadth (the
   number of containers met, empty or not) plays no part: elem_depth is a maximum over children *)
Theorem sdp_nesting_exact : forall e b tail fuel depth,
  encode e = Some b -> elem_bytes_ok e = true -> (length (b ++ tail) < fuel)%nat ->
  ((elem_depth e <= depth)%nat -> parse_next fuel depth (b ++ tail) = POk e (lenZ b) b true) /\
  ((depth < elem_depth e)%nat -> parse_next fuel depth (b ++ tail) = PErr).
Proof.
  intros e b tail fuel depth He Hok Hf. split.
  - intro Hd. exact (encode_parse e fuel depth tail b He Hok Hd Hf).
  - intro Hd. destruct (parse_next fuel depth (b ++ tail)) as [e' c raw cn| |] eqn:Ep.
    + exfalso.
      pose proof (mono_all fuel depth (elem_depth e) (b ++ tail) e' c raw cn ltac:(lia) Ep) as Hbig.
      rewrite (encode_parse e fuel (elem_depth e) tail b He Hok ltac:(lia) Hf) in Hbig.
      apply POk_inv in Hbig as [<- _].
      pose proof (bounded_all fuel depth _ _ _ _ _ Ep). lia.
    + reflexivity.
    + exfalso. exact (proj1 (fuel_enough_aux fuel) depth (b ++ tail) Hf Ep).
Qed.

(* the same through the parser that carries the counter: a fresh parser (counter 0, limit maxd) *)
Corollary sdp_stateful_nesting_exact : forall maxd e b,
  encode e = Some b -> elem_bytes_ok e = true ->
  ((elem_depth e <= maxd)%nat -> sfrom_bytes false maxd b = SOk e (lenZ b) b true 0) /\
  ((maxd < elem_depth e)%nat -> sfrom_bytes false maxd b = SErr).
Proof.
  intros maxd e b He Hok. unfold sfrom_bytes. rewrite sparse_refines_parse by lia. rewrite Nat.sub_0_r.
  destruct (sdp_nesting_exact e b [] (S (length b)) maxd He Hok ltac:(rewrite app_nil_r; lia)) as [H1 H2].
  rewrite app_nil_r in H1, H2. split; intro H; [rewrite (H1 H)|rewrite (H2 H)]; reflexivity.
Qed.

(* the rejected variant (early return for an empty container after the increment) leaks one level
   per empty container: a shallow element with 33 empty sequences is rejected at limit 32 *)
Lemma leak_refuted :
  let e := ESeq (repeat (ESeq []) 33) in
  exists b, encode e = Some b /\ elem_depth e = 2%nat /\
            erase (sfrom_bytes false 32 b) = POk e (lenZ b) b true /\ sfrom_bytes true 32 b = SErr.
Proof. cbv zeta. eexists. split; [vm_compute; reflexivity|]. split; [reflexivity|]. split; vm_compute; reflexivity. Qed.
