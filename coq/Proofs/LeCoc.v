(* Proofs about Model/LeCoc.v *)
From Coq Require Import ZArith List Bool Lia.
From BV Require Import Model.LeCoc.
Import ListNotations.
Open Scope Z_scope.

Lemma key_is_dst k src dst : key_of (lecoc_keysel k) src dst = dst.
Proof. reflexivity. Qed.
