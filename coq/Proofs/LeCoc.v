(* Proofs about Model/LeCoc.v *)
From Coq Require Import ZArith List Bool Lia.
From BV Require Import Model.LeCoc.
Import ListNotations.
Open Scope Z_scope.

(* ------------------------------------------------------------------ lists *)
Lemma zlen_nonneg {A} (l : list A) : 0 <= zlen l.
Proof. unfold zlen. lia. Qed.

Lemma zlen_app {A} (l1 l2 : list A) : zlen (l1 ++ l2) = zlen l1 + zlen l2.
Proof. unfold zlen. rewrite app_length. lia. Qed.

Lemma zlen_nil {A} : zlen (@nil A) = 0.
Proof. reflexivity. Qed.

Lemma zlen_cons {A} (x : A) l : zlen (x :: l) = 1 + zlen l.
Proof. unfold zlen. cbn [length]. lia. Qed.

Lemma zlen_zero_nil {A} (l : list A) : zlen l = 0 -> l = [].
Proof. destruct l; [reflexivity|]. rewrite zlen_cons. pose proof (zlen_nonneg l). lia. Qed.

Lemma zlen_pos {A} (l : list A) : l <> [] -> 1 <= zlen l.
Proof. destruct l; [congruence|]. rewrite zlen_cons. pose proof (zlen_nonneg l). lia. Qed.

Lemma ztake_zdrop {A} n (l : list A) : ztake n l ++ zdrop n l = l.
Proof. apply firstn_skipn. Qed.

Lemma zlen_ztake_le {A} n (l : list A) : 0 <= n -> zlen (ztake n l) <= n.
Proof.
  intros Hn. unfold zlen, ztake. pose proof (firstn_le_length (Z.to_nat n) l). lia.
Qed.

Lemma ztake_nonempty {A} n (l : list A) : 1 <= n -> l <> [] -> ztake n l <> [].
Proof.
  intros Hn Hl. unfold ztake. destruct (Z.to_nat n) eqn:E; [lia|].
  destruct l; [congruence|]. cbn. discriminate.
Qed.

Definition nonempty (b : bytes) : Prop := b <> [].

Lemma concat_nonempty_nil (fs : list bytes) :
  Forall nonempty fs -> concat fs = [] -> fs = [].
Proof.
  destruct fs as [|f fs]; [reflexivity|]. intros HF Hc. inversion HF; subst.
  cbn in Hc. apply app_eq_nil in Hc. destruct Hc. contradiction.
Qed.

(* ------------------------------------------------------------------ le16 *)
Lemma un16_le16 n tl : 0 <= n < 65536 -> un16 (le16 n ++ tl) = n.
Proof.
  intros Hn. unfold le16, un16. cbn [app].
  rewrite (Z.mod_small (n / 256) 256).
  - pose proof (Z.div_mod n 256). lia.
  - split; [apply Z.div_pos; lia|]. apply Z.div_lt_upper_bound; lia.
Qed.

Lemma zlen_enc p : zlen (enc_sdu p) = 2 + zlen p.
Proof. unfold enc_sdu, le16. rewrite zlen_app. reflexivity. Qed.

(* ---------------------------------------------------------------- gather *)
Lemma gather_spec q : forall room,
  let '(p, q') := gather room q in
  p ++ concat q' = concat q /\
  (0 <= room -> zlen p <= room) /\
  (Forall nonempty q -> Forall nonempty q') /\
  (Forall nonempty q -> q <> [] -> 1 <= room -> p <> []).
Proof.
  induction q as [|d q IH]; intros room; cbn [gather].
  - repeat split; auto; cbn; try lia; try congruence.
  - destruct (room <=? 0) eqn:Er.
    + apply Z.leb_le in Er. repeat split; auto; try (cbn; lia); try (intros; lia).
    + apply Z.leb_gt in Er.
      pose proof (ztake_zdrop room d) as Hd.
      pose proof (zlen_ztake_le room d ltac:(lia)) as Hl.
      destruct (zdrop room d) as [|x rest] eqn:Edrop.
      * rewrite app_nil_r in Hd.
        specialize (IH (room - zlen (ztake room d))).
        destruct (gather (room - zlen (ztake room d)) q) as [p q''].
        destruct IH as (Hc & Hlen & Hne & Hp).
        repeat split.
        -- cbn [concat]. rewrite <- app_assoc, Hc, Hd. reflexivity.
        -- intros _. rewrite zlen_app. specialize (Hlen ltac:(lia)). lia.
        -- intros HF. inversion HF; subst. auto.
        -- intros HF _ _. inversion HF; subst. rewrite Hd.
           intros Habs. apply app_eq_nil in Habs. destruct Habs. contradiction.
      * repeat split.
        -- cbn [concat]. rewrite app_assoc, Hd. reflexivity.
        -- intros _. exact Hl.
        -- intros HF. inversion HF; subst. constructor; [unfold nonempty; discriminate|assumption].
        -- intros HF _ Hroom. inversion HF; subst. apply ztake_nonempty; assumption.
Qed.

(* ------------------------------------------------------------------ emit *)
Definition rest_bytes (o : option bytes) : bytes := match o with Some s => s | None => [] end.
Definition sdu_ok (o : option bytes) : Prop := match o with Some s => s <> [] | None => True end.

Lemma emit_spec mps s :
  1 <= mps -> s <> [] ->
  let '(packet, sdu') := emit mps s in
  packet ++ rest_bytes sdu' = s /\ packet <> [] /\ zlen packet <= mps /\ sdu_ok sdu'.
Proof.
  intros Hm Hs. unfold emit.
  pose proof (ztake_zdrop mps s) as Hd.
  pose proof (zlen_ztake_le mps s ltac:(lia)) as Hl.
  pose proof (ztake_nonempty mps s Hm Hs) as Hne.
  assert (Hsk : skipn (length (ztake mps s)) s = zdrop mps s).
  { unfold zdrop, ztake. rewrite firstn_length.
    destruct (Nat.le_ge_cases (Z.to_nat mps) (length s)) as [H|H].
    - rewrite Nat.min_l by exact H. reflexivity.
    - rewrite Nat.min_r by exact H. rewrite !skipn_all2; auto. }
  destruct (Nat.eqb (length (ztake mps s)) (length s)) eqn:E.
  - apply Nat.eqb_eq in E. cbn [rest_bytes sdu_ok]. rewrite app_nil_r.
    repeat split; auto.
    assert (Hz : length (zdrop mps s) = 0%nat).
    { rewrite <- Hd in E at 2. rewrite app_length in E. lia. }
    destruct (zdrop mps s); [|discriminate]. now rewrite app_nil_r in Hd.
  - apply Nat.eqb_neq in E. cbn [rest_bytes sdu_ok]. rewrite Hsk.
    repeat split; auto.
    intros Hz. rewrite Hz, app_nil_r in Hd. rewrite Hd in E. congruence.
Qed.

(* -------------------------------------------------------- reassembly (asm) *)
(* the reassembly part of r_on_pdu depends on (in_sdu, in_sdu_length) only *)
Definition asm_state := (option bytes * Z)%type.

Definition abuf (o : option bytes) (pdu : bytes) : bytes :=
  match o with None => pdu | Some s => s ++ pdu end.
Definition obuf (buf : bytes) : option bytes :=
  match buf with [] => None | _ => Some buf end.

Lemma abuf_obuf buf f : abuf (obuf buf) f = buf ++ f.
Proof. destruct buf; reflexivity. Qed.

Definition asm_step (a : asm_state) (pdu : bytes) : asm_state * option bytes * bool :=
  let buf := abuf (fst a) pdu in
  let len := if snd a =? 0 then (if 2 <=? zlen buf then un16 buf else 0) else snd a in
  if len =? 0 then ((Some buf, 0), None, false)
  else if zlen buf <? 2 + len then ((Some buf, len), None, false)
  else if negb (zlen buf =? 2 + len) then ((None, 0), None, true)
  else ((None, 0), Some (skipn 2 buf), false).

Lemma r_on_pdu_asm r pdu :
  let rr := r_on_pdu r pdu in
  asm_step (r_sdu r, r_len r) pdu = ((r_sdu (rr_state rr), r_len (rr_state rr)), rr_sink rr, rr_overflow rr) /\
  r_credits (rr_state rr) = fst (r_account r) /\ rr_credit rr = snd (r_account r) /\
  r_max (rr_state rr) = r_max r.
Proof.
  unfold r_on_pdu, asm_step, abuf. cbn [fst snd].
  destruct (r_account r) as [c cr]. cbv zeta.
  destruct (r_sdu r) as [s|]; cbv beta iota;
  repeat match goal with |- context [if ?c then _ else _] => destruct c end;
  cbn; repeat split; reflexivity.
Qed.

(* the receiver state after it has absorbed the bytes [buf] of an SDU whose
   payload has n bytes *)
Definition st_of (n : Z) (buf : bytes) : asm_state :=
  (obuf buf, if 2 <=? zlen buf then n else 0).

Lemma obuf_some buf : buf <> [] -> obuf buf = Some buf.
Proof. destruct buf; [congruence|reflexivity]. Qed.

Definition boundary : asm_state := (None, 0).

Definition valid_sdu (p : bytes) : Prop := 1 <= zlen p < 65536.

Lemma asm_step_partial p buf f rest :
  valid_sdu p -> f <> [] -> buf ++ f ++ rest = enc_sdu p ->
  asm_step (st_of (zlen p) buf) f =
    match rest with
    | [] => (boundary, Some p, false)
    | _ => (st_of (zlen p) (buf ++ f), None, false)
    end.
Proof.
  intros [Hp1 Hp2] Hf Heq. set (n := zlen p) in *.
  assert (Hlen : zlen buf + zlen f + zlen rest = 2 + n).
  { pose proof (f_equal zlen Heq) as H. rewrite !zlen_app, zlen_enc in H. unfold n. lia. }
  pose proof (zlen_pos f Hf) as Hfl. pose proof (zlen_nonneg buf). pose proof (zlen_nonneg rest).
  unfold asm_step, st_of. cbn [fst snd].
  rewrite abuf_obuf.
  assert (Hun : 2 <= zlen (buf ++ f) -> un16 (buf ++ f) = n).
  { intros H2. unfold enc_sdu in Heq.
    assert (Hx : exists t, buf ++ f = le16 (zlen p) ++ t).
    { rewrite app_assoc in Heq. unfold le16 in *.
      destruct (buf ++ f) as [|b0 [|b1 t]]; rewrite ?zlen_cons, ?zlen_nil in H2; try lia.
      cbn in Heq. inversion Heq. eexists. reflexivity. }
    destruct Hx as [t Ht]. rewrite Ht. apply un16_le16. fold n. lia. }
  assert (Hl : (if (if 2 <=? zlen buf then n else 0) =? 0
                then if 2 <=? zlen (buf ++ f) then un16 (buf ++ f) else 0
                else if 2 <=? zlen buf then n else 0) = if 2 <=? zlen (buf ++ f) then n else 0).
  { rewrite zlen_app in *. destruct (2 <=? zlen buf) eqn:E1.
    - apply Z.leb_le in E1. destruct (n =? 0) eqn:E2; [apply Z.eqb_eq in E2; lia|].
      destruct (2 <=? zlen buf + zlen f) eqn:E3; [reflexivity|apply Z.leb_gt in E3; lia].
    - cbn. destruct (2 <=? zlen buf + zlen f) eqn:E3; [|reflexivity].
      apply Z.leb_le in E3. apply Hun. exact E3. }
  rewrite Hl. clear Hl Hun.
  rewrite zlen_app.
  destruct (2 <=? zlen buf + zlen f) eqn:E3.
  - apply Z.leb_le in E3. destruct (n =? 0) eqn:E2; [apply Z.eqb_eq in E2; lia|].
    destruct rest as [|x rest].
    + rewrite zlen_nil in Hlen.
      destruct (zlen buf + zlen f <? 2 + n) eqn:E4; [apply Z.ltb_lt in E4; lia|].
      destruct (zlen buf + zlen f =? 2 + n) eqn:E5; [|apply Z.eqb_neq in E5; lia].
      cbn [negb]. rewrite app_nil_r in Heq. rewrite Heq.
      reflexivity.
    + rewrite zlen_cons in Hlen. pose proof (zlen_nonneg rest).
      destruct (zlen buf + zlen f <? 2 + n) eqn:E4; [|apply Z.ltb_ge in E4; lia].
      rewrite (obuf_some (buf ++ f)); [reflexivity|].
      intros Ebf; apply app_eq_nil in Ebf; destruct Ebf; contradiction.
  - cbn [Z.eqb]. apply Z.leb_gt in E3.
    destruct rest as [|x rest]; [rewrite zlen_nil in Hlen; lia|].
    rewrite (obuf_some (buf ++ f)); [reflexivity|].
    intros Ebf; apply app_eq_nil in Ebf; destruct Ebf; contradiction.
Qed.

(* ----------------------------------------------------- data in flight *)
(* [flight buf F tail P]: the receiver has absorbed [buf] of the SDU at the head of
   P; F are the frames on the wire (oldest first); [tail] is what the sender has
   still to send of the last SDU of P.  Every SDU boundary is a frame boundary. *)
Inductive flight : bytes -> list bytes -> bytes -> list bytes -> Prop :=
| fl_nil : flight [] [] [] []
| fl_sdu : forall buf fs p F tail P,
    valid_sdu p -> buf ++ concat fs = enc_sdu p -> fs <> [] -> Forall nonempty fs ->
    flight [] F tail P -> flight buf (fs ++ F) tail (p :: P)
| fl_last : forall buf fs tail p,
    valid_sdu p -> buf ++ concat fs ++ tail = enc_sdu p -> tail <> [] -> Forall nonempty fs ->
    flight buf fs tail [p].

Definition hd_len (P : list bytes) : Z := match P with p :: _ => zlen p | [] => 0 end.

Lemma st_of_nil n : st_of n [] = boundary.
Proof. reflexivity. Qed.

Lemma flight_empty buf F tail : flight buf F tail [] -> buf = [] /\ F = [] /\ tail = [].
Proof. intros H. inversion H; subst. auto. Qed.

Lemma flight_idle buf P : flight buf [] [] P -> buf = [] /\ P = [].
Proof.
  intros H. inversion H; subst; auto.
  - match goal with H : _ ++ _ = [] |- _ => apply app_eq_nil in H; destruct H; contradiction end.
  - contradiction.
Qed.

Lemma enc_nonempty p : enc_sdu p <> [].
Proof. unfold enc_sdu, le16. discriminate. Qed.

Lemma flight_deliver buf f F tail P :
  flight buf (f :: F) tail P ->
  (asm_step (st_of (hd_len P) buf) f = (st_of (hd_len P) (buf ++ f), None, false) /\
   flight (buf ++ f) F tail P) \/
  (exists p P', P = p :: P' /\ asm_step (st_of (hd_len P) buf) f = (boundary, Some p, false) /\
                flight [] F tail P').
Proof.
  intros H. inversion H; subst.
  - (* fl_sdu *)
    destruct fs as [|f' fs']; [congruence|].
    match goal with H : (_ :: _) ++ _ = _ :: _ |- _ => cbn in H; inversion H; subst; clear H end.
    match goal with H : Forall nonempty (_ :: _) |- _ => inversion H; subst; clear H end.
    cbn [concat] in *. cbn [hd_len].
    pose proof (asm_step_partial p buf f (concat fs') ltac:(assumption) ltac:(assumption) ltac:(assumption)) as Hs.
    destruct fs' as [|g fs''].
    + right. exists p, P0. cbn in Hs. repeat split; auto.
    + left. destruct (concat (g :: fs'')) eqn:Ec.
      { apply concat_nonempty_nil in Ec; [discriminate|assumption]. }
      split; [exact Hs|].
      rewrite <- Ec in *. apply fl_sdu; auto.
      * rewrite <- app_assoc. assumption.
      * discriminate.
  - (* fl_last *)
    left. match goal with H : Forall nonempty (_ :: _) |- _ => inversion H; subst; clear H end.
    cbn [concat hd_len] in *.
    match goal with H : _ ++ (_ ++ _) ++ _ = enc_sdu _ |- _ => rewrite <- app_assoc in H; rename H into Heq end.
    pose proof (asm_step_partial p buf f (concat F ++ tail) ltac:(assumption) ltac:(assumption) Heq) as Hs.
    destruct (concat F ++ tail) eqn:Ec.
    { apply app_eq_nil in Ec. destruct Ec. contradiction. }
    split; [exact Hs|]. rewrite <- Ec in *.
    apply fl_last; auto. rewrite <- app_assoc. assumption.
Qed.

Lemma flight_emit buf F t P : flight buf F t P ->
  forall x y, t = x ++ y -> x <> [] -> flight buf (F ++ [x]) y P.
Proof.
  induction 1; intros x y Ht Hx.
  - symmetry in Ht. apply app_eq_nil in Ht. destruct Ht. contradiction.
  - rewrite <- app_assoc. apply fl_sdu; auto.
  - subst tail. destruct y as [|y0 y'].
    + rewrite app_nil_r in *.
      pose proof (fl_sdu buf (fs ++ [x]) p [] [] []) as Hk. rewrite app_nil_r in Hk.
      apply Hk; auto.
      * rewrite concat_app. cbn. rewrite app_nil_r. assumption.
      * intros Hn. apply app_eq_nil in Hn. destruct Hn. discriminate.
      * apply Forall_app. split; [assumption|]. constructor; [exact Hx|constructor].
      * constructor.
    + apply fl_last; auto.
      * rewrite concat_app. cbn [concat]. rewrite app_nil_r, <- !app_assoc. assumption.
      * discriminate.
      * apply Forall_app. split; [assumption|]. constructor; [exact Hx|constructor].
Qed.

Lemma flight_new buf F t P : flight buf F t P ->
  forall p, t = [] -> valid_sdu p -> flight buf F (enc_sdu p) (P ++ [p]).
Proof.
  induction 1; intros q Ht Hq.
  - cbn [app]. apply fl_last; auto. apply enc_nonempty.
  - cbn [app]. apply fl_sdu; auto.
  - contradiction.
Qed.

Lemma hd_len_app P Q buf F t : flight buf F t P ->
  st_of (hd_len (P ++ Q)) buf = st_of (hd_len P) buf.
Proof.
  intros H. destruct P; [|reflexivity].
  apply flight_empty in H. destruct H as (-> & _). reflexivity.
Qed.

(* ------------------------------------------------------- process_output *)
Lemma po_idle n mtu mps dr :
  po n mtu mps [] None dr = ([], [], None, match n with O => dr | S _ => true end).
Proof. destruct n; reflexivity. Qed.

Definition frame_ok (mps : Z) (f : bytes) : Prop := 1 <= zlen f <= mps.
Definition sdu_fits (mtu : Z) (p : bytes) : Prop := valid_sdu p /\ zlen p <= mtu.

Lemma po_spec n : forall mtu mps q sdu dr buf F P,
  1 <= mps -> 1 <= mtu < 65536 -> Forall nonempty q -> sdu_ok sdu ->
  flight buf F (rest_bytes sdu) P ->
  let '(fs, q', sdu', dr') := po n mtu mps q sdu dr in
  exists P',
    flight buf (F ++ fs) (rest_bytes sdu') (P ++ P') /\
    concat P' ++ concat q' = concat q /\
    Forall (sdu_fits mtu) P' /\
    Forall nonempty q' /\ sdu_ok sdu' /\
    Forall (frame_ok mps) fs /\
    (length fs <= n)%nat /\
    ((length fs < n)%nat -> q' = [] /\ sdu' = None /\ dr' = true) /\
    (dr = false -> dr' = true -> q' = [] /\ sdu' = None).
Proof.
  induction n as [|n IH]; intros mtu mps q sdu dr buf F P Hmps Hmtu Hq Hsdu Hfl.
  - cbn [po]. exists []. rewrite !app_nil_r. repeat split; auto; try (cbn; lia); try congruence.
  - cbn [po]. destruct sdu as [s|].
    + cbn [sdu_ok rest_bytes] in *.
      pose proof (emit_spec mps s Hmps Hsdu) as He.
      destruct (emit mps s) as [packet sdu1]. destruct He as (Hps & Hpne & Hpl & Hok1).
      pose proof (flight_emit _ _ _ _ Hfl packet (rest_bytes sdu1) (eq_sym Hps) Hpne) as Hfl1.
      specialize (IH mtu mps q sdu1 dr buf (F ++ [packet]) P Hmps Hmtu Hq Hok1 Hfl1).
      destruct (po n mtu mps q sdu1 dr) as [[[fs q2] sdu2] dr2].
      destruct IH as (P' & H1 & H2 & H3 & H4 & H5 & H6 & H7 & H8 & H9).
      exists P'. rewrite <- app_assoc in H1. cbn [app] in H1.
      repeat split; auto;
        try (constructor; [split; [apply zlen_pos; assumption|assumption]|assumption]);
        try (cbn [length]; lia);
        try (destruct H8 as (? & ? & ?); [cbn [length] in *; lia|]; assumption);
        try (destruct H9 as (? & ?); assumption).
    + destruct q as [|d q0].
      * exists []. rewrite !app_nil_r. repeat split; auto; cbn; try lia; try constructor.
      * cbn [rest_bytes] in Hfl.
        pose proof (gather_spec (d :: q0) mtu) as Hg.
        destruct (gather mtu (d :: q0)) as [payload q1].
        destruct Hg as (Hc & Hl & Hne & Hp).
        specialize (Hl ltac:(lia)). specialize (Hne Hq).
        specialize (Hp Hq ltac:(discriminate) ltac:(lia)).
        assert (Hv : valid_sdu payload).
        { split; [apply zlen_pos; assumption|lia]. }
        pose proof (flight_new _ _ _ _ Hfl payload eq_refl Hv) as Hfl0.
        pose proof (emit_spec mps (enc_sdu payload) Hmps (enc_nonempty payload)) as He.
        destruct (emit mps (enc_sdu payload)) as [packet sdu1].
        destruct He as (Hps & Hpne & Hpl & Hok1).
        pose proof (flight_emit _ _ _ _ Hfl0 packet (rest_bytes sdu1) (eq_sym Hps) Hpne) as Hfl1.
        specialize (IH mtu mps q1 sdu1 dr buf (F ++ [packet]) (P ++ [payload]) Hmps Hmtu Hne Hok1 Hfl1).
        destruct (po n mtu mps q1 sdu1 dr) as [[[fs q2] sdu2] dr2].
        destruct IH as (P' & H1 & H2 & H3 & H4 & H5 & H6 & H7 & H8 & H9).
        exists (payload :: P'). rewrite <- !app_assoc in H1. cbn [app] in H1.
        repeat split; auto;
          try (cbn [concat]; rewrite <- app_assoc, H2; exact Hc);
          try (constructor; [split; assumption|assumption]);
          try (constructor; [split; [apply zlen_pos; assumption|assumption]|assumption]);
          try (cbn [length]; lia);
          try (destruct H8 as (? & ? & ?); [cbn [length] in *; lia|]; assumption);
          try (destruct H9 as (? & ?); assumption).
Qed.

Lemma po_false n : forall mtu mps q sdu,
  let '(fs, q', sdu', dr') := po n mtu mps q sdu false in
  dr' = true -> q' = [] /\ sdu' = None.
Proof.
  induction n as [|n IH]; intros mtu mps q sdu; cbn [po].
  - discriminate.
  - destruct sdu as [s|].
    + destruct (emit mps s) as [packet sdu1]. specialize (IH mtu mps q sdu1).
      destruct (po n mtu mps q sdu1 false) as [[[fs q2] sdu2] dr2]. exact IH.
    + destruct q as [|d q0]; [auto|].
      destruct (gather mtu (d :: q0)) as [payload q1].
      destruct (emit mps (enc_sdu payload)) as [packet sdu1]. specialize (IH mtu mps q1 sdu1).
      destruct (po n mtu mps q1 sdu1 false) as [[[fs q2] sdu2] dr2]. exact IH.
Qed.

Lemma po_drained n mtu mps q sdu dr :
  (dr = true -> q = [] /\ sdu = None) ->
  let '(fs, q', sdu', dr') := po n mtu mps q sdu dr in
  dr' = true -> q' = [] /\ sdu' = None.
Proof.
  intros Hdr. destruct dr.
  - destruct (Hdr eq_refl) as (-> & ->). rewrite po_idle. auto.
  - apply po_false.
Qed.

(* ------------------------------------------- one direction of one channel *)
(* sender half at one end, receiver half at the other, K-frames in flight one
   way, credit packets in flight the other way; W / S are ghost histories: all
   bytes written so far, all bytes handed to the sink so far. *)
Record view := mkV {
  v_s : sndr; v_r : rcvr; v_F : list bytes; v_K : list Z; v_W : bytes; v_S : bytes
}.

Inductive vlabel := VWrite (d : bytes) | VFrame | VCredit.

Definition opt_list {A} (o : option A) : list A := match o with Some x => [x] | None => [] end.
Definition opt_bytes (o : option bytes) : bytes := match o with Some x => x | None => [] end.

Definition v_step (v : view) (l : vlabel) : view :=
  match l with
  | VWrite d =>
      let '(s, fs) := s_write (v_s v) d in
      mkV s (v_r v) (v_F v ++ fs) (v_K v) (v_W v ++ d) (v_S v)
  | VFrame =>
      match v_F v with
      | [] => v
      | f :: F =>
          let rr := r_on_pdu (v_r v) f in
          mkV (v_s v) (rr_state rr) F (v_K v ++ opt_list (rr_credit rr)) (v_W v)
              (v_S v ++ opt_bytes (rr_sink rr))
      end
  | VCredit =>
      match v_K v with
      | [] => v
      | n :: K =>
          let '(s, fs) := s_on_credits (v_s v) n in
          mkV s (v_r v) (v_F v ++ fs) K (v_W v) (v_S v)
      end
  end.

Definition vlabel_ok (l : vlabel) : Prop := match l with VWrite d => d <> [] | _ => True end.

Fixpoint zsum (l : list Z) : Z := match l with [] => 0 | x :: l' => x + zsum l' end.

Lemma zsum_app a b : zsum (a ++ b) = zsum a + zsum b.
Proof. induction a; cbn [app zsum]; lia. Qed.

Lemma zsum_nonneg l : Forall (fun n => 1 <= n) l -> 0 <= zsum l.
Proof. induction 1; cbn [zsum]; lia. Qed.

Record vinv (v : view) : Prop := {
  vi_mps : 1 <= s_mps (v_s v);
  vi_mtu : 1 <= s_mtu (v_s v) < 65536;
  vi_max : 1 <= r_max (v_r v);
  (* the credit ledger *)
  vi_ledger : s_credits (v_s v) + zlen (v_F v) + zsum (v_K v) = r_credits (v_r v);
  vi_cred : 0 <= s_credits (v_s v);
  vi_K : Forall (fun n => 1 <= n) (v_K v);
  vi_rc : r_max (v_r v) / 2 < r_credits (v_r v) <= r_max (v_r v);
  (* work conservation and the meaning of drained *)
  vi_work : 0 < s_credits (v_s v) ->
            s_queue (v_s v) = [] /\ s_sdu (v_s v) = None /\ s_drained (v_s v) = true;
  vi_drained : s_drained (v_s v) = true -> s_queue (v_s v) = [] /\ s_sdu (v_s v) = None;
  vi_queue : Forall nonempty (s_queue (v_s v));
  vi_sdu : sdu_ok (s_sdu (v_s v));
  vi_frames : Forall (frame_ok (s_mps (v_s v))) (v_F v);
  (* the byte stream *)
  vi_flight : exists buf P,
      (r_sdu (v_r v), r_len (v_r v)) = st_of (hd_len P) buf /\
      flight buf (v_F v) (rest_bytes (s_sdu (v_s v))) P /\
      Forall (sdu_fits (s_mtu (v_s v))) P /\
      v_W v = v_S v ++ concat P ++ concat (s_queue (v_s v))
}.

Definition v_init (credits mtu mps : Z) : view :=
  mkV (snd_init credits mtu mps) (rcv_init credits) [] [] [] [].

Lemma half_lt m : 1 <= m -> m / 2 < m.
Proof. intros. apply Z.div_lt; lia. Qed.

Lemma vinv_init credits mtu mps :
  1 <= credits -> 1 <= mtu < 65536 -> 1 <= mps -> vinv (v_init credits mtu mps).
Proof.
  intros Hc Hm Hp. constructor; cbn; auto; try lia.
  - split; [apply half_lt; lia|lia].
  - exists [], []. repeat split; auto; constructor.
Qed.

(* what process_output does to a view: used for write and for on_credits *)
Lemma vinv_po v c q dr fs s' W' K' :
  vinv v ->
  0 <= c -> Forall nonempty q ->
  process_output (mkSnd c (s_mtu (v_s v)) (s_mps (v_s v)) q (s_sdu (v_s v)) dr) = (s', fs) ->
  c + zlen (v_F v) + zsum K' = r_credits (v_r v) ->
  Forall (fun n => 1 <= n) K' ->
  (dr = true -> q = [] /\ s_sdu (v_s v) = None) ->
  (forall P, v_W v = v_S v ++ concat P ++ concat (s_queue (v_s v)) ->
             W' = v_S v ++ concat P ++ concat q) ->
  vinv (mkV s' (v_r v) (v_F v ++ fs) K' W' (v_S v)).
Proof.
  intros Hi Hc Hq Hpo Hled HK Hdr HW.
  destruct Hi as [Imps Imtu Imax Iled Icred IK Irc Iwork Idr Iq Isdu Ifr Ifl].
  destruct Ifl as (buf & P & Hst & Hfl & HP & HWS).
  unfold process_output in Hpo. cbn [s_credits s_mtu s_mps s_queue s_sdu s_drained] in Hpo.
  pose proof (po_spec (Z.to_nat c) (s_mtu (v_s v)) (s_mps (v_s v)) q (s_sdu (v_s v)) dr buf (v_F v) P
                Imps Imtu Hq Isdu Hfl) as Hs.
  pose proof (po_drained (Z.to_nat c) (s_mtu (v_s v)) (s_mps (v_s v)) q (s_sdu (v_s v)) dr Hdr) as Hd.
  destruct (po (Z.to_nat c) (s_mtu (v_s v)) (s_mps (v_s v)) q (s_sdu (v_s v)) dr) as [[[fs0 q'] sdu'] dr'].
  inversion Hpo; subst s' fs0. clear Hpo.
  destruct Hs as (P' & H1 & H2 & H3 & H4 & H5 & H6 & H7 & H8 & H9).
  assert (Hfsl : zlen fs <= c) by (unfold zlen; lia).
  constructor; cbn [v_s v_r v_F v_K v_W v_S s_credits s_mtu s_mps s_queue s_sdu s_drained]; auto.
  - rewrite zlen_app. lia.
  - lia.
  - intros Hpos. apply H8. unfold zlen in *. lia.
  - apply Forall_app. split; assumption.
  - exists buf, (P ++ P'). repeat split.
    + rewrite (hd_len_app P P' buf _ _ Hfl). exact Hst.
    + exact H1.
    + apply Forall_app. split; assumption.
    + rewrite (HW P HWS). rewrite concat_app, <- !app_assoc. rewrite H2. reflexivity.
Qed.

Lemma vinv_step v l : vinv v -> vlabel_ok l -> vinv (v_step v l).
Proof.
  intros Hi Hl. destruct l as [d| |]; cbn [v_step].
  - (* write *)
    unfold s_write.
    destruct (process_output _) as [s' fs] eqn:Hpo.
    eapply (vinv_po v (s_credits (v_s v)) (s_queue (v_s v) ++ [d]) false fs s' (v_W v ++ d) (v_K v) Hi);
      try exact Hpo.
    + apply (vi_cred v Hi).
    + apply Forall_app. split; [apply (vi_queue v Hi)|]. constructor; [exact Hl|constructor].
    + apply (vi_ledger v Hi).
    + apply (vi_K v Hi).
    + discriminate.
    + intros P HW. rewrite HW, concat_app. cbn [concat]. rewrite app_nil_r, <- !app_assoc. reflexivity.
  - (* a K-frame reaches the receiver *)
    destruct (v_F v) as [|f F] eqn:EF; [exact Hi|].
    destruct Hi as [Imps Imtu Imax Iled Icred IK Irc Iwork Idr Iq Isdu Ifr Ifl].
    rewrite EF in *.
    destruct Ifl as (buf & P & Hst & Hfl & HP & HWS).
    pose proof (r_on_pdu_asm (v_r v) f) as Ha. cbv zeta in Ha.
    destruct Ha as (Hasm & Hcr & Hcp & Hmax).
    rewrite zlen_cons in Iled. pose proof (zlen_nonneg F) as HF0. pose proof (zsum_nonneg _ IK) as HK0.
    assert (Hacc : r_account (v_r v) =
                   if r_credits (v_r v) - 1 <=? r_max (v_r v) / 2
                   then (r_max (v_r v), Some (r_max (v_r v) - (r_credits (v_r v) - 1)))
                   else (r_credits (v_r v) - 1, None)).
    { unfold r_account, r_thresh. destruct (r_credits (v_r v) =? 0) eqn:E; [apply Z.eqb_eq in E; lia|reflexivity]. }
    rewrite Hacc in Hcr, Hcp.
    inversion Ifr as [|? ? Hf0 Ifr']; subst.
    rewrite Hst in Hasm.
    constructor; cbn [v_s v_r v_F v_K v_W v_S]; auto.
    + lia.
    + (* ledger *)
      rewrite Hcr, Hcp, zsum_app.
      destruct (r_credits (v_r v) - 1 <=? r_max (v_r v) / 2); cbn [fst snd opt_list zsum]; lia.
    + rewrite Hcp. apply Forall_app. split; [assumption|].
      destruct (r_credits (v_r v) - 1 <=? r_max (v_r v) / 2) eqn:E; cbn [snd opt_list]; [|constructor].
      apply Z.leb_le in E. constructor; [|constructor]. pose proof (half_lt _ Imax). lia.
    + rewrite Hcr, Hmax.
      destruct (r_credits (v_r v) - 1 <=? r_max (v_r v) / 2) eqn:E; cbn [fst].
      * pose proof (half_lt _ Imax). lia.
      * apply Z.leb_gt in E. lia.
    + (* stream *)
      destruct (flight_deliver _ _ _ _ _ Hfl) as [(Hs & Hfl') | (p & P' & -> & Hs & Hfl')].
      * rewrite Hs in Hasm. inversion Hasm as [[Hb Hl0 Hk Ho]].
        exists (buf ++ f), P. cbn [opt_bytes]. rewrite app_nil_r.
        repeat split; auto.
      * rewrite Hs in Hasm. inversion Hasm as [[Hb Hl0 Hk Ho]].
        exists [], P'. cbn [opt_bytes].
        repeat split; auto.
        -- inversion HP; assumption.
        -- rewrite HWS. cbn [concat]. rewrite <- !app_assoc. reflexivity.
  - (* a credit packet reaches the sender *)
    destruct (v_K v) as [|n K] eqn:EK; [exact Hi|].
    unfold s_on_credits.
    destruct (process_output _) as [s' fs] eqn:Hpo.
    pose proof (vi_K v Hi) as HK. rewrite EK in HK. inversion HK as [|? ? Hn HK']; subst.
    pose proof (vi_ledger v Hi) as Hled. rewrite EK in Hled. cbn [zsum] in Hled.
    eapply (vinv_po v (s_credits (v_s v) + n) (s_queue (v_s v)) (s_drained (v_s v)) fs s' (v_W v) K Hi);
      try exact Hpo; auto.
    + pose proof (vi_cred v Hi). lia.
    + apply (vi_queue v Hi).
    + lia.
    + apply (vi_drained v Hi).
Qed.

(* ------------------------------------------------------------- reachability *)
Fixpoint v_run (v : view) (ls : list vlabel) : view :=
  match ls with [] => v | l :: ls' => v_run (v_step v l) ls' end.

Lemma vinv_run ls : forall v, vinv v -> Forall vlabel_ok ls -> vinv (v_run v ls).
Proof.
  induction ls as [|l ls IH]; intros v Hi Hok; cbn [v_run]; [exact Hi|].
  inversion Hok; subst. apply IH; [apply vinv_step; assumption|assumption].
Qed.

(* quiescent: nothing in flight either way *)
Definition v_quiet (v : view) : Prop := v_F v = [] /\ v_K v = [].
(* final: everything written has reached the sink and drain() has completed *)
Definition v_final (v : view) : Prop :=
  v_W v = v_S v /\ s_queue (v_s v) = [] /\ s_sdu (v_s v) = None /\ s_drained (v_s v) = true.

Lemma vinv_prefix v : vinv v -> exists X, v_W v = v_S v ++ X.
Proof.
  intros Hi. destruct (vi_flight v Hi) as (buf & P & _ & _ & _ & HW).
  eexists. exact HW.
Qed.

Lemma vinv_quiet_final v : vinv v -> v_quiet v -> v_final v.
Proof.
  intros Hi (HF & HK).
  pose proof (vi_ledger v Hi) as Hled. rewrite HF, HK in Hled. cbn [zsum] in Hled. rewrite zlen_nil in Hled.
  pose proof (vi_rc v Hi) as Hrc. pose proof (vi_max v Hi) as Hmax.
  assert (Hpos : 0 < s_credits (v_s v)).
  { assert (0 <= r_max (v_r v) / 2) by (apply Z.div_pos; lia). lia. }
  destruct (vi_work v Hi Hpos) as (Hq & Hs & Hd).
  destruct (vi_flight v Hi) as (buf & P & _ & Hfl & _ & HW).
  rewrite HF, Hs in Hfl. cbn [rest_bytes] in Hfl.
  destruct (flight_idle _ _ Hfl) as (_ & ->).
  rewrite Hq in HW. cbn [concat] in HW. rewrite app_nil_r in HW.
  repeat split; auto.
Qed.

(* ---- progress: with no further writes every delivery strictly decreases
   [measure], and as long as the state is not final a delivery is enabled. *)
Definition pending_bytes (s : sndr) : Z :=
  zlen (rest_bytes (s_sdu s)) + 3 * zlen (concat (s_queue s)).
Definition measure (v : view) : Z :=
  3 * pending_bytes (v_s v) + 2 * zlen (v_F v) + zlen (v_K v).

Lemma po_measure n : forall mtu mps q sdu dr,
  1 <= mps -> 1 <= mtu -> Forall nonempty q -> sdu_ok sdu ->
  let '(fs, q', sdu', dr') := po n mtu mps q sdu dr in
  zlen (rest_bytes sdu') + 3 * zlen (concat q') + zlen fs <= zlen (rest_bytes sdu) + 3 * zlen (concat q).
Proof.
  induction n as [|n IH]; intros mtu mps q sdu dr Hmps Hmtu Hq Hsdu; cbn [po].
  - rewrite zlen_nil. lia.
  - destruct sdu as [s|].
    + cbn [sdu_ok rest_bytes] in *.
      pose proof (emit_spec mps s Hmps Hsdu) as He.
      destruct (emit mps s) as [packet sdu1]. destruct He as (Hps & Hpne & Hpl & Hok1).
      specialize (IH mtu mps q sdu1 dr Hmps Hmtu Hq Hok1).
      destruct (po n mtu mps q sdu1 dr) as [[[fs q2] sdu2] dr2].
      rewrite zlen_cons. rewrite <- Hps, zlen_app. pose proof (zlen_pos _ Hpne). lia.
    + destruct q as [|d q0].
      * cbn. lia.
      * pose proof (gather_spec (d :: q0) mtu) as Hg.
        destruct (gather mtu (d :: q0)) as [payload q1].
        destruct Hg as (Hc & Hl & Hne & Hp).
        specialize (Hne Hq). specialize (Hp Hq ltac:(discriminate) ltac:(lia)).
        pose proof (emit_spec mps (enc_sdu payload) Hmps (enc_nonempty payload)) as He.
        destruct (emit mps (enc_sdu payload)) as [packet sdu1].
        destruct He as (Hps & Hpne & Hpl & Hok1).
        specialize (IH mtu mps q1 sdu1 dr Hmps Hmtu Hne Hok1).
        destruct (po n mtu mps q1 sdu1 dr) as [[[fs q2] sdu2] dr2].
        rewrite zlen_cons. cbn [rest_bytes]. rewrite zlen_nil.
        rewrite <- Hc, zlen_app.
        pose proof (f_equal zlen Hps) as Hz. rewrite zlen_app, zlen_enc in Hz.
        pose proof (zlen_pos _ Hpne). pose proof (zlen_pos _ Hp). lia.
Qed.

Definition enabled (v : view) (l : vlabel) : Prop :=
  match l with VFrame => v_F v <> [] | VCredit => v_K v <> [] | VWrite _ => False end.

Lemma measure_nonneg v : vinv v -> 0 <= measure v.
Proof.
  intros _. unfold measure, pending_bytes.
  pose proof (zlen_nonneg (rest_bytes (s_sdu (v_s v)))). pose proof (zlen_nonneg (concat (s_queue (v_s v)))).
  pose proof (zlen_nonneg (v_F v)). pose proof (zlen_nonneg (v_K v)). lia.
Qed.

Lemma measure_decreases v l : vinv v -> enabled v l -> measure (v_step v l) < measure v.
Proof.
  intros Hi He. destruct l as [d| |]; cbn [enabled] in He; [contradiction| |]; cbn [v_step].
  - destruct (v_F v) as [|f F] eqn:EF; [congruence|].
    unfold measure. cbn [v_s v_F v_K]. rewrite EF, zlen_app, zlen_cons.
    assert (zlen (opt_list (rr_credit (r_on_pdu (v_r v) f))) <= 1).
    { destruct (rr_credit _); cbn; lia. }
    lia.
  - destruct (v_K v) as [|n K] eqn:EK; [congruence|].
    unfold s_on_credits, process_output.
    cbn [s_credits s_mtu s_mps s_queue s_sdu s_drained].
    pose proof (po_measure (Z.to_nat (s_credits (v_s v) + n)) (s_mtu (v_s v)) (s_mps (v_s v))
                  (s_queue (v_s v)) (s_sdu (v_s v)) (s_drained (v_s v))
                  (vi_mps v Hi) (proj1 (vi_mtu v Hi)) (vi_queue v Hi) (vi_sdu v Hi)) as Hm.
    destruct (po _ _ _ _ _ _) as [[[fs q'] sdu'] dr'].
    unfold measure, pending_bytes. cbn [v_s v_F v_K s_queue s_sdu]. rewrite EK, zlen_app, zlen_cons.
    pose proof (zlen_nonneg fs). lia.
Qed.

Fixpoint all_enabled (v : view) (ls : list vlabel) : Prop :=
  match ls with [] => True | l :: ls' => enabled v l /\ all_enabled (v_step v l) ls' end.

Lemma enabled_ok v l : enabled v l -> vlabel_ok l.
Proof. destruct l; cbn; auto; contradiction. Qed.

Lemma deliveries_bounded ls : forall v,
  vinv v -> all_enabled v ls -> zlen ls <= measure v.
Proof.
  induction ls as [|l ls IH]; intros v Hi Hen.
  - rewrite zlen_nil. apply measure_nonneg. exact Hi.
  - destruct Hen as (He & Hen). rewrite zlen_cons.
    pose proof (measure_decreases v l Hi He).
    specialize (IH (v_step v l) (vinv_step v l Hi (enabled_ok v l He)) Hen). lia.
Qed.

Lemma not_final_enabled v : vinv v -> ~ v_final v -> enabled v VFrame \/ enabled v VCredit.
Proof.
  intros Hi Hnf. cbn [enabled].
  destruct (v_F v) eqn:EF; [|left; discriminate].
  destruct (v_K v) eqn:EK; [|right; discriminate].
  exfalso. apply Hnf. apply vinv_quiet_final; [exact Hi|split; assumption].
Qed.

(* some delivery schedule completes the transfer; by [deliveries_bounded] every
   delivery schedule is finite, so every maximal one ends in a final state *)
Lemma completes v : vinv v -> exists ls, all_enabled v ls /\ v_quiet (v_run v ls).
Proof.
  intros Hi. remember (Z.to_nat (measure v)) as k eqn:Hk.
  revert v Hi Hk. induction k as [k IH] using lt_wf_ind. intros v Hi Hk.
  destruct (v_F v) as [|f F] eqn:EF.
  - destruct (v_K v) as [|n K] eqn:EK.
    + exists []. split; [exact I|]. split; assumption.
    + assert (He : enabled v VCredit) by (cbn; congruence).
      pose proof (measure_decreases v _ Hi He) as Hd. pose proof (measure_nonneg v Hi) as Hm0.
      pose proof (measure_nonneg _ (vinv_step v VCredit Hi I)) as H0.
      destruct (IH (Z.to_nat (measure (v_step v VCredit))) ltac:(lia) (v_step v VCredit)
                  (vinv_step v VCredit Hi I) eq_refl) as (ls & Hen & Hq).
      exists (VCredit :: ls). split; [split; assumption|exact Hq].
  - assert (He : enabled v VFrame) by (cbn; congruence).
    pose proof (measure_decreases v _ Hi He) as Hd. pose proof (measure_nonneg v Hi) as Hm0.
    pose proof (measure_nonneg _ (vinv_step v VFrame Hi I)) as H0.
    destruct (IH (Z.to_nat (measure (v_step v VFrame))) ltac:(lia) (v_step v VFrame)
                (vinv_step v VFrame Hi I) eq_refl) as (ls & Hen & Hq).
    exists (VFrame :: ls). split; [split; assumption|exact Hq].
Qed.

(* =================================================== the two-party system *)
Definition frame_of (p : pkt) : list bytes := match p with PFrame _ d => [d] | PCredit _ _ => [] end.
Definition credit_of (p : pkt) : list Z := match p with PCredit _ n => [n] | PFrame _ _ => [] end.
Definition frames_of (w : list pkt) : list bytes := flat_map frame_of w.
Definition credits_of (w : list pkt) : list Z := flat_map credit_of w.

Lemma frames_of_app a b : frames_of (a ++ b) = frames_of a ++ frames_of b.
Proof. apply flat_map_app. Qed.
Lemma credits_of_app a b : credits_of (a ++ b) = credits_of a ++ credits_of b.
Proof. apply flat_map_app. Qed.
Lemma frames_of_frames c fs : frames_of (map (PFrame c) fs) = fs.
Proof. induction fs; cbn; [reflexivity|]. f_equal. exact IHfs. Qed.
Lemma credits_of_frames c fs : credits_of (map (PFrame c) fs) = [].
Proof. induction fs; cbn; auto. Qed.
Lemma frames_of_credit c o : frames_of (match o with Some n => [PCredit c n] | None => [] end) = [].
Proof. destruct o; reflexivity. Qed.
Lemma credits_of_credit c o : credits_of (match o with Some n => [PCredit c n] | None => [] end) = opt_list o.
Proof. destruct o; reflexivity. Qed.

(* what an endpoint puts on the wire names the channel the way the peer's
   tables expect: frames carry our destination CID, credits our source CID *)
Definition addressed (e : ep) (p : pkt) : Prop :=
  match p with PFrame cid _ => cid = e_dst e | PCredit cid _ => cid = e_src e end.

Record wired (st : lsys) : Prop := {
  w_ab : e_dst (l_a st) = e_src (l_b st);
  w_ba : e_dst (l_b st) = e_src (l_a st);
  w_ka : e_key (l_a st) = e_dst (l_a st);
  w_kb : e_key (l_b st) = e_dst (l_b st);
  w_wab : Forall (addressed (l_a st)) (l_ab st);
  w_wba : Forall (addressed (l_b st)) (l_ba st)
}.

(* ghost histories: bytes written at A / B, bytes sunk at A / B *)
Record ghost := mkG { g_wa : bytes; g_wb : bytes; g_sa : bytes; g_sb : bytes }.

Definition view_ab (st : lsys) (g : ghost) : view :=
  mkV (e_snd (l_a st)) (e_rcv (l_b st)) (frames_of (l_ab st)) (credits_of (l_ba st)) (g_wa g) (g_sb g).
Definition view_ba (st : lsys) (g : ghost) : view :=
  mkV (e_snd (l_b st)) (e_rcv (l_a st)) (frames_of (l_ba st)) (credits_of (l_ab st)) (g_wb g) (g_sa g).

Definition g_step (g : ghost) (l : label) (r : lres) : ghost :=
  mkG (g_wa g ++ match l with WriteA d => d | _ => [] end)
      (g_wb g ++ match l with WriteB d => d | _ => [] end)
      (g_sa g ++ opt_bytes (lr_sink_a r))
      (g_sb g ++ opt_bytes (lr_sink_b r)).

Definition label_ok (l : label) : Prop :=
  match l with WriteA d | WriteB d => d <> [] | _ => True end.

Record linv (st : lsys) (g : ghost) : Prop := {
  li_wired : wired st;
  li_ab : vinv (view_ab st g);
  li_ba : vinv (view_ba st g)
}.

Lemma addressed_frames e fs : Forall (addressed e) (frames_out e fs).
Proof. unfold frames_out. induction fs; cbn; constructor; auto. reflexivity. Qed.

Lemma view_eq v s r F K W S :
  v_s v = s -> v_r v = r -> v_F v = F -> v_K v = K -> v_W v = W -> v_S v = S -> v = mkV s r F K W S.
Proof. destruct v; cbn; intros; subst; reflexivity. Qed.

Ltac lists_simpl :=
  rewrite ?frames_of_app, ?credits_of_app, ?frames_of_frames, ?credits_of_frames,
          ?frames_of_credit, ?credits_of_credit, ?app_nil_r.

Lemma l_step_inv st g l :
  linv st g -> label_ok l ->
  let r := l_step st l in
  linv (lr_state r) (g_step g l r) /\ lr_dropped r = false /\ lr_overflow r = false.
Proof.
  intros [Hw Hab Hba] Hl. destruct Hw as [Wab Wba Wka Wkb Wwab Wwba].
  destruct l as [d|d| |]; cbn [l_step].
  - (* WriteA *)
    cbn [ep_step]. destruct (s_write (e_snd (l_a st)) d) as [s fs] eqn:Es.
    cbn [er_state er_out lr_state lr_dropped lr_overflow]. split; [|auto].
    constructor.
    + constructor; cbn [l_a l_b l_ab l_ba with_snd e_src e_dst e_key]; auto.
      apply Forall_app. split; [assumption|]. apply (addressed_frames (l_a st)).
    + pose proof (vinv_step (view_ab st g) (VWrite d) Hab Hl) as Hs.
      cbn [v_step view_ab v_s v_r v_F v_K v_W v_S] in Hs. rewrite Es in Hs.
      unfold view_ab, g_step. cbn [l_a l_b l_ab l_ba with_snd e_snd e_rcv g_wa g_sb lr_sink_b opt_bytes].
      unfold frames_out. lists_simpl. exact Hs.
    + unfold view_ba, g_step. cbn [l_a l_b l_ab l_ba with_snd e_snd e_rcv g_wb g_sa lr_sink_a opt_bytes].
      unfold frames_out. lists_simpl. exact Hba.
  - (* WriteB *)
    cbn [ep_step]. destruct (s_write (e_snd (l_b st)) d) as [s fs] eqn:Es.
    cbn [er_state er_out lr_state lr_dropped lr_overflow]. split; [|auto].
    constructor.
    + constructor; cbn [l_a l_b l_ab l_ba with_snd e_src e_dst e_key]; auto.
      apply Forall_app. split; [assumption|]. apply (addressed_frames (l_b st)).
    + unfold view_ab, g_step. cbn [l_a l_b l_ab l_ba with_snd e_snd e_rcv g_wa g_sb lr_sink_b opt_bytes].
      unfold frames_out. lists_simpl. exact Hab.
    + pose proof (vinv_step (view_ba st g) (VWrite d) Hba Hl) as Hs.
      cbn [v_step view_ba v_s v_r v_F v_K v_W v_S] in Hs. rewrite Es in Hs.
      unfold view_ba, g_step. cbn [l_a l_b l_ab l_ba with_snd e_snd e_rcv g_wb g_sa lr_sink_a opt_bytes].
      unfold frames_out. lists_simpl. exact Hs.
  - (* DeliverAB *)
    destruct (l_ab st) as [|p w] eqn:Ew.
    + cbn [lr_state lr_dropped lr_overflow]. split; [|auto]. constructor.
      * constructor; auto. rewrite Ew. constructor.
      * unfold view_ab, g_step in *. cbn [lr_sink_b lr_sink_a opt_bytes]. lists_simpl. exact Hab.
      * unfold view_ba, g_step in *. cbn [lr_sink_b lr_sink_a opt_bytes]. lists_simpl. exact Hba.
    + inversion Wwab as [|? ? Hp Wwab']; subst. destruct p as [cid d|cid n]; cbn [addressed] in Hp.
      * (* a K-frame *)
        cbn [ep_step]. rewrite Hp, Wab, Z.eqb_refl.
        cbn [er_state er_out er_sink er_dropped er_overflow lr_state lr_dropped lr_overflow].
        pose proof (vinv_step (view_ab st g) VFrame Hab I) as Hs.
        cbn [v_step view_ab v_s v_r v_F v_K v_W v_S] in Hs. rewrite Ew in Hs.
        cbn [frames_of flat_map frame_of app] in Hs. fold (frames_of w) in Hs.
        pose proof (r_on_pdu_asm (e_rcv (l_b st)) d) as Ha. cbv zeta in Ha.
        assert (Hov : rr_overflow (r_on_pdu (e_rcv (l_b st)) d) = false).
        { destruct (vi_flight _ Hab) as (buf & P & Hst & Hfl & _ & _).
          cbn [view_ab v_s v_r v_F] in Hst, Hfl. rewrite Ew in Hfl.
          cbn [frames_of flat_map frame_of app] in Hfl. fold (frames_of w) in Hfl.
          destruct Ha as (Hasm & _). rewrite Hst in Hasm.
          destruct (flight_deliver _ _ _ _ _ Hfl) as [(Hx & _) | (p & P' & _ & Hx & _)];
            rewrite Hx in Hasm; inversion Hasm; reflexivity. }
        split; [|auto]. constructor.
        -- constructor; cbn [l_a l_b l_ab l_ba with_rcv e_src e_dst e_key]; auto.
           apply Forall_app. split; [assumption|].
           destruct (rr_credit _); constructor; [reflexivity|constructor].
        -- unfold view_ab, g_step.
           cbn [l_a l_b l_ab l_ba with_rcv e_snd e_rcv g_wa g_sb lr_sink_b]. lists_simpl. exact Hs.
        -- unfold view_ba, g_step in *.
           cbn [l_a l_b l_ab l_ba with_rcv e_snd e_rcv g_wb g_sa lr_sink_a opt_bytes] in *.
           rewrite Ew in Hba. cbn [credits_of flat_map credit_of app] in Hba. fold (credits_of w) in Hba.
           lists_simpl. exact Hba.
      * (* a credit packet *)
        cbn [ep_step]. rewrite Hp, Wkb, Wba, Z.eqb_refl.
        destruct (s_on_credits (e_snd (l_b st)) n) as [s fs] eqn:Es.
        cbn [er_state er_out er_sink er_dropped er_overflow lr_state lr_dropped lr_overflow].
        pose proof (vinv_step (view_ba st g) VCredit Hba I) as Hs.
        cbn [v_step view_ba v_s v_r v_F v_K v_W v_S] in Hs. rewrite Ew in Hs.
        cbn [credits_of flat_map credit_of app] in Hs. fold (credits_of w) in Hs. rewrite Es in Hs.
        split; [|auto]. constructor.
        -- constructor; cbn [l_a l_b l_ab l_ba with_snd e_src e_dst e_key]; auto.
           apply Forall_app. split; [assumption|]. apply (addressed_frames (l_b st)).
        -- unfold view_ab, g_step in *.
           cbn [l_a l_b l_ab l_ba with_snd e_snd e_rcv g_wa g_sb lr_sink_b opt_bytes] in *.
           rewrite Ew in Hab. cbn [frames_of flat_map frame_of app] in Hab. fold (frames_of w) in Hab.
           unfold frames_out. lists_simpl. exact Hab.
        -- unfold view_ba, g_step.
           cbn [l_a l_b l_ab l_ba with_snd e_snd e_rcv g_wb g_sa lr_sink_a opt_bytes].
           unfold frames_out. lists_simpl. exact Hs.
  - (* DeliverBA *)
    destruct (l_ba st) as [|p w] eqn:Ew.
    + cbn [lr_state lr_dropped lr_overflow]. split; [|auto]. constructor.
      * constructor; auto. rewrite Ew. constructor.
      * unfold view_ab, g_step in *. cbn [lr_sink_b lr_sink_a opt_bytes]. lists_simpl. exact Hab.
      * unfold view_ba, g_step in *. cbn [lr_sink_b lr_sink_a opt_bytes]. lists_simpl. exact Hba.
    + inversion Wwba as [|? ? Hp Wwba']; subst. destruct p as [cid d|cid n]; cbn [addressed] in Hp.
      * cbn [ep_step]. rewrite Hp, Wba, Z.eqb_refl.
        cbn [er_state er_out er_sink er_dropped er_overflow lr_state lr_dropped lr_overflow].
        pose proof (vinv_step (view_ba st g) VFrame Hba I) as Hs.
        cbn [v_step view_ba v_s v_r v_F v_K v_W v_S] in Hs. rewrite Ew in Hs.
        cbn [frames_of flat_map frame_of app] in Hs. fold (frames_of w) in Hs.
        pose proof (r_on_pdu_asm (e_rcv (l_a st)) d) as Ha. cbv zeta in Ha.
        assert (Hov : rr_overflow (r_on_pdu (e_rcv (l_a st)) d) = false).
        { destruct (vi_flight _ Hba) as (buf & P & Hst & Hfl & _ & _).
          cbn [view_ba v_s v_r v_F] in Hst, Hfl. rewrite Ew in Hfl.
          cbn [frames_of flat_map frame_of app] in Hfl. fold (frames_of w) in Hfl.
          destruct Ha as (Hasm & _). rewrite Hst in Hasm.
          destruct (flight_deliver _ _ _ _ _ Hfl) as [(Hx & _) | (p & P' & _ & Hx & _)];
            rewrite Hx in Hasm; inversion Hasm; reflexivity. }
        split; [|auto]. constructor.
        -- constructor; cbn [l_a l_b l_ab l_ba with_rcv e_src e_dst e_key]; auto.
           apply Forall_app. split; [assumption|].
           destruct (rr_credit _); constructor; [reflexivity|constructor].
        -- unfold view_ab, g_step in *.
           cbn [l_a l_b l_ab l_ba with_rcv e_snd e_rcv g_wa g_sb lr_sink_b opt_bytes] in *.
           rewrite Ew in Hab. cbn [credits_of flat_map credit_of app] in Hab. fold (credits_of w) in Hab.
           lists_simpl. exact Hab.
        -- unfold view_ba, g_step.
           cbn [l_a l_b l_ab l_ba with_rcv e_snd e_rcv g_wb g_sa lr_sink_a]. lists_simpl. exact Hs.
      * cbn [ep_step]. rewrite Hp, Wka, Wab, Z.eqb_refl.
        destruct (s_on_credits (e_snd (l_a st)) n) as [s fs] eqn:Es.
        cbn [er_state er_out er_sink er_dropped er_overflow lr_state lr_dropped lr_overflow].
        pose proof (vinv_step (view_ab st g) VCredit Hab I) as Hs.
        cbn [v_step view_ab v_s v_r v_F v_K v_W v_S] in Hs. rewrite Ew in Hs.
        cbn [credits_of flat_map credit_of app] in Hs. fold (credits_of w) in Hs. rewrite Es in Hs.
        split; [|auto]. constructor.
        -- constructor; cbn [l_a l_b l_ab l_ba with_snd e_src e_dst e_key]; auto.
           apply Forall_app. split; [assumption|]. apply (addressed_frames (l_a st)).
        -- unfold view_ab, g_step.
           cbn [l_a l_b l_ab l_ba with_snd e_snd e_rcv g_wa g_sb lr_sink_b opt_bytes].
           unfold frames_out. lists_simpl. exact Hs.
        -- unfold view_ba, g_step in *.
           cbn [l_a l_b l_ab l_ba with_snd e_snd e_rcv g_wb g_sa lr_sink_a opt_bytes] in *.
           rewrite Ew in Hba. cbn [frames_of flat_map frame_of app] in Hba. fold (frames_of w) in Hba.
           unfold frames_out. lists_simpl. exact Hba.
Qed.

(* ------------------------------------------------------------ whole runs *)
Definition written_a (ls : list label) : bytes :=
  concat (map (fun l => match l with WriteA d => d | _ => [] end) ls).
Definition written_b (ls : list label) : bytes :=
  concat (map (fun l => match l with WriteB d => d | _ => [] end) ls).
Definition sunk_a (rs : list lres) : bytes := concat (map (fun r => opt_bytes (lr_sink_a r)) rs).
Definition sunk_b (rs : list lres) : bytes := concat (map (fun r => opt_bytes (lr_sink_b r)) rs).

Definition clean (r : lres) : Prop := lr_dropped r = false /\ lr_overflow r = false.

Lemma l_run_inv ls : forall st g,
  linv st g -> Forall label_ok ls ->
  let '(st', rs) := l_run st ls in
  linv st' (mkG (g_wa g ++ written_a ls) (g_wb g ++ written_b ls)
                (g_sa g ++ sunk_a rs) (g_sb g ++ sunk_b rs)) /\
  Forall clean rs.
Proof.
  induction ls as [|l ls IH]; intros st g Hi Hok; cbn [l_run].
  - unfold written_a, written_b, sunk_a, sunk_b. cbn. rewrite !app_nil_r. destruct g. split; [exact Hi|constructor].
  - inversion Hok as [|? ? Hl Hok']; subst.
    destruct (l_step_inv st g l Hi Hl) as (Hi' & Hd & Ho).
    specialize (IH (lr_state (l_step st l)) (g_step g l (l_step st l)) Hi' Hok').
    destruct (l_run (lr_state (l_step st l)) ls) as [st' rs].
    destruct IH as (IH1 & IH2). split; [|constructor; [split; assumption|assumption]].
    unfold g_step in IH1. cbn [g_wa g_wb g_sa g_sb] in IH1.
    unfold written_a, written_b, sunk_a, sunk_b in *. cbn [map concat].
    rewrite <- !app_assoc in IH1. exact IH1.
Qed.

Record params_ok (mtu mps cr : Z) : Prop := {
  p_mtu : 1 <= mtu < 65536; p_mps : 1 <= mps; p_cr : 1 <= cr
}.

Lemma linv_init ka kb cid_a cid_b mtu_a mps_a cr_a mtu_b mps_b cr_b :
  params_ok mtu_a mps_a cr_a -> params_ok mtu_b mps_b cr_b ->
  linv (l_init (lecoc_keysel ka) (lecoc_keysel kb) cid_a cid_b mtu_a mps_a cr_a mtu_b mps_b cr_b)
       (mkG [] [] [] []).
Proof.
  intros [Ha1 Ha2 Ha3] [Hb1 Hb2 Hb3]. constructor.
  - constructor; cbn; auto.
  - apply (vinv_init cr_b mtu_b mps_b); assumption.
  - apply (vinv_init cr_a mtu_a mps_a); assumption.
Qed.

(* parameters never change *)
Lemma process_output_params s : let '(s', fs) := process_output s in
  s_mtu s' = s_mtu s /\ s_mps s' = s_mps s.
Proof. unfold process_output. destruct (po _ _ _ _ _ _) as [[[fs q] sdu] dr]. cbn. auto. Qed.

(* ---- bounds on what is observed at a step *)
Lemma view_sink_fits v f F d :
  vinv v -> v_F v = f :: F -> rr_sink (r_on_pdu (v_r v) f) = Some d -> sdu_fits (s_mtu (v_s v)) d.
Proof.
  intros Hi EF Hs. destruct (vi_flight v Hi) as (buf & P & Hst & Hfl & HP & _).
  rewrite EF in Hfl. pose proof (r_on_pdu_asm (v_r v) f) as Ha. cbv zeta in Ha.
  destruct Ha as (Hasm & _). rewrite Hst in Hasm.
  destruct (flight_deliver _ _ _ _ _ Hfl) as [(Hx & _) | (p & P' & -> & Hx & _)];
    rewrite Hx in Hasm; inversion Hasm as [[Hb Hl Hk Ho]]; rewrite Hs in Hk.
  - discriminate.
  - inversion Hk; subst. inversion HP; assumption.
Qed.

Lemma l_step_sink_b st g d :
  linv st g -> lr_sink_b (l_step st DeliverAB) = Some d -> sdu_fits (s_mtu (e_snd (l_a st))) d.
Proof.
  intros [Hw Hab Hba] Hs. cbn [l_step] in Hs.
  destruct (l_ab st) as [|p w] eqn:Ew; [discriminate|]. cbn [lr_sink_b] in Hs.
  destruct p as [cid d0|cid n]; cbn [ep_step] in Hs.
  - destruct (cid =? e_src (l_b st)); cbn [er_sink] in Hs; [|discriminate].
    apply (view_sink_fits (view_ab st g) d0 (frames_of w) d Hab); [|exact Hs].
    cbn [view_ab v_F]. rewrite Ew. reflexivity.
  - destruct (cid =? e_key (l_b st)); [|discriminate].
    destruct (s_on_credits _ _); discriminate.
Qed.

Lemma l_step_sink_a st g d :
  linv st g -> lr_sink_a (l_step st DeliverBA) = Some d -> sdu_fits (s_mtu (e_snd (l_b st))) d.
Proof.
  intros [Hw Hab Hba] Hs. cbn [l_step] in Hs.
  destruct (l_ba st) as [|p w] eqn:Ew; [discriminate|]. cbn [lr_sink_a] in Hs.
  destruct p as [cid d0|cid n]; cbn [ep_step] in Hs.
  - destruct (cid =? e_src (l_a st)); cbn [er_sink] in Hs; [|discriminate].
    apply (view_sink_fits (view_ba st g) d0 (frames_of w) d Hba); [|exact Hs].
    cbn [view_ba v_F]. rewrite Ew. reflexivity.
  - destruct (cid =? e_key (l_a st)); [|discriminate].
    destruct (s_on_credits _ _); discriminate.
Qed.

(* every packet on a wire is addressed to the peer's channel and every K-frame on
   it is within the MPS its receiver advertised *)
Definition frames_within (mps : Z) (w : list pkt) : Prop := Forall (frame_ok mps) (frames_of w).

Lemma linv_wire_frames st g : linv st g ->
  frames_within (s_mps (e_snd (l_a st))) (l_ab st) /\ frames_within (s_mps (e_snd (l_b st))) (l_ba st).
Proof. intros [Hw Hab Hba]. split; [apply (vi_frames _ Hab)|apply (vi_frames _ Hba)]. Qed.

(* a frame is put on the wire only against a credit: with [k] frames sent at a
   step the sender held at least k credits before it, and still holds >= 0 *)
Lemma s_write_credits s d : let '(s', fs) := s_write s d in
  s_credits s' = s_credits s - zlen fs.
Proof. unfold s_write, process_output. destruct (po _ _ _ _ _ _) as [[[fs q] sdu] dr]. reflexivity. Qed.

Lemma s_on_credits_credits s n : let '(s', fs) := s_on_credits s n in
  s_credits s' = s_credits s + n - zlen fs.
Proof. unfold s_on_credits, process_output. destruct (po _ _ _ _ _ _) as [[[fs q] sdu] dr]. reflexivity. Qed.

(* ------------------------------------------------- routing with many channels *)
Definition srcs (cs : list chan_desc) : list Z := map cd_src cs.
Definition dsts (cs : list chan_desc) : list Z := map cd_dst cs.

Lemma t_get_fresh_channels sel cs k :
  ~ In k (srcs cs) -> t_get (m_channels (file_all sel cs)) k = None.
Proof.
  induction cs as [|c cs IH]; cbn; intros Hn; [reflexivity|].
  destruct (cd_src c =? k) eqn:E; [apply Z.eqb_eq in E; tauto|]. apply IH. tauto.
Qed.

Lemma route_frame_ok sel cs c d :
  NoDup (srcs cs) -> In c cs -> route (file_all sel cs) (PFrame (cd_src c) d) = Some (cd_id c).
Proof.
  induction cs as [|x cs IH]; cbn [In]; intros Hnd Hin; [contradiction|].
  cbn [srcs map] in Hnd. inversion Hnd as [|? ? Hx Hnd']; subst.
  cbn [file_all file_channel route m_channels t_set t_get].
  destruct Hin as [->|Hin].
  - rewrite Z.eqb_refl. reflexivity.
  - destruct (cd_src x =? cd_src c) eqn:E.
    + apply Z.eqb_eq in E. exfalso. apply Hx. rewrite E. apply in_map. exact Hin.
    + apply (IH Hnd' Hin).
Qed.

Lemma route_credit_ok sel cs c n :
  (forall k, sel k = KDst) ->
  NoDup (dsts cs) -> In c cs -> route (file_all sel cs) (PCredit (cd_dst c) n) = Some (cd_id c).
Proof.
  intros Hsel. induction cs as [|x cs IH]; cbn [In]; intros Hnd Hin; [contradiction|].
  cbn [dsts map] in Hnd. inversion Hnd as [|? ? Hx Hnd']; subst.
  cbn [file_all file_channel route m_lecoc t_set t_get]. rewrite Hsel. cbn [key_of].
  destruct Hin as [->|Hin].
  - rewrite Z.eqb_refl. reflexivity.
  - destruct (cd_dst x =? cd_dst c) eqn:E.
    + apply Z.eqb_eq in E. exfalso. apply Hx. rewrite E. apply in_map. exact Hin.
    + apply (IH Hnd' Hin).
Qed.

(* D07 as it was (enhanced acceptor filed under the source CID): a credit packet
   for one channel is handed to another one, or to none *)
Definition sel_d07 (k : kind) : keysel := match k with EnhAcceptor => KSrc | _ => KDst end.

Lemma route_credit_d07_refuted :
  exists cs c n, NoDup (srcs cs) /\ NoDup (dsts cs) /\ In c cs /\
    route (file_all sel_d07 cs) (PCredit (cd_dst c) n) <> Some (cd_id c).
Proof.
  exists [mkCd 2 EnhInitiator 64 65; mkCd 1 EnhAcceptor 65 64], (mkCd 1 EnhAcceptor 65 64), 1.
  repeat split.
  - repeat constructor; cbn; intuition discriminate.
  - repeat constructor; cbn; intuition discriminate.
  - cbn. auto.
  - vm_compute. discriminate.
Qed.

(* the two-party system with the enhanced acceptor filed under its source CID and
   a peer whose CID differs: the credit is dropped and the transfer is stuck
   with part of an SDU unsent and nothing in flight *)
Lemma credits_routed_d07_refuted :
  let st0 := l_init KDst (sel_d07 EnhAcceptor) 80 64 64 23 2 64 23 2 in
  let '(st, rs) := l_run st0 [WriteB (mk_data 0 60); DeliverBA; DeliverBA; DeliverAB; DeliverAB] in
  existsb lr_dropped rs = true /\ l_ab st = [] /\ l_ba st = [] /\
  s_sdu (e_snd (l_b st)) <> None /\ s_credits (e_snd (l_b st)) = 0.
Proof. vm_compute. repeat split; try reflexivity; discriminate. Qed.

(* ------------------------------ termination of deliveries, both directions *)
Definition g0 : ghost := mkG [] [] [] [].
Definition lmeasure (st : lsys) : Z := measure (view_ab st g0) + measure (view_ba st g0).

Definition l_enabled (st : lsys) (l : label) : Prop :=
  match l with DeliverAB => l_ab st <> [] | DeliverBA => l_ba st <> [] | _ => False end.

Lemma zlen_opt_list {A} (o : option A) : 0 <= zlen (opt_list o) <= 1.
Proof. destruct o; cbn; lia. Qed.

Lemma on_credits_measure s n fs s' :
  1 <= s_mps s -> 1 <= s_mtu s -> Forall nonempty (s_queue s) -> sdu_ok (s_sdu s) ->
  s_on_credits s n = (s', fs) ->
  pending_bytes s' + zlen fs <= pending_bytes s.
Proof.
  intros H1 H2 H3 H4. unfold s_on_credits, process_output.
  cbn [s_credits s_mtu s_mps s_queue s_sdu s_drained].
  pose proof (po_measure (Z.to_nat (s_credits s + n)) (s_mtu s) (s_mps s) (s_queue s) (s_sdu s) (s_drained s)
                H1 H2 H3 H4) as Hm.
  destruct (po _ _ _ _ _ _) as [[[fs0 q'] sdu'] dr']. intros E. inversion E; subst.
  unfold pending_bytes. cbn [s_queue s_sdu]. lia.
Qed.

Lemma l_deliver_decreases st g l :
  linv st g -> l_enabled st l -> lmeasure (lr_state (l_step st l)) < lmeasure st.
Proof.
  intros [Hw Hab Hba] He. destruct Hw as [Wab Wba Wka Wkb Wwab Wwba].
  destruct l as [d|d| |]; cbn [l_enabled] in He; try contradiction; cbn [l_step].
  - destruct (l_ab st) as [|p w] eqn:Ew; [congruence|].
    inversion Wwab as [|? ? Hp Wwab']; subst. destruct p as [cid d|cid n]; cbn [addressed] in Hp.
    + cbn [ep_step]. rewrite Hp, Wab, Z.eqb_refl. cbn [er_state er_out lr_state].
      unfold lmeasure, measure, view_ab, view_ba.
      cbn [v_s v_F v_K l_a l_b l_ab l_ba with_rcv e_snd e_rcv]. rewrite Ew.
      cbn [frames_of credits_of flat_map frame_of credit_of app].
      fold (frames_of w). fold (credits_of w). lists_simpl.
      rewrite zlen_cons, zlen_app.
      pose proof (zlen_opt_list (rr_credit (r_on_pdu (e_rcv (l_b st)) d))). lia.
    + cbn [ep_step]. rewrite Hp, Wkb, Wba, Z.eqb_refl.
      destruct (s_on_credits (e_snd (l_b st)) n) as [s fs] eqn:Es.
      cbn [er_state er_out lr_state].
      pose proof (on_credits_measure _ _ _ _ (vi_mps _ Hba) (proj1 (vi_mtu _ Hba)) (vi_queue _ Hba)
                    (vi_sdu _ Hba) Es) as Hm.
      cbn [view_ba v_s] in Hm.
      unfold lmeasure, measure, view_ab, view_ba.
      cbn [v_s v_F v_K l_a l_b l_ab l_ba with_snd e_snd e_rcv]. rewrite Ew.
      cbn [frames_of credits_of flat_map frame_of credit_of app].
      fold (frames_of w). fold (credits_of w). unfold frames_out. lists_simpl.
      rewrite zlen_cons, zlen_app. pose proof (zlen_nonneg fs). lia.
  - destruct (l_ba st) as [|p w] eqn:Ew; [congruence|].
    inversion Wwba as [|? ? Hp Wwba']; subst. destruct p as [cid d|cid n]; cbn [addressed] in Hp.
    + cbn [ep_step]. rewrite Hp, Wba, Z.eqb_refl. cbn [er_state er_out lr_state].
      unfold lmeasure, measure, view_ab, view_ba.
      cbn [v_s v_F v_K l_a l_b l_ab l_ba with_rcv e_snd e_rcv]. rewrite Ew.
      cbn [frames_of credits_of flat_map frame_of credit_of app].
      fold (frames_of w). fold (credits_of w). lists_simpl.
      rewrite zlen_cons, zlen_app.
      pose proof (zlen_opt_list (rr_credit (r_on_pdu (e_rcv (l_a st)) d))). lia.
    + cbn [ep_step]. rewrite Hp, Wka, Wab, Z.eqb_refl.
      destruct (s_on_credits (e_snd (l_a st)) n) as [s fs] eqn:Es.
      cbn [er_state er_out lr_state].
      pose proof (on_credits_measure _ _ _ _ (vi_mps _ Hab) (proj1 (vi_mtu _ Hab)) (vi_queue _ Hab)
                    (vi_sdu _ Hab) Es) as Hm.
      cbn [view_ab v_s] in Hm.
      unfold lmeasure, measure, view_ab, view_ba.
      cbn [v_s v_F v_K l_a l_b l_ab l_ba with_snd e_snd e_rcv]. rewrite Ew.
      cbn [frames_of credits_of flat_map frame_of credit_of app].
      fold (frames_of w). fold (credits_of w). unfold frames_out. lists_simpl.
      rewrite zlen_cons, zlen_app. pose proof (zlen_nonneg fs). lia.
Qed.

Fixpoint l_all_enabled (st : lsys) (ls : list label) : Prop :=
  match ls with
  | [] => True
  | l :: ls' => l_enabled st l /\ l_all_enabled (lr_state (l_step st l)) ls'
  end.

Lemma l_enabled_ok st l : l_enabled st l -> label_ok l.
Proof. destruct l; cbn; auto; contradiction. Qed.

Lemma lmeasure_nonneg st : 0 <= lmeasure st.
Proof.
  unfold lmeasure, measure, pending_bytes.
  repeat match goal with |- context [zlen ?x] => pose proof (zlen_nonneg x); generalize dependent (zlen x); intros end.
  lia.
Qed.

Lemma l_deliveries_bounded ls : forall st g,
  linv st g -> l_all_enabled st ls -> zlen ls <= lmeasure st.
Proof.
  induction ls as [|l ls IH]; intros st g Hi Hen.
  - rewrite zlen_nil. apply lmeasure_nonneg.
  - destruct Hen as (He & Hen). rewrite zlen_cons.
    pose proof (l_deliver_decreases st g l Hi He) as Hd.
    destruct (l_step_inv st g l Hi (l_enabled_ok st l He)) as (Hi' & _).
    specialize (IH _ _ Hi' Hen). lia.
Qed.

Lemma l_completes st g : linv st g ->
  exists ds, l_all_enabled st ds /\ l_ab (fst (l_run st ds)) = [] /\ l_ba (fst (l_run st ds)) = [].
Proof.
  intros Hi. remember (Z.to_nat (lmeasure st)) as k eqn:Hk.
  revert st g Hi Hk. induction k as [k IH] using lt_wf_ind. intros st g Hi Hk.
  assert (Hstep : forall l, l_enabled st l ->
            exists ds, l_all_enabled st ds /\ l_ab (fst (l_run st ds)) = [] /\ l_ba (fst (l_run st ds)) = []).
  { intros l He.
    pose proof (l_deliver_decreases st g l Hi He) as Hd.
    pose proof (lmeasure_nonneg (lr_state (l_step st l))) as H0.
    destruct (l_step_inv st g l Hi (l_enabled_ok st l He)) as (Hi' & _).
    destruct (IH (Z.to_nat (lmeasure (lr_state (l_step st l)))) ltac:(lia) _ _ Hi' eq_refl)
      as (ds & Hen & Hq).
    exists (l :: ds). split; [split; assumption|].
    cbn [l_run]. destruct (l_run (lr_state (l_step st l)) ds) as [st' rs]. exact Hq. }
  destruct (l_ab st) as [|p w] eqn:E1.
  - destruct (l_ba st) as [|p w] eqn:E2.
    + exists []. cbn. auto.
    + apply (Hstep DeliverBA). cbn. congruence.
  - apply (Hstep DeliverAB). cbn. congruence.
Qed.

(* ---------------------------------------- negotiated values never change *)
Definition statics (st : lsys) :=
  (e_src (l_a st), e_dst (l_a st), e_key (l_a st), s_mtu (e_snd (l_a st)), s_mps (e_snd (l_a st)),
   r_max (e_rcv (l_a st)),
   (e_src (l_b st), e_dst (l_b st), e_key (l_b st), s_mtu (e_snd (l_b st)), s_mps (e_snd (l_b st)),
    r_max (e_rcv (l_b st)))).

Lemma ep_step_static e v :
  let e' := er_state (ep_step e v) in
  e_src e' = e_src e /\ e_dst e' = e_dst e /\ e_key e' = e_key e /\
  s_mtu (e_snd e') = s_mtu (e_snd e) /\ s_mps (e_snd e') = s_mps (e_snd e) /\
  r_max (e_rcv e') = r_max (e_rcv e).
Proof.
  destruct v as [d|[cid d|cid n]]; cbn [ep_step].
  - unfold s_write. pose proof (process_output_params
      (mkSnd (s_credits (e_snd e)) (s_mtu (e_snd e)) (s_mps (e_snd e)) (s_queue (e_snd e) ++ [d]) (s_sdu (e_snd e)) false)) as H.
    destruct (process_output _) as [s fs]. cbn in *. tauto.
  - destruct (cid =? e_src e); cbn; [|tauto].
    pose proof (r_on_pdu_asm (e_rcv e) d) as H. cbv zeta in H. tauto.
  - destruct (cid =? e_key e); [|cbn; tauto].
    unfold s_on_credits. pose proof (process_output_params
      (mkSnd (s_credits (e_snd e) + n) (s_mtu (e_snd e)) (s_mps (e_snd e)) (s_queue (e_snd e)) (s_sdu (e_snd e)) (s_drained (e_snd e)))) as H.
    destruct (process_output _) as [s fs]. cbn in *. tauto.
Qed.

Lemma l_step_static st l : statics (lr_state (l_step st l)) = statics st.
Proof.
  unfold statics. destruct l as [d|d| |]; cbn [l_step].
  - pose proof (ep_step_static (l_a st) (EWrite d)) as H. cbv zeta in H.
    cbn [lr_state l_a l_b]. destruct H as (-> & -> & -> & -> & -> & ->). reflexivity.
  - pose proof (ep_step_static (l_b st) (EWrite d)) as H. cbv zeta in H.
    cbn [lr_state l_a l_b]. destruct H as (-> & -> & -> & -> & -> & ->). reflexivity.
  - destruct (l_ab st) as [|p w]; [reflexivity|].
    pose proof (ep_step_static (l_b st) (ERecv p)) as H. cbv zeta in H.
    cbn [lr_state l_a l_b]. destruct H as (-> & -> & -> & -> & -> & ->). reflexivity.
  - destruct (l_ba st) as [|p w]; [reflexivity|].
    pose proof (ep_step_static (l_a st) (ERecv p)) as H. cbv zeta in H.
    cbn [lr_state l_a l_b]. destruct H as (-> & -> & -> & -> & -> & ->). reflexivity.
Qed.

Lemma l_run_static ls : forall st, statics (fst (l_run st ls)) = statics st.
Proof.
  induction ls as [|l ls IH]; intros st; cbn [l_run]; [reflexivity|].
  specialize (IH (lr_state (l_step st l))).
  destruct (l_run (lr_state (l_step st l)) ls) as [st' rs]. cbn [fst] in *.
  rewrite IH. apply l_step_static.
Qed.

(* ------------------------------------------------ the theorems of Props/C07 *)
Section Top.
  Variables (ka kb : kind) (cid_a cid_b mtu_a mps_a cr_a mtu_b mps_b cr_b : Z).
  Hypothesis (Ha : params_ok mtu_a mps_a cr_a) (Hb : params_ok mtu_b mps_b cr_b).

  Definition sys0 : lsys :=
    l_init (lecoc_keysel ka) (lecoc_keysel kb) cid_a cid_b mtu_a mps_a cr_a mtu_b mps_b cr_b.

  Lemma reach_inv ls : Forall label_ok ls ->
    let '(st, rs) := l_run sys0 ls in
    linv st (mkG (written_a ls) (written_b ls) (sunk_a rs) (sunk_b rs)) /\ Forall clean rs.
  Proof.
    intros Hok. pose proof (l_run_inv ls sys0 (mkG [] [] [] []) (linv_init ka kb _ _ _ _ _ _ _ _ Ha Hb) Hok) as H.
    destruct (l_run sys0 ls) as [st rs]. exact H.
  Qed.

  Lemma reach_statics ls :
    let st := fst (l_run sys0 ls) in
    s_mtu (e_snd (l_a st)) = mtu_b /\ s_mps (e_snd (l_a st)) = mps_b /\ r_max (e_rcv (l_b st)) = cr_b /\
    s_mtu (e_snd (l_b st)) = mtu_a /\ s_mps (e_snd (l_b st)) = mps_a /\ r_max (e_rcv (l_a st)) = cr_a.
  Proof.
    cbv zeta. pose proof (l_run_static ls sys0) as H. unfold statics in H.
    inversion H as [[H1 H2 H3 H4 H5 H6 H7 H8 H9 H10 H11 H12]].
    rewrite H4, H5, H6, H10, H11, H12. repeat split; reflexivity.
  Qed.

  Theorem stream_exact ls : Forall label_ok ls ->
    let '(st, rs) := l_run sys0 ls in
    (exists X, written_a ls = sunk_b rs ++ X) /\
    (exists Y, written_b ls = sunk_a rs ++ Y) /\
    (l_ab st = [] -> l_ba st = [] ->
       written_a ls = sunk_b rs /\ written_b ls = sunk_a rs /\
       s_drained (e_snd (l_a st)) = true /\ s_drained (e_snd (l_b st)) = true).
  Proof.
    intros Hok. pose proof (reach_inv ls Hok) as H. destruct (l_run sys0 ls) as [st rs].
    destruct H as ([Hw Hab Hba] & _).
    split; [apply (vinv_prefix _ Hab)|]. split; [apply (vinv_prefix _ Hba)|].
    intros E1 E2.
    assert (Q1 : v_quiet (view_ab st (mkG (written_a ls) (written_b ls) (sunk_a rs) (sunk_b rs)))).
    { split; cbn [view_ab v_F v_K]; [rewrite E1|rewrite E2]; reflexivity. }
    assert (Q2 : v_quiet (view_ba st (mkG (written_a ls) (written_b ls) (sunk_a rs) (sunk_b rs)))).
    { split; cbn [view_ba v_F v_K]; [rewrite E2|rewrite E1]; reflexivity. }
    destruct (vinv_quiet_final _ Hab Q1) as (F1 & _ & _ & D1).
    destruct (vinv_quiet_final _ Hba Q2) as (F2 & _ & _ & D2).
    cbn in F1, F2, D1, D2. auto.
  Qed.

  (* the credit ledger, in every reachable state, in both directions *)
  Definition ledger (s : sndr) (r : rcvr) (frames credits : list pkt) (granted : Z) : Prop :=
    s_credits s + zlen (frames_of frames) + zsum (credits_of credits) = r_credits r /\
    0 <= s_credits s /\ 0 < r_credits r <= granted.

  Theorem credit_safe ls : Forall label_ok ls ->
    let st := fst (l_run sys0 ls) in
    ledger (e_snd (l_a st)) (e_rcv (l_b st)) (l_ab st) (l_ba st) cr_b /\
    ledger (e_snd (l_b st)) (e_rcv (l_a st)) (l_ba st) (l_ab st) cr_a.
  Proof.
    intros Hok. pose proof (reach_inv ls Hok) as H. pose proof (reach_statics ls) as Hs.
    destruct (l_run sys0 ls) as [st rs]. cbn [fst] in *.
    destruct H as ([Hw Hab Hba] & _). destruct Hs as (_ & _ & S3 & _ & _ & S6).
    pose proof (vi_rc _ Hab) as R1. pose proof (vi_rc _ Hba) as R2.
    pose proof (vi_max _ Hab) as M1. pose proof (vi_max _ Hba) as M2.
    cbn [view_ab view_ba v_r v_s] in *.
    assert (0 <= r_max (e_rcv (l_b st)) / 2) by (apply Z.div_pos; lia).
    assert (0 <= r_max (e_rcv (l_a st)) / 2) by (apply Z.div_pos; lia).
    split; (split; [|split]).
    - apply (vi_ledger _ Hab).
    - apply (vi_cred _ Hab).
    - lia.
    - apply (vi_ledger _ Hba).
    - apply (vi_cred _ Hba).
    - lia.
  Qed.

  Theorem frame_le_mps ls : Forall label_ok ls ->
    let st := fst (l_run sys0 ls) in
    frames_within mps_b (l_ab st) /\ frames_within mps_a (l_ba st).
  Proof.
    intros Hok. pose proof (reach_inv ls Hok) as H. pose proof (reach_statics ls) as Hs.
    destruct (l_run sys0 ls) as [st rs]. cbn [fst] in *.
    destruct H as (Hi & _). destruct Hs as (_ & S2 & _ & _ & S5 & _).
    pose proof (linv_wire_frames _ _ Hi) as Hf. rewrite S2, S5 in Hf. exact Hf.
  Qed.

  Theorem sdu_le_mtu ls : Forall label_ok ls ->
    let st := fst (l_run sys0 ls) in
    (forall d, lr_sink_b (l_step st DeliverAB) = Some d -> 1 <= zlen d <= mtu_b) /\
    (forall d, lr_sink_a (l_step st DeliverBA) = Some d -> 1 <= zlen d <= mtu_a).
  Proof.
    intros Hok. pose proof (reach_inv ls Hok) as H. pose proof (reach_statics ls) as Hs.
    destruct (l_run sys0 ls) as [st rs]. cbn [fst] in *.
    destruct H as (Hi & _). destruct Hs as (S1 & _ & _ & S4 & _ & _).
    split; intros d Hd.
    - destruct (l_step_sink_b _ _ d Hi Hd) as ((Hv & _) & Hm). rewrite S1 in Hm. lia.
    - destruct (l_step_sink_a _ _ d Hi Hd) as ((Hv & _) & Hm). rewrite S4 in Hm. lia.
  Qed.

  (* no packet is ever dropped by the routing and no SDU overflows, whatever the
     two sides' channel identifiers are *)
  Theorem credits_routed ls : Forall label_ok ls -> Forall clean (snd (l_run sys0 ls)).
  Proof.
    intros Hok. pose proof (reach_inv ls Hok) as H. destruct (l_run sys0 ls) as [st rs]. apply H.
  Qed.

  (* not stuck: while anything written is undelivered, or a drain() has not
     completed, a delivery is enabled *)
  Theorem progress ls : Forall label_ok ls ->
    let '(st, rs) := l_run sys0 ls in
    (written_a ls <> sunk_b rs \/ written_b ls <> sunk_a rs \/
     s_drained (e_snd (l_a st)) = false \/ s_drained (e_snd (l_b st)) = false) ->
    l_ab st <> [] \/ l_ba st <> [].
  Proof.
    intros Hok. pose proof (stream_exact ls Hok) as H. destruct (l_run sys0 ls) as [st rs].
    destruct H as (_ & _ & Hq). intros Hnf.
    destruct (l_ab st) eqn:E1; [|left; discriminate].
    destruct (l_ba st) eqn:E2; [|right; discriminate].
    exfalso. destruct (Hq eq_refl eq_refl) as (Q1 & Q2 & Q3 & Q4).
    destruct Hnf as [N|[N|[N|N]]]; try contradiction; congruence.
  Qed.
  (* with no further writes every schedule of enabled deliveries from a reachable
     state is at most [lmeasure] long, and some schedule empties both wires (after
     which, by [stream_exact], everything has been delivered) *)
  Theorem progress_terminates ls : Forall label_ok ls ->
    let st := fst (l_run sys0 ls) in
    (forall ds, l_all_enabled st ds -> zlen ds <= lmeasure st) /\
    (exists ds, l_all_enabled st ds /\ l_ab (fst (l_run st ds)) = [] /\ l_ba (fst (l_run st ds)) = []).
  Proof.
    intros Hok. pose proof (reach_inv ls Hok) as H. destruct (l_run sys0 ls) as [st rs]. cbn [fst].
    destruct H as (Hi & _). split.
    - intros ds Hen. exact (l_deliveries_bounded ds st _ Hi Hen).
    - exact (l_completes st _ Hi).
  Qed.
End Top.

(* ================= the model is the source shape's instance (Tie 1) ======= *)
Lemma r_account_shape r : r_account r = r_account_g model_shape r.
Proof.
  unfold r_account, r_account_g, r_thresh. cbn [model_shape sh_nocredit_cmp sh_nocredit_const sh_rx_dec
    sh_replenish_cmp sh_thresh_div cmp_eval].
  destruct (r_credits r =? 0) eqn:E; [apply Z.eqb_eq in E; rewrite E|]; reflexivity.
Qed.

Lemma r_on_pdu_shape r pdu : r_on_pdu r pdu = r_on_pdu_g model_shape r pdu.
Proof.
  unfold r_on_pdu, r_on_pdu_g. rewrite <- r_account_shape.
  destruct (r_account r) as [c cr].
  cbn [model_shape sh_unknown1_cmp sh_unknown1 sh_hdr_cmp sh_hdr_len sh_unknown2_cmp sh_unknown2
       sh_incomplete_cmp sh_incomplete_hdr sh_overflow_cmp sh_overflow_hdr sh_sink_skip cmp_eval].
  set (buf := match r_sdu r with Some s => s ++ pdu | None => pdu end).
  destruct (r_len r =? 0) eqn:E1.
  - apply Z.eqb_eq in E1. rewrite E1.
    destruct (2 <=? zlen buf); [|reflexivity].
    destruct (un16 buf =? 0) eqn:E2; [apply Z.eqb_eq in E2; rewrite E2; reflexivity|].
    reflexivity.
  - rewrite E1. reflexivity.
Qed.

Lemma emit_shape mps s : emit mps s = emit_g model_shape mps s.
Proof.
  unfold emit, emit_g. cbn [model_shape sh_whole_cmp cmp_eval]. f_equal.
  unfold zlen. destruct (Nat.eqb (length (ztake mps s)) (length s)) eqn:E.
  - apply Nat.eqb_eq in E. rewrite E, Z.eqb_refl. reflexivity.
  - apply Nat.eqb_neq in E.
    destruct (Z.of_nat (length (ztake mps s)) =? Z.of_nat (length s)) eqn:E2; [|reflexivity].
    apply Z.eqb_eq in E2. lia.
Qed.

Lemma gather_shape mtu q : forall room, gather room q = gather_g model_shape mtu room q.
Proof.
  induction q as [|d q IH]; intros room; cbn [gather gather_g]; [reflexivity|].
  cbn [model_shape sh_gather_cmp sh_empty_cmp sh_empty_const cmp_eval].
  destruct (room <=? 0) eqn:E.
  - apply Z.leb_le in E. destruct (mtu - room <? mtu) eqn:E2; [apply Z.ltb_lt in E2; lia|reflexivity].
  - apply Z.leb_gt in E. destruct (mtu - room <? mtu) eqn:E2; [|apply Z.ltb_ge in E2; lia].
    destruct (zdrop room d) as [|x rest] eqn:Ed.
    + rewrite zlen_nil. cbn [Z.eqb]. rewrite <- IH. reflexivity.
    + rewrite zlen_cons. pose proof (zlen_nonneg rest).
      destruct (1 + zlen rest =? 0) eqn:E3; [apply Z.eqb_eq in E3; lia|reflexivity].
Qed.

Lemma po_shape n : forall c mtu mps q sdu dr, n = Z.to_nat c ->
  po_g model_shape n c mtu mps q sdu dr =
  (let '(fs, q', sdu', dr') := po n mtu mps q sdu dr in (fs, c - zlen fs, q', sdu', dr')).
Proof.
  induction n as [|n IH]; intros c mtu mps q sdu dr Hn; cbn [po po_g].
  - rewrite zlen_nil, Z.sub_0_r. reflexivity.
  - cbn [model_shape sh_loop_cmp sh_loop_const sh_tx_dec cmp_eval].
    assert (Hc : 0 < c) by lia. destruct (0 <? c) eqn:E; [|apply Z.ltb_ge in E; lia].
    assert (Hn' : n = Z.to_nat (c - 1)) by lia.
    destruct sdu as [s|].
    + rewrite <- emit_shape. destruct (emit mps s) as [packet sdu1].
      rewrite (IH (c - 1) mtu mps q sdu1 dr Hn').
      destruct (po n mtu mps q sdu1 dr) as [[[fs q2] sdu2] dr2].
      rewrite zlen_cons. replace (c - 1 - zlen fs) with (c - (1 + zlen fs)) by lia. reflexivity.
    + destruct q as [|d q0].
      * rewrite zlen_nil, Z.sub_0_r. reflexivity.
      * rewrite <- (gather_shape mtu (d :: q0) mtu).
        destruct (gather mtu (d :: q0)) as [payload q1].
        rewrite <- emit_shape. destruct (emit mps (enc_sdu payload)) as [packet sdu1].
        rewrite (IH (c - 1) mtu mps q1 sdu1 dr Hn').
        destruct (po n mtu mps q1 sdu1 dr) as [[[fs q2] sdu2] dr2].
        rewrite zlen_cons. replace (c - 1 - zlen fs) with (c - (1 + zlen fs)) by lia. reflexivity.
Qed.

Lemma process_output_shape s : process_output s = process_output_g model_shape s.
Proof.
  unfold process_output, process_output_g.
  rewrite (po_shape (Z.to_nat (s_credits s)) (s_credits s) _ _ _ _ _ eq_refl).
  destruct (po _ _ _ _ _ _) as [[[fs q] sdu] dr]. reflexivity.
Qed.

Lemma model_is_shape sh : sh = model_shape ->
  (forall r pdu, r_on_pdu r pdu = r_on_pdu_g sh r pdu) /\
  (forall s, process_output s = process_output_g sh s).
Proof. intros ->. split; [exact r_on_pdu_shape|exact process_output_shape]. Qed.

(* ============ one endpoint against an arbitrary (hostile but legal) peer ===== *)
(* -- the sender half: whatever credit packets arrive (any counts >= 0, also beyond
   65535 in total: the code does not check the ceiling), what is put on the wire is
   a well-formed K-frame stream carrying a prefix of the bytes written *)
Record sinv (s : sndr) (F : list bytes) (W : bytes) : Prop := {
  si_mps : 1 <= s_mps s;
  si_mtu : 1 <= s_mtu s < 65536;
  si_cred : 0 <= s_credits s;
  si_work : 0 < s_credits s -> s_queue s = [] /\ s_sdu s = None /\ s_drained s = true;
  si_drained : s_drained s = true -> s_queue s = [] /\ s_sdu s = None;
  si_queue : Forall nonempty (s_queue s);
  si_sdu : sdu_ok (s_sdu s);
  si_frames : Forall (frame_ok (s_mps s)) F;
  si_stream : exists P, flight [] F (rest_bytes (s_sdu s)) P /\ Forall (sdu_fits (s_mtu s)) P /\
                        W = concat P ++ concat (s_queue s)
}.

Lemma sinv_init c mtu mps : 0 <= c -> 1 <= mtu < 65536 -> 1 <= mps -> sinv (snd_init c mtu mps) [] [].
Proof.
  intros Hc Hm Hp. constructor; cbn; auto; try lia.
  exists []. repeat split; constructor.
Qed.

Lemma sinv_po s F W c q dr s' fs W' :
  sinv s F W -> 0 <= c -> Forall nonempty q ->
  process_output (mkSnd c (s_mtu s) (s_mps s) q (s_sdu s) dr) = (s', fs) ->
  (dr = true -> q = [] /\ s_sdu s = None) ->
  (forall P, W = concat P ++ concat (s_queue s) -> W' = concat P ++ concat q) ->
  sinv s' (F ++ fs) W' /\ s_credits s' = c - zlen fs /\ 0 <= s_credits s'.
Proof.
  intros [Imps Imtu Icred Iwork Idr Iq Isdu Ifr Ist] Hc Hq Hpo Hdr HW.
  destruct Ist as (P & Hfl & HP & HWS).
  unfold process_output in Hpo. cbn [s_credits s_mtu s_mps s_queue s_sdu s_drained] in Hpo.
  pose proof (po_spec (Z.to_nat c) (s_mtu s) (s_mps s) q (s_sdu s) dr [] F P Imps Imtu Hq Isdu Hfl) as Hs.
  pose proof (po_drained (Z.to_nat c) (s_mtu s) (s_mps s) q (s_sdu s) dr Hdr) as Hd.
  destruct (po (Z.to_nat c) (s_mtu s) (s_mps s) q (s_sdu s) dr) as [[[fs0 q'] sdu'] dr'].
  inversion Hpo; subst s' fs0. clear Hpo.
  destruct Hs as (P' & H1 & H2 & H3 & H4 & H5 & H6 & H7 & H8 & H9).
  assert (Hfsl : zlen fs <= c) by (unfold zlen; lia).
  cbn [s_credits]. split; [|split; [reflexivity|lia]].
  constructor; cbn [s_credits s_mtu s_mps s_queue s_sdu s_drained]; auto.
  - lia.
  - intros Hpos. apply H8. unfold zlen in *. lia.
  - apply Forall_app. split; assumption.
  - exists (P ++ P'). repeat split.
    + exact H1.
    + apply Forall_app. split; assumption.
    + rewrite (HW P HWS). rewrite concat_app, <- !app_assoc. rewrite H2. reflexivity.
Qed.

Inductive sev := SWrite (d : bytes) | SCredits (n : Z).
Definition sev_ok (v : sev) : Prop := match v with SWrite d => d <> [] | SCredits n => 0 <= n end.
Definition s_step (s : sndr) (v : sev) : sndr * list bytes :=
  match v with SWrite d => s_write s d | SCredits n => s_on_credits s n end.
Fixpoint s_run (s : sndr) (vs : list sev) : sndr * list bytes :=
  match vs with
  | [] => (s, [])
  | v :: vs' => let '(s1, f1) := s_step s v in let '(s2, f2) := s_run s1 vs' in (s2, f1 ++ f2)
  end.
Definition s_written (vs : list sev) : bytes :=
  concat (map (fun v => match v with SWrite d => d | SCredits _ => [] end) vs).

Lemma sinv_step s F W v : sinv s F W -> sev_ok v ->
  let '(s', fs) := s_step s v in
  sinv s' (F ++ fs) (W ++ match v with SWrite d => d | SCredits _ => [] end) /\
  zlen fs <= s_credits s + match v with SCredits n => n | SWrite _ => 0 end.
Proof.
  intros Hi Hv. destruct v as [d|n]; cbn [s_step sev_ok] in *.
  - unfold s_write. destruct (process_output _) as [s' fs] eqn:Hpo.
    destruct (sinv_po s F W (s_credits s) (s_queue s ++ [d]) false s' fs (W ++ d) Hi (si_cred _ _ _ Hi))
      as (H1 & H2 & H3); auto.
    + apply Forall_app. split; [apply (si_queue _ _ _ Hi)|]. constructor; [exact Hv|constructor].
    + discriminate.
    + intros P HW. rewrite HW, concat_app. cbn [concat]. rewrite app_nil_r, <- !app_assoc. reflexivity.
    + split; [exact H1|lia].
  - unfold s_on_credits. destruct (process_output _) as [s' fs] eqn:Hpo.
    pose proof (si_cred _ _ _ Hi).
    destruct (sinv_po s F W (s_credits s + n) (s_queue s) (s_drained s) s' fs W Hi ltac:(lia)
                (si_queue _ _ _ Hi) Hpo (si_drained _ _ _ Hi) (fun P H => H)) as (H1 & H2 & H3).
    rewrite app_nil_r. split; [exact H1|lia].
Qed.

Lemma sender_robust vs : forall s F W, sinv s F W -> Forall sev_ok vs ->
  let '(s', fs) := s_run s vs in sinv s' (F ++ fs) (W ++ s_written vs).
Proof.
  induction vs as [|v vs IH]; intros s F W Hi Hok; cbn [s_run].
  - unfold s_written. cbn. rewrite !app_nil_r. exact Hi.
  - inversion Hok as [|? ? Hv Hok']; subst.
    pose proof (sinv_step s F W v Hi Hv) as Hs. destruct (s_step s v) as [s1 f1]. destruct Hs as (Hs & _).
    specialize (IH s1 _ _ Hs Hok'). destruct (s_run s1 vs) as [s2 f2].
    unfold s_written in *. cbn [map concat]. rewrite !app_assoc in *. exact IH.
Qed.

(* -- the receiver half: whatever frames arrive (any number, any content), its count
   of the credits the peer holds stays in (max/2, max], so the "peer out of credits"
   branch of on_pdu is never taken and every credit packet returns 1..max credits *)
Definition rinv (r : rcvr) : Prop := 1 <= r_max r /\ r_max r / 2 < r_credits r <= r_max r.

Lemma rinv_init m : 1 <= m -> rinv (rcv_init m).
Proof. intros H. split; cbn; [lia|]. split; [apply half_lt; lia|lia]. Qed.

Lemma rinv_step r pdu : rinv r ->
  let rr := r_on_pdu r pdu in
  rinv (rr_state rr) /\
  match rr_credit rr with Some n => 1 <= n <= r_max r | None => True end /\
  r_credits r <> 0.
Proof.
  intros (Hm & Hlo & Hhi). pose proof (r_on_pdu_asm r pdu) as Ha. cbv zeta in Ha.
  destruct Ha as (_ & Hc & Hp & Hmax). cbv zeta.
  assert (H0 : 0 <= r_max r / 2) by (apply Z.div_pos; lia).
  unfold r_account, r_thresh in Hc, Hp.
  destruct (r_credits r =? 0) eqn:E; [apply Z.eqb_eq in E; lia|].
  unfold rinv. rewrite Hc, Hp, Hmax.
  destruct (r_credits r - 1 <=? r_max r / 2) eqn:E2; cbn [fst snd].
  - apply Z.leb_le in E2. pose proof (half_lt _ Hm). repeat split; lia.
  - apply Z.leb_gt in E2. repeat split; lia.
Qed.

Fixpoint r_run (r : rcvr) (fs : list bytes) : rcvr * list Z :=
  match fs with
  | [] => (r, [])
  | f :: fs' => let rr := r_on_pdu r f in let '(r', cs) := r_run (rr_state rr) fs' in (r', opt_list (rr_credit rr) ++ cs)
  end.

Lemma receiver_robust fs : forall r, rinv r ->
  let '(r', cs) := r_run r fs in
  rinv r' /\ Forall (fun n => 1 <= n <= r_max r) cs /\
  (* credits out after the run = credits out before - frames + credits returned *)
  r_credits r' = r_credits r - zlen fs + zsum cs.
Proof.
  induction fs as [|f fs IH]; intros r Hi; cbn [r_run].
  - split; [exact Hi|]. split; [constructor|]. rewrite zlen_nil. cbn [zsum]. lia.
  - pose proof (rinv_step r f Hi) as Hs. cbv zeta in Hs. destruct Hs as (Hi' & Hcr & Hnz).
    specialize (IH _ Hi'). pose proof (r_on_pdu_asm r f) as Ha. cbv zeta in Ha.
    destruct Ha as (_ & Hc & Hp & Hmax).
    destruct (r_run (rr_state (r_on_pdu r f)) fs) as [r' cs]. destruct IH as (I1 & I2 & I3).
    split; [exact I1|]. split.
    + apply Forall_app. split.
      * destruct (rr_credit (r_on_pdu r f)); constructor; [exact Hcr|constructor].
      * rewrite Hmax in I2. exact I2.
    + rewrite I3, zsum_app, zlen_cons, Hc, Hp. unfold r_account, r_thresh.
      destruct (r_credits r =? 0) eqn:E; [apply Z.eqb_eq in E; contradiction|].
      destruct (r_credits r - 1 <=? r_max r / 2); cbn [fst snd opt_list zsum]; lia.
Qed.

(* ====================== n channels on one link: per-channel projection ====== *)
Fixpoint set_nth {A} (l : list A) (j : nat) (x : A) : list A :=
  match l, j with
  | [], _ => []
  | _ :: l', O => x :: l'
  | y :: l', S j' => y :: set_nth l' j' x
  end.

Lemma length_set_nth {A} (l : list A) j x : length (set_nth l j x) = length l.
Proof. revert j. induction l; intros [|j]; cbn; auto. Qed.

Lemma nth_set_nth {A} (l : list A) j x k d : (j < length l)%nat ->
  nth k (set_nth l j x) d = if Nat.eqb k j then x else nth k l d.
Proof.
  revert j k. induction l as [|y l IH]; intros j k Hj; [cbn in Hj; lia|].
  destruct j as [|j]; destruct k as [|k]; cbn; auto.
  apply IH. cbn in Hj. lia.
Qed.

Lemma map_set_nth {A B} (f : A -> B) (l : list A) j x d : (j < length l)%nat ->
  f x = f (nth j l d) -> map f (set_nth l j x) = map f l.
Proof.
  revert j. induction l as [|y l IH]; intros j Hj Hf; [reflexivity|].
  destruct j as [|j]; cbn in *; [now rewrite Hf|]. f_equal. apply IH; [lia|assumption].
Qed.

Definition dflt_ep : ep := mkEp 0 0 0 (snd_init 0 0 0) (rcv_init 0).

Definition sent_by (e : ep) (p : pkt) : bool :=
  match p with PFrame cid _ => cid =? e_dst e | PCredit cid _ => cid =? e_src e end.

Lemma sent_by_addressed e p : sent_by e p = true <-> addressed e p.
Proof. destruct p; cbn; apply Z.eqb_eq. Qed.

Definition same_ids (e e' : ep) : Prop :=
  e_src e' = e_src e /\ e_dst e' = e_dst e /\ e_key e' = e_key e.

Lemma ep_step_ids e v : same_ids e (er_state (ep_step e v)).
Proof. pose proof (ep_step_static e v) as H. cbv zeta in H. unfold same_ids. tauto. Qed.

Lemma sent_by_ids e e' p : same_ids e e' -> sent_by e' p = sent_by e p.
Proof. intros (H1 & H2 & _). destruct p; cbn; rewrite ?H1, ?H2; reflexivity. Qed.

Lemma filter_ext_in' {A} (f g : A -> bool) l : (forall x, f x = g x) -> filter f l = filter g l.
Proof. intros H. induction l; cbn; [reflexivity|]. rewrite H, IHl. reflexivity. Qed.

Lemma filter_all {A} (f : A -> bool) l : Forall (fun x => f x = true) l -> filter f l = l.
Proof. induction 1; cbn; [reflexivity|]. rewrite H. f_equal. assumption. Qed.

Lemma filter_none {A} (f : A -> bool) l : Forall (fun x => f x = false) l -> filter f l = [].
Proof. induction 1; cbn; [reflexivity|]. rewrite H. assumption. Qed.

(* everything an endpoint emits names the channel by its own identifiers *)
Lemma ep_step_out_sent e v : Forall (fun p => sent_by e p = true) (er_out (ep_step e v)).
Proof.
  assert (Hf : forall fs, Forall (fun p => sent_by e p = true) (frames_out e fs)).
  { intros fs. unfold frames_out. induction fs; cbn; constructor; auto. cbn. apply Z.eqb_refl. }
  destruct v as [d|[cid d|cid n]]; cbn [ep_step].
  - destruct (s_write _ _). cbn. apply Hf.
  - destruct (cid =? e_src e); cbn; [|constructor].
    destruct (rr_credit _); constructor; [cbn; apply Z.eqb_refl|constructor].
  - destruct (cid =? e_key e); [|cbn; constructor].
    destruct (s_on_credits _ _). cbn. apply Hf.
Qed.

Lemma accepts_not_dropped e p : accepts e p = true -> er_dropped (ep_step e (ERecv p)) = false.
Proof.
  destruct p as [cid d|cid n]; cbn [accepts ep_step]; intros ->; [reflexivity|].
  destruct (s_on_credits _ _). reflexivity.
Qed.

Lemma m_write_spec es : forall i d, (i < length es)%nat ->
  m_write es i d = (set_nth es i (er_state (ep_step (nth i es dflt_ep) (EWrite d))),
                    er_out (ep_step (nth i es dflt_ep) (EWrite d))).
Proof.
  induction es as [|e es IH]; intros i d Hi; [cbn in Hi; lia|].
  destruct i as [|i]; cbn [m_write set_nth nth]; [reflexivity|].
  rewrite IH by (cbn in Hi; lia). reflexivity.
Qed.

Lemma m_write_out es : forall i d, (length es <= i)%nat -> m_write es i d = (es, []).
Proof.
  induction es as [|e es IH]; intros i d Hi; [destruct i; reflexivity|].
  destruct i as [|i]; [cbn in Hi; lia|]. cbn [m_write]. rewrite IH by (cbn in Hi; lia). reflexivity.
Qed.

Lemma m_recv_spec es : forall p j, (j < length es)%nat ->
  accepts (nth j es dflt_ep) p = true ->
  (forall k, (k < j)%nat -> accepts (nth k es dflt_ep) p = false) ->
  m_recv es p = (set_nth es j (er_state (ep_step (nth j es dflt_ep) (ERecv p))),
                 Some (j, ep_step (nth j es dflt_ep) (ERecv p))).
Proof.
  induction es as [|e es IH]; intros p j Hj Ha Hb; [cbn in Hj; lia|].
  destruct j as [|j]; cbn [m_recv set_nth nth length] in *.
  - rewrite Ha. reflexivity.
  - rewrite (Hb O ltac:(lia)).
    rewrite (IH p j ltac:(lia) Ha); [reflexivity|].
    intros k Hk. apply (Hb (S k)). lia.
Qed.

Lemma NoDup_map_nth {A} (f : A -> Z) (l : list A) d i j :
  NoDup (map f l) -> (i < length l)%nat -> (j < length l)%nat ->
  f (nth i l d) = f (nth j l d) -> i = j.
Proof.
  intros Hnd Hi Hj Heq.
  apply (proj1 (NoDup_nth (map f l) (f d)) Hnd i j); rewrite ?map_length; auto.
  rewrite !map_nth. exact Heq.
Qed.

(* position k of [xs] is the peer of position k of [ys] *)
Record pairs_ok (xs ys : list ep) : Prop := {
  po_len : length xs = length ys;
  po_pair : forall k, (k < length xs)%nat ->
      e_dst (nth k xs dflt_ep) = e_src (nth k ys dflt_ep) /\
      e_dst (nth k ys dflt_ep) = e_src (nth k xs dflt_ep) /\
      e_key (nth k xs dflt_ep) = e_dst (nth k xs dflt_ep) /\
      e_key (nth k ys dflt_ep) = e_dst (nth k ys dflt_ep);
  po_ndx : NoDup (map e_src xs);
  po_ndy : NoDup (map e_src ys)
}.

Lemma pairs_ok_sym xs ys : pairs_ok xs ys -> pairs_ok ys xs.
Proof.
  intros [Hl Hp Hx Hy]. constructor; auto.
  intros k Hk. rewrite <- Hl in Hk. destruct (Hp k Hk) as (A & B & C & D). auto.
Qed.

Lemma sent_unique xs ys p j k : pairs_ok xs ys -> (j < length xs)%nat -> (k < length xs)%nat ->
  sent_by (nth j xs dflt_ep) p = true -> sent_by (nth k xs dflt_ep) p = true -> j = k.
Proof.
  intros [Hl Hp Hx Hy] Hj Hk Sj Sk. destruct p as [cid d|cid n]; cbn [sent_by] in *;
    apply Z.eqb_eq in Sj; apply Z.eqb_eq in Sk.
  - destruct (Hp j Hj) as (Aj & _). destruct (Hp k Hk) as (Ak & _).
    apply (NoDup_map_nth e_src ys dflt_ep j k Hy); first [lia|congruence].
  - apply (NoDup_map_nth e_src xs dflt_ep j k Hx); first [assumption|lia|congruence].
Qed.

Lemma route_accepts xs ys p j : pairs_ok xs ys -> (j < length xs)%nat ->
  sent_by (nth j xs dflt_ep) p = true -> accepts (nth j ys dflt_ep) p = true.
Proof.
  intros [Hl Hp Hx Hy] Hj Sj. destruct (Hp j Hj) as (A & B & C & D).
  destruct p as [cid d|cid n]; cbn [sent_by accepts] in *; apply Z.eqb_eq in Sj; apply Z.eqb_eq; congruence.
Qed.

Lemma route_unique xs ys p j k : pairs_ok xs ys -> (j < length xs)%nat -> (k < length xs)%nat ->
  sent_by (nth j xs dflt_ep) p = true -> accepts (nth k ys dflt_ep) p = true -> k = j.
Proof.
  intros [Hl Hp Hx Hy] Hj Hk Sj Ak. destruct (Hp j Hj) as (A & B & C & D). destruct (Hp k Hk) as (A' & B' & C' & D').
  destruct p as [cid d|cid n]; cbn [sent_by accepts] in *; apply Z.eqb_eq in Sj; apply Z.eqb_eq in Ak.
  - apply (NoDup_map_nth e_src ys dflt_ep k j Hy); first [lia|congruence].
  - apply (NoDup_map_nth e_src xs dflt_ep k j Hx); first [assumption|lia|congruence].
Qed.

Lemma pairs_ok_set_x xs ys j e : pairs_ok xs ys -> (j < length xs)%nat -> same_ids (nth j xs dflt_ep) e ->
  pairs_ok (set_nth xs j e) ys.
Proof.
  intros [Hl Hp Hx Hy] Hj (I1 & I2 & I3). constructor.
  - rewrite length_set_nth. exact Hl.
  - intros k Hk. rewrite length_set_nth in Hk. rewrite (nth_set_nth xs j e k dflt_ep Hj).
    destruct (Nat.eqb k j) eqn:E; [|apply Hp; exact Hk].
    apply Nat.eqb_eq in E. subst k. rewrite I1, I2, I3. apply Hp. exact Hk.
  - rewrite (map_set_nth e_src xs j e dflt_ep Hj I1). exact Hx.
  - exact Hy.
Qed.

Lemma pairs_ok_set_y xs ys j e : pairs_ok xs ys -> (j < length ys)%nat -> same_ids (nth j ys dflt_ep) e ->
  pairs_ok xs (set_nth ys j e).
Proof. intros H Hj Hs. apply pairs_ok_sym. apply pairs_ok_set_x; auto. apply pairs_ok_sym. exact H. Qed.

Definition covered (xs : list ep) (w : list pkt) : Prop :=
  Forall (fun p => exists j, (j < length xs)%nat /\ sent_by (nth j xs dflt_ep) p = true) w.

Lemma covered_set xs w j e : covered xs w -> (j < length xs)%nat -> same_ids (nth j xs dflt_ep) e ->
  covered (set_nth xs j e) w.
Proof.
  intros Hc Hj Hs. eapply Forall_impl; [|exact Hc]. intros p (i & Hi & Si).
  exists i. rewrite length_set_nth. split; [exact Hi|].
  rewrite (nth_set_nth xs j e i dflt_ep Hj). destruct (Nat.eqb i j) eqn:E; [|exact Si].
  apply Nat.eqb_eq in E. subst i. rewrite (sent_by_ids _ _ p Hs). exact Si.
Qed.

Lemma covered_out xs j (out : list pkt) : (j < length xs)%nat ->
  Forall (fun p => sent_by (nth j xs dflt_ep) p = true) out -> covered xs out.
Proof. intros Hj Ho. eapply Forall_impl; [|exact Ho]. intros p Hp. exists j. auto. Qed.

Record mwf (st : msys) : Prop := {
  mw_pairs : pairs_ok (m_a st) (m_b st);
  mw_wab : covered (m_a st) (m_ab st);
  mw_wba : covered (m_b st) (m_ba st)
}.

Definition proj (k : nat) (st : msys) : lsys :=
  mkL (nth k (m_a st) dflt_ep) (nth k (m_b st) dflt_ep)
      (filter (sent_by (nth k (m_a st) dflt_ep)) (m_ab st))
      (filter (sent_by (nth k (m_b st) dflt_ep)) (m_ba st)).

(* what a delivery of [p] (sent by x_j) to the side [ys] does, seen from channel k *)
Lemma deliver_side xs ys p j k wrev :
  pairs_ok xs ys -> (j < length xs)%nat -> (k < length xs)%nat -> sent_by (nth j xs dflt_ep) p = true ->
  let r := ep_step (nth j ys dflt_ep) (ERecv p) in
  m_recv ys p = (set_nth ys j (er_state r), Some (j, r)) /\
  er_dropped r = false /\
  pairs_ok xs (set_nth ys j (er_state r)) /\
  (forall w, covered ys w -> covered (set_nth ys j (er_state r)) (w ++ er_out r)) /\
  (k = j ->
     nth k (set_nth ys j (er_state r)) dflt_ep = er_state r /\
     filter (sent_by (er_state r)) (wrev ++ er_out r) = filter (sent_by (nth k ys dflt_ep)) wrev ++ er_out r) /\
  (k <> j ->
     nth k (set_nth ys j (er_state r)) dflt_ep = nth k ys dflt_ep /\
     filter (sent_by (nth k ys dflt_ep)) (wrev ++ er_out r) = filter (sent_by (nth k ys dflt_ep)) wrev).
Proof.
  intros Hp Hj Hk Sj r.
  pose proof (po_len _ _ Hp) as Hl.
  pose proof (route_accepts xs ys p j Hp Hj Sj) as Ha.
  assert (Hjy : (j < length ys)%nat) by lia.
  pose proof (ep_step_ids (nth j ys dflt_ep) (ERecv p)) as Hids. fold r in Hids.
  pose proof (ep_step_out_sent (nth j ys dflt_ep) (ERecv p)) as Hout. fold r in Hout.
  split; [|split; [|split; [|split; [|split]]]].
  - apply m_recv_spec; auto. intros i Hi.
    destruct (accepts (nth i ys dflt_ep) p) eqn:E; [|reflexivity].
    pose proof (route_unique xs ys p j i Hp Hj ltac:(lia) Sj E). lia.
  - apply accepts_not_dropped. exact Ha.
  - apply pairs_ok_set_y; auto.
  - intros w Hw. unfold covered. apply Forall_app. split.
    + apply covered_set; auto.
    + eapply Forall_impl; [|exact Hout]. intros q Hq. exists j. rewrite length_set_nth. split; [exact Hjy|].
      rewrite (nth_set_nth ys j _ j dflt_ep Hjy), Nat.eqb_refl. rewrite (sent_by_ids _ _ q Hids). exact Hq.
  - intros ->. rewrite (nth_set_nth ys j _ j dflt_ep Hjy), Nat.eqb_refl. split; [reflexivity|].
    rewrite filter_app. rewrite !(filter_ext_in' (sent_by (er_state r)) (sent_by (nth j ys dflt_ep)))
      by (intros q; apply sent_by_ids; exact Hids).
    rewrite (filter_all _ (er_out r) Hout). reflexivity.
  - intros Hne. rewrite (nth_set_nth ys j _ k dflt_ep Hjy).
    destruct (Nat.eqb k j) eqn:E; [apply Nat.eqb_eq in E; contradiction|]. split; [reflexivity|].
    rewrite filter_app. rewrite (filter_none _ (er_out r)); [apply app_nil_r|].
    eapply Forall_impl; [|exact Hout]. intros q Hq.
    destruct (sent_by (nth k ys dflt_ep) q) eqn:E2; [|reflexivity].
    pose proof (sent_unique ys xs q j k (pairs_ok_sym _ _ Hp) Hjy ltac:(lia) Hq E2). congruence.
Qed.

(* the same for a write on channel i of side [xs] *)
Lemma write_side xs ys i d k w :
  pairs_ok xs ys -> (i < length xs)%nat -> (k < length xs)%nat ->
  let r := ep_step (nth i xs dflt_ep) (EWrite d) in
  m_write xs i d = (set_nth xs i (er_state r), er_out r) /\
  pairs_ok (set_nth xs i (er_state r)) ys /\
  (covered xs w -> covered (set_nth xs i (er_state r)) (w ++ er_out r)) /\
  (forall w', covered ys w' -> covered ys w') /\
  (k = i ->
     nth k (set_nth xs i (er_state r)) dflt_ep = er_state r /\
     filter (sent_by (er_state r)) (w ++ er_out r) = filter (sent_by (nth k xs dflt_ep)) w ++ er_out r) /\
  (k <> i ->
     nth k (set_nth xs i (er_state r)) dflt_ep = nth k xs dflt_ep /\
     filter (sent_by (nth k xs dflt_ep)) (w ++ er_out r) = filter (sent_by (nth k xs dflt_ep)) w).
Proof.
  intros Hp Hi Hk r.
  pose proof (ep_step_ids (nth i xs dflt_ep) (EWrite d)) as Hids. fold r in Hids.
  pose proof (ep_step_out_sent (nth i xs dflt_ep) (EWrite d)) as Hout. fold r in Hout.
  split; [|split; [|split; [|split; [|split]]]].
  - apply m_write_spec. exact Hi.
  - apply pairs_ok_set_x; auto.
  - intros Hw. unfold covered. apply Forall_app. split.
    + apply covered_set; auto.
    + eapply Forall_impl; [|exact Hout]. intros q Hq. exists i. rewrite length_set_nth. split; [exact Hi|].
      rewrite (nth_set_nth xs i _ i dflt_ep Hi), Nat.eqb_refl. rewrite (sent_by_ids _ _ q Hids). exact Hq.
  - auto.
  - intros ->. rewrite (nth_set_nth xs i _ i dflt_ep Hi), Nat.eqb_refl. split; [reflexivity|].
    rewrite filter_app. rewrite !(filter_ext_in' (sent_by (er_state r)) (sent_by (nth i xs dflt_ep)))
      by (intros q; apply sent_by_ids; exact Hids).
    rewrite (filter_all _ (er_out r) Hout). reflexivity.
  - intros Hne. rewrite (nth_set_nth xs i _ k dflt_ep Hi).
    destruct (Nat.eqb k i) eqn:E; [apply Nat.eqb_eq in E; contradiction|]. split; [reflexivity|].
    rewrite filter_app. rewrite (filter_none _ (er_out r)); [apply app_nil_r|].
    eapply Forall_impl; [|exact Hout]. intros q Hq.
    destruct (sent_by (nth k xs dflt_ep) q) eqn:E2; [|reflexivity].
    pose proof (sent_unique xs ys q i k Hp Hi Hk Hq E2). congruence.
Qed.

Definition plabel (k : nat) (st : msys) (l : mlabel) : option label :=
  match l with
  | MWriteA i d => if Nat.eqb i k then Some (WriteA d) else None
  | MWriteB i d => if Nat.eqb i k then Some (WriteB d) else None
  | MDeliverAB =>
      match m_ab st with
      | p :: _ => if sent_by (nth k (m_a st) dflt_ep) p then Some DeliverAB else None
      | [] => None
      end
  | MDeliverBA =>
      match m_ba st with
      | p :: _ => if sent_by (nth k (m_b st) dflt_ep) p then Some DeliverBA else None
      | [] => None
      end
  end.

Definition psink (k : nat) (o : option (nat * bytes)) : option bytes :=
  match o with Some (j, d) => if Nat.eqb j k then Some d else None | None => None end.

Definition step_rel (k : nat) (st : msys) (l : mlabel) (r : mres) : Prop :=
  match plabel k st l with
  | Some l' =>
      let r' := l_step (proj k st) l' in
      proj k (mr_state r) = lr_state r' /\
      psink k (mr_sink_a r) = lr_sink_a r' /\ psink k (mr_sink_b r) = lr_sink_b r'
  | None =>
      proj k (mr_state r) = proj k st /\ psink k (mr_sink_a r) = None /\ psink k (mr_sink_b r) = None
  end.

Lemma psink_sink_of_same k r : psink k (sink_of (Some (k, r))) = er_sink r.
Proof. cbn. destruct (er_sink r); cbn; [rewrite Nat.eqb_refl|]; reflexivity. Qed.

Lemma psink_sink_of_other k j r : j <> k -> psink k (sink_of (Some (j, r))) = None.
Proof.
  intros H. cbn. destruct (er_sink r); cbn; [|reflexivity].
  destruct (Nat.eqb j k) eqn:E; [apply Nat.eqb_eq in E; contradiction|reflexivity].
Qed.

Lemma m_step_proj st l k : mwf st -> (k < length (m_a st))%nat ->
  let r := m_step st l in
  mwf (mr_state r) /\ length (m_a (mr_state r)) = length (m_a st) /\ mr_dropped r = false /\
  step_rel k st l r.
Proof.
  intros [Hp Hwab Hwba] Hk. pose proof (po_len _ _ Hp) as Hl.
  pose proof (pairs_ok_sym _ _ Hp) as Hp'.
  destruct l as [i d|i d| |]; cbn [m_step]; unfold step_rel; cbn [plabel].
  - (* MWriteA *)
    destruct (Nat.lt_ge_cases i (length (m_a st))) as [Hi|Hi].
    + destruct (write_side (m_a st) (m_b st) i d k (m_ab st) Hp Hi Hk) as (E & P1 & C1 & _ & Keq & Kne).
      rewrite E. cbn [mr_state mr_dropped mr_sink_a mr_sink_b m_a m_b m_ab m_ba].
      split; [constructor; cbn [m_a m_b m_ab m_ba]; auto|].
      rewrite length_set_nth. split; [reflexivity|]. split; [reflexivity|].
      destruct (Nat.eqb i k) eqn:Eik.
      * apply Nat.eqb_eq in Eik. subst i. destruct (Keq eq_refl) as (N1 & F1).
        unfold proj. cbn [l_step l_a l_b l_ab l_ba lr_state lr_sink_a lr_sink_b psink m_a m_b m_ab m_ba].
        rewrite N1, F1. repeat split; reflexivity.
      * apply Nat.eqb_neq in Eik. destruct (Kne ltac:(congruence)) as (N1 & F1).
        unfold proj. cbn [m_a m_b m_ab m_ba psink]. rewrite N1, F1. repeat split; reflexivity.
    + rewrite (m_write_out (m_a st) i d Hi). cbn [mr_state mr_dropped mr_sink_a mr_sink_b m_a].
      rewrite app_nil_r. destruct st as [xa xb wab wba]. cbn [m_a m_b m_ab m_ba] in *.
      split; [constructor; auto|]. split; [reflexivity|]. split; [reflexivity|].
      destruct (Nat.eqb i k) eqn:Eik; [apply Nat.eqb_eq in Eik; lia|]. repeat split; reflexivity.
  - (* MWriteB *)
    destruct (Nat.lt_ge_cases i (length (m_b st))) as [Hi|Hi].
    + destruct (write_side (m_b st) (m_a st) i d k (m_ba st) Hp' Hi ltac:(lia)) as (E & P1 & C1 & _ & Keq & Kne).
      rewrite E. cbn [mr_state mr_dropped mr_sink_a mr_sink_b m_a m_b m_ab m_ba].
      split; [constructor; cbn [m_a m_b m_ab m_ba]; auto using pairs_ok_sym|].
      split; [reflexivity|]. split; [reflexivity|].
      destruct (Nat.eqb i k) eqn:Eik.
      * apply Nat.eqb_eq in Eik. subst i. destruct (Keq eq_refl) as (N1 & F1).
        unfold proj. cbn [l_step l_a l_b l_ab l_ba lr_state lr_sink_a lr_sink_b psink m_a m_b m_ab m_ba].
        rewrite N1, F1. repeat split; reflexivity.
      * apply Nat.eqb_neq in Eik. destruct (Kne ltac:(congruence)) as (N1 & F1).
        unfold proj. cbn [m_a m_b m_ab m_ba psink]. rewrite N1, F1. repeat split; reflexivity.
    + rewrite (m_write_out (m_b st) i d Hi). cbn [mr_state mr_dropped mr_sink_a mr_sink_b m_a].
      rewrite app_nil_r. destruct st as [xa xb wab wba]. cbn [m_a m_b m_ab m_ba] in *.
      split; [constructor; auto|]. split; [reflexivity|]. split; [reflexivity|].
      destruct (Nat.eqb i k) eqn:Eik; [apply Nat.eqb_eq in Eik; lia|]. repeat split; reflexivity.
  - (* MDeliverAB *)
    destruct (m_ab st) as [|p w] eqn:Ew.
    + cbn [mr_state mr_dropped mr_sink_a mr_sink_b psink]. split; [constructor; auto; rewrite Ew; constructor|].
      split; [reflexivity|]. split; [reflexivity|]. repeat split; reflexivity.
    + inversion Hwab as [|? ? (j & Hj & Sj) Hw']; subst.
      destruct (deliver_side (m_a st) (m_b st) p j k (m_ba st) Hp Hj Hk Sj) as (E & D & P1 & C1 & Keq & Kne).
      rewrite E. cbn [mr_state mr_dropped mr_sink_a mr_sink_b m_a m_b m_ab m_ba out_of dropped_of].
      split; [constructor; cbn [m_a m_b m_ab m_ba]; auto|]. split; [reflexivity|]. split; [exact D|].
      destruct (sent_by (nth k (m_a st) dflt_ep) p) eqn:Sk.
      * pose proof (sent_unique _ _ p j k Hp Hj Hk Sj Sk). subst j. destruct (Keq eq_refl) as (N1 & F1).
        unfold proj. cbn [l_step l_a l_b l_ab l_ba m_a m_b m_ab m_ba]. rewrite Ew. cbn [filter]. rewrite Sk.
        cbn [lr_state lr_sink_a lr_sink_b psink]. rewrite N1, F1, psink_sink_of_same. repeat split; reflexivity.
      * assert (Hne : k <> j) by (intros ->; congruence). destruct (Kne Hne) as (N1 & F1).
        unfold proj. cbn [m_a m_b m_ab m_ba psink]. rewrite Ew. cbn [filter]. rewrite Sk, N1, F1.
        rewrite psink_sink_of_other by congruence. repeat split; reflexivity.
  - (* MDeliverBA *)
    destruct (m_ba st) as [|p w] eqn:Ew.
    + cbn [mr_state mr_dropped mr_sink_a mr_sink_b psink]. split; [constructor; auto; rewrite Ew; constructor|].
      split; [reflexivity|]. split; [reflexivity|]. repeat split; reflexivity.
    + inversion Hwba as [|? ? (j & Hj & Sj) Hw']; subst.
      destruct (deliver_side (m_b st) (m_a st) p j k (m_ab st) Hp' Hj ltac:(lia) Sj) as (E & D & P1 & C1 & Keq & Kne).
      rewrite E. cbn [mr_state mr_dropped mr_sink_a mr_sink_b m_a m_b m_ab m_ba out_of dropped_of].
      split; [constructor; cbn [m_a m_b m_ab m_ba]; auto using pairs_ok_sym|].
      rewrite length_set_nth. split; [reflexivity|]. split; [exact D|].
      destruct (sent_by (nth k (m_b st) dflt_ep) p) eqn:Sk.
      * pose proof (sent_unique _ _ p j k Hp' Hj ltac:(lia) Sj Sk). subst j. destruct (Keq eq_refl) as (N1 & F1).
        unfold proj. cbn [l_step l_a l_b l_ab l_ba m_a m_b m_ab m_ba]. rewrite Ew. cbn [filter]. rewrite Sk.
        cbn [lr_state lr_sink_a lr_sink_b psink]. rewrite N1, F1, psink_sink_of_same. repeat split; reflexivity.
      * assert (Hne : k <> j) by (intros ->; congruence). destruct (Kne Hne) as (N1 & F1).
        unfold proj. cbn [m_a m_b m_ab m_ba psink]. rewrite Ew. cbn [filter]. rewrite Sk, N1, F1.
        rewrite psink_sink_of_other by congruence. repeat split; reflexivity.
Qed.

Definition mlabel_ok (l : mlabel) : Prop :=
  match l with MWriteA _ d | MWriteB _ d => d <> [] | _ => True end.

Definition m_written_a (k : nat) (ls : list mlabel) : bytes :=
  concat (map (fun l => match l with MWriteA i d => if Nat.eqb i k then d else [] | _ => [] end) ls).
Definition m_written_b (k : nat) (ls : list mlabel) : bytes :=
  concat (map (fun l => match l with MWriteB i d => if Nat.eqb i k then d else [] | _ => [] end) ls).
Definition m_sunk_a (k : nat) (rs : list mres) : bytes :=
  concat (map (fun r => opt_bytes (psink k (mr_sink_a r))) rs).
Definition m_sunk_b (k : nat) (rs : list mres) : bytes :=
  concat (map (fun r => opt_bytes (psink k (mr_sink_b r))) rs).

(* channel k of the n-channel system behaves as the one-channel system run under a
   schedule of its own: same writes, same sink calls, same final state *)
Lemma m_run_proj ls : forall st k, mwf st -> (k < length (m_a st))%nat -> Forall mlabel_ok ls ->
  let '(st', rs) := m_run st ls in
  mwf st' /\ length (m_a st') = length (m_a st) /\ Forall (fun r => mr_dropped r = false) rs /\
  exists ls', Forall label_ok ls' /\
    let '(lst, lrs) := l_run (proj k st) ls' in
    proj k st' = lst /\ written_a ls' = m_written_a k ls /\ written_b ls' = m_written_b k ls /\
    sunk_a lrs = m_sunk_a k rs /\ sunk_b lrs = m_sunk_b k rs.
Proof.
  induction ls as [|l ls IH]; intros st k Hw Hk Hok; cbn [m_run].
  - split; [exact Hw|]. split; [reflexivity|]. split; [constructor|].
    exists []. split; [constructor|]. cbn. repeat split; reflexivity.
  - inversion Hok as [|? ? Hl Hok']; subst.
    destruct (m_step_proj st l k Hw Hk) as (Hw1 & Hlen1 & Hd1 & Hrel).
    assert (Hk1 : (k < length (m_a (mr_state (m_step st l))))%nat) by lia.
    specialize (IH (mr_state (m_step st l)) k Hw1 Hk1 Hok').
    destruct (m_run (mr_state (m_step st l)) ls) as [st' rs].
    destruct IH as (Hw2 & Hlen2 & Hd2 & ls' & Hok2 & IH).
    split; [exact Hw2|]. split; [lia|]. split; [constructor; assumption|].
    unfold step_rel in Hrel. destruct (plabel k st l) as [l'|] eqn:Epl.
    + destruct Hrel as (Hpr & Hsa & Hsb). rewrite Hpr in IH.
      exists (l' :: ls'). split.
      { constructor; [|exact Hok2].
        destruct l as [i d|i d| |]; cbn [plabel] in Epl.
        - destruct (Nat.eqb i k); inversion Epl; subst; exact Hl.
        - destruct (Nat.eqb i k); inversion Epl; subst; exact Hl.
        - destruct (m_ab st) as [|p w]; [discriminate|]. destruct (sent_by _ p); inversion Epl; exact I.
        - destruct (m_ba st) as [|p w]; [discriminate|]. destruct (sent_by _ p); inversion Epl; exact I. }
      cbn [l_run]. destruct (l_run (lr_state (l_step (proj k st) l')) ls') as [lst lrs].
      destruct IH as (I1 & I2 & I3 & I4 & I5).
      unfold written_a, written_b, sunk_a, sunk_b, m_written_a, m_written_b, m_sunk_a, m_sunk_b in *.
      cbn [map concat]. rewrite I2, I3, I4, I5, <- Hsa, <- Hsb.
      split; [exact I1|].
      destruct l as [i d|i d| |]; cbn [plabel] in Epl.
      * destruct (Nat.eqb i k); inversion Epl; subst. repeat split; reflexivity.
      * destruct (Nat.eqb i k); inversion Epl; subst. repeat split; reflexivity.
      * destruct (m_ab st) as [|p w]; [discriminate|]. destruct (sent_by _ p); inversion Epl; subst.
        repeat split; reflexivity.
      * destruct (m_ba st) as [|p w]; [discriminate|]. destruct (sent_by _ p); inversion Epl; subst.
        repeat split; reflexivity.
    + destruct Hrel as (Hpr & Hsa & Hsb). rewrite Hpr in IH.
      exists ls'. split; [exact Hok2|].
      destruct (l_run (proj k st) ls') as [lst lrs].
      destruct IH as (I1 & I2 & I3 & I4 & I5).
      unfold m_written_a, m_written_b, m_sunk_a, m_sunk_b in *.
      cbn [map concat]. rewrite Hsa, Hsb. cbn [opt_bytes app].
      split; [exact I1|].
      destruct l as [i d|i d| |]; cbn [plabel] in Epl.
      * destruct (Nat.eqb i k); [discriminate|]. cbn [app]. auto.
      * destruct (Nat.eqb i k); [discriminate|]. cbn [app]. auto.
      * cbn [app]. auto.
      * cbn [app]. auto.
Qed.

(* ---- n channels negotiated on one link *)
Record chan_cfg := mkCfg {
  cc_ka : kind; cc_kb : kind; cc_cid_a : Z; cc_cid_b : Z;
  cc_mtu_a : Z; cc_mps_a : Z; cc_cr_a : Z; cc_mtu_b : Z; cc_mps_b : Z; cc_cr_b : Z
}.
Definition cfg_ok (c : chan_cfg) : Prop :=
  params_ok (cc_mtu_a c) (cc_mps_a c) (cc_cr_a c) /\ params_ok (cc_mtu_b c) (cc_mps_b c) (cc_cr_b c).
Definition cfg_sys (c : chan_cfg) : lsys :=
  sys0 (cc_ka c) (cc_kb c) (cc_cid_a c) (cc_cid_b c) (cc_mtu_a c) (cc_mps_a c) (cc_cr_a c)
       (cc_mtu_b c) (cc_mps_b c) (cc_cr_b c).
Definition dflt_cfg : chan_cfg := mkCfg LeInitiator LeAcceptor 0 0 0 0 0 0 0 0.
Definition m_init (cs : list chan_cfg) : msys :=
  mkM (map (fun c => l_a (cfg_sys c)) cs) (map (fun c => l_b (cfg_sys c)) cs) [] [].

Lemma nth_map_dflt {A B} (f : A -> B) (l : list A) k d d' : (k < length l)%nat ->
  nth k (map f l) d' = f (nth k l d).
Proof. intros Hk. rewrite (nth_indep (map f l) d' (f d)) by (rewrite map_length; exact Hk). apply map_nth. Qed.

Lemma mwf_init cs : NoDup (map cc_cid_a cs) -> NoDup (map cc_cid_b cs) -> mwf (m_init cs).
Proof.
  intros Ha Hb. constructor; cbn [m_init m_a m_b m_ab m_ba]; [|constructor|constructor].
  constructor.
  - rewrite !map_length. reflexivity.
  - intros k Hk. rewrite map_length in Hk.
    rewrite (nth_map_dflt _ cs k dflt_cfg dflt_ep Hk), (nth_map_dflt _ cs k dflt_cfg dflt_ep Hk).
    cbn. auto.
  - rewrite map_map. cbn. exact Ha.
  - rewrite map_map. cbn. exact Hb.
Qed.

Lemma proj_init cs k : (k < length cs)%nat -> proj k (m_init cs) = cfg_sys (nth k cs dflt_cfg).
Proof.
  intros Hk. unfold proj, m_init. cbn [m_a m_b m_ab m_ba filter].
  rewrite (nth_map_dflt _ cs k dflt_cfg dflt_ep Hk), (nth_map_dflt _ cs k dflt_cfg dflt_ep Hk).
  reflexivity.
Qed.

Section Multi.
  Variable cs : list chan_cfg.
  Hypothesis Hcfg : Forall cfg_ok cs.
  Hypothesis Hnda : NoDup (map cc_cid_a cs).
  Hypothesis Hndb : NoDup (map cc_cid_b cs).

  (* every channel of the link, whatever the other channels do: nothing is dropped by the
     tables; its sink bytes are a prefix of its written bytes, equal (with drain() done)
     as soon as none of its own packets is in flight; its credit ledger holds and its
     frames are within the MPS *)
  Theorem multi_channel ls k : Forall mlabel_ok ls -> (k < length cs)%nat ->
    let c := nth k cs dflt_cfg in
    let '(st, rs) := m_run (m_init cs) ls in
    let pk := proj k st in
    Forall (fun r => mr_dropped r = false) rs /\
    (exists X, m_written_a k ls = m_sunk_b k rs ++ X) /\
    (exists Y, m_written_b k ls = m_sunk_a k rs ++ Y) /\
    (l_ab pk = [] -> l_ba pk = [] ->
       m_written_a k ls = m_sunk_b k rs /\ m_written_b k ls = m_sunk_a k rs /\
       s_drained (e_snd (l_a pk)) = true /\ s_drained (e_snd (l_b pk)) = true) /\
    ledger (e_snd (l_a pk)) (e_rcv (l_b pk)) (l_ab pk) (l_ba pk) (cc_cr_b c) /\
    ledger (e_snd (l_b pk)) (e_rcv (l_a pk)) (l_ba pk) (l_ab pk) (cc_cr_a c) /\
    frames_within (cc_mps_b c) (l_ab pk) /\ frames_within (cc_mps_a c) (l_ba pk).
  Proof.
    intros Hok Hk c.
    assert (Hkm : (k < length (m_a (m_init cs)))%nat) by (cbn; rewrite map_length; exact Hk).
    pose proof (m_run_proj ls (m_init cs) k (mwf_init cs Hnda Hndb) Hkm Hok) as H.
    destruct (m_run (m_init cs) ls) as [st rs].
    destruct H as (_ & _ & Hd & ls' & Hok' & H).
    rewrite (proj_init cs k Hk) in H. fold c in H.
    assert (Hc : cfg_ok c) by (apply (proj1 (Forall_forall _ _) Hcfg); apply nth_In; exact Hk).
    destruct Hc as (Ha & Hb).
    pose proof (stream_exact (cc_ka c) (cc_kb c) (cc_cid_a c) (cc_cid_b c) _ _ _ _ _ _ Ha Hb ls' Hok') as Hs.
    pose proof (credit_safe (cc_ka c) (cc_kb c) (cc_cid_a c) (cc_cid_b c) _ _ _ _ _ _ Ha Hb ls' Hok') as Hc.
    pose proof (frame_le_mps (cc_ka c) (cc_kb c) (cc_cid_a c) (cc_cid_b c) _ _ _ _ _ _ Ha Hb ls' Hok') as Hf.
    unfold cfg_sys in H. cbv zeta in Hc, Hf.
    destruct (l_run (sys0 _ _ _ _ _ _ _ _ _ _) ls') as [lst lrs].
    destruct H as (Hp & W1 & W2 & S1 & S2). cbn [fst] in Hc, Hf.
    rewrite Hp. rewrite <- W1, <- W2, <- S1, <- S2.
    destruct Hs as (P1 & P2 & Q). destruct Hc as (L1 & L2). destruct Hf as (F1 & F2).
    split; [exact Hd|]. split; [exact P1|]. split; [exact P2|]. split; [exact Q|].
    split; [exact L1|]. split; [exact L2|]. split; [exact F1|exact F2].
  Qed.
End Multi.

(* ---- the receiver-without-sink question.  The property speaks of a receiver that
   "keeps consuming", so the theorems assume a sink; this shows the assumption is
   needed: one frame that arrives before the sink is set is lost together with its
   credit, and with max_credits = 1 the channel is dead for good afterwards. *)
Lemma ep_step_s_sink e v : ep_step_s true e v = ep_step e v.
Proof. destruct v as [d|[cid d|cid n]]; cbn; rewrite ?andb_false_r; reflexivity. Qed.

Lemma nosink_leak_refuted :
  let b0 := ep_init KDst 64 80 1 23 23 1 in          (* the receiver, max_credits 1 *)
  let f1 := enc_sdu (mk_data 0 5) in let f2 := enc_sdu (mk_data 5 5) in
  let '(b, rs) := ep_run_s b0 [(false, ERecv (PFrame 64 f1)); (true, ERecv (PFrame 64 f2))] in
  (* the first SDU was discarded without a credit being returned; the sender, who paid
     its only credit for it, can never send the second one *)
  map (fun r => (er_out r, er_sink r)) rs = [([], None); ([PCredit 64 1], Some (mk_data 5 5))] /\
  r_credits (e_rcv b) = 1.
Proof. vm_compute. split; reflexivity. Qed.
