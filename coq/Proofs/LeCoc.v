(* Proofs about Model/LeCoc.v *)
From Coq Require Import ZArith List Bool Lia.
From BV Require Import Model.LeCoc.
Import ListNotations.
Open Scope Z_scope.

(* ------------------------------------------------------------------ lists *)
Lemma zlen_nonneg {A} (l : list A) : 0 <= zlen l.
Proof. unfold zlen. lia. Qed.

Lemma zlen_app {A} (l1 l2 : list A) : zlen (l1 ++ l2) = zlen l1 + zlen l2.
Proof. unfold zlen. rewrite app_length. lia. Qed.

Lemma zlen_nil {A} : zlen (@nil A) = 0.
Proof. reflexivity. Qed.

Lemma zlen_cons {A} (x : A) l : zlen (x :: l) = 1 + zlen l.
Proof. unfold zlen. cbn [length]. lia. Qed.

Lemma zlen_zero_nil {A} (l : list A) : zlen l = 0 -> l = [].
Proof. destruct l; [reflexivity|]. rewrite zlen_cons. pose proof (zlen_nonneg l). lia. Qed.

Lemma zlen_pos {A} (l : list A) : l <> [] -> 1 <= zlen l.
Proof. destruct l; [congruence|]. rewrite zlen_cons. pose proof (zlen_nonneg l). lia. Qed.

Lemma ztake_zdrop {A} n (l : list A) : ztake n l ++ zdrop n l = l.
Proof. apply firstn_skipn. Qed.

Lemma zlen_ztake_le {A} n (l : list A) : 0 <= n -> zlen (ztake n l) <= n.
Proof.
  intros Hn. unfold zlen, ztake. pose proof (firstn_le_length (Z.to_nat n) l). lia.
Qed.

Lemma ztake_nonempty {A} n (l : list A) : 1 <= n -> l <> [] -> ztake n l <> [].
Proof.
  intros Hn Hl. unfold ztake. destruct (Z.to_nat n) eqn:E; [lia|].
  destruct l; [congruence|]. cbn. discriminate.
Qed.

Definition nonempty (b : bytes) : Prop := b <> [].

Lemma concat_nonempty_nil (fs : list bytes) :
  Forall nonempty fs -> concat fs = [] -> fs = [].
Proof.
  destruct fs as [|f fs]; [reflexivity|]. intros HF Hc. inversion HF; subst.
  cbn in Hc. apply app_eq_nil in Hc. destruct Hc. contradiction.
Qed.

(* ------------------------------------------------------------------ le16 *)
Lemma un16_le16 n tl : 0 <= n < 65536 -> un16 (le16 n ++ tl) = n.
Proof.
  intros Hn. unfold le16, un16. cbn [app].
  rewrite (Z.mod_small (n / 256) 256).
  - pose proof (Z.div_mod n 256). lia.
  - split; [apply Z.div_pos; lia|]. apply Z.div_lt_upper_bound; lia.
Qed.

Lemma zlen_enc p : zlen (enc_sdu p) = 2 + zlen p.
Proof. unfold enc_sdu, le16. rewrite zlen_app. reflexivity. Qed.

(* ---------------------------------------------------------------- gather *)
Lemma gather_spec q : forall room,
  let '(p, q') := gather room q in
  p ++ concat q' = concat q /\
  (0 <= room -> zlen p <= room) /\
  (Forall nonempty q -> Forall nonempty q') /\
  (Forall nonempty q -> q <> [] -> 1 <= room -> p <> []).
Proof.
  induction q as [|d q IH]; intros room; cbn [gather].
  - repeat split; auto; cbn; try lia; try congruence.
  - destruct (room <=? 0) eqn:Er.
    + apply Z.leb_le in Er. repeat split; auto; try (cbn; lia); try (intros; lia).
    + apply Z.leb_gt in Er.
      pose proof (ztake_zdrop room d) as Hd.
      pose proof (zlen_ztake_le room d ltac:(lia)) as Hl.
      destruct (zdrop room d) as [|x rest] eqn:Edrop.
      * rewrite app_nil_r in Hd.
        specialize (IH (room - zlen (ztake room d))).
        destruct (gather (room - zlen (ztake room d)) q) as [p q''].
        destruct IH as (Hc & Hlen & Hne & Hp).
        repeat split.
        -- cbn [concat]. rewrite <- app_assoc, Hc, Hd. reflexivity.
        -- intros _. rewrite zlen_app. specialize (Hlen ltac:(lia)). lia.
        -- intros HF. inversion HF; subst. auto.
        -- intros HF _ _. inversion HF; subst. rewrite Hd.
           intros Habs. apply app_eq_nil in Habs. destruct Habs. contradiction.
      * repeat split.
        -- cbn [concat]. rewrite app_assoc, Hd. reflexivity.
        -- intros _. exact Hl.
        -- intros HF. inversion HF; subst. constructor; [unfold nonempty; discriminate|assumption].
        -- intros HF _ Hroom. inversion HF; subst. apply ztake_nonempty; assumption.
Qed.

(* ------------------------------------------------------------------ emit *)
Definition rest_bytes (o : option bytes) : bytes := match o with Some s => s | None => [] end.
Definition sdu_ok (o : option bytes) : Prop := match o with Some s => s <> [] | None => True end.

Lemma emit_spec mps s :
  1 <= mps -> s <> [] ->
  let '(packet, sdu') := emit mps s in
  packet ++ rest_bytes sdu' = s /\ packet <> [] /\ zlen packet <= mps /\ sdu_ok sdu'.
Proof.
  intros Hm Hs. unfold emit.
  pose proof (ztake_zdrop mps s) as Hd.
  pose proof (zlen_ztake_le mps s ltac:(lia)) as Hl.
  pose proof (ztake_nonempty mps s Hm Hs) as Hne.
  assert (Hsk : skipn (length (ztake mps s)) s = zdrop mps s).
  { unfold zdrop, ztake. rewrite firstn_length.
    destruct (Nat.le_ge_cases (Z.to_nat mps) (length s)) as [H|H].
    - rewrite Nat.min_l by exact H. reflexivity.
    - rewrite Nat.min_r by exact H. rewrite !skipn_all2; auto. }
  destruct (Nat.eqb (length (ztake mps s)) (length s)) eqn:E.
  - apply Nat.eqb_eq in E. cbn [rest_bytes sdu_ok]. rewrite app_nil_r.
    repeat split; auto.
    assert (Hz : length (zdrop mps s) = 0%nat).
    { rewrite <- Hd in E at 2. rewrite app_length in E. lia. }
    destruct (zdrop mps s); [|discriminate]. now rewrite app_nil_r in Hd.
  - apply Nat.eqb_neq in E. cbn [rest_bytes sdu_ok]. rewrite Hsk.
    repeat split; auto.
    intros Hz. rewrite Hz, app_nil_r in Hd. rewrite Hd in E. congruence.
Qed.

(* -------------------------------------------------------- reassembly (asm) *)
(* the reassembly part of r_on_pdu depends on (in_sdu, in_sdu_length) only *)
Definition asm_state := (option bytes * Z)%type.

Definition abuf (o : option bytes) (pdu : bytes) : bytes :=
  match o with None => pdu | Some s => s ++ pdu end.
Definition obuf (buf : bytes) : option bytes :=
  match buf with [] => None | _ => Some buf end.

Lemma abuf_obuf buf f : abuf (obuf buf) f = buf ++ f.
Proof. destruct buf; reflexivity. Qed.

Definition asm_step (a : asm_state) (pdu : bytes) : asm_state * option bytes * bool :=
  let buf := abuf (fst a) pdu in
  let len := if snd a =? 0 then (if 2 <=? zlen buf then un16 buf else 0) else snd a in
  if len =? 0 then ((Some buf, 0), None, false)
  else if zlen buf <? 2 + len then ((Some buf, len), None, false)
  else if negb (zlen buf =? 2 + len) then ((None, 0), None, true)
  else ((None, 0), Some (skipn 2 buf), false).

Lemma r_on_pdu_asm r pdu :
  let rr := r_on_pdu r pdu in
  asm_step (r_sdu r, r_len r) pdu = ((r_sdu (rr_state rr), r_len (rr_state rr)), rr_sink rr, rr_overflow rr) /\
  r_credits (rr_state rr) = fst (r_account r) /\ rr_credit rr = snd (r_account r) /\
  r_max (rr_state rr) = r_max r.
Proof.
  unfold r_on_pdu, asm_step, abuf. cbn [fst snd].
  destruct (r_account r) as [c cr]. cbv zeta.
  destruct (r_sdu r) as [s|]; cbv beta iota;
  repeat match goal with |- context [if ?c then _ else _] => destruct c end;
  cbn; repeat split; reflexivity.
Qed.

(* the receiver state after it has absorbed the bytes [buf] of an SDU whose
   payload has n bytes *)
Definition st_of (n : Z) (buf : bytes) : asm_state :=
  (obuf buf, if 2 <=? zlen buf then n else 0).

Lemma obuf_some buf : buf <> [] -> obuf buf = Some buf.
Proof. destruct buf; [congruence|reflexivity]. Qed.

Definition boundary : asm_state := (None, 0).

Definition valid_sdu (p : bytes) : Prop := 1 <= zlen p < 65536.

Lemma asm_step_partial p buf f rest :
  valid_sdu p -> f <> [] -> buf ++ f ++ rest = enc_sdu p ->
  asm_step (st_of (zlen p) buf) f =
    match rest with
    | [] => (boundary, Some p, false)
    | _ => (st_of (zlen p) (buf ++ f), None, false)
    end.
Proof.
  intros [Hp1 Hp2] Hf Heq. set (n := zlen p) in *.
  assert (Hlen : zlen buf + zlen f + zlen rest = 2 + n).
  { pose proof (f_equal zlen Heq) as H. rewrite !zlen_app, zlen_enc in H. unfold n. lia. }
  pose proof (zlen_pos f Hf) as Hfl. pose proof (zlen_nonneg buf). pose proof (zlen_nonneg rest).
  unfold asm_step, st_of. cbn [fst snd].
  rewrite abuf_obuf.
  assert (Hun : 2 <= zlen (buf ++ f) -> un16 (buf ++ f) = n).
  { intros H2. unfold enc_sdu in Heq.
    assert (Hx : exists t, buf ++ f = le16 (zlen p) ++ t).
    { rewrite app_assoc in Heq. unfold le16 in *.
      destruct (buf ++ f) as [|b0 [|b1 t]]; rewrite ?zlen_cons, ?zlen_nil in H2; try lia.
      cbn in Heq. inversion Heq. eexists. reflexivity. }
    destruct Hx as [t Ht]. rewrite Ht. apply un16_le16. fold n. lia. }
  assert (Hl : (if (if 2 <=? zlen buf then n else 0) =? 0
                then if 2 <=? zlen (buf ++ f) then un16 (buf ++ f) else 0
                else if 2 <=? zlen buf then n else 0) = if 2 <=? zlen (buf ++ f) then n else 0).
  { rewrite zlen_app in *. destruct (2 <=? zlen buf) eqn:E1.
    - apply Z.leb_le in E1. destruct (n =? 0) eqn:E2; [apply Z.eqb_eq in E2; lia|].
      destruct (2 <=? zlen buf + zlen f) eqn:E3; [reflexivity|apply Z.leb_gt in E3; lia].
    - cbn. destruct (2 <=? zlen buf + zlen f) eqn:E3; [|reflexivity].
      apply Z.leb_le in E3. apply Hun. exact E3. }
  rewrite Hl. clear Hl Hun.
  rewrite zlen_app.
  destruct (2 <=? zlen buf + zlen f) eqn:E3.
  - apply Z.leb_le in E3. destruct (n =? 0) eqn:E2; [apply Z.eqb_eq in E2; lia|].
    destruct rest as [|x rest].
    + rewrite zlen_nil in Hlen.
      destruct (zlen buf + zlen f <? 2 + n) eqn:E4; [apply Z.ltb_lt in E4; lia|].
      destruct (zlen buf + zlen f =? 2 + n) eqn:E5; [|apply Z.eqb_neq in E5; lia].
      cbn [negb]. rewrite app_nil_r in Heq. rewrite Heq.
      reflexivity.
    + rewrite zlen_cons in Hlen. pose proof (zlen_nonneg rest).
      destruct (zlen buf + zlen f <? 2 + n) eqn:E4; [|apply Z.ltb_ge in E4; lia].
      rewrite (obuf_some (buf ++ f)); [reflexivity|].
      intros Ebf; apply app_eq_nil in Ebf; destruct Ebf; contradiction.
  - cbn [Z.eqb]. apply Z.leb_gt in E3.
    destruct rest as [|x rest]; [rewrite zlen_nil in Hlen; lia|].
    rewrite (obuf_some (buf ++ f)); [reflexivity|].
    intros Ebf; apply app_eq_nil in Ebf; destruct Ebf; contradiction.
Qed.

(* ----------------------------------------------------- data in flight *)
(* [flight buf F tail P]: the receiver has absorbed [buf] of the SDU at the head of
   P; F are the frames on the wire (oldest first); [tail] is what the sender has
   still to send of the last SDU of P.  Every SDU boundary is a frame boundary. *)
Inductive flight : bytes -> list bytes -> bytes -> list bytes -> Prop :=
| fl_nil : flight [] [] [] []
| fl_sdu : forall buf fs p F tail P,
    valid_sdu p -> buf ++ concat fs = enc_sdu p -> fs <> [] -> Forall nonempty fs ->
    flight [] F tail P -> flight buf (fs ++ F) tail (p :: P)
| fl_last : forall buf fs tail p,
    valid_sdu p -> buf ++ concat fs ++ tail = enc_sdu p -> tail <> [] -> Forall nonempty fs ->
    flight buf fs tail [p].

Definition hd_len (P : list bytes) : Z := match P with p :: _ => zlen p | [] => 0 end.

Lemma st_of_nil n : st_of n [] = boundary.
Proof. reflexivity. Qed.

Lemma flight_empty buf F tail : flight buf F tail [] -> buf = [] /\ F = [] /\ tail = [].
Proof. intros H. inversion H; subst. auto. Qed.

Lemma flight_idle buf P : flight buf [] [] P -> buf = [] /\ P = [].
Proof.
  intros H. inversion H; subst; auto.
  - match goal with H : _ ++ _ = [] |- _ => apply app_eq_nil in H; destruct H; contradiction end.
  - contradiction.
Qed.

Lemma enc_nonempty p : enc_sdu p <> [].
Proof. unfold enc_sdu, le16. discriminate. Qed.

Lemma flight_deliver buf f F tail P :
  flight buf (f :: F) tail P ->
  (asm_step (st_of (hd_len P) buf) f = (st_of (hd_len P) (buf ++ f), None, false) /\
   flight (buf ++ f) F tail P) \/
  (exists p P', P = p :: P' /\ asm_step (st_of (hd_len P) buf) f = (boundary, Some p, false) /\
                flight [] F tail P').
Proof.
  intros H. inversion H; subst.
  - (* fl_sdu *)
    destruct fs as [|f' fs']; [congruence|].
    match goal with H : (_ :: _) ++ _ = _ :: _ |- _ => cbn in H; inversion H; subst; clear H end.
    match goal with H : Forall nonempty (_ :: _) |- _ => inversion H; subst; clear H end.
    cbn [concat] in *. cbn [hd_len].
    pose proof (asm_step_partial p buf f (concat fs') ltac:(assumption) ltac:(assumption) ltac:(assumption)) as Hs.
    destruct fs' as [|g fs''].
    + right. exists p, P0. cbn in Hs. repeat split; auto.
    + left. destruct (concat (g :: fs'')) eqn:Ec.
      { apply concat_nonempty_nil in Ec; [discriminate|assumption]. }
      split; [exact Hs|].
      rewrite <- Ec in *. apply fl_sdu; auto.
      * rewrite <- app_assoc. assumption.
      * discriminate.
  - (* fl_last *)
    left. match goal with H : Forall nonempty (_ :: _) |- _ => inversion H; subst; clear H end.
    cbn [concat hd_len] in *.
    match goal with H : _ ++ (_ ++ _) ++ _ = enc_sdu _ |- _ => rewrite <- app_assoc in H; rename H into Heq end.
    pose proof (asm_step_partial p buf f (concat F ++ tail) ltac:(assumption) ltac:(assumption) Heq) as Hs.
    destruct (concat F ++ tail) eqn:Ec.
    { apply app_eq_nil in Ec. destruct Ec. contradiction. }
    split; [exact Hs|]. rewrite <- Ec in *.
    apply fl_last; auto. rewrite <- app_assoc. assumption.
Qed.

Lemma flight_emit buf F t P : flight buf F t P ->
  forall x y, t = x ++ y -> x <> [] -> flight buf (F ++ [x]) y P.
Proof.
  induction 1; intros x y Ht Hx.
  - symmetry in Ht. apply app_eq_nil in Ht. destruct Ht. contradiction.
  - rewrite <- app_assoc. apply fl_sdu; auto.
  - subst tail. destruct y as [|y0 y'].
    + rewrite app_nil_r in *.
      pose proof (fl_sdu buf (fs ++ [x]) p [] [] []) as Hk. rewrite app_nil_r in Hk.
      apply Hk; auto.
      * rewrite concat_app. cbn. rewrite app_nil_r. assumption.
      * intros Hn. apply app_eq_nil in Hn. destruct Hn. discriminate.
      * apply Forall_app. split; [assumption|]. constructor; [exact Hx|constructor].
      * constructor.
    + apply fl_last; auto.
      * rewrite concat_app. cbn [concat]. rewrite app_nil_r, <- !app_assoc. assumption.
      * discriminate.
      * apply Forall_app. split; [assumption|]. constructor; [exact Hx|constructor].
Qed.

Lemma flight_new buf F t P : flight buf F t P ->
  forall p, t = [] -> valid_sdu p -> flight buf F (enc_sdu p) (P ++ [p]).
Proof.
  induction 1; intros q Ht Hq.
  - cbn [app]. apply fl_last; auto. apply enc_nonempty.
  - cbn [app]. apply fl_sdu; auto.
  - contradiction.
Qed.

Lemma hd_len_app P Q buf F t : flight buf F t P ->
  st_of (hd_len (P ++ Q)) buf = st_of (hd_len P) buf.
Proof.
  intros H. destruct P; [|reflexivity].
  apply flight_empty in H. destruct H as (-> & _). reflexivity.
Qed.

(* ------------------------------------------------------- process_output *)
Lemma po_idle n mtu mps dr :
  po n mtu mps [] None dr = ([], [], None, match n with O => dr | S _ => true end).
Proof. destruct n; reflexivity. Qed.

Definition frame_ok (mps : Z) (f : bytes) : Prop := 1 <= zlen f <= mps.
Definition sdu_fits (mtu : Z) (p : bytes) : Prop := valid_sdu p /\ zlen p <= mtu.

Lemma po_spec n : forall mtu mps q sdu dr buf F P,
  1 <= mps -> 1 <= mtu < 65536 -> Forall nonempty q -> sdu_ok sdu ->
  flight buf F (rest_bytes sdu) P ->
  let '(fs, q', sdu', dr') := po n mtu mps q sdu dr in
  exists P',
    flight buf (F ++ fs) (rest_bytes sdu') (P ++ P') /\
    concat P' ++ concat q' = concat q /\
    Forall (sdu_fits mtu) P' /\
    Forall nonempty q' /\ sdu_ok sdu' /\
    Forall (frame_ok mps) fs /\
    (length fs <= n)%nat /\
    ((length fs < n)%nat -> q' = [] /\ sdu' = None /\ dr' = true) /\
    (dr = false -> dr' = true -> q' = [] /\ sdu' = None).
Proof.
  induction n as [|n IH]; intros mtu mps q sdu dr buf F P Hmps Hmtu Hq Hsdu Hfl.
  - cbn [po]. exists []. rewrite !app_nil_r. repeat split; auto; try (cbn; lia); try congruence.
  - cbn [po]. destruct sdu as [s|].
    + cbn [sdu_ok rest_bytes] in *.
      pose proof (emit_spec mps s Hmps Hsdu) as He.
      destruct (emit mps s) as [packet sdu1]. destruct He as (Hps & Hpne & Hpl & Hok1).
      pose proof (flight_emit _ _ _ _ Hfl packet (rest_bytes sdu1) (eq_sym Hps) Hpne) as Hfl1.
      specialize (IH mtu mps q sdu1 dr buf (F ++ [packet]) P Hmps Hmtu Hq Hok1 Hfl1).
      destruct (po n mtu mps q sdu1 dr) as [[[fs q2] sdu2] dr2].
      destruct IH as (P' & H1 & H2 & H3 & H4 & H5 & H6 & H7 & H8 & H9).
      exists P'. rewrite <- app_assoc in H1. cbn [app] in H1.
      repeat split; auto;
        try (constructor; [split; [apply zlen_pos; assumption|assumption]|assumption]);
        try (cbn [length]; lia);
        try (destruct H8 as (? & ? & ?); [cbn [length] in *; lia|]; assumption);
        try (destruct H9 as (? & ?); assumption).
    + destruct q as [|d q0].
      * exists []. rewrite !app_nil_r. repeat split; auto; cbn; try lia; try constructor.
      * cbn [rest_bytes] in Hfl.
        pose proof (gather_spec (d :: q0) mtu) as Hg.
        destruct (gather mtu (d :: q0)) as [payload q1].
        destruct Hg as (Hc & Hl & Hne & Hp).
        specialize (Hl ltac:(lia)). specialize (Hne Hq).
        specialize (Hp Hq ltac:(discriminate) ltac:(lia)).
        assert (Hv : valid_sdu payload).
        { split; [apply zlen_pos; assumption|lia]. }
        pose proof (flight_new _ _ _ _ Hfl payload eq_refl Hv) as Hfl0.
        pose proof (emit_spec mps (enc_sdu payload) Hmps (enc_nonempty payload)) as He.
        destruct (emit mps (enc_sdu payload)) as [packet sdu1].
        destruct He as (Hps & Hpne & Hpl & Hok1).
        pose proof (flight_emit _ _ _ _ Hfl0 packet (rest_bytes sdu1) (eq_sym Hps) Hpne) as Hfl1.
        specialize (IH mtu mps q1 sdu1 dr buf (F ++ [packet]) (P ++ [payload]) Hmps Hmtu Hne Hok1 Hfl1).
        destruct (po n mtu mps q1 sdu1 dr) as [[[fs q2] sdu2] dr2].
        destruct IH as (P' & H1 & H2 & H3 & H4 & H5 & H6 & H7 & H8 & H9).
        exists (payload :: P'). rewrite <- !app_assoc in H1. cbn [app] in H1.
        repeat split; auto;
          try (cbn [concat]; rewrite <- app_assoc, H2; exact Hc);
          try (constructor; [split; assumption|assumption]);
          try (constructor; [split; [apply zlen_pos; assumption|assumption]|assumption]);
          try (cbn [length]; lia);
          try (destruct H8 as (? & ? & ?); [cbn [length] in *; lia|]; assumption);
          try (destruct H9 as (? & ?); assumption).
Qed.

Lemma po_false n : forall mtu mps q sdu,
  let '(fs, q', sdu', dr') := po n mtu mps q sdu false in
  dr' = true -> q' = [] /\ sdu' = None.
Proof.
  induction n as [|n IH]; intros mtu mps q sdu; cbn [po].
  - discriminate.
  - destruct sdu as [s|].
    + destruct (emit mps s) as [packet sdu1]. specialize (IH mtu mps q sdu1).
      destruct (po n mtu mps q sdu1 false) as [[[fs q2] sdu2] dr2]. exact IH.
    + destruct q as [|d q0]; [auto|].
      destruct (gather mtu (d :: q0)) as [payload q1].
      destruct (emit mps (enc_sdu payload)) as [packet sdu1]. specialize (IH mtu mps q1 sdu1).
      destruct (po n mtu mps q1 sdu1 false) as [[[fs q2] sdu2] dr2]. exact IH.
Qed.

Lemma po_drained n mtu mps q sdu dr :
  (dr = true -> q = [] /\ sdu = None) ->
  let '(fs, q', sdu', dr') := po n mtu mps q sdu dr in
  dr' = true -> q' = [] /\ sdu' = None.
Proof.
  intros Hdr. destruct dr.
  - destruct (Hdr eq_refl) as (-> & ->). rewrite po_idle. auto.
  - apply po_false.
Qed.

(* ------------------------------------------- one direction of one channel *)
(* sender half at one end, receiver half at the other, K-frames in flight one
   way, credit packets in flight the other way; W / S are ghost histories: all
   bytes written so far, all bytes handed to the sink so far. *)
Record view := mkV {
  v_s : sndr; v_r : rcvr; v_F : list bytes; v_K : list Z; v_W : bytes; v_S : bytes
}.

Inductive vlabel := VWrite (d : bytes) | VFrame | VCredit.

Definition opt_list {A} (o : option A) : list A := match o with Some x => [x] | None => [] end.
Definition opt_bytes (o : option bytes) : bytes := match o with Some x => x | None => [] end.

Definition v_step (v : view) (l : vlabel) : view :=
  match l with
  | VWrite d =>
      let '(s, fs) := s_write (v_s v) d in
      mkV s (v_r v) (v_F v ++ fs) (v_K v) (v_W v ++ d) (v_S v)
  | VFrame =>
      match v_F v with
      | [] => v
      | f :: F =>
          let rr := r_on_pdu (v_r v) f in
          mkV (v_s v) (rr_state rr) F (v_K v ++ opt_list (rr_credit rr)) (v_W v)
              (v_S v ++ opt_bytes (rr_sink rr))
      end
  | VCredit =>
      match v_K v with
      | [] => v
      | n :: K =>
          let '(s, fs) := s_on_credits (v_s v) n in
          mkV s (v_r v) (v_F v ++ fs) K (v_W v) (v_S v)
      end
  end.

Definition vlabel_ok (l : vlabel) : Prop := match l with VWrite d => d <> [] | _ => True end.

Fixpoint zsum (l : list Z) : Z := match l with [] => 0 | x :: l' => x + zsum l' end.

Lemma zsum_app a b : zsum (a ++ b) = zsum a + zsum b.
Proof. induction a; cbn [app zsum]; lia. Qed.

Lemma zsum_nonneg l : Forall (fun n => 1 <= n) l -> 0 <= zsum l.
Proof. induction 1; cbn [zsum]; lia. Qed.

Record vinv (v : view) : Prop := {
  vi_mps : 1 <= s_mps (v_s v);
  vi_mtu : 1 <= s_mtu (v_s v) < 65536;
  vi_max : 1 <= r_max (v_r v);
  (* the credit ledger *)
  vi_ledger : s_credits (v_s v) + zlen (v_F v) + zsum (v_K v) = r_credits (v_r v);
  vi_cred : 0 <= s_credits (v_s v);
  vi_K : Forall (fun n => 1 <= n) (v_K v);
  vi_rc : r_max (v_r v) / 2 < r_credits (v_r v) <= r_max (v_r v);
  (* work conservation and the meaning of drained *)
  vi_work : 0 < s_credits (v_s v) ->
            s_queue (v_s v) = [] /\ s_sdu (v_s v) = None /\ s_drained (v_s v) = true;
  vi_drained : s_drained (v_s v) = true -> s_queue (v_s v) = [] /\ s_sdu (v_s v) = None;
  vi_queue : Forall nonempty (s_queue (v_s v));
  vi_sdu : sdu_ok (s_sdu (v_s v));
  vi_frames : Forall (frame_ok (s_mps (v_s v))) (v_F v);
  (* the byte stream *)
  vi_flight : exists buf P,
      (r_sdu (v_r v), r_len (v_r v)) = st_of (hd_len P) buf /\
      flight buf (v_F v) (rest_bytes (s_sdu (v_s v))) P /\
      Forall (sdu_fits (s_mtu (v_s v))) P /\
      v_W v = v_S v ++ concat P ++ concat (s_queue (v_s v))
}.

Definition v_init (credits mtu mps : Z) : view :=
  mkV (snd_init credits mtu mps) (rcv_init credits) [] [] [] [].

Lemma half_lt m : 1 <= m -> m / 2 < m.
Proof. intros. apply Z.div_lt; lia. Qed.

Lemma vinv_init credits mtu mps :
  1 <= credits -> 1 <= mtu < 65536 -> 1 <= mps -> vinv (v_init credits mtu mps).
Proof.
  intros Hc Hm Hp. constructor; cbn; auto; try lia.
  - split; [apply half_lt; lia|lia].
  - exists [], []. repeat split; auto; constructor.
Qed.

(* what process_output does to a view: used for write and for on_credits *)
Lemma vinv_po v c q dr fs s' W' K' :
  vinv v ->
  0 <= c -> Forall nonempty q ->
  process_output (mkSnd c (s_mtu (v_s v)) (s_mps (v_s v)) q (s_sdu (v_s v)) dr) = (s', fs) ->
  c + zlen (v_F v) + zsum K' = r_credits (v_r v) ->
  Forall (fun n => 1 <= n) K' ->
  (dr = true -> q = [] /\ s_sdu (v_s v) = None) ->
  (forall P, v_W v = v_S v ++ concat P ++ concat (s_queue (v_s v)) ->
             W' = v_S v ++ concat P ++ concat q) ->
  vinv (mkV s' (v_r v) (v_F v ++ fs) K' W' (v_S v)).
Proof.
  intros Hi Hc Hq Hpo Hled HK Hdr HW.
  destruct Hi as [Imps Imtu Imax Iled Icred IK Irc Iwork Idr Iq Isdu Ifr Ifl].
  destruct Ifl as (buf & P & Hst & Hfl & HP & HWS).
  unfold process_output in Hpo. cbn [s_credits s_mtu s_mps s_queue s_sdu s_drained] in Hpo.
  pose proof (po_spec (Z.to_nat c) (s_mtu (v_s v)) (s_mps (v_s v)) q (s_sdu (v_s v)) dr buf (v_F v) P
                Imps Imtu Hq Isdu Hfl) as Hs.
  pose proof (po_drained (Z.to_nat c) (s_mtu (v_s v)) (s_mps (v_s v)) q (s_sdu (v_s v)) dr Hdr) as Hd.
  destruct (po (Z.to_nat c) (s_mtu (v_s v)) (s_mps (v_s v)) q (s_sdu (v_s v)) dr) as [[[fs0 q'] sdu'] dr'].
  inversion Hpo; subst s' fs0. clear Hpo.
  destruct Hs as (P' & H1 & H2 & H3 & H4 & H5 & H6 & H7 & H8 & H9).
  assert (Hfsl : zlen fs <= c) by (unfold zlen; lia).
  constructor; cbn [v_s v_r v_F v_K v_W v_S s_credits s_mtu s_mps s_queue s_sdu s_drained]; auto.
  - rewrite zlen_app. lia.
  - lia.
  - intros Hpos. apply H8. unfold zlen in *. lia.
  - apply Forall_app. split; assumption.
  - exists buf, (P ++ P'). repeat split.
    + rewrite (hd_len_app P P' buf _ _ Hfl). exact Hst.
    + exact H1.
    + apply Forall_app. split; assumption.
    + rewrite (HW P HWS). rewrite concat_app, <- !app_assoc. rewrite H2. reflexivity.
Qed.

Lemma vinv_step v l : vinv v -> vlabel_ok l -> vinv (v_step v l).
Proof.
  intros Hi Hl. destruct l as [d| |]; cbn [v_step].
  - (* write *)
    unfold s_write.
    destruct (process_output _) as [s' fs] eqn:Hpo.
    eapply (vinv_po v (s_credits (v_s v)) (s_queue (v_s v) ++ [d]) false fs s' (v_W v ++ d) (v_K v) Hi);
      try exact Hpo.
    + apply (vi_cred v Hi).
    + apply Forall_app. split; [apply (vi_queue v Hi)|]. constructor; [exact Hl|constructor].
    + apply (vi_ledger v Hi).
    + apply (vi_K v Hi).
    + discriminate.
    + intros P HW. rewrite HW, concat_app. cbn [concat]. rewrite app_nil_r, <- !app_assoc. reflexivity.
  - (* a K-frame reaches the receiver *)
    destruct (v_F v) as [|f F] eqn:EF; [exact Hi|].
    destruct Hi as [Imps Imtu Imax Iled Icred IK Irc Iwork Idr Iq Isdu Ifr Ifl].
    rewrite EF in *.
    destruct Ifl as (buf & P & Hst & Hfl & HP & HWS).
    pose proof (r_on_pdu_asm (v_r v) f) as Ha. cbv zeta in Ha.
    destruct Ha as (Hasm & Hcr & Hcp & Hmax).
    rewrite zlen_cons in Iled. pose proof (zlen_nonneg F) as HF0. pose proof (zsum_nonneg _ IK) as HK0.
    assert (Hacc : r_account (v_r v) =
                   if r_credits (v_r v) - 1 <=? r_max (v_r v) / 2
                   then (r_max (v_r v), Some (r_max (v_r v) - (r_credits (v_r v) - 1)))
                   else (r_credits (v_r v) - 1, None)).
    { unfold r_account, r_thresh. destruct (r_credits (v_r v) =? 0) eqn:E; [apply Z.eqb_eq in E; lia|reflexivity]. }
    rewrite Hacc in Hcr, Hcp.
    inversion Ifr as [|? ? Hf0 Ifr']; subst.
    rewrite Hst in Hasm.
    constructor; cbn [v_s v_r v_F v_K v_W v_S]; auto.
    + lia.
    + (* ledger *)
      rewrite Hcr, Hcp, zsum_app.
      destruct (r_credits (v_r v) - 1 <=? r_max (v_r v) / 2); cbn [fst snd opt_list zsum]; lia.
    + rewrite Hcp. apply Forall_app. split; [assumption|].
      destruct (r_credits (v_r v) - 1 <=? r_max (v_r v) / 2) eqn:E; cbn [snd opt_list]; [|constructor].
      apply Z.leb_le in E. constructor; [|constructor]. pose proof (half_lt _ Imax). lia.
    + rewrite Hcr, Hmax.
      destruct (r_credits (v_r v) - 1 <=? r_max (v_r v) / 2) eqn:E; cbn [fst].
      * pose proof (half_lt _ Imax). lia.
      * apply Z.leb_gt in E. lia.
    + (* stream *)
      destruct (flight_deliver _ _ _ _ _ Hfl) as [(Hs & Hfl') | (p & P' & -> & Hs & Hfl')].
      * rewrite Hs in Hasm. inversion Hasm as [[Hb Hl0 Hk Ho]].
        exists (buf ++ f), P. cbn [opt_bytes]. rewrite app_nil_r.
        repeat split; auto.
      * rewrite Hs in Hasm. inversion Hasm as [[Hb Hl0 Hk Ho]].
        exists [], P'. cbn [opt_bytes].
        repeat split; auto.
        -- inversion HP; assumption.
        -- rewrite HWS. cbn [concat]. rewrite <- !app_assoc. reflexivity.
  - (* a credit packet reaches the sender *)
    destruct (v_K v) as [|n K] eqn:EK; [exact Hi|].
    unfold s_on_credits.
    destruct (process_output _) as [s' fs] eqn:Hpo.
    pose proof (vi_K v Hi) as HK. rewrite EK in HK. inversion HK as [|? ? Hn HK']; subst.
    pose proof (vi_ledger v Hi) as Hled. rewrite EK in Hled. cbn [zsum] in Hled.
    eapply (vinv_po v (s_credits (v_s v) + n) (s_queue (v_s v)) (s_drained (v_s v)) fs s' (v_W v) K Hi);
      try exact Hpo; auto.
    + pose proof (vi_cred v Hi). lia.
    + apply (vi_queue v Hi).
    + lia.
    + apply (vi_drained v Hi).
Qed.

(* ------------------------------------------------------------- reachability *)
Fixpoint v_run (v : view) (ls : list vlabel) : view :=
  match ls with [] => v | l :: ls' => v_run (v_step v l) ls' end.

Lemma vinv_run ls : forall v, vinv v -> Forall vlabel_ok ls -> vinv (v_run v ls).
Proof.
  induction ls as [|l ls IH]; intros v Hi Hok; cbn [v_run]; [exact Hi|].
  inversion Hok; subst. apply IH; [apply vinv_step; assumption|assumption].
Qed.

(* quiescent: nothing in flight either way *)
Definition v_quiet (v : view) : Prop := v_F v = [] /\ v_K v = [].
(* final: everything written has reached the sink and drain() has completed *)
Definition v_final (v : view) : Prop :=
  v_W v = v_S v /\ s_queue (v_s v) = [] /\ s_sdu (v_s v) = None /\ s_drained (v_s v) = true.

Lemma vinv_prefix v : vinv v -> exists X, v_W v = v_S v ++ X.
Proof.
  intros Hi. destruct (vi_flight v Hi) as (buf & P & _ & _ & _ & HW).
  eexists. exact HW.
Qed.

Lemma vinv_quiet_final v : vinv v -> v_quiet v -> v_final v.
Proof.
  intros Hi (HF & HK).
  pose proof (vi_ledger v Hi) as Hled. rewrite HF, HK in Hled. cbn [zsum] in Hled. rewrite zlen_nil in Hled.
  pose proof (vi_rc v Hi) as Hrc. pose proof (vi_max v Hi) as Hmax.
  assert (Hpos : 0 < s_credits (v_s v)).
  { assert (0 <= r_max (v_r v) / 2) by (apply Z.div_pos; lia). lia. }
  destruct (vi_work v Hi Hpos) as (Hq & Hs & Hd).
  destruct (vi_flight v Hi) as (buf & P & _ & Hfl & _ & HW).
  rewrite HF, Hs in Hfl. cbn [rest_bytes] in Hfl.
  destruct (flight_idle _ _ Hfl) as (_ & ->).
  rewrite Hq in HW. cbn [concat] in HW. rewrite app_nil_r in HW.
  repeat split; auto.
Qed.

(* ---- progress: with no further writes every delivery strictly decreases
   [measure], and as long as the state is not final a delivery is enabled. *)
Definition pending_bytes (s : sndr) : Z :=
  zlen (rest_bytes (s_sdu s)) + 3 * zlen (concat (s_queue s)).
Definition measure (v : view) : Z :=
  3 * pending_bytes (v_s v) + 2 * zlen (v_F v) + zlen (v_K v).

Lemma po_measure n : forall mtu mps q sdu dr,
  1 <= mps -> 1 <= mtu -> Forall nonempty q -> sdu_ok sdu ->
  let '(fs, q', sdu', dr') := po n mtu mps q sdu dr in
  zlen (rest_bytes sdu') + 3 * zlen (concat q') + zlen fs <= zlen (rest_bytes sdu) + 3 * zlen (concat q).
Proof.
  induction n as [|n IH]; intros mtu mps q sdu dr Hmps Hmtu Hq Hsdu; cbn [po].
  - rewrite zlen_nil. lia.
  - destruct sdu as [s|].
    + cbn [sdu_ok rest_bytes] in *.
      pose proof (emit_spec mps s Hmps Hsdu) as He.
      destruct (emit mps s) as [packet sdu1]. destruct He as (Hps & Hpne & Hpl & Hok1).
      specialize (IH mtu mps q sdu1 dr Hmps Hmtu Hq Hok1).
      destruct (po n mtu mps q sdu1 dr) as [[[fs q2] sdu2] dr2].
      rewrite zlen_cons. rewrite <- Hps, zlen_app. pose proof (zlen_pos _ Hpne). lia.
    + destruct q as [|d q0].
      * cbn. lia.
      * pose proof (gather_spec (d :: q0) mtu) as Hg.
        destruct (gather mtu (d :: q0)) as [payload q1].
        destruct Hg as (Hc & Hl & Hne & Hp).
        specialize (Hne Hq). specialize (Hp Hq ltac:(discriminate) ltac:(lia)).
        pose proof (emit_spec mps (enc_sdu payload) Hmps (enc_nonempty payload)) as He.
        destruct (emit mps (enc_sdu payload)) as [packet sdu1].
        destruct He as (Hps & Hpne & Hpl & Hok1).
        specialize (IH mtu mps q1 sdu1 dr Hmps Hmtu Hne Hok1).
        destruct (po n mtu mps q1 sdu1 dr) as [[[fs q2] sdu2] dr2].
        rewrite zlen_cons. cbn [rest_bytes]. rewrite zlen_nil.
        rewrite <- Hc, zlen_app.
        pose proof (f_equal zlen Hps) as Hz. rewrite zlen_app, zlen_enc in Hz.
        pose proof (zlen_pos _ Hpne). pose proof (zlen_pos _ Hp). lia.
Qed.

Definition enabled (v : view) (l : vlabel) : Prop :=
  match l with VFrame => v_F v <> [] | VCredit => v_K v <> [] | VWrite _ => False end.

Lemma measure_nonneg v : vinv v -> 0 <= measure v.
Proof.
  intros _. unfold measure, pending_bytes.
  pose proof (zlen_nonneg (rest_bytes (s_sdu (v_s v)))). pose proof (zlen_nonneg (concat (s_queue (v_s v)))).
  pose proof (zlen_nonneg (v_F v)). pose proof (zlen_nonneg (v_K v)). lia.
Qed.

Lemma measure_decreases v l : vinv v -> enabled v l -> measure (v_step v l) < measure v.
Proof.
  intros Hi He. destruct l as [d| |]; cbn [enabled] in He; [contradiction| |]; cbn [v_step].
  - destruct (v_F v) as [|f F] eqn:EF; [congruence|].
    unfold measure. cbn [v_s v_F v_K]. rewrite EF, zlen_app, zlen_cons.
    assert (zlen (opt_list (rr_credit (r_on_pdu (v_r v) f))) <= 1).
    { destruct (rr_credit _); cbn; lia. }
    lia.
  - destruct (v_K v) as [|n K] eqn:EK; [congruence|].
    unfold s_on_credits, process_output.
    cbn [s_credits s_mtu s_mps s_queue s_sdu s_drained].
    pose proof (po_measure (Z.to_nat (s_credits (v_s v) + n)) (s_mtu (v_s v)) (s_mps (v_s v))
                  (s_queue (v_s v)) (s_sdu (v_s v)) (s_drained (v_s v))
                  (vi_mps v Hi) (proj1 (vi_mtu v Hi)) (vi_queue v Hi) (vi_sdu v Hi)) as Hm.
    destruct (po _ _ _ _ _ _) as [[[fs q'] sdu'] dr'].
    unfold measure, pending_bytes. cbn [v_s v_F v_K s_queue s_sdu]. rewrite EK, zlen_app, zlen_cons.
    pose proof (zlen_nonneg fs). lia.
Qed.

Fixpoint all_enabled (v : view) (ls : list vlabel) : Prop :=
  match ls with [] => True | l :: ls' => enabled v l /\ all_enabled (v_step v l) ls' end.

Lemma enabled_ok v l : enabled v l -> vlabel_ok l.
Proof. destruct l; cbn; auto; contradiction. Qed.

Lemma deliveries_bounded ls : forall v,
  vinv v -> all_enabled v ls -> zlen ls <= measure v.
Proof.
  induction ls as [|l ls IH]; intros v Hi Hen.
  - rewrite zlen_nil. apply measure_nonneg. exact Hi.
  - destruct Hen as (He & Hen). rewrite zlen_cons.
    pose proof (measure_decreases v l Hi He).
    specialize (IH (v_step v l) (vinv_step v l Hi (enabled_ok v l He)) Hen). lia.
Qed.

Lemma not_final_enabled v : vinv v -> ~ v_final v -> enabled v VFrame \/ enabled v VCredit.
Proof.
  intros Hi Hnf. cbn [enabled].
  destruct (v_F v) eqn:EF; [|left; discriminate].
  destruct (v_K v) eqn:EK; [|right; discriminate].
  exfalso. apply Hnf. apply vinv_quiet_final; [exact Hi|split; assumption].
Qed.

(* some delivery schedule completes the transfer; by [deliveries_bounded] every
   delivery schedule is finite, so every maximal one ends in a final state *)
Lemma completes v : vinv v -> exists ls, all_enabled v ls /\ v_quiet (v_run v ls).
Proof.
  intros Hi. remember (Z.to_nat (measure v)) as k eqn:Hk.
  revert v Hi Hk. induction k as [k IH] using lt_wf_ind. intros v Hi Hk.
  destruct (v_F v) as [|f F] eqn:EF.
  - destruct (v_K v) as [|n K] eqn:EK.
    + exists []. split; [exact I|]. split; assumption.
    + assert (He : enabled v VCredit) by (cbn; congruence).
      pose proof (measure_decreases v _ Hi He) as Hd. pose proof (measure_nonneg v Hi) as Hm0.
      pose proof (measure_nonneg _ (vinv_step v VCredit Hi I)) as H0.
      destruct (IH (Z.to_nat (measure (v_step v VCredit))) ltac:(lia) (v_step v VCredit)
                  (vinv_step v VCredit Hi I) eq_refl) as (ls & Hen & Hq).
      exists (VCredit :: ls). split; [split; assumption|exact Hq].
  - assert (He : enabled v VFrame) by (cbn; congruence).
    pose proof (measure_decreases v _ Hi He) as Hd. pose proof (measure_nonneg v Hi) as Hm0.
    pose proof (measure_nonneg _ (vinv_step v VFrame Hi I)) as H0.
    destruct (IH (Z.to_nat (measure (v_step v VFrame))) ltac:(lia) (v_step v VFrame)
                (vinv_step v VFrame Hi I) eq_refl) as (ls & Hen & Hq).
    exists (VFrame :: ls). split; [split; assumption|exact Hq].
Qed.

(* =================================================== the two-party system *)
Definition frame_of (p : pkt) : list bytes := match p with PFrame _ d => [d] | PCredit _ _ => [] end.
Definition credit_of (p : pkt) : list Z := match p with PCredit _ n => [n] | PFrame _ _ => [] end.
Definition frames_of (w : list pkt) : list bytes := flat_map frame_of w.
Definition credits_of (w : list pkt) : list Z := flat_map credit_of w.

Lemma frames_of_app a b : frames_of (a ++ b) = frames_of a ++ frames_of b.
Proof. apply flat_map_app. Qed.
Lemma credits_of_app a b : credits_of (a ++ b) = credits_of a ++ credits_of b.
Proof. apply flat_map_app. Qed.
Lemma frames_of_frames c fs : frames_of (map (PFrame c) fs) = fs.
Proof. induction fs; cbn; [reflexivity|]. f_equal. exact IHfs. Qed.
Lemma credits_of_frames c fs : credits_of (map (PFrame c) fs) = [].
Proof. induction fs; cbn; auto. Qed.
Lemma frames_of_credit c o : frames_of (match o with Some n => [PCredit c n] | None => [] end) = [].
Proof. destruct o; reflexivity. Qed.
Lemma credits_of_credit c o : credits_of (match o with Some n => [PCredit c n] | None => [] end) = opt_list o.
Proof. destruct o; reflexivity. Qed.

(* what an endpoint puts on the wire names the channel the way the peer's
   tables expect: frames carry our destination CID, credits our source CID *)
Definition addressed (e : ep) (p : pkt) : Prop :=
  match p with PFrame cid _ => cid = e_dst e | PCredit cid _ => cid = e_src e end.

Record wired (st : lsys) : Prop := {
  w_ab : e_dst (l_a st) = e_src (l_b st);
  w_ba : e_dst (l_b st) = e_src (l_a st);
  w_ka : e_key (l_a st) = e_dst (l_a st);
  w_kb : e_key (l_b st) = e_dst (l_b st);
  w_wab : Forall (addressed (l_a st)) (l_ab st);
  w_wba : Forall (addressed (l_b st)) (l_ba st)
}.

(* ghost histories: bytes written at A / B, bytes sunk at A / B *)
Record ghost := mkG { g_wa : bytes; g_wb : bytes; g_sa : bytes; g_sb : bytes }.

Definition view_ab (st : lsys) (g : ghost) : view :=
  mkV (e_snd (l_a st)) (e_rcv (l_b st)) (frames_of (l_ab st)) (credits_of (l_ba st)) (g_wa g) (g_sb g).
Definition view_ba (st : lsys) (g : ghost) : view :=
  mkV (e_snd (l_b st)) (e_rcv (l_a st)) (frames_of (l_ba st)) (credits_of (l_ab st)) (g_wb g) (g_sa g).

Definition g_step (g : ghost) (l : label) (r : lres) : ghost :=
  mkG (g_wa g ++ match l with WriteA d => d | _ => [] end)
      (g_wb g ++ match l with WriteB d => d | _ => [] end)
      (g_sa g ++ opt_bytes (lr_sink_a r))
      (g_sb g ++ opt_bytes (lr_sink_b r)).

Definition label_ok (l : label) : Prop :=
  match l with WriteA d | WriteB d => d <> [] | _ => True end.

Record linv (st : lsys) (g : ghost) : Prop := {
  li_wired : wired st;
  li_ab : vinv (view_ab st g);
  li_ba : vinv (view_ba st g)
}.

Lemma addressed_frames e fs : Forall (addressed e) (frames_out e fs).
Proof. unfold frames_out. induction fs; cbn; constructor; auto. reflexivity. Qed.

Lemma view_eq v s r F K W S :
  v_s v = s -> v_r v = r -> v_F v = F -> v_K v = K -> v_W v = W -> v_S v = S -> v = mkV s r F K W S.
Proof. destruct v; cbn; intros; subst; reflexivity. Qed.

Ltac lists_simpl :=
  rewrite ?frames_of_app, ?credits_of_app, ?frames_of_frames, ?credits_of_frames,
          ?frames_of_credit, ?credits_of_credit, ?app_nil_r.

Lemma l_step_inv st g l :
  linv st g -> label_ok l ->
  let r := l_step st l in
  linv (lr_state r) (g_step g l r) /\ lr_dropped r = false /\ lr_overflow r = false.
Proof.
  intros [Hw Hab Hba] Hl. destruct Hw as [Wab Wba Wka Wkb Wwab Wwba].
  destruct l as [d|d| |]; cbn [l_step].
  - (* WriteA *)
    cbn [ep_step]. destruct (s_write (e_snd (l_a st)) d) as [s fs] eqn:Es.
    cbn [er_state er_out lr_state lr_dropped lr_overflow]. split; [|auto].
    constructor.
    + constructor; cbn [l_a l_b l_ab l_ba with_snd e_src e_dst e_key]; auto.
      apply Forall_app. split; [assumption|]. apply (addressed_frames (l_a st)).
    + pose proof (vinv_step (view_ab st g) (VWrite d) Hab Hl) as Hs.
      cbn [v_step view_ab v_s v_r v_F v_K v_W v_S] in Hs. rewrite Es in Hs.
      unfold view_ab, g_step. cbn [l_a l_b l_ab l_ba with_snd e_snd e_rcv g_wa g_sb lr_sink_b opt_bytes].
      unfold frames_out. lists_simpl. exact Hs.
    + unfold view_ba, g_step. cbn [l_a l_b l_ab l_ba with_snd e_snd e_rcv g_wb g_sa lr_sink_a opt_bytes].
      unfold frames_out. lists_simpl. exact Hba.
  - (* WriteB *)
    cbn [ep_step]. destruct (s_write (e_snd (l_b st)) d) as [s fs] eqn:Es.
    cbn [er_state er_out lr_state lr_dropped lr_overflow]. split; [|auto].
    constructor.
    + constructor; cbn [l_a l_b l_ab l_ba with_snd e_src e_dst e_key]; auto.
      apply Forall_app. split; [assumption|]. apply (addressed_frames (l_b st)).
    + unfold view_ab, g_step. cbn [l_a l_b l_ab l_ba with_snd e_snd e_rcv g_wa g_sb lr_sink_b opt_bytes].
      unfold frames_out. lists_simpl. exact Hab.
    + pose proof (vinv_step (view_ba st g) (VWrite d) Hba Hl) as Hs.
      cbn [v_step view_ba v_s v_r v_F v_K v_W v_S] in Hs. rewrite Es in Hs.
      unfold view_ba, g_step. cbn [l_a l_b l_ab l_ba with_snd e_snd e_rcv g_wb g_sa lr_sink_a opt_bytes].
      unfold frames_out. lists_simpl. exact Hs.
  - (* DeliverAB *)
    destruct (l_ab st) as [|p w] eqn:Ew.
    + cbn [lr_state lr_dropped lr_overflow]. split; [|auto]. constructor.
      * constructor; auto. rewrite Ew. constructor.
      * unfold view_ab, g_step in *. cbn [lr_sink_b lr_sink_a opt_bytes]. lists_simpl. exact Hab.
      * unfold view_ba, g_step in *. cbn [lr_sink_b lr_sink_a opt_bytes]. lists_simpl. exact Hba.
    + inversion Wwab as [|? ? Hp Wwab']; subst. destruct p as [cid d|cid n]; cbn [addressed] in Hp.
      * (* a K-frame *)
        cbn [ep_step]. rewrite Hp, Wab, Z.eqb_refl.
        cbn [er_state er_out er_sink er_dropped er_overflow lr_state lr_dropped lr_overflow].
        pose proof (vinv_step (view_ab st g) VFrame Hab I) as Hs.
        cbn [v_step view_ab v_s v_r v_F v_K v_W v_S] in Hs. rewrite Ew in Hs.
        cbn [frames_of flat_map frame_of app] in Hs. fold (frames_of w) in Hs.
        pose proof (r_on_pdu_asm (e_rcv (l_b st)) d) as Ha. cbv zeta in Ha.
        assert (Hov : rr_overflow (r_on_pdu (e_rcv (l_b st)) d) = false).
        { destruct (vi_flight _ Hab) as (buf & P & Hst & Hfl & _ & _).
          cbn [view_ab v_s v_r v_F] in Hst, Hfl. rewrite Ew in Hfl.
          cbn [frames_of flat_map frame_of app] in Hfl. fold (frames_of w) in Hfl.
          destruct Ha as (Hasm & _). rewrite Hst in Hasm.
          destruct (flight_deliver _ _ _ _ _ Hfl) as [(Hx & _) | (p & P' & _ & Hx & _)];
            rewrite Hx in Hasm; inversion Hasm; reflexivity. }
        split; [|auto]. constructor.
        -- constructor; cbn [l_a l_b l_ab l_ba with_rcv e_src e_dst e_key]; auto.
           apply Forall_app. split; [assumption|].
           destruct (rr_credit _); constructor; [reflexivity|constructor].
        -- unfold view_ab, g_step.
           cbn [l_a l_b l_ab l_ba with_rcv e_snd e_rcv g_wa g_sb lr_sink_b]. lists_simpl. exact Hs.
        -- unfold view_ba, g_step in *.
           cbn [l_a l_b l_ab l_ba with_rcv e_snd e_rcv g_wb g_sa lr_sink_a opt_bytes] in *.
           rewrite Ew in Hba. cbn [credits_of flat_map credit_of app] in Hba. fold (credits_of w) in Hba.
           lists_simpl. exact Hba.
      * (* a credit packet *)
        cbn [ep_step]. rewrite Hp, Wkb, Wba, Z.eqb_refl.
        destruct (s_on_credits (e_snd (l_b st)) n) as [s fs] eqn:Es.
        cbn [er_state er_out er_sink er_dropped er_overflow lr_state lr_dropped lr_overflow].
        pose proof (vinv_step (view_ba st g) VCredit Hba I) as Hs.
        cbn [v_step view_ba v_s v_r v_F v_K v_W v_S] in Hs. rewrite Ew in Hs.
        cbn [credits_of flat_map credit_of app] in Hs. fold (credits_of w) in Hs. rewrite Es in Hs.
        split; [|auto]. constructor.
        -- constructor; cbn [l_a l_b l_ab l_ba with_snd e_src e_dst e_key]; auto.
           apply Forall_app. split; [assumption|]. apply (addressed_frames (l_b st)).
        -- unfold view_ab, g_step in *.
           cbn [l_a l_b l_ab l_ba with_snd e_snd e_rcv g_wa g_sb lr_sink_b opt_bytes] in *.
           rewrite Ew in Hab. cbn [frames_of flat_map frame_of app] in Hab. fold (frames_of w) in Hab.
           unfold frames_out. lists_simpl. exact Hab.
        -- unfold view_ba, g_step.
           cbn [l_a l_b l_ab l_ba with_snd e_snd e_rcv g_wb g_sa lr_sink_a opt_bytes].
           unfold frames_out. lists_simpl. exact Hs.
  - (* DeliverBA *)
    destruct (l_ba st) as [|p w] eqn:Ew.
    + cbn [lr_state lr_dropped lr_overflow]. split; [|auto]. constructor.
      * constructor; auto. rewrite Ew. constructor.
      * unfold view_ab, g_step in *. cbn [lr_sink_b lr_sink_a opt_bytes]. lists_simpl. exact Hab.
      * unfold view_ba, g_step in *. cbn [lr_sink_b lr_sink_a opt_bytes]. lists_simpl. exact Hba.
    + inversion Wwba as [|? ? Hp Wwba']; subst. destruct p as [cid d|cid n]; cbn [addressed] in Hp.
      * cbn [ep_step]. rewrite Hp, Wba, Z.eqb_refl.
        cbn [er_state er_out er_sink er_dropped er_overflow lr_state lr_dropped lr_overflow].
        pose proof (vinv_step (view_ba st g) VFrame Hba I) as Hs.
        cbn [v_step view_ba v_s v_r v_F v_K v_W v_S] in Hs. rewrite Ew in Hs.
        cbn [frames_of flat_map frame_of app] in Hs. fold (frames_of w) in Hs.
        pose proof (r_on_pdu_asm (e_rcv (l_a st)) d) as Ha. cbv zeta in Ha.
        assert (Hov : rr_overflow (r_on_pdu (e_rcv (l_a st)) d) = false).
        { destruct (vi_flight _ Hba) as (buf & P & Hst & Hfl & _ & _).
          cbn [view_ba v_s v_r v_F] in Hst, Hfl. rewrite Ew in Hfl.
          cbn [frames_of flat_map frame_of app] in Hfl. fold (frames_of w) in Hfl.
          destruct Ha as (Hasm & _). rewrite Hst in Hasm.
          destruct (flight_deliver _ _ _ _ _ Hfl) as [(Hx & _) | (p & P' & _ & Hx & _)];
            rewrite Hx in Hasm; inversion Hasm; reflexivity. }
        split; [|auto]. constructor.
        -- constructor; cbn [l_a l_b l_ab l_ba with_rcv e_src e_dst e_key]; auto.
           apply Forall_app. split; [assumption|].
           destruct (rr_credit _); constructor; [reflexivity|constructor].
        -- unfold view_ab, g_step in *.
           cbn [l_a l_b l_ab l_ba with_rcv e_snd e_rcv g_wa g_sb lr_sink_b opt_bytes] in *.
           rewrite Ew in Hab. cbn [credits_of flat_map credit_of app] in Hab. fold (credits_of w) in Hab.
           lists_simpl. exact Hab.
        -- unfold view_ba, g_step.
           cbn [l_a l_b l_ab l_ba with_rcv e_snd e_rcv g_wb g_sa lr_sink_a]. lists_simpl. exact Hs.
      * cbn [ep_step]. rewrite Hp, Wka, Wab, Z.eqb_refl.
        destruct (s_on_credits (e_snd (l_a st)) n) as [s fs] eqn:Es.
        cbn [er_state er_out er_sink er_dropped er_overflow lr_state lr_dropped lr_overflow].
        pose proof (vinv_step (view_ab st g) VCredit Hab I) as Hs.
        cbn [v_step view_ab v_s v_r v_F v_K v_W v_S] in Hs. rewrite Ew in Hs.
        cbn [credits_of flat_map credit_of app] in Hs. fold (credits_of w) in Hs. rewrite Es in Hs.
        split; [|auto]. constructor.
        -- constructor; cbn [l_a l_b l_ab l_ba with_snd e_src e_dst e_key]; auto.
           apply Forall_app. split; [assumption|]. apply (addressed_frames (l_a st)).
        -- unfold view_ab, g_step.
           cbn [l_a l_b l_ab l_ba with_snd e_snd e_rcv g_wa g_sb lr_sink_b opt_bytes].
           unfold frames_out. lists_simpl. exact Hs.
        -- unfold view_ba, g_step in *.
           cbn [l_a l_b l_ab l_ba with_snd e_snd e_rcv g_wb g_sa lr_sink_a opt_bytes] in *.
           rewrite Ew in Hba. cbn [frames_of flat_map frame_of app] in Hba. fold (frames_of w) in Hba.
           unfold frames_out. lists_simpl. exact Hba.
Qed.

(* ------------------------------------------------------------ whole runs *)
Definition written_a (ls : list label) : bytes :=
  concat (map (fun l => match l with WriteA d => d | _ => [] end) ls).
Definition written_b (ls : list label) : bytes :=
  concat (map (fun l => match l with WriteB d => d | _ => [] end) ls).
Definition sunk_a (rs : list lres) : bytes := concat (map (fun r => opt_bytes (lr_sink_a r)) rs).
Definition sunk_b (rs : list lres) : bytes := concat (map (fun r => opt_bytes (lr_sink_b r)) rs).

Definition clean (r : lres) : Prop := lr_dropped r = false /\ lr_overflow r = false.

Lemma l_run_inv ls : forall st g,
  linv st g -> Forall label_ok ls ->
  let '(st', rs) := l_run st ls in
  linv st' (mkG (g_wa g ++ written_a ls) (g_wb g ++ written_b ls)
                (g_sa g ++ sunk_a rs) (g_sb g ++ sunk_b rs)) /\
  Forall clean rs.
Proof.
  induction ls as [|l ls IH]; intros st g Hi Hok; cbn [l_run].
  - unfold written_a, written_b, sunk_a, sunk_b. cbn. rewrite !app_nil_r. destruct g. split; [exact Hi|constructor].
  - inversion Hok as [|? ? Hl Hok']; subst.
    destruct (l_step_inv st g l Hi Hl) as (Hi' & Hd & Ho).
    specialize (IH (lr_state (l_step st l)) (g_step g l (l_step st l)) Hi' Hok').
    destruct (l_run (lr_state (l_step st l)) ls) as [st' rs].
    destruct IH as (IH1 & IH2). split; [|constructor; [split; assumption|assumption]].
    unfold g_step in IH1. cbn [g_wa g_wb g_sa g_sb] in IH1.
    unfold written_a, written_b, sunk_a, sunk_b in *. cbn [map concat].
    rewrite <- !app_assoc in IH1. exact IH1.
Qed.

Record params_ok (mtu mps cr : Z) : Prop := {
  p_mtu : 1 <= mtu < 65536; p_mps : 1 <= mps; p_cr : 1 <= cr
}.

Lemma linv_init ka kb cid_a cid_b mtu_a mps_a cr_a mtu_b mps_b cr_b :
  params_ok mtu_a mps_a cr_a -> params_ok mtu_b mps_b cr_b ->
  linv (l_init (lecoc_keysel ka) (lecoc_keysel kb) cid_a cid_b mtu_a mps_a cr_a mtu_b mps_b cr_b)
       (mkG [] [] [] []).
Proof.
  intros [Ha1 Ha2 Ha3] [Hb1 Hb2 Hb3]. constructor.
  - constructor; cbn; auto.
  - apply (vinv_init cr_b mtu_b mps_b); assumption.
  - apply (vinv_init cr_a mtu_a mps_a); assumption.
Qed.

(* parameters never change *)
Lemma process_output_params s : let '(s', fs) := process_output s in
  s_mtu s' = s_mtu s /\ s_mps s' = s_mps s.
Proof. unfold process_output. destruct (po _ _ _ _ _ _) as [[[fs q] sdu] dr]. cbn. auto. Qed.

(* ---- bounds on what is observed at a step *)
Lemma view_sink_fits v f F d :
  vinv v -> v_F v = f :: F -> rr_sink (r_on_pdu (v_r v) f) = Some d -> sdu_fits (s_mtu (v_s v)) d.
Proof.
  intros Hi EF Hs. destruct (vi_flight v Hi) as (buf & P & Hst & Hfl & HP & _).
  rewrite EF in Hfl. pose proof (r_on_pdu_asm (v_r v) f) as Ha. cbv zeta in Ha.
  destruct Ha as (Hasm & _). rewrite Hst in Hasm.
  destruct (flight_deliver _ _ _ _ _ Hfl) as [(Hx & _) | (p & P' & -> & Hx & _)];
    rewrite Hx in Hasm; inversion Hasm as [[Hb Hl Hk Ho]]; rewrite Hs in Hk.
  - discriminate.
  - inversion Hk; subst. inversion HP; assumption.
Qed.

Lemma l_step_sink_b st g d :
  linv st g -> lr_sink_b (l_step st DeliverAB) = Some d -> sdu_fits (s_mtu (e_snd (l_a st))) d.
Proof.
  intros [Hw Hab Hba] Hs. cbn [l_step] in Hs.
  destruct (l_ab st) as [|p w] eqn:Ew; [discriminate|]. cbn [lr_sink_b] in Hs.
  destruct p as [cid d0|cid n]; cbn [ep_step] in Hs.
  - destruct (cid =? e_src (l_b st)); cbn [er_sink] in Hs; [|discriminate].
    apply (view_sink_fits (view_ab st g) d0 (frames_of w) d Hab); [|exact Hs].
    cbn [view_ab v_F]. rewrite Ew. reflexivity.
  - destruct (cid =? e_key (l_b st)); [|discriminate].
    destruct (s_on_credits _ _); discriminate.
Qed.

Lemma l_step_sink_a st g d :
  linv st g -> lr_sink_a (l_step st DeliverBA) = Some d -> sdu_fits (s_mtu (e_snd (l_b st))) d.
Proof.
  intros [Hw Hab Hba] Hs. cbn [l_step] in Hs.
  destruct (l_ba st) as [|p w] eqn:Ew; [discriminate|]. cbn [lr_sink_a] in Hs.
  destruct p as [cid d0|cid n]; cbn [ep_step] in Hs.
  - destruct (cid =? e_src (l_a st)); cbn [er_sink] in Hs; [|discriminate].
    apply (view_sink_fits (view_ba st g) d0 (frames_of w) d Hba); [|exact Hs].
    cbn [view_ba v_F]. rewrite Ew. reflexivity.
  - destruct (cid =? e_key (l_a st)); [|discriminate].
    destruct (s_on_credits _ _); discriminate.
Qed.

(* every packet on a wire is addressed to the peer's channel and every K-frame on
   it is within the MPS its receiver advertised *)
Definition frames_within (mps : Z) (w : list pkt) : Prop := Forall (frame_ok mps) (frames_of w).

Lemma linv_wire_frames st g : linv st g ->
  frames_within (s_mps (e_snd (l_a st))) (l_ab st) /\ frames_within (s_mps (e_snd (l_b st))) (l_ba st).
Proof. intros [Hw Hab Hba]. split; [apply (vi_frames _ Hab)|apply (vi_frames _ Hba)]. Qed.

(* a frame is put on the wire only against a credit: with [k] frames sent at a
   step the sender held at least k credits before it, and still holds >= 0 *)
Lemma s_write_credits s d : let '(s', fs) := s_write s d in
  s_credits s' = s_credits s - zlen fs.
Proof. unfold s_write, process_output. destruct (po _ _ _ _ _ _) as [[[fs q] sdu] dr]. reflexivity. Qed.

Lemma s_on_credits_credits s n : let '(s', fs) := s_on_credits s n in
  s_credits s' = s_credits s + n - zlen fs.
Proof. unfold s_on_credits, process_output. destruct (po _ _ _ _ _ _) as [[[fs q] sdu] dr]. reflexivity. Qed.

(* ------------------------------------------------- routing with many channels *)
Definition srcs (cs : list chan_desc) : list Z := map cd_src cs.
Definition dsts (cs : list chan_desc) : list Z := map cd_dst cs.

Lemma t_get_fresh_channels sel cs k :
  ~ In k (srcs cs) -> t_get (m_channels (file_all sel cs)) k = None.
Proof.
  induction cs as [|c cs IH]; cbn; intros Hn; [reflexivity|].
  destruct (cd_src c =? k) eqn:E; [apply Z.eqb_eq in E; tauto|]. apply IH. tauto.
Qed.

Lemma route_frame_ok sel cs c d :
  NoDup (srcs cs) -> In c cs -> route (file_all sel cs) (PFrame (cd_src c) d) = Some (cd_id c).
Proof.
  induction cs as [|x cs IH]; cbn [In]; intros Hnd Hin; [contradiction|].
  cbn [srcs map] in Hnd. inversion Hnd as [|? ? Hx Hnd']; subst.
  cbn [file_all file_channel route m_channels t_set t_get].
  destruct Hin as [->|Hin].
  - rewrite Z.eqb_refl. reflexivity.
  - destruct (cd_src x =? cd_src c) eqn:E.
    + apply Z.eqb_eq in E. exfalso. apply Hx. rewrite E. apply in_map. exact Hin.
    + apply (IH Hnd' Hin).
Qed.

Lemma route_credit_ok sel cs c n :
  (forall k, sel k = KDst) ->
  NoDup (dsts cs) -> In c cs -> route (file_all sel cs) (PCredit (cd_dst c) n) = Some (cd_id c).
Proof.
  intros Hsel. induction cs as [|x cs IH]; cbn [In]; intros Hnd Hin; [contradiction|].
  cbn [dsts map] in Hnd. inversion Hnd as [|? ? Hx Hnd']; subst.
  cbn [file_all file_channel route m_lecoc t_set t_get]. rewrite Hsel. cbn [key_of].
  destruct Hin as [->|Hin].
  - rewrite Z.eqb_refl. reflexivity.
  - destruct (cd_dst x =? cd_dst c) eqn:E.
    + apply Z.eqb_eq in E. exfalso. apply Hx. rewrite E. apply in_map. exact Hin.
    + apply (IH Hnd' Hin).
Qed.

(* D07 as it was (enhanced acceptor filed under the source CID): a credit packet
   for one channel is handed to another one, or to none *)
Definition sel_d07 (k : kind) : keysel := match k with EnhAcceptor => KSrc | _ => KDst end.

Lemma route_credit_d07_refuted :
  exists cs c n, NoDup (srcs cs) /\ NoDup (dsts cs) /\ In c cs /\
    route (file_all sel_d07 cs) (PCredit (cd_dst c) n) <> Some (cd_id c).
Proof.
  exists [mkCd 2 EnhInitiator 64 65; mkCd 1 EnhAcceptor 65 64], (mkCd 1 EnhAcceptor 65 64), 1.
  repeat split.
  - repeat constructor; cbn; intuition discriminate.
  - repeat constructor; cbn; intuition discriminate.
  - cbn. auto.
  - vm_compute. discriminate.
Qed.

(* the two-party system with the enhanced acceptor filed under its source CID and
   a peer whose CID differs: the credit is dropped and the transfer is stuck
   with part of an SDU unsent and nothing in flight *)
Lemma credits_routed_d07_refuted :
  let st0 := l_init KDst (sel_d07 EnhAcceptor) 80 64 64 23 2 64 23 2 in
  let '(st, rs) := l_run st0 [WriteB (mk_data 0 60); DeliverBA; DeliverBA; DeliverAB; DeliverAB] in
  existsb lr_dropped rs = true /\ l_ab st = [] /\ l_ba st = [] /\
  s_sdu (e_snd (l_b st)) <> None /\ s_credits (e_snd (l_b st)) = 0.
Proof. vm_compute. repeat split; try reflexivity; discriminate. Qed.

(* ------------------------------ termination of deliveries, both directions *)
Definition g0 : ghost := mkG [] [] [] [].
Definition lmeasure (st : lsys) : Z := measure (view_ab st g0) + measure (view_ba st g0).

Definition l_enabled (st : lsys) (l : label) : Prop :=
  match l with DeliverAB => l_ab st <> [] | DeliverBA => l_ba st <> [] | _ => False end.

Lemma zlen_opt_list {A} (o : option A) : 0 <= zlen (opt_list o) <= 1.
Proof. destruct o; cbn; lia. Qed.

Lemma on_credits_measure s n fs s' :
  1 <= s_mps s -> 1 <= s_mtu s -> Forall nonempty (s_queue s) -> sdu_ok (s_sdu s) ->
  s_on_credits s n = (s', fs) ->
  pending_bytes s' + zlen fs <= pending_bytes s.
Proof.
  intros H1 H2 H3 H4. unfold s_on_credits, process_output.
  cbn [s_credits s_mtu s_mps s_queue s_sdu s_drained].
  pose proof (po_measure (Z.to_nat (s_credits s + n)) (s_mtu s) (s_mps s) (s_queue s) (s_sdu s) (s_drained s)
                H1 H2 H3 H4) as Hm.
  destruct (po _ _ _ _ _ _) as [[[fs0 q'] sdu'] dr']. intros E. inversion E; subst.
  unfold pending_bytes. cbn [s_queue s_sdu]. lia.
Qed.

Lemma l_deliver_decreases st g l :
  linv st g -> l_enabled st l -> lmeasure (lr_state (l_step st l)) < lmeasure st.
Proof.
  intros [Hw Hab Hba] He. destruct Hw as [Wab Wba Wka Wkb Wwab Wwba].
  destruct l as [d|d| |]; cbn [l_enabled] in He; try contradiction; cbn [l_step].
  - destruct (l_ab st) as [|p w] eqn:Ew; [congruence|].
    inversion Wwab as [|? ? Hp Wwab']; subst. destruct p as [cid d|cid n]; cbn [addressed] in Hp.
    + cbn [ep_step]. rewrite Hp, Wab, Z.eqb_refl. cbn [er_state er_out lr_state].
      unfold lmeasure, measure, view_ab, view_ba.
      cbn [v_s v_F v_K l_a l_b l_ab l_ba with_rcv e_snd e_rcv]. rewrite Ew.
      cbn [frames_of credits_of flat_map frame_of credit_of app].
      fold (frames_of w). fold (credits_of w). lists_simpl.
      rewrite zlen_cons, zlen_app.
      pose proof (zlen_opt_list (rr_credit (r_on_pdu (e_rcv (l_b st)) d))). lia.
    + cbn [ep_step]. rewrite Hp, Wkb, Wba, Z.eqb_refl.
      destruct (s_on_credits (e_snd (l_b st)) n) as [s fs] eqn:Es.
      cbn [er_state er_out lr_state].
      pose proof (on_credits_measure _ _ _ _ (vi_mps _ Hba) (proj1 (vi_mtu _ Hba)) (vi_queue _ Hba)
                    (vi_sdu _ Hba) Es) as Hm.
      cbn [view_ba v_s] in Hm.
      unfold lmeasure, measure, view_ab, view_ba.
      cbn [v_s v_F v_K l_a l_b l_ab l_ba with_snd e_snd e_rcv]. rewrite Ew.
      cbn [frames_of credits_of flat_map frame_of credit_of app].
      fold (frames_of w). fold (credits_of w). unfold frames_out. lists_simpl.
      rewrite zlen_cons, zlen_app. pose proof (zlen_nonneg fs). lia.
  - destruct (l_ba st) as [|p w] eqn:Ew; [congruence|].
    inversion Wwba as [|? ? Hp Wwba']; subst. destruct p as [cid d|cid n]; cbn [addressed] in Hp.
    + cbn [ep_step]. rewrite Hp, Wba, Z.eqb_refl. cbn [er_state er_out lr_state].
      unfold lmeasure, measure, view_ab, view_ba.
      cbn [v_s v_F v_K l_a l_b l_ab l_ba with_rcv e_snd e_rcv]. rewrite Ew.
      cbn [frames_of credits_of flat_map frame_of credit_of app].
      fold (frames_of w). fold (credits_of w). lists_simpl.
      rewrite zlen_cons, zlen_app.
      pose proof (zlen_opt_list (rr_credit (r_on_pdu (e_rcv (l_a st)) d))). lia.
    + cbn [ep_step]. rewrite Hp, Wka, Wab, Z.eqb_refl.
      destruct (s_on_credits (e_snd (l_a st)) n) as [s fs] eqn:Es.
      cbn [er_state er_out lr_state].
      pose proof (on_credits_measure _ _ _ _ (vi_mps _ Hab) (proj1 (vi_mtu _ Hab)) (vi_queue _ Hab)
                    (vi_sdu _ Hab) Es) as Hm.
      cbn [view_ab v_s] in Hm.
      unfold lmeasure, measure, view_ab, view_ba.
      cbn [v_s v_F v_K l_a l_b l_ab l_ba with_snd e_snd e_rcv]. rewrite Ew.
      cbn [frames_of credits_of flat_map frame_of credit_of app].
      fold (frames_of w). fold (credits_of w). unfold frames_out. lists_simpl.
      rewrite zlen_cons, zlen_app. pose proof (zlen_nonneg fs). lia.
Qed.

Fixpoint l_all_enabled (st : lsys) (ls : list label) : Prop :=
  match ls with
  | [] => True
  | l :: ls' => l_enabled st l /\ l_all_enabled (lr_state (l_step st l)) ls'
  end.

Lemma l_enabled_ok st l : l_enabled st l -> label_ok l.
Proof. destruct l; cbn; auto; contradiction. Qed.

Lemma lmeasure_nonneg st : 0 <= lmeasure st.
Proof.
  unfold lmeasure, measure, pending_bytes.
  repeat match goal with |- context [zlen ?x] => pose proof (zlen_nonneg x); generalize dependent (zlen x); intros end.
  lia.
Qed.

Lemma l_deliveries_bounded ls : forall st g,
  linv st g -> l_all_enabled st ls -> zlen ls <= lmeasure st.
Proof.
  induction ls as [|l ls IH]; intros st g Hi Hen.
  - rewrite zlen_nil. apply lmeasure_nonneg.
  - destruct Hen as (He & Hen). rewrite zlen_cons.
    pose proof (l_deliver_decreases st g l Hi He) as Hd.
    destruct (l_step_inv st g l Hi (l_enabled_ok st l He)) as (Hi' & _).
    specialize (IH _ _ Hi' Hen). lia.
Qed.

Lemma l_completes st g : linv st g ->
  exists ds, l_all_enabled st ds /\ l_ab (fst (l_run st ds)) = [] /\ l_ba (fst (l_run st ds)) = [].
Proof.
  intros Hi. remember (Z.to_nat (lmeasure st)) as k eqn:Hk.
  revert st g Hi Hk. induction k as [k IH] using lt_wf_ind. intros st g Hi Hk.
  assert (Hstep : forall l, l_enabled st l ->
            exists ds, l_all_enabled st ds /\ l_ab (fst (l_run st ds)) = [] /\ l_ba (fst (l_run st ds)) = []).
  { intros l He.
    pose proof (l_deliver_decreases st g l Hi He) as Hd.
    pose proof (lmeasure_nonneg (lr_state (l_step st l))) as H0.
    destruct (l_step_inv st g l Hi (l_enabled_ok st l He)) as (Hi' & _).
    destruct (IH (Z.to_nat (lmeasure (lr_state (l_step st l)))) ltac:(lia) _ _ Hi' eq_refl)
      as (ds & Hen & Hq).
    exists (l :: ds). split; [split; assumption|].
    cbn [l_run]. destruct (l_run (lr_state (l_step st l)) ds) as [st' rs]. exact Hq. }
  destruct (l_ab st) as [|p w] eqn:E1.
  - destruct (l_ba st) as [|p w] eqn:E2.
    + exists []. cbn. auto.
    + apply (Hstep DeliverBA). cbn. congruence.
  - apply (Hstep DeliverAB). cbn. congruence.
Qed.

(* ---------------------------------------- negotiated values never change *)
Definition statics (st : lsys) :=
  (e_src (l_a st), e_dst (l_a st), e_key (l_a st), s_mtu (e_snd (l_a st)), s_mps (e_snd (l_a st)),
   r_max (e_rcv (l_a st)),
   (e_src (l_b st), e_dst (l_b st), e_key (l_b st), s_mtu (e_snd (l_b st)), s_mps (e_snd (l_b st)),
    r_max (e_rcv (l_b st)))).

Lemma ep_step_static e v :
  let e' := er_state (ep_step e v) in
  e_src e' = e_src e /\ e_dst e' = e_dst e /\ e_key e' = e_key e /\
  s_mtu (e_snd e') = s_mtu (e_snd e) /\ s_mps (e_snd e') = s_mps (e_snd e) /\
  r_max (e_rcv e') = r_max (e_rcv e).
Proof.
  destruct v as [d|[cid d|cid n]]; cbn [ep_step].
  - unfold s_write. pose proof (process_output_params
      (mkSnd (s_credits (e_snd e)) (s_mtu (e_snd e)) (s_mps (e_snd e)) (s_queue (e_snd e) ++ [d]) (s_sdu (e_snd e)) false)) as H.
    destruct (process_output _) as [s fs]. cbn in *. tauto.
  - destruct (cid =? e_src e); cbn; [|tauto].
    pose proof (r_on_pdu_asm (e_rcv e) d) as H. cbv zeta in H. tauto.
  - destruct (cid =? e_key e); [|cbn; tauto].
    unfold s_on_credits. pose proof (process_output_params
      (mkSnd (s_credits (e_snd e) + n) (s_mtu (e_snd e)) (s_mps (e_snd e)) (s_queue (e_snd e)) (s_sdu (e_snd e)) (s_drained (e_snd e)))) as H.
    destruct (process_output _) as [s fs]. cbn in *. tauto.
Qed.

Lemma l_step_static st l : statics (lr_state (l_step st l)) = statics st.
Proof.
  unfold statics. destruct l as [d|d| |]; cbn [l_step].
  - pose proof (ep_step_static (l_a st) (EWrite d)) as H. cbv zeta in H.
    cbn [lr_state l_a l_b]. destruct H as (-> & -> & -> & -> & -> & ->). reflexivity.
  - pose proof (ep_step_static (l_b st) (EWrite d)) as H. cbv zeta in H.
    cbn [lr_state l_a l_b]. destruct H as (-> & -> & -> & -> & -> & ->). reflexivity.
  - destruct (l_ab st) as [|p w]; [reflexivity|].
    pose proof (ep_step_static (l_b st) (ERecv p)) as H. cbv zeta in H.
    cbn [lr_state l_a l_b]. destruct H as (-> & -> & -> & -> & -> & ->). reflexivity.
  - destruct (l_ba st) as [|p w]; [reflexivity|].
    pose proof (ep_step_static (l_a st) (ERecv p)) as H. cbv zeta in H.
    cbn [lr_state l_a l_b]. destruct H as (-> & -> & -> & -> & -> & ->). reflexivity.
Qed.

Lemma l_run_static ls : forall st, statics (fst (l_run st ls)) = statics st.
Proof.
  induction ls as [|l ls IH]; intros st; cbn [l_run]; [reflexivity|].
  specialize (IH (lr_state (l_step st l))).
  destruct (l_run (lr_state (l_step st l)) ls) as [st' rs]. cbn [fst] in *.
  rewrite IH. apply l_step_static.
Qed.

(* ------------------------------------------------ the theorems of Props/C07 *)
Section Top.
  Variables (ka kb : kind) (cid_a cid_b mtu_a mps_a cr_a mtu_b mps_b cr_b : Z).
  Hypothesis (Ha : params_ok mtu_a mps_a cr_a) (Hb : params_ok mtu_b mps_b cr_b).

  Definition sys0 : lsys :=
    l_init (lecoc_keysel ka) (lecoc_keysel kb) cid_a cid_b mtu_a mps_a cr_a mtu_b mps_b cr_b.

  Lemma reach_inv ls : Forall label_ok ls ->
    let '(st, rs) := l_run sys0 ls in
    linv st (mkG (written_a ls) (written_b ls) (sunk_a rs) (sunk_b rs)) /\ Forall clean rs.
  Proof.
    intros Hok. pose proof (l_run_inv ls sys0 (mkG [] [] [] []) (linv_init ka kb _ _ _ _ _ _ _ _ Ha Hb) Hok) as H.
    destruct (l_run sys0 ls) as [st rs]. exact H.
  Qed.

  Lemma reach_statics ls :
    let st := fst (l_run sys0 ls) in
    s_mtu (e_snd (l_a st)) = mtu_b /\ s_mps (e_snd (l_a st)) = mps_b /\ r_max (e_rcv (l_b st)) = cr_b /\
    s_mtu (e_snd (l_b st)) = mtu_a /\ s_mps (e_snd (l_b st)) = mps_a /\ r_max (e_rcv (l_a st)) = cr_a.
  Proof.
    cbv zeta. pose proof (l_run_static ls sys0) as H. unfold statics in H.
    inversion H as [[H1 H2 H3 H4 H5 H6 H7 H8 H9 H10 H11 H12]].
    rewrite H4, H5, H6, H10, H11, H12. repeat split; reflexivity.
  Qed.

  Theorem stream_exact ls : Forall label_ok ls ->
    let '(st, rs) := l_run sys0 ls in
    (exists X, written_a ls = sunk_b rs ++ X) /\
    (exists Y, written_b ls = sunk_a rs ++ Y) /\
    (l_ab st = [] -> l_ba st = [] ->
       written_a ls = sunk_b rs /\ written_b ls = sunk_a rs /\
       s_drained (e_snd (l_a st)) = true /\ s_drained (e_snd (l_b st)) = true).
  Proof.
    intros Hok. pose proof (reach_inv ls Hok) as H. destruct (l_run sys0 ls) as [st rs].
    destruct H as ([Hw Hab Hba] & _).
    split; [apply (vinv_prefix _ Hab)|]. split; [apply (vinv_prefix _ Hba)|].
    intros E1 E2.
    assert (Q1 : v_quiet (view_ab st (mkG (written_a ls) (written_b ls) (sunk_a rs) (sunk_b rs)))).
    { split; cbn [view_ab v_F v_K]; [rewrite E1|rewrite E2]; reflexivity. }
    assert (Q2 : v_quiet (view_ba st (mkG (written_a ls) (written_b ls) (sunk_a rs) (sunk_b rs)))).
    { split; cbn [view_ba v_F v_K]; [rewrite E2|rewrite E1]; reflexivity. }
    destruct (vinv_quiet_final _ Hab Q1) as (F1 & _ & _ & D1).
    destruct (vinv_quiet_final _ Hba Q2) as (F2 & _ & _ & D2).
    cbn in F1, F2, D1, D2. auto.
  Qed.

  (* the credit ledger, in every reachable state, in both directions *)
  Definition ledger (s : sndr) (r : rcvr) (frames credits : list pkt) (granted : Z) : Prop :=
    s_credits s + zlen (frames_of frames) + zsum (credits_of credits) = r_credits r /\
    0 <= s_credits s /\ 0 < r_credits r <= granted.

  Theorem credit_safe ls : Forall label_ok ls ->
    let st := fst (l_run sys0 ls) in
    ledger (e_snd (l_a st)) (e_rcv (l_b st)) (l_ab st) (l_ba st) cr_b /\
    ledger (e_snd (l_b st)) (e_rcv (l_a st)) (l_ba st) (l_ab st) cr_a.
  Proof.
    intros Hok. pose proof (reach_inv ls Hok) as H. pose proof (reach_statics ls) as Hs.
    destruct (l_run sys0 ls) as [st rs]. cbn [fst] in *.
    destruct H as ([Hw Hab Hba] & _). destruct Hs as (_ & _ & S3 & _ & _ & S6).
    pose proof (vi_rc _ Hab) as R1. pose proof (vi_rc _ Hba) as R2.
    pose proof (vi_max _ Hab) as M1. pose proof (vi_max _ Hba) as M2.
    cbn [view_ab view_ba v_r v_s] in *.
    assert (0 <= r_max (e_rcv (l_b st)) / 2) by (apply Z.div_pos; lia).
    assert (0 <= r_max (e_rcv (l_a st)) / 2) by (apply Z.div_pos; lia).
    split; (split; [|split]).
    - apply (vi_ledger _ Hab).
    - apply (vi_cred _ Hab).
    - lia.
    - apply (vi_ledger _ Hba).
    - apply (vi_cred _ Hba).
    - lia.
  Qed.

  Theorem frame_le_mps ls : Forall label_ok ls ->
    let st := fst (l_run sys0 ls) in
    frames_within mps_b (l_ab st) /\ frames_within mps_a (l_ba st).
  Proof.
    intros Hok. pose proof (reach_inv ls Hok) as H. pose proof (reach_statics ls) as Hs.
    destruct (l_run sys0 ls) as [st rs]. cbn [fst] in *.
    destruct H as (Hi & _). destruct Hs as (_ & S2 & _ & _ & S5 & _).
    pose proof (linv_wire_frames _ _ Hi) as Hf. rewrite S2, S5 in Hf. exact Hf.
  Qed.

  Theorem sdu_le_mtu ls : Forall label_ok ls ->
    let st := fst (l_run sys0 ls) in
    (forall d, lr_sink_b (l_step st DeliverAB) = Some d -> 1 <= zlen d <= mtu_b) /\
    (forall d, lr_sink_a (l_step st DeliverBA) = Some d -> 1 <= zlen d <= mtu_a).
  Proof.
    intros Hok. pose proof (reach_inv ls Hok) as H. pose proof (reach_statics ls) as Hs.
    destruct (l_run sys0 ls) as [st rs]. cbn [fst] in *.
    destruct H as (Hi & _). destruct Hs as (S1 & _ & _ & S4 & _ & _).
    split; intros d Hd.
    - destruct (l_step_sink_b _ _ d Hi Hd) as ((Hv & _) & Hm). rewrite S1 in Hm. lia.
    - destruct (l_step_sink_a _ _ d Hi Hd) as ((Hv & _) & Hm). rewrite S4 in Hm. lia.
  Qed.

  (* no packet is ever dropped by the routing and no SDU overflows, whatever the
     two sides' channel identifiers are *)
  Theorem credits_routed ls : Forall label_ok ls -> Forall clean (snd (l_run sys0 ls)).
  Proof.
    intros Hok. pose proof (reach_inv ls Hok) as H. destruct (l_run sys0 ls) as [st rs]. apply H.
  Qed.

  (* not stuck: while anything written is undelivered, or a drain() has not
     completed, a delivery is enabled *)
  Theorem progress ls : Forall label_ok ls ->
    let '(st, rs) := l_run sys0 ls in
    (written_a ls <> sunk_b rs \/ written_b ls <> sunk_a rs \/
     s_drained (e_snd (l_a st)) = false \/ s_drained (e_snd (l_b st)) = false) ->
    l_ab st <> [] \/ l_ba st <> [].
  Proof.
    intros Hok. pose proof (stream_exact ls Hok) as H. destruct (l_run sys0 ls) as [st rs].
    destruct H as (_ & _ & Hq). intros Hnf.
    destruct (l_ab st) eqn:E1; [|left; discriminate].
    destruct (l_ba st) eqn:E2; [|right; discriminate].
    exfalso. destruct (Hq eq_refl eq_refl) as (Q1 & Q2 & Q3 & Q4).
    destruct Hnf as [N|[N|[N|N]]]; try contradiction; congruence.
  Qed.
  (* with no further writes every schedule of enabled deliveries from a reachable
     state is at most [lmeasure] long, and some schedule empties both wires (after
     which, by [stream_exact], everything has been delivered) *)
  Theorem progress_terminates ls : Forall label_ok ls ->
    let st := fst (l_run sys0 ls) in
    (forall ds, l_all_enabled st ds -> zlen ds <= lmeasure st) /\
    (exists ds, l_all_enabled st ds /\ l_ab (fst (l_run st ds)) = [] /\ l_ba (fst (l_run st ds)) = []).
  Proof.
    intros Hok. pose proof (reach_inv ls Hok) as H. destruct (l_run sys0 ls) as [st rs]. cbn [fst].
    destruct H as (Hi & _). split.
    - intros ds Hen. exact (l_deliveries_bounded ds st _ Hi Hen).
    - exact (l_completes st _ Hi).
  Qed.
End Top.
