(* C14 - the Security Manager toolbox functions as written equal the Core specification
   formulas; two back ends that agree on e / aes_cmac agree on every toolbox function;
   a generated resolvable private address resolves under its key and has type bits 01. *)
From Coq Require Import ZArith List Bool Lia ZifyBool ZifyNat.
From BV Require Import Model.CryptoBytes Model.SmToolbox Proofs.CryptoBytes.
Import ListNotations.
Open Scope Z_scope.

Ltac Zify.zify_post_hook ::= Z.div_mod_to_equations.

(* ------------------------------------------------------------------ list helpers *)
Lemma xor_zip_rev : forall a b, length a = length b -> rev (xor_zip a b) = xor_zip (rev a) (rev b).
Proof.
  induction a as [|x a IH]; intros [|y b] H; simpl in *; try discriminate; auto.
  rewrite IH by lia. rewrite xor_zip_app by (rewrite !rev_length; lia). reflexivity.
Qed.

Lemma rev_zeros : forall n, rev (zeros n) = zeros n.
Proof.
  unfold zeros. induction n; simpl; auto. rewrite IHn.
  clear IHn. induction n; simpl; auto. rewrite IHn. reflexivity.
Qed.

Lemma lastn_rev : forall n l, lastn n (rev l) = rev (firstn n l).
Proof.
  intros n l. unfold lastn. rewrite rev_length.
  destruct (Nat.le_gt_cases n (length l)).
  - rewrite <- (firstn_skipn n l) at 2. rewrite rev_app_distr.
    rewrite skipn_app. rewrite rev_length, skipn_length.
    replace (length l - n - (length l - n))%nat with 0%nat by lia.
    rewrite skipn_all2 by (rewrite rev_length, skipn_length; lia). reflexivity.
  - replace (length l - n)%nat with 0%nat by lia. rewrite firstn_all2 by lia. reflexivity.
Qed.

Lemma py_slice_0 : forall l k, 0 <= k -> py_slice l 0 k = firstn (Z.to_nat k) l.
Proof. intros. apply (py_upto_nonneg l k). assumption. Qed.

Lemma rev_single : forall z : list Z, length z = 1%nat -> rev z = z.
Proof. intros [|a [|b z]] H; try discriminate; reflexivity. Qed.

Lemma be_int_app : forall a b, be_int (a ++ b) = be_int a * 256 ^ len b + be_int b.
Proof.
  intros. unfold be_int at 1. rewrite fold_left_app. rewrite be_int_acc. reflexivity.
Qed.

Lemma be_int_lastn : forall l n, bytes_ok l = true ->
  be_int (skipn (length l - n) l) = be_int l mod 256 ^ Z.of_nat (Nat.min n (length l)).
Proof.
  intros l n Hok.
  set (k := (length l - n)%nat).
  assert (E : be_int l = be_int (firstn k l) * 256 ^ len (skipn k l) + be_int (skipn k l)).
  { rewrite <- be_int_app, firstn_skipn. reflexivity. }
  rewrite E.
  assert (Hl : len (skipn k l) = Z.of_nat (Nat.min n (length l))).
  { unfold len, k. rewrite skipn_length. lia. }
  rewrite Hl.
  pose proof (be_int_bound (skipn k l) (bytes_ok_skipn _ _ Hok)) as Hb.
  rewrite Hl in Hb.
  rewrite Z.add_comm, Z.mod_add by lia. symmetry. apply Z.mod_small. assumption.
Qed.

Section ToolboxE.
  Variable e : list Z -> list Z -> list Z.

  (* ---------------------------------------------------------------- code = specification *)
  Theorem ah_spec : forall k r,
    rev (ah e k r) = spec_ah e (rev k) (rev r).
  Proof.
    intros. unfold ah, spec_ah, e_be. rewrite py_slice_0 by lia.
    rewrite lastn_rev. rewrite !rev_involutive, rev_app_distr, rev_involutive, rev_zeros.
    reflexivity.
  Qed.

  Theorem c1_spec : forall k r preq pres iat rat ia ra out,
    c1 e k r preq pres iat rat ia ra = Some out ->
    rev out = spec_c1 e (rev k) (rev r) (rev preq) (rev pres) iat rat (rev ia) (rev ra).
  Proof.
    intros k r preq pres iat rat ia ra out. unfold c1, spec_c1, bytes_of, xor_assert.
    destruct (bytes_ok [iat; rat]); [|discriminate].
    destruct (len r =? len ([iat; rat] ++ preq ++ pres)) eqn:E1; [|discriminate].
    destruct (len (e k (xor_zip r ([iat; rat] ++ preq ++ pres))) =? len (ra ++ ia ++ [0; 0; 0; 0])) eqn:E2;
      [|discriminate].
    intros H. inversion H; subst out. clear H. unfold e_be.
    rewrite !rev_involutive. f_equal. f_equal.
    assert (Hp1 : rev pres ++ rev preq ++ [rat] ++ [iat] = rev ([iat; rat] ++ preq ++ pres)).
    { rewrite !rev_app_distr. cbn [rev app]. rewrite <- ?app_assoc. reflexivity. }
    assert (Hp2 : zeros 4 ++ rev ia ++ rev ra = rev (ra ++ ia ++ [0; 0; 0; 0])).
    { rewrite !rev_app_distr. cbn [rev app]. rewrite <- ?app_assoc. reflexivity. }
    rewrite Hp1, Hp2.
    rewrite <- (xor_zip_rev r ([iat; rat] ++ preq ++ pres)) by (unfold len in E1; lia).
    rewrite rev_involutive.
    rewrite <- xor_zip_rev by (unfold len in E2; lia). rewrite rev_involutive. reflexivity.
  Qed.

  (* c1 is defined on arguments of the sizes the Security Manager uses *)
  Theorem c1_defined : forall k r preq pres iat rat ia ra,
    (forall d, length d = 16%nat -> length (e k d) = 16%nat) ->
    length r = 16%nat -> length preq = 7%nat -> length pres = 7%nat ->
    length ia = 6%nat -> length ra = 6%nat -> bytes_ok [iat; rat] = true ->
    exists out, c1 e k r preq pres iat rat ia ra = Some out.
  Proof.
    intros k r preq pres iat rat ia ra He Hr Hq Hs Hia Hra Hb.
    unfold c1, bytes_of, xor_assert. rewrite Hb.
    assert (H1 : len r = len ([iat; rat] ++ preq ++ pres)).
    { unfold len. rewrite !app_length. cbn [length]. lia. }
    rewrite H1, Z.eqb_refl.
    assert (H2 : len (e k (xor_zip r ([iat; rat] ++ preq ++ pres))) = len (ra ++ ia ++ [0; 0; 0; 0])).
    { unfold len. rewrite He.
      - rewrite !app_length. cbn [length]. lia.
      - apply xor_zip_length_eq; auto. rewrite !app_length. cbn [length]. lia. }
    rewrite H2, Z.eqb_refl. eauto.
  Qed.

  Theorem s1_spec : forall k r1 r2,
    rev (s1 e k r1 r2) = spec_s1 e (rev k) (rev r1) (rev r2).
  Proof.
    intros. unfold s1, spec_s1, e_be. rewrite !py_slice_0 by lia.
    rewrite !rev_involutive, !lastn_rev, <- rev_app_distr, rev_involutive. reflexivity.
  Qed.

End ToolboxE.

Section ToolboxCmac.
  Variable aes_cmac : list Z -> list Z -> list Z.

  Theorem f4_spec : forall u v x z, length z = 1%nat ->
    rev (f4 aes_cmac u v x z) = spec_f4 aes_cmac (rev u) (rev v) (rev x) (rev z).
  Proof.
    intros. unfold f4, spec_f4, cmac_be. rewrite rev_involutive, (rev_single z) by assumption.
    reflexivity.
  Qed.

  Lemma f5_constants : f5_salt = spec_salt /\ f5_key_id = spec_keyID.
  Proof. split; reflexivity. Qed.

  Theorem f5_spec : forall w n1 n2 a1 a2,
    (rev (fst (f5 aes_cmac w n1 n2 a1 a2)), rev (snd (f5 aes_cmac w n1 n2 a1 a2))) =
    spec_f5 aes_cmac (rev w) (rev n1) (rev n2) (rev a1) (rev a2).
  Proof.
    intros. unfold f5, spec_f5, cmac_be. cbn [fst snd]. rewrite !rev_involutive. reflexivity.
  Qed.

  Theorem f6_spec : forall w n1 n2 r io_cap a1 a2,
    rev (f6 aes_cmac w n1 n2 r io_cap a1 a2) =
    spec_f6 aes_cmac (rev w) (rev n1) (rev n2) (rev r) (rev io_cap) (rev a1) (rev a2).
  Proof. intros. unfold f6, spec_f6, cmac_be. rewrite rev_involutive. reflexivity. Qed.

  Theorem g2_spec : forall u v x y,
    length (aes_cmac (rev u ++ rev v ++ rev y) (rev x)) = 16%nat ->
    bytes_ok (aes_cmac (rev u ++ rev v ++ rev y) (rev x)) = true ->
    g2 aes_cmac u v x y = spec_g2 aes_cmac (rev u) (rev v) (rev x) (rev y).
  Proof.
    intros u v x y Hl Hok. unfold g2, spec_g2, cmac_be.
    set (t := aes_cmac _ _) in *.
    assert (Hs : py_from t (-4) = skipn (length t - 4) t).
    { unfold py_from, py_slice, norm_index. unfold len. rewrite Hl.
      change (-4 <? 0) with true. change (Z.of_nat 16 <? 0) with false. cbv iota.
      change (Z.to_nat (Z.min (Z.of_nat 16) (Z.of_nat 16) - Z.max 0 (Z.of_nat 16 + -4))) with 4%nat.
      change (Z.to_nat (Z.max 0 (Z.of_nat 16 + -4))) with 12%nat.
      change (16 - 4)%nat with 12%nat.
      apply firstn_all2. rewrite skipn_length. lia. }
    rewrite Hs. rewrite be_int_lastn by assumption. rewrite Hl. reflexivity.
  Qed.

  Theorem h6_spec : forall w key_id,
    rev (h6 aes_cmac w key_id) = spec_h6 aes_cmac (rev w) key_id.
  Proof. intros. unfold h6, spec_h6, cmac_be. apply rev_involutive. Qed.

  Theorem h7_spec : forall salt w,
    rev (h7 aes_cmac salt w) = spec_h7 aes_cmac salt (rev w).
  Proof. intros. unfold h7, spec_h7, cmac_be. apply rev_involutive. Qed.

  (* ---------------------------------------------------------------- resolvable private addresses *)
End ToolboxCmac.

  (* the non-resolvable branch: top bits 0b00 *)
  Lemma land_63_top : forall b, Z.shiftr (Z.land b 63) 6 = 0.
  Proof.
    intros b. change 63 with (Z.ones 6). rewrite Z.land_ones by lia.
    rewrite Z.shiftr_div_pow2 by lia. apply Z.div_small. apply Z.mod_pos_bound. lia.
  Qed.

  Theorem nrpa_type_bits : forall tb, length tb = 6%nat -> top_bits (nrpa_generate tb) = 0.
  Proof.
    intros tb H. unfold top_bits, nrpa_generate. rewrite py_upto_nonneg by lia.
    change (Z.to_nat 5) with 5%nat.
    rewrite app_nth2 by (rewrite firstn_length; lia).
    rewrite firstn_length. replace (Nat.min 5 (length tb)) with 5%nat by lia.
    change (5 - 5)%nat with 0%nat. cbn [nth]. apply land_63_top.
  Qed.


Section ToolboxRpa.
  Variable e : list Z -> list Z -> list Z.
  Hypothesis e_len : forall k d, length d = 16%nat -> length (e k d) = 16%nat.

  Lemma prand_len : forall tb, length tb = 6%nat -> length (prand_of tb) = 3%nat.
  Proof using e_len.
    intros tb H. unfold prand_of. rewrite py_upto_nonneg by lia.
    rewrite app_length, firstn_length. cbn [length]. change (Z.to_nat 2) with 2%nat. lia.
  Qed.

  Lemma ah_len : forall k r, length r = 3%nat -> length (ah e k r) = 3%nat.
  Proof using e_len.
    intros k r H. unfold ah. rewrite py_slice_0 by lia. rewrite firstn_length.
    rewrite e_len by (rewrite app_length, length_zeros; lia). reflexivity.
  Qed.

  Theorem rpa_length : forall irk tb, length tb = 6%nat -> length (rpa_generate e irk tb) = 6%nat.
  Proof using e_len.
    intros. unfold rpa_generate. rewrite app_length, ah_len, prand_len; auto using prand_len.
  Qed.

  Lemma slice_hash : forall h p : list Z, length h = 3%nat -> length p = 3%nat ->
    py_slice (h ++ p) 0 3 = h /\ py_slice (h ++ p) 3 6 = p.
  Proof using e_len.
    intros h p Hh Hp. unfold py_slice, norm_index. rewrite len_app. unfold len. rewrite Hh, Hp.
    change (Z.of_nat 3 + Z.of_nat 3) with 6.
    change (0 <? 0) with false. change (3 <? 0) with false. change (6 <? 0) with false. cbv iota.
    change (Z.to_nat (Z.min 3 6 - Z.min 0 6)) with 3%nat.
    change (Z.to_nat (Z.min 0 6)) with 0%nat.
    change (Z.to_nat (Z.min 6 6 - Z.min 3 6)) with 3%nat.
    change (Z.to_nat (Z.min 3 6)) with 3%nat.
    split.
    - cbn [skipn]. rewrite firstn_app, Hh. change (3 - 3)%nat with 0%nat.
      rewrite firstn_O, app_nil_r. apply firstn_all2. lia.
    - rewrite skipn_app, Hh. change (3 - 3)%nat with 0%nat.
      rewrite (skipn_all2 h) by lia. cbn [skipn app]. apply firstn_all2. lia.
  Qed.

  (* resolve(irk, generate(irk, prand)) = true for every key and every random draw *)
  Theorem rpa_resolves : forall irk tb, length tb = 6%nat ->
    rpa_matches e irk (rpa_generate e irk tb) = true.
  Proof using e_len.
    intros irk tb H. unfold rpa_matches, rpa_generate.
    destruct (slice_hash (ah e irk (prand_of tb)) (prand_of tb)) as [H1 H2];
      auto using ah_len, prand_len.
    rewrite H1, H2. apply list_eqb_refl.
  Qed.

  Theorem rpa_resolves_in_list : forall irk tb before after, length tb = 6%nat ->
    exists i, resolve e (before ++ irk :: after) (rpa_generate e irk tb) = Some i /\
              (i <= length before)%nat.
  Proof using e_len.
    intros irk tb before after H. unfold resolve.
    assert (G : forall n, exists i, resolve_from e n (before ++ irk :: after) (rpa_generate e irk tb) = Some i
                                    /\ (i <= n + length before)%nat).
    { induction before as [|k before IH]; intros n; cbn [app resolve_from length].
      - rewrite rpa_resolves by assumption. exists n. split; [reflexivity|lia].
      - destruct (rpa_matches e k _).
        + exists n. split; [reflexivity|lia].
        + destruct (IH (S n)) as (i & Hi & Hle). exists i. split; [assumption|lia]. }
    destruct (G 0%nat) as (i & Hi & Hle). exists i. split; [assumption|lia].
  Qed.

  Lemma prand_top_bits_byte : forall b, Z.shiftr (Z.lor (Z.land b 127) 64) 6 = 1.
  Proof using e_len.
    intros b. change 127 with (Z.ones 7). rewrite Z.land_ones by lia. change (2 ^ 7) with 128.
    assert (Hm : 0 <= b mod 128 < 128) by (apply Z.mod_pos_bound; lia).
    set (v := b mod 128) in *.
    assert (Hv : 0 <= v < 256) by lia.
    apply (byte_cases (fun v => (128 <=? v) || (Z.shiftr (Z.lor v 64) 6 =? 1))) in Hv.
    - apply orb_true_iff in Hv as [Hv|Hv]; lia.
    - vm_compute. reflexivity.
  Qed.

  (* the two most significant bits of a generated resolvable private address are 0b01 *)
  Theorem rpa_type_bits : forall irk tb, length tb = 6%nat ->
    is_resolvable_bytes (rpa_generate e irk tb) = true.
  Proof using e_len.
    intros irk tb H. unfold is_resolvable_bytes, rpa_generate.
    rewrite app_nth2 by (rewrite ah_len; auto using prand_len).
    rewrite ah_len by auto using prand_len. change (5 - 3)%nat with 2%nat.
    unfold prand_of. rewrite py_upto_nonneg by lia. change (Z.to_nat 2) with 2%nat.
    rewrite app_nth2 by (rewrite firstn_length; lia).
    rewrite firstn_length. replace (Nat.min 2 (length tb)) with 2%nat by lia.
    change (2 - 2)%nat with 0%nat. cbn [nth].
    rewrite prand_top_bits_byte. reflexivity.
  Qed.

  Theorem rpa_shape : forall irk tb, length tb = 6%nat ->
    length (rpa_generate e irk tb) = 6%nat /\ is_resolvable_bytes (rpa_generate e irk tb) = true.
  Proof using e_len. intros irk tb H. exact (conj (rpa_length irk tb H) (rpa_type_bits irk tb H)). Qed.
End ToolboxRpa.

(* ------------------------------------------------------------------ agreement of two back ends *)
(* ------------------------------------------------------------------ the resolver is a pure function *)
Section Resolver.
  Variable e : list Z -> list Z -> list Z.

  (* the deterministic content of "does not resolve under an unrelated key": a key whose hash of
     the address's prand differs from the address's hash part does not match *)
  Theorem rpa_matches_iff : forall k addr,
    rpa_matches e k addr = true <-> ah e k (py_slice addr 3 6) = py_slice addr 0 3.
  Proof. intros. unfold rpa_matches. apply list_eqb_eq. Qed.

  Theorem rpa_unrelated_key_rejected : forall k addr,
    ah e k (py_slice addr 3 6) <> py_slice addr 0 3 -> rpa_matches e k addr = false.
  Proof.
    intros k addr H. destruct (rpa_matches e k addr) eqn:E; [|reflexivity].
    apply rpa_matches_iff in E. contradiction.
  Qed.

  Lemma resolve_from_spec : forall irks addr n,
    match resolve_from e n irks addr with
    | Some i => (n <= i)%nat /\ rpa_matches e (nth (i - n) irks []) addr = true /\
                (i - n < length irks)%nat /\
                forall j, (j < i - n)%nat -> rpa_matches e (nth j irks []) addr = false
    | None => forall j, (j < length irks)%nat -> rpa_matches e (nth j irks []) addr = false
    end.
  Proof.
    induction irks as [|k irks IH]; intros addr n; cbn [resolve_from].
    - intros j Hj. simpl in Hj. lia.
    - destruct (rpa_matches e k addr) eqn:Ek.
      + replace (n - n)%nat with 0%nat by lia. cbn [nth length]. repeat split; try lia. assumption.
      + specialize (IH addr (S n)). destruct (resolve_from e (S n) irks addr) as [i|].
        * destruct IH as (H1 & H2 & H3 & H4).
          replace (i - n)%nat with (S (i - S n)) by lia. cbn [nth length].
          repeat split; try lia; try assumption.
          intros [|j] Hj; [assumption|]. apply H4. lia.
        * intros [|j] Hj; [assumption|]. cbn [nth]. apply IH. simpl in Hj. lia.
  Qed.

  (* resolve returns the FIRST key of the list whose hash matches, and None only when none does *)
  Theorem resolve_first_match : forall irks addr,
    match resolve e irks addr with
    | Some i => rpa_matches e (nth i irks []) addr = true /\ (i < length irks)%nat /\
                forall j, (j < i)%nat -> rpa_matches e (nth j irks []) addr = false
    | None => forall j, (j < length irks)%nat -> rpa_matches e (nth j irks []) addr = false
    end.
  Proof.
    intros irks addr. unfold resolve. pose proof (resolve_from_spec irks addr 0) as H.
    destruct (resolve_from e 0 irks addr) as [i|]; [|assumption].
    rewrite Nat.sub_0_r in H. tauto.
  Qed.

  (* in any sequence of resolve() calls on one resolver, every result is that of its call alone *)
  Theorem resolve_history_pure : forall irks addrs i addr,
    nth_error addrs i = Some addr ->
    nth_error (resolve_history e irks addrs) i = Some (resolve e irks addr).
  Proof. intros irks addrs i addr H. unfold resolve_history. rewrite nth_error_map, H. reflexivity. Qed.
End Resolver.

Section AgreementE.
  Variables e1 e2 : list Z -> list Z -> list Z.
  (* the two back ends agree on AES-128 e for 16-byte keys and blocks; outputs are 16 bytes *)
  Hypothesis e_agree : forall k d, length k = 16%nat -> length d = 16%nat -> e1 k d = e2 k d.
  Hypothesis e_len : forall k d, length k = 16%nat -> length d = 16%nat -> length (e1 k d) = 16%nat.

  Theorem ah_agree : forall k r, length k = 16%nat -> length r = 3%nat -> ah e1 k r = ah e2 k r.
  Proof using e_agree e_len.
    intros. unfold ah. rewrite e_agree; auto. rewrite app_length, length_zeros. lia.
  Qed.

  Theorem c1_agree : forall k r preq pres iat rat ia ra,
    length k = 16%nat -> length r = 16%nat -> length preq = 7%nat -> length pres = 7%nat ->
    length ia = 6%nat -> length ra = 6%nat ->
    c1 e1 k r preq pres iat rat ia ra = c1 e2 k r preq pres iat rat ia ra.
  Proof using e_agree e_len.
    intros k r preq pres iat rat ia ra Hk Hr Hq Hs Hia Hra. unfold c1.
    destruct (bytes_of [iat; rat]) as [h|] eqn:Eh; [|reflexivity].
    assert (Hh : length h = 2%nat).
    { unfold bytes_of in Eh. destruct (bytes_ok [iat; rat]); inversion Eh. reflexivity. }
    unfold xor_assert.
    destruct (len r =? len (h ++ preq ++ pres)); [|reflexivity].
    assert (Hx : length (xor_zip r (h ++ preq ++ pres)) = 16%nat).
    { apply xor_zip_length_eq; auto. rewrite !app_length. lia. }
    rewrite <- (e_agree k (xor_zip r (h ++ preq ++ pres))) by assumption.
    destruct (len (e1 k (xor_zip r (h ++ preq ++ pres))) =? len (ra ++ ia ++ [0; 0; 0; 0])); [|reflexivity].
    rewrite e_agree; auto.
    apply xor_zip_length_eq; [apply e_len; assumption|].
    rewrite !app_length. cbn [length]. lia.
  Qed.

  Theorem s1_agree : forall k r1 r2,
    length k = 16%nat -> (8 <= length r1)%nat -> (8 <= length r2)%nat ->
    s1 e1 k r1 r2 = s1 e2 k r1 r2.
  Proof using e_agree e_len.
    intros. unfold s1. apply e_agree; auto.
    rewrite !py_slice_0 by lia. rewrite app_length, !firstn_length. change (Z.to_nat 8) with 8%nat. lia.
  Qed.
End AgreementE.

Section AgreementCm.
  Variables cm1 cm2 : list Z -> list Z -> list Z.
  (* ... and on AES-CMAC for 16-byte keys and messages of any length; tags are 16 bytes *)
  Hypothesis cm_agree : forall m k, length k = 16%nat -> cm1 m k = cm2 m k.
  Hypothesis cm_len : forall m k, length k = 16%nat -> length (cm1 m k) = 16%nat.

  Theorem f4_agree : forall u v x z, length x = 16%nat -> f4 cm1 u v x z = f4 cm2 u v x z.
  Proof using cm_agree cm_len. intros. unfold f4. rewrite cm_agree; auto. rewrite rev_length. assumption. Qed.

  Theorem f5_agree : forall w n1 n2 a1 a2, f5 cm1 w n1 n2 a1 a2 = f5 cm2 w n1 n2 a1 a2.
  Proof using cm_agree cm_len.
    intros. unfold f5. rewrite <- (cm_agree (rev w) f5_salt) by reflexivity.
    rewrite !(cm_agree _ (cm1 (rev w) f5_salt)) by (apply cm_len; reflexivity). reflexivity.
  Qed.

  Theorem f6_agree : forall w n1 n2 r io_cap a1 a2, length w = 16%nat ->
    f6 cm1 w n1 n2 r io_cap a1 a2 = f6 cm2 w n1 n2 r io_cap a1 a2.
  Proof using cm_agree cm_len. intros. unfold f6. rewrite cm_agree; auto. rewrite rev_length. assumption. Qed.

  Theorem g2_agree : forall u v x y, length x = 16%nat -> g2 cm1 u v x y = g2 cm2 u v x y.
  Proof using cm_agree cm_len. intros. unfold g2. rewrite cm_agree; auto. rewrite rev_length. assumption. Qed.

  Theorem h6_agree : forall w key_id, length w = 16%nat -> h6 cm1 w key_id = h6 cm2 w key_id.
  Proof using cm_agree cm_len. intros. unfold h6. rewrite cm_agree; auto. rewrite rev_length. assumption. Qed.

  Theorem h7_agree : forall salt w, length salt = 16%nat -> h7 cm1 salt w = h7 cm2 salt w.
  Proof using cm_agree cm_len. intros. unfold h7. rewrite cm_agree; auto. Qed.
End AgreementCm.

Theorem backends_agree_on_toolbox :
  forall e1 e2 cm1 cm2 : list Z -> list Z -> list Z,
  (forall k d, length k = 16%nat -> length d = 16%nat -> e1 k d = e2 k d) ->
  (forall k d, length k = 16%nat -> length d = 16%nat -> length (e1 k d) = 16%nat) ->
  (forall m k, length k = 16%nat -> cm1 m k = cm2 m k) ->
  (forall m k, length k = 16%nat -> length (cm1 m k) = 16%nat) ->
  (forall k r, length k = 16%nat -> length r = 3%nat -> ah e1 k r = ah e2 k r) /\
  (forall k r preq pres iat rat ia ra,
     length k = 16%nat -> length r = 16%nat -> length preq = 7%nat -> length pres = 7%nat ->
     length ia = 6%nat -> length ra = 6%nat ->
     c1 e1 k r preq pres iat rat ia ra = c1 e2 k r preq pres iat rat ia ra) /\
  (forall k r1 r2, length k = 16%nat -> (8 <= length r1)%nat -> (8 <= length r2)%nat ->
     s1 e1 k r1 r2 = s1 e2 k r1 r2) /\
  (forall u v x z, length x = 16%nat -> f4 cm1 u v x z = f4 cm2 u v x z) /\
  (forall w n1 n2 a1 a2, f5 cm1 w n1 n2 a1 a2 = f5 cm2 w n1 n2 a1 a2) /\
  (forall w n1 n2 r io_cap a1 a2, length w = 16%nat ->
     f6 cm1 w n1 n2 r io_cap a1 a2 = f6 cm2 w n1 n2 r io_cap a1 a2) /\
  (forall u v x y, length x = 16%nat -> g2 cm1 u v x y = g2 cm2 u v x y) /\
  (forall w key_id, length w = 16%nat -> h6 cm1 w key_id = h6 cm2 w key_id) /\
  (forall salt w, length salt = 16%nat -> h7 cm1 salt w = h7 cm2 salt w).
Proof.
  intros e1 e2 cm1 cm2 He Hel Hc Hcl.
  exact (conj (ah_agree e1 e2 He Hel)
        (conj (c1_agree e1 e2 He Hel)
        (conj (s1_agree e1 e2 He Hel)
        (conj (f4_agree cm1 cm2 Hc Hcl)
        (conj (f5_agree cm1 cm2 Hc Hcl)
        (conj (f6_agree cm1 cm2 Hc Hcl)
        (conj (g2_agree cm1 cm2 Hc Hcl)
        (conj (h6_agree cm1 cm2 Hc Hcl) (h7_agree cm1 cm2 Hc Hcl))))))))).
Qed.
