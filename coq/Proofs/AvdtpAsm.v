(* AVDTP: what Protocol.send_message emits is reassembled byte-identically by
   MessageAssembler, from ANY assembler state (resynchronisation). *)
From Coq Require Import ZArith List Bool Lia.
From BV Require Import Model.C19Chunks Model.AvdtpAsm Proofs.C19Chunks.
Import ListNotations.
Open Scope Z_scope.

(* ---- header byte ---- *)
Lemma hdr_decode : forall label pt mt,
  0 <= label -> 0 <= pt < 4 -> 0 <= mt < 4 ->
  a_hdr label pt mt / 16 = label /\ (a_hdr label pt mt / 4) mod 4 = pt /\ a_hdr label pt mt mod 4 = mt.
Proof.
  intros label pt mt Hl Hp Hm. unfold a_hdr.
  repeat split; Z.div_mod_to_equations; lia.
Qed.

Lemma a_on_pdu_cons : forall s b0 rest,
  a_on_pdu s (b0 :: rest) =
  a_on_frame (a_set_count s (a_count s + 1)) (b0 / 16) ((b0 / 4) mod 4) (b0 mod 4) rest.
Proof. reflexivity. Qed.

(* ---- one packet of each type, in decoded form ---- *)
Lemma frame_single : forall s label mt sg body,
  a_on_frame s label PT_SINGLE mt (sg :: body) = (a_reset, [AMsg label (sg mod 64) mt body]).
Proof. reflexivity. Qed.

Lemma frame_start : forall s label mt sg n body,
  a_on_frame s label PT_START mt (sg :: n :: body) = (mkA label (Some body) mt (sg mod 64) n 1, []).
Proof. reflexivity. Qed.

Lemma frame_continue : forall label acc mt sg n k c,
  (k =? 0) = false -> (n <? k) = false ->
  a_on_frame (mkA label (Some acc) mt sg n k) label PT_CONTINUE mt c =
  (mkA label (Some (acc ++ c)) mt sg n k, []).
Proof.
  intros label acc mt sg n k c Hk Hn. unfold a_on_frame.
  change ((PT_CONTINUE =? PT_SINGLE) || (PT_CONTINUE =? PT_START)) with false.
  cbn [a_count a_label a_mtype a_msg a_nsp a_sig].
  rewrite Hk, !Z.eqb_refl. cbn [negb].
  change (PT_CONTINUE =? PT_END) with false. cbv iota. rewrite Hn. reflexivity.
Qed.

Lemma frame_end : forall label acc mt sg n c,
  (n =? 0) = false ->
  a_on_frame (mkA label (Some acc) mt sg n n) label PT_END mt c =
  (a_reset, [AMsg label sg mt (acc ++ c)]).
Proof.
  intros label acc mt sg n c Hn. unfold a_on_frame.
  change ((PT_END =? PT_SINGLE) || (PT_END =? PT_START)) with false.
  cbn [a_count a_label a_mtype a_msg a_nsp a_sig].
  rewrite Hn, !Z.eqb_refl. cbn [negb].
  change (PT_END =? PT_END) with true. cbv iota. reflexivity.
Qed.

(* ---- whole packets ---- *)
Lemma pdu_single : forall s label mt sg body,
  0 <= label -> 0 <= mt < 4 -> 0 <= sg < 64 ->
  a_on_pdu s (a_hdr label PT_SINGLE mt :: sg :: body) = (a_reset, [AMsg label sg mt body]).
Proof.
  intros s label mt sg body Hl Hm Hs.
  destruct (hdr_decode label PT_SINGLE mt Hl ltac:(unfold PT_SINGLE; lia) Hm) as (H1 & H2 & H3).
  rewrite a_on_pdu_cons, H1, H2, H3, frame_single. rewrite (Z.mod_small sg 64) by lia. reflexivity.
Qed.

Lemma pdu_start : forall s label mt sg n body,
  0 <= label -> 0 <= mt < 4 -> 0 <= sg < 64 ->
  a_on_pdu s (a_hdr label PT_START mt :: sg :: n :: body) = (mkA label (Some body) mt sg n 1, []).
Proof.
  intros s label mt sg n body Hl Hm Hs.
  destruct (hdr_decode label PT_START mt Hl ltac:(unfold PT_START; lia) Hm) as (H1 & H2 & H3).
  rewrite a_on_pdu_cons, H1, H2, H3, frame_start. rewrite (Z.mod_small sg 64) by lia. reflexivity.
Qed.

Lemma pdu_continue : forall label acc mt sg n k c,
  0 <= label -> 0 <= mt < 4 -> 0 <= k -> k + 1 <= n ->
  a_on_pdu (mkA label (Some acc) mt sg n k) (a_hdr label PT_CONTINUE mt :: c) =
  (mkA label (Some (acc ++ c)) mt sg n (k + 1), []).
Proof.
  intros label acc mt sg n k c Hl Hm Hk Hn.
  destruct (hdr_decode label PT_CONTINUE mt Hl ltac:(unfold PT_CONTINUE; lia) Hm) as (H1 & H2 & H3).
  rewrite a_on_pdu_cons, H1, H2, H3. unfold a_set_count. cbn [a_count a_label a_mtype a_msg a_nsp a_sig].
  apply frame_continue.
  - apply Z.eqb_neq. lia.
  - apply Z.ltb_ge. lia.
Qed.

Lemma pdu_end : forall label acc mt sg n k c,
  0 <= label -> 0 <= mt < 4 -> 0 <= k -> k + 1 = n ->
  a_on_pdu (mkA label (Some acc) mt sg n k) (a_hdr label PT_END mt :: c) =
  (a_reset, [AMsg label sg mt (acc ++ c)]).
Proof.
  intros label acc mt sg n k c Hl Hm Hk Hn.
  destruct (hdr_decode label PT_END mt Hl ltac:(unfold PT_END; lia) Hm) as (H1 & H2 & H3).
  rewrite a_on_pdu_cons, H1, H2, H3. unfold a_set_count. cbn [a_count a_label a_mtype a_msg a_nsp a_sig].
  rewrite Hn. apply frame_end. apply Z.eqb_neq. lia.
Qed.

(* ---- runs ---- *)
Lemma a_run_app : forall p1 p2 s,
  a_run s (p1 ++ p2) =
  (fst (a_run (fst (a_run s p1)) p2), snd (a_run s p1) ++ snd (a_run (fst (a_run s p1)) p2)).
Proof.
  induction p1 as [|p p1 IH]; intros p2 s; simpl.
  - destruct (a_run s p2); reflexivity.
  - destruct (a_on_pdu s p) as [s1 o1]. rewrite IH.
    destruct (a_run s1 p1) as [s2 o2]. simpl.
    destruct (a_run s2 p2) as [s3 o3]. simpl. rewrite app_assoc. reflexivity.
Qed.

(* the CONTINUE / END packets after a START packet *)
Lemma tail_run : forall cs label sg mt n acc k,
  cs <> [] -> 0 <= label -> 0 <= mt < 4 -> 0 <= k -> k + zlen cs = n ->
  a_run (mkA label (Some acc) mt sg n k) (a_tail_packets label mt cs) =
  (a_reset, [AMsg label sg mt (acc ++ concat cs)]).
Proof.
  induction cs as [|c cs IH]; intros label sg mt n acc k Hne Hl Hm Hk Hn; [congruence|].
  destruct cs as [|c2 cs'].
  - (* last piece: END *)
    cbn [a_tail_packets a_run]. rewrite zlen_cons, zlen_nil in Hn.
    rewrite (pdu_end label acc mt sg n k c Hl Hm Hk ltac:(lia)). cbn [concat app]. rewrite !app_nil_r. reflexivity.
  - change (a_tail_packets label mt (c :: c2 :: cs'))
      with ((a_hdr label PT_CONTINUE mt :: c) :: a_tail_packets label mt (c2 :: cs')).
    rewrite zlen_cons in Hn. pose proof (zlen_nonneg _ (c2 :: cs')) as Hnn.
    assert (1 <= zlen (c2 :: cs')) by (rewrite zlen_cons; pose proof (zlen_nonneg _ cs'); lia).
    cbn [a_run]. rewrite (pdu_continue label acc mt sg n k c Hl Hm Hk ltac:(lia)).
    rewrite (IH label sg mt n (acc ++ c) (k + 1) ltac:(discriminate) Hl Hm ltac:(lia) ltac:(lia)).
    cbn [concat app]. rewrite <- !app_assoc. reflexivity.
Qed.

Definition hdr_ok (label sg mt : Z) : bool :=
  (0 <=? label) && (label <? 16) && (0 <=? sg) && (sg <? 64) && (0 <=? mt) && (mt <? 4).

(* the byte-count guard of send_message: single packet, or at most 255 packets *)
Definition size_ok (mtu : Z) (payload : list Z) : bool :=
  (zlen payload + 2 <=? mtu) || (zlen payload <=? 255 * (mtu - 3)).

Lemma ceil_le_255 : forall F L, 1 <= F -> 0 <= L -> L <= 255 * F -> (F - 1 + L) / F <= 255.
Proof.
  intros F L HF HL H. apply Z.lt_succ_r. apply Z.div_lt_upper_bound; lia.
Qed.

Lemma ceil_gt_255 : forall F L, 1 <= F -> 255 * F < L -> 255 < (F - 1 + L) / F.
Proof.
  intros F L HF H. apply Z.lt_le_trans with (m := (256 * F) / F).
  - rewrite Z.div_mul by lia. lia.
  - apply Z.div_le_mono; lia.
Qed.

(* Main theorem: for every MTU >= 4, every header, every payload within the guard, from every
   assembler state: send_message's packets are delivered as exactly that message, and the
   assembler is left in its reset state.  Every packet fits the MTU. *)
Theorem frag_asm : forall mtu label sg mt payload s,
  4 <= mtu -> hdr_ok label sg mt = true -> size_ok mtu payload = true ->
  exists ps, a_frag mtu label sg mt payload = FPackets ps /\
             a_run s ps = (a_reset, [AMsg label sg mt payload]) /\
             Forall (fun p => zlen p <= mtu) ps.
Proof.
  intros mtu label sg mt payload s Hmtu Hh Hsz.
  unfold hdr_ok in Hh. repeat rewrite andb_true_iff in Hh.
  destruct Hh as (((((H1 & H2) & H3) & H4) & H5) & H6).
  apply Z.leb_le in H1, H3, H5. apply Z.ltb_lt in H2, H4, H6.
  unfold a_frag. destruct (zlen payload + 2 <=? mtu) eqn:Es.
  - (* single packet *)
    apply Z.leb_le in Es. eexists. split; [reflexivity|]. split.
    + cbn [a_run]. rewrite pdu_single by lia. reflexivity.
    + constructor; [|constructor]. rewrite !zlen_cons. lia.
  - apply Z.leb_gt in Es. unfold size_ok in Hsz.
    apply orb_true_iff in Hsz. destruct Hsz as [Hsz|Hsz]; [apply Z.leb_le in Hsz; lia|].
    apply Z.leb_le in Hsz.
    set (F := mtu - 3) in *. assert (HF : 1 <= F) by (unfold F; lia).
    pose proof (zlen_nonneg _ payload) as HL.
    pose proof (ceil_le_255 F (zlen payload) HF HL Hsz) as Hn.
    destruct (255 <? (F - 1 + zlen payload) / F) eqn:En; [apply Z.ltb_lt in En; lia|].
    assert (HFn : (1 <= Z.to_nat F)%nat) by lia.
    assert (Hlen : (Z.to_nat F <= length payload)%nat) by (unfold zlen in *; lia).
    destruct (chunks_some (length payload) (Z.to_nat F) (skipn (Z.to_nat F) payload) HFn) as [cs Ecs].
    { rewrite skipn_length. lia. }
    rewrite Ecs. eexists. split; [reflexivity|].
    pose proof (chunks_concat _ _ _ _ Ecs) as Hcat.
    pose proof (chunks_count _ _ _ _ HFn Ecs) as Hcnt.
    pose proof (chunks_pieces _ _ _ _ HFn Ecs) as Hpieces.
    rewrite zlen_skipn in Hcnt by exact Hlen. rewrite Z2Nat.id in Hcnt by lia.
    assert (Hn' : (F - 1 + zlen payload) / F = 1 + zlen cs).
    { rewrite Hcnt.
      replace (F - 1 + zlen payload) with ((zlen payload - F + F - 1) + 1 * F) by lia.
      rewrite Z.div_add by lia. lia. }
    assert (Hcs : cs <> []).
    { intro Hc. subst cs. simpl in Hcat.
      assert (length (skipn (Z.to_nat F) payload) = 0%nat) by (rewrite <- Hcat; reflexivity).
      rewrite skipn_length in H. unfold zlen in *. lia. }
    split.
    + cbn [a_run]. rewrite pdu_start by lia.
      rewrite (tail_run cs label sg mt ((F - 1 + zlen payload) / F) (firstn (Z.to_nat F) payload) 1 Hcs H1
                ltac:(lia) ltac:(lia) (eq_sym Hn')).
      rewrite Hcat, firstn_skipn. reflexivity.
    + constructor.
      * rewrite !zlen_cons. rewrite zlen_firstn by exact Hlen. unfold F. lia.
      * clear - Hpieces HF. revert Hpieces. generalize cs. induction cs0 as [|c cs0 IH]; intro Hp.
        -- constructor.
        -- inversion Hp as [|? ? [_ Hc] Hp']; subst.
           destruct cs0 as [|c2 cs0'].
           ++ simpl. constructor; [|constructor]. rewrite zlen_cons. unfold zlen, F in *. lia.
           ++ change (a_tail_packets label mt (c :: c2 :: cs0'))
                with ((a_hdr label PT_CONTINUE mt :: c) :: a_tail_packets label mt (c2 :: cs0')).
              constructor; [|exact (IH Hp')]. rewrite zlen_cons. unfold zlen, F in *. lia.
Qed.

(* beyond the guard the packet count does not fit a byte: send_message raises, nothing is sent *)
Theorem frag_over_guard : forall mtu label sg mt payload,
  4 <= mtu -> size_ok mtu payload = false -> a_frag mtu label sg mt payload = FRaise.
Proof.
  intros mtu label sg mt payload Hmtu Hsz. unfold size_ok in Hsz.
  apply orb_false_iff in Hsz. destruct Hsz as [H1 H2].
  unfold a_frag. rewrite H1. apply Z.leb_gt in H2.
  pose proof (ceil_gt_255 (mtu - 3) (zlen payload) ltac:(lia) H2) as H.
  apply Z.ltb_lt in H. rewrite H. reflexivity.
Qed.

(* Resynchronisation: whatever was received before (any PDUs at all, from any state), the next
   message sent by send_message is delivered intact, after whatever the junk produced. *)
Theorem resync : forall junk mtu label sg mt payload s,
  4 <= mtu -> hdr_ok label sg mt = true -> size_ok mtu payload = true ->
  exists ps, a_frag mtu label sg mt payload = FPackets ps /\
             a_run s (junk ++ ps) = (a_reset, snd (a_run s junk) ++ [AMsg label sg mt payload]).
Proof.
  intros junk mtu label sg mt payload s Hmtu Hh Hsz.
  destruct (frag_asm mtu label sg mt payload (fst (a_run s junk)) Hmtu Hh Hsz) as (ps & Hf & Hr & _).
  exists ps. split; [exact Hf|]. rewrite a_run_app, Hr. reflexivity.
Qed.

(* Fragments laid out by a peer with ANY cut of the payload (first piece c0, further pieces cs)
   are reassembled too: the assembler does not depend on the sender's fragment size. *)
Theorem any_cut_asm : forall label sg mt c0 cs s,
  hdr_ok label sg mt = true -> cs <> [] ->
  a_run s ((a_hdr label PT_START mt :: sg :: (1 + zlen cs) :: c0) :: a_tail_packets label mt cs) =
  (a_reset, [AMsg label sg mt (c0 ++ concat cs)]).
Proof.
  intros label sg mt c0 cs s Hh Hcs.
  unfold hdr_ok in Hh. repeat rewrite andb_true_iff in Hh.
  destruct Hh as (((((H1 & H2) & H3) & H4) & H5) & H6).
  apply Z.leb_le in H1, H3, H5. apply Z.ltb_lt in H2, H4, H6.
  cbn [a_run]. rewrite pdu_start by lia.
  rewrite (tail_run cs label sg mt (1 + zlen cs) c0 1 Hcs H1 ltac:(lia) ltac:(lia) eq_refl). reflexivity.
Qed.
