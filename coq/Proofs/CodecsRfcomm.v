(* Proofs/CodecsRfcomm.v — lemmas for Model/CodecsRfcomm.v.  Octet-level bit-field facts
   are established by complete evaluation of the (finite) octet domain and lifted with
   forall_range; list structure and lengths are handled by ordinary reasoning. *)
From Coq Require Import ZArith List Bool Lia.
From BV Require Import Base.Bytes Proofs.Bytes Model.CodecsBase Proofs.CodecsBase
  Gen.C18Tables Model.CodecsRfcomm.
Import ListNotations.
Open Scope Z_scope.

(* ---------------------------------------------------------------- FCS table = bitwise CRC-8 *)
Lemma crc_table_checked : crc_table_ok = true.
Proof. vm_compute. reflexivity. Qed.

Definition crc_closed_chk (r b : Z) : bool :=
  zlt 256 (Z.lxor r b) && zlt 256 (crc8_octet (Z.lxor r b)).
Lemma crc_closed_all : forall2b (zrange 256) (zrange 256) crc_closed_chk = true.
Proof. vm_compute. reflexivity. Qed.

Lemma crc_step_spec : forall r b, 0 <= r < 256 -> 0 <= b < 256 ->
  crc_step rfcomm_crc_table r b = crc8_octet (Z.lxor r b) /\ 0 <= crc8_octet (Z.lxor r b) < 256.
Proof.
  intros r b Hr Hb.
  pose proof (forall2_range 256 256 _ crc_closed_all r b ltac:(cbn; lia) ltac:(cbn; lia)) as H.
  unfold crc_closed_chk in H. apply andb_true_iff in H as [H1 H2].
  apply zlt_iff in H1. apply zlt_iff in H2. split; [|exact H2].
  pose proof crc_table_checked as T. unfold crc_table_ok in T. apply andb_true_iff in T as [_ T].
  pose proof (forall_range 256 _ T (Z.lxor r b) ltac:(cbn; lia)) as E. cbv beta in E.
  apply Z.eqb_eq in E. unfold crc_step. exact E.
Qed.

Theorem compute_fcs_is_crc8 : forall buf, bytes_ok buf = true -> compute_fcs buf = fcs_spec buf.
Proof.
  intros buf Hok. unfold compute_fcs, fcs_with, fcs_spec. f_equal.
  assert (G : forall r, 0 <= r < 256 ->
     fold_left (crc_step rfcomm_crc_table) buf r = fold_left (fun r b => crc8_octet (Z.lxor r b)) buf r).
  { induction buf as [|b buf IH]; intros r Hr; [reflexivity|].
    rewrite bytes_ok_cons in Hok. apply andb_true_iff in Hok as [Hb Hbuf]. apply byte_ok_iff in Hb.
    cbn [fold_left]. destruct (crc_step_spec r b Hr Hb) as [E R]. rewrite E. apply IH; assumption. }
  apply G. lia.
Qed.

Lemma compute_fcs_byte : forall buf, bytes_ok buf = true -> 0 <= compute_fcs buf < 256.
Proof.
  intros buf Hok. unfold compute_fcs, fcs_with.
  assert (G : forall r, 0 <= r < 256 -> 0 <= fold_left (crc_step rfcomm_crc_table) buf r < 256).
  { induction buf as [|b buf IH]; intros r Hr; [exact Hr|].
    rewrite bytes_ok_cons in Hok. apply andb_true_iff in Hok as [Hb Hbuf]. apply byte_ok_iff in Hb.
    cbn [fold_left]. destruct (crc_step_spec r b Hr Hb) as [E R]. rewrite E. apply IH; assumption. }
  specialize (G 255 ltac:(lia)). lia.
Qed.

(* ---------------------------------------------------------------- octet-level facts *)
(* address octet built from (dlci, c/r) *)
Definition addr_chk (dlci cr : Z) : bool :=
  let a := Z.lor (Z.lor (Z.shiftl dlci 2) (Z.shiftl cr 1)) 1 in
  byte_ok a && Z.odd a && (Z.land (Z.shiftr a 2) 63 =? dlci) && (Z.land (Z.shiftr a 1) 1 =? cr).
Lemma addr_all : forall2b (zrange 64) (zrange 2) addr_chk = true.
Proof. vm_compute. reflexivity. Qed.

(* control octet built from (type code, p/f) *)
Definition ctrl_chk (t pf : Z) : bool :=
  let c := Z.lor t (Z.shiftl pf 4) in
  byte_ok c && (Z.land c 239 =? t) && (Z.land (Z.shiftr c 4) 1 =? pf).
Lemma ctrl_all : forallb (fun t => forallb (ctrl_chk t) (zrange 2)) rfcomm_ft_codes = true.
Proof. vm_compute. reflexivity. Qed.

(* received address / control octets re-encode to themselves *)
Definition addr_back_chk (b0 : Z) : bool :=
  let a := Z.lor (Z.lor (Z.shiftl (Z.land (Z.shiftr b0 2) 63) 2) (Z.shiftl (Z.land (Z.shiftr b0 1) 1) 1)) 1 in
  zlt 64 (Z.land (Z.shiftr b0 2) 63) && zlt 2 (Z.land (Z.shiftr b0 1) 1) && (negb (Z.odd b0) || (a =? b0)).
Lemma addr_back_all : forallb addr_back_chk (zrange 256) = true.
Proof. vm_compute. reflexivity. Qed.
Definition ctrl_back_chk (b1 : Z) : bool :=
  zlt 2 (Z.land (Z.shiftr b1 4) 1) && (Z.lor (Z.land b1 239) (Z.shiftl (Z.land (Z.shiftr b1 4) 1) 4) =? b1).
Lemma ctrl_back_all : forallb ctrl_back_chk (zrange 256) = true.
Proof. vm_compute. reflexivity. Qed.

(* the length indicator, all 32768 payload lengths *)
Definition len_chk (L : Z) : bool :=
  match length_bytes L with
  | [x] => (L <=? 127) && byte_ok x && Z.odd x && (Z.shiftr x 1 =? L)
  | [x; y] => (127 <? L) && byte_ok x && byte_ok y && negb (Z.odd x)
              && (Z.lor (Z.shiftr x 1) (Z.shiftl y 7) =? L) && (Z.lor (Z.shiftl y 7) (Z.shiftr x 1) =? L)
  | _ => false
  end.
Lemma len_all : forallb len_chk (zrange (Z.to_nat 32768)) = true.
Proof. vm_compute. reflexivity. Qed.

(* received length indicators re-encode to themselves when canonical *)
Definition len1_back_chk (x : Z) : bool :=
  negb (Z.odd x) || (zlt 128 (Z.shiftr x 1) && zlist_eqb (length_bytes (Z.shiftr x 1)) [x]).
Lemma len1_back_all : forallb len1_back_chk (zrange 256) = true.
Proof. vm_compute. reflexivity. Qed.
Definition len2_back_chk (x y : Z) : bool :=
  let L := Z.lor (Z.shiftr x 1) (Z.shiftl y 7) in
  (Z.lor (Z.shiftl y 7) (Z.shiftr x 1) =? L) &&
  (Z.odd x || negb (127 <? L) || (zlt 32768 L && zlist_eqb (length_bytes L) [x; y])).
Lemma len2_back_all : forall2b (zrange 256) (zrange 256) len2_back_chk = true.
Proof. vm_compute. reflexivity. Qed.

Lemma len_cases : forall L, 0 <= L < 32768 ->
  (exists x, length_bytes L = [x] /\ L <= 127 /\ byte_ok x = true /\ Z.odd x = true /\ Z.shiftr x 1 = L) \/
  (exists x y, length_bytes L = [x; y] /\ 127 < L /\ byte_ok x = true /\ byte_ok y = true /\
               Z.odd x = false /\ Z.lor (Z.shiftr x 1) (Z.shiftl y 7) = L /\
               Z.lor (Z.shiftl y 7) (Z.shiftr x 1) = L).
Proof.
  intros L HL. pose proof (forall_range (Z.to_nat 32768) _ len_all L ltac:(cbn; lia)) as H.
  unfold len_chk in H. destruct (length_bytes L) as [|x [|y [|? ?]]]; try discriminate.
  - left. exists x. rewrite !andb_true_iff in H. destruct H as [[[H1 H2] H3] H4].
    apply Z.leb_le in H1. apply Z.eqb_eq in H4. auto.
  - right. exists x, y. rewrite !andb_true_iff in H. destruct H as [[[[[H1 H2] H3] H4] H5] H6].
    apply Z.ltb_lt in H1. apply negb_true_iff in H4. apply Z.eqb_eq in H5. apply Z.eqb_eq in H6.
    repeat split; auto.
Qed.

Lemma existsb_eqb_In : forall t l, existsb (Z.eqb t) l = true <-> In t l.
Proof.
  intros t l. rewrite existsb_exists. split.
  - intros [x [Hin He]]. apply Z.eqb_eq in He. subst. exact Hin.
  - intro H. exists t. split; [exact H|apply Z.eqb_refl].
Qed.

Lemma removelast_snoc : forall (A : Type) (l : list A) x, removelast (l ++ [x]) = l.
Proof. intros. apply removelast_last. Qed.
Lemma lastz_snoc : forall l x, lastz (l ++ [x]) = x.
Proof. intros. unfold lastz. apply last_last. Qed.
Lemma lastz_cons : forall a l, l <> [] -> lastz (a :: l) = lastz l.
Proof. intros a [|b l] H; [congruence|reflexivity]. Qed.

(* ---------------------------------------------------------------- frames *)
Lemma frame_header_facts : forall f, frame_ok f = true ->
  let a := frame_address f in let c := frame_control f in
  byte_ok a = true /\ Z.odd a = true /\ Z.land (Z.shiftr a 2) 63 = f_dlci f /\
  Z.land (Z.shiftr a 1) 1 = f_cr f /\
  byte_ok c = true /\ Z.land c 239 = f_type f /\ Z.land (Z.shiftr c 4) 1 = f_pf f.
Proof.
  intros f H. unfold frame_ok in H. rewrite !andb_true_iff in H.
  destruct H as [[[[[[Ht Hcr] Hd] Hpf] _] _] _].
  apply zlt_iff in Hcr. apply zlt_iff in Hd. apply zlt_iff in Hpf. apply existsb_eqb_In in Ht.
  pose proof (forall2_range 64 2 _ addr_all (f_dlci f) (f_cr f) ltac:(cbn; lia) ltac:(cbn; lia)) as A.
  unfold addr_chk in A. rewrite !andb_true_iff in A. destruct A as [[[A1 A2] A3] A4].
  apply Z.eqb_eq in A3. apply Z.eqb_eq in A4.
  pose proof ctrl_all as C. rewrite forallb_forall in C. specialize (C _ Ht).
  pose proof (forall_range 2 _ C (f_pf f) ltac:(cbn; lia)) as C'. unfold ctrl_chk in C'.
  rewrite !andb_true_iff in C'. destruct C' as [[C1 C2] C3].
  apply Z.eqb_eq in C2. apply Z.eqb_eq in C3.
  cbv zeta. unfold frame_address, frame_control. repeat split; assumption.
Qed.

Theorem frame_value_roundtrip : forall f,
  frame_ok f = true -> frame_parse (frame_bytes f) = Some f.
Proof.
  intros f Hok. pose proof (frame_header_facts f Hok) as HF. cbv zeta in HF.
  destruct HF as [Ha [Hao [Hd [Hcr [Hc [Ht Hpf]]]]]].
  pose proof Hok as Hok'. unfold frame_ok in Hok'. rewrite !andb_true_iff in Hok'.
  destruct Hok' as [[[[[[Htc _] _] _] Hinfo] HL] Hcred].
  apply zlt_iff in HL. apply eqb_prop in Hcred.
  unfold frame_bytes. cbn [app].
  assert (Hrebuild : {| f_type := f_type f; f_cr := f_cr f; f_dlci := f_dlci f; f_pf := f_pf f;
                        f_info := f_info f; f_credits := is_uih (f_type f) && (f_pf f =? 1) |} = f).
  { destruct f as [t cr d pf info cred]. cbn in *. rewrite <- Hcred. reflexivity. }
  destruct (len_cases (frame_paylen f) HL) as [[x [El [Hle [Hx [Hxo Hxs]]]]] | [x [y [El [Hgt [Hx [Hy [Hxo _]]]]]]]].
  - rewrite El. cbn [app]. cbn [frame_parse]. rewrite Ht, Hpf, Hd, Hcr. rewrite Htc. cbn [negb].
    rewrite Hxo. rewrite removelast_snoc. rewrite Hrebuild.
    replace (frame_paylen f <? 0) with false by (symmetry; apply Z.ltb_ge; lia).
    replace (lastz (frame_address f :: frame_control f :: x :: f_info f ++ [frame_fcs f])) with (frame_fcs f).
    + rewrite Z.eqb_refl. reflexivity.
    + change (frame_address f :: frame_control f :: x :: f_info f ++ [frame_fcs f])
        with ((frame_address f :: frame_control f :: x :: f_info f) ++ [frame_fcs f]).
      symmetry. apply lastz_snoc.
  - rewrite El. cbn [app]. cbn [frame_parse]. rewrite Ht, Hpf, Hd, Hcr. rewrite Htc. cbn [negb].
    rewrite Hxo. rewrite removelast_snoc. rewrite Hrebuild.
    replace (frame_paylen f <? 0) with false by (symmetry; apply Z.ltb_ge; lia).
    replace (lastz (frame_address f :: frame_control f :: x :: y :: f_info f ++ [frame_fcs f])) with (frame_fcs f).
    + rewrite Z.eqb_refl. reflexivity.
    + change (frame_address f :: frame_control f :: x :: y :: f_info f ++ [frame_fcs f])
        with ((frame_address f :: frame_control f :: x :: y :: f_info f) ++ [frame_fcs f]).
      symmetry. apply lastz_snoc.
Qed.

Lemma frame_bytes_ok : forall f, frame_ok f = true -> bytes_ok (frame_bytes f) = true.
Proof.
  intros f Hok. pose proof (frame_header_facts f Hok) as HF. cbv zeta in HF.
  destruct HF as [Ha [_ [_ [_ [Hc _]]]]].
  pose proof Hok as Hok'. unfold frame_ok in Hok'. rewrite !andb_true_iff in Hok'.
  destruct Hok' as [[[[[[_ _] _] _] Hinfo] HL] _]. apply zlt_iff in HL.
  assert (Hlb : bytes_ok (length_bytes (frame_paylen f)) = true).
  { destruct (len_cases _ HL) as [[x [El [_ [Hx _]]]] | [x [y [El [_ [Hx [Hy _]]]]]]]; rewrite El; cbn.
    - rewrite Hx. reflexivity.
    - rewrite Hx, Hy. reflexivity. }
  unfold frame_bytes. rewrite !bytes_ok_app. cbn [bytes_ok forallb]. rewrite Ha, Hc, Hlb, Hinfo. cbn [andb].
  rewrite andb_true_r. apply byte_ok_iff. unfold frame_fcs.
  destruct (is_uih (f_type f)); apply compute_fcs_byte; cbn [app bytes_ok forallb];
    rewrite ?Ha, ?Hc; cbn [andb]; try reflexivity.
  change (forallb byte_ok (length_bytes (frame_paylen f))) with (bytes_ok (length_bytes (frame_paylen f))).
  exact Hlb.
Qed.

Lemma app_removelast_lastz : forall r, r <> [] -> r = removelast r ++ [lastz r].
Proof. intros r H. unfold lastz. apply app_removelast_last. exact H. Qed.

Lemma removelast_lenZ : forall (r : list Z), r <> [] -> lenZ (removelast r) = lenZ r - 1.
Proof.
  intros r H. rewrite (app_removelast_lastz r H) at 2. rewrite lenZ_app. unfold lenZ at 3. cbn. lia.
Qed.

Definition mk_parsed (b0 b1 : Z) (info : list Z) : frame :=
  let t := Z.land b1 239 in let pf := Z.land (Z.shiftr b1 4) 1 in
  {| f_type := t; f_cr := Z.land (Z.shiftr b0 1) 1; f_dlci := Z.land (Z.shiftr b0 2) 63; f_pf := pf;
     f_info := info; f_credits := is_uih t && (pf =? 1) |}.

Lemma frame_parse_inv : forall b0 b1 b2 r f,
  frame_parse (b0 :: b1 :: b2 :: r) = Some f ->
  exists info,
    ((Z.odd b2 = true /\ info = removelast r) \/
     (Z.odd b2 = false /\ exists b3 r', r = b3 :: r' /\ info = removelast r')) /\
    f = mk_parsed b0 b1 info /\
    existsb (Z.eqb (Z.land b1 239)) rfcomm_ft_codes = true /\
    0 <= frame_paylen f /\ frame_fcs f = lastz (b0 :: b1 :: b2 :: r).
Proof.
  intros b0 b1 b2 r f Hp. cbn [frame_parse] in Hp.
  destruct (negb (existsb (Z.eqb (Z.land b1 239)) rfcomm_ft_codes)) eqn:Et; [discriminate|].
  apply negb_false_iff in Et.
  assert (G : forall info,
    (if frame_paylen (mk_parsed b0 b1 info) <? 0 then None
     else if frame_fcs (mk_parsed b0 b1 info) =? lastz (b0 :: b1 :: b2 :: r)
          then Some (mk_parsed b0 b1 info) else None) = Some f ->
    f = mk_parsed b0 b1 info /\ 0 <= frame_paylen f /\ frame_fcs f = lastz (b0 :: b1 :: b2 :: r)).
  { intros info Hg. destruct (frame_paylen _ <? 0) eqn:El; [discriminate|]. apply Z.ltb_ge in El.
    destruct (frame_fcs _ =? lastz _) eqn:Ef; [|discriminate]. apply Z.eqb_eq in Ef.
    apply some_inv in Hg. subst f. auto. }
  destruct (Z.odd b2) eqn:Eo.
  - exists (removelast r). destruct (G _ Hp) as [Hf [HL Hfcs]]. split; [left; auto|]. auto.
  - destruct r as [|b3 r']; [discriminate|].
    exists (removelast r'). destruct (G _ Hp) as [Hf [HL Hfcs]].
    split; [right; split; [reflexivity|]; exists b3, r'; auto|]. auto.
Qed.

Lemma bytes_ok_removelast : forall r, bytes_ok r = true -> bytes_ok (removelast r) = true.
Proof.
  intros r H. destruct r as [|x r']; [reflexivity|].
  rewrite (app_removelast_lastz (x :: r') ltac:(discriminate)) in H.
  rewrite bytes_ok_app in H. apply andb_true_iff in H as [H _]. exact H.
Qed.

Theorem frame_bytes_roundtrip : forall d f,
  bytes_ok d = true -> frame_parse d = Some f -> frame_canonical d = true ->
  frame_bytes f = d /\ frame_ok f = true.
Proof.
  intros d f Hok Hp Hc.
  destruct d as [|b0 [|b1 [|b2 r]]]; try discriminate.
  destruct (frame_parse_inv _ _ _ _ _ Hp) as [info [Hbranch [Hf [Et [HL Hfcs]]]]].
  rewrite !bytes_ok_cons in Hok. rewrite !andb_true_iff in Hok. destruct Hok as [H0 [H1 [H2 Hr]]].
  pose proof (forall_range 256 _ addr_back_all b0 ltac:(apply byte_range; exact H0)) as A.
  unfold addr_back_chk in A. rewrite !andb_true_iff in A. destruct A as [[Ad Acr] Aback].
  pose proof (forall_range 256 _ ctrl_back_all b1 ltac:(apply byte_range; exact H1)) as C.
  unfold ctrl_back_chk in C. rewrite !andb_true_iff in C. destruct C as [Cpf Cback].
  apply Z.eqb_eq in Cback.
  cbn [frame_canonical] in Hc. apply andb_true_iff in Hc as [Hodd0 Hc].
  rewrite Hodd0 in Aback. cbn [negb orb] in Aback. apply Z.eqb_eq in Aback.
  assert (Haddr : frame_address f = b0) by (subst f; exact Aback).
  assert (Hctrl : frame_control f = b1) by (subst f; exact Cback).
  assert (Hcredits : f_credits f = is_uih (Z.land b1 239) && (Z.land (Z.shiftr b1 4) 1 =? 1)) by (subst f; reflexivity).
  assert (Hinfo : f_info f = info) by (subst f; reflexivity).
  set (credits := if is_uih (Z.land b1 239) && (Z.land (Z.shiftr b1 4) 1 =? 1) then 1 else 0) in *.
  assert (Hpl : frame_paylen f = lenZ info - credits).
  { unfold frame_paylen. rewrite Hinfo, Hcredits. reflexivity. }
  assert (Hfields : frame_ok f = true <-> (bytes_ok info = true /\ 0 <= frame_paylen f < 32768)).
  { unfold frame_ok. rewrite Hinfo. subst f. cbn [mk_parsed f_type f_cr f_dlci f_pf f_credits].
    rewrite Et, Acr, Ad, Cpf. cbn [andb]. rewrite eqb_reflx, andb_true_r.
    rewrite andb_true_iff, zlt_iff. tauto. }
  destruct Hbranch as [[Eo Hi] | [Eo [b3 [r' [Hrr Hi]]]]].
  - (* one-octet length indicator *)
    rewrite Eo in Hc. apply Z.eqb_eq in Hc.
    assert (Hne : r <> []).
    { intro E. subst r. change (lenZ (@nil Z)) with 0 in Hc. pose proof (Z.shiftr_nonneg b2 1) as N.
      apply byte_ok_iff in H2. assert (0 <= Z.shiftr b2 1) by (apply N; lia).
      subst credits. destruct (is_uih _ && _); lia. }
    pose proof (forall_range 256 _ len1_back_all b2 ltac:(apply byte_range; exact H2)) as L1.
    unfold len1_back_chk in L1. rewrite Eo in L1. cbn [negb orb] in L1.
    apply andb_true_iff in L1 as [L1a L1b]. apply zlt_iff in L1a. apply zlist_eqb_eq in L1b.
    assert (Hlen : frame_paylen f = Z.shiftr b2 1).
    { rewrite Hpl, Hi, (removelast_lenZ r Hne). lia. }
    split.
    + unfold frame_bytes. rewrite Haddr, Hctrl, Hlen, L1b, Hinfo, Hi, Hfcs. cbn [app].
      do 3 f_equal. rewrite !lastz_cons by (try discriminate; exact Hne).
      symmetry. apply app_removelast_lastz. exact Hne.
    + apply Hfields. split; [subst info; apply bytes_ok_removelast; exact Hr|]. rewrite Hlen. lia.
  - (* two-octet length indicator *)
    rewrite Eo in Hc. subst r. apply andb_true_iff in Hc as [Hgt Hc].
    apply Z.ltb_lt in Hgt. apply Z.eqb_eq in Hc.
    rewrite bytes_ok_cons in Hr. apply andb_true_iff in Hr as [H3 Hr'].
    pose proof (forall2_range 256 256 _ len2_back_all b2 b3 ltac:(apply byte_range; exact H2)
                  ltac:(apply byte_range; exact H3)) as L2.
    unfold len2_back_chk in L2. apply andb_true_iff in L2 as [_ L2]. rewrite Eo in L2. cbn [orb] in L2.
    set (L := Z.lor (Z.shiftr b2 1) (Z.shiftl b3 7)) in *.
    replace (127 <? L) with true in L2 by (symmetry; apply Z.ltb_lt; exact Hgt). cbn [negb orb] in L2.
    apply andb_true_iff in L2 as [L2a L2b]. apply zlt_iff in L2a. apply zlist_eqb_eq in L2b.
    assert (Hne : r' <> []).
    { intro E. subst r'. change (lenZ (@nil Z)) with 0 in Hc. subst credits. destruct (is_uih _ && _); lia. }
    assert (Hlen : frame_paylen f = L).
    { rewrite Hpl, Hi, (removelast_lenZ r' Hne). lia. }
    split.
    + unfold frame_bytes. rewrite Haddr, Hctrl, Hlen, L2b, Hinfo, Hi, Hfcs. cbn [app].
      do 4 f_equal. rewrite !lastz_cons by (try discriminate; exact Hne).
      symmetry. apply app_removelast_lastz. exact Hne.
    + apply Hfields. split; [subst info; apply bytes_ok_removelast; exact Hr'|]. rewrite Hlen. lia.
Qed.

(* frames produced by frame_bytes are canonical *)
Theorem frame_bytes_canonical : forall f, frame_ok f = true -> frame_canonical (frame_bytes f) = true.
Proof.
  intros f Hok. pose proof (frame_header_facts f Hok) as HF. cbv zeta in HF.
  destruct HF as [Ha [Hao [Hd [Hcr [Hc [Ht Hpf]]]]]].
  pose proof Hok as Hok'. unfold frame_ok in Hok'. rewrite !andb_true_iff in Hok'.
  destruct Hok' as [[[[[[Htc _] _] _] Hinfo] HL] Hcred].
  apply zlt_iff in HL. apply eqb_prop in Hcred.
  unfold frame_bytes. cbn [app].
  destruct (len_cases (frame_paylen f) HL) as [[x [El [Hle [Hx [Hxo Hxs]]]]] | [x [y [El [Hgt [Hx [Hy [Hxo [HxL _]]]]]]]]].
  - rewrite El. cbn [app frame_canonical]. rewrite Hao, Hxo, Ht, Hpf, Hxs. cbn [andb].
    apply Z.eqb_eq. rewrite lenZ_app. unfold lenZ at 2. cbn [length]. unfold frame_paylen. rewrite Hcred.
    destruct (is_uih (f_type f) && (f_pf f =? 1)); lia.
  - rewrite El. cbn [app frame_canonical]. rewrite Hao, Hxo, Ht, Hpf, HxL. cbn [andb].
    replace (127 <? frame_paylen f) with true by (symmetry; apply Z.ltb_lt; exact Hgt). cbn [andb].
    apply Z.eqb_eq. rewrite lenZ_app. unfold lenZ at 2. cbn [length]. unfold frame_paylen. rewrite Hcred.
    destruct (is_uih (f_type f) && (f_pf f =? 1)); lia.
Qed.

(* D18b: without with_credits in from_bytes a UIH frame carrying a credits octet does not
   re-serialise to the bytes it was parsed from *)
Lemma frame_unfixed_refuted :
  exists f, frame_ok f = true /\ frame_reserialize_unfixed f <> frame_bytes f.
Proof.
  exists {| f_type := rfcomm_ft_UIH; f_cr := 1; f_dlci := 5; f_pf := 1; f_info := [7; 104; 105]; f_credits := true |}.
  split; [vm_compute; reflexivity|]. vm_compute. discriminate.
Qed.

(* ---------------------------------------------------------------- multiplexer commands *)
Definition mcc_hdr_chk (t cr : Z) : bool :=
  let b := Z.land (Z.lor (Z.lor (Z.shiftl t 2) (Z.shiftl cr 1)) 1) 255 in
  byte_ok b && Z.odd b && (Z.shiftr b 2 =? t) && (Z.land (Z.shiftr b 1) 1 =? cr).
Lemma mcc_hdr_all : forall2b (zrange 64) (zrange 2) mcc_hdr_chk = true.
Proof. vm_compute. reflexivity. Qed.
Definition mcc_hdr_back_chk (b0 : Z) : bool :=
  let t := Z.shiftr b0 2 in
  zlt 64 t &&
  (negb (Z.odd b0) ||
   (Z.land (Z.lor (Z.lor (Z.shiftl t 2) (Z.shiftl (bool_z (negb (Z.land (Z.shiftr b0 1) 1 =? 0))) 1)) 1) 255 =? b0)).
Lemma mcc_hdr_back_all : forallb mcc_hdr_back_chk (zrange 256) = true.
Proof. vm_compute. reflexivity. Qed.

Theorem mcc_value_roundtrip : forall t cr v,
  mcc_ok t cr v = true -> mcc_parse (mcc_bytes t cr v) = Some (t, negb (cr =? 0), v).
Proof.
  intros t cr v H. unfold mcc_ok in H. rewrite !andb_true_iff in H. destruct H as [[[Ht Hcr] Hv] HL].
  apply zlt_iff in Ht. apply zlt_iff in Hcr. apply zlt_iff in HL.
  pose proof (forall2_range 64 2 _ mcc_hdr_all t cr ltac:(cbn; lia) ltac:(cbn; lia)) as A.
  unfold mcc_hdr_chk in A. rewrite !andb_true_iff in A. destruct A as [[[A1 A2] A3] A4].
  apply Z.eqb_eq in A3. apply Z.eqb_eq in A4.
  unfold mcc_bytes.
  destruct (len_cases (lenZ v) HL) as [[x [El [Hle [Hx [Hxo Hxs]]]]] | [x [y [El [Hgt [Hx [Hy [Hxo [_ HxL]]]]]]]]].
  - rewrite El. cbn [app mcc_parse]. rewrite Hxo, A3, A4. reflexivity.
  - rewrite El. cbn [app mcc_parse]. rewrite Hxo, A3, A4, HxL.
    unfold lenZ. rewrite Nat2Z.id, firstn_all. reflexivity.
Qed.

Theorem mcc_bytes_roundtrip : forall d t cr v,
  bytes_ok d = true -> mcc_parse d = Some (t, cr, v) -> mcc_canonical d = true ->
  mcc_bytes t (bool_z cr) v = d /\ mcc_ok t (bool_z cr) v = true.
Proof.
  intros d t cr v Hok Hp Hc.
  destruct d as [|b0 [|b1 r]]; try discriminate.
  rewrite !bytes_ok_cons in Hok. rewrite !andb_true_iff in Hok. destruct Hok as [H0 [H1 Hr]].
  cbn [mcc_canonical] in Hc. apply andb_true_iff in Hc as [Ho0 Hc].
  pose proof (forall_range 256 _ mcc_hdr_back_all b0 ltac:(apply byte_range; exact H0)) as A.
  unfold mcc_hdr_back_chk in A. apply andb_true_iff in A as [At A]. rewrite Ho0 in A. cbn [negb orb] in A.
  apply Z.eqb_eq in A.
  cbn [mcc_parse] in Hp.
  assert (Hcrz : zlt 2 (bool_z cr) = true) by (destruct cr; reflexivity).
  destruct (Z.odd b1) eqn:Eo.
  - apply some_pair_inv in Hp as [Hp <-]. apply pair_inv in Hp as [<- <-].
    apply Z.eqb_eq in Hc.
    pose proof (forall_range 256 _ len1_back_all b1 ltac:(apply byte_range; exact H1)) as L1.
    unfold len1_back_chk in L1. rewrite Eo in L1. cbn [negb orb] in L1.
    apply andb_true_iff in L1 as [L1a L1b]. apply zlt_iff in L1a. apply zlist_eqb_eq in L1b.
    split.
    + unfold mcc_bytes. rewrite A, Hc, L1b. reflexivity.
    + unfold mcc_ok. rewrite At, Hcrz, Hr. cbn [andb]. apply zlt_iff. lia.
  - destruct r as [|b2 r']; [discriminate|].
    apply some_pair_inv in Hp as [Hp <-]. apply pair_inv in Hp as [<- <-].
    apply andb_true_iff in Hc as [Hgt Hc]. apply Z.ltb_lt in Hgt. apply Z.eqb_eq in Hc.
    rewrite bytes_ok_cons in Hr. apply andb_true_iff in Hr as [H2 Hr'].
    pose proof (forall2_range 256 256 _ len2_back_all b1 b2 ltac:(apply byte_range; exact H1)
                  ltac:(apply byte_range; exact H2)) as L2.
    unfold len2_back_chk in L2. apply andb_true_iff in L2 as [Lsym L2]. apply Z.eqb_eq in Lsym.
    rewrite Eo in L2. cbn [orb] in L2.
    set (L := Z.lor (Z.shiftl b2 7) (Z.shiftr b1 1)) in *.
    rewrite <- Lsym in L2.
    replace (127 <? L) with true in L2 by (symmetry; apply Z.ltb_lt; exact Hgt). cbn [negb orb] in L2.
    apply andb_true_iff in L2 as [L2a L2b]. apply zlt_iff in L2a. apply zlist_eqb_eq in L2b.
    assert (Hfn : firstn (Z.to_nat L) r' = r').
    { rewrite <- Hc. unfold lenZ. rewrite Nat2Z.id. apply firstn_all. }
    rewrite Hfn. split.
    + unfold mcc_bytes. rewrite A, Hc, L2b. reflexivity.
    + unfold mcc_ok. rewrite At, Hcrz, Hr'. cbn [andb]. apply zlt_iff. lia.
Qed.

(* D18c: the unfixed parser mis-reads the two-octet length form *)
Lemma mcc_unfixed_refuted :
  exists t cr v, mcc_ok t cr v = true /\ mcc_parse_unfixed (mcc_bytes t cr v) <> Some (t, negb (cr =? 0), v).
Proof.
  exists 8, 1, (repeat 65 200). split; [vm_compute; reflexivity|]. vm_compute. discriminate.
Qed.

(* PN *)
Lemma land_ones_small : forall v k, 0 <= k -> 0 <= v < 2 ^ k -> Z.land v (Z.ones k) = v.
Proof. intros. rewrite Z.land_ones by lia. apply Z.mod_small. lia. Qed.

Theorem pn_value_roundtrip : forall p tail, pn_ok p = true -> pn_parse (pn_bytes p ++ tail) = Some p.
Proof.
  intros p tail H.
  destruct p as [|dlci [|cl [|prio [|ack [|mfs [|retx [|cred [|? ?]]]]]]]]; try discriminate.
  cbn [pn_ok] in H. rewrite !andb_true_iff, !zlt_iff in H.
  destruct H as [[[[[[Hd Hc] Hp] Ha] Hm] Hr] Hcr].
  cbn [pn_bytes app pn_parse].
  change 255 with (Z.ones 8). change 7 with (Z.ones 3).
  rewrite (land_ones_small dlci 8), (land_ones_small cl 8), (land_ones_small prio 8),
    (land_ones_small ack 8), (land_ones_small retx 8) by (cbn; lia).
  rewrite !(land_ones_small cred 3) by (cbn; lia).
  f_equal. f_equal. f_equal. f_equal. f_equal. f_equal.
  rewrite !Z.land_ones by lia. rewrite Z.shiftr_div_pow2 by lia. change (2 ^ 8) with 256.
  rewrite lor_shiftl_add by (try lia; change (2 ^ 8) with 256; apply Z.mod_pos_bound; lia).
  change (2 ^ 8) with 256.
  assert (mfs / 256 < 256) by (apply Z.div_lt_upper_bound; lia).
  assert (0 <= mfs / 256) by (apply Z.div_pos; lia).
  rewrite (Z.mod_small (mfs / 256)) by lia. pose proof (Z.div_mod mfs 256). lia.
Qed.

Theorem pn_bytes_roundtrip : forall d p, bytes_ok d = true -> length d = 8%nat ->
  pn_parse d = Some p -> pn_ok p = true /\ (nth 7 d 0 < 8 -> pn_bytes p = d).
Proof.
  intros d p Hok Hlen Hp.
  destruct d as [|d0 [|d1 [|d2 [|d3 [|d4 [|d5 [|d6 [|d7 [|? ?]]]]]]]]]; try discriminate.
  cbn [pn_parse] in Hp. apply some_inv in Hp. subst p.
  rewrite !bytes_ok_cons in Hok. rewrite !andb_true_iff in Hok.
  destruct Hok as [H0 [H1 [H2 [H3 [H4 [H5 [H6 [H7 _]]]]]]]].
  apply byte_ok_iff in H0, H1, H2, H3, H4, H5, H6, H7.
  assert (Hm : Z.lor d4 (Z.shiftl d5 8) = d4 + d5 * 256).
  { rewrite lor_shiftl_add by (try lia; change (2 ^ 8) with 256; lia). reflexivity. }
  assert (Hc : 0 <= Z.land d7 7 < 8).
  { change 7 with (Z.ones 3). rewrite Z.land_ones by lia. apply Z.mod_pos_bound. lia. }
  split.
  - cbn [pn_ok]. rewrite Hm. rewrite !andb_true_iff, !zlt_iff. repeat split; lia.
  - cbn [nth]. intro H78. cbn [pn_bytes]. rewrite Hm.
    change 255 with (Z.ones 8). change 7 with (Z.ones 3).
    rewrite (land_ones_small d0 8), (land_ones_small d1 8), (land_ones_small d2 8),
      (land_ones_small d3 8), (land_ones_small d6 8) by (cbn; lia).
    rewrite (land_ones_small (Z.shiftr (d4 + d5 * 256) 8) 8).
    + rewrite !(land_ones_small d7 3) by (cbn; lia).
      rewrite Z.land_ones by lia. rewrite Z.shiftr_div_pow2 by lia. change (2 ^ 8) with 256.
      rewrite Z.mod_add by lia. rewrite Z.div_add by lia. rewrite Z.mod_small by lia.
      rewrite Z.div_small by lia. rewrite Z.add_0_l. reflexivity.
    + lia.
    + rewrite Z.shiftr_div_pow2 by lia. change (2 ^ 8) with 256.
      rewrite Z.div_add by lia. rewrite Z.div_small by lia. cbn. lia.
Qed.

(* MSC: complete evaluation *)
Definition msc_chk (dlci fc rtc : Z) : bool :=
  forallb (fun rtr => forallb (fun ic => forallb (fun dv =>
    let p := [dlci; fc; rtc; rtr; ic; dv] in
    match msc_bytes p with
    | [b0; b1] => byte_ok b0 && byte_ok b1 && msc_canonical b0 b1 &&
                  match msc_parse [b0; b1] with Some q => zlist_eqb q p | None => false end
    | _ => false
    end) (zrange 2)) (zrange 2)) (zrange 2).
Lemma msc_all : forallb (fun dlci => forallb (fun fc => forallb (msc_chk dlci fc) (zrange 2)) (zrange 2)) (zrange 64) = true.
Proof. vm_compute. reflexivity. Qed.

Theorem msc_value_roundtrip : forall p tail, msc_ok p = true -> msc_parse (msc_bytes p ++ tail) = Some p.
Proof.
  intros p tail H.
  destruct p as [|dlci [|fc [|rtc [|rtr [|ic [|dv [|? ?]]]]]]]; try discriminate.
  cbn [msc_ok] in H. rewrite !andb_true_iff, !zlt_iff in H.
  destruct H as [[[[[Hd Hfc] Hrtc] Hrtr] Hic] Hdv].
  pose proof (forall_range 64 _ msc_all dlci ltac:(cbn; lia)) as H1. cbv beta in H1.
  pose proof (forall_range 2 _ H1 fc ltac:(cbn; lia)) as H2. cbv beta in H2.
  pose proof (forall_range 2 _ H2 rtc ltac:(cbn; lia)) as H3. unfold msc_chk in H3.
  pose proof (forall_range 2 _ H3 rtr ltac:(cbn; lia)) as H4. cbv beta in H4.
  pose proof (forall_range 2 _ H4 ic ltac:(cbn; lia)) as H5. cbv beta in H5.
  pose proof (forall_range 2 _ H5 dv ltac:(cbn; lia)) as H6. cbv beta zeta in H6.
  destruct (msc_bytes [dlci; fc; rtc; rtr; ic; dv]) as [|b0 [|b1 [|? ?]]] eqn:E; try discriminate.
  rewrite !andb_true_iff in H6. destruct H6 as [_ H6].
  cbn [app]. change (msc_parse (b0 :: b1 :: tail)) with (msc_parse [b0; b1]).
  destruct (msc_parse [b0; b1]) as [q|]; [|discriminate]. apply zlist_eqb_eq in H6. subst q. reflexivity.
Qed.

Definition msc_back_chk (d0 d1 : Z) : bool :=
  match msc_parse [d0; d1] with
  | Some p => msc_ok p && (negb (msc_canonical d0 d1) || zlist_eqb (msc_bytes p) [d0; d1])
  | None => false
  end.
Lemma msc_back_all : forall2b (zrange 256) (zrange 256) msc_back_chk = true.
Proof. vm_compute. reflexivity. Qed.

Theorem msc_bytes_roundtrip : forall d0 d1 tail p,
  byte_ok d0 = true -> byte_ok d1 = true -> msc_parse (d0 :: d1 :: tail) = Some p ->
  msc_ok p = true /\ (msc_canonical d0 d1 = true -> msc_bytes p = [d0; d1]).
Proof.
  intros d0 d1 tail p H0 H1 Hp. change (msc_parse (d0 :: d1 :: tail)) with (msc_parse [d0; d1]) in Hp.
  pose proof (forall2_range 256 256 _ msc_back_all d0 d1 ltac:(apply byte_range; exact H0)
                ltac:(apply byte_range; exact H1)) as H.
  unfold msc_back_chk in H. rewrite Hp in H. apply andb_true_iff in H as [Hok H].
  split; [exact Hok|]. intro Hc. rewrite Hc in H. cbn in H. apply zlist_eqb_eq. exact H.
Qed.

Lemma frame_bytes_canonical_ok : forall f,
  frame_ok f = true -> frame_canonical (frame_bytes f) = true /\ bytes_ok (frame_bytes f) = true.
Proof. intros f H. split; [exact (frame_bytes_canonical f H)|exact (frame_bytes_ok f H)]. Qed.
