(* Proofs about Model/L2capConfig.v: a verified complete exploration of the product of
   the two configuration machines, for every pair of specs. *)
From Coq Require Import List Bool Lia.
From BV Require Import Model.L2capConfig.
Import ListNotations.

(* s' is reached from s by exactly n enabled deliveries *)
Inductive reach : nat -> csys -> csys -> Prop :=
| reach0 s : reach 0 s s
| reachS n s s1 s2 : In s1 (succs s) -> reach n s1 s2 -> reach (S n) s s2.

Lemma explore_sound ok : forall fuel front,
  explore ok fuel front = true ->
  forall s n s', In s front -> reach n s s' -> (n < fuel)%nat /\ ok s' = true.
Proof.
  induction fuel as [|f IH]; intros front H s n s' Hin Hr; cbn [explore] in H.
  - destruct front; [destruct Hin | discriminate].
  - apply andb_true_iff in H as [Hall Hrest].
    inversion Hr; subst.
    + split; [lia|]. rewrite forallb_forall in Hall. now apply Hall.
    + assert (Hin1 : In s1 (flat_map succs front)) by (apply in_flat_map; eauto).
      destruct (IH _ Hrest _ _ _ Hin1 H0) as [Hlt Hok]. split; [lia|exact Hok].
Qed.

(* schedules (lists of labels, disabled labels skipped) are runs *)
Lemma crun_reach sched : forall s, exists n, reach n s (crun s sched).
Proof.
  induction sched as [|l r IH]; intros s; cbn [crun].
  - exists 0%nat. constructor.
  - destruct (cstep s l) as [s1|] eqn:E; [|apply IH].
    destruct (IH s1) as [n Hn]. exists (S n). econstructor; [|exact Hn].
    unfold succs. destruct l; rewrite E.
    + left. reflexivity.
    + apply in_or_app. right. left. reflexivity.
Qed.

Lemma terminal_no_succ s : terminal s = true -> succs s = [].
Proof.
  unfold terminal, succs, cstep. destruct (k_ab s); [|discriminate].
  destruct (k_ba s); [reflexivity|discriminate].
Qed.

Lemma nonterminal_succ s : terminal s = false -> succs s <> [].
Proof.
  unfold terminal, succs, cstep. destruct (k_ab s) as [|m r].
  - destruct (k_ba s) as [|m r]; [discriminate|]. intros _.
    destruct (on_msg false (k_a s) m). discriminate.
  - intros _. destruct (on_msg (k_srv s) (k_b s) m). discriminate.
Qed.

(* For every pair of specs (mode, FCS requested, FCS supported) and with or without a
   server: every run of the two machines has fewer than SETUP_BOUND steps, and every
   state on it satisfies ok_state (terminal => both OPEN in the same mode with the same
   FCS setting and the peer's parameters, or both CLOSED; and nobody is OPEN on the way
   to CLOSED/CLOSED). *)
Theorem setup_explored : forall sa sb srv n s',
  reach n (cinit sa sb srv) s' ->
  (n < SETUP_BOUND)%nat /\ ok_state sa sb srv s' = true.
Proof.
  intros [ma fa xa] [mb fb xb] srv n s' H.
  destruct ma, fa, xa, mb, fb, xb, srv;
    match type of H with
    | reach _ ?i _ =>
        refine (explore_sound _ SETUP_BOUND [i] _ i n s' (or_introl eq_refl) H)
    end; vm_compute; reflexivity.
Qed.

Theorem setup_agrees : forall sa sb srv n s',
  reach n (cinit sa sb srv) s' ->
  (n < SETUP_BOUND)%nat /\
  (succs s' = [] -> if expected_open sa sb srv then open_ok s' = true else closed_ok s' = true) /\
  (expected_open sa sb srv = false -> c_st (k_a s') <> OPEN /\ c_st (k_b s') <> OPEN).
Proof.
  intros sa sb srv n s' H. destruct (setup_explored _ _ _ _ _ H) as [Hn Hok].
  split; [exact Hn|]. unfold ok_state in Hok. apply andb_true_iff in Hok as [H1 H2]. split.
  - intros Hs. destruct (terminal s') eqn:T.
    + destruct (expected_open sa sb srv); exact H1.
    + apply nonterminal_succ in T. contradiction.
  - intros E. rewrite E in H2. apply andb_true_iff in H2 as [A B].
    split; intros Heq; rewrite Heq in *; discriminate.
Qed.

(* the same, for schedules *)
Corollary setup_agrees_sched : forall sa sb srv sched,
  let s := crun (cinit sa sb srv) sched in
  terminal s = true -> good s = true.
Proof.
  intros sa sb srv sched s T. destruct (crun_reach sched (cinit sa sb srv)) as [n Hn].
  fold s in Hn. destruct (setup_agrees _ _ _ _ _ Hn) as (_ & Hg & _).
  specialize (Hg (terminal_no_succ _ T)). unfold good.
  destruct (expected_open sa sb srv); rewrite Hg; [reflexivity|apply orb_true_r].
Qed.

(* ---------- the strict reading "both state fields end CLOSED" ----------
   It fails exactly when the INITIATOR is the end that detects the mode mismatch (its
   spec is Basic and the acceptor's configure request carries the ERTM option): connect()
   raises, create_classic_channel unregisters the channel while it waits for the
   Disconnection Response, and the orphaned object stays in WAIT_DISCONNECT. *)
Definition initiator_aborts (sa sb : spec) (srv : bool) : bool :=
  srv && mode_eqb (sp_mode sa) Basic && mode_eqb (sp_mode sb) Ertm.

Definition ok_strict (sa sb : spec) (srv : bool) (s : csys) : bool :=
  if terminal s && negb (expected_open sa sb srv)
  then (if initiator_aborts sa sb srv
        then st_eqb (c_st (k_a s)) WAIT_DISCONNECT && closed_ok s
        else closed_strict s)
  else true.

Theorem setup_closed_strict : forall sa sb srv n s',
  reach n (cinit sa sb srv) s' -> ok_strict sa sb srv s' = true.
Proof.
  intros [ma fa xa] [mb fb xb] srv n s' H.
  destruct ma, fa, xa, mb, fb, xb, srv;
    match type of H with
    | reach _ ?i _ =>
        refine (proj2 (explore_sound _ SETUP_BOUND [i] _ i n s' (or_introl eq_refl) H))
    end; vm_compute; reflexivity.
Qed.

Lemma setup_strict_closed_refuted :
  exists sched,
    let s := crun (cinit (mkSpec Basic false false) (mkSpec Ertm false false) true) sched in
    terminal s = true /\ closed_ok s = true /\ c_st (k_a s) = WAIT_DISCONNECT.
Proof. exists [DAB; DBA; DAB; DBA; DAB; DBA; DBA]. vm_compute. repeat split. Qed.
