(* Base/Bytes.v — byte strings as [list Z] and fixed-width integer codecs.
   Executable definitions only; the lemmas are in Proofs/Bytes.v.
   Reusable: nothing here is specific to one protocol.

   Conventions: a byte is a [Z] in [0,256) ([byte_ok]); widths are [nat] numbers of
   bytes; integers are unbounded [Z].  [le_]/[be_] = little / big endian, unsigned;
   [les_]/[bes_] = two's complement signed.  The encoders are total (they reduce the
   value modulo 256^n); range checks are separate boolean predicates ([u_range],
   [s_range]) because the Python code raises (struct.error / OverflowError /
   ValueError) outside them, which the models turn into an explicit error. *)
From Coq Require Import ZArith List Bool.
Import ListNotations.
Open Scope Z_scope.

Definition byte_ok (b : Z) : bool := (0 <=? b) && (b <? 256).
Definition bytes_ok (bs : list Z) : bool := forallb byte_ok bs.

Definition pow256 (n : nat) : Z := 256 ^ Z.of_nat n.

(* unsigned range of an n-byte field: 0 <= v < 256^n *)
Definition u_range (n : nat) (v : Z) : bool := (0 <=? v) && (v <? pow256 n).
(* signed (two's complement) range of an n-byte field: -256^n/2 <= v < 256^n/2 *)
Definition s_range (n : nat) (v : Z) : bool :=
  (- (pow256 n / 2) <=? v) && (v <? pow256 n / 2).

(* little endian, unsigned *)
Fixpoint le_encode (n : nat) (v : Z) : list Z :=
  match n with
  | O => []
  | S k => (v mod 256) :: le_encode k (v / 256)
  end.

Fixpoint le_decode (bs : list Z) : Z :=
  match bs with
  | [] => 0
  | b :: r => b + 256 * le_decode r
  end.

(* big endian, unsigned *)
Definition be_encode (n : nat) (v : Z) : list Z := rev (le_encode n v).
Definition be_decode (bs : list Z) : Z := le_decode (rev bs).

(* two's complement *)
Definition of_signed (n : nat) (v : Z) : Z := if v <? 0 then v + pow256 n else v.
Definition to_signed (n : nat) (u : Z) : Z := if u <? pow256 n / 2 then u else u - pow256 n.

Definition les_encode (n : nat) (v : Z) : list Z := le_encode n (of_signed n v).
Definition les_decode (bs : list Z) : Z := to_signed (length bs) (le_decode bs).
Definition bes_encode (n : nat) (v : Z) : list Z := be_encode n (of_signed n v).
Definition bes_decode (bs : list Z) : Z := to_signed (length bs) (be_decode bs).

(* n zero bytes (Python: bytes(n)) *)
Definition zeros (n : nat) : list Z := repeat 0 n.

(* Python slicing helpers: data[:n] = firstn n data, data[n:] = skipn n data
   (both total, short input gives a short / empty result, as in Python). *)
Definition take (n : nat) (bs : list Z) : list Z := firstn n bs.
Definition drop (n : nat) (bs : list Z) : list Z := skipn n bs.

(* bit fields: the value of bits [lo, lo+width) of x, and packing by disjoint or *)
Definition bits (x : Z) (lo width : Z) : Z := Z.land (Z.shiftr x lo) (Z.ones width).
