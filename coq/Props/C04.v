(* Property C04: outbound data obeys controller buffer credits, stays FIFO and never
   stalls; the bridging pipe delivers exactly once in order.
   This file contains only statements, each closed by [exact]. *)
From Coq Require Import ZArith List Bool.
From BV Require Import Model.DataQueue Model.Pipe Proofs.DataQueue Proofs.Pipe Gen.C04Shape.
Import ListNotations.
Open Scope Z_scope.

(* In every state reachable from the initial queue by any history of enqueue /
   flush / completion-report operations (any handles, any counts >= 0, including
   over-reports and unknown handles), for any buffer count:
   - the in-flight count equals the sum of per-connection counts, all >= 0,
   - it never exceeds max_in_flight,
   - a packet is waiting only if no credit is free (work conservation, also right
     after a flush),
   - every connection with no packet in flight has its drained event set. *)
Theorem C04_queue_invariant : forall maxf ops,
  0 <= maxf -> ops_ok ops -> inv (fst (q_run (q_init maxf) ops)).
Proof. intros maxf ops Hm Hok. exact (run_inv ops (q_init maxf) Hok (inv_init maxf Hm)). Qed.
Print Assumptions C04_queue_invariant.

(* Each step hands over a prefix of the specification FIFO: nothing reordered,
   duplicated, invented or lost except the waiting packets of a flushed handle. *)
Theorem C04_step_fifo : forall s o,
  let '(s', sent) := q_step s o in sent ++ q_wait s' = spec_wait (q_wait s) o.
Proof. exact step_fifo. Qed.
Print Assumptions C04_step_fifo.

(* Per connection, over a whole history without a flush of that connection:
   sent-for-h followed by waiting-for-h is exactly enqueued-for-h. *)
Theorem C04_fifo_per_connection : forall h ops s,
  flushes h ops = false ->
  let '(s', sent) := q_run s ops in
  filter (is_handle h) sent ++ filter (is_handle h) (q_wait s') =
  filter (is_handle h) (q_wait s) ++ enqueued h ops.
Proof. exact fifo_per_handle. Qed.
Print Assumptions C04_fifo_per_connection.

Theorem C04_flush_discards : forall s h,
  let '(s', sent) := q_step s (Flush h) in
  filter (is_handle h) (sent ++ q_wait s') = [].
Proof. exact flush_no_h. Qed.
Print Assumptions C04_flush_discards.

(* Pipe: for every interleaving of write / pause / resume / pump steps, what reached
   the sink followed by what is still queued is exactly what was written, in order. *)
Theorem C04_pipe_exactly_once_in_order : forall threshold ops,
  let '(s', out) := p_run (p_init threshold) ops in
  sinks out ++ map fst (p_queue s') = writes ops.
Proof. intros threshold ops. exact (p_run_fifo ops (p_init threshold)). Qed.
Print Assumptions C04_pipe_exactly_once_in_order.

(* Pipe progress: in every reachable state with data queued and the pipe not paused,
   either the pump task is inside drain_sink (and PumpB returns it), or its next step
   writes the oldest packet. *)
Theorem C04_pipe_progress : forall threshold ops p len q,
  let s := fst (p_run (p_init threshold) ops) in
  p_queue s = (p, len) :: q -> p_paused s = false -> p_mid s = false ->
  snd (p_step s PumpA) = [Sink p] /\ p_queue (fst (p_step s PumpA)) = q.
Proof.
  intros threshold ops p len q s. apply pump_progress.
  apply p_run_ready. intros _. reflexivity.
Qed.
Print Assumptions C04_pipe_progress.

(* The shape of the code the models were read from, regenerated from the current source on every run
   (tools/translate/c04_shape.py): the queue is used first-in first-out (enqueue and _check_queue work on
   opposite ends of the deque), the send-while-credit loop has the modelled guard, hands over exactly one
   packet and bumps the global and the per-connection counter once per iteration, enqueue / flush /
   on_packets_completed all pump the queue, the pipe is first-in first-out and every operation re-evaluates
   check_pump(); Host.reset() builds each queue from the buffer length / count the controller reported and, when the
   controller reports no dedicated LE buffers (0/0), makes the LE queue the very same object as the BR/EDR queue (one
   credit pool, as the controller has one buffer pool). An edit that changes any of these facts breaks this obligation whether or not a generated
   history happens to expose it. *)
Definition side_eqb (a b : side) : bool :=
  match a, b with SLeft, SLeft | SRight, SRight => true | _, _ => false end.
Definition shape_ok (s : shape) : bool :=
  negb (side_eqb (q_in_side s) (q_out_side s)) && q_loop_guard_ok s &&
  Nat.eqb (q_sends_per_iteration s) 1 && Nat.eqb (q_increments_per_iteration s) 2 &&
  q_enqueue_pumps s && q_flush_pumps s && q_completed_pumps s &&
  negb (side_eqb (p_in_side s) (p_out_side s)) &&
  p_write_checks s && p_pause_checks s && p_resume_checks s && p_pump_checks s &&
  h_queues_from_reported_buffers s && h_le_shares_acl_queue_when_no_le_buffers s &&
  h_completed_event_visits_every_entry s && h_disconnection_flushes_all_queues s.
Theorem C04_source_shape_is_the_modelled_shape : shape_ok shape_of_source = true.
Proof. vm_compute. reflexivity. Qed.
Print Assumptions C04_source_shape_is_the_modelled_shape.

(* Non-vacuity: a concrete history reaching a state with waiting packets. *)
Example C04_nonvacuous :
  let '(s, sent) := q_run (q_init 1) [Enqueue 10 1; Enqueue 11 2; Flush 1] in
  sent = [(10, 1); (11, 2)] /\ q_wait s = [] /\ q_inflight s = 1.
Proof. vm_compute. repeat split. Qed.
