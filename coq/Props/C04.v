(* Property C04: outbound data obeys controller buffer credits, stays FIFO and never
   stalls; the bridging pipe delivers exactly once in order.
   This file contains only statements, each closed by [exact]. *)
From Coq Require Import ZArith List Bool.
From BV Require Import Model.DataQueue Model.DataQueueFail Model.Pipe Model.QueueRouting Proofs.DataQueue Proofs.DataQueueFail Proofs.Pipe Proofs.QueueRouting Gen.C04Shape.
Import ListNotations.
Open Scope Z_scope.

(* In every state reachable from the initial queue by any history of enqueue /
   flush / completion-report operations (any handles, any counts >= 0, including
   over-reports and unknown handles), for any buffer count:
   - the in-flight count equals the sum of per-connection counts, all >= 0,
   - it never exceeds max_in_flight,
   - a packet is waiting only if no credit is free (work conservation, also right
     after a flush),
   - every connection with no packet in flight has its drained event set. *)
Theorem C04_queue_invariant : forall maxf ops,
  0 <= maxf -> ops_ok ops -> inv (fst (q_run (q_init maxf) ops)).
Proof. intros maxf ops Hm Hok. exact (run_inv ops (q_init maxf) Hok (inv_init maxf Hm)). Qed.
Print Assumptions C04_queue_invariant.

(* Each step hands over a prefix of the specification FIFO: nothing reordered,
   duplicated, invented or lost except the waiting packets of a flushed handle. *)
Theorem C04_step_fifo : forall s o,
  let '(s', sent) := q_step s o in sent ++ q_wait s' = spec_wait (q_wait s) o.
Proof. exact step_fifo. Qed.
Print Assumptions C04_step_fifo.

(* Per connection, over a whole history without a flush of that connection:
   sent-for-h followed by waiting-for-h is exactly enqueued-for-h. *)
Theorem C04_fifo_per_connection : forall h ops s,
  flushes h ops = false ->
  let '(s', sent) := q_run s ops in
  filter (is_handle h) sent ++ filter (is_handle h) (q_wait s') =
  filter (is_handle h) (q_wait s) ++ enqueued h ops.
Proof. exact fifo_per_handle. Qed.
Print Assumptions C04_fifo_per_connection.

Theorem C04_flush_discards : forall s h,
  let '(s', sent) := q_step s (Flush h) in
  filter (is_handle h) (sent ++ q_wait s') = [].
Proof. exact flush_no_h. Qed.
Print Assumptions C04_flush_discards.

(* Pipe: for every interleaving of write / pause / resume / pump steps, what reached
   the sink followed by what is still queued is exactly what was written, in order. *)
Theorem C04_pipe_exactly_once_in_order : forall threshold ops,
  let '(s', out) := p_run (p_init threshold) ops in
  sinks out ++ map fst (p_queue s') = writes ops.
Proof. intros threshold ops. exact (p_run_fifo ops (p_init threshold)). Qed.
Print Assumptions C04_pipe_exactly_once_in_order.

(* Pipe progress: in every reachable state with data queued and the pipe not paused,
   either the pump task is inside drain_sink (and PumpB returns it), or its next step
   writes the oldest packet. *)
Theorem C04_pipe_progress : forall threshold ops p len q,
  let s := fst (p_run (p_init threshold) ops) in
  p_queue s = (p, len) :: q -> p_paused s = false -> p_mid s = false ->
  snd (p_step s PumpA) = [Sink p] /\ p_queue (fst (p_step s PumpA)) = q.
Proof.
  intros threshold ops p len q s. apply pump_progress.
  apply p_run_ready. intros _. reflexivity.
Qed.
Print Assumptions C04_pipe_progress.

(* The shape of the code the models were read from, regenerated from the current source on every run
   (tools/translate/c04_shape.py): the queue is used first-in first-out (enqueue and _check_queue work on
   opposite ends of the deque), the send-while-credit loop has the modelled guard, hands over exactly one
   packet and bumps the global and the per-connection counter once per iteration, enqueue / flush /
   on_packets_completed all pump the queue, the pipe is first-in first-out and every operation re-evaluates
   check_pump(); Host.reset() builds each queue from the buffer length / count the controller reported and, when the
   controller reports no dedicated LE buffers (0/0), makes the LE queue the very same object as the BR/EDR queue (one
   credit pool, as the controller has one buffer pool). An edit that changes any of these facts breaks this obligation whether or not a generated
   history happens to expose it. *)
Definition side_eqb (a b : side) : bool :=
  match a, b with SLeft, SLeft | SRight, SRight => true | _, _ => false end.
Definition shape_ok (s : shape) : bool :=
  negb (side_eqb (q_in_side s) (q_out_side s)) && q_loop_guard_ok s &&
  Nat.eqb (q_sends_per_iteration s) 1 && Nat.eqb (q_increments_per_iteration s) 2 &&
  q_enqueue_pumps s && q_flush_pumps s && q_completed_pumps s &&
  negb (side_eqb (p_in_side s) (p_out_side s)) &&
  p_write_checks s && p_pause_checks s && p_resume_checks s && p_pump_checks s &&
  h_queues_from_reported_buffers s && h_le_shares_acl_queue_when_no_le_buffers s &&
  h_completed_event_visits_every_entry s && h_disconnection_flushes_all_queues s &&
  h_queue_lookup_is_stateless s && h_completed_event_uses_the_lookup s && h_remove_big_flushes_own_queue s.
Theorem C04_source_shape_is_the_modelled_shape : shape_ok shape_of_source = true.
Proof. vm_compute. reflexivity. Qed.
Print Assumptions C04_source_shape_is_the_modelled_shape.

(* ---- the host's queues together: routing of traffic and completion reports by handle ----
   Model/QueueRouting.v: any number of queues; links of any kind enter the link tables with a handle the
   controller is not using (HOpen), leave by a disconnection (HClose: the handle is flushed from every
   queue) or by the removal of their BIG (HCloseOwn: flushed from the link's own queue); traffic (HSend)
   and completion reports (HDone, any count >= 0, any handle) are routed by the CURRENT link tables.
   In every reachable state, for every history (including any re-use of handles by links of another kind
   on another queue):
   - every handle a queue holds anything for (waiting packets, per-connection in-flight state) is live and
     routed to that very queue,
   - every queue satisfies the queue invariant of C04_queue_invariant (credit bound, work conservation,...). *)
Theorem C04_routing_invariant : forall maxfs ops,
  Forall (fun m => 0 <= m) maxfs -> Forall hop_ok ops -> hinv (fst (h_run (h_init maxfs) ops)).
Proof. intros maxfs ops Hm Hok. exact (hinv_run ops (h_init maxfs) Hok (hinv_init maxfs Hm)). Qed.
Print Assumptions C04_routing_invariant.

(* Hence a completion report for a handle always reaches the queue that accounts that handle's packets
   (credits are returned where they were taken, never to another queue and never dropped). *)
Theorem C04_completion_reaches_accounting_queue : forall maxfs ops i q c n h,
  Forall (fun m => 0 <= m) maxfs -> Forall hop_ok ops ->
  let s := fst (h_run (h_init maxfs) ops) in
  nth_error (h_queues s) i = Some q -> find_conn h (q_conns q) = Some c ->
  fst (h_step s (HDone n h)) = mkH (h_links s) (fst (step_at i (Completed n h) (h_queues s))).
Proof.
  intros maxfs ops i q c n h Hm Hok s Hq Hc.
  exact (done_reaches_owner s i q c n h
           (hi_owned _ (hinv_run ops (h_init maxfs) Hok (hinv_init maxfs Hm))) Hq Hc).
Qed.
Print Assumptions C04_completion_reaches_accounting_queue.

(* A queue with no live link holds nothing and has every credit free: no buffer is ever left accounted
   to a link that is gone, so packets of later links cannot be left waiting for it. *)
Theorem C04_idle_queue_has_all_credits : forall maxfs ops i q,
  Forall (fun m => 0 <= m) maxfs -> Forall hop_ok ops ->
  let s := fst (h_run (h_init maxfs) ops) in
  nth_error (h_queues s) i = Some q -> (forall k, route k (h_links s) <> Some i) ->
  q_conns q = [] /\ q_wait q = [] /\ q_inflight q = 0.
Proof.
  intros maxfs ops i q Hm Hok s Hq Hidle.
  exact (idle_queue_is_empty s i q (hinv_run ops (h_init maxfs) Hok (hinv_init maxfs Hm)) Hq Hidle).
Qed.
Print Assumptions C04_idle_queue_has_all_credits.

(* A handle that is not live is known to no queue: whatever link re-uses it starts from nothing. *)
Theorem C04_closed_handle_leaves_nothing : forall maxfs ops i q h,
  Forall (fun m => 0 <= m) maxfs -> Forall hop_ok ops ->
  let s := fst (h_run (h_init maxfs) ops) in
  nth_error (h_queues s) i = Some q -> route h (h_links s) = None ->
  find_conn h (q_conns q) = None /\ filter (is_handle h) (q_wait q) = [].
Proof.
  intros maxfs ops i q h Hm Hok s Hq R.
  exact (closed_handle_unknown s i q h (hinv_run ops (h_init maxfs) Hok (hinv_init maxfs Hm)) Hq R).
Qed.
Print Assumptions C04_closed_handle_leaves_nothing.

(* Non-vacuity: a BIS on the ISO queue (index 1), its BIG removed, the handle re-used by an ACL link on
   queue 0 with one buffer: both packets get through as the completion report reaches queue 0. *)
Example C04_routing_nonvacuous :
  let '(s, sent) := h_run (h_init [1; 2])
      [HOpen 16 1; HSend 100 16; HDone 1 16; HCloseOwn 16; HOpen 16 0; HSend 200 16; HSend 201 16; HDone 1 16] in
  sent = [(100, 16); (200, 16); (201, 16)] /\ route 16 (h_links s) = Some 0%nat.
Proof. vm_compute. split; reflexivity. Qed.

(* ---- hand-overs that raise (a transport write error inside the send callback) ----
   Model/DataQueueFail.v: `fails p` says whether handing packet p to the controller raises.  For EVERY failure
   predicate and every history: the credit bound and in-flight = sum of per-connection counts (all >= 0) still hold,
   and per step credits are taken for exactly the packets whose hand-over returned; the packet whose hand-over raised
   is the only one dropped, order is kept; and the failing model with no failure is the plain model. *)
Theorem C04_failing_handover_invariant : forall fails maxf ops,
  0 <= maxf -> ops_ok ops -> inv_f (fst (q_run_f fails (q_init maxf) ops)).
Proof.
  intros fails maxf ops Hm Hok.
  exact (run_inv_f fails ops (q_init maxf) Hok (inv_inv_f _ (inv_init maxf Hm))).
Qed.
Print Assumptions C04_failing_handover_invariant.

Theorem C04_failed_handover_costs_no_credit : forall fails s o t,
  q_pre s o = Some t ->
  let '(s', sent, r) := q_step_f fails s o in
  q_inflight s' = q_inflight t + Z.of_nat (length sent) /\
  sum_conns (q_conns s') = sum_conns (q_conns t) + Z.of_nat (length sent) /\
  sent_ok fails sent /\
  (if r then exists p h, q_wait t = sent ++ (p, h) :: q_wait s' /\ fails p = true /\ q_inflight s' < q_max s'
   else q_wait t = sent ++ q_wait s' /\ (q_wait s' <> [] -> q_max s' <= q_inflight s')).
Proof. exact step_f_accounting. Qed.
Print Assumptions C04_failed_handover_costs_no_credit.

Theorem C04_no_failure_is_the_plain_model : forall fails s o,
  (forall p, fails p = false) -> q_step_f fails s o = (q_step s o, false).
Proof. exact q_step_f_nofail. Qed.
Print Assumptions C04_no_failure_is_the_plain_model.

(* Non-vacuity: with one buffer, the hand-over of packet 100 raises; 101 and 102 still get through. *)
Example C04_failing_nonvacuous :
  snd (q_run_f (in_list [100]) (q_init 1) [Enqueue 100 1; Enqueue 101 1; Enqueue 102 1; Completed 1 1]) =
  [([], true); ([(101, 1)], false); ([], false); ([(102, 1)], false)].
Proof. vm_compute. reflexivity. Qed.

(* Non-vacuity: a concrete history reaching a state with waiting packets. *)
Example C04_nonvacuous :
  let '(s, sent) := q_run (q_init 1) [Enqueue 10 1; Enqueue 11 2; Flush 1] in
  sent = [(10, 1); (11, 2)] /\ q_wait s = [] /\ q_inflight s = 1.
Proof. vm_compute. repeat split. Qed.
