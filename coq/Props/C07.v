(* Property C07 (statements only). *)
From Coq Require Import ZArith List Bool.
From BV Require Import Model.LeCoc Proofs.LeCoc Gen.C07Tables.
Import ListNotations.
Open Scope Z_scope.

Theorem C07_filing_matches_source : forall k, gen_lecoc_keysel k = lecoc_keysel k.
Proof. intros []; reflexivity. Qed.
Print Assumptions C07_filing_matches_source.
