(* Property C07: LE / enhanced credit-based channels - exact byte stream, credit
   discipline, progress.  Statements only, each closed by [exact].

   The system (Model/LeCoc.v): one channel between two managers A and B; each end
   has the sender half and the receiver half of LeCreditBasedChannel; the A->B and
   B->A wires are FIFOs carrying K-frames and credit packets interleaved; a schedule
   is any list of WriteA d / WriteB d / DeliverAB / DeliverBA (a delivery from an
   empty wire is a stutter).  All theorems are for
     - every pair of code paths (ka, kb) that filed the two channel objects in
       le_coc_channels (LE / enhanced, initiator / acceptor),
     - every pair of channel identifiers cid_a, cid_b (equal or different),
     - every MTU in 1..65535, MPS >= 1, initial credits >= 1 on each side (the
       legal ranges 23..65535 / 23..65533 / 1..65535 are inside),
     - every schedule whose writes are non-empty. *)
From Coq Require Import ZArith List Bool.
From BV Require Import Model.LeCoc Proofs.LeCoc Gen.C07Tables.
Import ListNotations.
Open Scope Z_scope.

(* ---- tie to the source: the le_coc_channels filing keys read from l2cap.py on
   this run are the ones the model uses (all four: the destination CID) *)
Theorem C07_filing_matches_source : forall k, gen_lecoc_keysel k = lecoc_keysel k.
Proof. intros []; reflexivity. Qed.
Print Assumptions C07_filing_matches_source.

(* the comparison operators and integer constants of LeCreditBasedChannel.__init__ / on_pdu /
   process_output read from l2cap.py on this run (the translator matches the whole normalised
   function bodies, also of write / on_credits / send_pdu, against a template and fails closed
   on any other difference) are the ones of the model ... *)
Theorem C07_shape_matches_source : gen_shape = model_shape.
Proof. vm_compute. reflexivity. Qed.
Print Assumptions C07_shape_matches_source.

(* ... so the model's receiver and sender ARE the generic ones instantiated with what the
   source says: `<=` against `max // 2`, `-= 1`, `>= 2`, `< 2 + length`, `!= 2 + length`,
   `[2:]`, `while credits > 0`, `len(payload) < peer_mtu`, ... *)
Theorem C07_model_is_source_shape :
  (forall r pdu, r_on_pdu r pdu = r_on_pdu_g gen_shape r pdu) /\
  (forall s, process_output s = process_output_g gen_shape s).
Proof. exact (model_is_shape gen_shape C07_shape_matches_source). Qed.
Print Assumptions C07_model_is_source_shape.

Theorem C07_ranges_covered :
  params_ok gen_min_mtu gen_min_mps 1 /\ params_ok gen_max_mtu gen_max_mps gen_max_credits.
Proof. split; constructor; vm_compute; intuition congruence. Qed.
Print Assumptions C07_ranges_covered.

Section C07.
  Variables (ka kb : kind) (cid_a cid_b mtu_a mps_a cr_a mtu_b mps_b cr_b : Z).
  Hypothesis (Ha : params_ok mtu_a mps_a cr_a) (Hb : params_ok mtu_b mps_b cr_b).
  Let init := sys0 ka kb cid_a cid_b mtu_a mps_a cr_a mtu_b mps_b cr_b.

  (* bytes handed to each sink are a prefix of the bytes written at the other end,
     in order; when nothing is in flight they are equal and both drain()s are done *)
  Theorem C07_stream_exact : forall ls, Forall label_ok ls ->
    let '(st, rs) := l_run init ls in
    (exists X, written_a ls = sunk_b rs ++ X) /\
    (exists Y, written_b ls = sunk_a rs ++ Y) /\
    (l_ab st = [] -> l_ba st = [] ->
       written_a ls = sunk_b rs /\ written_b ls = sunk_a rs /\
       s_drained (e_snd (l_a st)) = true /\ s_drained (e_snd (l_b st)) = true).
  Proof. exact (stream_exact ka kb cid_a cid_b mtu_a mps_a cr_a mtu_b mps_b cr_b Ha Hb). Qed.

  (* in every reachable state, both directions: sender's credits + frames in flight
     + credits in flight = the receiver's count of credits it has out, which stays
     within what it granted; the sender's credits are never negative *)
  Theorem C07_credit_safe : forall ls, Forall label_ok ls ->
    let st := fst (l_run init ls) in
    ledger (e_snd (l_a st)) (e_rcv (l_b st)) (l_ab st) (l_ba st) cr_b /\
    ledger (e_snd (l_b st)) (e_rcv (l_a st)) (l_ba st) (l_ab st) cr_a.
  Proof. exact (credit_safe ka kb cid_a cid_b mtu_a mps_a cr_a mtu_b mps_b cr_b Ha Hb). Qed.

  (* every K-frame on a wire is non-empty and within the MPS its receiver advertised *)
  Theorem C07_frame_le_mps : forall ls, Forall label_ok ls ->
    let st := fst (l_run init ls) in
    frames_within mps_b (l_ab st) /\ frames_within mps_a (l_ba st).
  Proof. exact (frame_le_mps ka kb cid_a cid_b mtu_a mps_a cr_a mtu_b mps_b cr_b Ha Hb). Qed.

  (* every SDU a receiver reassembles is within the MTU it advertised *)
  Theorem C07_sdu_le_mtu : forall ls, Forall label_ok ls ->
    let st := fst (l_run init ls) in
    (forall d, lr_sink_b (l_step st DeliverAB) = Some d -> 1 <= zlen d <= mtu_b) /\
    (forall d, lr_sink_a (l_step st DeliverBA) = Some d -> 1 <= zlen d <= mtu_a).
  Proof. exact (sdu_le_mtu ka kb cid_a cid_b mtu_a mps_a cr_a mtu_b mps_b cr_b Ha Hb). Qed.

  (* no K-frame and no credit packet is dropped by the CID lookups, and the
     reassembly never overflows, whatever the two identifiers are *)
  Theorem C07_credits_routed : forall ls, Forall label_ok ls -> Forall clean (snd (l_run init ls)).
  Proof. exact (credits_routed ka kb cid_a cid_b mtu_a mps_a cr_a mtu_b mps_b cr_b Ha Hb). Qed.

  (* not stuck: as long as something written is undelivered or a drain() is
     pending, a wire is non-empty, i.e. a delivery step is enabled *)
  Theorem C07_progress : forall ls, Forall label_ok ls ->
    let '(st, rs) := l_run init ls in
    (written_a ls <> sunk_b rs \/ written_b ls <> sunk_a rs \/
     s_drained (e_snd (l_a st)) = false \/ s_drained (e_snd (l_b st)) = false) ->
    l_ab st <> [] \/ l_ba st <> [].
  Proof. exact (progress ka kb cid_a cid_b mtu_a mps_a cr_a mtu_b mps_b cr_b Ha Hb). Qed.

  (* termination: from any reachable state, with no further writes, every schedule of
     enabled deliveries is finite (bounded by lmeasure) and one of them empties both
     wires; by C07_stream_exact the transfer is then complete in both directions *)
  Theorem C07_progress_terminates : forall ls, Forall label_ok ls ->
    let st := fst (l_run init ls) in
    (forall ds, l_all_enabled st ds -> zlen ds <= lmeasure st) /\
    (exists ds, l_all_enabled st ds /\ l_ab (fst (l_run st ds)) = [] /\ l_ba (fst (l_run st ds)) = []).
  Proof. exact (progress_terminates ka kb cid_a cid_b mtu_a mps_a cr_a mtu_b mps_b cr_b Ha Hb). Qed.
End C07.
Print Assumptions C07_stream_exact.
Print Assumptions C07_credit_safe.
Print Assumptions C07_frame_le_mps.
Print Assumptions C07_sdu_le_mtu.
Print Assumptions C07_credits_routed.
Print Assumptions C07_progress.
Print Assumptions C07_progress_terminates.

(* a K-frame costs a credit: what the two sender entry points put on the wire is
   paid for one credit per frame (and by C07_credit_safe the balance stays >= 0) *)
Theorem C07_frame_costs_credit : forall s d n,
  (let '(s', fs) := s_write s d in s_credits s' = s_credits s - zlen fs) /\
  (let '(s', fs) := s_on_credits s n in s_credits s' = s_credits s + n - zlen fs).
Proof. intros s d n. split; [exact (s_write_credits s d)|exact (s_on_credits_credits s n)]. Qed.
Print Assumptions C07_frame_costs_credit.

(* ---- one direction of a channel (sender half, receiver half, frames one way,
   credits the other): the inductive invariant and termination of deliveries *)
Theorem C07_view_invariant : forall credits mtu mps ls,
  1 <= credits -> 1 <= mtu < 65536 -> 1 <= mps -> Forall vlabel_ok ls ->
  vinv (v_run (v_init credits mtu mps) ls).
Proof. intros. apply vinv_run; [apply vinv_init|]; assumption. Qed.
Print Assumptions C07_view_invariant.

(* with no further writes, every sequence of enabled deliveries is at most
   [measure] long ... *)
Theorem C07_progress_bounded : forall v ls, vinv v -> all_enabled v ls -> zlen ls <= measure v.
Proof. intros v ls. exact (deliveries_bounded ls v). Qed.
Print Assumptions C07_progress_bounded.

(* ... a delivery is enabled until the transfer is complete ... *)
Theorem C07_progress_enabled : forall v, vinv v -> ~ v_final v -> enabled v VFrame \/ enabled v VCredit.
Proof. exact not_final_enabled. Qed.
Print Assumptions C07_progress_enabled.

(* ... and when none is, everything written has reached the sink and drain() is done *)
Theorem C07_quiescent_is_final : forall v, vinv v -> v_quiet v -> v_final v.
Proof. exact vinv_quiet_final. Qed.
Print Assumptions C07_quiescent_is_final.

(* ---- manager tables with any number of channels: a K-frame for a channel's source
   CID and a credit packet for its destination CID reach that channel, provided
   the local CIDs are pairwise distinct and so are the peer's *)
Theorem C07_tables_route_frame : forall cs c d,
  NoDup (srcs cs) -> In c cs -> route (file_all lecoc_keysel cs) (PFrame (cd_src c) d) = Some (cd_id c).
Proof. intros cs c d. exact (route_frame_ok lecoc_keysel cs c d). Qed.
Print Assumptions C07_tables_route_frame.

Theorem C07_tables_route_credit : forall cs c n,
  NoDup (dsts cs) -> In c cs -> route (file_all lecoc_keysel cs) (PCredit (cd_dst c) n) = Some (cd_id c).
Proof. intros cs c n. exact (route_credit_ok lecoc_keysel cs c n (fun _ => eq_refl)). Qed.
Print Assumptions C07_tables_route_credit.

(* ---- n channels on one link (two managers, each a list of channel endpoints, two shared
   FIFO wires, packets routed by the tables): for every set of channels with pairwise distinct
   CIDs on each side, every schedule and every channel k - whatever the other channels do -
   nothing is dropped by the lookups, channel k's sink bytes are a prefix of its written bytes,
   equal with drain() done as soon as none of ITS packets is in flight, its credit ledger
   holds and its frames are within the MPS *)
Theorem C07_multi_channel : forall cs, Forall cfg_ok cs ->
  NoDup (map cc_cid_a cs) -> NoDup (map cc_cid_b cs) ->
  forall ls k, Forall mlabel_ok ls -> (k < length cs)%nat ->
    let c := nth k cs dflt_cfg in
    let '(st, rs) := m_run (m_init cs) ls in
    let pk := proj k st in
    Forall (fun r => mr_dropped r = false) rs /\
    (exists X, m_written_a k ls = m_sunk_b k rs ++ X) /\
    (exists Y, m_written_b k ls = m_sunk_a k rs ++ Y) /\
    (l_ab pk = [] -> l_ba pk = [] ->
       m_written_a k ls = m_sunk_b k rs /\ m_written_b k ls = m_sunk_a k rs /\
       s_drained (e_snd (l_a pk)) = true /\ s_drained (e_snd (l_b pk)) = true) /\
    ledger (e_snd (l_a pk)) (e_rcv (l_b pk)) (l_ab pk) (l_ba pk) (cc_cr_b c) /\
    ledger (e_snd (l_b pk)) (e_rcv (l_a pk)) (l_ba pk) (l_ab pk) (cc_cr_a c) /\
    frames_within (cc_mps_b c) (l_ab pk) /\ frames_within (cc_mps_a c) (l_ba pk).
Proof. exact multi_channel. Qed.
Print Assumptions C07_multi_channel.

(* the projection behind it: channel k of the n-channel run is a one-channel run *)
Theorem C07_multi_channel_projection : forall ls st k,
  mwf st -> (k < length (m_a st))%nat -> Forall mlabel_ok ls ->
  let '(st', rs) := m_run st ls in
  mwf st' /\ length (m_a st') = length (m_a st) /\ Forall (fun r => mr_dropped r = false) rs /\
  exists ls', Forall label_ok ls' /\
    let '(lst, lrs) := l_run (proj k st) ls' in
    proj k st' = lst /\ written_a ls' = m_written_a k ls /\ written_b ls' = m_written_b k ls /\
    sunk_a lrs = m_sunk_a k rs /\ sunk_b lrs = m_sunk_b k rs.
Proof. exact m_run_proj. Qed.
Print Assumptions C07_multi_channel_projection.

(* ---- one Bumble endpoint against an arbitrary peer (hostile but legal) *)
(* sender: for every sequence of non-empty writes and credit packets with any counts >= 0
   (the code does not enforce the 65535 ceiling: an over-grant is simply added), the credit
   balance stays >= 0, every frame ever emitted has 1..MPS bytes, the frames emitted so far
   followed by the unsent rest of out_sdu are whole SDUs of 1..MTU bytes on frame boundaries,
   and their payloads followed by out_queue are exactly the bytes written *)
Theorem C07_sender_robust : forall vs s F W, sinv s F W -> Forall sev_ok vs ->
  let '(s', fs) := s_run s vs in sinv s' (F ++ fs) (W ++ s_written vs).
Proof. exact sender_robust. Qed.
Print Assumptions C07_sender_robust.

(* receiver: for every sequence of frames (any number, any content) peer_credits stays in
   (max/2, max] - the "peer out of credits" branch of on_pdu is unreachable, a peer that
   overdraws cannot be told apart - every credit packet returns 1..max credits and the
   count is exact: credits out = credits out before - frames + credits returned *)
Theorem C07_receiver_robust : forall fs r, rinv r ->
  let '(r', cs) := r_run r fs in
  rinv r' /\ Forall (fun n => 1 <= n <= r_max r) cs /\
  r_credits r' = r_credits r - zlen fs + zsum cs.
Proof. exact receiver_robust. Qed.
Print Assumptions C07_receiver_robust.

(* ---- the hypothesis "the receiver has a sink" is needed (on_pdu returns before the credit
   accounting while sink is None) *)
Theorem C07_nosink_leak_refuted :
  let b0 := ep_init KDst 64 80 1 23 23 1 in
  let f1 := enc_sdu (mk_data 0 5) in let f2 := enc_sdu (mk_data 5 5) in
  let '(b, rs) := ep_run_s b0 [(false, ERecv (PFrame 64 f1)); (true, ERecv (PFrame 64 f2))] in
  map (fun r => (er_out r, er_sink r)) rs = [([], None); ([PCredit 64 1], Some (mk_data 5 5))] /\
  r_credits (e_rcv b) = 1.
Proof. exact nosink_leak_refuted. Qed.
Print Assumptions C07_nosink_leak_refuted.

(* ---- D07 (fixed by fixes/D07.patch): with the enhanced acceptor filed under its
   source CID the statements above are false *)
Theorem C07_d07_tables_refuted :
  exists cs c n, NoDup (srcs cs) /\ NoDup (dsts cs) /\ In c cs /\
    route (file_all sel_d07 cs) (PCredit (cd_dst c) n) <> Some (cd_id c).
Proof. exact route_credit_d07_refuted. Qed.
Print Assumptions C07_d07_tables_refuted.

Theorem C07_d07_stall_refuted :
  let st0 := l_init KDst (sel_d07 EnhAcceptor) 80 64 64 23 2 64 23 2 in
  let '(st, rs) := l_run st0 [WriteB (mk_data 0 60); DeliverBA; DeliverBA; DeliverAB; DeliverAB] in
  existsb lr_dropped rs = true /\ l_ab st = [] /\ l_ba st = [] /\
  s_sdu (e_snd (l_b st)) <> None /\ s_credits (e_snd (l_b st)) = 0.
Proof. exact credits_routed_d07_refuted. Qed.
Print Assumptions C07_d07_stall_refuted.

(* ---- non-vacuity *)
Example C07_params_satisfiable : params_ok 23 23 1 /\ params_ok 65535 65533 65535.
Proof. split; constructor; vm_compute; intuition congruence. Qed.

Example C07_run_nonvacuous :
  let '(st, rs) := l_run (l_init KDst KDst 64 80 23 23 1 30 25 2)
                         [WriteA (mk_data 0 40); DeliverAB; DeliverAB; DeliverBA; DeliverAB; DeliverBA; DeliverAB; DeliverBA] in
  sunk_b rs = mk_data 0 40 /\ l_ab st = [] /\ l_ba st = [] /\ Forall label_ok [WriteA (mk_data 0 40)].
Proof. vm_compute. repeat split. constructor; [discriminate|constructor]. Qed.

Example C07_multi_nonvacuous :
  let cs := [mkCfg LeInitiator LeAcceptor 64 65 23 23 1 64 23 2; mkCfg EnhAcceptor EnhInitiator 65 64 64 23 2 23 23 1] in
  let '(st, rs) := m_run (m_init cs) [MWriteA 0 (mk_data 0 30); MWriteB 1 (mk_data 7 9); MDeliverAB; MDeliverBA;
                                      MDeliverAB; MDeliverBA; MDeliverBA; MDeliverAB] in
  m_sunk_b 0 rs = mk_data 0 30 /\ m_sunk_a 1 rs = mk_data 7 9 /\ m_ab st = [] /\ m_ba st = [] /\
  NoDup (map cc_cid_a cs) /\ NoDup (map cc_cid_b cs).
Proof. vm_compute. repeat split; repeat constructor; cbn; intuition discriminate. Qed.

Example C07_sinv_satisfiable : sinv (snd_init 3 64 23) [] [] /\ rinv (rcv_init 3).
Proof. split; [apply sinv_init|apply rinv_init]; vm_compute; intuition congruence. Qed.
