(* Property C08: classic L2CAP channels (Basic / Enhanced Retransmission mode) deliver
   every SDU once, intact and in order; window and sequence discipline; set-up agreement.
   Statements only; each is closed by [exact] (or by computation over the regenerated
   Gen/C08Tables.v).

   Schedules are arbitrary interleavings of writes at either end, deliveries in either
   direction ("order-preserving delays") and firings of the four ERTM timers (labels
   TimeoutRetxA/B, TimeoutMonA/B of Model/Ertm.v): ALL statements below hold for ALL
   schedules, timers included (the model is of the code after fixes/D08.patch and
   fixes/D08t.patch).  The two FIFO channels neither lose nor reorder frames. *)
From Coq Require Import ZArith List Bool Lia.
From BV Require Import Model.Crc16 Model.Ertm Model.L2capConfig Model.L2capShape Gen.C08Tables Gen.C08Shape.
From BV Require Import Proofs.ErtmSeg Proofs.Ertm Proofs.ErtmWire Proofs.ErtmLive Proofs.ErtmForeign.
From BV Require Import Proofs.L2capConfig Proofs.L2capShape.
Import ListNotations.
Open Scope Z_scope.

(* ERTM safety: for every peer MPS >= 1, every window 1..63 (both directions
   independently), every sequence of SDUs of any sizes written at either end (so also SDUs
   of more than 64 segments: sequence numbers wrap) and every schedule, timers included:
   what each sink has received is a prefix of what the peer wrote - nothing duplicated,
   reordered, corrupted or invented. *)
Theorem C08_ertm_in_order_prefix : forall mps_a win_a mps_b win_b sched,
  params_ok mps_a win_a mps_b win_b ->
  let s := run (sys_init mps_a win_a mps_b win_b) sched in
  (exists j, s_sink_b s = firstn j (writes_a sched)) /\
  (exists j, s_sink_a s = firstn j (writes_b sched)).
Proof. exact ertm_in_order_prefix. Qed.
Print Assumptions C08_ertm_in_order_prefix.

(* ERTM, complete delivery: when both channels are empty each sink holds exactly what the
   peer wrote and nothing is left queued, unacknowledged, half reassembled or blocked by a
   monitor handle - whatever timers fired on the way. *)
Theorem C08_ertm_exactly_once_in_order : forall mps_a win_a mps_b win_b sched,
  params_ok mps_a win_a mps_b win_b ->
  let s := run (sys_init mps_a win_a mps_b win_b) sched in
  (exists j, s_sink_b s = firstn j (writes_a sched)) /\
  (exists j, s_sink_a s = firstn j (writes_b sched)) /\
  (quiescent s = true ->
     s_sink_b s = writes_a sched /\ s_sink_a s = writes_b sched /\
     e_pend (s_a s) = [] /\ e_txw (s_a s) = [] /\ e_pend (s_b s) = [] /\ e_txw (s_b s) = [] /\
     e_insdu (s_a s) = [] /\ e_insdu (s_b s) = [] /\
     e_mon (s_a s) = MonNone /\ e_mon (s_b s) = MonNone).
Proof. exact ertm_exactly_once_in_order. Qed.
Print Assumptions C08_ertm_exactly_once_in_order.

(* The I-frames ever sent are those acknowledged plus those in the transmit window, and
   the transmit window never holds more than the window the peer advertised. *)
Theorem C08_window_respected : forall mps_a win_a mps_b win_b sched,
  params_ok mps_a win_a mps_b win_b ->
  let s := run (sys_init mps_a win_a mps_b win_b) sched in
  (exists acked, 0 <= acked /\ e_lack (s_a s) = acked mod 64 /\
     zlen (ikeys (s_log_ab s)) = acked + zlen (e_txw (s_a s)) /\
     zlen (e_txw (s_a s)) <= win_b) /\
  (exists acked, 0 <= acked /\ e_lack (s_b s) = acked mod 64 /\
     zlen (ikeys (s_log_ba s)) = acked + zlen (e_txw (s_b s)) /\
     zlen (e_txw (s_b s)) <= win_a).
Proof. exact window_respected. Qed.
Print Assumptions C08_window_respected.

(* The i-th I-frame put on a channel carries TxSeq = i mod 64: no gap, no repetition. *)
Theorem C08_seq_mod64 : forall mps_a win_a mps_b win_b sched,
  params_ok mps_a win_a mps_b win_b ->
  let s := run (sys_init mps_a win_a mps_b win_b) sched in
  map tx_of (ikeys (s_log_ab s)) =
    map (fun i => Z.of_nat i mod 64) (seq 0 (length (ikeys (s_log_ab s)))) /\
  map tx_of (ikeys (s_log_ba s)) =
    map (fun i => Z.of_nat i mod 64) (seq 0 (length (ikeys (s_log_ba s)))).
Proof. exact seq_mod64. Qed.
Print Assumptions C08_seq_mod64.

(* The I-frames on a channel are, in order, a prefix of the numbered segment stream of
   the SDUs written (segmentation by the PEER's MPS; nothing retransmitted or invented). *)
Theorem C08_frames_are_segments : forall mps_a win_a mps_b win_b sched,
  params_ok mps_a win_a mps_b win_b ->
  let s := run (sys_init mps_a win_a mps_b win_b) sched in
  (exists rest, map pkey (number 0 (segs_of mps_b (writes_a sched))) = ikeys (s_log_ab s) ++ rest) /\
  (exists rest, map pkey (number 0 (segs_of mps_a (writes_b sched))) = ikeys (s_log_ba s) ++ rest).
Proof. exact frames_are_segments. Qed.
Print Assumptions C08_frames_are_segments.

(* Draining: from any reachable state, a run of deliveries (each enabled when taken, in any
   order) has at most measure(s) steps - 3 per queued pdu, 2 per I-frame or poll and 1 per
   other S-frame in flight - so once writing and timer firing stop the system is quiescent
   after finitely many deliveries, and there C08_ertm_exactly_once_in_order says every SDU
   written has been delivered, exactly once and in order. *)
Theorem C08_ertm_drains : forall mps_a win_a mps_b win_b sched more,
  params_ok mps_a win_a mps_b win_b ->
  let s := run (sys_init mps_a win_a mps_b win_b) sched in
  all_enabled s more -> zlen more <= measure s.
Proof. exact ertm_drains. Qed.
Print Assumptions C08_ertm_drains.

(* The schedule on which the code stalled before fixes/D08t.patch: MPS 10, window 2, a
   100-byte SDU, the retransmission timer and then the monitor timer fire before the first
   acknowledgement arrives.  One poll (P=1), one answer (F=1), everything delivered. *)
Theorem C08_ertm_timer_recovers :
  let s := run (sys_init 10 2 10 2)
             ([WriteA (repeat 7 100); TimeoutRetxA; DeliverAB; DeliverAB; DeliverAB; TimeoutMonA]
              ++ repeat DeliverBA 3 ++ flat_map (fun _ => [DeliverAB; DeliverAB; DeliverBA; DeliverBA])
                                               (seq 0 4)) in
  quiescent s = true /\ s_sink_b s = [repeat 7 100] /\ e_mon (s_a s) = MonNone /\
  npolls (s_log_ab s) = 1 /\ nfinals (s_log_ba s) = 1.
Proof. exact ertm_timer_recovers. Qed.
Print Assumptions C08_ertm_timer_recovers.

(* ONE bumble endpoint against an arbitrary, possibly hostile, peer: whatever frames arrive
   (REJ, SREJ, RNR, polls, bogus acknowledgements, out-of-sequence or malformed I-frames -
   given as frames or as raw payloads), mixed in any order with local writes and timer
   firings, for any peer MPS >= 1 and ANY advertised window >= 0: the transmit window never
   exceeds the peer's window; the I-frames sent are a prefix of the numbered segment
   stream of the SDUs written, so TxSeq = i mod 64 without gap or repetition; the only
   supervisory frames sent are RR. *)
Theorem C08_ertm_foreign_peer_safe : forall pmps pwin ls,
  1 <= pmps -> 0 <= pwin ->
  let '(e, out, _) := erun (ep_init pmps pwin) ls in
  zlen (e_txw e) <= pwin /\
  (exists rest, map pkey (number 0 (segs_of pmps (ewrites ls))) = ikeys out ++ rest) /\
  map tx_of (ikeys out) = map (fun i => Z.of_nat i mod 64) (seq 0 (length (ikeys out))) /\
  Forall sframe_ok out.
Proof. exact ertm_foreign_peer_safe. Qed.
Print Assumptions C08_ertm_foreign_peer_safe.

(* Every frame either end ever sends is well formed (sequence numbers in 0..63, 16-bit SDU
   length on START frames, only RR supervisory frames) when SDUs are shorter than 65536
   bytes - with or without timers - so C08_wire_roundtrip applies to each of them. *)
Theorem C08_frames_wf : forall mps_a win_a mps_b win_b sched,
  sdus_small sched ->
  let s := run (sys_init mps_a win_a mps_b win_b) sched in
  Forall frame_wf (s_log_ab s) /\ Forall frame_wf (s_log_ba s).
Proof. exact frames_wf. Qed.
Print Assumptions C08_frames_wf.

(* Segmentation and reassembly: any SDU, any MPS >= 1 (also exact multiples of the MPS). *)
Theorem C08_segment_reassemble : forall mps w acc,
  1 <= mps -> reasm acc (segment mps w) = ([acc ++ w], []).
Proof. intros mps w acc H. exact (segment_reasm mps w acc H). Qed.
Print Assumptions C08_segment_reassemble.

Theorem C08_segment_le_mps : forall mps w,
  0 <= mps -> Forall (fun g => zlen (g_data g) <= mps) (segment mps w).
Proof. exact segment_le_mps. Qed.
Print Assumptions C08_segment_le_mps.

(* Basic mode: the sink followed by the channel content is what was written. *)
Theorem C08_basic_exact : forall sched,
  let s := brun (mkB [] []) sched in
  b_sink s ++ b_chan s = bwrites sched /\ (b_chan s = [] -> b_sink s = bwrites sched).
Proof. exact basic_exact. Qed.
Print Assumptions C08_basic_exact.

(* Wire format: with the same FCS setting at both ends the receiving channel hands its
   processor exactly the frame that was sent (the FCS is appended / stripped). *)
Theorem C08_wire_roundtrip : forall fcs cid f,
  frame_wf f -> 0 <= cid < 65536 -> zlen (enc_frame f) + 2 < 65536 ->
  match dec_pdu fcs (enc_pdu fcs cid (enc_frame f)) with
  | Some (c, payload) => c = cid /\ dec_frame payload = Some f
  | None => False
  end.
Proof. exact wire_roundtrip. Qed.
Print Assumptions C08_wire_roundtrip.

(* Basic mode on the wire: the PDU payload is the SDU, FCS appended / stripped. *)
Theorem C08_basic_wire_roundtrip : forall fcs cid sdu,
  0 <= cid < 65536 -> zlen sdu + 2 < 65536 ->
  dec_pdu fcs (enc_pdu fcs cid sdu) = Some (cid, sdu).
Proof. exact dec_enc_pdu. Qed.
Print Assumptions C08_basic_wire_roundtrip.

(* ... which is why set-up must leave both ends with the same FCS setting: *)
Theorem C08_wire_fcs_mismatch_refuted :
  exists f, frame_wf f /\
    match dec_pdu false (enc_pdu true 64 (enc_frame f)) with
    | Some (_, payload) => dec_frame payload <> Some f
    | None => True
    end.
Proof. exact wire_fcs_mismatch_refuted. Qed.
Print Assumptions C08_wire_fcs_mismatch_refuted.

(* Set-up, for all pairs of specs (mode, FCS requested, FCS option supported) with or
   without a server: every run of the two configuration machines has fewer than
   SETUP_BOUND deliveries; where no delivery is enabled both ends are OPEN in the same
   mode with the same FCS setting, each holding the peer's MTU and retransmission
   parameters, and connect() has returned - exactly when a server exists and the modes
   agree - and otherwise both ends are CLOSED, the acceptor's channel is gone and
   connect() has raised; in that case no end is OPEN at any point of the run. *)
Theorem C08_setup_agrees : forall sa sb srv n s',
  reach n (cinit sa sb srv) s' ->
  (n < SETUP_BOUND)%nat /\
  (succs s' = [] -> if expected_open sa sb srv then open_ok s' = true else closed_ok s' = true) /\
  (expected_open sa sb srv = false -> c_st (k_a s') <> OPEN /\ c_st (k_b s') <> OPEN).
Proof. exact setup_agrees. Qed.
Print Assumptions C08_setup_agrees.

(* "closed" above means: unregistered, connect() raised, state CLOSED - except that an
   INITIATOR that itself detected the mode mismatch is unregistered while still in
   WAIT_DISCONNECT and stays there (docs/C08.md, open question).  In every other failing
   set-up both state fields end CLOSED: *)
Theorem C08_setup_closed_strict : forall sa sb srv n s',
  reach n (cinit sa sb srv) s' -> ok_strict sa sb srv s' = true.
Proof. exact setup_closed_strict. Qed.
Print Assumptions C08_setup_closed_strict.

Theorem C08_setup_strict_closed_refuted :
  exists sched,
    let s := crun (cinit (mkSpec Basic false false) (mkSpec Ertm false false) true) sched in
    terminal s = true /\ closed_ok s = true /\ c_st (k_a s) = WAIT_DISCONNECT.
Proof. exact setup_strict_closed_refuted. Qed.
Print Assumptions C08_setup_strict_closed_refuted.

Theorem C08_setup_agrees_sched : forall sa sb srv sched,
  let s := crun (cinit sa sb srv) sched in
  terminal s = true -> good s = true.
Proof. exact setup_agrees_sched. Qed.
Print Assumptions C08_setup_agrees_sched.

(* CRC-16: the value the REAL utils.crc_16 returns on each of the 256 one-byte inputs
   (regenerated on every run) equals the bitwise definition, i.e. the byte-at-a-time
   table; and on the Core Specification's FCS examples. *)
Theorem C08_crc_table_matches_code : impl_crc_single = crc_table.
Proof. vm_compute. reflexivity. Qed.
Print Assumptions C08_crc_table_matches_code.

Theorem C08_crc_table_is_bitwise : forall i, 0 <= i < 256 ->
  nth (Z.to_nat i) crc_table 0 = crc16 [i].
Proof. exact crc_table_entries. Qed.
Print Assumptions C08_crc_table_is_bitwise.

Theorem C08_crc_vectors :
  forallb (fun v => crc16 (fst v) =? snd v) impl_crc_vectors = true.
Proof. vm_compute. reflexivity. Qed.
Print Assumptions C08_crc_vectors.

(* constants the model hard-codes, against the code's current values *)
Theorem C08_constants :
  impl_max_seq_num = MAX_SEQ_NUM /\
  impl_sar_codes = map sar_code [UNSEG; START; SEND; CONT] /\
  impl_sfunc_codes = [RR; REJ; RNR; SREJ] /\
  impl_frame_types = [0; 1] /\
  (* codes the harness's own signalling parser relies on *)
  impl_modes = [0; 3] /\ impl_option_types = [1; 4; 5] /\ impl_config_results = [0; 1] /\
  impl_min_br_edr_mtu = 48 /\ impl_fcs_option_feature = 32 /\
  impl_states = [0; 1; 2; 3; 4; 16; 17; 18; 19; 20; 23].
Proof. vm_compute. repeat split. Qed.
Print Assumptions C08_constants.

(* ---------- non-vacuity ---------- *)
(* window 2, MPS 3: an 8-byte SDU (START, CONT, END) and a 3-byte one; A's third and
   fourth I-frames wait for the window *)
Example C08_nonvacuous_window :
  let s := run (sys_init 3 2 3 2) [WriteA [1;2;3;4;5;6;7;8]; WriteA [9;9;9]] in
  length (s_ab s) = 2%nat /\ length (e_pend (s_a s)) = 2%nat /\ params_ok 3 2 3 2.
Proof. vm_compute. repeat split; discriminate. Qed.

Example C08_nonvacuous_delivery :
  let s := run (sys_init 3 2 3 2)
             [WriteA [1;2;3;4;5;6;7;8]; WriteA [9;9;9]; DeliverAB; DeliverAB; DeliverBA;
              DeliverBA; DeliverAB; DeliverAB; DeliverBA; DeliverBA] in
  s_sink_b s = [[1;2;3;4;5;6;7;8]; [9;9;9]] /\ quiescent s = true.
Proof. vm_compute. split; reflexivity. Qed.

(* sequence numbers wrap: 70 one-byte segments *)
Example C08_nonvacuous_wrap :
  map p_tx (skipn 62 (fst (assign 0 (segment 1 (repeat 7 70))))) = [62; 63; 0; 1; 2; 3; 4; 5].
Proof. vm_compute. reflexivity. Qed.

(* a foreign peer: RNR stops the output, REJ (ignored but for its ReqSeq) resumes it, a
   bogus acknowledgement of 5 frames is ignored, a poll is answered with F=1 *)
Example C08_nonvacuous_foreign :
  let '(e, out, _) := erun (ep_init 2 2)
        [EWrite [1;2;3;4;5;6;7]; ERecv (SFrame RNR false false 1); ERecv (SFrame RR false false 5);
         ERecv (SFrame REJ false false 2); ERecv (SFrame RR true false 2)] in
  map tx_of (ikeys out) = [0; 1; 2; 3] /\ length (e_txw e) = 2%nat /\
  nfinals out = 1 /\ e_busy e = false.
Proof. vm_compute. repeat split. Qed.

(* hypotheses of C08_frames_wf / C08_wire_roundtrip are satisfiable: a START frame of a
   300-byte SDU, with FCS *)
Example C08_nonvacuous_wire :
  sdus_small [WriteA (repeat 1 300); DeliverAB; TimeoutRetxA] /\
  frame_wf (IFrame 5 63 START 300 [1; 2; 3] true) /\
  dec_pdu true (enc_pdu true 64 (enc_frame (IFrame 5 63 START 300 [1; 2; 3] true))) =
    Some (64, enc_frame (IFrame 5 63 START 300 [1; 2; 3] true)).
Proof. split; [cbn; lia|]. split; [cbn; lia|]. vm_compute. reflexivity. Qed.

(* FCS requested by A, B without the FCS option: ends OPEN/OPEN without FCS *)
Example C08_nonvacuous_setup_fcs :
  let s := crun (cinit (mkSpec Ertm true true) (mkSpec Ertm false false) true)
                [DAB; DBA; DBA; DAB; DAB; DBA; DBA; DAB; DAB; DBA; DAB; DBA] in
  terminal s = true /\ open_ok s = true /\ c_fcs (k_a s) = false.
Proof. vm_compute. repeat split. Qed.

(* ---------- shape of the source ---------- *)
From Coq Require Import String.
Open Scope string_scope.
(* The shape of the 38 functions the models were read from - every control-flow test,
   assignment, return / raise and non-logging call, in order, as canonical text
   (tools/translate/c08_shape.py), regenerated from the current source on every run -
   is the recorded reading Model/L2capShape.v.  So: the mod-64 arithmetic of
   _get_next_tx_seq / on_pdu / _update_ack_seq, the window subtraction and the two guards
   of _process_output, the SAR selection tests of send_sdu, the place where
   _update_ack_seq is called, the RR emission test, the P/F handling, the control-field
   shifts and masks, the span of the FCS, the states each configuration handler moves to
   and the options it sends are what the models say they are.  A failure names the function,
   the line index and both texts. *)
Theorem C08_shape_matches_source : src_shape = model_shape.
Proof. apply shape_diff_sound. vm_compute. reflexivity. Qed.
Print Assumptions C08_shape_matches_source.
