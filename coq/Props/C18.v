(* Property C18: every protocol data unit above HCI round-trips through its codec.
   Statements only, each closed by [exact].  "value -> bytes -> value" theorems quantify over
   every in-range value (boolean *_ok predicates, satisfiable: see the Examples) and every
   trailing data; "bytes -> value -> bytes" theorems over every octet string the parser accepts
   and that is in canonical form (boolean *_canonical / *_exact predicates spelled out in the
   models).  The *_refuted lemmas are the defects D18a-e: the code before each fix patch does
   not satisfy the statement. *)
From Coq Require Import ZArith List Bool.
From Coq Require String.
From BV Require Import Base.Bytes Model.CodecsBase Gen.C18Tables.
From BV Require Import Model.CodecsL2cap Model.CodecsRfcomm Model.CodecsSdp Model.CodecsUuid Model.CodecsAv.
From BV Require Import Proofs.CodecsL2cap Proofs.CodecsRfcomm Proofs.CodecsSdp Proofs.CodecsUuid Proofs.CodecsAv.
From BV Require Import Model.SpecCodec Model.CodecsRegistry Proofs.CodecsRegistry Gen.C18Registry.
From BV Require Import Model.CodecsXfields Proofs.CodecsXfields Gen.C18XRegistry Gen.C18AvrcpRegistry.
From BV Require Import Model.CodecsShapes Proofs.CodecsShapes Gen.C18Shapes.
From BV Require Import Model.CodecsA2dp Proofs.CodecsA2dp.
From BV Require Import Model.CodecsFieldSrc Proofs.CodecsFieldSrc Gen.C18FieldSrc.
From BV Require Import Model.CodecsSdpState Proofs.CodecsSdpState.
Import ListNotations.
Open Scope Z_scope.

(* ------------------------------------------------------------------ L2CAP *)
(* ERTM enhanced control fields (I-frame and S-frame), all field values *)
Theorem C18_ertm_value_roundtrip : forall c tail,
  ecf_ok c = true -> ecf_parse (ecf_bytes c ++ tail) = Some c.
Proof. exact ecf_value_roundtrip. Qed.
Print Assumptions C18_ertm_value_roundtrip.

Theorem C18_ertm_bytes_roundtrip : forall b0 b1 tail c,
  byte_ok b0 = true -> byte_ok b1 = true -> ecf_parse (b0 :: b1 :: tail) = Some c ->
  ecf_ok c = true /\ (ecf_reserved_zero b0 b1 = true -> ecf_bytes c = [b0; b1]).
Proof. exact ecf_bytes_roundtrip. Qed.
Print Assumptions C18_ertm_bytes_roundtrip.

Theorem C18_ertm_short_input_rejected : forall d, (length d < 2)%nat -> ecf_parse d = None.
Proof. exact ecf_short. Qed.
Print Assumptions C18_ertm_short_input_rejected.

(* D18a *)
Theorem C18_ertm_poll_shift_refuted :
  exists f, sframe_ok f = true /\ ecf_parse (sframe_bytes_unfixed f) <> Some (SFrame f).
Proof. exact sframe_unfixed_refuted. Qed.
Print Assumptions C18_ertm_poll_shift_refuted.

Theorem C18_l2cap_pdu_value_roundtrip : forall cid payload b tail,
  pdu_bytes cid payload = Some b -> pdu_parse (b ++ tail) = Some (cid, payload).
Proof. exact pdu_value_roundtrip. Qed.
Print Assumptions C18_l2cap_pdu_value_roundtrip.

Theorem C18_l2cap_pdu_bytes_roundtrip : forall d cid payload,
  bytes_ok d = true -> pdu_parse d = Some (cid, payload) ->
  lenZ d = 4 + le_decode (firstn 2 d) -> pdu_bytes cid payload = Some d.
Proof. exact pdu_bytes_roundtrip. Qed.
Print Assumptions C18_l2cap_pdu_bytes_roundtrip.

Theorem C18_signalling_header_value_roundtrip : forall code ident payload b,
  sig_bytes code ident payload = Some b -> sig_parse b = Some (code, ident, lenZ payload, payload).
Proof. exact sig_value_roundtrip. Qed.
Print Assumptions C18_signalling_header_value_roundtrip.

Theorem C18_signalling_header_bytes_roundtrip : forall d code ident len payload,
  bytes_ok d = true -> sig_parse d = Some (code, ident, len, payload) ->
  len = lenZ payload -> sig_bytes code ident payload = Some d.
Proof. exact sig_bytes_roundtrip. Qed.
Print Assumptions C18_signalling_header_bytes_roundtrip.

(* PSM variable-length encoding, every PSM of any number of octets *)
Theorem C18_psm_value_roundtrip : forall v tail,
  psm_ok v = true -> psm_parse (psm_bytes v ++ tail) = Some (v, tail).
Proof. exact psm_value_roundtrip. Qed.
Print Assumptions C18_psm_value_roundtrip.

Theorem C18_psm_bytes_roundtrip : forall d v rest,
  bytes_ok d = true -> psm_parse d = Some (v, rest) ->
  exists enc, d = enc ++ rest /\ psm_octets_ok (tl enc) = true /\ 0 <= v /\
              (psm_canonical enc = true -> psm_bytes v = enc).
Proof. exact psm_bytes_roundtrip. Qed.
Print Assumptions C18_psm_bytes_roundtrip.

(* configuration options (lenient loop) and AVDTP service capabilities (strict loop) *)
Theorem C18_tlv_value_roundtrip : forall opts strict b,
  tlv_ok opts = true -> tlv_encode opts = Some b -> tlv_decode_all strict b = Some opts.
Proof. exact tlv_value_roundtrip. Qed.
Print Assumptions C18_tlv_value_roundtrip.

Theorem C18_tlv_ok_encodes : forall opts, tlv_ok opts = true -> exists b, tlv_encode opts = Some b.
Proof. exact tlv_ok_encodes. Qed.
Print Assumptions C18_tlv_ok_encodes.

Theorem C18_tlv_bytes_roundtrip : forall strict d opts,
  bytes_ok d = true -> tlv_exact_all d = true ->
  tlv_decode_all strict d = Some opts -> tlv_encode opts = Some d /\ tlv_ok opts = true.
Proof. exact tlv_bytes_roundtrip. Qed.
Print Assumptions C18_tlv_bytes_roundtrip.

Theorem C18_options_decode_total : forall d, tlv_decode_all false d <> None.
Proof. exact tlv_decode_all_total. Qed.
Print Assumptions C18_options_decode_total.

(* ------------------------------------------------------------------ RFCOMM *)
(* per-run obligation on the regenerated table: CRC_TABLE is the bitwise CRC-8 *)
Theorem C18_rfcomm_crc_table : crc_table_ok = true.
Proof. exact crc_table_checked. Qed.
Print Assumptions C18_rfcomm_crc_table.

Theorem C18_rfcomm_fcs_is_crc8 : forall buf, bytes_ok buf = true -> compute_fcs buf = fcs_spec buf.
Proof. exact compute_fcs_is_crc8. Qed.
Print Assumptions C18_rfcomm_fcs_is_crc8.

(* every frame type, DLCI, C/R, P/F, payload length 0..32767 (1- and 2-octet length
   indicator), with and without the credits octet *)
Theorem C18_rfcomm_frame_value_roundtrip : forall f,
  frame_ok f = true -> frame_parse (frame_bytes f) = Some f.
Proof. exact frame_value_roundtrip. Qed.
Print Assumptions C18_rfcomm_frame_value_roundtrip.

Theorem C18_rfcomm_frame_bytes_roundtrip : forall d f,
  bytes_ok d = true -> frame_parse d = Some f -> frame_canonical d = true ->
  frame_bytes f = d /\ frame_ok f = true.
Proof. exact frame_bytes_roundtrip. Qed.
Print Assumptions C18_rfcomm_frame_bytes_roundtrip.

Theorem C18_rfcomm_frame_bytes_canonical : forall f,
  frame_ok f = true -> frame_canonical (frame_bytes f) = true /\ bytes_ok (frame_bytes f) = true.
Proof. exact frame_bytes_canonical_ok. Qed.
Print Assumptions C18_rfcomm_frame_bytes_canonical.

(* D18b *)
Theorem C18_rfcomm_credits_refuted :
  exists f, frame_ok f = true /\ frame_reserialize_unfixed f <> frame_bytes f.
Proof. exact frame_unfixed_refuted. Qed.
Print Assumptions C18_rfcomm_credits_refuted.

Theorem C18_rfcomm_mcc_value_roundtrip : forall t cr v,
  mcc_ok t cr v = true -> mcc_parse (mcc_bytes t cr v) = Some (t, negb (cr =? 0), v).
Proof. exact mcc_value_roundtrip. Qed.
Print Assumptions C18_rfcomm_mcc_value_roundtrip.

Theorem C18_rfcomm_mcc_bytes_roundtrip : forall d t cr v,
  bytes_ok d = true -> mcc_parse d = Some (t, cr, v) -> mcc_canonical d = true ->
  mcc_bytes t (bool_z cr) v = d /\ mcc_ok t (bool_z cr) v = true.
Proof. exact mcc_bytes_roundtrip. Qed.
Print Assumptions C18_rfcomm_mcc_bytes_roundtrip.

(* D18c *)
Theorem C18_rfcomm_mcc_length_refuted :
  exists t cr v, mcc_ok t cr v = true /\ mcc_parse_unfixed (mcc_bytes t cr v) <> Some (t, negb (cr =? 0), v).
Proof. exact mcc_unfixed_refuted. Qed.
Print Assumptions C18_rfcomm_mcc_length_refuted.

Theorem C18_rfcomm_pn_value_roundtrip : forall p tail,
  pn_ok p = true -> pn_parse (pn_bytes p ++ tail) = Some p.
Proof. exact pn_value_roundtrip. Qed.
Print Assumptions C18_rfcomm_pn_value_roundtrip.

Theorem C18_rfcomm_pn_bytes_roundtrip : forall d p, bytes_ok d = true -> length d = 8%nat ->
  pn_parse d = Some p -> pn_ok p = true /\ (nth 7 d 0 < 8 -> pn_bytes p = d).
Proof. exact pn_bytes_roundtrip. Qed.
Print Assumptions C18_rfcomm_pn_bytes_roundtrip.

Theorem C18_rfcomm_msc_value_roundtrip : forall p tail,
  msc_ok p = true -> msc_parse (msc_bytes p ++ tail) = Some p.
Proof. exact msc_value_roundtrip. Qed.
Print Assumptions C18_rfcomm_msc_value_roundtrip.

Theorem C18_rfcomm_msc_bytes_roundtrip : forall d0 d1 tail p,
  byte_ok d0 = true -> byte_ok d1 = true -> msc_parse (d0 :: d1 :: tail) = Some p ->
  msc_ok p = true /\ (msc_canonical d0 d1 = true -> msc_bytes p = [d0; d1]).
Proof. exact msc_bytes_roundtrip. Qed.
Print Assumptions C18_rfcomm_msc_bytes_roundtrip.

(* ------------------------------------------------------------------ SDP data elements *)
(* per-run obligation: the element type codes the model hard-wires are the code's *)
Theorem C18_sdp_type_codes : sdp_type_codes = [0; 1; 2; 3; 4; 5; 6; 7; 8].
Proof. exact sdp_type_codes_checked. Qed.
Print Assumptions C18_sdp_type_codes.

(* every element of every type, every size form (8/16/32-bit lengths: all lengths, in
   particular 255/256/65535/65536), any nesting up to the parser's limit, any trailing data *)
Theorem C18_sdp_value_roundtrip : forall e fuel depth tail b,
  encode e = Some b -> elem_bytes_ok e = true -> (elem_depth e <= depth)%nat ->
  (length (b ++ tail) < fuel)%nat ->
  parse_next fuel depth (b ++ tail) = POk e (lenZ b) b true.
Proof. exact encode_parse. Qed.
Print Assumptions C18_sdp_value_roundtrip.

Theorem C18_sdp_from_bytes_roundtrip : forall e b,
  elem_ok sdp_max_nesting e = true -> encode e = Some b ->
  from_bytes sdp_max_nesting b = POk e (lenZ b) b true.
Proof. exact (sdp_value_roundtrip sdp_max_nesting). Qed.
Print Assumptions C18_sdp_from_bytes_roundtrip.

(* a parse that met only canonical encodings re-serialises (without the _bytes cache) to
   exactly the octets consumed *)
Theorem C18_sdp_bytes_roundtrip : forall fuel depth d e c raw,
  bytes_ok d = true -> parse_next fuel depth d = POk e c raw true ->
  encode e = Some raw /\ c = lenZ raw /\ raw = firstn (Z.to_nat c) d /\ c <= lenZ d /\
  elem_bytes_ok e = true /\ (elem_depth e <= depth)%nat.
Proof. exact parse_encode. Qed.
Print Assumptions C18_sdp_bytes_roundtrip.

(* with the cache, bytes(parsed) is the consumed slice whatever the encoding *)
Theorem C18_sdp_cached_bytes : forall fuel depth d e c raw cn,
  parse_next fuel depth d = POk e c raw cn -> raw = firstn (Z.to_nat c) d.
Proof. exact parse_cache. Qed.
Print Assumptions C18_sdp_cached_bytes.

Theorem C18_sdp_fuel_sufficient : forall max_depth d, from_bytes max_depth d <> PFuel.
Proof. exact from_bytes_never_out_of_fuel. Qed.
Print Assumptions C18_sdp_fuel_sufficient.

(* a child element that ends beyond its SEQUENCE / ALTERNATIVE is rejected (code after D17b) *)
Theorem C18_sdp_container_overrun_rejected : forall pn dep k' d budget e c raw cn,
  0 < budget -> parse_next pn dep d = POk e c raw cn -> budget < c ->
  parse_list pn dep (S k') d budget = LErr.
Proof. exact parse_list_overrun_rejected. Qed.
Print Assumptions C18_sdp_container_overrun_rejected.

(* the nesting hypothesis is needed: deeper values serialise but are rejected on parse *)
Theorem C18_sdp_nesting_limit_refuted : exists e b, encode e = Some b /\ from_bytes 1 b = PErr.
Proof. exact sdp_depth_refuted. Qed.
Print Assumptions C18_sdp_nesting_limit_refuted.

(* the parser with its nesting counter as state (self.depth += 1 ... self.depth -= 1), as the code has it *)
(* the counter after parsing one element equals the counter before, for all inputs *)
Theorem C18_sdp_depth_counter_restored : forall fuel maxd depth d e c raw cn dep',
  (depth <= maxd)%nat -> sparse_next false fuel maxd depth d = SOk e c raw cn dep' -> dep' = depth.
Proof. exact depth_restored. Qed.
Print Assumptions C18_sdp_depth_counter_restored.

(* and that parser is exactly the functional one the round-trip theorems are about *)
Theorem C18_sdp_stateful_parser_refines : forall fuel maxd depth d, (depth <= maxd)%nat ->
  sparse_next false fuel maxd depth d = inject (parse_next fuel (maxd - depth) d) depth.
Proof. exact sparse_refines_parse. Qed.
Print Assumptions C18_sdp_stateful_parser_refines.

(* a serialised element parses back iff its REAL nesting is within the limit, whatever its breadth
   (elem_depth is a maximum over children: any number of empty or shallow containers costs nothing) *)
Theorem C18_sdp_nesting_exact : forall e b tail fuel depth,
  encode e = Some b -> elem_bytes_ok e = true -> (length (b ++ tail) < fuel)%nat ->
  ((elem_depth e <= depth)%nat -> parse_next fuel depth (b ++ tail) = POk e (lenZ b) b true) /\
  ((depth < elem_depth e)%nat -> parse_next fuel depth (b ++ tail) = PErr).
Proof. exact sdp_nesting_exact. Qed.
Print Assumptions C18_sdp_nesting_exact.

Theorem C18_sdp_stateful_nesting_exact : forall maxd e b,
  encode e = Some b -> elem_bytes_ok e = true ->
  ((elem_depth e <= maxd)%nat -> sfrom_bytes false maxd b = SOk e (lenZ b) b true 0) /\
  ((maxd < elem_depth e)%nat -> sfrom_bytes false maxd b = SErr).
Proof. exact sdp_stateful_nesting_exact. Qed.
Print Assumptions C18_sdp_stateful_nesting_exact.

(* an exit path that skips the decrement (early return for an empty container) is refuted *)
Theorem C18_sdp_depth_leak_refuted :
  let e := ESeq (repeat (ESeq []) 33) in
  exists b, encode e = Some b /\ elem_depth e = 2%nat /\
            erase (sfrom_bytes false 32 b) = POk e (lenZ b) b true /\ sfrom_bytes true 32 b = SErr.
Proof. exact leak_refuted. Qed.
Print Assumptions C18_sdp_depth_leak_refuted.

(* ------------------------------------------------------------------ UUID and Address *)
(* whatever was registered, parsed or constructed before (any registry state, hence any
   history), from_bytes returns a UUID with exactly the bytes it was given *)
Theorem C18_uuid_any_registry : forall reg b,
  uuid_len_ok b = true ->
  exists reg', uuid_from_bytes reg b = Some (reg', b) /\ In b reg' /\ (forall x, In x reg -> In x reg').
Proof. exact uuid_from_bytes_any_registry. Qed.
Print Assumptions C18_uuid_any_registry.

Theorem C18_uuid_roundtrip_any_history : forall h b,
  uuid_len_ok b = true -> exists reg', uuid_from_bytes (uuid_run [] h) b = Some (reg', b).
Proof. exact uuid_roundtrip_any_history. Qed.
Print Assumptions C18_uuid_roundtrip_any_history.

(* D18d *)
Theorem C18_uuid_registry_width_refuted :
  exists h b r reg', uuid_len_ok b = true /\
    uuid_from_bytes_unfixed (uuid_run_unfixed [] h) b = Some (reg', r) /\ r <> b.
Proof. exact uuid_unfixed_refuted. Qed.
Print Assumptions C18_uuid_registry_width_refuted.

Theorem C18_uuid_bad_length_rejected : forall reg b, uuid_len_ok b = false -> uuid_from_bytes reg b = None.
Proof. exact uuid_from_bytes_bad_length. Qed.
Print Assumptions C18_uuid_bad_length_rejected.

(* ATT form: 32-bit UUIDs travel as 128-bit and compare equal *)
Theorem C18_uuid_pdu_roundtrip : forall u,
  uuid_len_ok u = true ->
  uuid_len_ok (uuid_to_pdu_bytes u) = true /\ uuid_eq (uuid_to_pdu_bytes u) u = true.
Proof. exact uuid_pdu_roundtrip. Qed.
Print Assumptions C18_uuid_pdu_roundtrip.

Theorem C18_address_value_roundtrip : forall a t tail,
  addr_ok a = true -> addr_parse t (addr_bytes a ++ tail) = Some ((fst a, t), tail).
Proof. exact addr_value_roundtrip. Qed.
Print Assumptions C18_address_value_roundtrip.

Theorem C18_address_bytes_roundtrip : forall t d a rest,
  addr_parse t d = Some (a, rest) -> addr_bytes a ++ rest = d /\ length (addr_bytes a) = 6%nat /\ snd a = t.
Proof. exact addr_bytes_roundtrip. Qed.
Print Assumptions C18_address_bytes_roundtrip.

Theorem C18_address_string_roundtrip : forall a t,
  addr_ok a = true -> is_public t = false ->
  exists a', addr_from_string (addr_to_string a) t = Some a' /\
             fst a' = fst a /\ is_public (snd a') = is_public (snd a).
Proof. exact addr_string_roundtrip. Qed.
Print Assumptions C18_address_string_roundtrip.

(* ------------------------------------------------------------------ advertising data *)
Theorem C18_advertising_value_roundtrip : forall items b,
  ad_ok items = true -> ad_bytes items = Some b -> ad_parse_all b = Some items.
Proof. exact ad_value_roundtrip. Qed.
Print Assumptions C18_advertising_value_roundtrip.

Theorem C18_advertising_ok_encodes : forall items, ad_ok items = true -> exists b, ad_bytes items = Some b.
Proof. exact ad_ok_encodes. Qed.
Print Assumptions C18_advertising_ok_encodes.

Theorem C18_advertising_bytes_roundtrip : forall d items,
  bytes_ok d = true -> ad_exact_all d = true -> ad_parse_all d = Some items ->
  ad_bytes items = Some d /\ ad_ok items = true.
Proof. exact ad_bytes_roundtrip. Qed.
Print Assumptions C18_advertising_bytes_roundtrip.

Theorem C18_advertising_parse_total : forall d, ad_parse_all d <> None.
Proof. exact ad_parse_all_total. Qed.
Print Assumptions C18_advertising_parse_total.

(* ------------------------------------------------------------------ AVDTP / AVCTP / RTP *)
Theorem C18_avdtp_single_header_roundtrip : forall tl mt sig payload,
  avdtp_hdr_ok tl mt sig = true ->
  avdtp_header_parse (avdtp_single_bytes tl mt sig payload) = Some ([tl; 0; mt; sig], payload).
Proof. exact avdtp_single_roundtrip. Qed.
Print Assumptions C18_avdtp_single_header_roundtrip.

Theorem C18_avdtp_start_header_roundtrip : forall tl mt sig count frag,
  avdtp_hdr_ok tl mt sig = true ->
  avdtp_header_parse (avdtp_start_bytes tl mt sig count frag) = Some ([tl; 1; mt; sig; count], frag).
Proof. exact avdtp_start_roundtrip. Qed.
Print Assumptions C18_avdtp_start_header_roundtrip.

Theorem C18_avdtp_single_header_bytes_roundtrip : forall b0 b1 p tl pt mt sig payload,
  byte_ok b0 = true -> byte_ok b1 = true ->
  avdtp_header_parse (b0 :: b1 :: p) = Some ([tl; pt; mt; sig], payload) -> b1 < 64 ->
  avdtp_single_bytes tl mt sig payload = b0 :: b1 :: p /\ avdtp_hdr_ok tl mt sig = true.
Proof. exact avdtp_single_bytes_roundtrip. Qed.
Print Assumptions C18_avdtp_single_header_bytes_roundtrip.

Theorem C18_avdtp_endpoint_value_roundtrip : forall p tail,
  epi_ok p = true -> epi_parse (epi_bytes p ++ tail) = Some p.
Proof. exact epi_value_roundtrip. Qed.
Print Assumptions C18_avdtp_endpoint_value_roundtrip.

Theorem C18_avdtp_endpoint_bytes_roundtrip : forall b0 b1 tail p,
  byte_ok b0 = true -> byte_ok b1 = true -> epi_parse (b0 :: b1 :: tail) = Some p ->
  epi_ok p = true /\ (epi_canonical b0 b1 = true -> epi_bytes p = [b0; b1]).
Proof. exact epi_bytes_roundtrip. Qed.
Print Assumptions C18_avdtp_endpoint_bytes_roundtrip.

Theorem C18_avctp_header_roundtrip : forall tl is_command ipid pid payload b,
  0 <= tl < 16 -> (is_command && ipid) = false ->
  avctp_bytes tl is_command ipid pid payload = Some b ->
  avctp_parse b = Some (Some (tl, is_command, ipid, pid, payload)).
Proof. exact avctp_value_roundtrip. Qed.
Print Assumptions C18_avctp_header_roundtrip.

Theorem C18_avctp_ipid_in_command_dropped : forall tl pid payload b,
  0 <= tl < 16 -> avctp_bytes tl true true pid payload = Some b -> avctp_parse b = Some None.
Proof. exact avctp_ipid_command_dropped. Qed.
Print Assumptions C18_avctp_ipid_in_command_dropped.

Theorem C18_rtp_value_roundtrip : forall p, rtp_ok p = true -> rtp_parse (rtp_bytes p) = Some p.
Proof. exact rtp_value_roundtrip. Qed.
Print Assumptions C18_rtp_value_roundtrip.

Theorem C18_rtp_bytes_roundtrip : forall d p,
  bytes_ok d = true -> rtp_parse d = Some p -> rtp_bytes p = d /\ rtp_ok p = true.
Proof. exact rtp_bytes_roundtrip. Qed.
Print Assumptions C18_rtp_bytes_roundtrip.

(* D18e *)
Theorem C18_rtp_csrc_offset_refuted :
  exists ws, forallb (u_range 4) ws = true /\
    rtp_words_unfixed (length ws) 0 (flat_map (be_encode 4) ws) <> Some ws.
Proof. exact rtp_unfixed_refuted. Qed.
Print Assumptions C18_rtp_csrc_offset_refuted.

(* ------------------------------------------------------------------ A2DP codec information *)
Theorem C18_a2dp_sbc_value_roundtrip : forall p tail,
  sbc_ok p = true -> sbc_parse (sbc_bytes p ++ tail) = Some p /\ bytes_ok (sbc_bytes p) = true.
Proof. exact sbc_value_roundtrip. Qed.
Print Assumptions C18_a2dp_sbc_value_roundtrip.

(* SBC has no reserved bits: every four octets re-serialise identically *)
Theorem C18_a2dp_sbc_bytes_roundtrip : forall d0 d1 d2 d3 tail p,
  bytes_ok [d0; d1; d2; d3] = true -> sbc_parse (d0 :: d1 :: d2 :: d3 :: tail) = Some p ->
  sbc_bytes p = [d0; d1; d2; d3] /\ sbc_ok p = true.
Proof. exact sbc_bytes_roundtrip. Qed.
Print Assumptions C18_a2dp_sbc_bytes_roundtrip.

Theorem C18_a2dp_aac_value_roundtrip : forall p tail,
  aac_ok p = true -> aac_parse (aac_bytes p ++ tail) = Some p /\ bytes_ok (aac_bytes p) = true.
Proof. exact aac_value_roundtrip. Qed.
Print Assumptions C18_a2dp_aac_value_roundtrip.

(* ------------------------------------------------------------------ field-driven PDU classes *)
(* Per-run obligations on the regenerated registry (Gen/C18Registry.v: every class of
   L2CAP_Control_Frame.classes, ATT_PDU.pdu_classes, SMP_Command.smp_classes, SDP_PDU.subclasses
   whose fields are all in the generic field codec's vocabulary): field lists well formed
   ('*' only last, widths the codec has cases for), no (protocol, code) registered twice, and
   translated + untranslated = everything registered. *)
Theorem C18_registry_wf : wf_pregistry C18Registry.classes = true.
Proof. exact registry_checked. Qed.
Print Assumptions C18_registry_wf.

Theorem C18_registry_keys_unique : pkeys_unique C18Registry.classes = true.
Proof. exact registry_keys_checked. Qed.
Print Assumptions C18_registry_keys_unique.

Theorem C18_registry_complete :
  (Datatypes.length C18Registry.classes + Datatypes.length C18Registry.untranslated)%nat = C18Registry.registered_total.
Proof. exact registry_count_checked. Qed.
Print Assumptions C18_registry_complete.

(* every translated class, every in-range value list: fields -> bytes -> fields *)
Theorem C18_registry_fields_roundtrip : forall c, In c C18Registry.classes ->
  forall prev0 vs, in_range (p_fields c) prev0 vs = true ->
  exists b n, serialize_fields (p_fields c) vs = Some b /\
              parse_fields (p_fields c) prev0 b = Some (vs, n) /\ (n <= Datatypes.length b)%nat.
Proof. exact gen_fields_roundtrip. Qed.
Print Assumptions C18_registry_fields_roundtrip.

(* bytes -> fields -> bytes: what the parser consumed is reproduced exactly *)
Theorem C18_registry_bytes_roundtrip : forall c, In c C18Registry.classes ->
  forall prev0 bs vs n, bytes_ok bs = true ->
  parse_fields (p_fields c) prev0 bs = Some (vs, n) -> (n <= Datatypes.length bs)%nat ->
  exists pad, serialize_fields (p_fields c) vs = Some (firstn n bs ++ pad) /\
              (tight_fields (p_fields c) = true -> pad = []).
Proof. exact gen_bytes_roundtrip. Qed.
Print Assumptions C18_registry_bytes_roundtrip.

(* whole PDU: header + fields -> bytes -> the same class, identifier and fields *)
Theorem C18_registry_pdu_roundtrip : forall c, In c C18Registry.classes -> forall ident vs b,
  (forall prev0, in_range (p_fields c) prev0 vs = true) ->
  pdu_encode c ident vs = Some b ->
  pdu_decode C18Registry.classes (p_proto c) b =
  Some (c, (if (p_proto c =? 0) || (p_proto c =? 3) then ident else 0), vs).
Proof. exact gen_pdu_roundtrip. Qed.
Print Assumptions C18_registry_pdu_roundtrip.

(* ------------------------------------------------------------------ every field-driven class, custom fields included *)
(* Gen/C18XRegistry.v (regenerated every run): EVERY class of L2CAP_Control_Frame.classes,
   ATT_PDU.pdu_classes, SMP_Command.smp_classes, SDP_PDU.subclasses and avdtp.Message.subclasses,
   with the custom field parsers (PSM, CID / handle lists, length-value tuples, SDP handle lists,
   length-prefixed bytes, UUIDs, SDP data elements, SEIDs, endpoints, service capabilities) as specs
   of Model/CodecsXfields.v.  Per-run obligations, then the round trip for every class and every
   in-range value list, through C01's sequence combinator. *)
Theorem C18_xregistry_wf : wf_xregistry C18XRegistry.xclasses = true.
Proof. exact xregistry_checked. Qed.
Print Assumptions C18_xregistry_wf.

Theorem C18_xregistry_keys_unique : xkeys_unique C18XRegistry.xclasses = true.
Proof. exact xregistry_keys_checked. Qed.
Print Assumptions C18_xregistry_keys_unique.

Theorem C18_xregistry_complete :
  map (fun pc => xcount C18XRegistry.xclasses (fst pc)) C18XRegistry.xregistered = map snd C18XRegistry.xregistered.
Proof. exact xregistry_counts_checked. Qed.
Print Assumptions C18_xregistry_complete.

Theorem C18_xregistry_fields_roundtrip : forall c, In c C18XRegistry.xclasses ->
  forall prev0 vs, xin_range (x_fields c) prev0 vs = true ->
  exists b n, xserialize (x_fields c) vs = Some b /\
              xparse (x_fields c) prev0 b = Some (vs, n) /\ (n <= length b)%nat.
Proof. exact gen_xfields_roundtrip. Qed.
Print Assumptions C18_xregistry_fields_roundtrip.

(* ATT Read Multiple Variable Response: (Length, Value) tuples carry their own Length; the last value
   may be shorter than its Length (truncated to fit ATT_MTU).  Both directions, all tuple lists. *)
Theorem C18_att_length_value_tuples_value_roundtrip : forall vs, lv_inr vs = true ->
  exists b, lv_ser vs = Some b /\ lv_parse (S (length b)) b = Some vs.
Proof. exact lv_value_roundtrip. Qed.
Print Assumptions C18_att_length_value_tuples_value_roundtrip.

Theorem C18_att_length_value_tuples_bytes_roundtrip : forall b vs,
  bytes_ok b = true -> lv_parse (S (length b)) b = Some vs -> lv_ser vs = Some b /\ lv_inr vs = true.
Proof. exact lv_bytes_roundtrip. Qed.
Print Assumptions C18_att_length_value_tuples_bytes_roundtrip.

(* a serializer that derives Length from the value does not satisfy the statement *)
Theorem C18_att_length_value_tuples_derived_length_refuted :
  exists vs, lv_inr vs = true /\ lv_ser_derived vs <> lv_ser vs.
Proof. exact lv_derived_refuted. Qed.
Print Assumptions C18_att_length_value_tuples_derived_length_refuted.

(* the codec itself, every field list: self-delimiting lists with any trailing bytes, and any
   well-formed list ('*'-like fields last) *)
Theorem C18_xfields_roundtrip_tight : forall fs prev0 vs,
  tight XTop_codec fs = true -> xin_range fs prev0 vs = true ->
  exists b, xserialize fs vs = Some b /\ forall tail, xparse fs prev0 (b ++ tail) = Some (vs, length b).
Proof. exact xfields_roundtrip_tight. Qed.
Print Assumptions C18_xfields_roundtrip_tight.

Theorem C18_xfields_roundtrip : forall fs prev0 vs,
  xwf fs = true -> xin_range fs prev0 vs = true ->
  exists b n, xserialize fs vs = Some b /\ xparse fs prev0 b = Some (vs, n) /\ (n <= length b)%nat.
Proof. exact xfields_roundtrip. Qed.
Print Assumptions C18_xfields_roundtrip.

(* Per-run obligation: the source text of every custom field parser / serializer (lambdas and the
   named functions they call) of the six PDU registries is the text the field-codec models were
   written from (Model/CodecsFieldSrc.v).  A lambda replaced by a method, or a method body changed,
   breaks this whether or not a generated input notices. *)
Theorem C18_field_codecs_match_source : field_codec_sources_src = field_codec_sources.
Proof. exact field_codec_sources_checked. Qed.
Print Assumptions C18_field_codecs_match_source.

(* Parse is a function of the bytes: every parser entry point of the scope (from_bytes / parse_* /
   create, the reassemblers, AdvertisingData.append, UUID.register - 59 definitions) carries exactly
   the decorators and reads exactly the class- or module-level mutable containers recorded in
   Model/CodecsFieldSrc.v when the models were written; none is memoised (no functools.lru_cache /
   cache / cached_property, no decorator other than classmethod / staticmethod), and the only state
   read is the class dispatch tables and the UUID registry, which are modelled.  The history oracle
   of the harness (parse, mutate the result, parse again) is the run-time side of the same fact. *)
Theorem C18_parser_entry_points_match_source : parser_entry_facts_src = parser_entry_facts.
Proof. exact parser_entry_facts_checked. Qed.
Print Assumptions C18_parser_entry_points_match_source.
Theorem C18_parsers_not_memoised : parsers_plain parser_entry_facts_src = true.
Proof. exact parsers_plain_checked. Qed.
Print Assumptions C18_parsers_not_memoised.

(* ------------------------------------------------------------------ AVRCP PDUs *)
(* Gen/C18AvrcpRegistry.v (regenerated every run): the classes of avrcp.Command / Response /
   Event .subclasses whose fields are integers, big-endian enums, length-prefixed UTF-8 strings,
   64-bit identifiers and array groups of those (46 of 53 today; the others are listed with the
   reason in avrcp_untranslated and stay covered by the oracle). *)
Theorem C18_avrcp_registry_wf : wf_xfregistry C18AvrcpRegistry.avrcp_classes = true.
Proof. exact avrcp_registry_checked. Qed.
Print Assumptions C18_avrcp_registry_wf.

Theorem C18_avrcp_registry_keys_unique : xfkeys_unique C18AvrcpRegistry.avrcp_classes = true.
Proof. exact avrcp_keys_checked. Qed.
Print Assumptions C18_avrcp_registry_keys_unique.

Theorem C18_avrcp_registry_complete :
  (length C18AvrcpRegistry.avrcp_classes + length C18AvrcpRegistry.avrcp_untranslated)%nat = C18AvrcpRegistry.avrcp_registered_total.
Proof. exact avrcp_count_checked. Qed.
Print Assumptions C18_avrcp_registry_complete.

Theorem C18_avrcp_fields_roundtrip : forall c, In c C18AvrcpRegistry.avrcp_classes ->
  forall prev0 vs, xfin_range (xf_fields c) prev0 vs = true ->
  exists b n, xfserialize (xf_fields c) vs = Some b /\
              xfparse (xf_fields c) prev0 b = Some (vs, n) /\ (n <= length b)%nat.
Proof. exact gen_avrcp_roundtrip. Qed.
Print Assumptions C18_avrcp_fields_roundtrip.

(* ------------------------------------------------------------------ the models' bit layouts are the source's *)
(* Per-run obligation: the layouts (shifts, masks, octet indices, operand order, the RFCOMM length
   threshold and its two forms, the RTP CSRC base and stride) extracted from the source AST of
   InformationEnhancedControlField / SupervisoryEnhancedControlField, RFCOMM_Frame.__init__ /
   from_bytes, RFCOMM_MCC_PN / MSC, EndPointInfo, avdtp MessageAssembler.on_pdu / Protocol.send_message,
   avctp MessageAssembler.on_pdu and rtp MediaPacket.from_bytes by tools/translate/c18_shapes.py are
   the layouts recorded in Model/CodecsShapes.v ... *)
Theorem C18_layouts_match_source :
  ertm_i_parse_src = ertm_i_parse_layout /\ ertm_i_ser_src = ertm_i_ser_layout /\ ertm_s_parse_src = ertm_s_parse_layout /\
  ertm_s_ser_src = ertm_s_ser_layout /\ msc_parse_src = msc_parse_layout /\ msc_ser_src = msc_ser_layout /\
  pn_parse_src = pn_parse_layout /\ pn_ser_src = pn_ser_layout /\ rfcomm_header_parse_src = rfcomm_header_parse_layout /\
  rfcomm_header_ser_src = rfcomm_header_ser_layout /\ rfcomm_length_threshold_src = rfcomm_length_threshold_layout /\
  rfcomm_length2_src = rfcomm_length2_layout /\ rfcomm_length1_src = rfcomm_length1_layout /\
  epi_parse_src = epi_parse_layout /\ epi_ser_src = epi_ser_layout /\ avdtp_b0_parse_src = avdtp_b0_parse_layout /\
  avdtp_b0_ser_src = avdtp_b0_ser_layout /\ avctp_b0_parse_src = avctp_b0_parse_layout /\
  rtp_header_parse_src = rtp_header_parse_layout /\ rtp_csrc_base_src = rtp_csrc_base_layout /\ rtp_csrc_stride_src = rtp_csrc_stride_layout /\
  sdp_fixed_index_src = sdp_fixed_index_layout /\ sdp_var_index_src = sdp_var_index_layout /\
  sdp_parse_fixed_src = sdp_parse_fixed_layout /\ sdp_parse_var_src = sdp_parse_var_layout /\
  sbc_parse_src = sbc_parse_layout /\ sbc_ser_src = sbc_ser_layout /\ aac_parse_src = aac_parse_layout /\
  aac_ser_src = aac_ser_layout /\ aac_ser_src_outer = aac_ser_outer_layout /\
  sdp_list_exits_src = sdp_list_exits_layout /\ exits_restore_depth sdp_list_exits_src = true.
Proof. exact shapes_equal_checked. Qed.
Print Assumptions C18_layouts_match_source.

(* ... and the model functions are, for all inputs, the interpreter of those layouts *)
Theorem C18_models_are_their_layouts : models_are_layouts_stmt.
Proof. exact models_are_layouts. Qed.
Print Assumptions C18_models_are_their_layouts.

Theorem C18_sdp_model_is_its_tables :
  (forall n, fixed_index n = fixed_index_tab sdp_fixed_index_layout n) /\
  (forall ty d, var_header ty d =
     match var_index_tab sdp_var_index_layout (lenZ d) with
     | Some (idx, w) => Some (hdr ty idx :: (if w =? 1 then [lenZ d] else be_encode (Z.to_nat w) (lenZ d)) ++ d)
     | None => None
     end) /\
  (forall ty idx d1, 0 <= idx < 8 ->
     size_of_header ty idx d1 =
     if idx =? 0 then Some (O, if ty =? 0 then 0 else 1)
     else match assoc_tab sdp_parse_fixed_layout idx with
          | Some vs => Some (O, vs)
          | None =>
              match assoc_tab sdp_parse_var_layout idx with
              | Some w => if (Z.to_nat w <=? length d1)%nat
                          then Some (Z.to_nat w, be_decode (firstn (Z.to_nat w) d1)) else None
              | None => None
              end
          end).
Proof. exact (conj sdp_fixed_index_is_table (conj sdp_var_header_is_table sdp_size_of_header_is_table)). Qed.
Print Assumptions C18_sdp_model_is_its_tables.

Theorem C18_avctp_model_is_its_layout : forall b0 r,
  avctp_parse (b0 :: r) =
  match eval_shape [b0] [] avctp_b0_parse_layout with
  | [tl; pt; cr; ipid] =>
      if (cr =? 0) && negb (ipid =? 0) then Some None
      else if pt =? 0 then
        match r with
        | p0 :: p1 :: payload => Some (Some (tl, cr =? 0, negb (ipid =? 0), be_decode [p0; p1], payload))
        | _ => None
        end
      else None
  | _ => None
  end.
Proof. exact avctp_b0_parse_is_shape. Qed.
Print Assumptions C18_avctp_model_is_its_layout.

Theorem C18_rtp_model_is_its_layout : forall a b c d r hdr,
  rtp_words 1 (a :: b :: c :: d :: r) = Some ([be_decode [a; b; c; d]], r) /\
  length [a; b; c; d] = Z.to_nat rtp_csrc_stride_layout /\
  (length hdr < Z.to_nat rtp_csrc_base_layout -> rtp_parse hdr = None)%nat.
Proof. exact rtp_csrc_layout. Qed.
Print Assumptions C18_rtp_model_is_its_layout.

(* ------------------------------------------------------------------ non-vacuity *)
Example C18_ex_sframe_poll :
  ecf_ok (SFrame {| s_function := 0; s_poll := 1; s_req_seq := 5; s_final := 0 |}) = true /\
  ecf_bytes (SFrame {| s_function := 0; s_poll := 1; s_req_seq := 5; s_final := 0 |}) = [17; 5].
Proof. split; reflexivity. Qed.

Example C18_ex_rfcomm_credits :
  let f := {| f_type := rfcomm_ft_UIH; f_cr := 1; f_dlci := 5; f_pf := 1; f_info := [7; 104; 105]; f_credits := true |} in
  frame_ok f = true /\ frame_bytes f = [23; 255; 5; 7; 104; 105; 12].
Proof. vm_compute. split; reflexivity. Qed.

Example C18_ex_rfcomm_128 :
  let f := {| f_type := rfcomm_ft_UIH; f_cr := 1; f_dlci := 5; f_pf := 0; f_info := repeat 1 128; f_credits := false |} in
  frame_ok f = true /\ firstn 4 (frame_bytes f) = [23; 239; 0; 1] /\ frame_canonical (frame_bytes f) = true.
Proof. vm_compute. repeat split; reflexivity. Qed.

Example C18_ex_psm_values :
  psm_ok 4097 = true /\ psm_bytes 4097 = [1; 16] /\ psm_ok 131329 = true /\ psm_bytes 131329 = [1; 1; 2].
Proof. vm_compute. repeat split; reflexivity. Qed.

Example C18_ex_sdp_nested :
  let e := ESeq [EUInt 2 256; EText (repeat 65 256); EAlt [EBool true; ENil; EUuid [52; 18]]] in
  elem_ok sdp_max_nesting e = true /\
  match encode e with Some b => from_bytes sdp_max_nesting b = POk e (lenZ b) b true | None => False end.
Proof. vm_compute. split; reflexivity. Qed.

Example C18_ex_sdp_overrun :
  from_bytes sdp_max_nesting [53; 1; 129] = PErr /\ from_bytes sdp_max_nesting [53; 2; 40; 1] = POk (ESeq [EBool true]) 4 [53; 2; 40; 1] true.
Proof. vm_compute. split; reflexivity. Qed.

Example C18_ex_uuid_history :
  let h := [UFrom16 43981; UFromBytes (uuid_128 (le_encode 2 43981))] in
  uuid_from_bytes (uuid_run [] h) (uuid_128 (le_encode 2 43981)) =
  Some (uuid_run [] h, uuid_128 (le_encode 2 43981)).
Proof. vm_compute. reflexivity. Qed.

Example C18_ex_address_string :
  addr_to_string ([1; 2; 3; 4; 5; 6], 0) = [48;54;58;48;53;58;48;52;58;48;51;58;48;50;58;48;49;47;80] /\
  addr_from_string (addr_to_string ([1; 2; 3; 4; 5; 6], 0)) 1 = Some ([1; 2; 3; 4; 5; 6], 0).
Proof. vm_compute. split; reflexivity. Qed.

Example C18_ex_registry :
  (Nat.leb 55 (Datatypes.length C18Registry.classes)) = true /\
  pdu_encode (mkp 1 2 String.EmptyString [F1 (UInt 2)]) 0 [VInt 517] = Some [2; 5; 2].
Proof. vm_compute. split; reflexivity. Qed.

Example C18_ex_xregistry :
  xin_range [XPsm; XA (UInt 2)] 0 [VInt 4097; VInt 64] = true /\
  xserialize [XPsm; XA (UInt 2)] [VInt 4097; VInt 64] = Some [1; 16; 64; 0] /\
  xin_range [XSdpElem; XA (UIntBE 2); XA Rest] 0 [VBytes [53; 3; 25; 17; 1]; VInt 10; VBytes [0]] = true.
Proof. vm_compute. repeat split; reflexivity. Qed.

Example C18_ex_lv_truncated_last :
  lv_inr [VList [VInt 2; VBytes [1; 2]]; VList [VInt 30; VBytes [9; 9; 9]]] = true /\
  lv_ser [VList [VInt 2; VBytes [1; 2]]; VList [VInt 30; VBytes [9; 9; 9]]] = Some [2; 0; 1; 2; 30; 0; 9; 9; 9] /\
  lv_parse 10 [2; 0; 1; 2; 30; 0; 9; 9; 9] = Some [VList [VInt 2; VBytes [1; 2]]; VList [VInt 30; VBytes [9; 9; 9]]].
Proof. vm_compute. repeat split; reflexivity. Qed.

Example C18_ex_avrcp :
  xfin_range [One (XA (Enum 2 BE)); One (XStr 2); Arr [XA (Enum 4 BE)]] 0
             [VInt 106; VBytes [97; 195; 169]; VList [VList [VInt 1]; VList [VInt 7]]] = true /\
  xfserialize [One (XA (Enum 2 BE)); One (XStr 2); Arr [XA (Enum 4 BE)]]
              [VInt 106; VBytes [97; 195; 169]; VList [VList [VInt 1]; VList [VInt 7]]]
  = Some [0; 106; 0; 3; 97; 195; 169; 2; 0; 0; 0; 1; 0; 0; 0; 7].
Proof. vm_compute. split; reflexivity. Qed.

Example C18_ex_a2dp :
  sbc_ok [2; 1; 1; 1; 1; 2; 53] = true /\ sbc_bytes [2; 1; 1; 1; 1; 2; 53] = [33; 21; 2; 53] /\
  aac_ok [128; 16; 1; 1; 256000] = true /\ aac_parse (aac_bytes [128; 16; 1; 1; 256000]) = Some [128; 16; 1; 1; 256000].
Proof. vm_compute. repeat split; reflexivity. Qed.

Example C18_ex_rtp :
  let p := {| r_version := 2; r_padding := 0; r_extension := 0; r_marker := 1; r_seq := 10; r_ts := 20;
              r_ssrc := 30; r_csrc := [16909060; 84281096]; r_pt := 96; r_payload := [97; 98] |} in
  rtp_ok p = true /\ rtp_parse (rtp_bytes p) = Some p.
Proof. vm_compute. split; reflexivity. Qed.
