(* Property C03: one HCI command outstanding; every command is answered exactly once.
   Statements only; the proofs are in Proofs/Skeleton.v and Proofs/HostCmd.v.
   Gen/C03Skeleton.v is regenerated from bumble/controller.py and bumble/hci.py on every run. *)
From Coq Require Import ZArith List Bool.
From BV Require Import Model.Skeleton Model.HostCmd Model.HostShape Model.CtrlProc Model.CtrlProcShape Model.CisProc Model.SyncCalls Proofs.Skeleton Proofs.HostCmd Proofs.CtrlProc Proofs.CisProc Gen.C03Skeleton Gen.C03HostShape Gen.C03ProcShape Gen.C03SyncCalls.
Import ListNotations.
Open Scope Z_scope.

(* ---------------------------------------------------------------- (A) the controller *)

(* For every dispatch description: if the decidable check accepts it, then for EVERY opcode
   (listed or not) and EVERY path through the dispatch function and the selected handler
   (every outcome of every `if`, every iteration count of every loop) exactly one
   Command Status / Command Complete event for the command is sent and no exception
   raised by a `raise` statement escapes. *)
Theorem C03_wf_table_replies_once : forall c, wf_ctrl c = true ->
  forall op path,
    replies (fst (run_dispatch c op path)) = 1%nat /\ snd (run_dispatch c op path) <> Exc.
Proof. exact wf_table_replies_once. Qed.
Print Assumptions C03_wf_table_replies_once.

(* per-run obligation: the table regenerated from the current source is accepted
   (197 registered classes, 142 named opcodes without class, the default entry) *)
Theorem C03_ctrl_table_wf : wf_ctrl C03Skeleton.ctrl = true.
Proof. vm_compute. reflexivity. Qed.
Print Assumptions C03_ctrl_table_wf.

Theorem C03_ctrl_replies_once : forall op path,
  replies (fst (run_dispatch C03Skeleton.ctrl op path)) = 1%nat /\
  snd (run_dispatch C03Skeleton.ctrl op path) <> Exc.
Proof. exact (wf_table_replies_once C03Skeleton.ctrl C03_ctrl_table_wf). Qed.
Print Assumptions C03_ctrl_replies_once.

(* per-run obligation: both reply senders grant at least one command credit, so every
   reply of the virtual controller is a [CtrlReply] label that satisfies the contract of (B) *)
Theorem C03_ctrl_credits : forall cc,
  label_ok (CtrlReply cc (if cc then C03Skeleton.complete_credit else C03Skeleton.status_credit)) = true.
Proof. intros [|]; vm_compute; reflexivity. Qed.
Print Assumptions C03_ctrl_credits.

(* per-run obligation: no helper of controller.py / link.py that a handler calls SYNCHRONOUSLY
   (transitively; deferred callbacks are not followed) contains an assert / raise / next() without
   default, except the reviewed pairs of Model/SyncCalls.v.  [wf_ctrl] looks at the handlers' own
   statements only; this closes it for the helpers: a deferred call turned synchronous, or an assert
   added to a reachable helper, is a broken obligation. *)
Theorem C03_no_unreviewed_sync_escape : unreviewed C03SyncCalls.sync_calls = [].
Proof. vm_compute. reflexivity. Qed.
Print Assumptions C03_no_unreviewed_sync_escape.

Example C03_sync_calls_nonvacuous :
  Nat.leb 90 (length C03SyncCalls.sync_calls) = true /\
  existsb (fun row => existsb (fun hp => snd hp) (snd row)) C03SyncCalls.sync_calls = true.
Proof. vm_compute. auto. Qed.

(* the check is not vacuous: the dispatch of the unrepaired tree is rejected, with the
   paths that lose the reply (D03a/b: no handler, non-synchronous; D03c: early return) *)
Theorem C03_old_dispatch_refuted :
  wf_ctrl old_ctrl = false /\ replies (fst (run_dispatch old_ctrl 1025 [])) = 0%nat
  /\ replies (fst (run_dispatch old_ctrl 16383 [])) = 0%nat.
Proof. exact old_dispatch_refuted. Qed.
Print Assumptions C03_old_dispatch_refuted.

(* ---------------------------------------------------------------- (B) the host *)

(* For every schedule (any number of callers, any interleaving of calls, semaphore grants,
   controller replies, event deliveries, task resumptions and task CANCELLATIONS, i.e. any
   order-preserving delay and any cancellation points) that satisfies [wf_run]: the contract on
   every label (the controller answers each command once, in order, with >= 1 credit; no
   unsolicited events; no command with opcode 0) and no cancellation of the caller that owns a
   still unanswered command (known finding D03m; cancelling callers queued on the semaphore, or
   the owner once its response has arrived, is allowed anywhere): *)
Theorem C03_at_most_one_outstanding : forall ls,
  wf_run h_init ls = true -> outstanding (run h_init ls) <= 1.
Proof. exact at_most_one_outstanding. Qed.
Print Assumptions C03_at_most_one_outstanding.

Theorem C03_reply_matches_caller : forall ls, wf_run h_init ls = true ->
  forall x r, In x (h_callers (run h_init ls)) -> c_phase x = Done r -> r = c_op x.
Proof. exact reply_matches_caller. Qed.
Print Assumptions C03_reply_matches_caller.

Theorem C03_every_caller_answered : forall ls, wf_run h_init ls = true ->
  quiescent (run h_init ls) = true -> all_answered (run h_init ls) = true.
Proof. exact every_caller_answered. Qed.
Print Assumptions C03_every_caller_answered.

(* ... and quiescence is reached: from every reachable state a bounded number of internal
   steps (at most 4 per waiting caller) answers every caller *)
Theorem C03_no_caller_waits_forever : forall ls, wf_run h_init ls = true ->
  exists ls', forallb internal ls' = true /\ wf_run (run h_init ls) ls' = true /\
              all_answered (run h_init (ls ++ ls')) = true /\
              (length ls' <= measure (run h_init ls))%nat.
Proof. exact no_caller_waits_forever. Qed.
Print Assumptions C03_no_caller_waits_forever.

(* every internal step makes progress, whatever the state: no livelock *)
Theorem C03_internal_steps_terminate : forall s l s' o,
  internal l = true -> step_opt s l = Some (s', o) -> (measure s' < measure s)%nat.
Proof. exact measure_decreases. Qed.
Print Assumptions C03_internal_steps_terminate.

(* no assertion of _send_command fails and no event hits a completed future *)
Theorem C03_host_never_fails : forall ls, wf_run h_init ls = true ->
  h_err (run h_init ls) = false /\
  forall x, In x (h_callers (run h_init ls)) -> c_phase x <> Failed.
Proof. exact host_never_fails. Qed.
Print Assumptions C03_host_never_fails.

(* without cancellations and without a transport loss the hypotheses are exactly the controller contract *)
Theorem C03_wf_run_no_cancel : forall ls s, h_lost s = false ->
  forallb (fun l => match l with Cancel _ | Lose => false | _ => true end) ls = true ->
  contract_ok ls = true -> wf_run s ls = true.
Proof. exact wf_run_no_cancel. Qed.
Print Assumptions C03_wf_run_no_cancel.

(* transport loss (Host.on_transport_lost, fix D16k): the theorems above hold for histories with a
   loss as well ([Lose] is an ordinary label; after it nothing crosses the transport).  In addition,
   once the transport is lost no command is put on the wire any more ... *)
Theorem C03_nothing_sent_after_loss : forall ls s, h_lost s = true -> wf_run s ls = true ->
  (length (h_to (run s ls)) <= length (h_to s))%nat.
Proof. exact nothing_sent_after_loss. Qed.
Print Assumptions C03_nothing_sent_after_loss.

(* ... a caller that gets the semaphore after the loss fails at once and gives it back ... *)
Theorem C03_lost_acquire_fails : forall s c s' o, h_lost s = true -> step_opt s (Acquire c) = Some (s', o) ->
  o = [LostFailed c] /\ h_to s' = h_to s /\ h_sem s' = h_sem s /\ h_pending s' = h_pending s.
Proof. exact lost_acquire_fails. Qed.
Print Assumptions C03_lost_acquire_fails.

(* ... and no caller waits forever: see C03_no_caller_waits_forever, whose conclusion after a loss is
   "every caller is Done with its own response (it arrived before the loss), Cancelled or failed
   with TransportLostError". *)
Example C03_transport_lost_nonvacuous :
  let ls := [Call 1 4105; Call 2 8216; Call 3 3092; Acquire 1; Lose; Resume 1; Acquire 2; Call 4 1030; Acquire 3;
             Acquire 4] in
  wf_run h_init ls = true /\
  map phase_code (h_callers (run h_init ls)) = [(1, 5, 0); (2, 5, 0); (3, 5, 0); (4, 5, 0)] /\
  all_answered (run h_init ls) = true /\ h_sem (run h_init ls) = 1 /\ h_to (run h_init ls) = [4105].
Proof. exact transport_lost_example. Qed.

(* cancelling a caller that is queued on the semaphore changes nothing but that caller: the
   semaphore, the pending command / response and both FIFOs stay as they are *)
Theorem C03_cancel_queued_frame : forall s c s' o,
  step_opt s (Cancel c) = Some (s', o) -> cancel_ok s (Cancel c) = true ->
  (exists c' op, h_pending s = Some (c', op) /\ c' <> c) \/ h_pending s = None ->
  h_sem s' = h_sem s /\ h_pending s' = h_pending s /\ h_resp s' = h_resp s /\
  h_to s' = h_to s /\ h_from s' = h_from s.
Proof. exact cancel_queued_frame. Qed.
Print Assumptions C03_cancel_queued_frame.

(* the cancellation hypothesis is needed (known finding D03m): cancelling the owner of an
   unanswered command frees the semaphore; the next caller sends while that command is
   outstanding, is resumed with the response to it, and its own response is dropped *)
Theorem C03_owner_cancel_refuted :
  let ls := [Call 1 4105; Call 2 8216; Acquire 1; Cancel 1; Acquire 2] in
  contract_ok ls = true /\ wf_run h_init ls = false /\ outstanding (run h_init ls) = 2 /\
  let s := run h_init (ls ++ [CtrlReply true 1; Deliver; Resume 2; CtrlReply true 1; Deliver]) in
  map phase_code (h_callers s) = [(1, 4, 0); (2, 2, 4105)] /\ all_answered s = false /\ quiescent s = true.
Proof. exact owner_cancel_refuted. Qed.
Print Assumptions C03_owner_cancel_refuted.

(* a command whose transmission raises (label [AcquireFail]: an unencodable parameter, a sink or
   snooper that raises) is an ordinary label of the schedules quantified over above: send_hci_packet
   is INSIDE the try (pinned by C03_host_matches_source), so the finally undoes the acquisition.
   Frame: the semaphore, the pending command and both FIFOs are as before; the caller has its exception. *)
Theorem C03_send_failure_frame : forall s c s' o,
  h_lost s = false -> h_pending s = None -> h_resp s = None ->
  step_opt s (AcquireFail c) = Some (s', o) ->
  o = [SendFailed c] /\ h_sem s' = h_sem s /\ h_pending s' = None /\ h_to s' = h_to s /\ h_from s' = h_from s.
Proof. exact send_failure_frame. Qed.
Print Assumptions C03_send_failure_frame.

Example C03_send_failure_nonvacuous :
  let ls := [Call 1 8204; Call 2 4105; Call 3 3092; AcquireFail 1; Acquire 2; CtrlReply true 1; Deliver; Resume 2;
             AcquireFail 3] in
  wf_run h_init ls = true /\
  map phase_code (h_callers (run h_init ls)) = [(1, 6, 0); (2, 2, 4105); (3, 6, 0)] /\
  all_answered (run h_init ls) = true /\ h_sem (run h_init ls) = 1 /\ h_pending (run h_init ls) = None /\
  outstanding (run h_init ls) = 0.
Proof. exact send_failure_example. Qed.

(* traces accepted by the correspondence check are runs of the model *)
Theorem C03_accept_is_run : forall ls s s' o, accept s ls = Some (s', o) -> run s ls = s'.
Proof. exact accept_run. Qed.
Print Assumptions C03_accept_is_run.

(* the contract is necessary: a swallowed command blocks its caller and everybody behind *)
Theorem C03_no_reply_refuted :
  let s := run h_init [Call 1 1025; Acquire 1; CtrlDrop; Call 2 4099] in
  quiescent s = true /\ all_answered s = false /\
  map phase_code (h_callers s) = [(1, 1, 0); (2, 0, 0)].
Proof. exact no_reply_refuted. Qed.
Print Assumptions C03_no_reply_refuted.

(* zero credits hold the semaphore until the opcode-0 flow-control event *)
Theorem C03_zero_credit_refuted :
  let s := run h_init [Call 1 3075; Call 2 4099; Acquire 1; CtrlReply true 0; Deliver; Resume 1] in
  quiescent s = true /\ all_answered s = false /\ h_sem s = 0 /\
  all_answered (run s [CtrlEvent true 0 1; Deliver; Acquire 2; CtrlReply true 1; Deliver; Resume 2]) = true.
Proof. exact zero_credit_refuted. Qed.
Print Assumptions C03_zero_credit_refuted.

(* ---------------------------------------------------------------- (C) procedures conclude *)

(* For every sequence of procedure commands (LE create connection, legacy or extended, its
   cancellation, disconnect, LE read remote features, LE enable encryption, classic create
   connection, remote name request; any handles, any addresses, peers present or absent) and
   peer actions (advertise, host accepts the connection request, host disconnects), each
   followed by the delivery of the PDUs it put on the link: the link is quiet and every
   procedure that was accepted and is not concluded by its completion event is open-ended by
   specification (an LE connection creation the controller still holds as pending, hence
   cancellable; a classic connection creation waiting for the peer's host).
   Hypothesis (boolean, along the run): no peer leaves the link without terminating its
   connections (known finding D03i). *)
Theorem C03_pending_has_cause : forall present xs,
  wf_ext (p_init present) xs = true ->
  let s := fst (p_run (p_init present) (settled xs)) in
  p_quiet s = true /\ forallb (open_ended s) (p_open s) = true.
Proof. exact pending_has_cause. Qed.
Print Assumptions C03_pending_has_cause.

(* the hypothesis is needed (known finding D03i) *)
Theorem C03_peer_gone_refuted :
  let s := fst (p_run (p_init [2]) (settled [Cmd (LeCreate false 2); Adv 2; Remove 2; Cmd (ReadFeat 1)])) in
  p_quiet s = true /\ p_open s = [PFeat 1] /\ forallb (open_ended s) (p_open s) = false.
Proof. exact peer_gone_refuted. Qed.
Print Assumptions C03_peer_gone_refuted.

(* the single pending slot (pending_le_connection) is given up only on a path that emits, or has
   queued the callback that emits, the LE Connection Complete of that request: in every step of the
   model, from any state.  In particular an advertisement of a peer that is still connected leaves the
   request pending ("Connection for <peer> already exists?"), it does not discard it. *)
Theorem C03_pending_slot_cleared_only_with_completion : forall s o s' out a,
  p_step s o = (s', out) -> p_pend_le s = Some a -> p_pend_le s' <> Some a ->
  (exists st h, In (LeConn st h a) out) \/ In (a, DeferredConnFail) (p_from s').
Proof. exact pend_cleared_emits. Qed.
Print Assumptions C03_pending_slot_cleared_only_with_completion.

Example C03_reconnect_while_connected :
  groups_obs [2; 3] [[Cmd (LeCreate false 2)]; [Adv 2]; [Cmd (LeCreate true 2)]; [Adv 2]; [Cmd (Disconnect 1)];
                     [Adv 2]]
  = ([[0; 8205; 0]; [2; 0; 1; 2]; [0; 8259; 0]; [0; 1030; 0]; [3; 1]; [2; 0; 1; 2]], [], true, true) /\
  groups_obs [2; 3] [[Cmd (LeCreate true 2)]; [Adv 2]; [Cmd (LeCreate false 2)]; [Adv 2]; [Cmd LeCancel]; [Cmd LeCancel]]
  = ([[0; 8259; 0]; [2; 0; 1; 2]; [0; 8205; 0]; [1; 8206; 0]; [2; 2; 0; 2]; [1; 8206; 12]], [], true, true).
Proof. exact reconnect_while_connected. Qed.

(* ---- arbitrary interleavings of commands, peer actions and single PDU deliveries (commands
   issued while PDUs are in flight, a peer disconnecting while a request is on its way, stale
   responses, ...), by complete evaluation over a bounded scope: from the initial state and from
   a state with an LE and a classic connection, after EVERY schedule of at most 5 steps over the
   13-letter alphabet (incl. the advertiser stopping / another central winning the race while the
   ConnectInd is in flight, fix D06d), delivering what is in flight leaves only open-ended procedures.
   (The thorough tier evaluates depth 6 as a per-run obligation.) *)
Theorem C03_bounded_scope_checked :
  all_ok 5 (p_init [2; 3]) = true /\ all_ok 5 connected_state = true.
Proof. vm_compute. split; reflexivity. Qed.
Print Assumptions C03_bounded_scope_checked.

Theorem C03_pending_has_cause_interleaved : forall xs,
  (length xs <= 5)%nat -> Forall (fun o => In o alphabet) xs ->
  concludes (fst (p_run (p_init [2; 3]) xs)) = true /\
  concludes (fst (p_run connected_state xs)) = true.
Proof.
  intros xs L F. destruct C03_bounded_scope_checked as [A B].
  split; [exact (all_ok_spec 5 _ A xs L F) | exact (all_ok_spec 5 _ B xs L F)].
Qed.
Print Assumptions C03_pending_has_cause_interleaved.

(* the lost race (D06d): the connection the CUT announced is concluded by a Disconnection Complete *)
Example C03_lost_race_concluded :
  groups_obs [2; 3] [[Cmd (LeCreate false 2)]; [Adv 2; PeerAdvOff 2]; [Cmd (ReadFeat 1)]]
  = ([[0; 8205; 0]; [2; 0; 1; 2]; [3; 1]; [0; 8214; 18]], [], true, true).
Proof. vm_compute. reflexivity. Qed.

Example C03_connected_state_nonvacuous :
  map (fun k => (k_handle k, k_addr k)) (p_conns connected_state) = [(1, 2); (2, 3)] /\
  p_peer_conn connected_state = [2] /\ p_quiet connected_state = true.
Proof. vm_compute. auto. Qed.

(* ---- CIS set-up and tear-down (Model/CisProc.v: Set CIG, Remove CIG, Create CIS, Disconnect of a CIS
   and of the ACL, the peer's host accepting when it pleases or dropping the ACL, PDUs delivered one
   at a time in any order): after EVERY schedule of at most 5 steps from the initial state, and at
   most 6 steps from a state with a CIG configured, whose steps do not re-configure / remove a CIG
   while one of its CIS is being created, delivering what is in flight leaves only CIS creations
   that wait for the peer's host. *)
Theorem C03_cis_bounded_scope_checked :
  cis_all_ok 5 c_init = true /\ cis_all_ok 6 cis_configured = true.
Proof. vm_compute. split; reflexivity. Qed.
Print Assumptions C03_cis_bounded_scope_checked.

Theorem C03_cis_setup_concludes : forall xs,
  Forall (fun o => In o cis_alphabet) xs ->
  ((length xs <= 5)%nat -> cis_run_ok c_init xs = true -> cconcludes (fst (crun c_init xs)) = true) /\
  ((length xs <= 6)%nat -> cis_run_ok cis_configured xs = true -> cconcludes (fst (crun cis_configured xs)) = true).
Proof.
  intros xs F. destruct C03_cis_bounded_scope_checked as [A B]. split; intros L R.
  - exact (cis_all_ok_spec 5 _ A xs L F R).
  - exact (cis_all_ok_spec 6 _ B xs L F R).
Qed.
Print Assumptions C03_cis_setup_concludes.

(* the hypothesis is needed: a CIG removed while the peer's host still holds the request *)
Theorem C03_cig_removed_refuted :
  let s := fst (crun c_init [CCmd (SetCig 1 [1]); CCmd (CreateCis 2 1); CToPeer; CCmd (RemoveCig 1);
                             PeerAcceptCis; CToCut]) in
  c_open s = [2] /\ c_to s = [] /\ c_from s = [] /\ cconcludes s = false.
Proof. exact cig_removed_refuted. Qed.
Print Assumptions C03_cig_removed_refuted.

Example C03_cis_nonvacuous :
  cis_groups_obs [[CCmd (SetCig 1 [1; 2])]; [CCmd (CreateCis 2 1)]; [PeerAcceptCis]; [CCmd (CreateCis 3 7)];
                  [CCmd (DisconnectH 2)]; [CCmd (DisconnectH 2)]; [CCmd (CreateCis 3 1); CCmd (DisconnectH 1)];
                  [PeerAcceptCis]]
  = ([[8; 1; 2; 3]; [0; 8292; 0]; [10; 2]; [0; 8292; 18]; [0; 1030; 0]; [3; 2]; [0; 1030; 2]; [0; 8292; 0];
      [0; 1030; 0]; [3; 1]], [], true).
Proof. exact cis_example. Qed.

(* ---------------------------------------------------------------- the models match the source *)

(* per-run obligations: the command path of bumble/host.py has the shape Model/HostCmd.v was written
   against (semaphore acquired outside the try block, assertions and pending_* set-up before it,
   what the finally block clears and when it releases, where on_command_processed completes the
   future and when it releases instead, the opcode-0 branch, which functions touch the semaphore /
   pending_* at all, one initial permit) ... *)
Theorem C03_host_matches_source :
  C03HostShape.send_command = expected_send_command /\
  C03HostShape.command_processed = expected_command_processed /\
  C03HostShape.command_complete_event = expected_command_complete_event /\
  C03HostShape.command_status_event = expected_command_status_event /\
  C03HostShape.flush = expected_flush /\
  C03HostShape.transport_lost = expected_transport_lost /\
  C03HostShape.set_packet_source = expected_set_packet_source /\
  C03HostShape.touchers = expected_touchers /\
  C03HostShape.semaphore_permits = h_sem h_init.
Proof. vm_compute. repeat split; reflexivity. Qed.
Print Assumptions C03_host_matches_source.

(* ... and the 38 functions of controller.py / link.py that Model/CtrlProc.v is a reading of are,
   statement for statement, the ones the model was validated against *)
Theorem C03_procedures_match_source : C03ProcShape.shapes = CtrlProcShape.expected.
Proof. vm_compute. reflexivity. Qed.
Print Assumptions C03_procedures_match_source.

(* non-vacuity: a run that satisfies the hypotheses, opens and concludes every kind of procedure *)
Example C03_procedures_nonvacuous :
  let xs := [Cmd (LeCreate false 9); Cmd LeCancel; Cmd (LeCreate true 2); Adv 2; Cmd (ReadFeat 1);
             Cmd (Encrypt 1); Cmd (ClassicCreate 3); PeerAccept 3; Cmd (RemoteName 3); Cmd (RemoteName 9);
             Cmd (ClassicCreate 9); Cmd (ClassicCreate 3); PeerDisconnect 2; Cmd (Disconnect 2);
             Cmd (Disconnect 291)] in
  wf_ext (p_init [2; 3]) xs = true /\
  run_obs [2; 3] (settled xs) =
    ([[0; 8205; 0]; [1; 8206; 0]; [2; 2; 0; 9]; [0; 8259; 0]; [2; 0; 1; 2]; [0; 8214; 0]; [4; 1];
      [0; 8217; 0]; [5; 1]; [0; 1029; 0]; [6; 0; 2; 3]; [0; 1049; 0]; [7; 0; 3]; [0; 1049; 0]; [7; 4; 9];
      [0; 1029; 0]; [6; 4; 0; 9]; [0; 1029; 11]; [3; 1]; [0; 1030; 0]; [3; 2]; [0; 1030; 2]], [], true, true).
Proof. vm_compute. auto. Qed.

(* non-vacuity: a schedule with three callers that satisfies the contract and is accepted *)
Example C03_cancel_nonvacuous :
  let ls := [Call 1 4105; Call 2 8216; Call 3 3092; Acquire 1; Cancel 2; CtrlReply true 1; Deliver; Cancel 1;
             Acquire 3; CtrlReply true 1; Deliver; Resume 3] in
  wf_run h_init ls = true /\
  map phase_code (h_callers (run h_init ls)) = [(1, 4, 0); (2, 4, 0); (3, 2, 3092)] /\
  all_answered (run h_init ls) = true.
Proof. exact cancel_examples. Qed.

Example C03_nonvacuous :
  let ls := [Call 1 3075; Call 2 1030; Acquire 1; Call 3 4105; CtrlReply true 1; Deliver; Resume 1;
             Acquire 3; CtrlReply true 1; Deliver; Resume 3; Acquire 2; CtrlReply false 1; Deliver; Resume 2] in
  contract_ok ls = true /\
  accept_obs ls = Some ([(0, 1, 3075); (1, 1, 3075); (0, 3, 4105); (1, 3, 4105); (0, 2, 1030); (1, 2, 1030)],
                        [(1, 2, 3075); (2, 2, 1030); (3, 2, 4105)], (true, true, 0)).
Proof. vm_compute. auto. Qed.

Example C03_table_nonempty :
  Nat.leb 197 (length (c_table C03Skeleton.ctrl)) = true /\
  existsb (fun e => match e_handler e with Some _ => true | None => false end) (c_table C03Skeleton.ctrl) = true.
Proof. vm_compute. auto. Qed.
