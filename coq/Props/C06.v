(* Property C06: the virtual link connects the right peers and delivers only between them.
   Statements only; every proof is [exact] of a lemma of Proofs/Link.v.

   The system (Model/Link.v) is any number of controllers on one link; a schedule is any
   list of labels (host commands, advertising timer ticks, deliveries of messages in
   flight, FIFO per ordered pair of controllers).  Hypotheses are boolean:
     cfg_ok cfg              the addresses of the configuration are pairwise distinct
     run_ok guard_static     no controller changes its addresses after power-on
   and, for the symmetry of the tables,
     run_ok guard_sym        additionally, LE connections between two controllers are made
                             and torn down one at a time (nothing in flight between them when
                             one is created or disconnected) and the addressee of a ConnectInd
                             has a free handle (see docs/C06.md). *)
From Coq Require Import ZArith List Bool.
From BV Require Import Model.Link Proofs.Link Proofs.LinkDyn Proofs.LinkSym Proofs.LinkSymCl Proofs.LinkSymCl2 Gen.C06Handles Proofs.LinkHandles Gen.C06Shape Proofs.LinkShape.
Import ListNotations.
Open Scope Z_scope.

(* ---------------------------------------------------------------- invariant of all reachable states *)
(* per controller: table keys unique, LE handles >= 1, no two live connections (LE or
   BR/EDR) share a handle; self addresses of LE connections are addresses of the
   controller; every message in flight carries an address of its sender; no two
   controllers own the same address *)
Theorem C06_reachable_invariant : forall cfg ls, cfg_ok cfg = true ->
  run_ok guard_static (init cfg) ls = true -> ginv (run_state (init cfg) ls).
Proof. exact reachable_ginv. Qed.
Print Assumptions C06_reachable_invariant.

(* The routing invariant [rinv] (per-controller table invariants, own addresses of LE connections
   and public addresses unique across controllers) is all the routing theorems below need.  It
   holds in every state reachable under the static hypotheses, and also under the weaker
   [guard_fresh]: a controller may change its random address at any time, also while connected,
   and advertising sets may have random addresses of their own, as long as no other controller
   uses the new address.  Routing keeps working because it goes by the own address the connection
   was made with, not by the controller's current address. *)
Theorem C06_reachable_routing_invariant : forall cfg ls, cfg_ok cfg = true ->
  run_ok guard_fresh (init cfg) ls = true -> rinv (run_state (init cfg) ls).
Proof. exact reachable_rinv. Qed.
Print Assumptions C06_reachable_routing_invariant.

Theorem C06_static_invariant_gives_routing_invariant : forall s, ginv s -> rinv s.
Proof. exact ginv_rinv. Qed.
Print Assumptions C06_static_invariant_gives_routing_invariant.

(* handle allocation: the smallest handle in 1..0xEFF not used by a live link of any kind;
   [handles c] ranges over the LE and BR/EDR connections, the SCO / eSCO links and the CIS
   links of the controller *)
Theorem C06_handles_cover_every_link_table : forall c,
  handles c = map k_handle (c_le c) ++ map k_handle (c_cl c) ++ map k_handle (c_sco c) ++ map cis_handle (c_cis c).
Proof. intro c. exact eq_refl. Qed.
Print Assumptions C06_handles_cover_every_link_table.

(* regenerated from bumble/controller.py on every run: allocate_connection_handle consults
   every table in which a connection handle can be resolved (find_*_by_handle), and the model
   knows exactly those tables (peripheral_cis_links stays empty under the modelled labels) *)
Theorem C06_alloc_consults_every_handle_table :
  forallb (fun t => smem t code_alloc_tables) code_handle_tables = true.
Proof. exact alloc_consults_every_handle_table. Qed.
Print Assumptions C06_alloc_consults_every_handle_table.

Theorem C06_model_knows_every_handle_table :
  forallb (fun t => smem t (model_handle_tables ++ model_always_empty)) code_handle_tables = true
  /\ forallb (fun t => smem t code_handle_tables) (model_handle_tables ++ model_always_empty) = true.
Proof. exact model_knows_every_handle_table. Qed.
Print Assumptions C06_model_knows_every_handle_table.

(* the smallest free handle *)
Theorem C06_handle_allocation : forall c h, alloc c = Some h ->
  ~ In h (handles c) /\ 1 <= h <= max_handle /\ (forall x, 1 <= x < h -> In x (handles c)).
Proof. exact alloc_spec. Qed.
Print Assumptions C06_handle_allocation.

(* handles live and distinct per controller, in every reachable state *)
Theorem C06_handles_distinct : forall cfg ls i c, cfg_ok cfg = true ->
  run_ok guard_static (init cfg) ls = true ->
  nth_error (st_cs (run_state (init cfg) ls)) i = Some c ->
  (forall k, In k (c_le c) -> 1 <= k_handle k) /\
  (forall h, h <> 0 -> (count h (handles c) <= 1)%nat).
Proof.
  intros cfg ls i c H1 H2 H3.
  exact (conj (ci_le_pos c (proj1 (g_c _ (reachable_ginv cfg ls H1 H2) i c H3)))
              (ci_distinct c (proj1 (g_c _ (reachable_ginv cfg ls H1 H2) i c H3)))).
Qed.
Print Assumptions C06_handles_distinct.

(* ---------------------------------------------------------------- tables symmetric *)
(* In every state reachable under the symmetry guard, for two controllers i, j with no
   ConnectInd / TerminateInd in flight between them: either neither holds an LE connection
   towards the other, or each holds exactly one, and they mirror each other: i's entry
   (peer b, own a, role r) faces j's entry (peer a, own b, role not r).
   (The BR/EDR tables: C06_tables_symmetric_classic below.) *)
Theorem C06_tables_symmetric_le : forall cfg ls i j ci cj, cfg_ok cfg = true ->
  run_ok guard_sym (init cfg) ls = true ->
  let s := run_state (init cfg) ls in
  i <> j -> nth_error (st_cs s) i = Some ci -> nth_error (st_cs s) j = Some cj ->
  pair_quiet s i j = true ->
  (towards cj ci = [] /\ towards ci cj = []) \/
  (exists e e', towards cj ci = [e] /\ towards ci cj = [e'] /\ mirror e e').
Proof. exact tables_symmetric. Qed.
Print Assumptions C06_tables_symmetric_le.

(* ... and every LE connection is towards an address of some other controller, so the
   statement above covers every entry of every table *)
Theorem C06_every_connection_has_a_peer_controller : forall cfg ls i ci e, cfg_ok cfg = true ->
  run_ok guard_sym (init cfg) ls = true ->
  let s := run_state (init cfg) ls in
  nth_error (st_cs s) i = Some ci -> In e (c_le ci) ->
  exists j cj, j <> i /\ nth_error (st_cs s) j = Some cj /\ In e (towards cj ci).
Proof. exact peer_is_other_controller. Qed.
Print Assumptions C06_every_connection_has_a_peer_controller.

(* BR/EDR: in every state reachable under guard_cl (a connection is requested only between
   controllers that have nothing BR/EDR going on, the host accepts waiting requests only,
   established connections are torn down by one side at a time, a handle is left when a
   connection completes), for two controllers with no LMP connection-management message in
   flight between them: neither holds an entry for the other, or both hold an established one
   (non-zero handles) in opposite roles, or a request is waiting for the host's accept (both
   entries still carry handle 0). *)
Theorem C06_tables_symmetric_classic : forall cfg ls i j ci cj, cfg_ok cfg = true ->
  run_ok guard_cl (init cfg) ls = true ->
  let s := run_state (init cfg) ls in
  i <> j -> nth_error (st_cs s) i = Some ci -> nth_error (st_cs s) j = Some cj ->
  cquiet s i j = true ->
  (ent ci cj = None /\ ent cj ci = None)
  \/ (exists k k', ent ci cj = Some k /\ ent cj ci = Some k' /\ k_handle k <> 0 /\ k_handle k' <> 0 /\
        k_central k' = negb (k_central k))
  \/ (exists k k', ent ci cj = Some k /\ ent cj ci = Some k' /\ k_handle k = 0 /\ k_handle k' = 0 /\
        k_central k' = negb (k_central k)).
Proof. exact classic_tables_symmetric. Qed.
Print Assumptions C06_tables_symmetric_classic.

Theorem C06_tables_symmetric_classic_guard_example :
  let cfg := [(10, 11, false); (20, 21, false); (30, 31, false)] in
  let ls := [LClConnect 0 20; LDeliver 0; LClAccept 1 10; LDeliver 0; LClConnect 2 20; LDeliver 0; LClAccept 1 30;
             LDeliver 0; LDisconnect 1 1 19; LDeliver 0] in
  cfg_ok cfg = true /\ run_ok guard_cl (init cfg) ls = true /\
  map (fun c => map conn_obs (c_cl c)) (st_cs (run_state (init cfg) ls)) = [[]; [(30, 20, 2, false)]; [(20, 30, 1, true)]].
Proof. exact classic_guard_example. Qed.
Print Assumptions C06_tables_symmetric_classic_guard_example.

Theorem C06_tables_symmetric_classic_refuted_without_guard : exists cfg ls,
  cfg_ok cfg = true /\ run_ok guard_static (init cfg) ls = true /\ run_ok guard_cl (init cfg) ls = false /\
  let s := run_state (init cfg) ls in
  cquiet s 0 1 = true /\
  match nth_error (st_cs s) 0, nth_error (st_cs s) 1 with
  | Some c0, Some c1 =>
      match tbl_get (c_cl c0) (c_public c1), tbl_get (c_cl c1) (c_public c0) with
      | Some k, Some k' => andb (negb (k_handle k =? 0)) (Bool.eqb (k_central k) (k_central k'))
      | _, _ => false
      end
  | _, _ => false
  end = true.
Proof. exact classic_tables_symmetric_refuted_without_guard. Qed.
Print Assumptions C06_tables_symmetric_classic_refuted_without_guard.

(* the guard is necessary: simultaneous connections in both directions between two controllers
   that use their advertised address as own address overwrite each other (tables are keyed by
   peer address only) *)
Theorem C06_tables_symmetric_refuted_without_guard : exists cfg ls,
  cfg_ok cfg = true /\ run_ok guard_static (init cfg) ls = true /\ run_ok guard_sym (init cfg) ls = false /\
  let s := run_state (init cfg) ls in
  pair_quiet s 0 1 = true /\
  match nth_error (st_cs s) 0, nth_error (st_cs s) 1 with
  | Some c0, Some c1 =>
      match towards c1 c0, towards c0 c1 with
      | [e], [e'] => Bool.eqb (k_central e) (k_central e')
      | _, _ => false
      end
  | _, _ => false
  end = true.
Proof. exact tables_symmetric_refuted_without_guard. Qed.
Print Assumptions C06_tables_symmetric_refuted_without_guard.

(* D06d (two centrals, one advertiser) lies inside the guard since D06d.patch: the loser is
   refused with a TerminateInd 0x3E, reports the disconnection, and the tables are symmetric *)
Theorem C06_race_for_one_advertiser_is_symmetric :
  let cfg := [(10, 11, false); (20, 21, false); (30, 31, false)] in
  let ls := [LConnect 0 31 false; LConnect 1 31 false; LAdvParams 2 false true; LAdvEnable 2 true; LTick 2;
             LDeliver 0; LDeliver 0; LDeliver 0; LDeliver 0; LDeliver 0; LDeliver 0; LDeliver 0] in
  cfg_ok cfg = true /\ run_ok guard_sym (init cfg) ls = true /\
  let '(s, tr) := run (init cfg) ls in
  st_net s = [] /\ map (fun c => map conn_obs (c_le c)) (st_cs s) = [[(31, 11, 1, true)]; []; [(11, 31, 1, false)]] /\
  In [(1%nat, EDisc 1 62)] (map fst tr).
Proof. exact race_is_symmetric. Qed.
Print Assumptions C06_race_for_one_advertiser_is_symmetric.

(* ---------------------------------------------------------------- connect reaches the target only *)
(* a ConnectInd(a, b) is ignored by every controller that does not own b; the owner either files
   the connection (peer a, own b, fresh handle, peripheral) or, when it no longer advertises b,
   changes nothing and answers the initiator with a TerminateInd 0x3E (D06d) *)
Theorem C06_connect_reaches_target_only : forall cs n j c a b c' e o, ainv c ->
  on_message cs n j c (MConnInd a b) = (c', e, o) ->
  (~ owns c b -> c' = c /\ e = [] /\ o = []) /\
  (forall h ce p, In (ELeConn h ce p) e ->
     ce = false /\ p = a /\ owns c b /\ alloc c = Some h /\ o = [] /\
     tbl_get (c_le c') a = Some (mkConn a b h false)) /\
  (o = [] \/ (c' = c /\ e = [] /\ owns c b /\ exists i, find_le cs a = Some i /\ o = [(j, i, MTerm b 62)])).
Proof. exact connect_ind_effect. Qed.
Print Assumptions C06_connect_reaches_target_only.

(* the initiator reports exactly the connection its host asked for, and scanners are given
   the advertising data and (active scanning) the scan-response data byte for byte *)
Theorem C06_scan_reports_exact_and_connect_handed : forall cs n i c b data srsp c' e o,
  on_message cs n i c (MAdv b data srsp) = (c', e, o) ->
  filter is_report e =
    (if c_scan c then EAdvReport (c_extrep c) false b data ::
                      (if c_active c then [EAdvReport (c_extrep c) true b srsp] else []) else []) /\
  (forall h ce p, In (ELeConn h ce p) e ->
     ce = true /\ p = b /\ exists own, c_pending c = Some (b, own) /\ tbl_get (c_le c) b = None /\
       alloc c = Some h /\
       tbl_get (c_le c') b = Some (mkConn b (if own then c_public c else c_random c) h true) /\
       o = broadcast n i (MConnInd (if own then c_public c else c_random c) b) /\ c_pending c' = None) /\
  ((forall h ce p, ~ In (ELeConn h ce p) e) -> o = [] /\ c_le c' = c_le c).
Proof. exact adv_effect. Qed.
Print Assumptions C06_scan_reports_exact_and_connect_handed.

Theorem C06_advertising_event_legacy : forall n i c, c_leg_enabled c = true -> c_leg_advind c = true ->
  tick n i c = (c, [], broadcast n i (MAdv (leg_address c) (c_leg_data c) (c_leg_srsp c))).
Proof. exact tick_effect. Qed.
Print Assumptions C06_advertising_event_legacy.

Theorem C06_advertising_event_set : forall n i c h s a, set_get (c_sets c) h = Some s -> a_enabled s = true ->
  set_address c s = Some a -> ext_tick n i c h = (c, [], broadcast n i (MAdv a (a_data s) (a_srsp s))).
Proof. exact ext_tick_effect. Qed.
Print Assumptions C06_advertising_event_set.

(* an advertising PDU reaches every other controller, each exactly once *)
Theorem C06_broadcast : forall n i m,
  NoDup (broadcast n i m) /\
  forall s d x, In (s, d, x) (broadcast n i m) <-> s = i /\ (d < n)%nat /\ d <> i /\ x = m.
Proof. intros n i m. exact (conj (broadcast_nodup n i m) (broadcast_spec n i m)). Qed.
Print Assumptions C06_broadcast.

(* ---------------------------------------------------------------- a caller is handed that connection and no other *)
(* [completes_le] / [completes_classic] are the matching rules of Device.connect_le and
   Device.connect_classic (tied to bumble/device.py by C06_shape_matches_source).  Whatever
   event completes a pending LE connect() is the central connection to the address asked for
   (reported only while that connection is pending in the controller, filed under that address,
   and it clears the pending state so nothing else can complete the call); an incoming connection
   accepted meanwhile never matches (D06c). *)
Theorem C06_connect_le_handed_that_connection : forall s l s' evs out i e, step s l = (s', evs, out) ->
  In (i, e) evs -> completes_le e = true ->
  exists h t own c c', e = ELeConn h true t /\
    nth_error (st_cs s) i = Some c /\ c_pending c = Some (t, own) /\
    nth_error (st_cs s') i = Some c' /\ c_pending c' = None /\
    tbl_get (c_le c') t = Some (mkConn t (if own then c_public c else c_random c) h true).
Proof. exact connect_le_handed. Qed.
Print Assumptions C06_connect_le_handed_that_connection.

Theorem C06_incoming_connection_never_completes_connect : forall h p, completes_le (ELeConn h false p) = false.
Proof. exact completes_le_not_peripheral. Qed.
Print Assumptions C06_incoming_connection_never_completes_connect.

Theorem C06_connect_classic_handed_that_connection : forall s l s' evs out i e t, step s l = (s', evs, out) ->
  In (i, e) evs -> completes_classic t e = true ->
  exists h c' k, e = EClConn h t /\ nth_error (st_cs s') i = Some c' /\
    tbl_get (c_cl c') t = Some k /\ k_handle k = h.
Proof. exact connect_classic_handed. Qed.
Print Assumptions C06_connect_classic_handed_that_connection.

(* BR/EDR establishment keeps one response slot per request: a Create Connection that sends its
   request leaves a fresh unresolved future for that peer and reports no connection itself; an
   LMP_accepted reports a connection only when the slot of its sender is unresolved, and resolves
   it.  So a response concludes only the request issued after the previous response (reconnecting
   to a peer cannot be completed by the previous session's response). *)
Theorem C06_request_gets_fresh_response_slot : forall cs i c peer c' e o,
  cl_connect cs i c peer = (c', e, o) -> o <> [] ->
  lmp_get (c_lmp c') peer = Some false /\ (forall h p, ~ In (EClConn h p) e).
Proof. exact request_gets_fresh_slot. Qed.
Print Assumptions C06_request_gets_fresh_response_slot.

Theorem C06_response_resolves_pending_request_only : forall cs n j c a c' e o h p,
  on_message cs n j c (MLmpAccepted a) = (c', e, o) -> In (EClConn h p) e ->
  lmp_get (c_lmp c) a = Some false /\ lmp_get (c_lmp c') a = Some true /\ p = a.
Proof. exact response_resolves_pending_request_only. Qed.
Print Assumptions C06_response_resolves_pending_request_only.

Theorem C06_create_connection_reports_no_connection : forall cs i c peer c' e o h p,
  cl_connect cs i c peer = (c', e, o) -> ~ In (EClConn h p) e.
Proof. exact create_connection_reports_no_connection. Qed.
Print Assumptions C06_create_connection_reports_no_connection.

(* regenerated from the source on every run: the shape (comparisons, tests, table stores and
   deletes, calls in order, constructor arguments, returns) of every anchored function of
   link.py / controller.py and of the two matching rules of device.py is the one the model was
   written from *)
Theorem C06_shape_matches_source : shape_diff code_shape model_shape = [].
Proof. exact shape_matches_source. Qed.
Print Assumptions C06_shape_matches_source.

(* ---------------------------------------------------------------- ACL data *)
Theorem C06_acl_le_sent_to_peer_only : forall s i j ci cj e e' d, rinv s ->
  nth_error (st_cs s) i = Some ci -> In e (c_le ci) ->
  nth_error (st_cs s) j = Some cj -> In e' (c_le cj) -> k_self e' = k_peer e ->
  step s (LAcl i (k_handle e) d) =
    (mkState (st_cs s) (st_net s ++ [(i, j, MAcl (k_self e) true d)]),
     [(i, ECompleted (k_handle e))], [(i, j, MAcl (k_self e) true d)]).
Proof. exact acl_le_send_r. Qed.
Print Assumptions C06_acl_le_sent_to_peer_only.

Theorem C06_acl_le_delivered : forall s k i j cj a d e', nth_error (st_net s) k = Some (i, j, MAcl a true d) ->
  existsb (same_pair i j) (firstn k (st_net s)) = false ->
  nth_error (st_cs s) j = Some cj -> tbl_get (c_le cj) a = Some e' ->
  step s (LDeliver k) = (mkState (st_cs s) (remove_nth k (st_net s)), [(j, EAcl (k_handle e') d)], []).
Proof. exact acl_le_deliver. Qed.
Print Assumptions C06_acl_le_delivered.

Theorem C06_acl_classic_sent_to_peer_only : forall s i j ci cj e d, rinv s ->
  nth_error (st_cs s) i = Some ci -> In e (c_cl ci) -> k_handle e <> 0 ->
  nth_error (st_cs s) j = Some cj -> c_public cj = k_peer e ->
  step s (LAcl i (k_handle e) d) =
    (mkState (st_cs s) (st_net s ++ [(i, j, MAcl (c_public ci) false d)]),
     [(i, ECompleted (k_handle e))], [(i, j, MAcl (c_public ci) false d)]).
Proof. exact acl_classic_send_r. Qed.
Print Assumptions C06_acl_classic_sent_to_peer_only.

Theorem C06_acl_classic_delivered : forall s k i j cj a d e', nth_error (st_net s) k = Some (i, j, MAcl a false d) ->
  existsb (same_pair i j) (firstn k (st_net s)) = false ->
  nth_error (st_cs s) j = Some cj -> tbl_get (c_cl cj) a = Some e' ->
  step s (LDeliver k) = (mkState (st_cs s) (remove_nth k (st_net s)), [(j, EAcl (k_handle e') d)], []).
Proof. exact acl_classic_deliver. Qed.
Print Assumptions C06_acl_classic_delivered.

(* a host is handed ACL data only by the delivery of an ACL message addressed to its controller *)
Theorem C06_acl_to_nobody_else : forall s l s' evs out j h d, step s l = (s', evs, out) ->
  In (j, EAcl h d) evs ->
  exists k i a le, l = LDeliver k /\ nth_error (st_net s) k = Some (i, j, MAcl a le d).
Proof. exact acl_only_from_delivery. Qed.
Print Assumptions C06_acl_to_nobody_else.

(* exactly once, in order: per ordered pair of controllers and over any run, delivered ++
   still in flight = in flight at the start ++ sent *)
Theorem C06_link_once_in_order : forall ls s a b,
  chan a b (run_taken s ls) ++ chan a b (st_net (run_state s ls)) =
  chan a b (st_net s) ++ chan a b (run_sent s ls).
Proof. exact link_fifo_run. Qed.
Print Assumptions C06_link_once_in_order.

(* ---------------------------------------------------------------- disconnection seen by both *)
Theorem C06_disconnect_le_local_and_sent : forall s i j ci cj e e' r, rinv s ->
  nth_error (st_cs s) i = Some ci -> In e (c_le ci) ->
  nth_error (st_cs s) j = Some cj -> In e' (c_le cj) -> k_self e' = k_peer e ->
  step s (LDisconnect i (k_handle e) r) =
    (mkState (upd (st_cs s) i (set_le ci (tbl_del (c_le ci) (k_peer e))))
             (st_net s ++ [(i, j, MTerm (k_self e) r)]),
     [(i, EStatus 0); (i, EDisc (k_handle e) r)], [(i, j, MTerm (k_self e) r)]).
Proof. exact disconnect_le_r. Qed.
Print Assumptions C06_disconnect_le_local_and_sent.

Theorem C06_disconnect_le_remote : forall s k i j cj a r e', nth_error (st_net s) k = Some (i, j, MTerm a r) ->
  existsb (same_pair i j) (firstn k (st_net s)) = false ->
  nth_error (st_cs s) j = Some cj -> tbl_get (c_le cj) a = Some e' ->
  step s (LDeliver k) =
    (mkState (upd (st_cs s) j (set_le cj (tbl_del (c_le cj) a))) (remove_nth k (st_net s)),
     [(j, EDisc (k_handle e') r)], []).
Proof. exact terminate_deliver. Qed.
Print Assumptions C06_disconnect_le_remote.

Theorem C06_disconnect_classic_local_and_sent : forall s i j ci cj e r, rinv s ->
  nth_error (st_cs s) i = Some ci -> In e (c_cl ci) -> k_handle e <> 0 ->
  nth_error (st_cs s) j = Some cj -> c_public cj = k_peer e ->
  step s (LDisconnect i (k_handle e) r) =
    (mkState (upd (st_cs s) i (set_cl ci (tbl_del (c_cl ci) (k_peer e))))
             (st_net s ++ [(i, j, MLmpDetach (c_public ci) r)]),
     [(i, EStatus 0); (i, EDisc (k_handle e) r)], [(i, j, MLmpDetach (c_public ci) r)]).
Proof. exact disconnect_classic_r. Qed.
Print Assumptions C06_disconnect_classic_local_and_sent.

Theorem C06_disconnect_classic_remote : forall s k i j cj a r e', nth_error (st_net s) k = Some (i, j, MLmpDetach a r) ->
  existsb (same_pair i j) (firstn k (st_net s)) = false ->
  nth_error (st_cs s) j = Some cj -> tbl_get (c_cl cj) a = Some e' ->
  step s (LDeliver k) =
    (mkState (upd (st_cs s) j (set_cl cj (tbl_del (c_cl cj) a))) (remove_nth k (st_net s)),
     [(j, EDisc (k_handle e') 19)], []).
Proof. exact detach_deliver. Qed.
Print Assumptions C06_disconnect_classic_remote.

(* SCO / eSCO: a Disconnect on the handle of a synchronous link concludes that link and no
   other (the new state differs from the old one in sco_links of controller i only) *)
Theorem C06_disconnect_sco_local_and_sent : forall s i j ci cj e r, rinv s ->
  nth_error (st_cs s) i = Some ci -> In e (c_sco ci) -> k_handle e <> 0 ->
  nth_error (st_cs s) j = Some cj -> c_public cj = k_peer e ->
  step s (LDisconnect i (k_handle e) r) =
    (mkState (upd (st_cs s) i (set_sco ci (tbl_del (c_sco ci) (k_peer e))))
             (st_net s ++ [(i, j, MLmpRemoveSco (c_public ci) r)]),
     [(i, EStatus 0); (i, EDisc (k_handle e) r)], [(i, j, MLmpRemoveSco (c_public ci) r)]).
Proof. exact disconnect_sco_r. Qed.
Print Assumptions C06_disconnect_sco_local_and_sent.

Theorem C06_disconnect_sco_remote : forall s k i j cj a r e', nth_error (st_net s) k = Some (i, j, MLmpRemoveSco a r) ->
  existsb (same_pair i j) (firstn k (st_net s)) = false ->
  nth_error (st_cs s) j = Some cj -> tbl_get (c_sco cj) a = Some e' ->
  step s (LDeliver k) =
    (mkState (upd (st_cs s) j (set_sco cj (tbl_del (c_sco cj) a))) (remove_nth k (st_net s)),
     [(j, EDisc (k_handle e') r)], []).
Proof. exact remove_sco_deliver. Qed.
Print Assumptions C06_disconnect_sco_remote.

(* in all the disconnect theorems the table of the link loses exactly the entry that owns the
   handle: deleting the entry of k removes k and nothing else *)
Theorem C06_disconnect_removes_only_the_owner : forall t k x, keys_nodup t -> In k t ->
  (In x (tbl_del t (k_peer k)) <-> In x t /\ x <> k).
Proof. exact tbl_del_only. Qed.
Print Assumptions C06_disconnect_removes_only_the_owner.

(* a non-zero handle of a synchronous link is used by no LE or BR/EDR connection of the
   controller and by no other synchronous link *)
Theorem C06_sco_handle_owner : forall c k, cinv c -> In k (c_sco c) -> k_handle k <> 0 ->
  by_handle (c_le c) (k_handle k) = None /\ by_handle (c_cl c) (k_handle k) = None /\
  by_handle (c_sco c) (k_handle k) = Some k.
Proof. exact sco_handle_owner. Qed.
Print Assumptions C06_sco_handle_owner.

(* ---------------------------------------------------------------- non-vacuity *)
(* three controllers; 1 advertises with its public address, 0 connects with its public own
   address (the D06a configuration), data flows both ways, 0 disconnects; controller 2 sees
   advertisements only *)
Example C06_nonvacuous :
  let cfg := [(10, 11, false); (20, 21, false); (30, 31, false)] in
  let ls := [LAdvParams 1 true true; LAdvData 1 [2; 1; 6]; LScanRsp 1 [3; 9; 66; 66]; LAdvEnable 1 true;
             LScanParams 2 true; LScanEnable 2 true;
             LConnect 0 20 true; LTick 1; LDeliver 0; LDeliver 0; LDeliver 0; LDeliver 0;
             LAcl 0 1 [1; 2; 3]; LAcl 1 1 [4; 5]; LDeliver 0; LDeliver 0;
             LDisconnect 0 1 19; LDeliver 0] in
  cfg_ok cfg = true /\ run_ok guard_static (init cfg) ls = true /\ run_ok guard_sym (init cfg) ls = true /\
  let '(s, tr) := run (init cfg) ls in
  map fst tr =
    [[]; []; []; []; []; []; [(0%nat, EStatus 0)]; [];
     [(0%nat, ELeConn 1 true 20)];
     [(2%nat, EAdvReport false false 20 [2; 1; 6]); (2%nat, EAdvReport false true 20 [3; 9; 66; 66])];
     [(1%nat, ELeConn 1 false 10)]; [];
     [(0%nat, ECompleted 1)]; [(1%nat, ECompleted 1)];
     [(1%nat, EAcl 1 [1; 2; 3])]; [(0%nat, EAcl 1 [4; 5])];
     [(0%nat, EStatus 0); (0%nat, EDisc 1 19)]; [(1%nat, EDisc 1 19)]] /\
  st_net s = [] /\ map c_le (st_cs s) = [[]; []; []].
Proof. vm_compute. repeat split. Qed.

(* controller 0 holds an ACL to 1 (handle 1), an eSCO link on it (handle 2), two CIS (3, 4), then an
   ACL to 2 (handle 5); disconnecting handle 2 concludes the eSCO link only *)
Example C06_nonvacuous_all_link_kinds :
  let cfg := [(10, 11, false); (20, 21, false); (30, 31, false)] in
  let ls := [LClConnect 0 20; LDeliver 0; LClAccept 1 10; LDeliver 0;
             LScoSetup 0 1; LDeliver 0; LScoAccept 1 10; LDeliver 0;
             LSetCig 0 7 [0; 1];
             LClConnect 0 30; LDeliver 0; LClAccept 2 10; LDeliver 0;
             LDisconnect 0 2 19; LDeliver 0] in
  cfg_ok cfg = true /\ run_ok guard_sym (init cfg) ls = true /\
  let '(s, tr) := run (init cfg) ls in
  map fst (skipn 8 tr) =
    [[(0%nat, ECig [3; 4])]; [(0%nat, EStatus 0)]; [(2%nat, EClReq 10)]; [(2%nat, EStatus 0); (2%nat, EClConn 1 10)];
     [(0%nat, EClConn 5 30)]; [(0%nat, EStatus 0); (0%nat, EDisc 2 19)]; [(1%nat, EDisc 2 19)]] /\
  map handles (st_cs s) = [[1; 5; 3; 4]; [1]; [1]].
Proof. vm_compute. repeat split. Qed.

(* address change while connected: controller 0 connects with its random address 11, then takes the
   new random address 12; data still flows both ways and the disconnect still reaches the peer *)
Example C06_nonvacuous_address_change :
  let cfg := [(10, 11, false); (20, 21, false)] in
  let ls := [LAdvParams 1 false true; LAdvEnable 1 true; LConnect 0 21 false; LTick 1; LDeliver 0; LDeliver 0;
             LSetRandom 0 12;
             LAcl 0 1 [1; 2]; LAcl 1 1 [3]; LDeliver 0; LDeliver 0; LDisconnect 1 1 19; LDeliver 0] in
  cfg_ok cfg = true /\ run_ok guard_fresh (init cfg) ls = true /\ run_ok guard_static (init cfg) ls = false /\
  let '(s, tr) := run (init cfg) ls in
  map fst (skipn 7 tr) =
    [[(0%nat, ECompleted 1)]; [(1%nat, ECompleted 1)]; [(1%nat, EAcl 1 [1; 2])]; [(0%nat, EAcl 1 [3])];
     [(1%nat, EStatus 0); (1%nat, EDisc 1 19)]; [(0%nat, EDisc 1 19)]] /\
  st_net s = [] /\ map c_le (st_cs s) = [[]; []].
Proof. vm_compute. repeat split. Qed.
