(* Property C13: pairing ends the same way on both sides, with honest authentication.
   This file contains only statements, each closed by [exact].

   Vocabulary (Model/Pairing.v): [config] is one device's PairingConfig + delegate (IO
   capability, SC, MITM, bonding, key-distribution masks); [env] the user's answers and injected
   faults; [toolbox] the cryptographic functions and random values of a run, constrained only by
   [toolbox_ok]; [pair_with T e ci cr] the outcome of a pairing started by the device configured
   [ci] (initiator, central) with the device configured [cr] (responder, peripheral): per side
   the outcome, what Session.on_pairing writes to the key store, and the user prompts.  The
   generated table Gen/C13Tables.v is Session.PAIRING_METHODS as read from bumble/smp.py by this
   run. *)
From Coq Require Import ZArith List Bool.
From BV Require Import Gen.C13Tables Gen.C13Skeleton Model.Pairing Model.PairingMsg Model.PairingSkel Proofs.Pairing Proofs.PairingMsg Proofs.PairingSkel.
Import ListNotations.
Open Scope Z_scope.

(* ---------------------------------------------------------------- association model *)
(* the enum values the delegates use are the specification's IO capability codes *)
Theorem C13_io_codes :
  IO_DISPLAY_ONLY = io_code DisplayOnly /\ IO_DISPLAY_YES_NO = io_code DisplayYesNo /\
  IO_KEYBOARD_ONLY = io_code KeyboardOnly /\ IO_NO_INPUT_NO_OUTPUT = io_code NoInputNoOutput /\
  IO_KEYBOARD_DISPLAY = io_code KeyboardDisplay.
Proof. exact io_codes_match. Qed.
Print Assumptions C13_io_codes.

(* For all 5 x 5 capabilities and legacy / secure connections, when either side asks for MITM
   protection, Session.decide_pairing_method over Session.PAIRING_METHODS selects on BOTH sides
   the model Core Vol 3 Part H Table 2.8 prescribes, and passkey_display is the role the table
   gives that side. *)
Theorem C13_table_matches_spec : forall i r sc m ri rr self_mitm auth_req,
  spec_method i r sc = (m, ri, rr) ->
  self_mitm || has_flag auth_req AUTH_MITM = true ->
  decide false self_mitm sc true false auth_req (io_code i) (io_code r) = Some (method_code m, displays ri) /\
  decide false self_mitm sc false false auth_req (io_code i) (io_code r) = Some (method_code m, displays rr).
Proof. exact table_matches_spec_mitm. Qed.
Print Assumptions C13_table_matches_spec.

(* neither side asks for MITM protection: Just Works, whatever the capabilities *)
Theorem C13_no_mitm_just_works : forall sc init prev auth_req i r,
  has_flag auth_req AUTH_MITM = false ->
  decide false false sc init prev auth_req i r = Some (PM_JUST_WORKS, prev).
Proof. exact decide_no_mitm. Qed.
Print Assumptions C13_no_mitm_just_works.

(* The roles are complementary: both sides select the same model; with passkey entry never both
   display, a displaying side has a display, an inputting side has a keyboard, and both input
   only when both are KeyboardOnly; numeric comparison only with secure connections between
   devices that can show a number and take yes/no. *)
Theorem C13_roles_complementary : forall i r sc mi di mr dr,
  decide false true sc true false 0 (io_code i) (io_code r) = Some (mi, di) ->
  decide false true sc false false 0 (io_code i) (io_code r) = Some (mr, dr) ->
  mi = mr /\
  (mi = PM_PASSKEY ->
     (di && dr = false) /\
     (di = true -> has_display i = true) /\ (di = false -> has_keyboard i = true) /\
     (dr = true -> has_display r = true) /\ (dr = false -> has_keyboard r = true) /\
     (di = false -> dr = false -> i = KeyboardOnly /\ r = KeyboardOnly)) /\
  (mi = PM_NUMERIC_COMPARISON -> has_yes_no i = true /\ has_yes_no r = true /\ sc = true) /\
  (mi <> PM_PASSKEY -> di = false /\ dr = false).
Proof. exact roles_complementary. Qed.
Print Assumptions C13_roles_complementary.

(* ---------------------------------------------------------------- negotiation, key distribution *)
(* After request / response both sessions hold the same SC, bonding, CT2 flags, the same masks
   and the same method, for all configurations, all masks and any answer of the responder's
   delegate that the initiator accepts. *)
Theorem C13_negotiation_agrees : forall ci cr ans sr si,
  responder_session false cr ans (request_of ci) = Some sr ->
  initiator_session false ci (response_of cr sr) = NegOk si ->
  negotiated_ok false ci cr ans si sr.
Proof. exact negotiation. Qed.
Print Assumptions C13_negotiation_agrees.

(* What one side waits for (compute_peer_expected_distributions) is exactly what the other
   sends (distribute_keys): for every mask, SC on or off, LE or BR/EDR. *)
Theorem C13_expectations_match : forall sc bredr kd, expected sc bredr kd = distributed sc bredr kd.
Proof. exact expectations_match. Qed.
Print Assumptions C13_expectations_match.

(* hence the key distribution phase completes on both sides: nobody waits for a key that is not
   sent, nobody receives a key it does not expect *)
Theorem C13_key_distribution_completes : forall ci cr ans si sr,
  negotiated_ok false ci cr ans si sr -> phase3 false si sr = (Completed, Completed).
Proof. exact phase3_completes. Qed.
Print Assumptions C13_key_distribution_completes.

(* the same by complete evaluation: all 16 x 16 masks on each side x SC x bonding on each side,
   through request, response and phase 3; the expected lists literally equal the sent lists *)
Theorem C13_expectations_match_finite : forall sci scr bi br ii ri ir rr,
  0 <= ii < 16 -> 0 <= ri < 16 -> 0 <= ir < 16 -> 0 <= rr < 16 ->
  phase3_case sci scr bi br ii ri ir rr = true.
Proof. exact expectations_match_finite. Qed.
Print Assumptions C13_expectations_match_finite.

(* ---------------------------------------------------------------- outcome *)
(* Both sides complete (and both write keys) or both report failure with the same reason and
   neither writes anything; for all configurations, user answers, faults and every toolbox. *)
Theorem C13_both_or_neither : forall T e ci cr i r si sr link,
  pair_with T e ci cr = Res i r si sr link ->
  (r_outcome i = Completed /\ r_outcome r = Completed /\ r_store i <> None /\ r_store r <> None)
  \/ (exists reason, nothing_stored_tb i r reason).
Proof. exact tb_both_or_neither. Qed.
Print Assumptions C13_both_or_neither.

Theorem C13_never_hangs_model : forall T e ci cr i r si sr link,
  pair_with T e ci cr = Res i r si sr link -> r_outcome i <> Hung /\ r_outcome r <> Hung.
Proof. exact tb_never_hangs. Qed.
Print Assumptions C13_never_hangs_model.

(* the link is encrypted under one shared key (STK or LTK) *)
Theorem C13_link_key_shared : forall T, toolbox_ok T -> forall e ci cr i r si sr a b,
  pair_with T e ci cr = Res i r si sr (Some (a, b)) ->
  e_bad_confirm_i e = false -> e_bad_confirm_r e = false -> a = b.
Proof. exact tb_link_key_shared. Qed.
Print Assumptions C13_link_key_shared.

(* The property end to end (modelled flows): both completed, with one shared link key, keys stored
   on both sides, and on a later connection in either role order the peripheral's store yields the
   key the central's store yields - or both report the same failure and neither stored anything. *)
Theorem C13_pairing_end_to_end : forall T, toolbox_ok T -> forall e ci cr i r si sr link,
  pair_with T e ci cr = Res i r si sr link ->
  (r_outcome i = Completed /\ r_outcome r = Completed /\
   exists ki kr, r_store i = Some ki /\ r_store r = Some kr /\
     (forall k, central_request _ ki = Some k -> peripheral_reply _ kr = Some k) /\
     (forall k, central_request _ kr = Some k -> peripheral_reply _ ki = Some k) /\
     (e_bad_confirm_i e = false -> e_bad_confirm_r e = false ->
      forall a b, link = Some (a, b) -> a = b))
  \/ (exists reason, nothing_stored_tb i r reason).
Proof. exact pairing_end_to_end. Qed.
Print Assumptions C13_pairing_end_to_end.

(* ---------------------------------------------------------------- a failed check stores nothing *)
Theorem C13_wrong_passkey_stores_nothing : forall T, toolbox_ok T ->
  forall e ci cr i r s_i s_r link pi pr,
  pair_with T e ci cr = Res i r (Some s_i) (Some s_r) link ->
  s_method s_i = PM_PASSKEY ->
  e_bad_confirm_i e = false -> e_bad_confirm_r e = false -> env_ok e = true ->
  own_passkey e s_i (e_typed_i e) = Some pi -> own_passkey e s_r (e_typed_r e) = Some pr ->
  pi <> pr ->
  nothing_stored_tb i r ERR_CONFIRM_VALUE_FAILED.
Proof. exact tb_wrong_passkey_stores_nothing. Qed.
Print Assumptions C13_wrong_passkey_stores_nothing.

(* a Pairing Confirm value or a DHKey Check that does not match (altered in transit, the rest of
   the run honest) *)
Theorem C13_mismatching_check_stores_nothing : forall T, toolbox_ok T ->
  forall e ci cr i r s_i s_r link,
  pair_with T e ci cr = Res i r (Some s_i) (Some s_r) link ->
  same_passkeys e s_i s_r ->
  relevant_tamper e s_i = true ->
  exists reason, nothing_stored_tb i r reason.
Proof. exact tb_tampered_check_stores_nothing. Qed.
Print Assumptions C13_mismatching_check_stores_nothing.

(* the user refuses the confirmation or says the numbers differ *)
Theorem C13_user_refusal_stores_nothing : forall T e ci cr i r s_i s_r link,
  pair_with T e ci cr = Res i r (Some s_i) (Some s_r) link ->
  s_sc s_i = true ->
  (s_method s_i = PM_JUST_WORKS /\ e_confirm_i e && e_confirm_r e = false) \/
  (s_method s_i = PM_NUMERIC_COMPARISON /\ e_compare_i e && e_compare_r e = false) ->
  nothing_stored_tb i r ERR_CONFIRM_VALUE_FAILED.
Proof. exact tb_user_refusal_stores_nothing. Qed.
Print Assumptions C13_user_refusal_stores_nothing.

Theorem C13_reject_stores_nothing : forall T e ci cr,
  e_accept e = false ->
  pair_with T e ci cr = failed_both _ ERR_PAIRING_NOT_SUPPORTED None None.
Proof. exact tb_reject_stores_nothing. Qed.
Print Assumptions C13_reject_stores_nothing.

(* ---------------------------------------------------------------- honest authentication *)
(* Any key either side stores with authenticated = True implies: the pairing completed on both
   sides, with passkey entry or numeric comparison, MITM protection was requested by a side, and
   the model was really exercised: with numeric comparison both users confirmed (and secure
   connections was used); with passkey entry both sides worked with the same passkey. *)
Theorem C13_authenticated_only_if_mitm_model : forall T, toolbox_ok T ->
  forall e ci cr i r si sr link ks,
  pair_with T e ci cr = Res i r si sr link ->
  r_store i = Some ks \/ r_store r = Some ks ->
  any_auth ks = true ->
  exists s_i s_r, si = Some s_i /\ sr = Some s_r /\
    r_outcome i = Completed /\ r_outcome r = Completed /\
    s_method s_i = s_method s_r /\
    (s_method s_i = PM_PASSKEY \/ s_method s_i = PM_NUMERIC_COMPARISON) /\
    c_mitm ci || c_mitm cr = true /\
    (s_method s_i = PM_NUMERIC_COMPARISON ->
       e_compare_i e = true /\ e_compare_r e = true /\ s_sc s_i = true) /\
    (s_method s_i = PM_PASSKEY -> e_bad_confirm_i e = false -> e_bad_confirm_r e = false ->
       env_ok e = true ->
       exists p, own_passkey e s_i (e_typed_i e) = Some p /\ own_passkey e s_r (e_typed_r e) = Some p).
Proof. exact tb_authenticated_only_if_mitm_model. Qed.
Print Assumptions C13_authenticated_only_if_mitm_model.

(* cross-transport key derivation (fixes/D13b.patch): derived keys are authenticated only when
   the BR/EDR link key they come from is *)
Theorem C13_ctkd_authenticated_inherits : forall (V : Type) (lk : V -> V) e s own cmds peer,
  s_method s = PM_CTKD_OVER_CLASSIC ->
  any_auth (stored V lk e true s own cmds peer) = true -> e_lk_auth e = true.
Proof. exact ctkd_store_authenticated. Qed.
Print Assumptions C13_ctkd_authenticated_inherits.

(* ---------------------------------------------------------------- a later connection *)
(* Whatever key Device.encrypt on the central reads from its store, Device.get_long_term_key
   on the peripheral returns the same key: with the initiator as central again, and in swapped
   roles (fixes/D13a.patch). *)
Theorem C13_reconnect_same_key : forall T, toolbox_ok T ->
  forall e ci cr i r si sr link ki kr,
  pair_with T e ci cr = Res i r si sr link ->
  r_store i = Some ki -> r_store r = Some kr ->
  (forall k, central_request _ ki = Some k -> peripheral_reply _ kr = Some k) /\
  (forall k, central_request _ kr = Some k -> peripheral_reply _ ki = Some k).
Proof. exact tb_reconnect_same_key. Qed.
Print Assumptions C13_reconnect_same_key.

(* ... and a key is available exactly when one was negotiated for that direction *)
Theorem C13_reconnect_available : forall T e ci cr i r s_i s_r link ki kr,
  pair_with T e ci cr = Res i r (Some s_i) (Some s_r) link ->
  r_store i = Some ki -> r_store r = Some kr ->
  (central_request _ ki <> None <-> s_sc s_i = true \/ has_flag (s_rkd s_r) KD_ENC_KEY = true) /\
  (central_request _ kr <> None <-> s_sc s_i = true \/ has_flag (s_ikd s_i) KD_ENC_KEY = true).
Proof. exact tb_reconnect_available. Qed.
Print Assumptions C13_reconnect_available.

(* both sides store a BR/EDR link key only after secure connections, and then the same one
   (fixes/D13d.patch) *)
Theorem C13_link_key_store_shared : forall T, toolbox_ok T ->
  forall e ci cr i r s_i s_r link ki kr,
  pair_with T e ci cr = Res i r (Some s_i) (Some s_r) link ->
  r_store i = Some ki -> r_store r = Some kr ->
  (s_sc s_i = false -> ks_link_key ki = None /\ ks_link_key kr = None) /\
  (forall a b, ks_link_key ki = Some a -> ks_link_key kr = Some b -> k_value a = k_value b).
Proof. exact tb_link_key_store_shared. Qed.
Print Assumptions C13_link_key_store_shared.

(* ---------------------------------------------------------------- CTKD over BR/EDR *)
(* for every pair of configurations and every mask the two sessions select CTKD and the key
   distribution phase completes on both sides (fixes/D13e.patch: a side that expects no key
   completes instead of waiting for ever) *)
Theorem C13_ctkd_flow_completes : forall ci cr ans sr si,
  responder_session true cr ans (request_of ci) = Some sr ->
  initiator_session true ci (response_of cr sr) = NegOk si ->
  phase3 true si sr = (Completed, Completed) /\
  (c_oob ci || c_oob cr = false -> s_method si = PM_CTKD_OVER_CLASSIC /\ s_method sr = PM_CTKD_OVER_CLASSIC).
Proof. exact ctkd_flow_completes. Qed.
Print Assumptions C13_ctkd_flow_completes.

(* what a CTKD session stores is authenticated only when the link key is; a side whose own
   negotiated mask has ENC_KEY does store; one whose mask lacks it reports and stores nothing -
   Session.on_pairing raises for want of self.ltk (known finding D13f) *)
Theorem C13_ctkd_store_authenticated : forall (V : Type) e s lk ltk cmds ks,
  s_method s = PM_CTKD_OVER_CLASSIC ->
  ctkd_store V e s lk ltk cmds = Some ks -> any_auth ks = true -> e_lk_auth e = true.
Proof. exact ctkd_flow_store_authenticated. Qed.
Print Assumptions C13_ctkd_store_authenticated.

Theorem C13_ctkd_with_enc_key_stores : forall (V : Type) e s lk ltk cmds,
  has_flag (own_kd s) KD_ENC_KEY = true -> ctkd_store V e s lk ltk cmds <> None.
Proof. exact ctkd_with_enc_key_stores. Qed.
Print Assumptions C13_ctkd_with_enc_key_stores.

Theorem C13_ctkd_without_enc_key_refuted : forall (V : Type) e s lk ltk cmds,
  has_flag (own_kd s) KD_ENC_KEY = false -> ctkd_store V e s lk ltk cmds = None.
Proof. exact ctkd_without_enc_key_refuted. Qed.
Print Assumptions C13_ctkd_without_enc_key_refuted.

(* ---------------------------------------------------------------- every schedule (message level) *)
(* Model/PairingMsg.v: the two sessions as reactive handlers over FIFO inboxes; a schedule is any
   list of labels (deliver to the initiator / to the responder, the initiator's / the responder's
   user answers), of any length; a disabled label is a stutter.  For every configuration of the
   family (9 method/role shapes x all 16x16 masks; every combination of rejection, answer outside
   the request, each user's yes/no, right / refused / wrong passkey on each side, each Confirm and
   DHKey check altered or not; a wrong passkey differing first at each of the 20 bits) and EVERY
   schedule: never one side completed and the other failed; whenever nothing is enabled both
   sides have ended (no deadlock); a run that must fail never completes on either side and one
   that need not never fails; two failures carry the same reason; fewer than FUEL = 400 effective
   steps (no livelock). *)
Theorem C13_every_schedule : forall c, In c family -> forall sched,
  let s := mrun c sched in
  d_err (m_i s) = false /\ d_err (m_r s) = false /\
  ~ (d_out (m_i s) = 1 /\ d_out (m_r s) = 2) /\ ~ (d_out (m_i s) = 2 /\ d_out (m_r s) = 1) /\
  (quiescent s = true -> d_out (m_i s) <> 0 /\ d_out (m_r s) <> 0) /\
  (must_fail c = true -> d_out (m_i s) <> 1 /\ d_out (m_r s) <> 1) /\
  (must_fail c = false -> d_out (m_i s) <> 2 /\ d_out (m_r s) <> 2) /\
  (d_out (m_i s) = 2 -> d_out (m_r s) = 2 -> d_reason (m_i s) = d_reason (m_r s)) /\
  (effective c minit sched < FUEL)%nat.
Proof. exact schedules_ok. Qed.
Print Assumptions C13_every_schedule.

(* the exploration behind it is a verified reachability check, for any configuration *)
Theorem C13_exploration_sound : forall c, explore_ok c = true ->
  forall sched, minv c (mrun c sched) = true /\ (effective c minit sched < FUEL)%nat.
Proof. exact explore_sound. Qed.
Print Assumptions C13_exploration_sound.

(* The value-level model ends exactly as the message-level model does (same outcome, same
   reasons), and its message-level configuration keeps the invariant under every schedule: all
   5x5 capabilities x SC on each side x MITM on each side x 18 environments. *)
Theorem C13_levels_agree : forall ci cr e, In (ci, cr, e) concrete ->
  agrees ci cr e = true /\
  forall c, abs_of ci cr e = Some c -> forall sched, minv c (mrun c sched) = true.
Proof. exact concrete_agrees. Qed.
Print Assumptions C13_levels_agree.

(* ---------------------------------------------------------------- the model's shape is the source's *)
(* compute_peer_expected_distributions and distribute_keys (both roles) as parsed from the
   current source compute the model's lists and link-key condition *)
Theorem C13_distribution_matches_source : forall sc bredr kd, 0 <= kd < 256 ->
  interp_expected expected_skeleton sc bredr kd = expected sc bredr kd /\
  interp_distribute distribute_skeleton_initiator sc bredr kd = distributed sc bredr kd /\
  interp_distribute distribute_skeleton_responder sc bredr kd = distributed sc bredr kd /\
  interp_link distribute_skeleton_initiator sc bredr kd = model_link sc bredr kd /\
  interp_link distribute_skeleton_responder sc bredr kd = model_link sc bredr kd.
Proof. exact distribution_matches_source. Qed.
Print Assumptions C13_distribution_matches_source.

(* the statements of Session.on_pairing, Device.encrypt, Device.get_long_term_key and
   Session.get_long_term_key that file or read a key are the ones the model was written from *)
Theorem C13_filing_matches_source :
  on_pairing_source = on_pairing_reading /\
  encrypt_source = encrypt_reading /\
  provider_source = provider_reading /\
  session_provider_source = session_provider_reading.
Proof. exact filing_matches_source. Qed.
Print Assumptions C13_filing_matches_source.

(* on_smp_pairing_request_command_async / on_smp_pairing_response_command: the negotiated fields are
   assigned, the method decided, the masks set, the expectations computed and phase 2 started in the
   order the models assume (sc is negotiated before decide_pairing_method reads it) *)
Theorem C13_handlers_match_source :
  request_handler_source = request_handler_reading /\
  response_handler_source = response_handler_reading.
Proof. exact handlers_match_source. Qed.
Print Assumptions C13_handlers_match_source.

(* ---------------------------------------------------------------- sessions across connections *)
(* Manager.sessions over any sequence of pairings, session ends and disconnections, on any handles
   (handles are reused): no session stays registered for a connection that has gone down *)
Theorem C13_no_stale_session : forall ops, mgr_ok (mgr_run ops) = true.
Proof. exact mgr_always_ok. Qed.
Print Assumptions C13_no_stale_session.

Theorem C13_disconnect_ends_session : forall g h,
  find_session h (mg_sessions (mgr_step g (OpDisconnect h))) = None.
Proof. exact disconnect_ends_session. Qed.
Print Assumptions C13_disconnect_ends_session.

(* a pairing on a reused handle starts from a fresh, not completed session, whether this device
   initiates (Manager.pair) or receives the Pairing Request (Manager.on_smp_pdu) *)
Theorem C13_fresh_session_after_disconnect : forall g h,
  (forall s, In s (mg_sessions g) -> ms_id s < mg_next g) ->
  let g1 := mgr_step g (OpDisconnect h) in
  (exists s, find_session h (mg_sessions (mgr_step g1 (OpPair h))) = Some s /\ ms_id s = mg_next g /\ ms_completed s = false) /\
  (exists s, find_session h (mg_sessions (mgr_step g1 (OpPdu h true))) = Some s /\ ms_id s = mg_next g /\ ms_completed s = false).
Proof. exact fresh_session_after_disconnect. Qed.
Print Assumptions C13_fresh_session_after_disconnect.

(* sparing completed sessions at disconnection (seeded change C13-e) breaks both *)
Theorem C13_spare_completed_refuted :
  let g := fold_left mgr_step_spare [OpPdu 1 true; OpEnded 1 false; OpDisconnect 1] mgr0 in
  mgr_ok g = false /\
  exists s, find_session 1 (mg_sessions (mgr_step_spare g (OpPdu 1 true))) = Some s /\ ms_completed s = true.
Proof. exact spare_completed_refuted. Qed.
Print Assumptions C13_spare_completed_refuted.

(* Session.on_disconnection, Session.on_pairing_failure, Manager.on_session_end, Manager.pair and
   Manager.on_smp_pdu maintain the table the way [mgr_step] assumes *)
Theorem C13_session_table_matches_source :
  session_on_disconnection_source = session_on_disconnection_reading /\
  session_on_pairing_failure_source = session_on_pairing_failure_reading /\
  manager_on_session_end_source = manager_on_session_end_reading /\
  manager_pair_source = manager_pair_reading /\
  manager_on_smp_pdu_source = manager_on_smp_pdu_reading.
Proof. exact session_table_matches_source. Qed.
Print Assumptions C13_session_table_matches_source.

(* ---------------------------------------------------------------- the hypotheses are satisfiable *)
Theorem C13_toolbox_satisfiable : toolbox_ok term_toolbox.
Proof. exact term_toolbox_ok. Qed.
Print Assumptions C13_toolbox_satisfiable.

(* ---------------------------------------------------------------- the code before the fixes *)
(* D13a: the original slots of Session.on_pairing: the central reads the responder's LTK, the
   peripheral returns the initiator's, in both role orders *)
Theorem C13_reconnect_refuted_before_D13a :
  central_request term (orig_store true) = Some (TLtk false) /\
  peripheral_reply term (orig_store false) = Some (TLtk true) /\
  central_request term (orig_store false) = Some (TLtk false) /\
  peripheral_reply term (orig_store true) = Some (TLtk true) /\
  TLtk false <> TLtk true.
Proof. exact reconnect_refuted_orig. Qed.
Print Assumptions C13_reconnect_refuted_before_D13a.

(* D13b: the original flag marks CTKD keys authenticated whatever the link key was *)
Theorem C13_ctkd_authenticated_refuted_before_D13b :
  let s := mkSession true true true false PM_CTKD_OVER_CLASSIC false 3 3 [] in
  ks_ltk (stored_orig term TLk true s (TLtk true) [] TZero TZero) = Some (mkKey (TLtk true) true false).
Proof. exact ctkd_authenticated_refuted_orig. Qed.
Print Assumptions C13_ctkd_authenticated_refuted_before_D13b.

(* ---------------------------------------------------------------- non-vacuity *)
(* legacy, both distribute everything: completes; the central's key is the responder's LTK in
   the same roles and the initiator's LTK in swapped roles *)
Example C13_nonvacuous_legacy :
  run_obs (mkConfig 3 false false true 15 15 false) (mkConfig 3 false false true 15 15 false) honest_env =
  (true,
   (((0, 0), [[]; [2; 0]; [1; 0]; [0]; [0]; []], []), ((0, 0), [[]; [1; 0]; [2; 0]; [0]; [0]; []], [0])),
   ([0; 0; 1; 0; 15; 15; 0], [0; 0; 1; 0; 15; 15; 0]), [4; 4; 1], ([2; 2], [1; 1])).
Proof. vm_compute. reflexivity. Qed.

(* secure connections passkey entry with the right passkey: authenticated keys; with a wrong
   one: both fail with Confirm Value Failed and store nothing *)
Example C13_nonvacuous_passkey :
  run_obs (mkConfig 4 true true true 15 15 false) (mkConfig 2 true true true 15 15 false) honest_env =
  (true,
   (((0, 0), [[3; 1]; []; []; [1]; [1]; [1]], [4]), ((0, 0), [[3; 1]; []; []; [1]; [1]; [1]], [0; 3])),
   ([2; 1; 1; 0; 15; 15; 1], [2; 1; 1; 0; 15; 15; 0]), [3; 3; 1], ([3; 3], [3; 3])).
Proof. vm_compute. reflexivity. Qed.

Example C13_nonvacuous_wrong_passkey :
  run_obs (mkConfig 4 true true true 15 15 false) (mkConfig 2 true true true 15 15 false)
          (mkEnv true None true true true true 123456 (Some 123456) (Some 123457) false false false false false) =
  (true, (((1, 4), [], []), ((1, 4), [], [])),
   ([2; 1; 1; 0; 15; 15; 1], [2; 1; 1; 0; 15; 15; 0]), [], ([], [])).
Proof. vm_compute. reflexivity. Qed.

(* the family of the schedule theorem is inhabited; a must-fail and a need-not-fail member *)
Example C13_family_nonempty : In (honest (true, PM_PASSKEY, true, false) 7 5) family.
Proof. exact family_nonempty. Qed.

Example C13_must_fail_examples :
  must_fail (honest (true, PM_PASSKEY, true, false) 7 5) = false /\
  must_fail (mk (true, PM_PASSKEY, true, false) true true true true EntryOk (EntryWrong 7)
                false false false false 7 5) = true.
Proof. vm_compute. split; reflexivity. Qed.
