(* Property C01: HCI packets survive serialise/parse unchanged, for every packet class.
   Statements only; each is closed by [exact] from Proofs/ or, for the obligations that are
   re-checked against the regenerated registry on every run, by [vm_compute].

   Gen.C01Registry is regenerated from bumble/hci.py by tools/translate/c01_fieldspecs.py
   on every run: [registry] = every class in HCI_Command.command_classes,
   HCI_Event.event_classes, HCI_LE_Meta_Event.subevent_classes and every return
   parameters class, with its field list as a [list field] term. *)
From Coq Require Import String ZArith List Bool.
From BV Require Import Base.Bytes Proofs.Bytes Model.SpecCodec Proofs.SpecCodec Model.HciPacket Proofs.HciPacket Model.HciSource Gen.C01Registry Gen.C01Source.
Import ListNotations.
Open Scope Z_scope.

(* ---------------------------------------------------------------- per-run obligations *)
(* The models match the source: the canonical text (AST without doc strings, comments,
   logging, annotations, exception messages) of every function the models are a reading of -
   parse_field and serialize_field arm by arm (struct formats, sizes, slices), the dict /
   array loops, the enum type_spec lambdas, the Address / CodingFormat / length-prefixed
   parsers, from_bytes / __bytes__ / parameters / __init__ of commands, events, extended
   events, Command Complete, ACL, SCO, ISO (header formats, shifts, masks, length
   comparisons), the two PHY-mask commands, the Android vendor factory and return parse,
   and the numeric constants they dispatch on - regenerated from the sources on every run,
   is the text the models were written against (Model/HciSource.v). *)
Theorem C01_model_matches_source : pins_match source_pins expected_pins = true.
Proof. vm_compute. reflexivity. Qed.
Print Assumptions C01_model_matches_source.

(* Every registered class has a well-formed field list (widths the codec has cases for,
   '*' / padded fields only in last position, array groups non-empty and self-delimiting),
   no (kind, code) is registered twice, every command's return class exists. *)
Theorem C01_registry_wf : wf_registry registry = true.
Proof. vm_compute. reflexivity. Qed.
Print Assumptions C01_registry_wf.

(* The four registries (commands, events, LE sub-events, vendor sub-events) are distinct dict
   objects, and every vendor factory dispatches to a registered vendor sub-event class.
   (Part of C01_registry_wf; stated separately because the unknown-code and event-code
   theorems below rest on it together with kind consistency.) *)
Theorem C01_registries_distinct : objects_distinct registry = true /\ vendor_ok registry = true.
Proof. vm_compute. split; reflexivity. Qed.
Print Assumptions C01_registries_distinct.

(* Kind consistency: the class a dispatcher finds in its registry writes that dispatcher's
   event code - event classes their own code, every LE sub-event class 0x3E, every vendor
   sub-event class 0xFF.  Derived from C01_registry_wf. *)
Theorem C01_kind_consistent : forall kind code c,
  find_class registry kind code = Some c -> c_event c = expected_event kind code.
Proof.
  intros kind code c. apply class_event_ok.
  exact (proj1 (wf_registry_parts registry C01_registry_wf)).
Qed.
Print Assumptions C01_kind_consistent.

Theorem C01_registry_codes_unique : codes_unique registry = true.
Proof. vm_compute. reflexivity. Qed.
Print Assumptions C01_registry_codes_unique.

(* The class that parses a code is the class registered under it. *)
Theorem C01_class_lookup : forall c, In c (r_classes registry) ->
  find_class registry (c_kind c) (c_code c) = Some c.
Proof. intros c. exact (find_class_complete registry c C01_registry_codes_unique). Qed.
Print Assumptions C01_class_lookup.

(* ---------------------------------------------------------------- every class, every value *)
(* fields -> bytes -> fields: for every class in the registry and every in-range value
   list, serialisation succeeds and parsing the bytes gives the same values back, without
   reading past the end. *)
Theorem C01_fields_roundtrip : forall c, In c (r_classes registry) ->
  forall prev0 vs, in_range (c_fields c) prev0 vs = true ->
  exists b n, serialize_fields (c_fields c) vs = Some b /\
              parse_fields (c_fields c) prev0 b = Some (vs, n) /\ (n <= length b)%nat.
Proof. exact (class_fields_roundtrip registry C01_registry_wf). Qed.
Print Assumptions C01_fields_roundtrip.

(* bytes -> fields -> bytes: whatever prefix a class's parser consumed is reproduced exactly
   by serialising the parsed values (zero padding follows only for the padded field). *)
Theorem C01_bytes_roundtrip : forall c, In c (r_classes registry) ->
  forall prev0 bs vs n, bytes_ok bs = true ->
  parse_fields (c_fields c) prev0 bs = Some (vs, n) -> (n <= length bs)%nat ->
  exists pad, serialize_fields (c_fields c) vs = Some (firstn n bs ++ pad) /\
              (tight_fields (c_fields c) = true -> pad = []).
Proof. exact (class_bytes_roundtrip registry C01_registry_wf). Qed.
Print Assumptions C01_bytes_roundtrip.

(* ---------------------------------------------------------------- the codec, every spec list *)
Theorem C01_codec_parse_serialize : forall fs prev0 vs,
  wf_fields fs = true -> in_range fs prev0 vs = true ->
  exists b n, serialize_fields fs vs = Some b /\
              parse_fields fs prev0 b = Some (vs, n) /\ (n <= length b)%nat.
Proof. exact parse_serialize. Qed.
Print Assumptions C01_codec_parse_serialize.

(* self-delimiting field lists parse back whatever bytes follow them *)
Theorem C01_codec_parse_serialize_tail : forall fs prev0 vs,
  tight_fields fs = true -> in_range fs prev0 vs = true ->
  exists b, serialize_fields fs vs = Some b /\
            forall tail, parse_fields fs prev0 (b ++ tail) = Some (vs, length b).
Proof. exact parse_serialize_tight. Qed.
Print Assumptions C01_codec_parse_serialize_tail.

Theorem C01_codec_serialize_parse : forall fs prev0 bs vs n,
  wf_fields fs = true -> bytes_ok bs = true ->
  parse_fields fs prev0 bs = Some (vs, n) -> (n <= length bs)%nat ->
  exists pad, serialize_fields fs vs = Some (firstn n bs ++ pad) /\
              (tight_fields fs = true -> pad = []).
Proof. exact serialize_parse. Qed.
Print Assumptions C01_codec_serialize_parse.

(* strict field lists reject too-short input (never a partial value) *)
Theorem C01_codec_rejects_short : forall fs prev0 bs,
  strict_fields fs = true ->
  forall vs n, parse_fields fs prev0 bs = Some (vs, n) -> (length bs < n)%nat -> False.
Proof. exact strict_rejects_short. Qed.
Print Assumptions C01_codec_rejects_short.

(* fixed-width integers, both directions (Base/Bytes.v, reusable) *)
Theorem C01_uint_le_roundtrip : forall n v, 0 <= v < pow256 n -> le_decode (le_encode n v) = v.
Proof. exact le_decode_encode. Qed.
Print Assumptions C01_uint_le_roundtrip.

Theorem C01_uint_le_bytes : forall bs, bytes_ok bs = true -> le_encode (length bs) (le_decode bs) = bs.
Proof. exact le_encode_decode. Qed.
Print Assumptions C01_uint_le_bytes.

Theorem C01_uint_be_roundtrip : forall n v, 0 <= v < pow256 n -> be_decode (be_encode n v) = v.
Proof. exact be_decode_encode. Qed.
Print Assumptions C01_uint_be_roundtrip.

Theorem C01_sint_roundtrip : forall n v,
  s_range (S n) v = true -> les_decode (les_encode (S n) v) = v.
Proof. exact les_decode_encode. Qed.
Print Assumptions C01_sint_roundtrip.

(* ---------------------------------------------------------------- commands *)
Theorem C01_command_roundtrip : forall c vs ps,
  find_class registry K_COMMAND (c_code c) = Some c ->
  serialize_fields (c_fields c) vs = Some ps -> (length ps < 256)%nat ->
  in_range (c_fields c) (last ps 0) vs = true ->
  exists b, packet_bytes registry (PCommand (c_code c) true vs ps) = Some b /\
            parse_packet registry b = Some (PCommand (c_code c) true vs ps).
Proof.
  intros c vs ps Hf. pose proof (find_class_sound registry _ _ _ Hf) as [Hin [Hk Hc]].
  pose proof (registry_class_wf registry c C01_registry_wf Hin) as Hw.
  assert (Hop : u_range 2 (c_code c) = true).
  { pose proof (proj1 (wf_registry_parts registry C01_registry_wf)) as H.
    rewrite forallb_forall in H. specialize (H c Hin). unfold wf_class in H.
    apply andb_true_iff in H as [_ H]. rewrite Hk in H. cbn in H.
    apply andb_true_iff in H as [H _]. exact H. }
  exact (command_roundtrip registry c vs ps Hf Hw Hop).
Qed.
Print Assumptions C01_command_roundtrip.

Theorem C01_command_bytes_roundtrip : forall b op known vs params,
  bytes_ok b = true -> hd 0 b = HCI_COMMAND_PACKET -> find_phy registry op = None ->
  parse_command registry b = Some (PCommand op known vs params) -> params <> [] ->
  packet_bytes registry (PCommand op known vs params) = Some b.
Proof. exact (command_bytes_roundtrip registry). Qed.
Print Assumptions C01_command_bytes_roundtrip.

Theorem C01_command_length_checked : forall b0 b1 b2 b3 rest,
  Z.of_nat (length rest) <> b3 -> parse_command registry (b0 :: b1 :: b2 :: b3 :: rest) = None.
Proof. exact (command_length_checked registry). Qed.
Print Assumptions C01_command_length_checked.

Theorem C01_unknown_opcode_preserved : forall op params,
  find_class registry K_COMMAND op = None -> find_phy registry op = None ->
  u_range 2 op = true -> (length params < 256)%nat ->
  let b := HCI_COMMAND_PACKET :: le_encode 2 op ++ [Z.of_nat (length params)] ++ params in
  parse_packet registry b = Some (PCommand op false [] params) /\
  packet_bytes registry (PCommand op false [] params) = Some b.
Proof. exact (unknown_opcode_preserved registry). Qed.
Print Assumptions C01_unknown_opcode_preserved.

(* ---------------------------------------------------------------- events *)
Theorem C01_event_roundtrip : forall c vs ps,
  find_class registry K_EVENT (c_code c) = Some c ->
  c_code c <> HCI_LE_META_EVENT -> c_code c <> HCI_COMMAND_COMPLETE_EVENT ->
  c_code c <> HCI_VENDOR_EVENT ->
  wf_fields (c_fields c) = true -> u_range 1 (c_code c) = true ->
  serialize_fields (c_fields c) vs = Some ps -> (length ps < 256)%nat ->
  in_range (c_fields c) (last ps 0) vs = true ->
  exists b, packet_bytes registry (PEvent (c_code c) true vs ps) = Some b /\
            forall extra, parse_packet registry (b ++ extra) = Some (PEvent (c_code c) true vs ps).
Proof.
  intros c vs ps Hf. exact (event_roundtrip registry c vs ps Hf (C01_kind_consistent _ _ _ Hf)).
Qed.
Print Assumptions C01_event_roundtrip.

Theorem C01_le_meta_roundtrip : forall c vs ps,
  find_class registry K_LE_EVENT (c_code c) = Some c ->
  wf_fields (c_fields c) = true -> u_range 1 (c_code c) = true ->
  serialize_fields (c_fields c) vs = Some ps -> (length ps < 255)%nat ->
  in_range (c_fields c) (c_code c) vs = true ->
  exists b, packet_bytes registry (PLeMeta (c_code c) true vs (c_code c :: ps)) = Some b /\
            forall extra, parse_packet registry (b ++ extra) =
                          Some (PLeMeta (c_code c) true vs (c_code c :: ps)).
Proof.
  intros c vs ps Hf. exact (le_meta_roundtrip registry c vs ps Hf (C01_kind_consistent _ _ _ Hf)).
Qed.
Print Assumptions C01_le_meta_roundtrip.

(* every event (plain, Command Complete, LE meta, vendor sub-event, generic) with an exact
   length field and a non-empty parameter block re-serialises to the bytes it was parsed
   from - in particular under the event code it arrived with, whatever class the dispatcher
   found for it (kind consistency of the regenerated registries) *)
Theorem C01_event_bytes_roundtrip : forall code ps p,
  bytes_ok (code :: ps) = true -> (length ps < 256)%nat -> ps <> [] ->
  parse_event registry (HCI_EVENT_PACKET :: code :: Z.of_nat (length ps) :: ps) = Some p ->
  packet_bytes registry p = Some (HCI_EVENT_PACKET :: code :: Z.of_nat (length ps) :: ps).
Proof.
  intros code ps p.
  exact (event_bytes_roundtrip registry code ps p (proj1 (wf_registry_parts registry C01_registry_wf))).
Qed.
Print Assumptions C01_event_bytes_roundtrip.

Theorem C01_event_too_short : forall b0 code len rest,
  (length rest < Z.to_nat len)%nat -> parse_event registry (b0 :: code :: len :: rest) = None.
Proof. exact (event_too_short registry). Qed.
Print Assumptions C01_event_too_short.

Theorem C01_unknown_event_preserved : forall code params,
  code <> HCI_LE_META_EVENT -> code <> HCI_VENDOR_EVENT -> find_class registry K_EVENT code = None ->
  u_range 1 code = true -> (length params < 256)%nat ->
  let b := HCI_EVENT_PACKET :: code :: Z.of_nat (length params) :: params in
  parse_packet registry b = Some (PEvent code false [] params) /\
  packet_bytes registry (PEvent code false [] params) = Some b.
Proof. exact (unknown_event_preserved registry). Qed.
Print Assumptions C01_unknown_event_preserved.

Theorem C01_unknown_subevent_preserved : forall sub rest,
  find_class registry K_LE_EVENT sub = None -> u_range 1 sub = true -> (length rest < 255)%nat ->
  let params := sub :: rest in
  let b := HCI_EVENT_PACKET :: HCI_LE_META_EVENT :: Z.of_nat (length params) :: params in
  parse_packet registry b = Some (PLeMeta sub false [] params) /\
  packet_bytes registry (PLeMeta sub false [] params) = Some b.
Proof. exact (unknown_subevent_preserved registry). Qed.
Print Assumptions C01_unknown_subevent_preserved.

(* vendor events (0xFF): unless a registered factory claims the first two parameter bytes,
   the packet is the generic vendor event with its data preserved byte for byte *)
Theorem C01_vendor_shape :
  option_map (fun c => (c_fields c, c_event c)) (find_class registry K_EVENT HCI_VENDOR_EVENT)
  = Some ([F1 Rest], HCI_VENDOR_EVENT).
Proof. vm_compute. reflexivity. Qed.
Print Assumptions C01_vendor_shape.

Theorem C01_vendor_generic_preserved : forall params,
  no_rule_matches (r_vendor registry) params = true -> (length params < 256)%nat ->
  let b := HCI_EVENT_PACKET :: HCI_VENDOR_EVENT :: Z.of_nat (length params) :: params in
  parse_packet registry b = Some (PEvent HCI_VENDOR_EVENT true [VBytes params] params) /\
  packet_bytes registry (PEvent HCI_VENDOR_EVENT true [VBytes params] params) = Some b.
Proof.
  intros params Hno.
  pose proof C01_vendor_shape as Hsh.
  destruct (find_class registry K_EVENT HCI_VENDOR_EVENT) as [c|] eqn:Hc; [|discriminate].
  cbn [option_map] in Hsh. injection Hsh as Hfs Hev.
  exact (vendor_generic_preserved registry c params Hno Hc Hfs Hev).
Qed.
Print Assumptions C01_vendor_generic_preserved.

(* complete sweep of the code spaces, inside the kernel: for EVERY one of the 256 event
   codes / LE sub-event codes the dispatcher either finds no class or finds a class that
   writes the same event code back; for every vendor sub-event code, likewise *)
Theorem C01_code_sweep :
  forallb (fun code =>
    match find_class registry K_EVENT code with Some c => c_event c =? code | None => true end &&
    match find_class registry K_LE_EVENT code with Some c => c_event c =? HCI_LE_META_EVENT | None => true end &&
    match find_class registry K_VENDOR code with Some c => c_event c =? HCI_VENDOR_EVENT | None => true end)
    (zr 8 0) = true.
Proof. vm_compute. reflexivity. Qed.
Print Assumptions C01_code_sweep.

(* ---------------------------------------------------------------- Command Complete *)
(* per-run obligation: the Command Complete event class has the field list the theorem is
   stated for (num_hci_command_packets: 1, command_opcode: 2, return_parameters: '*') *)
Theorem C01_cmd_complete_shape :
  option_map c_fields (find_class registry K_EVENT HCI_COMMAND_COMPLETE_EVENT) = Some CC_FIELDS.
Proof. vm_compute. reflexivity. Qed.
Print Assumptions C01_cmd_complete_shape.

(* Return parameters of any command: built from in-range values (status SUCCESS when the
   class starts with a status), serialised inside a Command Complete event, they are parsed
   back by the command's return class into the same values. *)
Theorem C01_cmd_complete_roundtrip : forall rc num op rn sf rvs rb,
  existsb (Z.eqb op) (r_lenient_return registry) = false ->
  assoc op (r_return registry) = Some (rn, sf) -> find_by_name registry K_RETURN rn = Some rc ->
  serialize_fields (c_fields rc) rvs = Some rb -> in_range (c_fields rc) (last rb 0) rvs = true ->
  (sf = true -> exists rest, rb = 0 :: rest) ->
  u_range 1 num = true -> u_range 2 op = true -> (length rb + 3 < 256)%nat ->
  let ps := le_encode 1 num ++ le_encode 2 op ++ rb in
  exists b, packet_bytes registry (PCmdComplete [VInt num; VInt op] rn rvs []) = Some b /\
            parse_packet registry b = Some (PCmdComplete [VInt num; VInt op] rn rvs ps).
Proof.
  intros rc num op rn sf rvs rb Hcust Hret Hrc.
  pose proof C01_cmd_complete_shape as Hsh.
  destruct (find_class registry K_EVENT HCI_COMMAND_COMPLETE_EVENT) as [cc|] eqn:Hcc; [|discriminate].
  cbn [option_map] in Hsh. injection Hsh as Hfs.
  assert (Hin : In rc (r_classes registry)).
  { unfold find_by_name in Hrc. apply find_some in Hrc as [Hin _]. exact Hin. }
  exact (cmd_complete_roundtrip registry cc rc num op rn sf rvs rb Hcc Hfs
           (C01_kind_consistent _ _ _ Hcc) Hcust Hret Hrc
           (registry_class_wf registry rc C01_registry_wf Hin)).
Qed.
Print Assumptions C01_cmd_complete_roundtrip.

(* ---------------------------------------------------------------- well-formed parameter blocks *)
(* "Well-formed" for a registered class = the class's parser consumes the parameter block
   exactly.  Then the cached bytes and the bytes recomputed from the fields coincide (also
   for an empty block), so bytes -> packet -> bytes does not depend on the cache.  A block
   the parser over-runs (C01_empty_block_witness: an empty block for a class made of a
   fixed byte array is accepted with a short value) is not well-formed; the code then
   re-serialises from the fields and the bytes differ - outside the property. *)
Theorem C01_wellformed_block_recomputes : forall c, In c (r_classes registry) ->
  forall prev ps vs, tight_fields (c_fields c) = true -> bytes_ok ps = true ->
  parse_fields (c_fields c) prev ps = Some (vs, length ps) ->
  serialize_fields (c_fields c) vs = Some ps /\ cached ps (serialize_fields (c_fields c) vs) = Some ps.
Proof.
  intros c Hin prev ps vs.
  exact (wellformed_block_recomputes (c_fields c) prev ps vs (registry_class_wf registry c C01_registry_wf Hin)).
Qed.
Print Assumptions C01_wellformed_block_recomputes.

(* ---------------------------------------------------------------- hand-written classes *)
(* The two commands whose item count is the number of bits set in a PHY mask
   (LE Set Extended Scan Parameters, LE Extended Create Connection): with as many per-PHY
   items as the mask has bits and every value in range, the parameter block parses back to
   the same values (whatever follows it), and the whole packet round-trips. *)
Theorem C01_phy_roundtrip : forall pc, In pc (r_phy registry) ->
  forall prev0 vs k, phy_count pc vs = Some k ->
  in_range (phy_fields pc k) prev0 vs = true ->
  exists b, serialize_phy pc vs = Some b /\
            forall tail, parse_phy pc prev0 (b ++ tail) = Some vs.
Proof.
  intros pc Hin prev0 vs k.
  apply phy_roundtrip.
  pose proof C01_registry_wf as H. unfold wf_registry in H. apply andb_true_iff in H as [_ H].
  rewrite forallb_forall in H. exact (H pc Hin).
Qed.
Print Assumptions C01_phy_roundtrip.

Theorem C01_phy_command_roundtrip : forall pc vs k b,
  find_class registry K_COMMAND (p_code pc) = None -> find_phy registry (p_code pc) = Some pc ->
  phy_count pc vs = Some k ->
  serialize_phy pc vs = Some b -> (length b < 256)%nat ->
  in_range (phy_fields pc k) (last b 0) vs = true ->
  exists pkt, packet_bytes registry (PCommand (p_code pc) true vs b) = Some pkt /\
              parse_packet registry pkt = Some (PCommand (p_code pc) true vs b).
Proof.
  intros pc vs k b Hf Hphy.
  apply (phy_command_roundtrip registry pc vs k b Hf Hphy).
  pose proof C01_registry_wf as H. unfold wf_registry in H. apply andb_true_iff in H as [_ H].
  rewrite forallb_forall in H. exact (H pc (proj2 (find_phy_code registry _ pc Hphy))).
Qed.
Print Assumptions C01_phy_command_roundtrip.

(* Return parameters parsed field by field until the data runs out (Android LE Get Vendor
   Capabilities): full-length parameters come back as the values that were serialised,
   whatever the status; a short block gives a full-length value list. *)
Theorem C01_lenient_return_roundtrip : forall rc op rn sf rvs,
  existsb (Z.eqb op) (r_lenient_return registry) = true ->
  assoc op (r_return registry) = Some (rn, sf) -> find_by_name registry K_RETURN rn = Some rc ->
  tight_fields (c_fields rc) = true ->
  forall prev, in_range (c_fields rc) prev rvs = true ->
  exists rb, serialize_fields (c_fields rc) rvs = Some rb /\
             forall tail, last (rb ++ tail) 0 = prev -> parse_return registry op (rb ++ tail) = Some (rn, rvs).
Proof. exact (lenient_return_roundtrip registry). Qed.
Print Assumptions C01_lenient_return_roundtrip.

Theorem C01_lenient_return_total : forall rc op rn sf rpb,
  existsb (Z.eqb op) (r_lenient_return registry) = true ->
  assoc op (r_return registry) = Some (rn, sf) -> find_by_name registry K_RETURN rn = Some rc ->
  exists rvs, parse_return registry op rpb = Some (rn, rvs) /\ length rvs = length (c_fields rc).
Proof. exact (lenient_return_total registry). Qed.
Print Assumptions C01_lenient_return_total.

(* ---------------------------------------------------------------- ACL / SCO / ISO *)
Theorem C01_acl_roundtrip : forall handle pb bc data,
  0 <= handle < 4096 -> 0 <= pb < 4 -> 0 <= bc < 4 -> Z.of_nat (length data) < 65536 ->
  let total := Z.of_nat (length data) in
  exists b, packet_bytes registry (PAcl handle pb bc total data) = Some b /\
            parse_packet registry b = Some (PAcl handle pb bc total data).
Proof. exact (acl_roundtrip registry). Qed.
Print Assumptions C01_acl_roundtrip.

Theorem C01_acl_bytes_roundtrip : forall b p,
  bytes_ok b = true -> hd 0 b = HCI_ACL_DATA_PACKET -> parse_acl b = Some p ->
  packet_bytes registry p = Some b.
Proof. exact (acl_bytes_roundtrip registry). Qed.
Print Assumptions C01_acl_bytes_roundtrip.

Theorem C01_acl_length_checked : forall b0 b1 b2 b3 b4 data,
  Z.of_nat (length data) <> le_decode [b3; b4] -> parse_acl (b0 :: b1 :: b2 :: b3 :: b4 :: data) = None.
Proof. exact acl_length_checked. Qed.
Print Assumptions C01_acl_length_checked.

Theorem C01_sco_roundtrip : forall handle status data,
  0 <= handle < 4096 -> 0 <= status < 4 -> Z.of_nat (length data) < 256 ->
  let total := Z.of_nat (length data) in
  exists b, packet_bytes registry (PSco handle status total data) = Some b /\
            parse_packet registry b = Some (PSco handle status total data).
Proof. exact (sco_roundtrip registry). Qed.
Print Assumptions C01_sco_roundtrip.

Theorem C01_sco_bytes_roundtrip : forall b p,
  bytes_ok b = true -> hd 0 b = HCI_SYNCHRONOUS_DATA_PACKET ->
  le_decode (firstn 2 (skipn 1 b)) < 16384 ->
  parse_sco b = Some p -> packet_bytes registry p = Some b.
Proof. exact (sco_bytes_roundtrip registry). Qed.
Print Assumptions C01_sco_bytes_roundtrip.

(* ISO: handle < 2^12, PB < 4, optional 32-bit time stamp, SDU info (sequence number,
   12-bit SDU length, 2-bit packet status flag) present exactly when PB is 0b00 / 0b10 *)
Theorem C01_iso_roundtrip : forall handle pb total ts sdu frag,
  0 <= handle < 4096 -> 0 <= pb < 4 -> u_range 2 total = true ->
  match ts with Some t => u_range 4 t = true | None => True end ->
  iso_shape_ok pb sdu = true ->
  exists b, packet_bytes registry (PIso handle pb total ts sdu frag) = Some b /\
            parse_packet registry b = Some (PIso handle pb total ts sdu frag).
Proof. exact (iso_roundtrip registry). Qed.
Print Assumptions C01_iso_roundtrip.

(* bytes -> packet -> bytes for ISO, reserved bits clear (bit 15 of the header word, bits
   12..13 of the SDU info word): the packet status flag keeps both of its bits *)
Theorem C01_iso_bytes_roundtrip : forall b p,
  bytes_ok b = true -> hd 0 b = HCI_ISO_DATA_PACKET -> iso_reserved_clear b = true ->
  parse_iso b = Some p -> packet_bytes registry p = Some b.
Proof. exact (iso_bytes_roundtrip registry). Qed.
Print Assumptions C01_iso_bytes_roundtrip.

(* ---------------------------------------------------------------- non-vacuity *)
(* a field list with an array group, an address after its type byte, a signed byte and a
   rest-of-packet field is well-formed, and a concrete value list is in range for it *)
Example C01_wf_witness :
  let fs := [F1 (UInt 2); FA [UInt 1; AddrAfterType; VarLen; SInt 1]; F1 (UIntBE 4); F1 Rest] in
  let vs := [VInt 513; VList [VList [VInt 1; VAddr 1 [1; 2; 3; 4; 5; 6]; VBytes [9; 8]; VInt (-2)]];
             VInt 16909060; VBytes [7]] in
  wf_fields fs = true /\ in_range fs 0 vs = true /\
  serialize_fields fs vs = Some [1; 2; 1; 1; 1; 2; 3; 4; 5; 6; 2; 9; 8; 254; 1; 2; 3; 4; 7] /\
  parse_fields fs 0 [1; 2; 1; 1; 1; 2; 3; 4; 5; 6; 2; 9; 8; 254; 1; 2; 3; 4; 7] = Some (vs, 19%nat).
Proof. vm_compute. repeat split. Qed.

(* the registry is not empty and a real class round-trips a concrete packet *)
Example C01_registry_witness :
  (200 <? Z.of_nat (length (r_classes registry))) = true /\
  parse_packet registry [4; 5; 4; 0; 1; 0; 19] =
    Some (PEvent 5 true [VInt 0; VInt 1; VInt 19] [0; 1; 0; 19]) /\
  packet_bytes registry (PEvent 5 true [VInt 0; VInt 1; VInt 19] [0; 1; 0; 19]) = Some [4; 5; 4; 0; 1; 0; 19].
Proof. vm_compute. repeat split. Qed.

(* the leniency of the real parser is modelled, not repaired: a fixed byte array accepts a
   short slice, which is why C01_codec_rejects_short is stated for strict lists only *)
Example C01_lenient_witness :
  parse_fields [F1 (FixedBytes 8)] 0 [1; 2; 3] = Some ([VBytes [1; 2; 3]], 8%nat) /\
  strict_fields [F1 (FixedBytes 8)] = false.
Proof. vm_compute. split; reflexivity. Qed.

(* the D01a witness: ISO packet with packet status flag 0b01 keeps its bytes *)
Example C01_iso_witness :
  let b := [5; 1; 32; 6; 0; 1; 0; 2; 64; 170; 187] in
  iso_reserved_clear b = true /\
  parse_iso b = Some (PIso 1 2 6 None (Some (1, 2, 1)) [170; 187]) /\
  packet_bytes registry (PIso 1 2 6 None (Some (1, 2, 1)) [170; 187]) = Some b.
Proof. vm_compute. repeat split. Qed.

(* a PHY-mask command with mask 0b101 (two items) and the lenient return parse of a short block *)
Example C01_phy_witness :
  let b := [1; 65; 32; 13; 1; 0; 5; 1; 16; 0; 32; 0; 0; 48; 0; 64; 0] in
  let vs := [VInt 1; VInt 0; VInt 5; VInt 1; VInt 16; VInt 32; VInt 0; VInt 48; VInt 64] in
  parse_packet registry b = Some (PCommand 8257 true vs (skipn 4 b)) /\
  packet_bytes registry (PCommand 8257 true vs (skipn 4 b)) = Some b /\
  option_map (fun pc => (phy_count pc vs, in_range (phy_fields pc 2) 0 vs)) (find_phy registry 8257)
    = Some (Some 2%nat, true) /\
  option_map (fun r => length (snd r)) (parse_return registry 64851 [0; 9; 1]) = Some 16%nat /\
  existsb (Z.eqb 64851) (r_lenient_return registry) = true.
Proof. vm_compute. repeat split. Qed.

(* an empty block for a class with a lenient field: accepted, declared size 8 > 0 bytes
   available (not well-formed), and the fields re-serialise to 8 zero bytes *)
Example C01_empty_block_witness :
  parse_fields [F1 (FixedBytes 8)] 0 [] = Some ([VBytes []], 8%nat) /\
  serialize_fields [F1 (FixedBytes 8)] [VBytes []] = Some [0; 0; 0; 0; 0; 0; 0; 0] /\
  cached [] (serialize_fields [F1 (FixedBytes 8)] [VBytes []]) = Some [0; 0; 0; 0; 0; 0; 0; 0].
Proof. vm_compute. repeat split. Qed.

(* unknown opcode 0x3FFF and unknown event code 0x77 are not registered *)
Example C01_unknown_witness :
  find_class registry K_COMMAND 16383 = None /\ find_phy registry 16383 = None /\
  find_class registry K_EVENT 119 = None /\
  (* LE sub-event 0x58 is not registered: the Android vendor sub-event of that number lives
     in the vendor registry only *)
  find_class registry K_LE_EVENT 88 = None /\
  parse_packet registry [4; 62; 3; 88; 1; 2] = Some (PLeMeta 88 false [] [88; 1; 2]) /\
  packet_bytes registry (PLeMeta 88 false [] [88; 1; 2]) = Some [4; 62; 3; 88; 1; 2].
Proof. vm_compute. repeat split. Qed.
