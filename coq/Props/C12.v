(* Property C12: a GATT client sees exactly the server's database, values and notifications;
   every discovery procedure terminates whatever the peer answers.
   This file contains only statements, each closed by [exact]; the model is Model/GattClient.v
   (the code after fixes D12a, D12b, D12c, D12d). *)
From Coq Require Import ZArith List Bool.
From BV Require Import Model.GattClient Model.GattClientShape Gen.C12Shape Proofs.GattClient.
Import ListNotations.
Open Scope Z_scope.

(* ---------------------------------------------------------------- termination, for EVERY peer.
   [r : nat -> Z -> resp] is the peer: any function from (request index, starting handle of the
   request) to a response (no response / any error / any list of entries with any handles, any
   end group handles, parseable or not).  [finishes o b]: the procedure did not run out of the
   fuel 0x10000 - starting_handle and issued at most b requests. *)
Theorem C12_discover_services_terminates : forall r, finishes (discover_services (fuel_for 1) r) 65535.
Proof. exact discover_services_terminates. Qed.
Print Assumptions C12_discover_services_terminates.

Theorem C12_discover_service_terminates : forall r, finishes (discover_service (fuel_for 1) r) 65535.
Proof. exact discover_service_terminates. Qed.
Print Assumptions C12_discover_service_terminates.

Theorem C12_discover_included_terminates : forall r rd sh se, 0 <= sh -> se <= 0xFFFF ->
  finishes (discover_included (fuel_for sh) r rd sh se) 65536.
Proof. exact discover_included_terminates. Qed.
Print Assumptions C12_discover_included_terminates.

(* per service of discover_characteristics *)
Theorem C12_discover_characteristics_terminates : forall r sh se, 0 <= sh -> se <= 0xFFFF ->
  finishes (discover_characteristics (fuel_for sh) r sh se) 65536.
Proof. exact discover_characteristics_terminates. Qed.
Print Assumptions C12_discover_characteristics_terminates.

Theorem C12_discover_descriptors_terminates : forall r vh ce, 0 <= vh -> ce <= 0xFFFF ->
  finishes (discover_descriptors (fuel_for (vh + 1)) r vh ce) 65535.
Proof. exact discover_descriptors_terminates. Qed.
Print Assumptions C12_discover_descriptors_terminates.

Theorem C12_discover_attributes_terminates : forall r, finishes (discover_attributes (fuel_for 1) r) 65535.
Proof. exact discover_attributes_terminates. Qed.
Print Assumptions C12_discover_attributes_terminates.

(* any fuel that suffices gives the result every larger fuel gives (the correspondence harness
   evaluates the model with a fuel of a few thousand requests) *)
Theorem C12_fuel_irrelevant : forall cond proc raise_other r f k n start acc,
  fst (loop cond proc raise_other r f n start acc) <> OutOfFuel ->
  loop cond proc raise_other r (f + k) n start acc = loop cond proc raise_other r f n start acc.
Proof. exact loop_fuel_mono. Qed.
Print Assumptions C12_fuel_irrelevant.

(* why D12a and D12c were needed: the loops as they were run out of ANY fuel on one peer *)
Theorem C12_discover_attributes_unfixed_refuted :
  forall fuel, fst (attributes_unfixed (S (S fuel)) peer_empty_info 0 1 []) = OutOfFuel.
Proof. exact discover_attributes_unfixed_refuted. Qed.
Print Assumptions C12_discover_attributes_unfixed_refuted.

Theorem C12_discover_service_unfixed_refuted :
  forall fuel, fst (discover_service_unfixed fuel peer_back_step) = OutOfFuel.
Proof. exact discover_service_unfixed_refuted. Qed.
Print Assumptions C12_discover_service_unfixed_refuted.

(* ---------------------------------------------------------------- exactness against the server's
   discovery handlers, for every well-formed database and every ATT_MTU >= 23 *)
Theorem C12_discover_services_exact : forall db mtu,
  23 <= mtu -> services_ok db = true -> decl_sizes_ok db = true ->
  fst (client_discover_services mtu db) = Done (map to_entry (primary_services db)).
Proof. exact discover_services_exact. Qed.
Print Assumptions C12_discover_services_exact.

Theorem C12_discover_service_exact : forall db mtu u,
  23 <= mtu -> services_ok db = true ->
  fst (client_discover_service mtu db u) = Done (map to_entry (services_with db u)).
Proof. exact discover_service_exact. Qed.
Print Assumptions C12_discover_service_exact.

(* included services (code after D12e: the declaration carries the UUID only when it is a
   16-bit one, otherwise the client reads the included service's declaration): exactly what the
   client's nested reads resolve to ... *)
Theorem C12_discover_included_exact : forall db mtu sh se,
  23 <= mtu -> 1 <= sh -> se <= 0xFFFF ->
  db_sorted db = true -> decl_sizes_ok db = true ->
  forallb (resolvable (srv_read_uuid db)) (map to_entry (includes_of db sh se)) = true ->
  fst (client_discover_included mtu db sh se)
  = Done (map (resolve_entry (srv_read_uuid db)) (map to_entry (includes_of db sh se))).
Proof. exact discover_included_exact. Qed.
Print Assumptions C12_discover_included_exact.

(* ... which is start handle, end handle and UUID exactly as declared, for 16-bit and 128-bit
   UUIDs alike, in every database whose include declarations are consistent ... *)
Theorem C12_discover_included_exact_declared : forall db mtu sh se,
  23 <= mtu -> 1 <= sh -> se <= 0xFFFF ->
  db_sorted db = true -> decl_sizes_ok db = true -> includes_consistent db = true ->
  fst (client_discover_included mtu db sh se) = Done (map declared_include (includes_of db sh se)).
Proof. exact discover_included_exact_declared. Qed.
Print Assumptions C12_discover_included_exact_declared.

(* ... which every database built by add_services is (included services registered before) *)
Theorem C12_add_service_includes_consistent : forall ss, specs_ok ss = true -> incl_idx_ok 0 ss = true ->
  includes_consistent (build ss) = true.
Proof. exact build_includes_consistent. Qed.
Print Assumptions C12_add_service_includes_consistent.

Theorem C12_discover_characteristics_exact : forall db mtu sh se,
  23 <= mtu -> 1 <= sh -> se <= 0xFFFF ->
  db_sorted db = true -> decl_sizes_ok db = true ->
  char_ends_ok se (chars_of db sh se) = true ->
  fst (client_discover_characteristics mtu db sh se) = Done (map to_entry (chars_of db sh se)).
Proof. exact discover_characteristics_exact. Qed.
Print Assumptions C12_discover_characteristics_exact.

Theorem C12_discover_descriptors_exact : forall db mtu vh ce,
  23 <= mtu -> 0 <= vh -> ce <= 0xFFFF ->
  db_sorted db = true -> types_ok db = true ->
  fst (client_discover_descriptors mtu db vh ce) = Done (map info_entry (attrs_in db (vh + 1) ce)).
Proof. exact discover_descriptors_exact. Qed.
Print Assumptions C12_discover_descriptors_exact.

Theorem C12_discover_attributes_exact : forall db mtu,
  23 <= mtu -> db_sorted db = true -> types_ok db = true ->
  fst (client_discover_attributes mtu db) = Done (map info_entry db).
Proof. exact discover_attributes_exact. Qed.
Print Assumptions C12_discover_attributes_exact.

(* every database Server.add_services builds from specs with 2- or 16-byte UUIDs that are not
   declaration types and at most 0xFFFE attributes satisfies all of the hypotheses above *)
Theorem C12_add_service_wf : forall ss, specs_ok ss = true -> total_size ss <= 0xFFFE ->
  db_wf (build ss) = true.
Proof. exact build_wf. Qed.
Print Assumptions C12_add_service_wf.

(* ---------------------------------------------------------------- values *)
Theorem C12_long_read_exact : forall value mtu, 2 <= mtu -> Z.of_nat (length value) <= 0xFFFF ->
  read_from_server (S (length value)) mtu value = RDone value.
Proof. exact long_read_exact. Qed.
Print Assumptions C12_long_read_exact.

Theorem C12_write_takes_effect : forall with_response s h v,
  let '(s', rsp) := srv_write with_response s h v in
  (store_get h s <> None /\ Z.of_nat (length v) <= 512 ->
     store_get h s' = Some v /\ (forall h2, h2 <> h -> store_get h2 s' = store_get h2 s) /\
     rsp = (if with_response then WOk else WSilent)) /\
  (~ (store_get h s <> None /\ Z.of_nat (length v) <= 512) -> s' = s /\ rsp <> WOk).
Proof. exact write_takes_effect. Qed.
Print Assumptions C12_write_takes_effect.

(* ---------------------------------------------------------------- notifications and indications *)
Theorem C12_notify_routing : forall indicate mtu_of s h v,
  NoDup (map fst s) ->
  notify_or_indicate_subscribers indicate mtu_of s h v false
  = map (fun b => (b, kind_op indicate, h, truncate (mtu_of b) v))
        (filter (fun b => subscribed (kind_bit indicate) s b h) (map fst s)).
Proof. exact notify_routing. Qed.
Print Assumptions C12_notify_routing.

Theorem C12_indicate_subscriber_is_indication : forall mtu_of s b h v force p,
  In p (indicate_subscriber mtu_of s b h v force) -> snd (fst (fst p)) = OP_INDICATION.
Proof. exact indicate_subscriber_is_indication. Qed.
Print Assumptions C12_indicate_subscriber_is_indication.

Theorem C12_truncation : forall mtu v, 3 <= mtu ->
  truncate mtu v = firstn (Z.to_nat (Z.min (mtu - 3) (Z.of_nat (length v)))) v.
Proof. exact truncate_spec. Qed.
Print Assumptions C12_truncation.

Theorem C12_write_cccd_subscribes : forall s b h b0 b1 bit,
  subscribed bit (write_cccd s b h [b0; b1]) b h = negb (Z.land b0 bit =? 0).
Proof. exact write_cccd_subscribes. Qed.
Print Assumptions C12_write_cccd_subscribes.

(* ---------------------------------------------------------------- extension round *)
(* read_characteristics_by_uuid pages like the discovery procedures: same bound, every peer *)
Theorem C12_read_characteristics_by_uuid_terminates : forall r sh se, 0 <= sh -> se <= 0xFFFF ->
  finishes (read_characteristics_by_uuid (fuel_for sh) r sh se) 65536.
Proof. exact read_characteristics_by_uuid_terminates. Qed.
Print Assumptions C12_read_characteristics_by_uuid_terminates.

(* the long read loop ends for EVERY peer (any first response, any function from offset to Read
   Blob response): the offset grows by at least ATT_MTU-1 per request and an offset above 0xFFFF
   cannot be put into a request, which raises *)
Theorem C12_read_value_terminates : forall first blob mtu no_long_read, 2 <= mtu ->
  read_value (Z.to_nat 0x10000) first blob mtu no_long_read <> ROutOfFuel.
Proof. exact read_value_terminates. Qed.
Print Assumptions C12_read_value_terminates.

(* discovery filtered by characteristic UUIDs = filter of the unfiltered discovery: same handle
   ranges (the end group handles are computed before filtering), same requests *)
Theorem C12_filtered_discovery_is_filter : forall fuel r sh se us,
  discover_characteristics_uuids fuel r sh se us
  = match discover_characteristics fuel r sh se with
    | (Done es, n) => (Done (filter_uuids us es), n)
    | other => other
    end.
Proof. exact discover_characteristics_uuids_spec. Qed.
Print Assumptions C12_filtered_discovery_is_filter.

(* discover_characteristics(uuids, None) over any list of services, any peer *)
Theorem C12_discover_characteristics_all_terminates : forall r svcs us n acc,
  Forall (fun p => snd p <= 0xFFFF) svcs ->
  fst (discover_characteristics_all r svcs us n acc) <> OutOfFuel /\
  Z.of_nat (snd (discover_characteristics_all r svcs us n acc)) <= Z.of_nat n + all_bound svcs.
Proof. exact discover_characteristics_all_terminates. Qed.
Print Assumptions C12_discover_characteristics_all_terminates.

(* notify_subscriber / indicate_subscriber on a Connection: exactly the subscribed bearers among
   its EATT channels and itself *)
Theorem C12_subscriber_fan_out_routing : forall indicate mtu_of s eatt conn h v,
  subscriber_fan_out indicate mtu_of s eatt conn h v
  = map (fun b => (b, kind_op indicate, h, truncate (mtu_of b) v))
        (filter (fun b => subscribed (kind_bit indicate) s b h) (eatt ++ [conn])).
Proof. exact subscriber_fan_out_routing. Qed.
Print Assumptions C12_subscriber_fan_out_routing.

(* fan-out independence (notify_subscribers / indicate_subscribers, also with value=None where
   each bearer's task reads the value for its own bearer): for every order of the subscriber
   table and every set of bearers whose read fails, the bearers that get the PDU are exactly
   the subscribed ones minus those; a fault on one bearer changes nothing for another *)
Theorem C12_fan_out_independent : forall indicate mtu_of s h rv,
  NoDup (map fst s) ->
  notify_or_indicate_subscribers_dyn indicate mtu_of s h rv
  = flat_map (fun b => match rv b with
                       | Some v => [(b, kind_op indicate, h, truncate (mtu_of b) v)]
                       | None => []
                       end)
             (filter (fun b => subscribed (kind_bit indicate) s b h) (map fst s)).
Proof. exact fan_out_independent. Qed.
Print Assumptions C12_fan_out_independent.

Theorem C12_healthy_bearer_served : forall indicate mtu_of s h rv b v,
  NoDup (map fst s) -> In b (map fst s) -> subscribed (kind_bit indicate) s b h = true -> rv b = Some v ->
  In (b, kind_op indicate, h, truncate (mtu_of b) v) (notify_or_indicate_subscribers_dyn indicate mtu_of s h rv).
Proof. exact healthy_bearer_served. Qed.
Print Assumptions C12_healthy_bearer_served.

(* a sequential fan-out that lets the first failure leave the loop does not have this property *)
Theorem C12_fan_out_sequential_refuted :
  exists s rv, NoDup (map fst s) /\
    fan_out_sequential false (fun _ => 23) s 5 rv (map fst s)
    <> notify_or_indicate_subscribers_dyn false (fun _ => 23) s 5 rv.
Proof. exact fan_out_sequential_refuted. Qed.
Print Assumptions C12_fan_out_sequential_refuted.

(* end to end, no well-formedness hypothesis left: whatever add_services was given *)
Theorem C12_client_sees_database : forall ss mtu, 23 <= mtu -> specs_ok ss = true -> incl_idx_ok 0 ss = true ->
  total_size ss <= 0xFFFE ->
  let db := build ss in
  fst (client_discover_services mtu db) = Done (map to_entry (primary_services db)) /\
  fst (client_discover_attributes mtu db) = Done (map info_entry db) /\
  (forall u, fst (client_discover_service mtu db u) = Done (map to_entry (services_with db u))) /\
  (forall s, In s (primary_services db) ->
     fst (client_discover_included mtu db (a_handle s) (a_end s))
       = Done (map declared_include (includes_of db (a_handle s) (a_end s))) /\
     fst (client_discover_characteristics mtu db (a_handle s) (a_end s))
       = Done (map to_entry (chardecls_of db s)) /\
     (forall us, fst (discover_characteristics_uuids (fuel_for (a_handle s))
                        (fun _ st => srv_read_by_type mtu db UUID_CHARACTERISTIC st (a_end s))
                        (a_handle s) (a_end s) us)
                 = Done (filter_uuids us (map to_entry (chardecls_of db s)))) /\
     True) /\
  (forall vh ce, 0 <= vh -> ce <= 0xFFFF ->
     fst (client_discover_descriptors mtu db vh ce) = Done (map info_entry (attrs_in db (vh + 1) ce))).
Proof. exact client_sees_database. Qed.
Print Assumptions C12_client_sees_database.

(* a read while the ATT_MTU changes (an MTU exchange served between two requests of read_value):
   [m k] is the ATT_MTU in force on both ends when the k-th response of the read is produced and
   received; read_value tests against self.mtu AFTER each await, i.e. against [m k] *)
Theorem C12_long_read_exact_any_mtu : forall value m, (forall j, 2 <= m j) -> Z.of_nat (length value) <= 0xFFFF ->
  read_from_server_dyn (S (length value)) m value = RDone value.
Proof. exact long_read_exact_any_mtu. Qed.
Print Assumptions C12_long_read_exact_any_mtu.

(* tests against an ATT_MTU remembered from before the first request are refuted ... *)
Theorem C12_read_value_stale_mtu_refuted :
  exists value snapshot m, (forall j, 2 <= m j) /\
    read_from_server_stale (S (length value)) snapshot m value <> RDone value.
Proof. exact read_value_stale_mtu_refuted. Qed.
Print Assumptions C12_read_value_stale_mtu_refuted.

(* ... and so is the server before D12f (ATTRIBUTE_NOT_LONG at an offset > 0): 60 bytes read at
   ATT_MTU 23 then 100 came back as their first 22 *)
Theorem C12_read_blob_unfixed_refuted :
  let value := repeat 7 60 in let m := fun k : nat => if Nat.eqb k 0 then 23 else 100 in
  read_value_dyn 61 (srv_read (m 0%nat) value) (fun k off => srv_read_blob_unfixed (m k) value off) m
  = RDone (repeat 7 22).
Proof. exact read_blob_unfixed_refuted. Qed.
Print Assumptions C12_read_blob_unfixed_refuted.

(* ---------------------------------------------------------------- the model matches the source (regenerated on every run)
   Gen/C12Shape.v is written by tools/translate/c12_shape.py from the current bumble sources:
   the control-flow skeleton of the 31 anchored functions and 63 constants of their arithmetic.
   They must equal the tables the model was written from ... *)
Theorem C12_skeletons_match_source : skeletons_eqb src_skeletons model_skeletons = true.
Proof. vm_compute. reflexivity. Qed.
Print Assumptions C12_skeletons_match_source.

Theorem C12_consts_match_source : consts_eqb src_consts model_consts = true.
Proof. vm_compute. reflexivity. Qed.
Print Assumptions C12_consts_match_source.

(* ... and the model functions are stated in exactly those constants (k_x_y is the constant "x.y") *)
Theorem C12_shape_find_information : forall mtu db s e,
  srv_find_information mtu db s e
  = if orb (s =? 0) (e <? s) then RErr k_err_invalid_handle else
    reply (map info_entry (take_run k_fi_entry_hdr false (fun a => u_len (a_type a))
                                    (mtu - k_fi_space) None (filter (in_range s e) db))).
Proof. exact shape_find_information. Qed.
Print Assumptions C12_shape_find_information.

Theorem C12_shape_read_by_type : forall mtu db t s e,
  srv_read_by_type mtu db t s e
  = if orb (s =? 0) (e <? s) then RErr k_err_invalid_handle else
    let lim := Z.min (mtu - k_rbt_limit_off) k_rbt_limit_max in
    reply (map (to_entry_trunc lim)
             (take_run k_rbt_entry_hdr true (fun a => Z.min (disc_vlen a) lim) (mtu - k_rbt_space) None
                (filter (fun a => andb (uuid_eqb (a_type a) t) (in_range s e a)) db))).
Proof. exact shape_read_by_type. Qed.
Print Assumptions C12_shape_read_by_type.

Theorem C12_shape_read_by_group : forall mtu db t s e,
  srv_read_by_group mtu db t s e
  = let lim := Z.min (mtu - k_rbgt_limit_off) k_rbgt_limit_max in
    reply (map (to_entry_trunc lim)
             (take_run k_rbgt_entry_hdr true (fun a => Z.min (disc_vlen a) lim) (mtu - k_rbgt_space) None
                (filter (fun a => andb (uuid_eqb (a_type a) t) (in_range s e a)) db))).
Proof. exact shape_read_by_group. Qed.
Print Assumptions C12_shape_read_by_group.

Theorem C12_shape_read_blob : forall mtu v off,
  srv_read_blob mtu v off
  = let len := Z.of_nat (length v) in
    if len <? off then VErr k_err_invalid_offset
    else if andb (off =? 0) (len <=? mtu - k_blob_not_long) then VErr k_err_not_long
    else VVal (sublist off (Z.min (mtu - k_blob_part) (len - off)) v).
Proof. exact shape_read_blob. Qed.
Print Assumptions C12_shape_read_blob.

Theorem C12_shape_send_single : forall indicate force mtu_of s b h v,
  send_single indicate force mtu_of s b h v
  = if orb force (subscribed (if indicate then k_indicate_bit else k_notify_bit) s b h)
    then [(b, (if indicate then k_op_indication else k_op_notification), h, truncate (mtu_of b) v)]
    else [].
Proof. exact shape_send_single. Qed.
Print Assumptions C12_shape_send_single.

Theorem C12_shape_truncate : forall mtu v,
  truncate mtu v = if mtu - k_notify_trunc_if <? Z.of_nat (length v)
                   then firstn (Z.to_nat (mtu - k_notify_trunc)) v else v.
Proof. exact shape_truncate. Qed.
Print Assumptions C12_shape_truncate.

(* ---------------------------------------------------------------- non-vacuity *)
Definition ex_specs : list svc_spec :=
  [ mkSS (U16 0x1800) true []
      [ mkCS (U16 0x2A00) 0x02 [1; 2; 3] [];
        mkCS (mkU 16 (2 ^ 100 + 7)) 0x32 [] [mkDS (U16 0x2901) [65]] ];
    mkSS (mkU 16 (2 ^ 120 + 1)) true [0%nat] [ mkCS (U16 0x2A19) 0x10 [50] [] ] ].

Example ex_specs_ok : specs_ok ex_specs = true /\ incl_idx_ok 0 ex_specs = true /\ db_wf (build ex_specs) = true /\
  includes_consistent (build ex_specs) = true.
Proof. vm_compute. repeat split; reflexivity. Qed.

Example ex_included :     (* the second service includes the first *)
  fst (client_discover_included 23 (build ex_specs) 8 12) = Done [mkE 9 9 false [1; 7; 2; 0x1800]].
Proof. vm_compute. reflexivity. Qed.

Example ex_services :
  fst (client_discover_services 23 (build ex_specs))
  = Done [mkE 1 7 false [2; 0x1800]; mkE 8 12 false [16; 2 ^ 120 + 1]].
Proof. vm_compute. reflexivity. Qed.

Example ex_characteristics :
  outcome_obs (client_discover_characteristics 23 (build ex_specs) 1 7)
  = (0, [(2, 3, [0x02; 3; 2; 0x2A00]); (4, 7, [0x32; 5; 16; 2 ^ 100 + 7])], 3).
Proof. vm_compute. reflexivity. Qed.

Example ex_long_read : read_from_server 30 23 (repeat 7 44) = RDone (repeat 7 44).
Proof. vm_compute. reflexivity. Qed.

Example ex_read_adversary :     (* a peer that always answers 22 bytes: the read ends by exception *)
  read_value (Z.to_nat 0x10000) (VVal (repeat 0 516)) (fun _ => VVal (repeat 0 516)) 517 false = RRaised (-4).
Proof. vm_compute. reflexivity. Qed.

Example ex_filter :
  filter_uuids [U16 0x2A00] [mkE 2 3 false [2; 3; 2; 0x2A00]; mkE 4 7 false [50; 5; 16; 99]]
  = [mkE 2 3 false [2; 3; 2; 0x2A00]].
Proof. vm_compute. reflexivity. Qed.

Example ex_routing :
  notify_or_indicate_subscribers true (fun _ => 23)
    [(1, [(5, [2; 0])]); (2, [(5, [1; 0])]); (3, [(5, [3; 0])])] 5 [9; 9] false
  = [(1, 0x1D, 5, [9; 9]); (3, 0x1D, 5, [9; 9])].
Proof. vm_compute. reflexivity. Qed.
