(* Property C02: HCI byte streams are re-framed into the same packets under any chunking.
   Statements only; every theorem is about the table regenerated from the current
   bumble/transport/common.py (Gen/C02Tables.v: packet_info, usb_splitters). *)
From Coq Require Import String.
From Coq Require Import ZArith List Bool.
From BV Require Import Model.Framer Model.Sx Model.FramerShape Gen.C02Tables Gen.C02Shape Proofs.Framer.
Import ListNotations.
Open Scope list_scope.
Open Scope Z_scope.

(* ---- obligations on the regenerated tables (re-evaluated on every run) *)

(* every HCI_PACKET_INFO entry: type is a byte, length field >= 1 byte at an offset >= 0,
   and the struct format decodes exactly the length field (little-endian, unsigned) *)
Theorem C02_table_wf : wf_table packet_info = true.
Proof. vm_compute. reflexivity. Qed.
Print Assumptions C02_table_wf.

(* the table is exactly the five packet layouts of the HCI specification *)
Theorem C02_table_is_hci : table_is_hci packet_info = true.
Proof. vm_compute. reflexivity. Qed.
Print Assumptions C02_table_is_hci.

(* each USB endpoint splitter uses the header layout the table gives for its packet type *)
Theorem C02_usb_splitters_match_table : splitters_ok packet_info usb_splitters = true.
Proof. vm_compute. reflexivity. Qed.
Print Assumptions C02_usb_splitters_match_table.

(* ---- obligations on the statement skeletons of the anchored functions, regenerated from
   the current source on every run (Gen/C02Shape.v) and compared with the skeletons the
   model was written from (Model/FramerShape.v): an edit to a statement, a condition, a
   bound, the order of two statements or the branch a call sits on breaks one of these,
   whether or not a generated input exercises it. *)

(* all 39 recorded functions / statement groups, in order *)
Theorem C02_shapes_match_source : shapes_eqb src_shapes expected_shapes = true.
Proof. vm_compute. reflexivity. Qed.
Print Assumptions C02_shapes_match_source.

(* the same, one by one for the functions the model follows statement by statement
   (so that a failure names the function) *)
Theorem C02_parser_constants_match_source :
  shape_matches "PacketParser.constants" src_shapes expected_PacketParser_constants = true.
Proof. vm_compute. reflexivity. Qed.
Print Assumptions C02_parser_constants_match_source.

Theorem C02_reset_matches_source :
  shape_matches "PacketParser.reset" src_shapes expected_PacketParser_reset = true.
Proof. vm_compute. reflexivity. Qed.
Print Assumptions C02_reset_matches_source.

Theorem C02_feed_data_matches_source :
  shape_matches "PacketParser.feed_data" src_shapes expected_PacketParser_feed_data = true.
Proof. vm_compute. reflexivity. Qed.
Print Assumptions C02_feed_data_matches_source.

Theorem C02_data_received_matches_source :
  shape_matches "StreamPacketSource.data_received" src_shapes
    expected_StreamPacketSource_data_received = true.
Proof. vm_compute. reflexivity. Qed.
Print Assumptions C02_data_received_matches_source.

Theorem C02_pull_readers_match_source :
  shape_matches "PacketReader.next_packet" src_shapes expected_PacketReader_next_packet &&
  shape_matches "AsyncPacketReader.next_packet" src_shapes expected_AsyncPacketReader_next_packet = true.
Proof. vm_compute. reflexivity. Qed.
Print Assumptions C02_pull_readers_match_source.

Theorem C02_splitter_matches_source :
  shape_matches "PacketSplitter.__init__" src_shapes expected_PacketSplitter___init__ &&
  shape_matches "PacketSplitter.feed" src_shapes expected_PacketSplitter_feed &&
  shape_matches "UsbPacketSource.queue_packet" src_shapes expected_UsbPacketSource_queue_packet &&
  shape_matches "UsbPacketSource.transfer_callback" src_shapes expected_UsbPacketSource_transfer_callback = true.
Proof. vm_compute. reflexivity. Qed.
Print Assumptions C02_splitter_matches_source.

Theorem C02_servers_match_source :
  shape_matches "tcp_server.setup" src_shapes expected_tcp_server_setup &&
  shape_matches "TcpServerProtocol.connection_made" src_shapes expected_TcpServerProtocol_connection_made &&
  shape_matches "TcpServerProtocol.data_received" src_shapes expected_TcpServerProtocol_data_received &&
  shape_matches "unix_server.setup" src_shapes expected_unix_server_setup &&
  shape_matches "UnixServerProtocol.connection_made" src_shapes expected_UnixServerProtocol_connection_made &&
  shape_matches "UnixServerProtocol.data_received" src_shapes expected_UnixServerProtocol_data_received &&
  shape_matches "WsServerTransport.on_connection" src_shapes expected_WsServerTransport_on_connection &&
  shape_matches "netsim.Server.lease_sink" src_shapes expected_netsim_Server_lease_sink &&
  shape_matches "netsim.HciDevice.pump_loop" src_shapes expected_netsim_HciDevice_pump_loop = true.
Proof. vm_compute. reflexivity. Qed.
Print Assumptions C02_servers_match_source.

(* read directly off the current source: every server entry point resets the shared
   parser, feed_data resets before it raises, and the emission test is the one modelled *)
Theorem C02_resets_present_in_source :
  has_leaf "self.packet_source.parser.reset()" src_TcpServerProtocol_connection_made &&
  has_leaf "self.packet_source.parser.reset()" src_UnixServerProtocol_connection_made &&
  has_leaf "self.source.parser.reset()" src_WsServerTransport_on_connection &&
  has_leaf "self.parser.reset()" src_netsim_Server_lease_sink &&
  has_leaf "self.reset()" src_PacketParser_feed_data &&
  has_leaf "self.state == PacketParser.NEED_BODY and (not self.bytes_needed)" src_PacketParser_feed_data = true.
Proof. vm_compute. reflexivity. Qed.
Print Assumptions C02_resets_present_in_source.

(* ---- push parser (PacketParser.feed_data) *)

(* Feed fusion, for every parser state and all byte strings: one call with a ++ b is the
   call with a followed by the call with b, outputs appended; if the call with a raises,
   the single call has discarded b (and the state is the initial one, see below). *)
Theorem C02_feed_fusion : forall a b s,
  feed packet_info s (a ++ b) = then_feed packet_info (feed packet_info s a) b.
Proof. exact (feed_app packet_info). Qed.
Print Assumptions C02_feed_fusion.

(* the model's explicit out-of-fuel result is never produced: the loop terminates *)
Theorem C02_feed_terminates : forall s d, snd (feed packet_info s d) <> OutOfFuel.
Proof. exact (feed_never_out_of_fuel packet_info). Qed.
Print Assumptions C02_feed_terminates.

(* In every state reachable by feeding byte chunks, bytes_needed >= 0: the model's loop
   guard (0 < bytes_needed) is Python's `while data_left and self.bytes_needed`. *)
Theorem C02_bytes_needed_never_negative : forall chunks,
  forallb bytes_ok chunks = true -> 0 <= p_needed (fst (feeds packet_info reset chunks)).
Proof.
  intros chunks H.
  apply (feed_needed_nonneg packet_info chunks reset C02_table_wf); [|exact H].
  split; [exact Z.le_0_1|reflexivity].
Qed.
Print Assumptions C02_bytes_needed_never_negative.

(* Chunking irrelevance: every list of well-formed packets (all types in the table, any
   body length including 0 and the 8-/16-bit maxima), every list of chunks (any sizes,
   empty chunks included) whose concatenation is the packets' concatenation: the sink
   receives exactly the packets, in order, and the parser ends in its initial state. *)
Theorem C02_chunking_irrelevant : forall pkts chunks,
  forallb (wf_packet packet_info) pkts = true -> concat chunks = concat pkts ->
  fst (feeds packet_info reset chunks) = reset /\
  concat (snd (feeds packet_info reset chunks)) = map Packet pkts.
Proof. intros. apply chunking_irrelevant; solve [eassumption | exact C02_table_wf]. Qed.
Print Assumptions C02_chunking_irrelevant.

(* None early, none late, none merged: after ANY number of chunks of any chunking, what
   has been emitted is exactly the packets that lie wholly inside the bytes fed so far. *)
Theorem C02_none_early : forall pkts chunks1 rest,
  forallb (wf_packet packet_info) pkts = true -> concat pkts = concat chunks1 ++ rest ->
  concat (snd (feeds packet_info reset chunks1)) =
  map Packet (whole_within pkts (len (concat chunks1))).
Proof. intros. eapply none_early; solve [eassumption | exact C02_table_wf]. Qed.
Print Assumptions C02_none_early.

(* An unknown type byte at a packet boundary (anywhere in a chunk, after any chunking of
   the packets before it): the earlier packets are delivered, exactly one error is
   reported, the rest of that chunk is discarded, and the chunks fed afterwards are
   framed as from the initial state. *)
Theorem C02_error_then_recover : forall pkts1 chunks1 post bad junk pkts2 chunks2,
  forallb (wf_packet packet_info) pkts1 = true -> forallb (wf_packet packet_info) pkts2 = true ->
  concat pkts1 = concat chunks1 ++ post -> lookup packet_info bad = None ->
  concat chunks2 = concat pkts2 ->
  let '(s, outs) := feeds packet_info reset (chunks1 ++ [post ++ bad :: junk] ++ chunks2) in
  s = reset /\ concat outs = map Packet pkts1 ++ [Error bad] ++ map Packet pkts2.
Proof. intros. apply error_then_recover; solve [eassumption | exact C02_table_wf]. Qed.
Print Assumptions C02_error_then_recover.

(* From ANY parser state: a call that raises leaves the initial state behind (reset
   happens before the raise), its outputs end with the single error, and any
   well-formed stream fed afterwards, in any chunking, is delivered exactly. *)
Theorem C02_any_error_resets : forall s d s' o pkts chunks,
  feed packet_info s d = (s', o, Raised) ->
  forallb (wf_packet packet_info) pkts = true -> concat chunks = concat pkts ->
  s' = reset /\ (exists o' ty, o = o' ++ [Error ty] /\ has_error o' = false) /\
  fst (feeds packet_info s' chunks) = reset /\
  concat (snd (feeds packet_info s' chunks)) = map Packet pkts.
Proof.
  intros s d s' o pkts chunks Hr Hp Hc.
  destruct (feed_raise_resets _ _ _ _ _ Hr) as [Hs He].
  split; [exact Hs|]. split; [exact He|].
  exact (recover_after_any_error _ _ _ _ _ _ _ C02_table_wf Hr Hp Hc).
Qed.
Print Assumptions C02_any_error_resets.

(* ---- several parsers in one process *)

(* Interleaving irrelevance: for any number of parsers in any states and ANY interleaving
   of operations (feed_data on parser i; reset of / construction of a new parser in slot i),
   parser i passes through exactly the states and emits exactly the outputs it would when
   run alone on its own operations: the state (partial packet buffer included) is per
   parser. *)
Theorem C02_parsers_independent : forall ops ss i, (i < length ss)%nat ->
  nth i (fst (multi_run packet_info ss ops)) reset =
    fst (solo_run packet_info (nth i ss reset) (ops_of i ops)) /\
  outs_of i (snd (multi_run packet_info ss ops)) =
    snd (solo_run packet_info (nth i ss reset) (ops_of i ops)).
Proof. exact (multi_run_independent packet_info). Qed.
Print Assumptions C02_parsers_independent.

(* Hence: any chunking of parser i's own well-formed stream (from the initial state, or
   after a reset / construction in its slot wherever it was before), interleaved in any way
   with whatever the other parsers are fed or have done to them, is delivered exactly. *)
Theorem C02_interleaved_streams : forall ops ss i pkts chunks,
  (i < length ss)%nat ->
  ops_of i ops = MReset i :: map (MFeed i) chunks \/
  (nth i ss reset = reset /\ ops_of i ops = map (MFeed i) chunks) ->
  forallb (wf_packet packet_info) pkts = true -> concat chunks = concat pkts ->
  nth i (fst (multi_run packet_info ss ops)) reset = reset /\
  concat (outs_of i (snd (multi_run packet_info ss ops))) = map Packet pkts.
Proof.
  intros ops ss i pkts chunks Hi Hops Hp Hc.
  exact (interleaved_streams packet_info ops ss i pkts chunks C02_table_wf Hi Hops Hp Hc).
Qed.
Print Assumptions C02_interleaved_streams.

(* ---- server transports (tcp_server, unix; after fix D02) *)

(* Whatever state the shared parser is in when a client connects (whatever earlier
   clients sent, wherever they were cut off): the new client's stream, in any chunking,
   is delivered exactly and the parser ends in its initial state. *)
Theorem C02_new_client_fresh_any_state : forall s pkts chunks,
  forallb (wf_packet packet_info) pkts = true -> concat chunks = concat pkts ->
  let '(s', outs) := srv_run packet_info s (Connect :: map Data chunks) in
  s' = reset /\ concat outs = map Packet pkts.
Proof. intros. apply new_client_fresh_state; solve [eassumption | exact C02_table_wf]. Qed.
Print Assumptions C02_new_client_fresh_any_state.

(* The same over whole histories: any sequence of earlier connects / data (arbitrary
   bytes, cut anywhere) / eof / disconnects, then connection_lost, connection_made and
   the new client's chunks: the output is the earlier output followed by exactly the new
   client's packets. *)
Theorem C02_new_client_fresh : forall history pkts chunks,
  forallb (wf_packet packet_info) pkts = true -> concat chunks = concat pkts ->
  let '(_, outs0) := srv_run packet_info reset (history ++ [Lost]) in
  let '(s', outs) :=
    srv_run packet_info reset ((history ++ [Lost]) ++ Connect :: map Data chunks) in
  s' = reset /\ concat outs = concat outs0 ++ map Packet pkts.
Proof. intros. apply new_client_fresh; solve [eassumption | exact C02_table_wf]. Qed.
Print Assumptions C02_new_client_fresh.

(* WebSocket server (after fix D02): the binary messages of a new connection, with text
   messages anywhere in between, are framed from the initial state. *)
Theorem C02_ws_new_client_fresh : forall s pkts msgs,
  forallb (wf_packet packet_info) pkts = true -> payloads msgs = concat pkts ->
  let '(s', outs) := ws_connection packet_info s msgs in
  s' = reset /\ concat outs = map Packet pkts.
Proof. intros. apply ws_new_client_fresh; solve [eassumption | exact C02_table_wf]. Qed.
Print Assumptions C02_ws_new_client_fresh.

(* Android netsim controller transport (gRPC server; after fix D02b): a device that
   leases the sink is framed from the initial state; each message is (type, packet). *)
Theorem C02_netsim_new_client_fresh : forall s pkts msgs,
  forallb (wf_packet packet_info) pkts = true ->
  concat (map (fun m => fst m :: snd m) msgs) = concat pkts ->
  let '(s', outs) := netsim_connection packet_info s msgs in
  s' = reset /\ concat outs = map Packet pkts.
Proof. intros. apply netsim_new_client_fresh; solve [eassumption | exact C02_table_wf]. Qed.
Print Assumptions C02_netsim_new_client_fresh.

(* ---- pull readers (PacketReader, AsyncPacketReader) *)

(* On EVERY byte string (well-formed or not, truncated anywhere) the blocking reader
   returns the same packets as the push parser emits, and ends the same way: clean end
   <-> parser at a packet boundary, "too short" <-> parser inside a packet, invalid type
   <-> the parser's error for the same type byte. *)
Theorem C02_pull_reader_agrees_with_push_parser : forall data,
  bytes_ok data = true -> pr_all packet_info data = push_summary packet_info data.
Proof. intros. apply pull_push_agree; solve [eassumption | exact C02_table_wf]. Qed.
Print Assumptions C02_pull_reader_agrees_with_push_parser.

(* The asynchronous reader: the same packets; a clean end is reported as an incomplete
   read of the next type byte. *)
Theorem C02_async_reader_agrees_with_push_parser : forall data,
  bytes_ok data = true ->
  apr_all packet_info data =
  let '(ps, e) := push_summary packet_info data in (ps, async_end e).
Proof. intros. apply async_pull_push_agree; solve [eassumption | exact C02_table_wf]. Qed.
Print Assumptions C02_async_reader_agrees_with_push_parser.

(* On a stream of well-formed packets both return exactly the packets. *)
Theorem C02_pull_readers_frame_streams : forall pkts,
  forallb (wf_packet packet_info) pkts = true ->
  bytes_ok (concat pkts) = true /\
  pr_all packet_info (concat pkts) = (pkts, RAtEnd) /\
  apr_all packet_info (concat pkts) = (pkts, RTooShort).
Proof. intros. apply pull_stream; solve [eassumption | exact C02_table_wf]. Qed.
Print Assumptions C02_pull_readers_frame_streams.

(* ---- USB per-endpoint splitters (usb.PacketSplitter.feed, UsbPacketSource.queue_packet) *)

(* For every endpoint splitter of the regenerated list: for any sequence of well-formed
   HCI packets of that endpoint's type, any chunking (USB transfers of any sizes) of the
   endpoint's byte stream: the packets queued (type byte prepended) are exactly those
   packets, the splitter ends empty, and they are exactly what the push parser emits for
   the typed stream under any chunking of it: same boundaries. *)
Theorem C02_usb_splitters_agree : forall ty lo ls es chunks chunks',
  In (ty, (lo, ls)) usb_splitters ->
  forallb (fun e => wf_packet packet_info (ty :: e)) es = true ->
  concat chunks = concat es -> concat chunks' = concat (map (cons ty) es) ->
  usb_out ty (concat (snd (split_feeds lo ls [] chunks))) = map (cons ty) es /\
  fst (split_feeds lo ls [] chunks) = [] /\
  concat (snd (feeds packet_info reset chunks')) =
    map Packet (usb_out ty (concat (snd (split_feeds lo ls [] chunks)))).
Proof.
  intros ty lo ls es chunks chunks' Hin Hes Hc Hc'.
  exact (usb_agrees packet_info usb_splitters ty lo ls es chunks chunks'
           C02_table_wf C02_usb_splitters_match_table Hin Hes Hc Hc').
Qed.
Print Assumptions C02_usb_splitters_agree.

(* none early / none late: after any number of transfers the splitter has emitted
   exactly the packets wholly inside the bytes received so far *)
Theorem C02_usb_none_early : forall ty lo ls es chunks1 rest,
  In (ty, (lo, ls)) usb_splitters ->
  forallb (fun e => wf_packet packet_info (ty :: e)) es = true ->
  concat es = concat chunks1 ++ rest ->
  concat (snd (split_feeds lo ls [] chunks1)) = whole_within es (len (concat chunks1)).
Proof.
  intros ty lo ls es chunks1 rest Hin Hes Hc.
  exact (usb_none_early packet_info usb_splitters ty lo ls es chunks1 rest
           C02_usb_splitters_match_table Hin Hes Hc).
Qed.
Print Assumptions C02_usb_none_early.

(* On EVERY byte string (a splitter has no invalid input): any chunking gives exactly the
   packets and the left-over buffer of a single call, and every call terminates. *)
Theorem C02_usb_chunking_irrelevant_any_bytes : forall ty lo ls chunks,
  In (ty, (lo, ls)) usb_splitters -> forallb bytes_ok chunks = true ->
  let '(p1, o1, st1) := split_feed lo ls [] (concat chunks) in
  st1 = Ok /\ fst (split_feeds lo ls [] chunks) = p1 /\
  concat (snd (split_feeds lo ls [] chunks)) = o1.
Proof.
  intros ty lo ls chunks Hin Hok.
  exact (usb_any_chunking packet_info usb_splitters ty lo ls chunks
           C02_usb_splitters_match_table Hin Hok).
Qed.
Print Assumptions C02_usb_chunking_irrelevant_any_bytes.

(* ---- the property in one statement (stream framers) *)

(* For every list of well-formed packets and every chunking of their stream: the push
   parser delivers exactly the packets and is back in its initial state; after the first
   k chunks, for every k, exactly the packets wholly inside them have been delivered; both
   pull readers return exactly the packets from the same bytes; and a client of a
   tcp/unix or WebSocket server that sends these chunks gets exactly these packets
   delivered whatever state earlier clients left the shared parser in. *)
Theorem C02_all_stream_framers : forall pkts chunks,
  forallb (wf_packet packet_info) pkts = true -> concat chunks = concat pkts ->
  (fst (feeds packet_info reset chunks) = reset /\
   concat (snd (feeds packet_info reset chunks)) = map Packet pkts) /\
  (forall k, concat (snd (feeds packet_info reset (firstn k chunks))) =
             map Packet (whole_within pkts (len (concat (firstn k chunks))))) /\
  (pr_all packet_info (concat chunks) = (pkts, RAtEnd) /\
   apr_all packet_info (concat chunks) = (pkts, RTooShort)) /\
  (forall s, let '(s', outs) := srv_run packet_info s (Connect :: map Data chunks) in
             s' = reset /\ concat outs = map Packet pkts) /\
  (forall s, let '(s', outs) := ws_connection packet_info s (map Some chunks) in
             s' = reset /\ concat outs = map Packet pkts).
Proof. intros pkts chunks H Hc. exact (all_stream_framers packet_info pkts chunks C02_table_wf H Hc). Qed.
Print Assumptions C02_all_stream_framers.

(* ---- non-vacuity *)

(* well-formed packets of every type exist, with empty and non-empty bodies *)
Example C02_wf_packets_exist :
  forallb (wf_packet packet_info)
    [[1; 3; 12; 0]; [2; 1; 32; 2; 0; 170; 187]; [3; 1; 0; 1; 7]; [4; 14; 0]; [5; 1; 0; 0; 0];
     4 :: 62 :: 255 :: gen_bytes 255 1] = true.
Proof. vm_compute. reflexivity. Qed.

(* a concrete run: three packets in 1-byte chunks, then an invalid type byte with junk,
   then a packet: packets, one error, packet; final state initial *)
Example C02_run :
  let chunks := cut [1; 1; 1; 1; 1; 1; 1; 1; 1; 1; 1] ([4; 14; 0] ++ [1; 3; 12; 0] ++ [3; 1; 0; 1; 7])
                ++ [[9; 4; 14]; [4; 14; 0]] in
  let '(s, outs) := feeds packet_info reset chunks in
  is_init s = true /\
  concat outs = [Packet [4; 14; 0]; Packet [1; 3; 12; 0]; Packet [3; 1; 0; 1; 7]; Error 9; Packet [4; 14; 0]].
Proof. vm_compute. split; reflexivity. Qed.

(* the USB endpoints of events, ACL data and SCO data each have a splitter *)
Example C02_usb_endpoints : map fst usb_splitters = [2; 3; 4].
Proof. vm_compute. reflexivity. Qed.

Example C02_usb_run :
  split_feeds 1 1 [] (cut [1; 1; 3; 1] [14; 0; 62; 2; 9; 8; 19; 1; 5]) =
  ([], [[]; [[14; 0]]; []; [[62; 2; 9; 8]]; [[19; 1; 5]]]).
Proof. vm_compute. reflexivity. Qed.

(* two parsers fed in alternation with switches inside packets, and a third slot
   constructed / reset while both are mid-packet: each delivers its own packets *)
Example C02_two_parsers :
  let ops := [MFeed 0 [1; 3]; MFeed 1 [4; 14; 4; 1]; MReset 2; MFeed 0 [12; 0; 2; 64];
              MFeed 1 [3; 12; 0]; MFeed 2 [4; 19; 0]; MFeed 0 [0; 1; 0; 7]] in
  let r := snd (multi_run packet_info [reset; reset; reset] ops) in
  concat (outs_of 0%nat r) = [Packet [1; 3; 12; 0]; Packet [2; 64; 0; 1; 0; 7]] /\
  concat (outs_of 1%nat r) = [Packet [4; 14; 4; 1; 3; 12; 0]] /\
  concat (outs_of 2%nat r) = [Packet [4; 19; 0]].
Proof. vm_compute. repeat split. Qed.

(* D02b: the netsim witness (a device whose last message is a truncated event, then a
   device sending a complete event) is delivered by the fixed life cycle *)
Example C02_netsim_run :
  let '(s1, _) := netsim_connection packet_info reset [(4, [14; 4; 1])] in
  netsim_connection packet_info s1 [(4, [14; 1; 0])] = (reset, [[Packet [4; 14; 1; 0]]]).
Proof. vm_compute. reflexivity. Qed.

(* a splitter run on bytes that are not a whole number of packets: the left-over buffer *)
Example C02_usb_leftover :
  split_feeds 2 2 [] [[1; 32; 3]; [0; 9; 9; 9; 2]] = ([2], [[]; [[1; 32; 3; 0; 9; 9; 9]]]).
Proof. vm_compute. reflexivity. Qed.

(* D02, why the reset on connect is needed: on a parser left inside a packet by a client
   that was cut off, the next client's complete event is NOT delivered *)
Example C02_stale_parser_misframes :
  let '(s1, _) := feeds packet_info reset [[4; 14]] in
  concat (snd (feeds packet_info s1 [[4; 14; 1; 0]])) = [] /\
  concat (snd (srv_run packet_info s1 [Lost; Connect; Data [4; 14; 1; 0]])) = [Packet [4; 14; 1; 0]].
Proof. vm_compute. split; reflexivity. Qed.
