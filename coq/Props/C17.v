(* Property C17: hostile peer or controller input cannot wedge or derail the stack.
   Statements only; every proof is [exact <lemma>] (or a computation over the regenerated
   tables).  Scope: the parsers whose loops and recursion are driven by attacker-chosen
   lengths, and the containment logic at the boundaries (see docs/C17.md for what is
   modelled and what is only exercised by the campaign). *)
From Coq Require Import ZArith List Bool.
From BV Require Import Model.HostileAt Model.HostileFields Model.HostileSdp Model.HostileHost Model.HostileRfcomm Model.HostileLoops.
From BV Require Import Proofs.HostileAt Proofs.HostileFields Proofs.HostileSdp Proofs.HostileHost Proofs.HostileRfcomm Proofs.HostileLoops.
From BV Require Import Proofs.HostileTransport.
From BV Require Import Gen.C17Tables.
Import ListNotations.
Open Scope Z_scope.

(* ------------------------------------------------------------------ at.py *)
(* tokenize_parameters makes one step per input byte (structural recursion on the buffer)
   and never emits more token bytes than it read, nor more than two tokens per byte. *)
Theorem C17_at_tokens_bounded : forall buf toks,
  tokenize buf = inr toks ->
  (size toks <= length buf)%nat /\ (length toks <= 2 * length buf + 1)%nat.
Proof. exact tokenize_bounded. Qed.
Print Assumptions C17_at_tokens_bounded.

(* parse_parameters: for every byte string the result is a value or one of the four
   AtParsingErrors; the accumulator stack is never indexed while empty. *)
Theorem C17_at_no_internal_error : forall buf, parse_parameters buf <> inl EmptyStack.
Proof. exact parse_parameters_no_empty_stack. Qed.
Print Assumptions C17_at_no_internal_error.

(* ------------------------------------------------------------------ l2cap.py options loop *)
(* decode_configuration_options: with fuel len/2 + 1 the loop never runs out of fuel, for
   every byte string (every iteration consumes at least the two header bytes, also when
   the length byte is 0 or larger than what is left). *)
Theorem C17_config_options_terminate : forall data,
  decode_options (decode_options_fuel data) data <> None.
Proof. exact decode_options_terminates. Qed.
Print Assumptions C17_config_options_terminate.

Theorem C17_config_options_progress : forall fuel data opts,
  decode_options fuel data = Some opts ->
  (options_size opts <= length data)%nat /\ (2 * length opts <= length data)%nat.
Proof. exact decode_options_progress. Qed.
Print Assumptions C17_config_options_progress.

(* ------------------------------------------------------------------ regenerated tables *)
(* Every ATT / SMP / L2CAP signalling class of the current source is either inside the model
   (no '*' before the last field) or explicitly outside it (uses a named parser). *)
Definition has_opaque (fs : list fspec) : bool :=
  existsb (fun f => match f with FOpaque => true | _ => false end) fs.
Definition class_ok (c : Z * list fspec) : bool := wf_fields (snd c) || has_opaque (snd c).

Theorem C17_tables_modelled :
  forallb class_ok att_classes && forallb class_ok smp_classes && forallb class_ok sig_classes = true.
Proof. vm_compute. reflexivity. Qed.
Print Assumptions C17_tables_modelled.

(* the model's literals are the packet types of the current source *)
Theorem C17_hci_packet_types : hci_packet_types = [1; 2; 3; 4; 5].
Proof. vm_compute. reflexivity. Qed.
Print Assumptions C17_hci_packet_types.

(* ------------------------------------------------------------------ ATT / SMP parse *)
(* For every modelled class: the PDU is rejected with IndexError/struct.error exactly when
   it is shorter than [need] (the end of its last integer field), and otherwise accepted;
   nothing is dispatched on an error. *)
Theorem C17_att_too_short_is_error : forall pdu op fs,
  hd_error pdu = Some op -> lookup op att_classes = Some fs -> wf_fields fs = true ->
  HostileFields.mem op att_post_classes = false ->
  ((length pdu < need fs 1)%nat <->
   exists e, att_from_bytes att_classes pdu = PErr e /\ (e = EIndex \/ e = EStruct)).
Proof. exact (att_too_short_is_error att_classes). Qed.
Print Assumptions C17_att_too_short_is_error.

(* The four ATT response classes that split their '*' field into items in __post_init__
   (the list is regenerated from the source): their length-driven loops never run out of
   fuel len + 1, whatever length byte the peer sends (0 skips the loop, 1..3 make the item
   header unpack fail with struct.error as soon as one item fits). *)
Theorem C17_att_post_init_classes : att_post_init_classes = att_post_classes.
Proof. vm_compute. reflexivity. Qed.
Print Assumptions C17_att_post_init_classes.

Theorem C17_att_from_bytes_terminates : forall pdu,
  bytes_nonneg pdu = true -> att_from_bytes att_classes pdu <> POutOfFuel.
Proof. exact (att_from_bytes_terminates att_classes). Qed.
Print Assumptions C17_att_from_bytes_terminates.

Theorem C17_smp_too_short_is_error : forall pdu code fs,
  hd_error pdu = Some code -> lookup code smp_classes = Some fs -> wf_fields fs = true ->
  ((length pdu < need fs 1)%nat <->
   exists e, smp_from_bytes smp_classes pdu = PErr e /\ (e = EIndex \/ e = EStruct)).
Proof. exact (smp_too_short_is_error smp_classes). Qed.
Print Assumptions C17_smp_too_short_is_error.

Theorem C17_att_smp_empty_is_error :
  att_from_bytes att_classes [] = PErr EEmpty /\ smp_from_bytes smp_classes [] = PErr EEmpty.
Proof. exact (conj (att_empty_is_error att_classes) (smp_empty_is_error smp_classes)). Qed.
Print Assumptions C17_att_smp_empty_is_error.

(* ------------------------------------------------------------------ signalling handler *)
(* For every handler behaviour and every representation of the channel tables: *)
Theorem C17_sig_short_contained :
  forall (chan_state : Type) handler (st : chan_state) pdu, (length pdu < 4)%nat ->
  on_signalling_pdu chan_state handler sig_classes sig_handled st pdu = (st, [], SigParseError EStruct).
Proof. intros chan_state handler. exact (sig_short_contained chan_state handler sig_classes sig_handled). Qed.
Print Assumptions C17_sig_short_contained.

Theorem C17_sig_parse_error_contained :
  forall (chan_state : Type) handler (st : chan_state) pdu e i,
  sig_from_bytes sig_classes pdu = (PErr e, i) ->
  on_signalling_pdu chan_state handler sig_classes sig_handled st pdu = (st, [], SigParseError e).
Proof. intros chan_state handler. exact (sig_parse_error_contained chan_state handler sig_classes sig_handled). Qed.
Print Assumptions C17_sig_parse_error_contained.

Theorem C17_sig_reject_unchanged :
  forall (chan_state : Type) handler (st : chan_state) pdu st' sent,
  on_signalling_pdu chan_state handler sig_classes sig_handled st pdu = (st', sent, SigRejected) ->
  st' = st /\ sent = [command_reject (ident_of pdu)] /\ (4 <= length pdu)%nat.
Proof. intros chan_state handler. exact (sig_reject_unchanged chan_state handler sig_classes sig_handled). Qed.
Print Assumptions C17_sig_reject_unchanged.

Theorem C17_sig_unhandled_rejected :
  forall (chan_state : Type) handler (st : chan_state) code ident l0 l1 body,
  mem code sig_handled = false ->
  (forall fs, lookup code sig_classes = Some fs ->
     exists r, parse_fields fs (code :: ident :: l0 :: l1 :: body) 4 = inr r) ->
  on_signalling_pdu chan_state handler sig_classes sig_handled st (code :: ident :: l0 :: l1 :: body)
  = (st, [command_reject ident], SigRejected).
Proof. intros chan_state handler. exact (sig_unhandled_rejected chan_state handler sig_classes sig_handled). Qed.
Print Assumptions C17_sig_unhandled_rejected.

Theorem C17_sig_handler_raised_rejects :
  forall (chan_state : Type) handler (st : chan_state) pdu st' sent,
  on_signalling_pdu chan_state handler sig_classes sig_handled st pdu = (st', sent, SigHandlerRaised) ->
  exists before, sent = before ++ [command_reject (ident_of pdu)].
Proof. intros chan_state handler. exact (sig_handler_raised_rejects chan_state handler sig_classes sig_handled). Qed.
Print Assumptions C17_sig_handler_raised_rejects.

(* ------------------------------------------------------------------ SDP data elements *)
(* DataElement.from_bytes, for every byte string, with the regenerated nesting limit, with
   or without D17b.patch: fuel (max_depth + 2) * (len + 4) is never used up, i.e. the chain
   of nested parse_next / _list_from_bytes calls and loop iterations is bounded. *)
Theorem C17_sdp_terminates : forall strict data, bytes_ok data = true ->
  element_from_bytes strict sdp_max_nesting data <> SOutOfFuel.
Proof. intros strict data H. exact (element_from_bytes_terminates strict sdp_max_nesting data H). Qed.
Print Assumptions C17_sdp_terminates.

(* With D17b.patch the whole parse makes at most len + 1 parse_next calls, whatever the
   sizes the elements declare (work linear in the input: "terminates promptly"). *)
Theorem C17_sdp_work_linear : forall data, bytes_ok data = true ->
  0 <= steps_of (element_from_bytes true sdp_max_nesting data) <= zlen data + 1.
Proof. exact (element_from_bytes_work_linear sdp_max_nesting). Qed.
Print Assumptions C17_sdp_work_linear.

(* End to end, as the property reads: whatever bytes arrive as an SDP data element, the
   (patched) parser comes back - with a value or an ordinary error - after at most len + 1
   parse_next calls and within the stated fuel. *)
Theorem C17_sdp_element_prompt : forall data, bytes_ok data = true ->
  element_from_bytes true sdp_max_nesting data <> SOutOfFuel /\
  0 <= steps_of (element_from_bytes true sdp_max_nesting data) <= zlen data + 1.
Proof.
  intros data H.
  exact (conj (element_from_bytes_terminates true sdp_max_nesting data H)
              (element_from_bytes_work_linear sdp_max_nesting data H)).
Qed.
Print Assumptions C17_sdp_element_prompt.

(* Without the patch the statement is false: 83 bytes cost more than 30 calls per byte. *)
Theorem C17_sdp_work_linear_refuted_before_D17b :
  exists data, bytes_ok data = true /\
    steps_of (element_from_bytes false 32 data) > 30 * zlen data.
Proof. exact sdp_work_linear_refuted. Qed.
Print Assumptions C17_sdp_work_linear_refuted_before_D17b.

(* A SEQUENCE / ALTERNATIVE header met at the nesting limit is rejected at once. *)
Theorem C17_sdp_nesting_limit : forall strict data f off depth hd vsize szlen,
  0 <= off -> byte_at data off = Some hd ->
  (hd / 8 =? 6) || (hd / 8 =? 7) = true ->
  value_size data (off + 1) (hd / 8) (hd mod 8) = inr (vsize, szlen) ->
  sdp_max_nesting <= depth ->
  parse_next strict sdp_max_nesting data (S f) off depth = SErr SNesting 1.
Proof. intros strict data. exact (nesting_limit strict sdp_max_nesting data). Qed.
Print Assumptions C17_sdp_nesting_limit.

(* ------------------------------------------------------------------ rfcomm.DLC.process_tx *)
(* The frame size is negotiated by the peer and stored unvalidated (0 and negative values
   included).  As the code is - a tx credit is spent for every data frame attempted - the
   loop never exhausts fuel credits + 2, sends at most credits + 1 frames and never drives
   the credits negative, for every mtu, buffer length and pending rx-credit grant. *)
Theorem C17_rfcomm_process_tx_terminates : forall mtu buf credits rxn,
  0 <= credits -> process_tx true (process_tx_fuel credits) mtu buf credits rxn <> None.
Proof. exact process_tx_terminates. Qed.
Print Assumptions C17_rfcomm_process_tx_terminates.

Theorem C17_rfcomm_process_tx_bounded : forall fuel mtu buf credits rxn st frames,
  0 <= credits -> process_tx true fuel mtu buf credits rxn = Some (st, frames) ->
  Z.of_nat (length frames) <= credits + (if 0 <? rxn then 1 else 0) /\ 0 <= t_credits st <= credits.
Proof. exact process_tx_bounds. Qed.
Print Assumptions C17_rfcomm_process_tx_bounded.

(* The guard matters: if a credit were spent only for a non-empty payload (seeded change
   C17-a), then for mtu <= 0, data buffered and a credit available no fuel is ever enough. *)
Theorem C17_rfcomm_payload_rule_refuted : forall fuel mtu buf credits,
  mtu <= 0 -> 0 < buf -> 0 < credits -> take mtu buf = 0 ->
  process_tx false fuel mtu buf credits 0 = None.
Proof. exact process_tx_payload_rule_refuted. Qed.
Print Assumptions C17_rfcomm_payload_rule_refuted.

(* l2cap LeCreditBasedChannel.process_output (one SDU in progress): one PDU per credit, the
   credits never go negative, for every peer MPS; with the loop guard "credits >= 0" a PDU is
   sent without credit. *)
Theorem C17_coc_output_within_credits : forall fuel mps sdu credits,
  0 <= credits -> credits + 1 <= Z.of_nat fuel ->
  exists rest c n, coc_output true fuel mps sdu credits = Some (rest, c, n) /\
                   0 <= c /\ n + c = credits /\ 0 <= n.
Proof. exact coc_output_spec. Qed.
Print Assumptions C17_coc_output_within_credits.

Theorem C17_coc_output_boundary_refuted : coc_output false 10 23 100 2 = Some (31, -1, 3).
Proof. exact coc_output_boundary_refuted. Qed.
Print Assumptions C17_coc_output_boundary_refuted.

(* ------------------------------------------------------------------ two more TLV loops *)
(* avdtp ServiceCapabilities.parse_capabilities and core AdvertisingData.append: fuel len + 1
   is never used up, for every byte string (a zero length byte still consumes the header). *)
Theorem C17_avdtp_capabilities_terminate : forall payload,
  parse_capabilities (tlv_fuel payload) payload 0 <> None.
Proof. exact parse_capabilities_terminates. Qed.
Print Assumptions C17_avdtp_capabilities_terminate.

Theorem C17_advertising_data_terminates : forall data,
  parse_advertising (tlv_fuel data) data 0 <> None.
Proof. exact parse_advertising_terminates. Qed.
Print Assumptions C17_advertising_data_terminates.

(* ------------------------------------------------------------------ shapes read from the source *)
(* The constants of the loops the models copy, extracted from the AST of the anchored
   functions on every run (tools/translate/c17_shapes.py, fail closed).  Each equation is
   what the corresponding model was written from: a removed progress step, a changed bound
   or comparison, a dropped guard makes the equation (or the extractor) fail. *)
Theorem C17_options_loop_matches_source : options_loop_shape = [4; 2; 0; 1; 2; 2; 2].
Proof. vm_compute. reflexivity. Qed.
Print Assumptions C17_options_loop_matches_source.

Theorem C17_sdp_parser_matches_source :
  sdp_list_loop_shape = [4; 1; 1; 3; 1] /\ sdp_offset_check = 4 /\
  sdp_size_forms = [(0, 1, 0, 0); (1, 2, 0, -1); (2, 4, 0, -1); (3, 8, 0, -1); (4, 16, 0, -1);
                    (5, -1, 1, -1); (6, -1, 2, -1); (7, -1, 4, -1)].
Proof. vm_compute. repeat split. Qed.
Print Assumptions C17_sdp_parser_matches_source.

Theorem C17_at_tokenizer_matches_source :
  at_special_chars = [(c_space, 0); (c_comma, 1); (c_close, 1); (c_open, 2); (c_quote, 3)].
Proof. vm_compute. reflexivity. Qed.
Print Assumptions C17_at_tokenizer_matches_source.

Theorem C17_process_tx_matches_source : process_tx_spends = [1; 0; 1].
Proof. vm_compute. reflexivity. Qed.
Print Assumptions C17_process_tx_matches_source.

Theorem C17_coc_output_loop_matches_source : coc_output_loop_shape = [3; 0; 1; 1].
Proof. vm_compute. reflexivity. Qed.
Print Assumptions C17_coc_output_loop_matches_source.

Theorem C17_rfcomm_pn_validation_matches_source : rfcomm_pn_validation = [23; 32767; 1; 2].
Proof. vm_compute. reflexivity. Qed.
Print Assumptions C17_rfcomm_pn_validation_matches_source.

(* avdtp.Stream: the media transport channel is forgotten on every close of that channel, so
   that a Close / Abort arriving afterwards (teardown out of order) finds nothing to wait for *)
Theorem C17_avdtp_channel_close_matches_source : avdtp_channel_close_shape = [1; 0; 1; 1; 1].
Proof. vm_compute. reflexivity. Qed.
Print Assumptions C17_avdtp_channel_close_matches_source.

Theorem C17_credit_based_validation_matches_source : credit_based_validation = [23; 23; 1; 1; 1; 1].
Proof. vm_compute. reflexivity. Qed.
Print Assumptions C17_credit_based_validation_matches_source.

Theorem C17_att_item_loops_match_source :
  att_item_loop_shapes = [(5, 0, 2, -2); (7, 4, 4, 4); (9, 0, 2, 0); (17, 0, 4, 0)].
Proof. vm_compute. reflexivity. Qed.
Print Assumptions C17_att_item_loops_match_source.

Theorem C17_tlv_loops_match_source :
  capabilities_loop_shape = [1; 2; 2; 2] /\ advertising_loop_shape = [1; 1; 0; 1].
Proof. vm_compute. split; reflexivity. Qed.
Print Assumptions C17_tlv_loops_match_source.

(* ------------------------------------------------------------------ transport boundary *)
(* Every transport source feeds each received chunk to one PacketParser and goes on after an
   InvalidPacketError (the parser is C02's model, Model/Framer.v).  A byte that is not an HCI
   packet type, at whatever point of whatever stream, leaves the parser in its initial state *)
Theorem C17_transport_reject_is_init : forall (t : tp_table) d (s s' : tp_parser) o,
  tp_feed t s d = (s', o, tp_raised) -> s' = tp_init.
Proof. exact reject_is_init. Qed.
Print Assumptions C17_transport_reject_is_init.

(* ... hence, with the packet table of the current source, every well-formed packet the
   controller sends after the rejected byte, cut into chunks in any way, is delivered. *)
Theorem C17_transport_table_wf : tp_wf_table tp_packet_info = true.
Proof. vm_compute. reflexivity. Qed.
Print Assumptions C17_transport_table_wf.

Theorem C17_transport_delivers_after_reject : forall (s : tp_parser) d s' o pkts chunks,
  tp_feed tp_packet_info s d = (s', o, tp_raised) ->
  forallb (tp_wf_packet tp_packet_info) pkts = true -> concat chunks = concat pkts ->
  fst (tp_receive_all tp_packet_info s' chunks) = tp_init /\
  concat (snd (tp_receive_all tp_packet_info s' chunks)) = map tp_packet pkts.
Proof. intros s d s' o pkts chunks. exact (delivered_after_reject tp_packet_info s d s' o pkts chunks C17_transport_table_wf). Qed.
Print Assumptions C17_transport_delivers_after_reject.

(* pinned to the source: feed_data calls self.reset() before raising, and the two sources
   with a handler of their own (StreamPacketSource, PumpedPacketSource) continue after it *)
Theorem C17_transport_reject_matches_source : transport_reject_shape = [1; 1; 2; 1; 1].
Proof. vm_compute. reflexivity. Qed.
Print Assumptions C17_transport_reject_matches_source.

(* ------------------------------------------------------------------ Host.on_packet *)
Theorem C17_host_undecodable_contained : forall st p,
  hci_from_bytes p = HErr -> host_on_packet st p = (st, [OParseError]).
Proof. exact host_undecodable_contained. Qed.
Print Assumptions C17_host_undecodable_contained.

(* Any sequence of packets (of the modelled kinds: data packets, unknown types, undecodable
   bytes; command/event packets are outside the model) leaves the connection table, the
   CIS/BIS tables and the ready flag unchanged. *)
Theorem C17_host_tables_unchanged : forall ps st, fst (host_run st ps) = st.
Proof. exact host_run_state_unchanged. Qed.
Print Assumptions C17_host_tables_unchanged.

Theorem C17_host_to_assembler_only_if : forall st p handle pb data,
  In (OToAssembler handle pb data) (snd (host_on_packet st p)) ->
  h_ready st = true /\ HostileHost.mem handle (h_conns st) = true /\
  exists bc, hci_from_bytes p = HAcl handle pb bc data.
Proof. exact host_to_assembler_only_if. Qed.
Print Assumptions C17_host_to_assembler_only_if.

Theorem C17_acl_bad_framing_is_error :
  (forall rest, (length rest < 4)%nat -> hci_from_bytes (2 :: rest) = HErr) /\
  (forall a b c d data, HostileHost.zlen data <> le16 c d ->
     hci_from_bytes (2 :: a :: b :: c :: d :: data) = HErr).
Proof. exact (conj acl_short_is_error acl_length_mismatch_is_error). Qed.
Print Assumptions C17_acl_bad_framing_is_error.

(* ------------------------------------------------------------------ non-vacuity *)
Fixpoint nest (depth : nat) (leaf : list Z) : list Z :=
  match depth with
  | O => leaf
  | S k => let body := nest k leaf in
           if Z.of_nat (length body) <=? 255 then [53; Z.of_nat (length body)] ++ body
           else [54; Z.of_nat (length body) / 256; Z.of_nat (length body) mod 256] ++ body
  end.

Example C17_nesting_32_accepted_33_rejected :
  (exists e n, element_from_bytes true sdp_max_nesting (nest 32 [8; 1]) = SOk e (HostileSdp.zlen (nest 32 [8; 1])) n) /\
  element_from_bytes true sdp_max_nesting (nest 33 [8; 1]) = SErr SNesting 33 /\
  element_from_bytes true sdp_max_nesting (nest 600 [8; 1]) = SErr SNesting 33.
Proof. split; [eexists; eexists; vm_compute; reflexivity | split; vm_compute; reflexivity]. Qed.

Example C17_overrun_rejected_when_patched :
  element_from_bytes true sdp_max_nesting (overrun_witness 6 (repeat 0 50)) = SErr SOverrun 63 /\
  steps_of (element_from_bytes false sdp_max_nesting (overrun_witness 6 (repeat 0 50))) = 3327.
Proof. split; vm_compute; reflexivity. Qed.

Example C17_options_zero_and_oversize_length :
  decode_options (decode_options_fuel [1; 0; 5; 200; 7]) [1; 0; 5; 200; 7] = Some [(1, []); (5, [7])].
Proof. vm_compute. reflexivity. Qed.

Example C17_at_examples :
  parse_parameters [40; 49; 44; 50; 41; 44; 34; 97; 34] =
    inr [AtList [AtBytes [49]; AtBytes [50]]; AtBytes [97]] /\
  parse_parameters [40; 49] = inl MissingClose /\
  parse_parameters [49; 41] = inl CloseWithoutOpen /\
  parse_parameters [97; 40] = inl OpenParenAfterChar.
Proof. vm_compute. repeat split. Qed.

Example C17_unknown_signalling_code_rejected :
  on_signalling_pdu unit (fun _ _ _ s => (s, [], false)) sig_classes sig_handled tt [200; 7; 0; 0]
  = (tt, [[1; 7; 2; 0; 0; 0]], SigRejected).
Proof. vm_compute. reflexivity. Qed.

Example C17_transport_junk_then_event :
  tp_receive_all tp_packet_info tp_init [[119]; [4; 16; 1; 0]] =
    (tp_init, [[Framer.Error 119]; [tp_packet [4; 16; 1; 0]]]).
Proof. vm_compute. reflexivity. Qed.

Example C17_tlv_examples :
  parse_capabilities (tlv_fuel [1; 0; 7; 2; 9; 9; 4]) [1; 0; 7; 2; 9; 9; 4] 0 = Some (inl LIndex) /\
  parse_capabilities (tlv_fuel [1; 0; 7; 200; 9]) [1; 0; 7; 200; 9] 0 = Some (inr [(1, []); (7, [9])]) /\
  parse_advertising (tlv_fuel [0; 0; 2; 1; 6; 9]) [0; 0; 2; 1; 6; 9] 0 = Some [(1, [6])].
Proof. vm_compute. repeat split. Qed.

Example C17_process_tx_mtu_zero :
  process_tx true (process_tx_fuel 7) 0 10 7 0 = Some (mkTx 10 0, [(0, false); (0, false); (0, false); (0, false); (0, false); (0, false); (0, false)]) /\
  process_tx false 1000 0 10 7 0 = None.
Proof. vm_compute. split; reflexivity. Qed.

Example C17_att_read_request_too_short :
  att_from_bytes att_classes [10; 3] = PErr EStruct /\
  att_from_bytes att_classes [10; 3; 0] = PKnown 10 [VInt 3].
Proof. vm_compute. split; reflexivity. Qed.

Example C17_att_read_by_type_response_lengths :
  att_from_bytes att_classes [9; 0; 1; 2; 3] = PKnown 9 [VInt 0; VBytes [1; 2; 3]; VItems []] /\
  att_from_bytes att_classes [9; 1; 114; 55; 51] = PErr EStruct /\
  att_from_bytes att_classes [9; 3; 1; 0; 7; 2; 0; 8; 9] =
    PKnown 9 [VInt 3; VBytes [1; 0; 7; 2; 0; 8; 9]; VItems [[1; 0; 7]; [2; 0; 8]]].
Proof. vm_compute. repeat split. Qed.
