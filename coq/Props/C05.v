(* placeholder while the proofs are being written *)
From Coq Require Import ZArith List Bool.
From BV Require Import Model.Acl.
Import ListNotations.
Open Scope Z_scope.
Example C05_placeholder : deliveries (snd (asm_run asm_init [mkAcl 1 0 0 5 [1;0;4;0;9]])) = [[1;0;4;0;9]].
Proof. vm_compute. reflexivity. Qed.
