(* Property C05: L2CAP PDUs of any size cross the ACL link intact for any buffer geometry.
   Statements only, each closed by [exact]; the model is Model/Acl.v (hand-written, tied to
   bumble by tools/harness/c05.py), the proofs are in Proofs/Acl.v. *)
From Coq Require Import ZArith List Bool.
From BV Require Import Model.Acl Model.AclSrc Model.DataQueue Gen.C05Shape Proofs.DataQueue Proofs.Acl Proofs.AclSrc.
Import ListNotations.
Open Scope Z_scope.

(* ---- fragmentation (Host.send_acl_sdu towards the controller with first marker 0,
        Controller.on_link_acl_data towards the host with first marker 2) ----
   For every fragment size m >= 1 and every SDU of any length: the fragmenter succeeds; the
   fragments concatenate to the SDU; each has the connection handle, bc 0, data_total_length =
   its size, 1 <= size <= m; the first carries the start marker, all others 1; every fragment
   but the last is exactly m bytes; no packet at all iff the SDU is empty. *)
Theorem C05_fragments_fit_and_flagged : forall h pb m sdu, 1 <= m ->
  exists ps, fragment h pb m sdu = Some ps /\
             concat (map a_data ps) = sdu /\
             Forall (frag_ok h m) ps /\ flags_ok pb ps /\
             full_but_last (Z.to_nat m) (map a_data ps) /\
             (ps = [] <-> sdu = []).
Proof. exact fragment_spec. Qed.
Print Assumptions C05_fragments_fit_and_flagged.

(* ---- reassembly, RESYNC ----
   From EVERY assembler state (whatever preceded), the fragments of a well-formed PDU cut by
   ANY m >= 1 (also cuts that leave fewer than two bytes in the start fragment), with either start marker, deliver exactly that PDU, once, and leave the
   assembler in its initial state. *)
Theorem C05_reassembly_from_any_state : forall s h pb m pdu ps,
  1 <= m -> pb = 0 \/ pb = 2 -> pdu_wf pdu ->
  fragment h pb m pdu = Some ps ->
  asm_run s ps = (asm_init, [Deliver pdu]).
Proof. exact asm_fragment. Qed.
Print Assumptions C05_reassembly_from_any_state.

(* ... also with an arbitrary packet sequence in front: its effects come first, untouched *)
Theorem C05_resync_after_garbage : forall s junk h pb m pdu ps,
  1 <= m -> pb = 0 \/ pb = 2 -> pdu_wf pdu -> fragment h pb m pdu = Some ps ->
  asm_run s (junk ++ ps) = (asm_init, snd (asm_run s junk) ++ [Deliver pdu]).
Proof. exact asm_resync. Qed.
Print Assumptions C05_resync_after_garbage.

(* Before fix D05b (start fragment shorter than the length field raised struct.error) this was
   false for m = 1; with the fix the same fragments deliver the PDU. *)
Theorem C05_reassembly_m1_before_d05b_refuted :
  exists pdu ps, pdu_wf pdu /\ fragment 1 0 1 pdu = Some ps /\
                 deliveries (snd (asm_run_before_d05b asm_init ps)) = [] /\
                 deliveries (snd (asm_run asm_init ps)) = [pdu].
Proof. exact asm_fragment_m1_before_d05b_refuted. Qed.
Print Assumptions C05_reassembly_m1_before_d05b_refuted.

(* soundness of deliveries: from ANY state, for ANY packets, whatever is handed to L2CAP has a
   length field that matches its size *)
Theorem C05_deliveries_are_wellformed : forall ps s d,
  In d (deliveries (snd (asm_run s ps))) -> pdu_wf d.
Proof. exact asm_run_delivers_wf. Qed.
Print Assumptions C05_deliveries_are_wellformed.

(* ---- streams: arbitrary packets, then a well-formed PDU, repeated ----
   Every well-formed PDU is delivered once, in order; what a malformed sequence causes is a
   function of that sequence alone, evaluated from the INITIAL state (for all but the first):
   it costs at most itself and can never corrupt a neighbour. *)
Theorem C05_stream_with_malformed_sequences : forall items s, Forall item_wf items ->
  deliveries (snd (asm_run s (flat_map item_packets items))) = stream_spec s items /\
  (items <> [] -> fst (asm_run s (flat_map item_packets items)) = asm_init).
Proof. exact asm_stream. Qed.
Print Assumptions C05_stream_with_malformed_sequences.

(* sequences of well-formed PDUs compose *)
Theorem C05_sequences_compose : forall h pb m pdus s,
  1 <= m -> pb = 0 \/ pb = 2 -> Forall pdu_wf pdus ->
  deliveries (snd (asm_run s (flat_map item_packets (map (clean h pb m) pdus)))) = pdus.
Proof. exact asm_sequence. Qed.
Print Assumptions C05_sequences_compose.

(* ---- the malformed sequences named by the property ---- *)
(* continuation without start: ignored *)
Theorem C05_continuation_without_start : forall ps l, Forall (fun p => a_pb p = 1) ps ->
  asm_run (None, l) ps = ((None, l), map (fun _ => ContNoStart) ps).
Proof. exact conts_without_start. Qed.
Print Assumptions C05_continuation_without_start.

(* a PDU whose start fragment was lost costs that PDU only *)
Theorem C05_lost_start : forall h pb m pdu p ps,
  1 <= m -> fragment h pb m pdu = Some (p :: ps) ->
  asm_run asm_init ps = (asm_init, map (fun _ => ContNoStart) ps).
Proof. exact lost_start. Qed.
Print Assumptions C05_lost_start.

(* data beyond the announced length: that PDU is dropped, the state is reset, trailing
   continuation fragments are ignored *)
Theorem C05_overflow_costs_one_pdu : forall s h pb b0 b1 rest r more,
  pb = 0 \/ pb = 2 ->
  let c0 := b0 :: b1 :: rest in
  (r <> [] -> blen (c0 ++ concat (removelast r)) < rd16 b0 b1 + 4) ->
  blen (c0 ++ concat r) > rd16 b0 b1 + 4 ->
  Forall (fun p => a_pb p = 1) more ->
  asm_run s (start h pb c0 :: map (cont h) r ++ more) =
  (asm_init, Overflow :: map (fun _ => ContNoStart) more).
Proof. exact overflow_costs_one_pdu. Qed.
Print Assumptions C05_overflow_costs_one_pdu.

(* a truncated PDU is dropped by the next start fragment; the next PDU is intact *)
Theorem C05_truncated_then_next : forall s h pb b0 b1 rest r h' pb' m pdu ps,
  pb = 0 \/ pb = 2 ->
  let c0 := b0 :: b1 :: rest in
  blen (c0 ++ concat r) < rd16 b0 b1 + 4 ->
  1 <= m -> pb' = 0 \/ pb' = 2 -> pdu_wf pdu -> fragment h' pb' m pdu = Some ps ->
  asm_run s ((start h pb c0 :: map (cont h) r) ++ ps) = (asm_init, [Deliver pdu]).
Proof. exact truncated_then_next. Qed.
Print Assumptions C05_truncated_then_next.

(* a delivery or an overflow always leaves the initial state (no stale data survives) *)
Theorem C05_delivery_resets : forall s p s' o,
  feed s p = (s', o) -> (exists d, In (Deliver d) o) \/ In Overflow o -> s' = asm_init.
Proof. exact feed_resets. Qed.
Print Assumptions C05_delivery_resets.

(* the property's sentence, at the receiving host: arbitrary packet sequences injected before
   each PDU; if they deliver nothing by themselves, L2CAP sees exactly the PDUs sent *)
Theorem C05_rx_with_faults : forall hB mB xs,
  1 <= mB -> Forall sendable (map snd xs) -> Forall (fun x => silent (fst x)) xs ->
  flat_map host_on_acl_pdu (deliveries (snd (asm_run asm_init (faulty_stream hB mB xs)))) = map snd xs.
Proof. exact rx_with_faults. Qed.
Print Assumptions C05_rx_with_faults.

(* ... and the named malformed sequences are such sequences *)
Theorem C05_silent_continuations : forall ps, Forall (fun p => a_pb p = 1) ps -> silent ps.
Proof. exact silent_conts. Qed.
Print Assumptions C05_silent_continuations.

Theorem C05_silent_overflow : forall h pb b0 b1 rest r more,
  pb = 0 \/ pb = 2 ->
  (r <> [] -> blen ((b0 :: b1 :: rest) ++ concat (removelast r)) < rd16 b0 b1 + 4) ->
  blen ((b0 :: b1 :: rest) ++ concat r) > rd16 b0 b1 + 4 ->
  Forall (fun p => a_pb p = 1) more ->
  silent (start h pb (b0 :: b1 :: rest) :: map (cont h) r ++ more).
Proof. exact silent_overflow. Qed.
Print Assumptions C05_silent_overflow.

Theorem C05_silent_truncated : forall h pb b0 b1 rest r,
  pb = 0 \/ pb = 2 -> blen ((b0 :: b1 :: rest) ++ concat r) < rd16 b0 b1 + 4 ->
  silent (start h pb (b0 :: b1 :: rest) :: map (cont h) r).
Proof. exact silent_truncated. Qed.
Print Assumptions C05_silent_truncated.

(* ---- codecs on the path ---- *)
Theorem C05_l2cap_header_roundtrip : forall cid payload b,
  l2cap_to_bytes cid payload = Some b ->
  l2cap_from_bytes b = Some (cid, payload) /\ pdu_wf b /\ blen b = blen payload + 4.
Proof. exact l2cap_roundtrip. Qed.
Print Assumptions C05_l2cap_header_roundtrip.

Theorem C05_l2cap_sendable : forall cid payload,
  blen payload <= 65535 -> 0 <= cid <= 65535 -> exists b, l2cap_to_bytes cid payload = Some b.
Proof. exact l2cap_to_bytes_some. Qed.
Print Assumptions C05_l2cap_sendable.

Theorem C05_l2cap_fcs_roundtrip : forall cid payload b,
  l2cap_to_bytes_fcs cid payload = Some b ->
  exists f0 f1, l2cap_from_bytes b = Some (cid, payload ++ [f0; f1]) /\ pdu_wf b /\
                [f0; f1] = le16 (crc16 (le16 (blen payload + 2) ++ le16 cid ++ payload)).
Proof. exact l2cap_fcs_roundtrip. Qed.
Print Assumptions C05_l2cap_fcs_roundtrip.

(* HCI ACL header bit fields (handle 12 bits, pb 2 bits, bc 2 bits, length 16 bits) *)
Theorem C05_acl_header_roundtrip : forall p, acl_ok p ->
  exists b, acl_to_bytes p = Some b /\ acl_from_bytes b = Some p.
Proof. exact acl_wire_roundtrip. Qed.
Print Assumptions C05_acl_header_roundtrip.

(* ---- end to end: host A -> controller A -> link -> controller B -> host B ----
   For all handles, all fragment sizes 1..65535 on either side, every list of PDUs with
   0..65535 payload bytes: the peer's L2CAP layer sees exactly the PDUs sent, once, in order. *)
Theorem C05_relay_intact : forall hA mA hB mB pdus,
  0 <= hA < 4096 -> 0 <= hB < 4096 -> 1 <= mA <= 65535 -> 1 <= mB <= 65535 ->
  Forall sendable pdus ->
  relay hA mA hB mB pdus = Some pdus.
Proof. exact relay_intact. Qed.
Print Assumptions C05_relay_intact.

(* ... and every fragment on either HCI link fits, with the right markers *)
Theorem C05_relay_fragments_fit : forall h pb m pdu, 1 <= m ->
  Forall (frag_ok h m) (frags h pb m pdu) /\ flags_ok pb (frags h pb m pdu) /\
  concat (map a_data (frags h pb m pdu)) = pdu.
Proof. exact relay_fragments_fit. Qed.
Print Assumptions C05_relay_fragments_fit.

(* the relay as it was before fix D05 (one ACL packet per PDU towards the host) loses a
   65532-byte PDU: struct.pack cannot encode data_total_length 65536 *)
Theorem C05_relay_unfragmented_refuted :
  relay_unfragmented 1 1021 2 [(62, pattern (Z.to_nat 65532) 7 1); (62, [1; 2; 3])] = Some [(62, [1; 2; 3])].
Proof. exact relay_unfragmented_refuted. Qed.
Print Assumptions C05_relay_unfragmented_refuted.

(* composition with the DataPacketQueue (C04): whatever else the queue does, once nothing of
   the connection is waiting, the controller was handed exactly the fragment list *)
Theorem C05_queue_hands_over_fragments : forall maxf ops h (pk : list acl) d,
  enqueued h ops = map (fun i => (Z.of_nat i, h)) (seq 0 (length pk)) ->
  flushes h ops = false ->
  filter (is_handle h) (q_wait (fst (q_run (q_init maxf) ops))) = [] ->
  map (fun ph => nth (Z.to_nat (fst ph)) pk d) (filter (is_handle h) (snd (q_run (q_init maxf) ops))) = pk.
Proof. exact queue_hands_over_fragments. Qed.
Print Assumptions C05_queue_hands_over_fragments.

(* several connections share the queue: AT EVERY POINT of the drain, whatever is enqueued,
   completed or FLUSHED for other handles (a disconnection of another connection at any position
   of the history), what the controller was handed for h is a prefix of h's fragments in order;
   and all of them once nothing of h waits *)
Theorem C05_queue_other_connections_harmless : forall maxf ops h (pk : list acl) d,
  enqueued h ops = map (fun i => (Z.of_nat i, h)) (seq 0 (length pk)) ->
  Forall (fun o => match o with Flush h' => h' <> h | _ => True end) ops ->
  (exists k, map (fun ph => nth (Z.to_nat (fst ph)) pk d)
                 (filter (is_handle h) (snd (q_run (q_init maxf) ops))) = firstn k pk) /\
  (filter (is_handle h) (q_wait (fst (q_run (q_init maxf) ops))) = [] ->
   map (fun ph => nth (Z.to_nat (fst ph)) pk d)
       (filter (is_handle h) (snd (q_run (q_init maxf) ops))) = pk).
Proof. exact queue_other_connections_harmless. Qed.
Print Assumptions C05_queue_other_connections_harmless.

(* ---- isochronous SDUs ----
   For every ISO data packet length > 4 and every SDU: fragments concatenate to the SDU, each
   is non-empty with data_total_length <= max; markers 10 (single) or 00 01* 11; sequence
   number and SDU length on the first fragment only; the counter advances modulo 2^16. *)
Theorem C05_iso_sdu_fragments : forall h maxp seq sdu, 4 < maxp -> 0 <= seq ->
  exists ps, send_iso_sdu h maxp seq sdu = (Some ps, (seq + 1) mod 65536) /\
             concat (map i_frag ps) = sdu /\
             Forall (fun p => i_handle p = h /\ 1 <= blen (i_frag p) /\ 0 <= i_len p <= maxp) ps /\
             iso_shape true seq (blen sdu) ps.
Proof. exact send_iso_sdu_spec. Qed.
Print Assumptions C05_iso_sdu_fragments.

Theorem C05_iso_sequence_numbers : forall h maxp, 4 < maxp -> forall sdus seq, 0 <= seq < 65536 ->
  iso_seq_spec h maxp seq sdus (fst (send_iso_sdus h maxp seq sdus)) /\
  snd (send_iso_sdus h maxp seq sdus) = (seq + Z.of_nat (length sdus)) mod 65536.
Proof. exact send_iso_sdus_spec. Qed.
Print Assumptions C05_iso_sequence_numbers.

Theorem C05_iso_wire_roundtrip : forall p, iso_first_ok p \/ iso_cont_ok p ->
  exists b, iso_to_bytes p = Some b /\ iso_from_bytes b = Some p.
Proof. exact iso_wire_roundtrip. Qed.
Print Assumptions C05_iso_wire_roundtrip.

(* every packet of an SDU can be read back by the receiving host, field for field *)
Theorem C05_iso_sdu_wire_intact : forall h maxp seq sdu,
  0 <= h < 4096 -> 4 < maxp <= 65535 -> 0 <= seq <= 65535 -> blen sdu < 4096 ->
  exists ps, fst (send_iso_sdu h maxp seq sdu) = Some ps /\
             concat (map i_frag ps) = sdu /\
             Forall (fun p => exists b, iso_to_bytes p = Some b /\ iso_from_bytes b = Some p) ps.
Proof. exact iso_sdu_wire_intact. Qed.
Print Assumptions C05_iso_sdu_wire_intact.

(* a zero-length SDU has no fragment; it still consumes one sequence number *)
Theorem C05_iso_empty_sdu : forall h maxp seq, 0 <= seq ->
  send_iso_sdu h maxp seq [] = (Some [], (seq + 1) mod 65536).
Proof. exact send_iso_sdu_empty. Qed.
Print Assumptions C05_iso_empty_sdu.

(* the guard "SDU length < 2^12" of the wire round trip is needed *)
Theorem C05_iso_sdu_length_4096_refuted :
  exists p b, iso_to_bytes p = Some b /\ i_sdu_len p = Some 4096 /\
              option_map i_sdu_len (iso_from_bytes b) = Some (Some 0).
Proof. exact iso_sdu_length_4096_refuted. Qed.
Print Assumptions C05_iso_sdu_length_4096_refuted.


(* ==== the source, regenerated on every run (Gen/C05Shape.v), against the model ====
   Skeletons: control flow and canonical expression text of every anchored function are what
   Model/Acl.v was written from. An edit of one of these functions breaks its theorem. *)
Theorem C05_src_host_send_acl_sdu_skeleton_matches_source : sk_host_send_acl_sdu = exp_sk_host_send_acl_sdu.
Proof. vm_compute. reflexivity. Qed.
Print Assumptions C05_src_host_send_acl_sdu_skeleton_matches_source.

Theorem C05_src_host_send_l2cap_pdu_skeleton_matches_source : sk_host_send_l2cap_pdu = exp_sk_host_send_l2cap_pdu.
Proof. vm_compute. reflexivity. Qed.
Print Assumptions C05_src_host_send_l2cap_pdu_skeleton_matches_source.

Theorem C05_src_host_send_iso_sdu_skeleton_matches_source : sk_host_send_iso_sdu = exp_sk_host_send_iso_sdu.
Proof. vm_compute. reflexivity. Qed.
Print Assumptions C05_src_host_send_iso_sdu_skeleton_matches_source.

Theorem C05_src_host_on_l2cap_pdu_skeleton_matches_source : sk_host_on_l2cap_pdu = exp_sk_host_on_l2cap_pdu.
Proof. vm_compute. reflexivity. Qed.
Print Assumptions C05_src_host_on_l2cap_pdu_skeleton_matches_source.

Theorem C05_src_host_conn_on_hci_acl_data_packet_skeleton_matches_source : sk_host_conn_on_hci_acl_data_packet = exp_sk_host_conn_on_hci_acl_data_packet.
Proof. vm_compute. reflexivity. Qed.
Print Assumptions C05_src_host_conn_on_hci_acl_data_packet_skeleton_matches_source.

Theorem C05_src_host_conn_on_acl_pdu_skeleton_matches_source : sk_host_conn_on_acl_pdu = exp_sk_host_conn_on_acl_pdu.
Proof. vm_compute. reflexivity. Qed.
Print Assumptions C05_src_host_conn_on_acl_pdu_skeleton_matches_source.

Theorem C05_src_asm_init_skeleton_matches_source : sk_asm_init = exp_sk_asm_init.
Proof. vm_compute. reflexivity. Qed.
Print Assumptions C05_src_asm_init_skeleton_matches_source.

Theorem C05_src_asm_feed_packet_skeleton_matches_source : sk_asm_feed_packet = exp_sk_asm_feed_packet.
Proof. vm_compute. reflexivity. Qed.
Print Assumptions C05_src_asm_feed_packet_skeleton_matches_source.

Theorem C05_src_acl_from_bytes_skeleton_matches_source : sk_acl_from_bytes = exp_sk_acl_from_bytes.
Proof. vm_compute. reflexivity. Qed.
Print Assumptions C05_src_acl_from_bytes_skeleton_matches_source.

Theorem C05_src_acl_to_bytes_skeleton_matches_source : sk_acl_to_bytes = exp_sk_acl_to_bytes.
Proof. vm_compute. reflexivity. Qed.
Print Assumptions C05_src_acl_to_bytes_skeleton_matches_source.

Theorem C05_src_iso_from_bytes_skeleton_matches_source : sk_iso_from_bytes = exp_sk_iso_from_bytes.
Proof. vm_compute. reflexivity. Qed.
Print Assumptions C05_src_iso_from_bytes_skeleton_matches_source.

Theorem C05_src_iso_to_bytes_skeleton_matches_source : sk_iso_to_bytes = exp_sk_iso_to_bytes.
Proof. vm_compute. reflexivity. Qed.
Print Assumptions C05_src_iso_to_bytes_skeleton_matches_source.

Theorem C05_src_l2cap_from_bytes_skeleton_matches_source : sk_l2cap_from_bytes = exp_sk_l2cap_from_bytes.
Proof. vm_compute. reflexivity. Qed.
Print Assumptions C05_src_l2cap_from_bytes_skeleton_matches_source.

Theorem C05_src_l2cap_to_bytes_skeleton_matches_source : sk_l2cap_to_bytes = exp_sk_l2cap_to_bytes.
Proof. vm_compute. reflexivity. Qed.
Print Assumptions C05_src_l2cap_to_bytes_skeleton_matches_source.

Theorem C05_src_ctrl_conn_on_hci_acl_data_packet_skeleton_matches_source : sk_ctrl_conn_on_hci_acl_data_packet = exp_sk_ctrl_conn_on_hci_acl_data_packet.
Proof. vm_compute. reflexivity. Qed.
Print Assumptions C05_src_ctrl_conn_on_hci_acl_data_packet_skeleton_matches_source.

Theorem C05_src_ctrl_conn_on_acl_pdu_skeleton_matches_source : sk_ctrl_conn_on_acl_pdu = exp_sk_ctrl_conn_on_acl_pdu.
Proof. vm_compute. reflexivity. Qed.
Print Assumptions C05_src_ctrl_conn_on_acl_pdu_skeleton_matches_source.

Theorem C05_src_ctrl_on_hci_acl_data_packet_skeleton_matches_source : sk_ctrl_on_hci_acl_data_packet = exp_sk_ctrl_on_hci_acl_data_packet.
Proof. vm_compute. reflexivity. Qed.
Print Assumptions C05_src_ctrl_on_hci_acl_data_packet_skeleton_matches_source.

Theorem C05_src_ctrl_on_link_acl_data_skeleton_matches_source : sk_ctrl_on_link_acl_data = exp_sk_ctrl_on_link_acl_data.
Proof. vm_compute. reflexivity. Qed.
Print Assumptions C05_src_ctrl_on_link_acl_data_skeleton_matches_source.

Theorem C05_src_link_send_acl_data_skeleton_matches_source : sk_link_send_acl_data = exp_sk_link_send_acl_data.
Proof. vm_compute. reflexivity. Qed.
Print Assumptions C05_src_link_send_acl_data_skeleton_matches_source.

(* Semantics, for ALL values: the loop bounds / slices / flag expressions / comparison operators /
   header arithmetic found in the current source compute what the model computes. *)
Theorem C05_src_tx_loop_matches_source :
  loop_shape tx_atoms exp_tx_data tx_range_start tx_range_stop tx_range_step tx_loop_target tx_slice_lo tx_slice_hi tx_bc tx_len
  /\ nth 3 tx_atoms exp_empty = exp_tx_len_atom.
Proof. exact tx_loop_shape. Qed.
Print Assumptions C05_src_tx_loop_matches_source.

Theorem C05_src_relay_loop_matches_source :
  loop_shape rl_atoms exp_rl_data rl_range_start rl_range_stop rl_range_step rl_loop_target rl_slice_lo rl_slice_hi rl_bc rl_len
  /\ nth 3 rl_atoms exp_empty = exp_rl_len_atom.
Proof. exact rl_loop_shape. Qed.
Print Assumptions C05_src_relay_loop_matches_source.

(* range(0, len, m) with x[off : off + m] is the model's chunking *)
Theorem C05_src_chunks_are_slices : forall fuel m l cs, chunks fuel m l = Some cs ->
  forall k, (k < List.length cs)%nat -> nth k cs [] = firstn m (skipn (k * m) l).
Proof. exact chunks_nth. Qed.
Print Assumptions C05_src_chunks_are_slices.

Theorem C05_src_tx_pb_matches_source : forall h cs m k d n len, 1 <= m -> (k < List.length cs)%nat ->
  a_pb (nth k (mark_frags h 0 cs) d) = pxeval (env_of [n; m; Z.of_nat k * m; len]) tx_pb.
Proof. exact tx_pb_matches_model. Qed.
Print Assumptions C05_src_tx_pb_matches_source.

Theorem C05_src_relay_pb_matches_source : forall h cs m k d n len, 1 <= m -> (k < List.length cs)%nat ->
  a_pb (nth k (mark_frags h 2 cs) d) = pxeval (env_of [n; m; Z.of_nat k * m; len]) rl_pb.
Proof. exact rl_pb_matches_model. Qed.
Print Assumptions C05_src_relay_pb_matches_source.

(* the model's assembler step IS the interpretation of the five tests found in feed_packet
   (membership of pb in the start constants, == continuation, < 2, == length + 4, > length + 4) *)
Theorem C05_src_feed_matches_source : forall s p, feed s p = feed_src s p.
Proof. exact feed_matches_source. Qed.
Print Assumptions C05_src_feed_matches_source.

Theorem C05_src_feed_atoms_match_source :
  asm_atoms = exp_asm_atoms /\
  asm_unpack_args = exp_asm_unpack_args /\ asm_test_count = 6.
Proof. exact asm_atoms_src. Qed.
Print Assumptions C05_src_feed_atoms_match_source.

Theorem C05_src_acl_header_matches_source : forall pb bc handle x n len,
  aclhdr_atoms = exp_aclhdr_atoms /\
  aclhdr_formats = exp_aclhdr_formats /\
  pxeval (env_of [pb; bc; handle; x; n; len]) aclhdr_pack = acl_hdr handle pb bc /\
  pxeval (env_of [pb; bc; handle; x; n; len]) aclhdr_handle = Z.land x 4095 /\
  pxeval (env_of [pb; bc; handle; x; n; len]) aclhdr_pb = Z.land (Z.shiftr x 12) 3 /\
  pxeval (env_of [pb; bc; handle; x; n; len]) aclhdr_bc = Z.land (Z.shiftr x 14) 3 /\
  truthy (pxeval (env_of [pb; bc; handle; x; n; len]) aclhdr_len_check) = negb (n =? len).
Proof. exact aclhdr_matches_source. Qed.
Print Assumptions C05_src_acl_header_matches_source.

Theorem C05_src_l2cap_matches_source : forall n length,
  l2_atoms = exp_l2_atoms /\ l2_formats = exp_l2_formats /\
  truthy (pxeval (env_of [n; length]) l2_short_test) = (n <? 4) /\
  pxeval (env_of [n; length]) l2_slice_lo = 4 /\
  pxeval (env_of [n; length]) l2_slice_hi = 4 + length.
Proof. exact l2_matches_source. Qed.
Print Assumptions C05_src_l2cap_matches_source.

(* one iteration of the model's ISO loop is the source's iteration: header length, assert,
   min(...), last-fragment test, the four pb values, lengths, SDU length *)
Theorem C05_src_iso_loop_matches_source : forall f h maxp seq total first x rest,
  let l := x :: rest in
  let env0 := iso_env (blen l) 0 (b2z first) maxp 0 0 0 total seq in
  let hl := pxeval env0 iso_header_length in
  let env1 := iso_env (blen l) 0 (b2z first) maxp hl 0 0 total seq in
  let fl := pxeval env1 iso_fragment_length in
  let env2 := iso_env (blen l) 0 (b2z first) maxp hl fl 0 total seq in
  let last := b2z (truthy (pxeval env2 iso_is_last)) in
  let env3 := iso_env (blen l) 0 (b2z first) maxp hl fl last total seq in
  iso_loop (S f) h maxp seq total first l =
  if negb (truthy (pxeval env1 iso_assert_test)) then None
  else
    let fr := firstn (Z.to_nat fl) l in
    let pkt := if first
               then mkIso h (pxeval env3 iso_first_pb) (pxeval env3 iso_first_len) None (Some seq)
                          (Some (pxeval env3 iso_first_sdu_len)) (Some (pxeval env3 iso_first_psf)) fr
               else mkIso h (pxeval env3 iso_later_pb) (pxeval env3 iso_later_len) None None None None fr in
    match iso_loop f h maxp seq total false (skipn (Z.to_nat fl) l) with
    | Some r => Some (pkt :: r)
    | None => None
    end.
Proof. exact iso_loop_matches_source. Qed.
Print Assumptions C05_src_iso_loop_matches_source.

Theorem C05_src_iso_atoms_match_source : iso_atoms = exp_iso_atoms.
Proof. exact iso_atoms_src. Qed.
Print Assumptions C05_src_iso_atoms_match_source.

Theorem C05_src_iso_seq_matches_source : forall h maxp seq sdu ps,
  iso_loop (List.length sdu) h maxp seq (blen sdu) true sdu = Some ps ->
  snd (send_iso_sdu h maxp seq sdu) = pxeval (iso_env 0 0 0 0 0 0 0 0 seq) iso_seq_update.
Proof. exact iso_seq_matches_source. Qed.
Print Assumptions C05_src_iso_seq_matches_source.

Theorem C05_src_iso_header_matches_source : forall ts pb handle l f info w,
  let env := env_of [ts; pb; handle; l; f; info; w] in
  isohdr_atoms = exp_isohdr_atoms /\
  pxeval env isohdr_pack = iso_hdr ts pb handle /\
  pxeval env isohdr_info_pack = Z.lor l (Z.shiftl f 14) /\
  pxeval env isohdr_handle = Z.land info 4095 /\
  pxeval env isohdr_pb = Z.land (Z.shiftr info 12) 3 /\
  pxeval env isohdr_ts = Z.land (Z.shiftr info 14) 1 /\
  pxeval env isohdr_sdu_len = Z.land w 4095 /\
  pxeval env isohdr_psf = Z.land (Z.shiftr w 14) 3.
Proof. exact isohdr_matches_source. Qed.
Print Assumptions C05_src_iso_header_matches_source.

(* ---- non-vacuity ---- *)
Example C05_example_relay :
  relay 1 2 2 3 [(4, [10; 20; 30; 40; 50]); (5, []); (62, [7])] = Some [(4, [10; 20; 30; 40; 50]); (5, []); (62, [7])].
Proof. vm_compute. reflexivity. Qed.

Example C05_example_wf :
  Forall sendable [(4, [10; 20; 30; 40; 50]); (5, []); (62, [7])] /\ pdu_wf [1; 0; 4; 0; 9] /\
  item_wf (mkItem [mkAcl 1 1 0 2 [1; 2]] 1 0 2 [1; 0; 4; 0; 9]).
Proof.
  split; [|split].
  - repeat constructor; cbn; unfold blen; cbn; try discriminate.
  - reflexivity.
  - unfold item_wf. cbn. split; [discriminate|]. split; [left; reflexivity|reflexivity].
Qed.

Example C05_example_one_byte_fragments :
  relay 1 1 2 1 [(4, [10; 20; 30]); (5, [])] = Some [(4, [10; 20; 30]); (5, [])] /\
  silent [mkAcl 1 0 0 1 [9]; mkAcl 1 1 0 1 [0]; mkAcl 1 1 0 2 [4; 0]] /\
  silent [mkAcl 1 1 0 3 [1; 2; 3]].
Proof. vm_compute. repeat split. Qed.

Example C05_example_overflow :
  asm_run asm_init [mkAcl 1 0 0 5 [1; 0; 4; 0; 9]; mkAcl 1 0 0 4 [2; 0; 4; 0]; mkAcl 1 1 0 3 [1; 2; 3];
                    mkAcl 1 1 0 1 [9]; mkAcl 1 0 0 5 [1; 0; 4; 0; 8]]
  = (asm_init, [Deliver [1; 0; 4; 0; 9]; Overflow; ContNoStart; Deliver [1; 0; 4; 0; 8]]).
Proof. vm_compute. reflexivity. Qed.

(* the state "stale partial PDU, then a start fragment that is a complete PDU": the complete
   PDU is delivered, the stale data is gone, the orphan continuation that would have completed
   the stale PDU is ignored (instance of C05_reassembly_from_any_state) *)
Example C05_example_stale_partial :
  asm_run asm_init [mkAcl 1 2 0 6 [6; 0; 62; 0; 16; 17];            (* announces 10 bytes, carries 6 *)
                    mkAcl 1 2 0 7 [3; 0; 62; 0; 32; 33; 34];        (* complete single-fragment PDU *)
                    mkAcl 1 1 0 4 [48; 49; 50; 51]]                 (* would complete the stale one *)
  = (asm_init, [Deliver [3; 0; 62; 0; 32; 33; 34]; ContNoStart]).
Proof. vm_compute. reflexivity. Qed.

(* one buffer, connection 2 has three fragments backlogged behind connection 1's packet;
   connection 1 is flushed (disconnected) in the middle of the drain: 0, 1, 2 in order *)
Example C05_example_flush_of_other_connection :
  let ops := [Enqueue 0 2; Enqueue 100 1; Enqueue 1 2; Enqueue 101 1; Enqueue 2 2;
              Completed 1 2; Flush 1; Completed 1 2; Completed 1 2] in
  map fst (filter (is_handle 2) (snd (q_run (q_init 1) ops))) = [0; 1; 2] /\
  filter (is_handle 2) (q_wait (fst (q_run (q_init 1) ops))) = [].
Proof. vm_compute. split; reflexivity. Qed.

Example C05_example_iso :
  fst (send_iso_sdu 5 6 65535 [1; 2; 3; 4; 5]) =
  Some [mkIso 5 0 6 None (Some 65535) (Some 5) (Some 0) [1; 2];
        mkIso 5 3 3 None None None None [3; 4; 5]] /\
  snd (send_iso_sdu 5 6 65535 [1; 2; 3; 4; 5]) = 0.
Proof. vm_compute. split; reflexivity. Qed.
