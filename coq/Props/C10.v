(* Property C10: the ATT server answers each request exactly once and within ATT_MTU;
   nothing it transmits is longer than the bearer's ATT_MTU; at most one indication per
   bearer awaits its confirmation.
   Statements only; every theorem is closed by [exact] of a lemma of Proofs/AttServer.v.
   The model (Model/AttServer.v) is of the code after fixes/D10a..D10f.patch. *)
From Coq Require Import ZArith List Bool.
From BV Require Import Gen.C10Tables Gen.C10Skeleton Model.AttServer Model.AttSkeleton Proofs.AttServer.
Import ListNotations.
Open Scope Z_scope.

(* The tables the model is written against are those of the current source: ATT_REQUESTS is
   the specification's request set; Server has exactly the handlers the model dispatches to,
   sync / task-wrapped as modelled; every awaited read_value / write_value in a task-wrapped
   handler is guarded by a try that catches ATT_Error, and every task-wrapped request handler
   is wrapped by the decorator that answers any other escaping exception with UNLIKELY_ERROR
   (D10e); malformed and handler-less requests are answered; PDU field layouts, opcodes, permission bits, error codes and size constants
   are the modelled ones.  Re-checked against the regenerated Gen/C10Tables.v on every run. *)
Theorem C10_tables_match_source : tables_match = true.
Proof. vm_compute. reflexivity. Qed.
Print Assumptions C10_tables_match_source.

(* ..._matches_source: every function the model renders reads today, after normalisation
   (docstrings, logging, annotations, comments, layout removed), exactly as in the frozen
   reading Model/AttSkeleton.v the model was written from -- every size constant
   (att_mtu - 1/2/3/4/6, min(..., 251/253)), comparison operator, loop exit, await of
   read_value / write_value, error code and response constructor, in program order.  An edit
   to the shape of this code breaks the obligation of that function whether or not a generated
   input exercises it.  Regenerated into Gen/C10Skeleton.v and re-checked on every run. *)
Theorem C10_src_Device_on_gatt_pdu : src_matches k_Device_on_gatt_pdu = true.
Proof. vm_compute. reflexivity. Qed.
Print Assumptions C10_src_Device_on_gatt_pdu.

Theorem C10_src_att_request_handler : src_matches k_att_request_handler = true.
Proof. vm_compute. reflexivity. Qed.
Print Assumptions C10_src_att_request_handler.

Theorem C10_src_Server_register_eatt : src_matches k_Server_register_eatt = true.
Proof. vm_compute. reflexivity. Qed.
Print Assumptions C10_src_Server_register_eatt.

Theorem C10_src_Server_send_gatt_pdu : src_matches k_Server_send_gatt_pdu = true.
Proof. vm_compute. reflexivity. Qed.
Print Assumptions C10_src_Server_send_gatt_pdu.

Theorem C10_src_Server_get_attribute : src_matches k_Server_get_attribute = true.
Proof. vm_compute. reflexivity. Qed.
Print Assumptions C10_src_Server_get_attribute.

Theorem C10_src_Server_read_cccd : src_matches k_Server_read_cccd = true.
Proof. vm_compute. reflexivity. Qed.
Print Assumptions C10_src_Server_read_cccd.

Theorem C10_src_Server_write_cccd : src_matches k_Server_write_cccd = true.
Proof. vm_compute. reflexivity. Qed.
Print Assumptions C10_src_Server_write_cccd.

Theorem C10_src_Server_send_response : src_matches k_Server_send_response = true.
Proof. vm_compute. reflexivity. Qed.
Print Assumptions C10_src_Server_send_response.

Theorem C10_src_Server_notify_single_subscriber : src_matches k_Server_notify_single_subscriber = true.
Proof. vm_compute. reflexivity. Qed.
Print Assumptions C10_src_Server_notify_single_subscriber.

Theorem C10_src_Server_indicate_single_bearer : src_matches k_Server_indicate_single_bearer = true.
Proof. vm_compute. reflexivity. Qed.
Print Assumptions C10_src_Server_indicate_single_bearer.

Theorem C10_src_Server_on_invalid_gatt_pdu : src_matches k_Server_on_invalid_gatt_pdu = true.
Proof. vm_compute. reflexivity. Qed.
Print Assumptions C10_src_Server_on_invalid_gatt_pdu.

Theorem C10_src_Server_on_gatt_pdu : src_matches k_Server_on_gatt_pdu = true.
Proof. vm_compute. reflexivity. Qed.
Print Assumptions C10_src_Server_on_gatt_pdu.

Theorem C10_src_Server_on_att_request : src_matches k_Server_on_att_request = true.
Proof. vm_compute. reflexivity. Qed.
Print Assumptions C10_src_Server_on_att_request.

Theorem C10_src_Server_on_att_exchange_mtu_request : src_matches k_Server_on_att_exchange_mtu_request = true.
Proof. vm_compute. reflexivity. Qed.
Print Assumptions C10_src_Server_on_att_exchange_mtu_request.

Theorem C10_src_Server_on_att_find_information_request : src_matches k_Server_on_att_find_information_request = true.
Proof. vm_compute. reflexivity. Qed.
Print Assumptions C10_src_Server_on_att_find_information_request.

Theorem C10_src_Server_on_att_find_by_type_value_request : src_matches k_Server_on_att_find_by_type_value_request = true.
Proof. vm_compute. reflexivity. Qed.
Print Assumptions C10_src_Server_on_att_find_by_type_value_request.

Theorem C10_src_Server_on_att_read_by_type_request : src_matches k_Server_on_att_read_by_type_request = true.
Proof. vm_compute. reflexivity. Qed.
Print Assumptions C10_src_Server_on_att_read_by_type_request.

Theorem C10_src_Server_on_att_read_request : src_matches k_Server_on_att_read_request = true.
Proof. vm_compute. reflexivity. Qed.
Print Assumptions C10_src_Server_on_att_read_request.

Theorem C10_src_Server_on_att_read_blob_request : src_matches k_Server_on_att_read_blob_request = true.
Proof. vm_compute. reflexivity. Qed.
Print Assumptions C10_src_Server_on_att_read_blob_request.

Theorem C10_src_Server_on_att_read_by_group_type_request : src_matches k_Server_on_att_read_by_group_type_request = true.
Proof. vm_compute. reflexivity. Qed.
Print Assumptions C10_src_Server_on_att_read_by_group_type_request.

Theorem C10_src_Server_on_att_read_multiple_request : src_matches k_Server_on_att_read_multiple_request = true.
Proof. vm_compute. reflexivity. Qed.
Print Assumptions C10_src_Server_on_att_read_multiple_request.

Theorem C10_src_Server_on_att_read_multiple_variable_request : src_matches k_Server_on_att_read_multiple_variable_request = true.
Proof. vm_compute. reflexivity. Qed.
Print Assumptions C10_src_Server_on_att_read_multiple_variable_request.

Theorem C10_src_Server_on_att_write_request : src_matches k_Server_on_att_write_request = true.
Proof. vm_compute. reflexivity. Qed.
Print Assumptions C10_src_Server_on_att_write_request.

Theorem C10_src_Server_on_att_write_command : src_matches k_Server_on_att_write_command = true.
Proof. vm_compute. reflexivity. Qed.
Print Assumptions C10_src_Server_on_att_write_command.

Theorem C10_src_Server_on_att_handle_value_confirmation : src_matches k_Server_on_att_handle_value_confirmation = true.
Proof. vm_compute. reflexivity. Qed.
Print Assumptions C10_src_Server_on_att_handle_value_confirmation.

Theorem C10_src_ATT_PDU_from_bytes : src_matches k_ATT_PDU_from_bytes = true.
Proof. vm_compute. reflexivity. Qed.
Print Assumptions C10_src_ATT_PDU_from_bytes.

(* where a bearer's ATT_MTU comes from: the L2CAP accept path and the channel constructor
   (att_mtu = min(mtu, peer_mtu)), the response handlers, the update hooks, and the list of
   ALL statements of l2cap.py / device.py / gatt_server.py / att.py that assign an `att_mtu`
   attribute or call on_att_mtu_update -- moving that computation breaks an obligation *)
Theorem C10_src_LeCreditBasedChannel__init : src_matches k_LeCreditBasedChannel__init = true.
Proof. vm_compute. reflexivity. Qed.
Print Assumptions C10_src_LeCreditBasedChannel__init.

Theorem C10_src_LeCreditBasedChannel_on_connection_response : src_matches k_LeCreditBasedChannel_on_connection_response = true.
Proof. vm_compute. reflexivity. Qed.
Print Assumptions C10_src_LeCreditBasedChannel_on_connection_response.

Theorem C10_src_LeCreditBasedChannel_on_enhanced_connection_response : src_matches k_LeCreditBasedChannel_on_enhanced_connection_response = true.
Proof. vm_compute. reflexivity. Qed.
Print Assumptions C10_src_LeCreditBasedChannel_on_enhanced_connection_response.

Theorem C10_src_LeCreditBasedChannel_on_att_mtu_update : src_matches k_LeCreditBasedChannel_on_att_mtu_update = true.
Proof. vm_compute. reflexivity. Qed.
Print Assumptions C10_src_LeCreditBasedChannel_on_att_mtu_update.

Theorem C10_src_LeCreditBasedChannel_write : src_matches k_LeCreditBasedChannel_write = true.
Proof. vm_compute. reflexivity. Qed.
Print Assumptions C10_src_LeCreditBasedChannel_write.

Theorem C10_src_LeCreditBasedChannel_process_output : src_matches k_LeCreditBasedChannel_process_output = true.
Proof. vm_compute. reflexivity. Qed.
Print Assumptions C10_src_LeCreditBasedChannel_process_output.

Theorem C10_src_ChannelManager_on_l2cap_le_credit_based_connection_request : src_matches k_ChannelManager_on_l2cap_le_credit_based_connection_request = true.
Proof. vm_compute. reflexivity. Qed.
Print Assumptions C10_src_ChannelManager_on_l2cap_le_credit_based_connection_request.

Theorem C10_src_ChannelManager_on_l2cap_credit_based_connection_request : src_matches k_ChannelManager_on_l2cap_credit_based_connection_request = true.
Proof. vm_compute. reflexivity. Qed.
Print Assumptions C10_src_ChannelManager_on_l2cap_credit_based_connection_request.

Theorem C10_src_Connection_on_att_mtu_update : src_matches k_Connection_on_att_mtu_update = true.
Proof. vm_compute. reflexivity. Qed.
Print Assumptions C10_src_Connection_on_att_mtu_update.

Theorem C10_src_att_mtu_sites : src_matches k_att_mtu_sites = true.
Proof. vm_compute. reflexivity. Qed.
Print Assumptions C10_src_att_mtu_sites.

(* request_one_reply: for every server state (any database, any bearer, any subscription and
   indication state; [st] includes, per attribute, what its value object does on read and on
   write: returns / stores bytes, raises ATT_Error with any code, raises any other exception
   or has no such function, or is a server-made CCCD), every request opcode and every
   parameter bytes -- well-formed or not, valid handles or not -- the server sends exactly
   one PDU: the matching response
   (opcode + 1) or an Error Response naming that request. *)
Theorem C10_request_one_reply : forall st opc ps,
  In opc spec_requests ->
  exists st' p, rx st opc ps = Some (st', [p]) /\ reply_for opc p = true /\
                (23 <= mtu_of st -> len p <= mtu_of st).
Proof. exact rx_request_one. Qed.
Print Assumptions C10_request_one_reply.

(* non_request_no_reply: any other opcode (commands, unknown opcodes, responses) is answered
   with nothing, whatever its parameters... *)
Theorem C10_non_request_no_reply : forall st opc ps,
  memz opc spec_requests = false -> opc <> 30 ->
  exists st', rx st opc ps = Some (st', []).
Proof. exact rx_non_request. Qed.
Print Assumptions C10_non_request_no_reply.

(* ... and a Handle Value Confirmation is never answered either: at most it lets the oldest
   indication that was waiting for the bearer go. *)
Theorem C10_confirmation_no_reply : forall st ps,
  rx st 30 ps = Some (h_confirm st) /\
  (snd (h_confirm st) = [] \/
   exists p w, s_pending st = true /\ s_waiting st = p :: w /\ snd (h_confirm st) = [p]).
Proof. exact rx_confirmation. Qed.
Print Assumptions C10_confirmation_no_reply.

(* reply_le_mtu: the reply to a request never exceeds the bearer's ATT_MTU (>= 23). *)
Theorem C10_reply_le_mtu : forall st opc ps,
  In opc spec_requests -> 23 <= mtu_of st ->
  exists st' p, rx st opc ps = Some (st', [p]) /\ len p <= mtu_of st.
Proof.
  intros st opc ps Hin Hm. destruct (rx_request_one st opc ps Hin) as (st' & p & H1 & _ & H3).
  exists st', p. split; [exact H1|exact (H3 Hm)].
Qed.
Print Assumptions C10_reply_le_mtu.

(* The ATT_MTU the property means is the one negotiated on the wire.  Enhanced bearer: the
   minimum of the two L2CAP MTU fields ([negotiated_mtu local peer], what
   LeCreditBasedChannel.__init__ computes); a reply exceeds neither side's MTU, and no PDU --
   in particular no Exchange MTU Request, refused there (D10f) -- ever changes it.  Fixed
   bearer: an Exchange MTU Request with client_rx_mtu >= 23 is answered with server_rx_mtu =
   max_mtu and the ATT_MTU becomes the minimum of the two values seen on the wire. *)
Theorem C10_reply_le_negotiated_mtu : forall st opc ps local peer,
  In opc spec_requests -> 23 <= local -> 23 <= peer -> mtu_of st = negotiated_mtu local peer ->
  exists st' p, rx st opc ps = Some (st', [p]) /\ len p <= local /\ len p <= peer.
Proof. exact reply_le_negotiated. Qed.
Print Assumptions C10_reply_le_negotiated_mtu.

Theorem C10_enhanced_bearer_mtu_fixed : forall st opc ps st' out,
  b_enh (s_b st) = true -> rx st opc ps = Some (st', out) -> mtu_of st' = mtu_of st.
Proof. exact enhanced_mtu_fixed. Qed.
Print Assumptions C10_enhanced_bearer_mtu_fixed.

Theorem C10_fixed_bearer_mtu_exchange : forall st x y,
  b_enh (s_b st) = false -> 23 <= x + 256 * y ->
  rx st 2 [x; y] = Some (set_mtu st (negotiated_mtu (s_max_mtu st) (x + 256 * y)),
                         [[OP_MTU_RSP] ++ le16 (s_max_mtu st)]).
Proof. exact fixed_mtu_exchange. Qed.
Print Assumptions C10_fixed_bearer_mtu_exchange.

(* server_initiated_le_mtu: a notification / indication is truncated so that the PDU fits
   the ATT_MTU in force when it is issued... *)
Theorem C10_notification_le_mtu : forall st h v f,
  23 <= mtu_of st ->
  fst (notify st h v f) = st /\
  (snd (notify st h v f) = [] \/
   exists x, snd (notify st h v f) = [hv_pdu OP_NOTIFY (mtu_of st) h x] /\
             len (hv_pdu OP_NOTIFY (mtu_of st) h x) <= mtu_of st).
Proof. exact notify_spec. Qed.
Print Assumptions C10_notification_le_mtu.

Theorem C10_indication_le_mtu : forall st h v f,
  23 <= mtu_of st ->
  let st' := fst (indicate st h v f) in
  let out := snd (indicate st h v f) in
  mtu_of st' = mtu_of st /\ s_max_mtu st' = s_max_mtu st /\ s_db st' = s_db st /\
  ((st' = st /\ out = []) \/
   exists x, let p := hv_pdu OP_INDICATE (mtu_of st) h x in
     len p <= mtu_of st /\
     ((s_pending st = true /\ out = [] /\ s_pending st' = true /\ s_waiting st' = s_waiting st ++ [p]) \/
      (s_pending st = false /\ out = [p] /\ s_pending st' = true /\ s_waiting st' = s_waiting st))).
Proof. exact indicate_spec. Qed.
Print Assumptions C10_indication_le_mtu.

(* ... and over every history of received PDUs (all 256 opcodes, any parameters), notify /
   indicate calls, CCCD writes and confirmations, starting from any database with
   ATT_MTU >= 23: every PDU the server transmits (response, notification, indication sent at
   once or released later) is no longer than the ATT_MTU in force at that moment, provided
   no Exchange MTU Request lowers the MTU while an indication is waiting ([mtu_kept]). *)
Theorem C10_history_le_mtu : forall db b max_mtu ops st' outs,
  23 <= b_mtu b -> 23 <= max_mtu ->
  mtu_kept (init db b max_mtu) ops = true ->
  run (init db b max_mtu) ops = Some (st', outs) ->
  outs_le_mtu outs = true.
Proof.
  intros db b max_mtu ops st' outs Hb Hx Hk Hr.
  exact (proj1 (run_le_mtu ops _ st' outs (inv_init db b max_mtu Hb Hx) Hk Hr)).
Qed.
Print Assumptions C10_history_le_mtu.

(* the hypothesis [mtu_kept] is needed (open question in docs/C10.md) *)
Theorem C10_lowered_mtu_refuted :
  exists db b ops st' outs,
    23 <= b_mtu b /\ run (init db b 517) ops = Some (st', outs) /\ outs_le_mtu outs = false.
Proof. exact lowered_mtu_refuted. Qed.
Print Assumptions C10_lowered_mtu_refuted.

(* one_indication_outstanding: over every history, an indication is transmitted only when
   no earlier indication on the bearer still awaits its confirmation. *)
Theorem C10_one_indication_outstanding : forall db b max_mtu ops st' outs,
  23 <= b_mtu b -> 23 <= max_mtu ->
  run (init db b max_mtu) ops = Some (st', outs) ->
  ind_ok false ops outs = true.
Proof.
  intros db b max_mtu ops st' outs Hb Hx Hr.
  exact (run_ind_ok ops (init db b max_mtu) st' outs (ind_inv_init db b max_mtu) Hb Hx Hr).
Qed.
Print Assumptions C10_one_indication_outstanding.

(* Several bearers on one server ([msrv]: the database plus one record per bearer; see
   Props/C11.v for locality).  Over every history of stimuli on any bearers, on EACH bearer
   an indication is transmitted only when no earlier indication on that bearer awaits its
   confirmation; a confirmation received on one bearer releases nothing on another. *)
Theorem C10_one_indication_outstanding_per_bearer : forall db max_mtu bs ops n outs,
  23 <= max_mtu -> Forall (fun b => 23 <= b_mtu b) bs ->
  mrun (minit db max_mtu bs) ops = Some (n, outs) ->
  mind_ok (map bs_pending (m_bs (minit db max_mtu bs))) ops outs = true.
Proof.
  intros db max_mtu bs ops n outs Hx Hb Hr.
  exact (mrun_ind_ok ops _ n outs (minit_ok db max_mtu bs Hx Hb) Hr).
Qed.
Print Assumptions C10_one_indication_outstanding_per_bearer.

(* what a stimulus on bearer i makes the server send fits bearer i's ATT_MTU, whatever the
   other bearers' ATT_MTUs and states are, and every bearer keeps its invariant *)
Theorem C10_several_bearers_le_mtu : forall m i o n out x,
  Forall (bst_inv m) (m_bs m) -> mstep m i o = Some (n, out) -> nth_error (m_bs m) i = Some x ->
  (forall y, nth_error (m_bs n) i = Some y -> b_mtu (bs_b x) <= b_mtu (bs_b y) \/ bs_waiting y = []) ->
  all_le (b_mtu (bs_b x)) out /\ Forall (bst_inv n) (m_bs n).
Proof. exact mstep_le_mtu. Qed.
Print Assumptions C10_several_bearers_le_mtu.

(* An enhanced bearer closes while the ACL link and the other bearers of the connection stay up
   (register_eatt hooks Server.on_disconnection(channel) on the channel's EVENT_CLOSE).
   Pinned to the source: on_disconnection pops exactly the entries of `bearer` from
   subscribers / indication_semaphores / pending_confirmations. *)
Theorem C10_src_Server_on_disconnection : src_matches k_Server_on_disconnection = true.
Proof. vm_compute. reflexivity. Qed.
Print Assumptions C10_src_Server_on_disconnection.

(* frame: any step on bearer k -- a stimulus or its close -- leaves the record (ATT_MTU,
   subscriptions, pending indication, waiting indications) of every other bearer untouched,
   and a close does not touch the database *)
Theorem C10_close_frame : forall m x n k out i,
  mstep2 m x = Some (n, k, out) -> i <> k -> nth_error (m_bs n) i = nth_error (m_bs m) i.
Proof. exact mstep2_frame. Qed.
Print Assumptions C10_close_frame.

Theorem C10_close_keeps_database : forall m j,
  m_db (mclose m j) = m_db m /\ m_max_mtu (mclose m j) = m_max_mtu m.
Proof. exact mclose_db. Qed.
Print Assumptions C10_close_keeps_database.

(* one indication outstanding per bearer over EVERY history in which enhanced bearers also
   close: the close of a bearer clears that bearer's outstanding indication only, so an
   indication on a live bearer is never transmitted while an earlier one on it is unconfirmed *)
Theorem C10_one_indication_outstanding_with_closes : forall db max_mtu bs ops n outs,
  23 <= max_mtu -> Forall (fun b => 23 <= b_mtu b) bs ->
  mrun2 (minit db max_mtu bs) ops = Some (n, outs) ->
  mind_ok2 (map bs_pending (m_bs (minit db max_mtu bs))) ops outs = true.
Proof.
  intros db max_mtu bs ops n outs Hx Hb Hr.
  exact (mrun2_ind_ok ops _ n outs (minit_ok db max_mtu bs Hx Hb) Hr).
Qed.
Print Assumptions C10_one_indication_outstanding_with_closes.

(* Bursts: several PDUs handed to the bearer before the event loop runs again (plain handlers
   and the malformed / handler-less branches act at once, task-wrapped handlers afterwards in
   arrival order, an indication released by a confirmation last -- Model: [burst]).  Every
   request of the burst is answered exactly once and nothing else is: as many PDUs as there
   are requests, none of them an indication, each no longer than the ATT_MTU in force when it
   was sent (an Exchange MTU Request inside the burst changes it for the handlers that run
   later); besides, at most the oldest waiting indication is released. *)
Theorem C10_burst_one_reply_each : forall st l st' out rel,
  23 <= mtu_of st -> 23 <= s_max_mtu st -> burst st l = Some (st', out, rel) ->
  len out = count_requests l /\ Forall burst_out_ok out /\
  (rel = [] \/ exists p w, rel = [p] /\ s_waiting st = p :: w).
Proof. exact burst_spec. Qed.
Print Assumptions C10_burst_one_reply_each.

Theorem C10_burst_total : forall st l, exists r, burst st l = Some r.
Proof. exact burst_total. Qed.
Print Assumptions C10_burst_total.

(* the model has a defined outcome for every history: no PDU falls outside it *)
Theorem C10_model_total : forall st ops, exists st' outs, run st ops = Some (st', outs).
Proof. intros st ops. exact (run_total ops st). Qed.
Print Assumptions C10_model_total.

(* Non-vacuity: D10b's witness on the repaired model -- three 10-byte values read with Read
   Multiple Variable at ATT_MTU 23 give a 23-byte response whose last value is truncated;
   D10a's witness -- a protected attribute inside a Read Multiple -- gives an Error Response. *)
Example C10_nonvacuous :
  let db := [mkAttr 1 [0; 40] 1 [170; 170] 5 0 0 0;
             mkAttr 2 [3; 40] 1 [10; 3; 0; 17; 17] 3 0 0 0; mkAttr 3 [17; 17] 1 (mkb 10 65 1) 3 0 0 0;
             mkAttr 4 [3; 40] 1 [10; 5; 0; 34; 34] 5 0 0 0; mkAttr 5 [34; 34] 5 (mkb 10 97 1) 5 0 0 0] in
  let st := init db (mkBearer 23 false false false) 517 in
  option_map (fun r => map (@length Z) (snd r)) (rx st 32 [3; 0; 3; 0; 3; 0]) = Some [23%nat] /\
  option_map snd (rx st 14 [3; 0; 5; 0]) = Some [[1; 14; 5; 0; 15]] /\
  option_map snd (rx st 10 [1]) = Some [[1; 10; 0; 0; 4]] /\
  (* D10e: a value whose read function raises (or is missing) / whose write function raises *)
  (let st' := init [mkAttr 1 [17; 17] 3 [] 1 (-1) (-1) 0; mkAttr 2 [2; 41] 3 [] 2 0 0 1]
                   (mkBearer 23 false false false) 517 in
   option_map snd (rx st' 10 [1; 0]) = Some [[1; 10; 0; 0; 14]] /\
   option_map snd (rx st' 32 [1; 0]) = Some [[1; 32; 0; 0; 14]] /\
   option_map snd (rx st' 6 [1; 0; 255; 255; 17; 17; 9]) = Some [[1; 6; 0; 0; 14]] /\
   option_map snd (rx st' 18 [1; 0; 5]) = Some [[1; 18; 0; 0; 14]] /\
   option_map snd (rx st' 82 [1; 0; 5]) = Some [] /\
   (* a CCCD accepts a write of any length <= 512 and stores only 2-byte values *)
   option_map snd (rx st' 18 [2; 0; 1]) = Some [[19]] /\
   option_map snd (run st' [Rx 18 [2; 0; 1; 0]; Rx 10 [2; 0]; Rx 18 [2; 0; 7]; Rx 10 [2; 0]]) =
     Some [(23, [[19]]); (23, [[11; 1; 0]]); (23, [[19]]); (23, [[11; 1; 0]])]) /\
  mtu_kept st [Indicate 3 None true; Rx 2 [100; 0]; Rx 30 []] = true /\
  (* a burst: Read Request, Exchange MTU 100, Read Multiple Variable, malformed Read Blob: the MTU
     response and the INVALID_PDU error go at once, the two reads follow and already use ATT_MTU 100 *)
  option_map (fun r => map (fun mp => (fst mp, firstn 2 (snd mp), List.length (snd mp))) (snd (fst r)))
    (burst st [(10, [3; 0]); (2, [100; 0]); (32, [3; 0; 3; 0; 3; 0]); (12, [3])]) =
  Some [(23, [3; 5], 3%nat); (100, [1; 12], 5%nat); (100, [11; 65], 11%nat); (100, [33; 10], 37%nat)].
Proof. vm_compute. repeat split. Qed.
