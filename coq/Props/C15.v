(* Property C15: the JSON key store is exact, persistent, namespace-isolated and
   crash-atomic.  This file contains only statements, each closed by [exact].

   Vocabulary (Model/KeyStore.v): a database [db] is the JSON object model of the key
   file, namespace -> peer -> field -> value, every object an association list in key
   order; [a_step d h o] is one JsonKeyStore operation [o] through a store whose
   namespace is [h] on the database; [c_run f items] runs a history on the file
   system [f] the way the code does: every operation reads and parses the key file,
   mutators write "<file>.tmp" chunk by chunk and rename it over the key file; an item
   [Crash h o lens k cut] dies before file-system step k of the operation completes;
   write() only fills the buffer of the file object, close() flushes it, and of the data
   the file object holds at the death (including an interrupted write) only the first
   [cut] bytes had reached the file - every buffering policy of the runtime is some cut.  [rel f d] (Proofs/KeyStore.v): d is
   well formed (names are printable ASCII without quote and backslash) and the key file
   of f reads as d (a missing file reads as the empty database); nothing is assumed
   about the ".tmp" file or the directory. *)
From Coq Require Import String Ascii.
From Coq Require Import ZArith List Bool.
From BV Require Import Gen.C15Source Model.KeyStore Proofs.KeyStore.
Import ListNotations.
Open Scope Z_scope.

(* ------------------------------------------------------------------ keys round-trip *)
(* For every PairingKeys value (every combination of present / absent fields, any EDIV
   including 0, any Rand including the empty one, authenticated true or false, any
   address type and link-key type) whose key material consists of bytes:
   from_dict (to_dict k) = k. *)
Theorem C15_keys_roundtrip : forall k, keys_ok k = true -> from_dict (to_dict k) = Some k.
Proof. exact keys_roundtrip. Qed.
Print Assumptions C15_keys_roundtrip.

(* update merges: the stored entry after update(name, k) decodes to the previous keys
   with exactly the fields present in k replaced *)
Theorem C15_update_merges : forall pd old k,
  from_dict pd = Some old -> keys_ok k = true ->
  from_dict (merge pd (to_dict k)) = Some (overlay old k).
Proof. exact update_overlay. Qed.
Print Assumptions C15_update_merges.

Theorem C15_update_new_peer : forall k, keys_ok k = true -> from_dict (merge [] (to_dict k)) = Some k.
Proof. exact update_new_peer. Qed.
Print Assumptions C15_update_new_peer.

(* ------------------------------------------------------------------ persistence *)
(* The text json.dump writes for any well-formed database reads back as exactly that
   database: nothing is lost, merged or reordered by a save / load cycle. *)
Theorem C15_file_reads_back : forall d, db_ok d = true -> parse (ser_db d) = Some d.
Proof. exact parse_ser. Qed.
Print Assumptions C15_file_reads_back.

(* a completed save leaves exactly the new text in the key file and no temporary file,
   whatever the chunking of the writes and whether or not the directory existed *)
Theorem C15_save_complete : forall f d lens,
  exec_steps f (save_steps f d lens) = Some (mkFs true (Some (ser_db d)) None).
Proof. exact save_exec. Qed.
Print Assumptions C15_save_complete.

(* ------------------------------------------------------------------ refinement *)
(* Every history of update / delete / delete_all / get / get_all through any handles
   (several namespaces and the default namespace sharing one file, stores re-created at
   will: a handle is just its namespace), with any chunking of the writes, returns
   exactly what the same operations return on the abstract database, and the file keeps
   reading as that database. *)
Theorem C15_store_refines_map : forall items f d,
  rel f d -> forallb item_ok items = true -> no_crash items = true ->
  let '(f', outs) := c_run f items in
  let '(d', outs') := a_run d items [] in
  outs = outs' /\ rel f' d'.
Proof. exact store_refines_map_no_crash. Qed.
Print Assumptions C15_store_refines_map.

(* The same with the process dying inside any of the operations, at any step, any
   number of times: each interrupted operation either took effect completely or not at
   all ([commits]), later operations (after a restart) behave accordingly, and leftover
   temporary files or a half-created directory never matter. *)
Theorem C15_store_refines_map_with_crashes : forall items f d,
  rel f d -> forallb item_ok items = true ->
  exists commits,
    let '(f', outs) := c_run f items in
    let '(d', outs') := a_run d items commits in
    outs = outs' /\ rel f' d'.
Proof. exact store_refines_map. Qed.
Print Assumptions C15_store_refines_map_with_crashes.

(* ------------------------------------------------------------------ the abstract database is a map *)
(* what a handle sees after its own operation: update inserts the merged entry, delete
   removes it, delete_all empties the namespace, reads change nothing *)
Theorem C15_view_after : forall d h o,
  view (fst (a_step d h o)) h =
  match o with
  | Delete name => if has name (view d h) then del name (view d h) else view d h
  | _ => new_kmap (view d h) o
  end.
Proof. exact view_after. Qed.
Print Assumptions C15_view_after.

Theorem C15_reads_from_view : forall d h,
  (forall name, snd (a_step d h (Get name)) =
     match lookup name (view d h) with
     | None => OGet None
     | Some pd => match from_dict pd with Some k => OGet (Some k) | None => OBadKeys end
     end) /\
  snd (a_step d h GetAll) = match all_from_dict (view d h) with Some l => OAll l | None => OBadKeys end.
Proof. exact reads_from_view. Qed.
Print Assumptions C15_reads_from_view.

Theorem C15_delete_missing : forall d h name, has name (view d h) = false ->
  a_step d h (Delete name) = (d, OKeyError).
Proof. exact delete_missing. Qed.
Print Assumptions C15_delete_missing.

(* pointwise map laws used with C15_view_after *)
Theorem C15_lookup_ins : forall (A : Type) k k' (v : A) l,
  lookup k' (ins k v l) = if str_eqb k' k then Some v else lookup k' l.
Proof. exact @lookup_ins. Qed.
Print Assumptions C15_lookup_ins.

Theorem C15_lookup_del : forall (A : Type) k k' (l : list (str * A)),
  lookup k (del k l) = None /\ (str_eqb k' k = false -> lookup k' (del k l) = lookup k' l).
Proof. intros A k k' l. exact (conj (lookup_del_same k l) (lookup_del_other k k' l)). Qed.
Print Assumptions C15_lookup_del.

(* ------------------------------------------------------------------ isolation *)
(* An operation through handle h changes nothing but the entry of the namespace h
   resolves to: every other namespace of the file keeps its entries. *)
Theorem C15_namespaces_isolated : forall d h o ns,
  str_eqb ns (resolve d h) = false -> lookup ns (fst (a_step d h o)) = lookup ns d.
Proof. exact namespaces_isolated. Qed.
Print Assumptions C15_namespaces_isolated.

(* Hence what any other store sees is unchanged, for every named namespace and for the
   default namespace when it exists in the file.  (A default-namespace store whose
   namespace does not exist adopts the only namespace of the file while there is
   exactly one: that documented rule depends on the number of namespaces and is
   excluded here.) *)
Theorem C15_other_handles_unchanged : forall d h o h2,
  str_eqb h2 (resolve d h) = false ->
  (str_eqb h2 DEFAULT_NAMESPACE = false \/ has h2 d = true) ->
  view (fst (a_step d h o)) h2 = view d h2.
Proof. exact other_handles_unchanged. Qed.
Print Assumptions C15_other_handles_unchanged.

(* ------------------------------------------------------------------ crash atomicity *)
(* For every operation, every crash point k of its file-system step list (directory
   creation, temp-file open, each buffered write, close = flush, rename), every amount
   [cut] of the buffered data that had reached the disk at the death and every chunking: the steps up to the crash succeed, the key file is
   byte-for-byte the previous text or the complete new text, and it reads as the
   complete previous database (crash before the rename) or the complete new one. *)
Theorem C15_crash_atomic : forall f d h o lens k cut,
  rel f d -> str_ok h = true -> op_ok o = true ->
  exists f', crash_exec k cut (op_steps f h o lens) f = Some f' /\
    (f_main f' = f_main f \/ f_main f' = Some (ser_db (fst (a_step d h o)))) /\
    (read_db f' = Some d \/ read_db f' = Some (fst (a_step d h o))) /\
    ((k < List.length (op_steps f h o lens))%nat -> read_db f' = Some d) /\
    ((List.length (op_steps f h o lens) <= k)%nat -> read_db f' = Some (fst (a_step d h o))).
Proof. exact crash_atomic. Qed.
Print Assumptions C15_crash_atomic.

(* ------------------------------------------------------------------ invariants of the model *)
(* well-formedness (what the reader can read back) is kept by every operation *)
Theorem C15_wellformed_kept : forall d h o d' r,
  db_ok d = true -> str_ok h = true -> op_ok o = true ->
  a_apply d h o = (Some d', r) -> db_ok d' = true.
Proof. exact a_apply_ok. Qed.
Print Assumptions C15_wellformed_kept.

(* key order (json.dump sort_keys=True) is kept at every level by every operation *)
Theorem C15_key_order_kept : forall d h o, db_sorted d = true -> db_sorted (fst (a_step d h o)) = true.
Proof. exact a_step_sorted. Qed.
Print Assumptions C15_key_order_kept.

(* ------------------------------------------------------------------ end to end *)
(* What a named store sees after any history of operations through any named stores on
   one file is exactly its own updates and deletions applied in order to what it saw
   before: independently per namespace, the other namespaces' operations leave no trace. *)
Theorem C15_view_history : forall items d h,
  str_eqb h DEFAULT_NAMESPACE = false -> forallb item_named items = true ->
  view (fst (a_run d items [])) h = replay_view h items (view d h).
Proof. exact view_history. Qed.
Print Assumptions C15_view_history.

Theorem C15_get_after_history : forall items d h name,
  str_eqb h DEFAULT_NAMESPACE = false -> forallb item_named items = true ->
  snd (a_step (fst (a_run d items [])) h (Get name)) =
  match lookup name (replay_view h items (view d h)) with
  | None => OGet None
  | Some pd => match from_dict pd with Some k => OGet (Some k) | None => OBadKeys end
  end.
Proof. exact get_after_history. Qed.
Print Assumptions C15_get_after_history.

(* get_resolving_keys: exactly the stored entries that have an IRK, with the stored address
   type or RANDOM_DEVICE_ADDRESS *)
Theorem C15_resolving_keys : forall l v name t,
  In (v, name, t) (resolving_keys l) <->
  exists k key, In (name, k) l /\ irk k = Some key /\ v = k_value key /\
                t = match address_type k with Some a => a | None => RANDOM_DEVICE_ADDRESS end.
Proof. exact resolving_keys_spec. Qed.
Print Assumptions C15_resolving_keys.

(* ------------------------------------------------------------------ the model matches the source
   Gen/C15Source.v is regenerated from bumble/keys.py on every run by
   tools/translate/c15_source.py (which fails closed on any statement it does not know). *)

(* The dataclass fields of PairingKeys, the members to_dict writes and the members from_dict
   reads are the same set, with the same kinds, and it is the set the model serialises: a
   field added to PairingKeys without being written and read back breaks this. *)
Theorem C15_fields_match_source :
  sort_by_name src_pairingkeys_fields = to_dict_shape /\
  sort_by_name src_to_dict_fields = to_dict_shape /\
  sort_by_name src_from_dict_fields = to_dict_shape /\
  List.length src_pairingkeys_fields = List.length to_dict_shape /\
  List.length src_to_dict_fields = List.length to_dict_shape /\
  List.length src_from_dict_fields = List.length to_dict_shape /\
  from_dict_reads_all = true.
Proof. vm_compute. repeat split. Qed.
Print Assumptions C15_fields_match_source.

Theorem C15_key_fields_match_source :
  sort_by_name src_key_to_dict_fields = key_to_dict_shape /\
  map fst (sort_by_name (map (fun n => (n, tt)) src_key_fields)) = map fst key_to_dict_shape /\
  List.length src_key_fields = List.length key_to_dict_shape /\
  List.length src_key_to_dict_fields = List.length key_to_dict_shape /\
  key_auth_default = Some src_key_auth_default.
Proof. vm_compute. repeat split. Qed.
Print Assumptions C15_key_fields_match_source.

(* save: guarded mkdir, a temporary file next to the key file (same directory, suffix
   ".tmp") opened for writing, one json.dump with exactly the modelled arguments, close,
   os.replace onto the key file: the step list the crash theorems quantify over. *)
Theorem C15_save_matches_source :
  src_save_shape = save_shape /\ src_tmp_suffix = TMP_SUFFIX /\ src_dump_args = DUMP_ARGS.
Proof. vm_compute. repeat split. Qed.
Print Assumptions C15_save_matches_source.

Theorem C15_load_matches_source :
  src_load = LOAD_SKELETON /\ src_adopt_count = Z.of_nat ADOPT_COUNT /\
  src_default_namespace = DEFAULT_NAMESPACE.
Proof. vm_compute. repeat split. Qed.
Print Assumptions C15_load_matches_source.

Theorem C15_ops_match_source :
  src_ops = OPS_SKELETON /\ src_random_device_address = RANDOM_DEVICE_ADDRESS.
Proof. vm_compute. repeat split. Qed.
Print Assumptions C15_ops_match_source.

(* ------------------------------------------------------------------ non-vacuity and witnesses *)
Definition ex_key := mkKey [1; 2; 255] true (Some 0) (Some []).
Definition ex_keys := mkKeys (Some 1) (Some ex_key) None None None None None (Some 0).
Definition ex_hist :=
  [Do (S_ "NS1") (Update (S_ "F0:F1") ex_keys) [1%nat; 5%nat];
   Do DEFAULT_NAMESPACE GetAll [];
   Crash DEFAULT_NAMESPACE (Update (S_ "P0") (mkKeys None None None None (Some ex_key) None None None)) [] 1 40;
   Do DEFAULT_NAMESPACE (Delete (S_ "F0:F1")) [7%nat];
   Do (S_ "NS2") DeleteAll [];
   Do (S_ "NS1") GetAll []].

(* the hypotheses of the theorems are satisfiable, and the history does what one expects:
   the default store adopts NS1 (D15 fixed), the crashed update leaves no trace *)
Example C15_nonvacuous :
  forallb item_ok ex_hist = true /\ keys_ok ex_keys = true /\
  map out_obs (snd (c_run (mkFs false None None) ex_hist)) =
  map out_obs [ODone; OAll [(S_ "F0:F1", ex_keys)]; OCrashed; ODone; ODone; OAll []] /\
  read_db (fst (c_run (mkFs false None None) ex_hist)) = Some [(S_ "NS1", []); (S_ "NS2", [])].
Proof. vm_compute. repeat split. Qed.

Example C15_rel_initial : forall dir tmp, rel (mkFs dir None tmp) [].
Proof. exact rel_init. Qed.

(* names that need JSON escapes (quote, backslash, control characters, non-ASCII, beyond
   the BMP) are well formed and survive the file *)
Example C15_escaped_names :
  let name := [34; 92; 10; 0; 127; 233; 8364; 128512] in
  let d := [(name, [(name, to_dict ex_keys)])] in
  db_ok d = true /\ parse (ser_db d) = Some d /\
  quote name = S_ """\""\\\n\u0000\u007f\u00e9\u20ac\ud83d\ude00""".
Proof. vm_compute. repeat split. Qed.

(* what D15 left in the file (the JSON string "NS1") is not a database *)
Example C15_D15_effect : parse (S_ """NS1""") = None.
Proof. vm_compute. reflexivity. Qed.

(* why the temporary file matters: the same save written directly over the key file and
   interrupted inside the write leaves a file that does not read back *)
Example C15_direct_write_not_atomic :
  let d := [(S_ "NS1", [(S_ "A", to_dict ex_keys)])] in
  let f := mkFs true (Some (ser_db d)) None in
  match crash_exec 1 40 [SOpenTrunc PMain; SWrite PMain (ser_db d); SClose PMain] f with
  | Some f' => read_db f' = None
  | None => False
  end.
Proof. vm_compute. reflexivity. Qed.

(* why the rename has to come after the close (seeded change C15-g moved os.replace inside the
   with block): write() only fills the file object's buffer, so renaming first publishes a
   file whose data is still in the buffer; a process death before the close leaves the key file
   empty *)
Example C15_rename_before_close_not_atomic :
  let d := [(S_ "NS1", [(S_ "A", to_dict ex_keys)])] in
  let f := mkFs true (Some (ser_db d)) None in
  match crash_exec 3 0 [SOpenTrunc PTmp; SWrite PTmp (ser_db d); SRename PTmp PMain; SClose PMain] f with
  | Some f' => f_main f' = Some [] /\ read_db f' = None
  | None => False
  end.
Proof. vm_compute. split; reflexivity. Qed.
