(* Property C09: L2CAP channel tables stay exact; closed identifiers are reusable; waiters
   are released.  Statements only; every proof is [exact <lemma of Proofs/ChanMgr.v>].

   The model (Model/ChanMgr.v) is one ChannelManager of bumble/l2cap.py after the repairs
   D09a-D09j, D07 and D08.  Its environment is universally quantified: [reachable m] means m is
   the state after ANY finite sequence of events - API calls of the application
   (open LE / enhanced / classic, disconnect, abort, cancellation of an awaited call, write,
   grant credits), ANY signalling
   frame received on ANY connection, loss of ANY connection - that satisfies the
   hypotheses [ev_ok] (Model/ChanMgr.v, end of file) at every step. *)
From Coq Require Import ZArith List Bool String.
From BV Require Import Gen.C09Tables Gen.C09Skeleton Gen.C09Ident Model.ChanMgr Proofs.ChanMgrLib Proofs.ChanMgr
  Proofs.ChanMgrSkeleton Proofs.ChanMgrDet Proofs.ChanMgrDetStep Proofs.ChanMgrReopen Proofs.ChanMgrIds.
Import ListNotations.
Open Scope Z_scope.

(* ---- tie to the source: regenerated on every run *)
(* The dictionaries the code indexes by connection handle are exactly the tables of the
   model. *)
Theorem C09_tables_modelled :
  per_connection_tables =
  ["channels"; "identifiers"; "le_coc_channels"; "le_coc_requests";
   "pending_credit_based_connections"]%string.
Proof. reflexivity. Qed.
Print Assumptions C09_tables_modelled.

(* ChannelManager.on_disconnection removes every one of them for the lost connection. *)
Theorem C09_cleanup_complete :
  forall t, In t per_connection_tables -> In t disconnection_pops.
Proof.
  assert (H : forallb (fun t => existsb (String.eqb t) disconnection_pops) per_connection_tables = true)
    by (vm_compute; reflexivity).
  intros t Ht. rewrite forallb_forall in H. specialize (H t Ht).
  apply existsb_exists in H. destruct H as [x [Hx He]]. apply String.eqb_eq in He. subst. exact Hx.
Qed.
Print Assumptions C09_cleanup_complete.

(* The anchored functions (39: ChannelManager's allocators, handlers, create_* and cleanup;
   the connection / disconnection / abort paths of both channel classes) have exactly the shape
   the model was written against: same tests, same order of state changes, table updates,
   futures completed, frames sent and calls. *)
Theorem C09_skeleton_matches_source : skeleton_of_source = skeleton_modelled.
Proof. vm_compute. reflexivity. Qed.
Print Assumptions C09_skeleton_matches_source.

(* ---- the signalling identifier allocator *)
(* The model's allocator IS the function the translator reads off the statements of
   ChannelManager.next_identifier on every run (arithmetic, modulus, replacement of 0). *)
Theorem C09_identifier_matches_source : forall m h,
  nid m h = next_identifier_of_source (match aget h (m_ids m) with Some v => v | None => id_default end).
Proof. reflexivity. Qed.
Print Assumptions C09_identifier_matches_source.

(* In EVERY state (so after every history, however long) the identifier handed out on a
   connection is one byte and not 0 ... *)
Theorem C09_identifier_range : forall m h, 1 <= nid m h <= 255.
Proof. exact nid_range. Qed.
Print Assumptions C09_identifier_range.

(* ... the one handed out next is its successor, 255 being followed by 1, so consecutive
   identifiers differ ... *)
Theorem C09_identifier_successor : forall m h,
  nid (next_id m h) h = (if Z.eqb (nid m h) 255 then 1 else nid m h + 1) /\
  nid (next_id m h) h <> nid m h.
Proof. intros m h. split; [apply nid_successor|apply nid_consecutive_differ]. Qed.
Print Assumptions C09_identifier_successor.

(* ... and every request, configuration request, disconnection request and credit frame the
   manager sends, for any event in any state, hence along any history, carries an identifier
   of 1..255 (responses echo the peer's identifier). *)
Theorem C09_sent_identifiers_valid : forall m e f i,
  In f (snd (step m e)) -> own_id f = Some i -> 1 <= i <= 255.
Proof. exact sent_identifiers_valid. Qed.
Print Assumptions C09_sent_identifiers_valid.

Theorem C09_run_identifiers_valid : forall es m, Forall ids_valid (snd (run m es)).
Proof. exact run_identifiers_valid. Qed.
Print Assumptions C09_run_identifiers_valid.

(* the wrap: after 255 comes 1; a fresh connection starts at 1 *)
Example C09_identifier_wrap :
  nid (m_init [] []) 7 = 1 /\
  nid (with_ids (m_init [] []) [(7, 254)]) 7 = 255 /\
  nid (with_ids (m_init [] []) [(7, 255)]) 7 = 1.
Proof. vm_compute. repeat split. Qed.

(* ---- tables_exact: refinement to the set of channels in use *)
(* `channels` contains (handle, cid, channel) exactly when the channel object exists, belongs
   to that connection, has that source CID and is in use (open, or being opened /
   configured / closed on a connection that still exists). *)
Theorem C09_tables_exact_channels : forall m, reachable m ->
  forall h k u, In (h, k, u) (m_chs m) <->
                exists c, hget m u = Some c /\ c_conn c = h /\ c_scid c = k /\ in_use m u c = true.
Proof. exact tables_exact_channels. Qed.
Print Assumptions C09_tables_exact_channels.

(* `le_coc_channels` contains (handle, cid, channel) exactly for the connected (or
   disconnecting) LE credit-based channels of connections that still exist, under the
   peer's CID. *)
Theorem C09_tables_exact_le_coc : forall m, reachable m ->
  forall h k u, In (h, k, u) (m_le m) <->
                exists c, hget m u = Some c /\ c_conn c = h /\ c_dcid c = k /\ c_kind c = KLe /\
                          c_live c = true /\ le_open_st (c_st c) = true.
Proof. exact tables_exact_le. Qed.
Print Assumptions C09_tables_exact_le_coc.

(* the pending-request tables contain only requests somebody still waits for *)
Theorem C09_tables_exact_requests : forall m, reachable m ->
  (forall h id k, In (h, id, k) (m_reqs m) ->
     exists u c, In (h, k, u) (m_chs m) /\ hget m u = Some c /\ c_st c = SConnecting /\
                 exists w, c_cw c = Some w /\ wout m w = O_PENDING) /\
  (forall h id w us, In (h, id, (w, us)) (m_pend m) -> wout m w = O_PENDING).
Proof. exact tables_exact_requests. Qed.
Print Assumptions C09_tables_exact_requests.

(* ---- cids_unique *)
Theorem C09_cids_unique : forall m, reachable m ->
  NoDup (map fst (m_chs m)) /\ NoDup (map fst (m_le m)) /\
  (forall h k h' k' u, In (h, k, u) (m_chs m) -> In (h', k', u) (m_chs m) -> h = h' /\ k = k') /\
  (forall h k h' k' u, In (h, k, u) (m_le m) -> In (h', k', u) (m_le m) -> h = h' /\ k = k').
Proof. exact cids_unique. Qed.
Print Assumptions C09_cids_unique.

(* ---- waiters_released *)
(* A future that is still pending belongs to a channel that is still filed under the
   future's connection and in use (or to a pending enhanced request of that connection). *)
Theorem C09_waiters_released_channel : forall m, reachable m ->
  forall w x, wget m w = Some x -> w_out x = O_PENDING ->
  match w_kind x with
  | WOpenEnh => exists us, In (w_conn x, w_ref x, (w, us)) (m_pend m)
  | _ => exists c k, hget m (w_ref x) = Some c /\ In (w_conn x, k, w_ref x) (m_chs m) /\
                     in_use m (w_ref x) c = true
  end.
Proof. exact waiters_released_channel. Qed.
Print Assumptions C09_waiters_released_channel.

(* drain() can only be waiting on a connected channel of a live connection *)
Theorem C09_waiters_released_drain : forall m, reachable m ->
  forall u c, hget m u = Some c -> c_drained c = false ->
  c_st c = SConnected /\ c_live c = true /\ In (c_conn c, c_scid c, u) (m_chs m).
Proof. exact waiters_released_drain. Qed.
Print Assumptions C09_waiters_released_drain.

(* After the loss of a connection: no future created for it is pending, no drain() on one of
   its channels can wait, none of its entries is left in any table. *)
Theorem C09_waiters_released_link : forall m h, reachable m ->
  let m' := fst (step m (EDown h)) in
  (forall w x, wget m' w = Some x -> w_conn x = h -> w_out x <> O_PENDING) /\
  (forall u c, hget m' u = Some c -> c_conn c = h -> c_drained c = true /\ c_live c = false) /\
  tconn h (m_chs m') = [] /\ tconn h (m_le m') = [] /\ tconn h (m_reqs m') = [] /\
  tconn h (m_pend m') = [] /\ aget h (m_ids m') = None.
Proof. exact waiters_released_link. Qed.
Print Assumptions C09_waiters_released_link.

(* ---- links_independent *)
(* An event on connection a (an API call on one of its channels, a frame received on it, its
   loss) leaves everything of any other connection b untouched: b's entries in the five tables,
   b's identifier counter, b's channel objects and the futures created for b. *)
Theorem C09_links_independent : forall m e a b, reachable m -> ev_ok m e = true ->
  ev_conn m e = Some a -> b <> a -> same_conn b m (fst (step m e)).
Proof. exact links_independent. Qed.
Print Assumptions C09_links_independent.

(* Determinacy form.  [local a m] (Proofs/ChanMgrDet.v) is connection a's projection of the
   manager: a's entries in the five tables, a's identifier counter, a's channel objects and the
   futures created for a; channel objects and futures of other connections are replaced by
   inert placeholders (so the ghost names, creation indices, are kept), their table entries
   and counters are dropped.  An event of connection a does to the projection exactly what it
   does to the whole manager - it reads nothing of any other connection - and sends the same
   frames.  No hypothesis on the event ([ev_ok] is not needed). *)
Theorem C09_step_local : forall m e a, reachable m -> ev_conn m e = Some a ->
  step (local a m) e = (local a (fst (step m e)), snd (step m e)).
Proof. exact step_local_reachable. Qed.
Print Assumptions C09_step_local.

(* Hence what happens on connection a is a function of a's projection: two managers that agree
   on connection a, whatever they hold for other connections, send the same frames for an event
   of connection a and agree on connection a afterwards ... *)
Theorem C09_links_determinate : forall m1 m2 e a, reachable m1 -> reachable m2 ->
  local a m1 = local a m2 -> ev_conn m1 e = Some a ->
  ev_conn m2 e = Some a /\ snd (step m1 e) = snd (step m2 e) /\
  local a (fst (step m1 e)) = local a (fst (step m2 e)).
Proof. exact links_determinate_reachable. Qed.
Print Assumptions C09_links_determinate.

(* ... and so for every history of events of connection a. *)
Theorem C09_links_determinate_history : forall a es m1 m2, reachable m1 -> reachable m2 ->
  local a m1 = local a m2 -> evs_ok m1 es = true -> evs_ok m2 es = true -> all_on a m1 es ->
  snd (run m1 es) = snd (run m2 es) /\ local a (fst (run m1 es)) = local a (fst (run m2 es)).
Proof. exact run_determinate_reachable. Qed.
Print Assumptions C09_links_determinate_history.

(* not vacuous: two different managers that agree on connection 1, and an event of connection 1
   that changes the projection *)
Example C09_determinate_nonvacuous :
  let m0 := m_init [(128, 2)] [(4097, 0)] in
  let m1 := fst (step m0 (EOpen 2 K_LE 128 1 0 3)) in
  let m2 := fst (step m0 (EOpen 2 K_CL 4097 1 0 0)) in
  m1 <> m2 /\ local 1 m1 = local 1 m2 /\ ev_conn m1 (EOpen 1 K_LE 128 1 0 3) = Some 1 /\
  local 1 (fst (step m1 (EOpen 1 K_LE 128 1 0 3))) <> local 1 m1.
Proof. exact determinate_nonvacuous. Qed.

(* ---- reopen_succeeds *)
(* The hypotheses of the following theorems mention only the connection's own tables: an
   open / accept never fails because of another connection (D09b was a violation of this). *)
(* With fewer channels in use on the connection than the CID range holds and no pending
   request with the same identifier ON THIS CONNECTION, an LE open sends its request with a
   CID that no channel in use has ... *)
Theorem C09_reopen_le_request : forall m h psm credits, reachable m ->
  Z.of_nat (List.length (tkeys h (m_chs m))) < le_capacity ->
  tget h (nid m h) (m_reqs m) = None ->
  exists scid,
    snd (step m (EOpen h K_LE psm 1 0 credits)) = [FLeReq (nid m h) psm scid credits true] /\
    le_cid_lo <= scid <= le_cid_hi /\ tget h scid (m_chs m) = None /\
    let m1 := fst (step m (EOpen h K_LE psm 1 0 credits)) in
    wout m1 (wuid m) = O_PENDING /\ In (h, scid, huid m) (m_chs m1) /\
    tget h (nid m h) (m_reqs m1) = Some scid.
Proof. exact reopen_le_request. Qed.
Print Assumptions C09_reopen_le_request.

(* ... and when the peer accepts it (with a CID it does not already use), the awaited call
   returns and the channel is filed in both tables. *)
Theorem C09_reopen_le_completes : forall m h psm credits dcid credits', reachable m ->
  Z.of_nat (List.length (tkeys h (m_chs m))) < le_capacity ->
  tget h (nid m h) (m_reqs m) = None ->
  let m1 := fst (step m (EOpen h K_LE psm 1 0 credits)) in
  tget h dcid (m_le m1) = None ->
  let m2 := fst (step m1 (ERecv h (FLeRsp (nid m h) dcid credits' R_OK true))) in
  wout m2 (wuid m) = O_RESULT /\
  exists c, hget m2 (huid m) = Some c /\ c_st c = SConnected /\ c_dcid c = dcid /\
            In (h, c_scid c, huid m) (m_chs m2) /\ In (h, dcid, huid m) (m_le m2).
Proof. exact reopen_le_completes. Qed.
Print Assumptions C09_reopen_le_completes.

(* Accepting side: a request is refused only if its PSM is not served, its MTU / MPS are below
   the minimum, its source CID is the one of a connected channel of the same connection, or 64
   channels are in use there. *)
Theorem C09_reopen_le_accept : forall m h id psm scid credits srv, reachable m ->
  srv_get psm (m_lesrv m) = Some srv ->
  tget h scid (m_le m) = None ->
  Z.of_nat (List.length (tkeys h (m_chs m))) < le_capacity ->
  exists local,
    snd (step m (ERecv h (FLeReq id psm scid credits true))) = [FLeRsp id local srv R_OK true] /\
    le_cid_lo <= local <= le_cid_hi /\ tget h local (m_chs m) = None /\
    let m1 := fst (step m (ERecv h (FLeReq id psm scid credits true))) in
    In (h, local, huid m) (m_chs m1) /\ In (h, scid, huid m) (m_le m1).
Proof. exact reopen_le_accept. Qed.
Print Assumptions C09_reopen_le_accept.

Theorem C09_reopen_classic_request : forall m h psm mode, reachable m ->
  Z.of_nat (List.length (tkeys h (m_chs m))) < bredr_capacity ->
  exists scid,
    snd (step m (EOpen h K_CL psm 1 mode 0)) = [FConnReq (nid m h) psm scid] /\
    bredr_cid_lo <= scid <= bredr_cid_hi /\ tget h scid (m_chs m) = None /\
    let m1 := fst (step m (EOpen h K_CL psm 1 mode 0)) in
    wout m1 (wuid m) = O_PENDING /\ In (h, scid, huid m) (m_chs m1).
Proof. exact reopen_classic_request. Qed.
Print Assumptions C09_reopen_classic_request.

(* End to end, as the property text reads: a connected LE channel is closed - disconnect()
   sends the request and waits, the peer answers - then the awaited call has returned, the
   channel is DISCONNECTED and drained, its CIDs are in neither table, and (unless the next
   identifier is the one of a request still pending on this connection) the next open on the
   connection is handed a CID that is not larger than the one just freed: the allocator takes
   the smallest free CID, so the identifier of the closed channel IS used again. *)
Theorem C09_close_reopen_le : forall m u c id psm credits, reachable m ->
  hget m u = Some c -> c_kind c = KLe -> c_st c = SConnected -> c_live c = true ->
  le_cid_lo <= c_scid c <= le_cid_hi ->
  let h := c_conn c in
  let m1 := fst (step m (EClose u)) in
  let m2 := fst (step m1 (ERecv h (FDiscRsp id (c_dcid c) (c_scid c)))) in
  reachable m2 /\
  snd (step m (EClose u)) = [FDiscReq (nid m h) (c_dcid c) (c_scid c)] /\
  wout m1 (wuid m) = O_PENDING /\ wout m2 (wuid m) = O_RESULT /\
  tget h (c_scid c) (m_chs m2) = None /\ tget h (c_dcid c) (m_le m2) = None /\
  (exists c2, hget m2 u = Some c2 /\ c_st c2 = SDisconnected /\ c_dw c2 = None /\ c_drained c2 = true) /\
  (tget h (nid m2 h) (m_reqs m2) = None ->
   exists scid,
     snd (step m2 (EOpen h K_LE psm 1 0 credits)) = [FLeReq (nid m2 h) psm scid credits true] /\
     le_cid_lo <= scid <= c_scid c).
Proof. exact close_reopen_le. Qed.
Print Assumptions C09_close_reopen_le.

(* its hypotheses hold for the channel of the simplest history (open, accepted), and the CID
   handed out after the close is the very same one *)
Example C09_close_reopen_example :
  let m := fst (run (m_init [] []) [EOpen 1 K_LE 128 1 0 3; ERecv 1 (FLeRsp 1 80 2 R_OK true)]) in
  evs_ok (m_init [] []) [EOpen 1 K_LE 128 1 0 3; ERecv 1 (FLeRsp 1 80 2 R_OK true)] = true /\
  option_map (fun c => (c_kind c, c_st c, c_live c, c_scid c, c_conn c)) (hget m 0) =
    Some (KLe, SConnected, true, 64, 1) /\
  snd (run m [EClose 0; ERecv 1 (FDiscRsp 2 80 64); EOpen 1 K_LE 128 1 0 3]) =
    [[FDiscReq 2 80 64]; []; [FLeReq 3 128 64 3 true]].
Proof. vm_compute. repeat split. Qed.

(* ---- non-vacuity and necessity of hypotheses *)
(* (D17g) A successful credit-based connection response whose MTU / MPS are outside the limits
   is a refusal, in every state: the manager does exactly what it does for the corresponding
   refusing response (so everything proved about refusals - tables exact, futures failed -
   holds for it) ... *)
Theorem C09_bad_params_is_refusal : forall m h id dcid credits dcids,
  step m (ERecv h (FLeRsp id dcid credits R_OK false)) = step m (ERecv h (FLeRsp id dcid credits R_LE_BAD_PARAMS true)) /\
  step m (ERecv h (FEnhRsp id credits R_OK dcids false)) = step m (ERecv h (FEnhRsp id credits R_ENH_BAD_PARAMS dcids true)).
Proof. exact bad_params_is_refusal. Qed.
Print Assumptions C09_bad_params_is_refusal.

(* ... for example: the awaited open fails, no table keeps an entry, and the next open is
   handed the same CID again *)
Example C09_bad_params_example :
  let es := [EOpen 1 K_LE 128 1 0 3; ERecv 1 (FLeRsp 1 80 2 R_OK false); EOpen 1 K_LE 128 1 0 3] in
  let r := run (m_init [] []) es in
  evs_ok (m_init [] []) es = true /\
  snd r = [[FLeReq 1 128 64 3 true]; []; [FLeReq 2 128 64 3 true]] /\
  map w_out (m_w (fst r)) = [O_ERROR; O_PENDING] /\
  m_chs (fst r) = [(1, 64, 1)] /\ m_le (fst r) = [] /\ m_reqs (fst r) = [(1, 2, 64)].
Proof. vm_compute. repeat split. Qed.

(* a history that satisfies the hypotheses: open, accept, close, reopen on the same
   connection, a second connection, link loss *)
Example C09_history_ok :
  let es := [EOpen 1 K_LE 128 1 0 3; ERecv 1 (FLeRsp 1 64 2 0 true); EClose 0; ERecv 1 (FDiscRsp 2 64 64);
             EOpen 1 K_LE 128 1 0 3; EOpen 2 K_LE 128 1 0 3; ERecv 2 (FLeRsp 1 64 2 0 true);
             ERecv 1 (FLeRsp 3 64 2 0 true); EDown 2] in
  let m := fst (run (m_init [(128, 2)] [(4097, 0)]) es) in
  evs_ok (m_init [(128, 2)] [(4097, 0)]) es = true /\
  m_chs m = [(1, 64, 1)] /\ m_le m = [(1, 64, 1)] /\ map w_out (m_w m) = [1; 1; 1; 1].
Proof. vm_compute. repeat split. Qed.

(* the only hypothesis left on disconnection requests is needed: a request that carries the
   (null) destination CID of a still connecting channel closes it and leaves connect() pending
   for ever, even after the link is gone; any other request for such a channel is discarded *)
Example C09_hypothesis_needed :
  let es := [EOpen 1 K_LE 128 1 0 3; ERecv 1 (FDiscReq 9 64 0); EDown 1] in
  evs_ok (m_init [] []) es = false /\
  map w_out (m_w (fst (run (m_init [] []) es))) = [O_PENDING].
Proof. vm_compute. split; reflexivity. Qed.

(* cancelling a pending open (or aborting the connecting channel) frees its CID and request *)
Example C09_cancel_frees :
  let es := [EOpen 1 K_LE 128 1 0 3; ECancel 0; EOpen 1 K_LE 128 1 0 3; EAbort 1] in
  let m := fst (run (m_init [] []) es) in
  evs_ok (m_init [] []) es = true /\ m_chs m = [] /\ m_reqs m = [] /\
  map w_out (m_w m) = [O_CANCELLED; O_CANCELLED].
Proof. vm_compute. repeat split. Qed.
