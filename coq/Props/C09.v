(* Property C09: L2CAP channel tables stay exact; closed identifiers are reusable; waiters
   are released.  Statements only; every proof is [exact <lemma of Proofs/ChanMgr.v>].

   The model (Model/ChanMgr.v) is one ChannelManager of bumble/l2cap.py after the repairs
   D09a-D09f and D07.  Its environment is universally quantified: [reachable m] means m is
   the state after ANY finite sequence of events - API calls of the application
   (open LE / enhanced / classic, disconnect, abort, write, grant credits), ANY signalling
   frame received on ANY connection, loss of ANY connection - that satisfies the
   hypotheses [ev_ok] (Model/ChanMgr.v, end of file) at every step. *)
From Coq Require Import ZArith List Bool String.
From BV Require Import Gen.C09Tables Model.ChanMgr Proofs.ChanMgrLib Proofs.ChanMgr.
Import ListNotations.
Open Scope Z_scope.

(* ---- tie to the source: regenerated on every run *)
(* The dictionaries the code indexes by connection handle are exactly the tables of the
   model. *)
Theorem C09_tables_modelled :
  per_connection_tables =
  ["channels"; "identifiers"; "le_coc_channels"; "le_coc_requests";
   "pending_credit_based_connections"]%string.
Proof. reflexivity. Qed.
Print Assumptions C09_tables_modelled.

(* ChannelManager.on_disconnection removes every one of them for the lost connection. *)
Theorem C09_cleanup_complete :
  forall t, In t per_connection_tables -> In t disconnection_pops.
Proof.
  assert (H : forallb (fun t => existsb (String.eqb t) disconnection_pops) per_connection_tables = true)
    by (vm_compute; reflexivity).
  intros t Ht. rewrite forallb_forall in H. specialize (H t Ht).
  apply existsb_exists in H. destruct H as [x [Hx He]]. apply String.eqb_eq in He. subst. exact Hx.
Qed.
Print Assumptions C09_cleanup_complete.

(* ---- tables_exact: refinement to the set of channels in use *)
(* `channels` contains (handle, cid, channel) exactly when the channel object exists, belongs
   to that connection, has that source CID and is in use (open, or being opened /
   configured / closed on a connection that still exists). *)
Theorem C09_tables_exact_channels : forall m, reachable m ->
  forall h k u, In (h, k, u) (m_chs m) <->
                exists c, hget m u = Some c /\ c_conn c = h /\ c_scid c = k /\ in_use m u c = true.
Proof. exact tables_exact_channels. Qed.
Print Assumptions C09_tables_exact_channels.

(* `le_coc_channels` contains (handle, cid, channel) exactly for the connected (or
   disconnecting) LE credit-based channels of connections that still exist, under the
   peer's CID. *)
Theorem C09_tables_exact_le_coc : forall m, reachable m ->
  forall h k u, In (h, k, u) (m_le m) <->
                exists c, hget m u = Some c /\ c_conn c = h /\ c_dcid c = k /\ c_kind c = KLe /\
                          c_live c = true /\ le_open_st (c_st c) = true.
Proof. exact tables_exact_le. Qed.
Print Assumptions C09_tables_exact_le_coc.

(* the pending-request tables contain only requests somebody still waits for *)
Theorem C09_tables_exact_requests : forall m, reachable m ->
  (forall h id k, In (h, id, k) (m_reqs m) ->
     exists u c, In (h, k, u) (m_chs m) /\ hget m u = Some c /\ c_st c = SConnecting /\
                 exists w, c_cw c = Some w /\ wout m w = O_PENDING) /\
  (forall h id w us, In (h, id, (w, us)) (m_pend m) -> wout m w = O_PENDING).
Proof. exact tables_exact_requests. Qed.
Print Assumptions C09_tables_exact_requests.

(* ---- cids_unique *)
Theorem C09_cids_unique : forall m, reachable m ->
  NoDup (map fst (m_chs m)) /\ NoDup (map fst (m_le m)) /\
  (forall h k h' k' u, In (h, k, u) (m_chs m) -> In (h', k', u) (m_chs m) -> h = h' /\ k = k') /\
  (forall h k h' k' u, In (h, k, u) (m_le m) -> In (h', k', u) (m_le m) -> h = h' /\ k = k').
Proof. exact cids_unique. Qed.
Print Assumptions C09_cids_unique.

(* ---- waiters_released *)
(* A future that is still pending belongs to a channel that is still filed under the
   future's connection and in use (or to a pending enhanced request of that connection). *)
Theorem C09_waiters_released_channel : forall m, reachable m ->
  forall w x, wget m w = Some x -> w_out x = O_PENDING ->
  match w_kind x with
  | WOpenEnh => exists us, In (w_conn x, w_ref x, (w, us)) (m_pend m)
  | _ => exists c k, hget m (w_ref x) = Some c /\ In (w_conn x, k, w_ref x) (m_chs m) /\
                     in_use m (w_ref x) c = true
  end.
Proof. exact waiters_released_channel. Qed.
Print Assumptions C09_waiters_released_channel.

(* drain() can only be waiting on a connected channel of a live connection *)
Theorem C09_waiters_released_drain : forall m, reachable m ->
  forall u c, hget m u = Some c -> c_drained c = false ->
  c_st c = SConnected /\ c_live c = true /\ In (c_conn c, c_scid c, u) (m_chs m).
Proof. exact waiters_released_drain. Qed.
Print Assumptions C09_waiters_released_drain.

(* After the loss of a connection: no future created for it is pending, no drain() on one of
   its channels can wait, none of its entries is left in any table. *)
Theorem C09_waiters_released_link : forall m h, reachable m ->
  let m' := fst (step m (EDown h)) in
  (forall w x, wget m' w = Some x -> w_conn x = h -> w_out x <> O_PENDING) /\
  (forall u c, hget m' u = Some c -> c_conn c = h -> c_drained c = true /\ c_live c = false) /\
  tconn h (m_chs m') = [] /\ tconn h (m_le m') = [] /\ tconn h (m_reqs m') = [] /\
  tconn h (m_pend m') = [] /\ aget h (m_ids m') = None.
Proof. exact waiters_released_link. Qed.
Print Assumptions C09_waiters_released_link.

(* ---- links_independent *)
(* An event on connection a (an API call on one of its channels, a frame received on it, its
   loss) leaves everything of any other connection b untouched: b's entries in the five tables,
   b's identifier counter, b's channel objects and the futures created for b. *)
Theorem C09_links_independent : forall m e a b, reachable m -> ev_ok m e = true ->
  ev_conn m e = Some a -> b <> a -> same_conn b m (fst (step m e)).
Proof. exact links_independent. Qed.
Print Assumptions C09_links_independent.

(* ---- reopen_succeeds *)
(* The hypotheses of the following theorems mention only the connection's own tables: an
   open / accept never fails because of another connection (D09b was a violation of this). *)
(* With fewer channels in use on the connection than the CID range holds and no pending
   request with the same identifier ON THIS CONNECTION, an LE open sends its request with a
   CID that no channel in use has ... *)
Theorem C09_reopen_le_request : forall m h psm credits, reachable m ->
  Z.of_nat (List.length (tkeys h (m_chs m))) < le_capacity ->
  tget h (nid m h) (m_reqs m) = None ->
  exists scid,
    snd (step m (EOpen h K_LE psm 1 0 credits)) = [FLeReq (nid m h) psm scid credits] /\
    le_cid_lo <= scid <= le_cid_hi /\ tget h scid (m_chs m) = None /\
    let m1 := fst (step m (EOpen h K_LE psm 1 0 credits)) in
    wout m1 (wuid m) = O_PENDING /\ In (h, scid, huid m) (m_chs m1) /\
    tget h (nid m h) (m_reqs m1) = Some scid.
Proof. exact reopen_le_request. Qed.
Print Assumptions C09_reopen_le_request.

(* ... and when the peer accepts it (with a CID it does not already use), the awaited call
   returns and the channel is filed in both tables. *)
Theorem C09_reopen_le_completes : forall m h psm credits dcid credits', reachable m ->
  Z.of_nat (List.length (tkeys h (m_chs m))) < le_capacity ->
  tget h (nid m h) (m_reqs m) = None ->
  let m1 := fst (step m (EOpen h K_LE psm 1 0 credits)) in
  tget h dcid (m_le m1) = None ->
  let m2 := fst (step m1 (ERecv h (FLeRsp (nid m h) dcid credits' R_OK))) in
  wout m2 (wuid m) = O_RESULT /\
  exists c, hget m2 (huid m) = Some c /\ c_st c = SConnected /\ c_dcid c = dcid /\
            In (h, c_scid c, huid m) (m_chs m2) /\ In (h, dcid, huid m) (m_le m2).
Proof. exact reopen_le_completes. Qed.
Print Assumptions C09_reopen_le_completes.

(* Accepting side: a request is refused only if its PSM is not served, its source CID is the
   one of a connected channel of the same connection, or 64 channels are in use there. *)
Theorem C09_reopen_le_accept : forall m h id psm scid credits srv, reachable m ->
  srv_get psm (m_lesrv m) = Some srv ->
  tget h scid (m_le m) = None ->
  Z.of_nat (List.length (tkeys h (m_chs m))) < le_capacity ->
  exists local,
    snd (step m (ERecv h (FLeReq id psm scid credits))) = [FLeRsp id local srv R_OK] /\
    le_cid_lo <= local <= le_cid_hi /\ tget h local (m_chs m) = None /\
    let m1 := fst (step m (ERecv h (FLeReq id psm scid credits))) in
    In (h, local, huid m) (m_chs m1) /\ In (h, scid, huid m) (m_le m1).
Proof. exact reopen_le_accept. Qed.
Print Assumptions C09_reopen_le_accept.

Theorem C09_reopen_classic_request : forall m h psm mode, reachable m ->
  Z.of_nat (List.length (tkeys h (m_chs m))) < bredr_capacity ->
  exists scid,
    snd (step m (EOpen h K_CL psm 1 mode 0)) = [FConnReq (nid m h) psm scid] /\
    bredr_cid_lo <= scid <= bredr_cid_hi /\ tget h scid (m_chs m) = None /\
    let m1 := fst (step m (EOpen h K_CL psm 1 mode 0)) in
    wout m1 (wuid m) = O_PENDING /\ In (h, scid, huid m) (m_chs m1).
Proof. exact reopen_classic_request. Qed.
Print Assumptions C09_reopen_classic_request.

(* ---- non-vacuity and necessity of hypotheses *)
(* a history that satisfies the hypotheses: open, accept, close, reopen on the same
   connection, a second connection, link loss *)
Example C09_history_ok :
  let es := [EOpen 1 K_LE 128 1 0 3; ERecv 1 (FLeRsp 1 64 2 0); EClose 0; ERecv 1 (FDiscRsp 2 64 64);
             EOpen 1 K_LE 128 1 0 3; EOpen 2 K_LE 128 1 0 3; ERecv 2 (FLeRsp 1 64 2 0);
             ERecv 1 (FLeRsp 3 64 2 0); EDown 2] in
  let m := fst (run (m_init [(128, 2)] [(4097, 0)]) es) in
  evs_ok (m_init [(128, 2)] [(4097, 0)]) es = true /\
  m_chs m = [(1, 64, 1)] /\ m_le m = [(1, 64, 1)] /\ map w_out (m_w m) = [1; 1; 1; 1].
Proof. vm_compute. repeat split. Qed.

(* the hypothesis "no disconnection request for a channel whose connection request is
   unanswered" is needed: without it a connect() is left pending for ever, even after the
   link is gone (see docs/C09.md, open questions) *)
Example C09_hypothesis_needed :
  let es := [EOpen 1 K_LE 128 1 0 3; ERecv 1 (FDiscReq 9 64 80); EDown 1] in
  evs_ok (m_init [] []) es = false /\
  map w_out (m_w (fst (run (m_init [] []) es))) = [O_PENDING].
Proof. vm_compute. split; reflexivity. Qed.
