(* Property C09: L2CAP channel tables stay exact; closed identifiers are reusable; waiters
   are released.  Statements only. *)
From Coq Require Import ZArith List Bool String.
From BV Require Import Gen.C09Tables Model.ChanMgr.
Import ListNotations.
Open Scope Z_scope.

(* The dictionaries the code indexes by connection handle are exactly the tables of the
   model (re-checked against the regenerated list on every run). *)
Theorem C09_tables_modelled :
  per_connection_tables =
  ["channels"; "identifiers"; "le_coc_channels"; "le_coc_requests";
   "pending_credit_based_connections"]%string.
Proof. reflexivity. Qed.
Print Assumptions C09_tables_modelled.

(* ChannelManager.on_disconnection removes every one of them for the lost connection. *)
Theorem C09_cleanup_complete :
  forall t, In t per_connection_tables -> In t disconnection_pops.
Proof.
  assert (H : forallb (fun t => existsb (String.eqb t) disconnection_pops) per_connection_tables = true)
    by (vm_compute; reflexivity).
  intros t Ht. rewrite forallb_forall in H. specialize (H t Ht).
  apply existsb_exists in H. destruct H as [x [Hx He]]. apply String.eqb_eq in He. subst. exact Hx.
Qed.
Print Assumptions C09_cleanup_complete.
