(* Property C19: SDP answers and AVDTP/AVCTP messages are reassembled exactly across PDUs; an SDP
   pattern matches a record only if it contains every UUID; AVDTP stream states agree on both
   ends.  This file contains only statements, each closed by [exact]. *)
From Coq Require Import ZArith List Bool Sorted.
From BV Require Import Model.C19Chunks Model.Sdp Model.AvdtpAsm Model.AvctpAsm Model.AvdtpStream Model.C19Shape.
From BV Require Import Model.CodecsSdp Model.SdpE2E Proofs.SdpE2E.
From BV Require Import Gen.C19Shape.
From BV Require Import Proofs.C19Chunks Proofs.Sdp Proofs.AvdtpAsm Proofs.AvctpAsm Proofs.AvdtpStream Proofs.C19Shape.
Import ListNotations.
Open Scope Z_scope.

(* ============================================================ SDP *)

(* A record is returned by a search exactly when it is in the table and contains EVERY UUID of
   the pattern (any table, any pattern, nested sequences included). *)
Theorem C19_sdp_match_iff_all_uuids : forall recs pat h svc,
  In (h, svc) (match_services recs pat) <->
  In (h, svc) recs /\ forall u, In u pat -> service_has_uuid svc u = true.
Proof. exact match_iff_all_uuids. Qed.
Print Assumptions C19_sdp_match_iff_all_uuids.

(* The attributes returned for a record are exactly those in one of the requested ids / ranges,
   sorted by attribute id. *)
Theorem C19_sdp_attributes_exact : forall svc ids,
  (forall a, In a (get_service_attributes svc ids) <->
             In a svc /\ exists i, In i ids /\ id_lo i <= at_id a <= id_hi i) /\
  StronglySorted id_le (get_service_attributes svc ids).
Proof. exact get_service_attributes_spec. Qed.
Print Assumptions C19_sdp_attributes_exact.

(* One response carries at most the budget; a non-final piece carries exactly the budget (>= 1
   byte when the budget is >= 1) and leaves a strictly shorter remainder: the loop terminates. *)
Theorem C19_sdp_chunk_progress : forall mx b,
  0 <= mx -> mx < zlen b ->
  next_payload mx b = (firstn (Z.to_nat mx) b, true, RBytes (skipn (Z.to_nat mx) b)) /\
  zlen (firstn (Z.to_nat mx) b) = mx /\ zlen (skipn (Z.to_nat mx) b) = zlen b - mx.
Proof. exact next_payload_more. Qed.
Print Assumptions C19_sdp_chunk_progress.

Theorem C19_sdp_chunk_fits : forall mx b, 0 <= mx -> zlen (fst (fst (next_payload mx b))) <= mx.
Proof. exact next_payload_fits. Qed.
Print Assumptions C19_sdp_chunk_fits.

(* concat(chunks) = response, for every response size, every MTU, every budget >= 1 and every
   continuation limit w with w * budget >= size; whatever the server held before. *)
Theorem C19_sdp_chunks_concat_response : forall w recs mtu cur pat mb ids,
  1 <= Z.min mb (mtu - 9) -> (1 <= w)%nat ->
  zlen (search_attr_bytes recs pat ids) <= Z.of_nat w * Z.min mb (mtu - 9) ->
  client_bytes w recs mtu (QSearchAttr pat mb ids CFresh) cur CFresh [] =
  (RNone, CDoneBytes (search_attr_bytes recs pat ids)).
Proof. exact chunks_concat_response. Qed.
Print Assumptions C19_sdp_chunks_concat_response.

(* The guard is needed: with maximum_attribute_byte_count = 0 the transaction never ends,
   whatever the continuation limit (the client is left with an empty partial answer). *)
Theorem C19_sdp_zero_byte_count_never_terminates : forall w recs mtu cur pat ids,
  9 <= mtu ->
  client_bytes (S w) recs mtu (QSearchAttr pat 0 ids CFresh) cur CFresh [] =
  (RBytes (search_attr_bytes recs pat ids), CPartialBytes []).
Proof. exact zero_byte_count_never_terminates. Qed.
Print Assumptions C19_sdp_zero_byte_count_never_terminates.

(* The three client transactions (continuation limit 64, as in the code) against the server. *)
Theorem C19_sdp_get_attributes_exact : forall recs mtu cur h ids svc,
  lookup_record h recs = Some svc -> 10 <= mtu ->
  zlen (attr_list_bytes (get_service_attributes svc ids)) <= 64 * capacity mtu ->
  client_get_attributes recs mtu cur h ids =
  (RNone, CDoneBytes (attr_list_bytes (get_service_attributes svc ids))).
Proof. exact get_attributes_exact. Qed.
Print Assumptions C19_sdp_get_attributes_exact.

Theorem C19_sdp_get_attributes_unknown_handle : forall recs mtu cur h ids,
  lookup_record h recs = None ->
  client_get_attributes recs mtu cur h ids = (RNone, CErr ERR_INVALID_HANDLE).
Proof. exact get_attributes_unknown_handle. Qed.
Print Assumptions C19_sdp_get_attributes_unknown_handle.

Theorem C19_sdp_search_attributes_exact : forall recs mtu cur pat ids,
  10 <= mtu -> zlen (search_attr_bytes recs pat ids) <= 64 * capacity mtu ->
  client_search_attributes recs mtu cur pat ids = (RNone, CDoneBytes (search_attr_bytes recs pat ids)).
Proof. exact search_attributes_exact. Qed.
Print Assumptions C19_sdp_search_attributes_exact.

Theorem C19_sdp_search_services_exact : forall recs mtu cur pat,
  15 <= mtu ->
  zlen (match_services recs pat) <= 65535 ->
  zlen (match_services recs pat) <= 64 * ((mtu - 11) / 4) ->
  client_search_services recs mtu cur pat =
  (RHandles (zlen (match_services recs pat)) [], CDoneHandles (map fst (match_services recs pat))).
Proof. exact search_services_exact. Qed.
Print Assumptions C19_sdp_search_services_exact.

(* Any number of clients connected at the same time, any interleaving of their connects,
   disconnects and requests: what client d receives, and the continuation state held for it,
   are those of a server that only ever saw d's own operations. *)
Theorem C19_sdp_clients_independent : forall recs ops s d,
  to_chan d (snd (s_run recs s ops)) = snd (solo_run recs (view s d) (for_chan d ops)) /\
  view (fst (s_run recs s ops)) d = fst (solo_run recs (view s d) (for_chan d ops)).
Proof. exact clients_independent. Qed.
Print Assumptions C19_sdp_clients_independent.

(* A client's L2CAP channel closes at any point: every OTHER client's continuation state is untouched (served
   or parked), so its transaction under way continues exactly as if the closing client had never existed; the
   closing client's own state is dropped; the served state is reset exactly when the closing channel is the
   one being served. *)
Theorem C19_sdp_close_leaves_others_untouched : forall recs s a b,
  a <> b -> view (fst (s_step recs s (Disconnect b))) a = view s a.
Proof. exact disconnect_other_untouched. Qed.
Print Assumptions C19_sdp_close_leaves_others_untouched.

Theorem C19_sdp_close_between_pieces : forall recs s a b mtu q,
  a <> b ->
  snd (s_step recs (fst (s_step recs s (Disconnect b))) (Request a mtu q)) =
  [(a, snd (handle recs mtu (view s a) q))].
Proof. exact disconnect_between_pieces. Qed.
Print Assumptions C19_sdp_close_between_pieces.

Theorem C19_sdp_close_drops_own_state : forall recs s b, view (fst (s_step recs s (Disconnect b))) b = RNone.
Proof. exact disconnect_own_dropped. Qed.
Print Assumptions C19_sdp_close_drops_own_state.

Theorem C19_sdp_response_to_requester : forall recs s c mtu q,
  exists r, snd (s_step recs s (Request c mtu q)) = [(c, r)].
Proof. exact response_to_requester. Qed.
Print Assumptions C19_sdp_response_to_requester.

(* Every response of every handler fits the MTU of the channel it is sent on. *)
Theorem C19_sdp_response_fits_mtu : forall recs mtu cur q,
  11 <= mtu -> rsp_size (snd (handle recs mtu cur q)) <= mtu.
Proof. exact response_fits_mtu. Qed.
Print Assumptions C19_sdp_response_fits_mtu.

(* END TO END (chunking composed with the DataElement round trip of property C18): for any record table
   whose attribute values are well-formed data elements ([tv a] is the element serialised in [at_bytes a]),
   any MTU >= 10, any id list, a response of at most 64 pieces, whatever the server held before:
   Client.get_attributes hands the caller exactly (id, value) of every selected attribute, in id order ... *)
Theorem C19_sdp_get_attributes_end_to_end : forall max_depth tv recs mtu cur h ids svc,
  lookup_record h recs = Some svc -> 10 <= mtu -> (1 <= max_depth)%nat ->
  (forall a, In a svc -> attr_typed max_depth tv a) ->
  zlen (attr_list_bytes (get_service_attributes svc ids)) <= 64 * capacity mtu ->
  exists acc,
    client_get_attributes recs mtu cur h ids = (RNone, CDoneBytes acc) /\
    client_parse_attributes max_depth acc = PValue (typed tv (get_service_attributes svc ids)).
Proof. exact get_attributes_end_to_end. Qed.
Print Assumptions C19_sdp_get_attributes_end_to_end.

(* ... and Client.search_attributes one such list per matching record that has a requested attribute. *)
Theorem C19_sdp_search_attributes_end_to_end : forall max_depth tv recs mtu cur pat ids,
  10 <= mtu -> (1 <= max_depth)%nat ->
  (forall h svc a, In (h, svc) recs -> In a svc -> attr_typed max_depth tv a) ->
  zlen (search_attr_bytes recs pat ids) <= 64 * capacity mtu ->
  exists acc,
    client_search_attributes recs mtu cur pat ids = (RNone, CDoneBytes acc) /\
    client_parse_attribute_lists max_depth acc = PValue (map (typed tv) (search_attr_lists recs pat ids)).
Proof. exact search_attributes_end_to_end. Qed.
Print Assumptions C19_sdp_search_attributes_end_to_end.

(* ============================================================ AVDTP signalling messages *)

(* For every MTU >= 4, every header, every payload within the packet-count guard, and from
   EVERY assembler state: what send_message emits fits the MTU and is delivered as exactly that
   message. *)
Theorem C19_avdtp_fragment_reassemble : forall mtu label sg mt payload s,
  4 <= mtu -> hdr_ok label sg mt = true -> size_ok mtu payload = true ->
  exists ps, a_frag mtu label sg mt payload = FPackets ps /\
             a_run s ps = (a_reset, [AMsg label sg mt payload]) /\
             Forall (fun p => zlen p <= mtu) ps.
Proof. exact frag_asm. Qed.
Print Assumptions C19_avdtp_fragment_reassemble.

(* Beyond the guard (more than 255 packets) send_message raises before sending anything. *)
Theorem C19_avdtp_over_guard_refused : forall mtu label sg mt payload,
  4 <= mtu -> size_ok mtu payload = false -> a_frag mtu label sg mt payload = FRaise.
Proof. exact frag_over_guard. Qed.
Print Assumptions C19_avdtp_over_guard_refused.

(* A broken fragment sequence discards only that message: after ANY PDUs at all, the next
   message is delivered intact, after whatever the junk itself produced. *)
Theorem C19_avdtp_resync : forall junk mtu label sg mt payload s,
  4 <= mtu -> hdr_ok label sg mt = true -> size_ok mtu payload = true ->
  exists ps, a_frag mtu label sg mt payload = FPackets ps /\
             a_run s (junk ++ ps) = (a_reset, snd (a_run s junk) ++ [AMsg label sg mt payload]).
Proof. exact resync. Qed.
Print Assumptions C19_avdtp_resync.

(* The assembler does not depend on the sender's fragment size: any cut of the payload. *)
Theorem C19_avdtp_any_cut : forall label sg mt c0 cs s,
  hdr_ok label sg mt = true -> cs <> [] ->
  a_run s ((a_hdr label PT_START mt :: sg :: (1 + zlen cs) :: c0) :: a_tail_packets label mt cs) =
  (a_reset, [AMsg label sg mt (c0 ++ concat cs)]).
Proof. exact any_cut_asm. Qed.
Print Assumptions C19_avdtp_any_cut.

(* ============================================================ AVCTP messages *)

(* Layout the implementation accepts (PID in every packet): any cut, any header a peer may
   send, from any assembler state, after any junk. *)
Theorem C19_avctp_pid_layout_reassembles : forall junk label cr ipid pid c0 cs s,
  chdr_ok label cr ipid = true ->
  c_run s (junk ++ c_frag_pid label cr ipid pid c0 cs) =
  (c_reset, snd (c_run s junk) ++ [CMsg label (cr =? 0) (negb (ipid =? 0)) pid (c0 ++ concat cs)]).
Proof. exact c_resync. Qed.
Print Assumptions C19_avctp_pid_layout_reassembles.

(* Layout of the AVCTP specification (PID in the start packet only): proved for messages that
   are not fragmented -- the hypothesis that excludes finding D19d ... *)
Theorem C19_avctp_spec_layout_unfragmented : forall label cr ipid pid c0 s,
  chdr_ok label cr ipid = true ->
  c_run s (c_frag_spec label cr ipid pid c0 []) =
  (c_reset, [CMsg label (cr =? 0) (negb (ipid =? 0)) pid c0]).
Proof. exact spec_layout_single. Qed.
Print Assumptions C19_avctp_spec_layout_unfragmented.

(* ... and that hypothesis is needed: the statement for fragmented messages is false of the
   code as it is (known finding D19d). *)
Theorem C19_avctp_spec_layout_fragmented_refuted :
  ~ (forall label cr ipid pid c0 cs s, chdr_ok label cr ipid = true ->
       c_run s (c_frag_spec label cr ipid pid c0 cs) =
       (c_reset, [CMsg label (cr =? 0) (negb (ipid =? 0)) pid (c0 ++ concat cs)])).
Proof. exact spec_layout_fragmented_refuted. Qed.
Print Assumptions C19_avctp_spec_layout_fragmented_refuted.

(* ============================================================ AVDTP stream states *)

(* After ANY sequence of configure / open / start / suspend / close / abort from the initiating
   side, both ends hold the same stream state and the same view of the transport channel. *)
Theorem C19_stream_states_agree : forall ops,
  let p := fst (run p_init ops) in src_st p = snk_st p /\ src_rtp p = snk_rtp p.
Proof. exact states_agree. Qed.
Print Assumptions C19_stream_states_agree.

Theorem C19_stream_states_follow_spec : forall ops,
  src_st (fst (run p_init ops)) = fold_left (fun st o => spec_next o st) ops Idle.
Proof. exact states_follow_spec. Qed.
Print Assumptions C19_stream_states_follow_spec.

(* A procedure that is not legal in the current state is refused and changes nothing on either
   end; a legal one is accepted. *)
Theorem C19_stream_illegal_refused_unchanged : forall ops o,
  let p := fst (run p_init ops) in
  legal o (src_st p) = false -> step p o = (p, refusal o).
Proof. exact illegal_refused_unchanged. Qed.
Print Assumptions C19_stream_illegal_refused_unchanged.

Theorem C19_stream_legal_accepted : forall ops o,
  let p := fst (run p_init ops) in
  legal o (src_st p) = true -> snd (step p o) = Ok.
Proof. exact legal_accepted. Qed.
Print Assumptions C19_stream_legal_accepted.

(* the finite evaluation covers every state of the pair *)
Theorem C19_stream_enumeration_complete : forall p, In p all_pairs.
Proof. exact all_pairs_complete. Qed.
Print Assumptions C19_stream_enumeration_complete.

(* ============================================================ the models against the CURRENT source
   Gen/C19Shape.v is regenerated from bumble/sdp.py, avdtp.py, avctp.py on every run (tools/translate/
   c19_shape.py, fail-closed).  An edit to a constant, a comparison, a bound, a slice, a guard, the order or
   presence of a statement in an anchored function changes a g_ definition and breaks one of these. *)

(* the service-search handler cuts the handle list at the source's (peer_mtu - 11) // 4 *)
Theorem C19_sdp_search_handler_matches_source : forall recs mtu pat mc total hs,
  handle recs mtu (RHandles total hs) (QSearch pat mc CValid) =
  (RHandles total (skipn (Z.to_nat (g_sdp_search_per mtu)) hs),
   ESearch total (firstn (Z.to_nat (g_sdp_search_per mtu)) hs)
           (negb (is_nil (skipn (Z.to_nat (g_sdp_search_per mtu)) hs)))).
Proof. exact sdp_search_handler_src. Qed.
Print Assumptions C19_sdp_search_handler_matches_source.

(* get_next_response_payload: the source's comparison and the source's two slice bounds *)
Theorem C19_sdp_next_payload_matches_source : forall mx b,
  next_payload mx b =
  if g_sdp_more (zlen b) mx
  then (firstn (Z.to_nat (g_sdp_payload_end mx)) b, true, RBytes (skipn (Z.to_nat (g_sdp_rest_start mx)) b))
  else (b, false, RNone).
Proof. exact sdp_next_payload_src. Qed.
Print Assumptions C19_sdp_next_payload_matches_source.

(* the byte budget of both bytes-kind handlers is the source's min(maximum_attribute_byte_count, peer_mtu - 9) *)
Theorem C19_sdp_budget_matches_source : forall recs mtu b h pat mb ids,
  handle recs mtu (RBytes b) (QAttr h mb ids CValid) = respond_bytes EAttr (g_sdp_attr_budget mb mtu) (RBytes b) /\
  handle recs mtu (RBytes b) (QSearchAttr pat mb ids CValid) =
  respond_bytes ESearchAttr (g_sdp_sattr_budget mb mtu) (RBytes b).
Proof. exact sdp_budget_src. Qed.
Print Assumptions C19_sdp_budget_matches_source.

(* Server.on_channel_close as it is in the source (unconditional pop; reset guarded by `channel is
   self.channel`) is the model's Disconnect step *)
Theorem C19_sdp_close_matches_source :
  g_sdp_close_shape = [1; 1; 1; 1; 2] /\
  forall recs s b,
    fst (s_step recs s (Disconnect b)) =
    if is_chan s b then mkS None RNone (p_remove b (s_pending s))
    else mkS (s_chan s) (s_cur s) (p_remove b (s_pending s)).
Proof. exact sdp_close_src. Qed.
Print Assumptions C19_sdp_close_matches_source.

Theorem C19_sdp_continuation_matches_source :
  g_sdp_continuation_state = e_sdp_continuation_state /\
  g_sdp_is_continuation 1 = false /\ g_sdp_is_continuation (zlen g_sdp_continuation_state) = true /\
  g_sdp_client_done 1 0 = true /\ g_sdp_client_done (zlen g_sdp_continuation_state) 1 = false.
Proof. exact sdp_continuation_src. Qed.
Print Assumptions C19_sdp_continuation_matches_source.

(* attribute id ranges: value_size 4 means hi16..lo16, the comparison is inclusive on both ends *)
Theorem C19_sdp_id_ranges_match_source : forall v,
  g_sdp_is_range 4 = true /\ g_sdp_is_range 2 = false /\
  id_lo (true, v) = g_sdp_id_lo v /\ id_hi (true, v) = g_sdp_id_hi v /\
  id_lo (false, v) = v /\ id_hi (false, v) = v.
Proof. exact sdp_ids_src. Qed.
Print Assumptions C19_sdp_id_ranges_match_source.

Theorem C19_sdp_in_range_matches_source : forall i a,
  in_range i a = g_sdp_in_range (at_id a) (id_lo i) (id_hi i).
Proof. exact sdp_in_range_src. Qed.
Print Assumptions C19_sdp_in_range_matches_source.

(* the client loops: watchdog and request constants of the source *)
Theorem C19_sdp_client_matches_source : forall recs mtu cur h pat ids,
  client_get_attributes recs mtu cur h ids =
    client_bytes (Z.to_nat g_sdp_watchdog) recs mtu (QAttr h g_sdp_client_get_attributes_max ids CFresh) cur CFresh [] /\
  client_search_attributes recs mtu cur pat ids =
    client_bytes (Z.to_nat g_sdp_watchdog) recs mtu (QSearchAttr pat g_sdp_client_search_attributes_max ids CFresh) cur CFresh [] /\
  client_search_services recs mtu cur pat =
    client_handles (Z.to_nat g_sdp_watchdog) recs mtu (QSearch pat g_sdp_client_search_services_max CFresh) cur CFresh [].
Proof. exact sdp_client_src. Qed.
Print Assumptions C19_sdp_client_matches_source.

Theorem C19_sdp_error_codes_match_source :
  g_sdp_errors_check_continuation = [ERR_INVALID_CONTINUATION] /\
  g_sdp_errors_on_sdp_service_search_request = [] /\
  g_sdp_errors_on_sdp_service_attribute_request = [ERR_INVALID_HANDLE] /\
  g_sdp_errors_on_sdp_service_search_attribute_request = [] /\
  g_sdp_errors_on_pdu = [3; ERR_INSUFFICIENT_RESOURCES; 3] /\
  g_sdp_pdu_ids = e_sdp_pdu_ids.
Proof. exact sdp_errors_src. Qed.
Print Assumptions C19_sdp_error_codes_match_source.

(* send_message: the model's fragmenter IS the source's arithmetic (fragment size, single-packet test,
   packet count) *)
Theorem C19_avdtp_frag_matches_source : forall mtu label sig mt payload,
  a_frag mtu label sig mt payload = a_frag_src mtu label sig mt payload.
Proof. exact avdtp_frag_src. Qed.
Print Assumptions C19_avdtp_frag_matches_source.

Theorem C19_avdtp_header_matches_source : forall label pt mt,
  0 <= label < 16 -> 0 <= pt < 4 -> 0 <= mt < 4 -> g_avdtp_header label pt mt = a_hdr label pt mt.
Proof. exact avdtp_header_src. Qed.
Print Assumptions C19_avdtp_header_matches_source.

Theorem C19_avdtp_decode_matches_source : forall b, 0 <= b < 256 ->
  g_avdtp_label b = b / 16 /\ g_avdtp_packet_type b = (b / 4) mod 4 /\
  g_avdtp_message_type b = b mod 4 /\ g_avdtp_signal b = b mod 64.
Proof. exact avdtp_decode_src. Qed.
Print Assumptions C19_avdtp_decode_matches_source.

Theorem C19_avdtp_guards_match_source : forall len cnt nsp F,
  g_avdtp_too_short len = (len <? 2) /\ g_avdtp_start_too_short len = (len <? 3) /\
  g_avdtp_end_bad cnt nsp = negb (cnt =? nsp) /\ g_avdtp_continue_bad cnt nsp = (nsp <? cnt) /\
  g_avdtp_continue len F = (F <? len) /\
  g_avdtp_body_offsets = e_avdtp_body_offsets /\ g_avdtp_packet_types = e_packet_types /\
  e_packet_types = [PT_SINGLE; PT_START; PT_CONTINUE; PT_END].
Proof. exact avdtp_guards_src. Qed.
Print Assumptions C19_avdtp_guards_match_source.

Theorem C19_avdtp_count_tests_match_source : forall label acc mt sg n k c,
  (k =? 0) = false ->
  a_on_frame (mkA label (Some acc) mt sg n k) label PT_END mt c =
    (if g_avdtp_end_bad k n then (a_reset, []) else (a_reset, [AMsg label sg mt (acc ++ c)])) /\
  a_on_frame (mkA label (Some acc) mt sg n k) label PT_CONTINUE mt c =
    (if g_avdtp_continue_bad k n then (a_reset, []) else (mkA label (Some (acc ++ c)) mt sg n k, [])).
Proof. exact avdtp_count_tests_src. Qed.
Print Assumptions C19_avdtp_count_tests_match_source.

Theorem C19_avctp_decode_matches_source : forall b, 0 <= b < 256 ->
  g_avctp_label b = b / 16 /\ g_avctp_packet_type b = (b / 4) mod 4 /\
  g_avctp_cr b = (b / 2) mod 2 /\ g_avctp_ipid b = b mod 2.
Proof. exact avctp_decode_src. Qed.
Print Assumptions C19_avctp_decode_matches_source.

Theorem C19_avctp_guards_match_source : forall cr ipid rcv nop,
  g_avctp_invalid_ipid cr ipid = ((cr =? 0) && negb (ipid =? 0)) /\
  g_avctp_too_many rcv nop = (nop <? rcv) /\ g_avctp_premature_end rcv nop = negb (rcv =? nop) /\
  g_avctp_pid_offsets = e_avctp_pid_offsets /\
  map g_avctp_body_start g_avctp_pid_offsets = [3; 4] /\
  g_avctp_packet_types = e_packet_types /\ e_packet_types = [CT_SINGLE; CT_START; CT_CONTINUE; CT_END].
Proof. exact avctp_guards_src. Qed.
Print Assumptions C19_avctp_guards_match_source.

Theorem C19_avctp_count_tests_match_source : forall label pid cr ipid ipid' acc n k ph pl body,
  g_avctp_invalid_ipid cr ipid' = false -> ph * 256 + pl = pid ->
  c_on_frame (mkC k label pid cr ipid acc n) label CT_END cr ipid' (ph :: pl :: body) =
    (if g_avctp_too_many k n || g_avctp_premature_end k n then (c_reset, [])
     else (c_reset, [c_deliver label cr ipid pid (acc ++ body)])) /\
  c_on_frame (mkC k label pid cr ipid acc n) label CT_CONTINUE cr ipid' (ph :: pl :: body) =
    (if g_avctp_too_many k n then (c_reset, []) else (mkC k label pid cr ipid (acc ++ body) n, [])).
Proof. exact avctp_count_tests_src. Qed.
Print Assumptions C19_avctp_count_tests_match_source.

(* stream procedures: the guards and change_state targets read from the source are the table the model was
   written from, and the model's transition function agrees with that table in every state of the pair *)
Theorem C19_stream_tables_match_source :
  g_stream_initiator = e_stream_initiator /\ g_stream_acceptor = e_stream_acceptor /\
  g_avdtp_state_codes = [0; 1; 2; 3; 4; 5].
Proof. exact stream_tables_src. Qed.
Print Assumptions C19_stream_tables_match_source.

Theorem C19_stream_initiator_matches_table :
  forallb (fun p => forallb (initiator_check p) all_ops) all_pairs = true.
Proof. exact stream_initiator_check_all. Qed.
Print Assumptions C19_stream_initiator_matches_table.

Theorem C19_stream_acceptor_matches_table : forallb acceptor_check all_pairs = true.
Proof. exact stream_acceptor_check_all. Qed.
Print Assumptions C19_stream_acceptor_matches_table.

(* the statement skeleton of each of the 50 anchored functions is the one the models were read from *)
Theorem C19_skeletons_match_source : g_skeletons = e_skeletons.
Proof. exact skeletons_src. Qed.
Print Assumptions C19_skeletons_match_source.

(* ============================================================ non-vacuity *)
Example C19_hypotheses_satisfiable :
  hdr_ok 3 1 0 = true /\ size_ok 48 (repeat 7 46) = true /\ size_ok 4 (repeat 7 256) = false /\
  chdr_ok 1 0 0 = true /\ chdr_ok 1 0 1 = false.
Proof. vm_compute. repeat split. Qed.

(* 46 bytes at MTU 48: one SINGLE packet of 48 bytes (the boundary of D19e) *)
Example C19_avdtp_boundary :
  match a_frag 48 3 1 0 (repeat 7 46) with
  | FPackets ps => map (fun p => zlen p) ps = [48] /\ snd (a_run a_reset ps) = [AMsg 3 1 0 (repeat 7 46)]
  | _ => False
  end.
Proof. vm_compute. split; reflexivity. Qed.

(* D19c: an unterminated START, then a well-formed START / END pair *)
Example C19_avdtp_after_unterminated :
  snd (a_run a_reset [[20; 1; 3; 9; 9]; [36; 1; 2; 7; 7]; [44; 8; 8]]) = [AMsg 2 1 0 [7; 7; 8; 8]].
Proof. vm_compute. reflexivity. Qed.

(* D19a: a record holding only UUID 1 does not match the pattern {1, 2}; one holding both does *)
Example C19_sdp_match_all :
  map fst (match_services [(10, [mkAttr 1 [] (DSeq [DUuid 1])]);
                           (11, [mkAttr 1 [] (DSeq [DUuid 1; DSeq [DUuid 2]])])] [1; 2]) = [11].
Proof. vm_compute. reflexivity. Qed.

(* D19b: two clients, interleaved continuation: each gets its own pieces *)
Example C19_sdp_two_clients :
  let recs := [(10, [mkAttr 1 [1; 2; 3; 4; 5; 6] DOther]); (11, [mkAttr 1 [9; 8; 7; 6; 5; 4] DOther])] in
  let ops := [Connect 1; Connect 2;
              Request 1 15 (QAttr 10 65535 [(true, 65535)] CFresh);
              Request 2 15 (QAttr 11 65535 [(true, 65535)] CFresh);
              Request 1 15 (QAttr 10 65535 [(true, 65535)] CValid);
              Request 2 15 (QAttr 11 65535 [(true, 65535)] CValid)] in
  snd (s_run recs s_init ops) =
  [(1, EAttr [53; 9; 9; 0; 1; 1] true); (2, EAttr [53; 9; 9; 0; 1; 9] true);
   (1, EAttr [2; 3; 4; 5; 6] false); (2, EAttr [8; 7; 6; 5; 4] false)].
Proof. vm_compute. reflexivity. Qed.

(* the hypothesis of the end-to-end theorems is satisfiable, and the result is what it says *)
Example C19_sdp_end_to_end_example :
  let tv := fun a : attr => if at_id a =? 0 then EUInt 4 65537 else ESeq [EUuid [1; 17]] in
  let svc := [mkAttr 1 [53; 3; 25; 17; 1] (DSeq [DUuid 1]); mkAttr 0 [10; 0; 1; 0; 1] DOther] in
  encode (tv (mkAttr 1 [] DOther)) = Some [53; 3; 25; 17; 1] /\ encode (tv (mkAttr 0 [] DOther)) = Some [10; 0; 1; 0; 1] /\
  client_parse_attributes 32 (match snd (client_get_attributes [(7, svc)] 48 RNone 7 [(true, 65535)]) with
                              | CDoneBytes acc => acc | _ => [] end)
  = PValue [(0, EUInt 4 65537); (1, ESeq [EUuid [1; 17]])].
Proof. vm_compute. repeat split. Qed.

(* D19f: configure, open, abort leaves both ends IDLE *)
Example C19_stream_abort :
  pair_obs (fst (run p_init [OpConfigure; OpOpen; OpAbort])) = (0, false, true, 0, false, false)%nat.
Proof. vm_compute. reflexivity. Qed.
