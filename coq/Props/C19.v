(* temporary: replaced once Proofs exist *)
From Coq Require Import ZArith List Bool.
From BV Require Import Model.C19Chunks Model.AvdtpAsm Model.AvctpAsm Model.AvdtpStream Model.Sdp.
Import ListNotations.
Open Scope Z_scope.
Theorem C19_tmp : agree p_init = true.
Proof. reflexivity. Qed.
Print Assumptions C19_tmp.
