(* Property C20: RFCOMM carries the exact byte stream; HFP on top negotiates
   consistently; every AT command the gateway receives is concluded by exactly one
   final result code.
   This file contains only statements, each closed by [exact] (or by complete
   evaluation for the obligations over the regenerated tables). *)
From Coq Require Import ZArith List Bool String.
From BV Require Import Gen.C20Consts Gen.C20AgSkeleton Gen.C20MuxEff Gen.C20DataPath Gen.C20AtReaders.
From BV Require Import Model.Rfcomm Model.RfcommMux Model.RfcommSm Model.RfcommSm2 Model.RfcommEff Model.RfcommRxQueue Model.HfpSlc Model.AtSkeleton Model.AtFramer.
From BV Require Import Proofs.Rfcomm Proofs.RfcommMux Proofs.RfcommSm Proofs.RfcommSm2 Proofs.RfcommEff Proofs.RfcommSrc Proofs.RfcommRxQueue Proofs.HfpSlc Proofs.AtSkeleton Proofs.AtFramer.
Import ListNotations.
Close Scope string_scope.
Open Scope list_scope.
Open Scope Z_scope.

(* the credit constants of bumble/rfcomm.py, regenerated on every run *)
Definition P : params := mkParams rfcomm_max_credits rfcomm_credit_threshold.

(* re-checked on every run against the regenerated constants:
   0 <= threshold < max_credits <= 255 (the credit byte) *)
Theorem C20_rfcomm_params_wf : wf_params_b P = true.
Proof. vm_compute. reflexivity. Qed.
Print Assumptions C20_rfcomm_params_wf.

(* ---------- which data links ----------
   wf_link_b: initial credits 1..7 on each side and each side's maximum frame size accepted by
   the other end's Multiplexer.acceptable_frame_size (N1 <= 32767, min(N1, L2CAP MTU - 5) >= 23).
   The ranges of the property text (frame size 23..32767, L2CAP MTU 48..65535) are a special
   case, and it is exactly what the code enforces (fix D17i): *)
Theorem C20_property_ranges_are_links : forall ini rsp mtu_i mtu_r,
  wf_setup_b ini rsp mtu_i mtu_r = true -> wf_link_b ini rsp mtu_i mtu_r = true.
Proof. exact wf_setup_implies_link. Qed.
Print Assumptions C20_property_ranges_are_links.

(* Multiplexer.acceptable_frame_size, compiled from the source on every run, is the test
   the model uses *)
Theorem C20_acceptable_matches_source : forall n m, src_acceptable n m = acceptable n m.
Proof. exact src_acceptable_ok. Qed.
Print Assumptions C20_acceptable_matches_source.

(* every data link the code lets come up satisfies the hypothesis of the theorems below:
   both acceptance tests passed (responder on the PN command, initiator on the PN response),
   the configured credit counts are 1..7 and the configured frame sizes fit the PN field *)
Theorem C20_accepted_links_satisfy_hypotheses : forall ini rsp mtu_i mtu_r,
  credits_ok_b ini = true -> credits_ok_b rsp = true ->
  0 <= pn_mfs ini < 65536 -> 0 <= pn_mfs rsp < 65536 ->
  src_acceptable (pn_mfs (pn_wire ini)) mtu_i = true ->
  src_acceptable (pn_mfs (pn_wire rsp)) mtu_r = true ->
  wf_link_b ini rsp mtu_i mtu_r = true.
Proof. exact accepted_links_wf. Qed.
Print Assumptions C20_accepted_links_satisfy_hypotheses.

(* and no other: the model's outcome of the negotiation is "up" exactly when both tests pass *)
Theorem C20_negotiation_up_iff_accepted : forall ini rsp mtu_i mtu_r,
  pn_negotiate ini rsp mtu_i mtu_r = 2 <->
  src_acceptable (pn_mfs (pn_wire ini)) mtu_i = true /\ src_acceptable (pn_mfs (pn_wire rsp)) mtu_r = true.
Proof. exact pn_negotiate_up. Qed.
Print Assumptions C20_negotiation_up_iff_accepted.

(* ---------- one data link ----------
   For every such link and EVERY schedule of writes (any sizes, any bytes) and single-frame
   deliveries in both directions: *)

(* bytes received ++ bytes in flight ++ bytes not yet sent = bytes written, in order,
   in both directions *)
Theorem C20_stream_exact : forall ini rsp mtu_i mtu_r ls,
  wf_link_b ini rsp mtu_i mtu_r = true ->
  let s := Rfcomm.run P (setup ini rsp mtu_i mtu_r) ls in
  s_rcv_b s ++ flight_data (s_ab s) ++ d_tx_buf (s_a s) = writes_a ls /\
  s_rcv_a s ++ flight_data (s_ba s) ++ d_tx_buf (s_b s) = writes_b ls.
Proof. intros ini rsp mtu_i mtu_r ls H. exact (stream_exact P ini rsp mtu_i mtu_r C20_rfcomm_params_wf H ls). Qed.
Print Assumptions C20_stream_exact.

(* no frame carries more information bytes than the receiver's maximum frame size, nor
   than its L2CAP MTU minus the 5-byte frame envelope; a credit-bearing frame has a
   credit byte in 1..255 *)
Theorem C20_payload_le_max : forall ini rsp mtu_i mtu_r ls,
  wf_link_b ini rsp mtu_i mtu_r = true ->
  let s := Rfcomm.run P (setup ini rsp mtu_i mtu_r) ls in
  Forall (fun f => Z.of_nat (List.length (f_info f)) <= Z.min (pn_mfs rsp) (mtu_r - 5)
                   /\ frame_wf (d_mtu (s_a (setup ini rsp mtu_i mtu_r))) f) (s_ab s) /\
  Forall (fun f => Z.of_nat (List.length (f_info f)) <= Z.min (pn_mfs ini) (mtu_i - 5)
                   /\ frame_wf (d_mtu (s_b (setup ini rsp mtu_i mtu_r))) f) (s_ba s).
Proof. intros ini rsp mtu_i mtu_r ls H. exact (payload_le_max P ini rsp mtu_i mtu_r C20_rfcomm_params_wf H ls). Qed.
Print Assumptions C20_payload_le_max.

(* the credit ledger balances (sender's credits + data frames in flight + credits in
   flight = receiver's count), a sender's count is never negative (data is only sent
   against a credit) and a receiver's count is at least 1 *)
Theorem C20_credit_safe : forall ini rsp mtu_i mtu_r ls,
  wf_link_b ini rsp mtu_i mtu_r = true ->
  let s := Rfcomm.run P (setup ini rsp mtu_i mtu_r) ls in
  d_tx_credits (s_a s) + n_data (s_ab s) + sum_credits (s_ba s) = d_rx_credits (s_b s) /\
  d_tx_credits (s_b s) + n_data (s_ba s) + sum_credits (s_ab s) = d_rx_credits (s_a s) /\
  0 <= d_tx_credits (s_a s) /\ 0 <= d_tx_credits (s_b s) /\
  1 <= d_rx_credits (s_a s) /\ 1 <= d_rx_credits (s_b s).
Proof. intros ini rsp mtu_i mtu_r ls H. exact (credit_safe P ini rsp mtu_i mtu_r C20_rfcomm_params_wf H ls). Qed.
Print Assumptions C20_credit_safe.

(* credit replenishment keeps transfers going: whenever nothing is in flight, nothing
   is waiting to be sent and everything written has reached the peer's sink *)
Theorem C20_progress : forall ini rsp mtu_i mtu_r ls,
  wf_link_b ini rsp mtu_i mtu_r = true ->
  let s := Rfcomm.run P (setup ini rsp mtu_i mtu_r) ls in
  s_ab s = [] -> s_ba s = [] ->
  d_tx_buf (s_a s) = [] /\ d_tx_buf (s_b s) = [] /\
  s_rcv_b s = writes_a ls /\ s_rcv_a s = writes_b ls.
Proof. intros ini rsp mtu_i mtu_r ls H. exact (progress P ini rsp mtu_i mtu_r C20_rfcomm_params_wf H ls). Qed.
Print Assumptions C20_progress.

(* and that point is always reached: after any schedule, a bounded number of deliveries
   alone (no further cooperation of the writers) empties both channels with everything
   written delivered - no deadlock, no endless exchange of credit frames *)
Theorem C20_progress_drains : forall ini rsp mtu_i mtu_r ls,
  wf_link_b ini rsp mtu_i mtu_r = true ->
  exists n,
    let s := Rfcomm.run P (setup ini rsp mtu_i mtu_r) (ls ++ drain_sched n) in
    s_ab s = [] /\ s_ba s = [] /\ s_rcv_b s = writes_a ls /\ s_rcv_a s = writes_b ls.
Proof. intros ini rsp mtu_i mtu_r ls H. exact (drains_reachable P ini rsp mtu_i mtu_r ls C20_rfcomm_params_wf H). Qed.
Print Assumptions C20_progress_drains.

(* no mutual wait: in every reachable state with data queued at either end a delivery is
   enabled - the wire is never idle while somebody still has bytes to send, however much
   both ends write at the same time *)
Theorem C20_no_mutual_wait : forall ini rsp mtu_i mtu_r ls,
  wf_link_b ini rsp mtu_i mtu_r = true ->
  let s := Rfcomm.run P (setup ini rsp mtu_i mtu_r) ls in
  d_tx_buf (s_a s) <> [] \/ d_tx_buf (s_b s) <> [] -> s_ab s <> [] \/ s_ba s <> [].
Proof. intros ini rsp mtu_i mtu_r ls H. exact (no_mutual_wait P ini rsp mtu_i mtu_r ls C20_rfcomm_params_wf H). Qed.
Print Assumptions C20_no_mutual_wait.

(* because the side that owes credits always sends them: process_tx never returns with the
   receive ledger at or below the threshold, whatever its own transmit situation, and every
   credit it adds to the ledger is on the wire (the grant rule itself is pinned to the source
   by C20_needed_matches_source / C20_process_tx_matches_source and the translator's
   "rx_credits_needed = self.rx_credits_needed(); while ...:" shape check) *)
Theorem C20_credits_owed_are_sent : forall d,
  2 <= d_mtu d -> 0 <= d_tx_credits d -> 0 <= d_rx_credits d ->
  let '(d', frs, ok) := process_tx P d in
  p_threshold P < d_rx_credits d' /\ d_rx_credits d' = d_rx_credits d + sum_credits frs.
Proof. intros d. exact (process_tx_grants P d (wf_params_b_ok P C20_rfcomm_params_wf)). Qed.
Print Assumptions C20_credits_owed_are_sent.

(* the seeded rule "withhold the credits owed while out of tx credits with data queued"
   (C20-e) deadlocks simultaneous bulk transfers: both channels empty, both buffers not *)
Theorem C20_seeded_withhold_deadlocks :
  let s := run_seeded (mkParams 32 16) (setup (mkPn 23 1) (mkPn 23 1) 48 48) withhold_witness in
  s_ab s = [] /\ s_ba s = [] /\ d_tx_buf (s_a s) <> [] /\ d_tx_buf (s_b s) <> [].
Proof. exact seeded_withhold_deadlocks. Qed.
Print Assumptions C20_seeded_withhold_deadlocks.

(* the transmit loop never runs out of the fuel the model gives it *)
Theorem C20_model_fuel : forall ini rsp mtu_i mtu_r ls,
  wf_link_b ini rsp mtu_i mtu_r = true -> s_ok (Rfcomm.run P (setup ini rsp mtu_i mtu_r) ls) = true.
Proof. intros ini rsp mtu_i mtu_r ls H. exact (fuel_ok P ini rsp mtu_i mtu_r C20_rfcomm_params_wf H ls). Qed.
Print Assumptions C20_model_fuel.

(* ---------- several data links on one multiplexer ---------- *)
(* whatever the other links do and however the shared channel is scheduled, the
   projection of the multiplexer run on one DLCI is a run of the single-link system *)
Theorem C20_dlcs_independent : forall d ls s x,
  proj d s = Some x -> proj d (mrun P s ls) = Some (Rfcomm.run P x (proj_sched P d s ls)).
Proof. intros d ls s x. exact (dlcs_independent P d ls s x). Qed.
Print Assumptions C20_dlcs_independent.

(* hence each link of a multiplexer set up with any number of links has the
   single-link guarantees, for the bytes written on THAT link *)
Theorem C20_mux_links : forall cfg mtu_i mtu_r d ini rsp ls,
  wf_link_b ini rsp mtu_i mtu_r = true -> cfg_get d cfg = Some (ini, rsp) ->
  exists x, proj d (mrun P (msetup cfg mtu_i mtu_r) ls) = Some x /\
    let sl := proj_sched P d (msetup cfg mtu_i mtu_r) ls in
    s_rcv_b x ++ flight_data (s_ab x) ++ d_tx_buf (s_a x) = writes_a sl /\
    s_rcv_a x ++ flight_data (s_ba x) ++ d_tx_buf (s_b x) = writes_b sl /\
    s_ok x = true /\
    d_tx_credits (s_a x) + n_data (s_ab x) + sum_credits (s_ba x) = d_rx_credits (s_b x) /\
    d_tx_credits (s_b x) + n_data (s_ba x) + sum_credits (s_ab x) = d_rx_credits (s_a x) /\
    (s_ab x = [] -> s_ba x = [] -> s_rcv_b x = writes_a sl /\ s_rcv_a x = writes_b sl).
Proof.
  intros cfg mtu_i mtu_r d ini rsp ls H Hc.
  exact (mux_stream_exact P cfg mtu_i mtu_r d ini rsp ls C20_rfcomm_params_wf H Hc).
Qed.
Print Assumptions C20_mux_links.

Theorem C20_mux_link_writes : forall d ls s,
  writes_a (proj_sched P d s ls) = mwrites_a d ls /\ writes_b (proj_sched P d s ls) = mwrites_b d ls.
Proof. intros d ls s. exact (proj_sched_writes P d ls s). Qed.
Print Assumptions C20_mux_link_writes.

(* ---------- set-up and teardown ----------
   every schedule of connect / open (accepted or refused) / data-link disconnect by
   either end (also crossing) / multiplexer disconnect / orderly channel close /
   deliveries: whenever nothing is in flight both ends are in matching settled states,
   and from every reachable state delivering what is in flight gets there *)
Theorem C20_setup_teardown_agree : forall ls,
  let s := sm_run sm_init ls in quiescent s = true -> agree s = true.
Proof. exact setup_teardown_agree. Qed.
Print Assumptions C20_setup_teardown_agree.

Theorem C20_setup_teardown_settles : forall ls,
  let s' := drain 16 (sm_run sm_init ls) in quiescent s' = true /\ agree s' = true.
Proof. exact setup_teardown_settles. Qed.
Print Assumptions C20_setup_teardown_settles.

(* fix D20d is needed: with the old DLC.on_disc_frame the same schedule ends in a mismatch *)
Theorem C20_d20d_unfixed_refuted :
  let s := sm_run_unfixed sm_init d20d_witness in quiescent s = true /\ agree s = false.
Proof. exact d20d_unfixed_refuted. Qed.
Print Assumptions C20_d20d_unfixed_refuted.

(* ---------- set-up and teardown of several data links on one multiplexer ----------
   two accepted channels and one refused channel, one open_dlc in flight at a time (the
   multiplexer's single OPENING state / open_result, as in the code), every schedule of
   connect / open(d) / disconnect(d) by either end / multiplexer disconnect / orderly
   close / deliveries, plus opens whose proposed frame size the responder refuses (5 009
   reachable states, complete evaluation + closure lemma):
   no open_dlc is ever resolved with the wrong outcome (another link's DLC, refused
   although accepted, ...), and whenever nothing is in flight both ends' DLC tables and
   states match and no open_dlc is left pending *)
Theorem C20_multi_setup_teardown : forall ls,
  let s := sm2_run sm2_init ls in
  t_bad s = false /\ (quiescent2 s = true -> agree2 s = true).
Proof. exact multi_setup_teardown. Qed.
Print Assumptions C20_multi_setup_teardown.

Theorem C20_multi_setup_teardown_settles : forall ls,
  let s' := drain2 24 (sm2_run sm2_init ls) in quiescent2 s' = true /\ agree2 s' = true.
Proof. exact multi_setup_teardown_settles. Qed.
Print Assumptions C20_multi_setup_teardown_settles.

(* an open in flight completes whatever is going on for the OTHER links: after any
   schedule, if open_dlc(d) is pending and nobody is closing link d itself, delivering
   what is in flight leaves link d CONNECTED on both ends (absent on both for the refused
   channel) and the multiplexer CONNECTED again *)
Theorem C20_open_in_flight_completes : forall ls, open_completes (sm2_run sm2_init ls) = true.
Proof. exact open_in_flight_completes. Qed.
Print Assumptions C20_open_in_flight_completes.

(* the "un-stick an OPENING multiplexer when any link closes" change is refuted *)
Theorem C20_seeded_unstick_refuted :
  let s := sm2_run_seeded sm2_init seeded_witness in
  quiescent2 s = true /\ agree2 s = false /\ t_bad s = true.
Proof. exact seeded_unstick_refuted. Qed.
Print Assumptions C20_seeded_unstick_refuted.

(* known finding D20j: the environment assumption "only the initiator disconnects the
   multiplexer" is needed *)
Theorem C20_responder_muxdisc_refuted :
  let s := sm2_runx sm2_init d20j_witness in
  quiescent2 s = true /\ agree2 s = false /\
  e_pend (t_a s) = Some 0%nat /\ slot (t_a s) 0 = None /\ slot (t_b s) 0 = Some DConnecting.
Proof. exact responder_muxdisc_refuted. Qed.
Print Assumptions C20_responder_muxdisc_refuted.

(* outside the property's range: a responder CONFIGURED with an unacceptable frame size *)
Theorem C20_responder_misconfigured_refuted :
  let s := sm2_runx sm2_init misconfigured_witness in
  quiescent2 s = true /\ agree2 s = false /\
  e_pend (t_a s) = None /\ slot (t_a s) 0 = None /\ slot (t_b s) 0 = Some DConnecting.
Proof. exact responder_misconfigured_refuted. Qed.
Print Assumptions C20_responder_misconfigured_refuted.

(* ---------- the models are what the source does (re-checked on every run) ----------
   Gen/C20MuxEff.v is compiled from the source of the Multiplexer / DLC frame handlers and
   local operations; interpreting it gives, for EVERY role, multiplexer state, DLC table
   entry, other entry, pending open and frame, exactly Model/RfcommSm2.v's transition:
   new states, frames sent (MSC frames apart), open_result resolution *)
Theorem C20_mux_handlers_match_source : all_frame_cases_ok = true.
Proof. exact frame_cases_match_source. Qed.
Print Assumptions C20_mux_handlers_match_source.

Theorem C20_mux_operations_match_source : all_op_cases_ok = true.
Proof. exact op_cases_match_source. Qed.
Print Assumptions C20_mux_operations_match_source.

(* MSC frames, which the set-up / teardown models leave out, change no state *)
Theorem C20_msc_frames_harmless : all_msc_cases_ok = true.
Proof. exact msc_cases_harmless. Qed.
Print Assumptions C20_msc_frames_harmless.

(* Gen/C20DataPath.v is compiled from the source of DLC.rx_credits_needed / process_tx /
   on_uih_frame / write; for ALL inputs it is Model/Rfcomm.v *)
Theorem C20_needed_matches_source : forall d,
  src_needed (p_max_credits P) (p_threshold P) (d_rx_credits d) = needed P d.
Proof. intros d. exact (src_needed_ok P d). Qed.
Print Assumptions C20_needed_matches_source.

Theorem C20_process_tx_matches_source : forall d need drained,
  match ptx_iter d need with
  | None => src_ptx_cond (d_tx_credits d) need (d_tx_buf d) = false
  | Some (d', fr) =>
      src_ptx_cond (d_tx_credits d) need (d_tx_buf d) = true /\
      src_ptx_body (d_mtu d) (d_tx_credits d) (d_rx_credits d) need (d_tx_buf d) drained =
        (d_tx_credits d', d_rx_credits d', d_tx_buf d', 0, [fr],
         if is_nil (d_tx_buf d') then true else drained) /\
      d_mtu d' = d_mtu d
  end.
Proof. exact src_ptx_iter_ok. Qed.
Print Assumptions C20_process_tx_matches_source.

Theorem C20_on_uih_matches_source : forall d fr q,
  dlc_on_uih P d fr =
  let '(tx1, rx1, q', delivered) :=
    src_on_uih (f_pf fr) (f_info fr) (d_tx_credits d) (d_rx_credits d) true q in
  let '(d2, frs, ok) := process_tx P (mkDlc (d_mtu d) tx1 rx1 (d_tx_buf d)) in
  (d2, frs, delivered, ok).
Proof. intros d fr q. exact (src_on_uih_ok P d fr q). Qed.
Print Assumptions C20_on_uih_matches_source.

Theorem C20_write_matches_source : forall d data,
  dlc_write P d data =
  process_tx P (mkDlc (d_mtu d) (d_tx_credits d) (d_rx_credits d) (fst (src_write (d_tx_buf d) data true))).
Proof. intros d data. exact (src_write_model P d data). Qed.
Print Assumptions C20_write_matches_source.

(* fix D20i: "drained is set iff nothing is buffered" is kept by write and by every
   iteration of the transmit loop *)
Theorem C20_drained_tracks_buffer : forall buf data drained,
  drained = is_nil buf -> snd (src_write buf data drained) = is_nil (buf ++ data).
Proof. exact drained_inv_write. Qed.
Print Assumptions C20_drained_tracks_buffer.

Theorem C20_drained_tracks_buffer_loop : forall d need drained d' fr,
  ptx_iter d need = Some (d', fr) -> drained = is_nil (d_tx_buf d) ->
  let '(_, _, buf', _, _, dr') :=
    src_ptx_body (d_mtu d) (d_tx_credits d) (d_rx_credits d) need (d_tx_buf d) drained in
  dr' = is_nil buf'.
Proof. exact drained_inv_iter. Qed.
Print Assumptions C20_drained_tracks_buffer_loop.

(* ---------- a sink that is set late ----------
   data that arrives before a sink is set waits in a bounded queue: the stream handed to
   the sink is exact as long as at most DEFAULT_RX_QUEUE_SIZE data frames arrived before;
   with one frame more the oldest data is lost (known finding D20h) *)
Theorem C20_late_sink_exact : forall before after,
  Z.of_nat (List.length before) <= rx_queue_size ->
  q_out (rxq_recv rx_queue_size (rxq_set_sink (rxq_recv rx_queue_size rxq_init before)) after)
  = List.concat before ++ List.concat after.
Proof. exact (late_sink_exact rx_queue_size). Qed.
Print Assumptions C20_late_sink_exact.

Theorem C20_late_sink_overflow_refuted :
  q_out (rxq_set_sink (rxq_recv 32 rxq_init (numbered 33))) = List.concat (tl (numbered 33))
  /\ q_out (rxq_set_sink (rxq_recv 32 rxq_init (numbered 33))) <> List.concat (numbered 33).
Proof. exact late_sink_overflow_refuted. Qed.
Print Assumptions C20_late_sink_overflow_refuted.

Theorem C20_rx_queue_size_is_32 : rx_queue_size = 32.
Proof. vm_compute. reflexivity. Qed.
Print Assumptions C20_rx_queue_size_is_32.

(* the no-sink branch of on_uih_frame is that queue, with the same ledger updates *)
Theorem C20_on_uih_nosink_matches_source : forall pf info tx rx q,
  let '(tx1, rx1, q', delivered) := src_on_uih pf info tx rx false q in
  let '(tx2, rx2, _, _) := src_on_uih pf info tx rx true q in
  tx1 = tx2 /\ rx1 = rx2 /\ delivered = [] /\
  q' = (let data := if pf then tl info else info in
        if is_nil data then q else dq_append rx_queue_size q data).
Proof. exact src_on_uih_nosink. Qed.
Print Assumptions C20_on_uih_nosink_matches_source.

(* ---------- HFP service-level connection ----------
   for EVERY HF feature mask, AG feature mask, HF indicator list, codec list, call-hold
   set, set of AG-supported / AG-disabled HF indicators, and every non-empty list of AG
   indicators with non-empty value sets: the initialisation completes (every command
   answered OK, the AG emits slc_complete exactly once, indicator reporting is on) and
   both ends hold the same negotiated values *)
Theorem C20_slc_completes_negotiated_equal : forall (H : hf_cfg) (C : ag_cfg),
  wf_cfg_b C = true ->
  exists h a,
    slc H C = Done h a (expected_sent H C) /\
    hf_ag_features h = ac_features C /\
    hf_ag_indicators h = expected_inds 0 (ac_indicators C) /\
    hf_chld h = (if both_3w H C then ac_chld C else []) /\
    map (fun x : Z * bool * bool => fst (fst x)) (hf_ind h) = hc_indicators H /\
    (forall i s e, In (i, s, e) (hf_ind h) ->
       if both_hi H C
       then s = HfpSlc.zmem i (ac_hf_indicators C) /\
            e = HfpSlc.zmem i (ac_hf_indicators C) && negb (HfpSlc.zmem i (ac_disabled C))
       else s = false /\ e = false) /\
    ag_hf_features a = hc_features H /\
    ag_codecs a = (if both_cn H C then hc_codecs H else []) /\
    ag_hf_ind a = expected_ag_ind H C /\
    ag_report a = true /\
    ag_slc_events a = 1.
Proof. exact slc_result. Qed.
Print Assumptions C20_slc_completes_negotiated_equal.

(* the AG indicators the HF ends up with: names, status and value sets of the AG's own
   list, indexed by position *)
Theorem C20_slc_ag_indicators : forall (C : ag_cfg),
  wf_cfg_b C = true ->
  Forall2 same_indicator (expected_inds 0 (ac_indicators C)) (ac_indicators C) /\
  map hi_index (expected_inds 0 (ac_indicators C)) = zrange 0 (List.length (ac_indicators C)).
Proof. intros C H. exact (expected_inds_spec (ac_indicators C) 0 (wf_cfg_inds C H)). Qed.
Print Assumptions C20_slc_ag_indicators.

(* after the SLC: any sequence of AG indicator updates (+CIEV) and codec proposals (+BCS)
   leaves the HF's copy of the AG indicator values equal to the AG's, and the same
   active codec on both ends *)
Theorem C20_live_indicators_and_codec_agree : forall (H : hf_cfg) (C : ag_cfg),
  wf_cfg_b C = true ->
  forall ops, exists s,
    live_run H C ops = Some s /\
    lv_hf_status s = lv_ag_status s /\ lv_hf_codec s = lv_ag_codec s.
Proof. exact live_agree. Qed.
Print Assumptions C20_live_indicators_and_codec_agree.

(* ---------- the AT readers are independent of the RFCOMM segmentation ----------
   HfProtocol._read_at (responses, <CR><LF>) and AgProtocol._read_at (commands, <CR>) are the
   sinks of the data link.  For every byte string and EVERY way of cutting it into chunks
   (frame sizes, credit bytes, batching), the lines handed to the parser, in order, and the
   bytes left in read_buffer are those of one call with the whole string *)
Theorem C20_hf_reader_chunking_irrelevant : forall chunks,
  feed_chunks hf_reader [] chunks = feed hf_reader [] (List.concat chunks).
Proof. intros chunks. exact (chunking_irrelevant hf_reader hf_delim_nonempty chunks [] eq_refl). Qed.
Print Assumptions C20_hf_reader_chunking_irrelevant.

Theorem C20_ag_reader_chunking_irrelevant : forall chunks,
  feed_chunks ag_reader [] chunks = feed ag_reader [] (List.concat chunks).
Proof. intros chunks. exact (chunking_irrelevant ag_reader ag_delim_nonempty chunks [] eq_refl). Qed.
Print Assumptions C20_ag_reader_chunking_irrelevant.

(* feed fusion, from any buffer content *)
Theorem C20_reader_feed_fusion : forall buf b c,
  feed hf_reader buf (b ++ c) =
    (let '(l1, r1) := feed hf_reader buf b in let '(l2, r2) := feed hf_reader r1 c in (l1 ++ l2, r2)) /\
  feed ag_reader buf (b ++ c) =
    (let '(l1, r1) := feed ag_reader buf b in let '(l2, r2) := feed ag_reader r1 c in (l1 ++ l2, r2)).
Proof.
  intros buf b c. split;
    [exact (feed_fusion hf_reader hf_delim_nonempty buf b c)|exact (feed_fusion ag_reader ag_delim_nonempty buf b c)].
Qed.
Print Assumptions C20_reader_feed_fusion.

(* the framing statements of the two readers in the source (pinned statement by statement by
   the translator on every run) have the delimiter, widths and empty-line clause of the
   readers the theorems above are about *)
Theorem C20_at_readers_match_source :
  src_hf_reader_shape = shape_of hf_reader /\ src_ag_reader_shape = shape_of ag_reader.
Proof. vm_compute. split; reflexivity. Qed.
Print Assumptions C20_at_readers_match_source.

(* the seeded "nothing to parse unless this chunk contains a delimiter" shortcut is refuted:
   <CR><LF>OK<CR> | <LF> *)
Theorem C20_seeded_reader_refuted :
  feed_chunks_seeded hf_reader [] [[13; 10; 79; 75; 13]; [10]] = ([], [79; 75; 13; 10]) /\
  feed_chunks hf_reader [] [[13; 10; 79; 75; 13]; [10]] = ([[79; 75]], []) /\
  feed hf_reader [] [13; 10; 79; 75; 13; 10] = ([[79; 75]], []).
Proof. exact seeded_reader_refuted. Qed.
Print Assumptions C20_seeded_reader_refuted.

(* ---------- AT final result codes (regenerated skeletons) ---------- *)
(* re-checked on every run: for every handler of AgProtocol, every path through the
   per-line body of _read_at that dispatches to it passes the exactly-one check *)
Theorem C20_ag_dispatch_wf :
  forallb (fun h => line_ok (ag_line (h_body h))) ag_handlers = true.
Proof. vm_compute. reflexivity. Qed.
Print Assumptions C20_ag_dispatch_wf.

(* the lines that select no handler (unknown command) or fail to parse: the same body
   with a handler that is never called *)
Theorem C20_ag_dispatch_other_wf :
  forallb (fun o => Nat.eqb (fst o) 1 && match snd o with Norm | Contd => true | _ => false end)
          (filter (fun o => negb (Nat.eqb (fst o) 0)) (AtSkeleton.run (ag_line Skip) 0)) = true
  /\ ag_flag_discipline = true.
Proof. vm_compute. split; reflexivity. Qed.
Print Assumptions C20_ag_dispatch_other_wf.

(* hence: every path (any branch, any loop count, an exception at any point the
   translator cannot exclude, a wrong number of parameters) through the handling of a
   command line writes exactly one final result code and ends normally *)
Theorem C20_ag_exactly_one_final : forall h, In h ag_handlers ->
  forall n st, exec (ag_line (h_body h)) 0 n st -> n = 1%nat /\ (st = Norm \/ st = Contd).
Proof. exact (table_exactly_one ag_line ag_handlers C20_ag_dispatch_wf). Qed.
Print Assumptions C20_ag_exactly_one_final.

(* ---------- non-vacuity ---------- *)
Example C20_nonvacuous_data :
  let s := Rfcomm.run P (setup (mkPn 23 1) (mkPn 32767 7) 48 65535)
               [WriteA (repeat 7 100); WriteB [1; 2; 3]; Rfcomm.DeliverAB; Rfcomm.DeliverBA; Rfcomm.DeliverBA; Rfcomm.DeliverAB;
                Rfcomm.DeliverAB; Rfcomm.DeliverBA; Rfcomm.DeliverAB; Rfcomm.DeliverBA] in
  wf_setup_b (mkPn 23 1) (mkPn 32767 7) 48 65535 = true /\ wf_link_b (mkPn 23 1) (mkPn 32767 7) 28 65535 = true /\
  s_rcv_b s = repeat 7 100 /\ s_rcv_a s = [1; 2; 3] /\ s_ab s = [] /\ s_ba s = [].
Proof. vm_compute. repeat split. Qed.

Example C20_nonvacuous_slc :
  let C := mkAgCfg 1537 [mkAgInd 1 [0; 1] 0; mkAgInd 4 [0; 2; 5] 2] [2; 1] [3; 1] [2] in
  wf_cfg_b C = true /\
  slc_obs (mkHfCfg 386 [1; 2] [1; 2]) C =
    (true, [0; 1; 2; 3; 4; 5; 6; 7; 8],
     Some (1537, [(1, [0; 1], 0, 0); (4, [0; 2; 5], 2, 1)], [3; 1], [(1, true, true); (2, true, false)],
           (386, [1; 2], [(2, false); (1, true)], true, 1))).
Proof. vm_compute. split; reflexivity. Qed.

Example C20_nonvacuous_skeleton :
  (List.length ag_handlers >= 20)%nat /\ ag_uses_guard = true.
Proof. vm_compute. split; [repeat constructor|reflexivity]. Qed.
