(* Property C11: GATT attribute permissions gate every read and write path.
   Statements only.  Same model as C10 (Model/AttServer.v); Attribute.read_value /
   write_value are modelled exactly as written, i.e. the READABLE / WRITEABLE bits are not
   consulted (known finding D11a): the theorems carry the hypothesis that excludes exactly
   that class of attributes, and the [_refuted] theorems show it is needed. *)
From Coq Require Import ZArith List Bool.
From BV Require Import Gen.C10Tables Gen.C10Skeleton Model.AttServer Model.AttSkeleton Proofs.AttServer.
Import ListNotations.
Open Scope Z_scope.

(* ..._matches_source: the permission checks (Attribute.read_value / write_value) and every
   function that calls them read today exactly as in the frozen reading the model was written
   from (see Props/C10.v); regenerated and re-checked on every run. *)
Theorem C11_src_Attribute_read_value : src_matches k_Attribute_read_value = true.
Proof. vm_compute. reflexivity. Qed.
Print Assumptions C11_src_Attribute_read_value.

Theorem C11_src_Attribute_write_value : src_matches k_Attribute_write_value = true.
Proof. vm_compute. reflexivity. Qed.
Print Assumptions C11_src_Attribute_write_value.

Theorem C11_src_all_modelled_functions : forallb src_matches skeleton_keys = true.
Proof. vm_compute. reflexivity. Qed.
Print Assumptions C11_src_all_modelled_functions.

(* read_gated (non-interference).  Two server states that differ at most in the values of
   attributes the bearer may not read ([attr_sim]: same handle, type, permissions, group end;
   the value may differ unless the attribute is READABLE, the link meets its encryption /
   authentication requirement, no authorisation is required and its read callback does not
   refuse) answer every PDU -- every opcode, in particular Read, Read Blob, Read By Type,
   Read By Group Type, Read Multiple, Read Multiple Variable and Find By Type Value, with any
   parameters -- with the same PDUs.  Hypothesis: no attribute of the database is a D11a
   witness (not READABLE yet served because no link requirement refuses it). *)
Theorem C11_read_gated : forall st1 st2 opc ps,
  st_sim st1 st2 -> d11a_free_read (s_b st1) (s_db st1) = true ->
  option_map snd (rx st1 opc ps) = option_map snd (rx st2 opc ps).
Proof. exact rx_read_gated. Qed.
Print Assumptions C11_read_gated.

(* the same over whole histories, including writes (which keep the two databases similar),
   MTU exchanges, notifications and indications of the current value *)
Theorem C11_read_gated_history : forall ops st1 st2,
  st_sim st1 st2 -> d11a_free_read (s_b st1) (s_db st1) = true ->
  option_map snd (run st1 ops) = option_map snd (run st2 ops).
Proof. exact run_sim. Qed.
Print Assumptions C11_read_gated_history.

(* Several bearers on one server (Model: [msrv] = database + max_mtu + one [bst] per bearer
   holding its ATT_MTU, security attributes, subscriptions and indication state; a stimulus
   on bearer i is [step] on the database and the i-th [bst]; nothing else is shared).
   bearer_locality: the PDUs sent in reaction to a stimulus on bearer i, the resulting database
   and bearer i's resulting state depend only on the database, max_mtu and bearer i's own
   state -- not on which other bearers exist, nor on anything they did before. *)
Theorem C11_bearer_locality : forall m1 m2 i o,
  m_db m1 = m_db m2 -> m_max_mtu m1 = m_max_mtu m2 ->
  nth_error (m_bs m1) i = nth_error (m_bs m2) i ->
  match mstep m1 i o, mstep m2 i o with
  | Some (n1, o1), Some (n2, o2) =>
      o1 = o2 /\ m_db n1 = m_db n2 /\ nth_error (m_bs n1) i = nth_error (m_bs n2) i
  | None, None => True
  | _, _ => False
  end.
Proof. exact mstep_local. Qed.
Print Assumptions C11_bearer_locality.

(* a stimulus on bearer j leaves every other bearer's state untouched *)
Theorem C11_other_bearers_untouched : forall m j o n out i,
  mstep m j o = Some (n, out) -> i <> j -> nth_error (m_bs n) i = nth_error (m_bs m) i.
Proof. exact mstep_frame. Qed.
Print Assumptions C11_other_bearers_untouched.

(* read_gated over histories with several bearers.  Two servers with the same bearers whose
   databases differ only in values the observer on bearer i (security attributes b0) may not
   read: over EVERY history of stimuli (received PDUs of any opcode, notify / indicate calls,
   confirmations) on ANY bearers -- the other bearers may be entitled to read and write what
   the observer may not, and act arbitrarily in between -- bearer i is sent exactly the same
   PDUs.  ([msim]: databases [attr_sim]-similar for b0 and free of D11a witnesses, same
   max_mtu, same bearers with the same ATT_MTU / security / subscriptions, bearer i in the
   same state.) *)
Theorem C11_read_gated_several_bearers : forall ops i b0 m1 m2,
  msim i b0 m1 m2 ->
  option_map (fun r => outs_of i (snd r)) (mrun m1 ops) =
  option_map (fun r => outs_of i (snd r)) (mrun m2 ops).
Proof. exact mrun_sim. Qed.
Print Assumptions C11_read_gated_several_bearers.

(* D11a (known finding): without the hypothesis a WRITEABLE-only attribute is disclosed *)
Theorem C11_read_gated_refuted :
  exists b db1 db2 opc ps,
    Forall2 (attr_sim b) db1 db2 /\
    option_map snd (rx (init db1 b 517) opc ps) <> option_map snd (rx (init db2 b 517) opc ps).
Proof. exact read_gated_refuted. Qed.
Print Assumptions C11_read_gated_refuted.

(* write_gated.  A Write Request / Write Command for an attribute the bearer may not write
   (not WRITEABLE, or the link does not meet the write requirement, or the write function
   refuses with ATT_Error or raises anything else) leaves the database and the subscription
   state unchanged; the request is answered with an Error Response (naming the handle, or
   handle 0 / UNLIKELY_ERROR when the write function raised), the command with nothing.  Hypothesis: the attribute is not a D11a
   witness (not WRITEABLE yet accepted because no link requirement refuses it). *)
Theorem C11_write_gated : forall st x y v a,
  find_attr (x + 256 * y) (s_db st) = Some a ->
  may_write (s_b st) a = false -> d11a_write_witness (s_b st) a = false ->
  (exists st' hh c, rx st 18 (x :: y :: v) = Some (st', [err_rsp 18 hh c]) /\
                    s_db st' = s_db st /\ s_subs st' = s_subs st) /\
  (exists st', rx st 82 (x :: y :: v) = Some (st', []) /\ s_db st' = s_db st /\ s_subs st' = s_subs st).
Proof. exact write_gated_rx. Qed.
Print Assumptions C11_write_gated.

Theorem C11_write_gated_refuted :
  exists b db h v a,
    find_attr h db = Some a /\ may_write b a = false /\ fst (h_write_cmd b db [] h v) <> db.
Proof. exact write_gated_refuted. Qed.
Print Assumptions C11_write_gated_refuted.

(* a Write Request answered with anything but a Write Response changed nothing (no
   hypothesis), and no PDU other than Write Request / Write Command changes the database *)
Theorem C11_write_error_unchanged : forall b db subs op h v,
  snd (h_write b db subs op h v) <> [OP_WRITE_RSP] -> fst (h_write b db subs op h v) = (db, subs).
Proof. exact write_error_unchanged. Qed.
Print Assumptions C11_write_error_unchanged.

Theorem C11_only_writes_change_db : forall st opc ps st' out,
  opc <> 18 -> opc <> 82 -> rx st opc ps = Some (st', out) ->
  s_db st' = s_db st /\ s_subs st' = s_subs st.
Proof. exact rx_db_unchanged. Qed.
Print Assumptions C11_only_writes_change_db.

(* refusal_code.  The Error Response names the request, the handle, and the first failing
   requirement in the order encryption (0x0F), authentication (0x05), authorisation (0x08):
   Read Request and Read Blob Request ... *)
Theorem C11_refusal_code_read : forall st x y a c,
  find_attr (x + 256 * y) (s_db st) = Some a -> read_refusal (s_b st) (a_perm a) = Some c ->
  rx st 10 [x; y] = Some (st, [err_rsp 10 (x + 256 * y) c]) /\
  forall o1 o2, rx st 12 [x; y; o1; o2] = Some (st, [err_rsp 12 (x + 256 * y) c]).
Proof. exact read_refusal_rx. Qed.
Print Assumptions C11_refusal_code_read.

(* ... Write Request (and the Write Command is silently dropped) *)
Theorem C11_refusal_code_write : forall st x y v a c,
  find_attr (x + 256 * y) (s_db st) = Some a -> write_refusal (s_b st) (a_perm a) = Some c ->
  len v <= 512 ->
  rx st 18 (x :: y :: v) = Some (set_dbs st (s_db st, s_subs st), [err_rsp 18 (x + 256 * y) c]) /\
  rx st 82 (x :: y :: v) = Some (set_dbs st (s_db st, s_subs st), []).
Proof. exact write_refusal_rx. Qed.
Print Assumptions C11_refusal_code_write.

(* Non-vacuity: a database satisfying the hypotheses in which a protected value differs, and
   the ranged / multi-handle reads that reach it. *)
Example C11_nonvacuous :
  let b := mkBearer 23 false false false in
  let db v := [mkAttr 1 [0; 40] 1 [170; 170] 5 0 0 0;
               mkAttr 2 [3; 40] 1 [10; 3; 0; 17; 17] 3 0 0 0; mkAttr 3 [17; 17] 1 [1; 2; 3] 3 0 0 0;
               mkAttr 4 [3; 40] 1 [10; 5; 0; 34; 34] 5 0 0 0; mkAttr 5 [34; 34] 5 v 5 0 0 0] in
  d11a_free_read b (db [7]) = true /\
  option_map snd (rx (init (db [7]) b 517) 8 [1; 0; 255; 255; 34; 34]) = Some [[1; 8; 5; 0; 15]] /\
  option_map snd (rx (init (db [7]) b 517) 6 [1; 0; 255; 255; 34; 34; 7]) = Some [[1; 6; 1; 0; 10]] /\
  option_map snd (rx (init (db [7]) b 517) 32 [3; 0; 5; 0]) =
  option_map snd (rx (init (db [9]) b 517) 32 [3; 0; 5; 0]) /\
  read_refusal b 5 = Some 15 /\ write_refusal (mkBearer 23 true false false) 42 = Some 5 /\
  (* several bearers: an authorised peer (bearer 0) reads the protected long value, the peer on
     the plain link (bearer 1) is refused whatever the offset, before and after *)
  (let long := mkb 40 48 1 in
   let m := minit [mkAttr 1 [0; 40] 1 [170; 170] 3 0 0 0; mkAttr 2 [3; 40] 1 [2; 3; 0; 34; 34] 3 0 0 0;
                   mkAttr 3 [34; 34] 5 long 3 0 0 0] 517
                  [mkBearer 23 true true false; b] in
   option_map (fun r => map (fun io => (fst io, map (firstn 2) (snd io))) (snd r))
     (mrun m [(1%nat, Rx 12 [3; 0; 22; 0]); (0%nat, Rx 10 [3; 0]); (1%nat, Rx 12 [3; 0; 22; 0]);
              (0%nat, Rx 12 [3; 0; 22; 0]); (1%nat, Rx 10 [3; 0])]) =
   Some [(1%nat, [[1; 12]]); (0%nat, [[11; 48]]); (1%nat, [[1; 12]]); (0%nat, [[13; 70]]); (1%nat, [[1; 10]])]).
Proof. vm_compute. repeat split. Qed.
