(* Property C16: teardown is complete - no stale connection state, no waiter left hanging.
   Statements only; every proof is [exact] of a lemma of Proofs/Teardown.v (or a closed
   computation over the regenerated table).  The model (Model/Teardown.v) is one Bumble
   stack: controller table, the two HCI FIFOs, Host / Device tables, every other
   connection-keyed registry, and the awaited calls with their release rules.  A history is
   any list of operations (establish, disconnect by the peer, disconnect locally, transport
   loss, procedure start / normal completion, registry insert / remove, deliveries on the
   two FIFOs in any interleaving, task resumption, timer tick); every prefix of a history is
   a history, so "for every history" is also "for every cut point". *)
From Coq Require Import ZArith List Bool String.
From BV Require Import Model.Teardown Model.TeardownShapes Proofs.Teardown Gen.C16Cleanup Gen.C16Shapes.
Import ListNotations.
Open Scope Z_scope.

(* --- per-run obligations over the regenerated registry list ------------------------------ *)

(* Every dictionary keyed by connection handle / Connection / bearer that the presence
   translator finds in the code is known to the model with the same key kind, is removed by
   its class's disconnection hook in the code, and that hook is a step of the model's
   fan-out chain.  A registry added to the code without a cleanup makes this false. *)
Theorem C16_every_registry_has_a_cleanup :
  cleanup_obligation model_registries found_registries = true.
Proof. vm_compute. reflexivity. Qed.
Print Assumptions C16_every_registry_has_a_cleanup.

(* Every registry is emptied by the method the model says: the step of the chain that the
   removing method stands for is the step the model's table gives the registry. *)
Theorem C16_registry_hooks_match_source :
  removers_match model_registries found_removers = true.
Proof. vm_compute. reflexivity. Qed.
Print Assumptions C16_registry_hooks_match_source.

(* The 20 functions of the teardown path have exactly the shape (ordered effects, control
   structure, `if` tests) the model was written against. *)
Theorem C16_teardown_shapes_match_source :
  shapes_eqb source_shapes expected_shapes = true.
Proof. vm_compute. reflexivity. Qed.
Print Assumptions C16_teardown_shapes_match_source.

(* The model's fan-out order is the order derived from the source: the 'disconnection' emit
   of the host handler, expanded into the listeners in the order Device.host registers them
   (Device, then the L2CAP channel manager), then the host's own tables and queues. *)
Theorem C16_fanout_order_matches_source :
  hooks_eqb (derive_chain source_shapes) fanout_order = true.
Proof. vm_compute. reflexivity. Qed.
Print Assumptions C16_fanout_order_matches_source.

(* Host.on_transport_lost: fail the command only if still pending, then every connection
   through the disconnection handler, then 'flush' - the order of [Loss]. *)
Theorem C16_loss_path_matches_source : loss_path_ok source_shapes = true.
Proof. vm_compute. reflexivity. Qed.
Print Assumptions C16_loss_path_matches_source.

(* The calls inside the disconnection listeners that can raise (remove_listener, del d[k],
   set_result / set_exception) are exactly the reviewed ones (each argued safe next to
   [expected_raising_calls]); a new one, or one that moved, needs a new review. *)
Theorem C16_raising_calls_match_source :
  shapes_eqb (raising_calls source_shapes) expected_raising_calls = true.
Proof. vm_compute. reflexivity. Qed.
Print Assumptions C16_raising_calls_match_source.

(* Host._send_command releases the HCI command gate on every exit path of the awaiting
   caller - response, timeout, error and cancellation: the release sits in the `finally`
   under the no-response test (derived from the regenerated shape). *)
Theorem C16_command_gate_released_on_every_exit :
  forallb (gate_released (site_of source_shapes)) [XResponse; XTimeout; XError; XCancelled] = true.
Proof. vm_compute. reflexivity. Qed.
Print Assumptions C16_command_gate_released_on_every_exit.

(* ... and that is necessary: with the release only in `except asyncio.TimeoutError` /
   `except Exception` handlers a cancelled caller keeps the gate (CancelledError is a
   BaseException) - every later command, Host.flush() and Device.power_off() wait forever *)
Theorem C16_gate_release_in_handlers_refuted :
  gate_released InExceptHandlersOnly XCancelled = false.
Proof. reflexivity. Qed.
Print Assumptions C16_gate_release_in_handlers_refuted.

Theorem C16_model_table_cleaned : all_cleaned model_registries = true.
Proof. exact model_registries_cleaned. Qed.
Print Assumptions C16_model_table_cleaned.

(* --- layers agree ------------------------------------------------------------------------ *)

(* At every cut point of every history: the device and the host hold the same connections,
   and what the host will hold once it has processed the events already on their way is
   exactly what the controller holds.  After a transport loss host and device hold nothing. *)
Theorem C16_layers_agree_every_cut_point : forall tbl ops,
  let s := run tbl ops init in
  dev s = host s /\
  (lost s = false -> forall x, mem x (replay (c2h s) (host s)) = mem x (ctl s)) /\
  (lost s = true -> host s = [] /\ c2h s = [] /\ h2c s = []).
Proof. exact layers_agree_cut. Qed.
Print Assumptions C16_layers_agree_every_cut_point.

(* At quiescence (no event on its way to the host) host, device and controller hold the same
   set of live connections. *)
Theorem C16_layers_agree : forall tbl ops,
  let s := run tbl ops init in
  lost s = false -> c2h s = [] ->
  forall x, mem x (host s) = mem x (ctl s) /\ mem x (dev s) = mem x (ctl s).
Proof. exact layers_agree. Qed.
Print Assumptions C16_layers_agree.

(* --- no stale state ---------------------------------------------------------------------- *)

(* For every table whose registries are all emptied somewhere in the fan-out chain, at every
   cut point of every history, every registry entry belongs to a connection the device still
   holds. *)
Theorem C16_no_stale_state : forall tbl ops,
  all_cleaned tbl = true ->
  let s := run tbl ops init in
  forall r k, In (r, k) (regs s) -> mem (kconn k) (dev s) = true.
Proof. exact no_stale_state. Qed.
Print Assumptions C16_no_stale_state.

Theorem C16_closed_connection_forgotten : forall tbl ops h,
  all_cleaned tbl = true ->
  let s := run tbl ops init in
  mem h (dev s) = false -> forall r k, In (r, k) (regs s) -> kconn k <> h.
Proof. exact closed_connection_forgotten. Qed.
Print Assumptions C16_closed_connection_forgotten.

Theorem C16_nothing_left_after_transport_loss : forall tbl ops,
  all_cleaned tbl = true ->
  let s := run tbl ops init in lost s = true -> regs s = [] /\ host s = [] /\ dev s = [].
Proof. exact nothing_left_after_transport_loss. Qed.
Print Assumptions C16_nothing_left_after_transport_loss.

(* instantiated with the model's table *)
Theorem C16_no_stale_state_model : forall ops,
  let s := run model_registries ops init in
  forall r k, In (r, k) (regs s) -> mem (kconn k) (dev s) = true.
Proof. intros ops. exact (no_stale_state model_registries ops model_registries_cleaned). Qed.
Print Assumptions C16_no_stale_state_model.

(* --- no waiter left ---------------------------------------------------------------------- *)

(* At every cut point of every history every awaited call is either done, or registered on
   a connection the device still holds, or has the HCI event that will release it on its
   way, or (a WLate call whose command status has just been delivered) is a task about to
   run that will register or be cancelled (see [wok]).  No hypothesis on the schedule. *)
Theorem C16_waiters_every_cut_point : forall tbl ops,
  Forall (wok (run tbl ops init)) (waiters (run tbl ops init)).
Proof. exact waiters_cut. Qed.
Print Assumptions C16_waiters_every_cut_point.

(* no call is ever registered on a connection that is already gone *)
Theorem C16_never_hung : forall tbl ops x,
  In x (waiters (run tbl ops init)) -> w_st x <> Hung.
Proof. exact never_hung. Qed.
Print Assumptions C16_never_hung.

(* Once the timers have fired, nothing is in flight and no task is waiting to run, every
   call that is not done is a call on a connection that is still alive. *)
Theorem C16_no_waiter_left : forall tbl ops,
  let s := run tbl (ops ++ [Tick]) init in
  settled s = true ->
  Forall (fun x => live_waiter (dev s) x = true) (waiters s).
Proof. exact no_waiter_left. Qed.
Print Assumptions C16_no_waiter_left.

Theorem C16_no_waiter_left_after_transport_loss : forall tbl ops,
  let s := run tbl (ops ++ [Tick]) init in
  lost s = true -> forallb (fun x => negb (is_responded x)) (waiters s) = true ->
  Forall (fun x => is_done (w_st x) = true) (waiters s).
Proof. exact no_waiter_left_after_transport_loss. Qed.
Print Assumptions C16_no_waiter_left_after_transport_loss.

(* For every history - with the awaiting tasks cancelled at any point (op [Cancel]), with
   disconnections and transport losses anywhere - once nothing is in flight no call holds
   the HCI command gate. *)
Theorem C16_gate_free_when_quiescent : forall tbl ops,
  let s := run tbl ops init in quiescent s = true -> gate_busy s = false.
Proof. exact gate_free_when_quiescent. Qed.
Print Assumptions C16_gate_free_when_quiescent.

(* --- end to end --------------------------------------------------------------------------- *)

(* The property as stated: after any history, once everything is quiet, host, device and
   controller hold the same live set, every registry entry belongs to a connection the
   controller still holds, and every awaited call is done or is on such a connection. *)
Theorem C16_teardown_complete : forall tbl ops,
  all_cleaned tbl = true ->
  let s := run tbl (ops ++ [Tick]) init in
  lost s = false -> settled s = true ->
  (forall x, mem x (host s) = mem x (ctl s) /\ mem x (dev s) = mem x (ctl s)) /\
  (forall r k, In (r, k) (regs s) -> mem (kconn k) (ctl s) = true) /\
  Forall (fun x => is_done (w_st x) = true \/ mem (kconn (w_key x)) (ctl s) = true) (waiters s).
Proof. exact teardown_complete. Qed.
Print Assumptions C16_teardown_complete.

(* Tearing one connection down leaves the registry entries, the awaited calls and the table
   membership of every other connection untouched. *)
Theorem C16_links_independent : forall tbl h s,
  (forall p, In p (regs s) -> kconn (snd p) <> h -> In p (regs (fanout tbl h s))) /\
  (forall x, In x (waiters s) -> kconn (w_key x) <> h -> In x (waiters (fanout tbl h s))) /\
  (forall c, c <> h -> mem c (dev (fanout tbl h s)) = mem c (dev s) /\
                       mem c (host (fanout tbl h s)) = mem c (host s)) /\
  ctl (fanout tbl h s) = ctl s /\ c2h (fanout tbl h s) = c2h s /\ h2c (fanout tbl h s) = h2c s.
Proof. exact links_independent. Qed.
Print Assumptions C16_links_independent.

(* --- the hypotheses are needed ----------------------------------------------------------- *)

(* a registry outside the chain keeps an entry for a closed connection *)
Theorem C16_unclean_registry_refuted :
  all_cleaned leaky_table = false /\
  let s := run leaky_table
             [Establish 1; DeliverC2H; Insert "x.Leaky.registry" (1, 0); PeerDisc 1; DeliverC2H] init in
  quiescent s = true /\ mem 1 (dev s) = false /\ In ("x.Leaky.registry"%string, (1, 0)) (regs s).
Proof. exact stale_refuted. Qed.
Print Assumptions C16_unclean_registry_refuted.

(* The fan-out is one synchronous call chain in which a listener may raise.  If none does,
   the chain that may fail IS the fan-out of the theorems above ... *)
Theorem C16_no_raise_fanout_complete : forall tbl raises h s,
  (forall hk, In hk fanout_order -> raises hk = false) -> fanout_raising tbl raises h s = fanout tbl h s.
Proof. exact fanout_no_raise. Qed.
Print Assumptions C16_no_raise_fanout_complete.

(* ... and the no-raise condition is necessary: a raising Connection 'disconnection' listener
   leaves the later registries populated, host and device in disagreement, disconnect() pending *)
Theorem C16_raising_listener_refuted :
  let s := fanout_raising model_registries (hook_eqb HkConnListeners) 1 (run model_registries raising_prefix init) in
  dev s = [] /\ host s = [1] /\
  map fst (regs s) = ["smp.Manager.sessions"; "gatt_server.Server.subscribers";
                      "l2cap.ChannelManager.channels"; "host.DataPacketQueue._connection_state"]%string /\
  map (fun x => (w_id x, st_code (w_st x))) (waiters s) = [(4, 0)].
Proof. exact raising_listener_refuted. Qed.
Print Assumptions C16_raising_listener_refuted.

(* [settled], not only [quiescent]: a task that has not run yet keeps its call pending
   (state code 2) on a closed connection *)
Theorem C16_unsettled_refuted :
  let s := run model_registries (unsettled_history ++ [Tick]) init in
  quiescent s = true /\ settled s = false /\ mem 1 (dev s) = false /\
  map (fun x => (w_id x, st_code (w_st x))) (waiters s) = [(7, 2)].
Proof. exact unsettled_refuted. Qed.
Print Assumptions C16_unsettled_refuted.

(* --- non-vacuity ------------------------------------------------------------------------- *)

(* a race-free history in which a disconnection by the peer cancels a GATT request, ends a
   pairing, resolves a local disconnect, leaves a queued request to its timer, and empties
   four registries; the same by transport loss *)
(* the former late-registration race (D16h/D16i, repaired): the link is cut between the command
   status and the resumption of the awaiting task; when the task runs it is cancelled (code 12),
   by a disconnection and by a transport loss alike *)
Example C16_late_registration_now_cancelled :
  let ops1 := [Establish 1; DeliverC2H; Start 7 (WLate HkConnListeners) (1, 0); DeliverH2C; PeerDisc 1;
               DeliverC2H; DeliverC2H; Resume 7; Tick] in
  let ops2 := [Establish 1; DeliverC2H; Start 7 (WLate HkConnListeners) (1, 0); DeliverH2C; DeliverC2H;
               Loss; Resume 7; Tick] in
  settled (run model_registries ops1 init) = true /\
  settled (run model_registries ops2 init) = true /\
  map (fun x => (w_id x, st_code (w_st x))) (waiters (run model_registries ops1 init)) = [(7, 12)] /\
  map (fun x => (w_id x, st_code (w_st x))) (waiters (run model_registries ops2 init)) = [(7, 12)].
Proof. vm_compute. repeat split; reflexivity. Qed.

(* the shape of the code before D16k (commands written into a lost transport) is rejected *)
Example C16_pre_d16k_shape_rejected :
  shapes_eqb pre_d16k_shapes expected_shapes = false /\
  first_difference pre_d16k_shapes expected_shapes = Some "host.Host.on_transport_lost"%string.
Proof. vm_compute. split; reflexivity. Qed.

(* a command is written, its caller is cancelled before the answer, the answer arrives
   later and is ignored; the gate is busy in between and free at the end *)
Example C16_gate_cancelled_caller :
  let ops := [HciCommand 5; Establish 1; DeliverC2H; Start 6 (WLate HkConnListeners) (1, 0)] in
  gate_busy (run model_registries ops init) = true /\
  let s := run model_registries (ops ++ [Cancel 5; Cancel 6; DeliverH2C; DeliverH2C; DeliverC2H; DeliverC2H]) init in
  quiescent s = true /\ gate_busy s = false /\
  map (fun x => (w_id x, st_code (w_st x))) (waiters s) = [(5, 12); (6, 12)].
Proof. vm_compute. repeat split; reflexivity. Qed.

Example C16_nonvacuous_disconnection :
  let ops := [Establish 1; DeliverC2H;
              Insert "smp.Manager.sessions" (1, 0); Insert "gatt_server.Server.subscribers" (1, 64);
              Insert "host.DataPacketQueue._packets" (1, 0); Insert "l2cap.ChannelManager.channels" (1, 0);
              Start 1 (WConnBound HkConnListeners) (1, 0); Start 2 WTimerOnly (1, 0);
              Start 3 (WConnBound HkL2cap) (1, 0); LocalDisc 4 1; HciCommand 5;
              PeerDisc 1; DeliverH2C; DeliverH2C; DeliverC2H; DeliverC2H; Tick] in
  settled (run model_registries ops init) = true /\
  obs (run model_registries ops init) = ([], [], [], [], [(1, 12); (2, 13); (3, 12); (4, 10); (5, 10)]).
Proof. vm_compute. split; reflexivity. Qed.

Example C16_nonvacuous_transport_loss :
  let ops := [Establish 1; DeliverC2H; Establish 2; DeliverC2H;
              Insert "smp.Manager.sessions" (1, 0); Insert "gatt_server.Server.pending_confirmations" (2, 0);
              Start 1 (WConnBound HkConnListeners) (1, 0); Start 2 WTimerOnly (2, 0); HciCommand 5;
              Loss; Tick] in
  settled (run model_registries ops init) = true /\
  obs (run model_registries ops init) = ([2; 1], [], [], [], [(1, 12); (2, 13); (5, 11)]).
Proof. vm_compute. split; reflexivity. Qed.
