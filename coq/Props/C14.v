(* Property C14: both crypto back ends agree with each other and with the specification.
   What is proved here is the pure-Python logic (see docs/C14.md for the boundary):
   the built-in CMAC is RFC 4493 for every message length and every chunking; every toolbox
   function as written equals the Core Vol 3 Part H 2.2 formula over the two primitives, so two
   back ends that agree on e / AES-CMAC agree on all of them; a generated resolvable private
   address resolves under its key and has type bits 01; the built-in ECDH (after
   fixes/D14.patch) rejects every coordinate pair that is not a point of P-256; the AES tables
   in the source are the FIPS-197 ones, the T-table AES-128 as written is the FIPS-197 cipher
   with the FIPS-197 key schedule for every key and block, and the curve constants are those
   of P-256.
   NOT proved: anything about the OpenSSL-backed back end; ECDH symmetry and correctness of
   the Jacobian arithmetic (needs the elliptic-curve group law).
   This file contains only statements, each closed by [exact]. *)
From Coq Require Import String.
From Coq Require Import ZArith List Bool.
From BV Require Import Gen.C14Tables Model.CryptoBytes Model.Aes Model.Cmac Model.SmToolbox.
From BV Require Import Model.P256 Model.CryptoBuiltin.
From BV Require Import Proofs.CryptoBytes Proofs.Cmac Proofs.SmToolbox Proofs.P256 Proofs.Aes.
From BV Require Import Proofs.AesSpec Proofs.P256Inv Proofs.BuiltinSpec Proofs.BuiltinCmacSpec.
From BV Require Import Model.PyAst Gen.C14Source.
From BV Require Import Proofs.PySourceToolbox Proofs.PySourceEc Proofs.PySourceCmac Proofs.PySourceRpa Proofs.PySourceExpected.
Import ListNotations.
Open Scope list_scope.
Open Scope Z_scope.

(* ------------------------------------------------------------------ AES-CMAC *)
(* For every block function that maps 16-byte blocks to 16 bytes, and every message (every
   length: 0, 16k, 16k+-1, ...), the code path of builtin.aes_cmac - sub-keys with 0x87,
   cache / _update / digest with the full-block vs padded-block choice - returns the
   RFC 4493 tag. *)
Theorem C14_cmac_is_rfc4493 : forall E : list Z -> list Z,
  (forall b, length b = 16%nat -> length (E b) = 16%nat) ->
  (forall b, length b = 16%nat -> bytes_ok (E b) = true) ->
  forall M, len M <= max_size -> aes_cmac_code E M = Some (cmac_spec E M).
Proof. exact aes_cmac_code_is_rfc4493. Qed.
Print Assumptions C14_cmac_is_rfc4493.

(* ... and so does any sequence of update() calls that cuts the message anywhere. *)
Theorem C14_cmac_any_chunking : forall E : list Z -> list Z,
  (forall b, length b = 16%nat -> length (E b) = 16%nat) ->
  (forall b, length b = 16%nat -> bytes_ok (E b) = true) ->
  forall chunks, len (concat chunks) <= max_size ->
  cmac_chunked E chunks = Some (cmac_spec E (concat chunks)).
Proof. exact cmac_chunked_is_rfc4493. Qed.
Print Assumptions C14_cmac_any_chunking.

Theorem C14_cmac_tag_is_16_bytes : forall E : list Z -> list Z,
  (forall b, length b = 16%nat -> length (E b) = 16%nat) ->
  (forall b, length b = 16%nat -> bytes_ok (E b) = true) ->
  forall M, length (cmac_spec E M) = 16%nat.
Proof. exact cmac_spec_len. Qed.
Print Assumptions C14_cmac_tag_is_16_bytes.

(* Instantiated with the model of the built-in _AES (any accepted key size). *)
Theorem C14_builtin_cmac_is_rfc4493 : forall m k, len m <= max_size ->
  aes_cmac_builtin m k = aes_cmac_rfc m k.
Proof. exact builtin_cmac_eq_rfc. Qed.
Print Assumptions C14_builtin_cmac_is_rfc4493.

Theorem C14_builtin_cmac_any_chunking : forall chunks k, len (concat chunks) <= max_size ->
  aes_cmac_chunked_builtin chunks k = aes_cmac_rfc (concat chunks) k.
Proof. exact builtin_cmac_chunked_eq_rfc. Qed.
Print Assumptions C14_builtin_cmac_any_chunking.

(* ------------------------------------------------------------------ toolbox = specification *)
(* Code values are least-significant-byte-first (bumble's convention), the specification
   formulas most-significant-byte-first: the statements relate them by [rev]. *)
Theorem C14_ah_is_spec : forall e k r, rev (ah e k r) = spec_ah e (rev k) (rev r).
Proof. exact ah_spec. Qed.
Print Assumptions C14_ah_is_spec.

Theorem C14_c1_is_spec : forall e k r preq pres iat rat ia ra out,
  c1 e k r preq pres iat rat ia ra = Some out ->
  rev out = spec_c1 e (rev k) (rev r) (rev preq) (rev pres) iat rat (rev ia) (rev ra).
Proof. exact c1_spec. Qed.
Print Assumptions C14_c1_is_spec.

Theorem C14_c1_defined : forall e k r preq pres iat rat ia ra,
  (forall d, length d = 16%nat -> length (e k d) = 16%nat) ->
  length r = 16%nat -> length preq = 7%nat -> length pres = 7%nat ->
  length ia = 6%nat -> length ra = 6%nat -> bytes_ok [iat; rat] = true ->
  exists out, c1 e k r preq pres iat rat ia ra = Some out.
Proof. exact c1_defined. Qed.
Print Assumptions C14_c1_defined.

Theorem C14_s1_is_spec : forall e k r1 r2, rev (s1 e k r1 r2) = spec_s1 e (rev k) (rev r1) (rev r2).
Proof. exact s1_spec. Qed.
Print Assumptions C14_s1_is_spec.

Theorem C14_f4_is_spec : forall cmac u v x z, length z = 1%nat ->
  rev (f4 cmac u v x z) = spec_f4 cmac (rev u) (rev v) (rev x) (rev z).
Proof. exact f4_spec. Qed.
Print Assumptions C14_f4_is_spec.

Theorem C14_f5_is_spec : forall cmac w n1 n2 a1 a2,
  (rev (fst (f5 cmac w n1 n2 a1 a2)), rev (snd (f5 cmac w n1 n2 a1 a2))) =
  spec_f5 cmac (rev w) (rev n1) (rev n2) (rev a1) (rev a2).
Proof. exact f5_spec. Qed.
Print Assumptions C14_f5_is_spec.

Theorem C14_f6_is_spec : forall cmac w n1 n2 r io_cap a1 a2,
  rev (f6 cmac w n1 n2 r io_cap a1 a2) =
  spec_f6 cmac (rev w) (rev n1) (rev n2) (rev r) (rev io_cap) (rev a1) (rev a2).
Proof. exact f6_spec. Qed.
Print Assumptions C14_f6_is_spec.

Theorem C14_g2_is_spec : forall cmac u v x y,
  length (cmac (rev u ++ rev v ++ rev y) (rev x)) = 16%nat ->
  bytes_ok (cmac (rev u ++ rev v ++ rev y) (rev x)) = true ->
  g2 cmac u v x y = spec_g2 cmac (rev u) (rev v) (rev x) (rev y).
Proof. exact g2_spec. Qed.
Print Assumptions C14_g2_is_spec.

Theorem C14_h6_is_spec : forall cmac w key_id, rev (h6 cmac w key_id) = spec_h6 cmac (rev w) key_id.
Proof. exact h6_spec. Qed.
Print Assumptions C14_h6_is_spec.

Theorem C14_h7_is_spec : forall cmac salt w, rev (h7 cmac salt w) = spec_h7 cmac salt (rev w).
Proof. exact h7_spec. Qed.
Print Assumptions C14_h7_is_spec.

(* ------------------------------------------------------------------ agreement of two back ends *)
(* If two back ends agree on e for 16-byte keys and blocks and on AES-CMAC for 16-byte keys
   (messages of any length), they agree on every toolbox function on arguments of the sizes
   the Security Manager uses. *)
Theorem C14_backends_agree_on_toolbox :
  forall e1 e2 cm1 cm2 : list Z -> list Z -> list Z,
  (forall k d, length k = 16%nat -> length d = 16%nat -> e1 k d = e2 k d) ->
  (forall k d, length k = 16%nat -> length d = 16%nat -> length (e1 k d) = 16%nat) ->
  (forall m k, length k = 16%nat -> cm1 m k = cm2 m k) ->
  (forall m k, length k = 16%nat -> length (cm1 m k) = 16%nat) ->
  (forall k r, length k = 16%nat -> length r = 3%nat -> ah e1 k r = ah e2 k r) /\
  (forall k r preq pres iat rat ia ra,
     length k = 16%nat -> length r = 16%nat -> length preq = 7%nat -> length pres = 7%nat ->
     length ia = 6%nat -> length ra = 6%nat ->
     c1 e1 k r preq pres iat rat ia ra = c1 e2 k r preq pres iat rat ia ra) /\
  (forall k r1 r2, length k = 16%nat -> (8 <= length r1)%nat -> (8 <= length r2)%nat ->
     s1 e1 k r1 r2 = s1 e2 k r1 r2) /\
  (forall u v x z, length x = 16%nat -> f4 cm1 u v x z = f4 cm2 u v x z) /\
  (forall w n1 n2 a1 a2, f5 cm1 w n1 n2 a1 a2 = f5 cm2 w n1 n2 a1 a2) /\
  (forall w n1 n2 r io_cap a1 a2, length w = 16%nat ->
     f6 cm1 w n1 n2 r io_cap a1 a2 = f6 cm2 w n1 n2 r io_cap a1 a2) /\
  (forall u v x y, length x = 16%nat -> g2 cm1 u v x y = g2 cm2 u v x y) /\
  (forall w key_id, length w = 16%nat -> h6 cm1 w key_id = h6 cm2 w key_id) /\
  (forall salt w, length salt = 16%nat -> h7 cm1 salt w = h7 cm2 salt w).
Proof. exact backends_agree_on_toolbox. Qed.
Print Assumptions C14_backends_agree_on_toolbox.

(* ------------------------------------------------------------------ resolvable private addresses *)
(* For every identity resolving key and every 6 random bytes drawn by generate_prand, the
   generated address resolves under that key (the hash comparison of AddressResolver.resolve /
   verify_rpa_with_irk succeeds) ... *)
Theorem C14_rpa_resolves : forall e,
  (forall k d, length d = 16%nat -> length (e k d) = 16%nat) ->
  forall irk tb, length tb = 6%nat -> rpa_matches e irk (rpa_generate e irk tb) = true.
Proof. exact rpa_resolves. Qed.
Print Assumptions C14_rpa_resolves.

(* ... also when the key sits anywhere in the resolver's key list (an earlier key may win only
   by a 24-bit hash collision, hence [i <= position]) ... *)
Theorem C14_rpa_resolves_in_list : forall e,
  (forall k d, length d = 16%nat -> length (e k d) = 16%nat) ->
  forall irk tb before after, length tb = 6%nat ->
  exists i, resolve e (before ++ irk :: after) (rpa_generate e irk tb) = Some i /\
            (i <= length before)%nat.
Proof. exact rpa_resolves_in_list. Qed.
Print Assumptions C14_rpa_resolves_in_list.

(* ... it is 6 bytes long and its two most significant bits are 0b01 (Address.is_resolvable);
   the non-resolvable branch produces 0b00. *)
Theorem C14_rpa_type_bits : forall e,
  (forall k d, length d = 16%nat -> length (e k d) = 16%nat) ->
  forall irk tb, length tb = 6%nat ->
  length (rpa_generate e irk tb) = 6%nat /\ is_resolvable_bytes (rpa_generate e irk tb) = true.
Proof. exact rpa_shape. Qed.
Print Assumptions C14_rpa_type_bits.

Theorem C14_nrpa_type_bits : forall tb, length tb = 6%nat -> top_bits (nrpa_generate tb) = 0.
Proof. exact nrpa_type_bits. Qed.
Print Assumptions C14_nrpa_type_bits.

(* ------------------------------------------------------------------ ECDH public-key validation *)
(* The built-in ecdh_shared_secret (with fixes/D14.patch) returns InvalidPacketError for every
   private key and every coordinate pair that fails the validation ... *)
Theorem C14_ecdh_rejects_invalid : forall c d x y,
  on_curve c x y = false -> ecdh c d x y = InvalidKey.
Proof. exact ecdh_rejects_invalid. Qed.
Print Assumptions C14_ecdh_rejects_invalid.

Theorem C14_dh_rejects_invalid : forall c d xb yb,
  on_curve c (be_int xb) (be_int yb) = false -> ecc_dh c d xb yb = InvalidKey.
Proof. exact dh_rejects_invalid. Qed.
Print Assumptions C14_dh_rejects_invalid.

(* ... also in the middle of any sequence of dh() calls on one key object: every result is the
   result of that call alone (the object keeps no state but the private scalar) ... *)
Theorem C14_dh_history_pure : forall c d calls i xb yb,
  nth_error calls i = Some (xb, yb) ->
  nth_error (ecc_dh_history c d calls) i = Some (ecc_dh c d xb yb).
Proof. exact dh_history_pure. Qed.
Print Assumptions C14_dh_history_pure.

Theorem C14_dh_history_rejects_invalid : forall c d calls i xb yb,
  nth_error calls i = Some (xb, yb) -> on_curve c (be_int xb) (be_int yb) = false ->
  nth_error (ecc_dh_history c d calls) i = Some InvalidKey.
Proof. exact dh_history_rejects_invalid. Qed.
Print Assumptions C14_dh_history_rejects_invalid.

(* ... the validation is exactly y^2 = x^3 + ax + b (mod p), coordinates read modulo p (as the
   OpenSSL-based back end reads them) ... *)
Theorem C14_on_curve_meaning : forall c x y, 0 < cp c ->
  (on_curve c x y = true <->
   (y * y) mod cp c = (x * x * x + ca c * x + cb c) mod cp c).
Proof. exact on_curve_iff. Qed.
Print Assumptions C14_on_curve_meaning.

Theorem C14_on_curve_modulo_p : forall c x y, 0 < cp c ->
  on_curve c x y = on_curve c (x mod cp c) (y mod cp c).
Proof. exact on_curve_mod. Qed.
Print Assumptions C14_on_curve_modulo_p.

(* ... and a shared secret comes out only for a valid point, as 32 bytes. *)
Theorem C14_ecdh_secret_only_on_curve : forall c d x y s,
  ecdh c d x y = Secret s -> on_curve c x y = true /\ length s = 32%nat /\ bytes_ok s = true.
Proof. exact ecdh_secret_only_on_curve. Qed.
Print Assumptions C14_ecdh_secret_only_on_curve.

(* The curve parameters read from the source are those of NIST P-256 and G is on the curve. *)
Theorem C14_curve_is_p256 :
  secp256r1 = mk_curve nist_p (nist_p - 3) nist_b nist_n nist_gx nist_gy /\
  on_curve secp256r1 (cgx secp256r1) (cgy secp256r1) = true.
Proof. exact curve_is_p256_and_G_on_it. Qed.
Print Assumptions C14_curve_is_p256.

(* Why the fix was needed: without the validation the same arithmetic turns the off-curve
   pairs (1,1) and (0,0) into a "secret". *)
Theorem C14_unvalidated_ecdh_refuted :
  on_curve secp256r1 1 1 = false /\ (exists s, ecdh_unchecked secp256r1 5 1 1 = Secret s) /\
  on_curve secp256r1 0 0 = false /\ ecdh_unchecked secp256r1 5 0 0 = Secret (to_be 32 0).
Proof. exact ecdh_unchecked_refuted. Qed.
Print Assumptions C14_unvalidated_ecdh_refuted.

(* ------------------------------------------------------------------ AES tables (finite evaluation) *)
(* Re-checked against the tables regenerated from the source on every run: for all 256
   indexes, S = affine(inverse in GF(2^8)), T1..T4 = MixColumns columns of S, RCON = x^i. *)
Theorem C14_aes_tables_are_fips197 :
  (forall x, 0 <= x < 256 -> tbl aes_S x = sbox_ref x) /\
  (forall x, 0 <= x < 256 -> tbl aes_T1 x = t1_ref x) /\
  (forall x, 0 <= x < 256 -> tbl aes_T2 x = t2_ref x) /\
  (forall x, 0 <= x < 256 -> tbl aes_T3 x = t3_ref x) /\
  (forall x, 0 <= x < 256 -> tbl aes_T4 x = t4_ref x) /\
  aes_RCON = rcon_ref (length aes_RCON) 1 /\
  aes_ROUNDS = [(16, 10); (24, 12); (32, 14)].
Proof. exact aes_tables_are_fips197. Qed.
Print Assumptions C14_aes_tables_are_fips197.

(* ------------------------------------------------------------------ AES as written = FIPS-197 *)
(* The T-table rounds of _AES.encrypt are SubBytes / ShiftRows / MixColumns / AddRoundKey of
   FIPS-197 5.1, for every 16-byte block and every list of round keys (any key size) ... *)
Theorem C14_aes_encrypt_is_fips197_cipher : forall ke pt,
  length pt = 16%nat -> bytes_ok pt = true -> (2 <= length ke)%nat ->
  aes_encrypt ke pt = Some (cipher (map st_bytes ke) pt).
Proof. exact aes_encrypt_is_fips197_cipher. Qed.
Print Assumptions C14_aes_encrypt_is_fips197_cipher.

(* ... for every 16-byte key _AES.__init__ succeeds and its round keys are FIPS-197 5.2
   KeyExpansion (Nk = 4) ... *)
Theorem C14_aes128_key_schedule_is_fips197 : forall key,
  length key = 16%nat -> bytes_ok key = true ->
  exists ke, aes_init key = Some ke /\ map st_bytes ke = round_keys_of (key_schedule_128 key) /\
             length ke = 11%nat.
Proof. exact aes128_key_schedule_is_fips197. Qed.
Print Assumptions C14_aes128_key_schedule_is_fips197.

(* ... hence builtin.e is the security function e of Core Vol 3 Part H 2.2.1 (AES-128, values
   passed least significant byte first) for all 16-byte keys and blocks. *)
Theorem C14_builtin_e_is_aes128 : forall key data,
  length key = 16%nat -> bytes_ok key = true -> length data = 16%nat -> bytes_ok data = true ->
  e_builtin key data = Some (e_spec key data).
Proof. exact e_builtin_is_aes128. Qed.
Print Assumptions C14_builtin_e_is_aes128.

(* End to end for the built-in back end: ah, c1, s1 computed with builtin.e equal the Core
   formulas over FIPS-197 AES-128, for all arguments of the Security Manager sizes. *)
Theorem C14_builtin_ah_is_core_spec : forall k r,
  length k = 16%nat -> bytes_ok k = true -> length r = 3%nat -> bytes_ok r = true ->
  rev (b_ah k r) = spec_ah e_spec (rev k) (rev r).
Proof. exact builtin_ah_is_core_spec. Qed.
Print Assumptions C14_builtin_ah_is_core_spec.

Theorem C14_builtin_c1_is_core_spec : forall k r preq pres iat rat ia ra,
  length k = 16%nat -> bytes_ok k = true -> length r = 16%nat -> bytes_ok r = true ->
  length preq = 7%nat -> bytes_ok preq = true -> length pres = 7%nat -> bytes_ok pres = true ->
  length ia = 6%nat -> bytes_ok ia = true -> length ra = 6%nat -> bytes_ok ra = true ->
  bytes_ok [iat; rat] = true ->
  exists out, b_c1 k r preq pres iat rat ia ra = Some out /\
    rev out = spec_c1 e_spec (rev k) (rev r) (rev preq) (rev pres) iat rat (rev ia) (rev ra).
Proof. exact builtin_c1_is_core_spec. Qed.
Print Assumptions C14_builtin_c1_is_core_spec.

Theorem C14_builtin_s1_is_core_spec : forall k r1 r2,
  length k = 16%nat -> bytes_ok k = true ->
  (8 <= length r1)%nat -> bytes_ok r1 = true -> (8 <= length r2)%nat -> bytes_ok r2 = true ->
  rev (b_s1 k r1 r2) = spec_s1 e_spec (rev k) (rev r1) (rev r2).
Proof. exact builtin_s1_is_core_spec. Qed.
Print Assumptions C14_builtin_s1_is_core_spec.

(* ------------------------------------------------------------------ the resolver is a pure function *)
(* resolve returns the FIRST key whose hash of the address's prand equals the address's hash part;
   a key for which they differ never matches (the deterministic content of "does not resolve under
   an unrelated key"); in a sequence of calls on one resolver every result is that of its call. *)
Theorem C14_rpa_unrelated_key_rejected : forall e k addr,
  ah e k (py_slice addr 3 6) <> py_slice addr 0 3 -> rpa_matches e k addr = false.
Proof. exact rpa_unrelated_key_rejected. Qed.
Print Assumptions C14_rpa_unrelated_key_rejected.

Theorem C14_resolve_first_match : forall e irks addr,
  match resolve e irks addr with
  | Some i => rpa_matches e (nth i irks []) addr = true /\ (i < length irks)%nat /\
              forall j, (j < i)%nat -> rpa_matches e (nth j irks []) addr = false
  | None => forall j, (j < length irks)%nat -> rpa_matches e (nth j irks []) addr = false
  end.
Proof. exact resolve_first_match. Qed.
Print Assumptions C14_resolve_first_match.

Theorem C14_resolve_history_pure : forall e irks addrs i addr,
  nth_error addrs i = Some addr ->
  nth_error (resolve_history e irks addrs) i = Some (resolve e irks addr).
Proof. exact resolve_history_pure. Qed.
Print Assumptions C14_resolve_history_pure.

(* ------------------------------------------------------------------ CMAC family, end to end *)
(* f4, f5, f6, g2, h6, h7 computed with builtin.aes_cmac equal the Core formulas over RFC 4493
   AES-CMAC over FIPS-197 AES-128 ([cmac_fips]), for arguments of the Security Manager sizes. *)
Theorem C14_builtin_cmac_is_rfc4493_over_fips197 : forall m k,
  length k = 16%nat -> bytes_ok k = true -> bytes_ok m = true -> len m <= max_size ->
  cmac_total m k = cmac_fips m k /\ good_block (cmac_total m k).
Proof. exact cmac_total_is_fips. Qed.
Print Assumptions C14_builtin_cmac_is_rfc4493_over_fips197.

Theorem C14_builtin_f4_is_core_spec : forall u v x z,
  length u = 32%nat -> bytes_ok u = true -> length v = 32%nat -> bytes_ok v = true ->
  good_block x -> length z = 1%nat -> bytes_ok z = true ->
  rev (b_f4 u v x z) = spec_f4 cmac_fips (rev u) (rev v) (rev x) (rev z).
Proof. exact builtin_f4_is_core_spec. Qed.
Print Assumptions C14_builtin_f4_is_core_spec.

Theorem C14_builtin_f5_is_core_spec : forall w n1 n2 a1 a2,
  length w = 32%nat -> bytes_ok w = true -> good_block n1 -> good_block n2 ->
  length a1 = 7%nat -> bytes_ok a1 = true -> length a2 = 7%nat -> bytes_ok a2 = true ->
  (rev (fst (b_f5 w n1 n2 a1 a2)), rev (snd (b_f5 w n1 n2 a1 a2))) =
  spec_f5 cmac_fips (rev w) (rev n1) (rev n2) (rev a1) (rev a2).
Proof. exact builtin_f5_is_core_spec. Qed.
Print Assumptions C14_builtin_f5_is_core_spec.

Theorem C14_builtin_f6_is_core_spec : forall w n1 n2 r io_cap a1 a2,
  good_block w -> good_block n1 -> good_block n2 -> good_block r ->
  length io_cap = 3%nat -> bytes_ok io_cap = true ->
  length a1 = 7%nat -> bytes_ok a1 = true -> length a2 = 7%nat -> bytes_ok a2 = true ->
  rev (b_f6 w n1 n2 r io_cap a1 a2) =
  spec_f6 cmac_fips (rev w) (rev n1) (rev n2) (rev r) (rev io_cap) (rev a1) (rev a2).
Proof. exact builtin_f6_is_core_spec. Qed.
Print Assumptions C14_builtin_f6_is_core_spec.

Theorem C14_builtin_g2_is_core_spec : forall u v x y,
  length u = 32%nat -> bytes_ok u = true -> length v = 32%nat -> bytes_ok v = true ->
  good_block x -> good_block y ->
  b_g2 u v x y = spec_g2 cmac_fips (rev u) (rev v) (rev x) (rev y).
Proof. exact builtin_g2_is_core_spec. Qed.
Print Assumptions C14_builtin_g2_is_core_spec.

Theorem C14_builtin_h6_is_core_spec : forall w key_id,
  good_block w -> length key_id = 4%nat -> bytes_ok key_id = true ->
  rev (b_h6 w key_id) = spec_h6 cmac_fips (rev w) key_id.
Proof. exact builtin_h6_is_core_spec. Qed.
Print Assumptions C14_builtin_h6_is_core_spec.

Theorem C14_builtin_h7_is_core_spec : forall salt w,
  good_block salt -> good_block w ->
  rev (b_h7 salt w) = spec_h7 cmac_fips salt (rev w).
Proof. exact builtin_h7_is_core_spec. Qed.
Print Assumptions C14_builtin_h7_is_core_spec.

(* ------------------------------------------------------------------ the models are the meaning of the source *)
(* Gen/C14Source.v holds the current source of the anchored functions as terms of a Python-subset
   syntax (regenerated on every run, fail closed).  Running those terms in the interpreter of
   Model/PyAst.v gives the hand-written models: an edit of argument order, a reversal, a slice
   bound, an operator, a guard or the order of statements breaks the theorem for that function. *)
Theorem C14_toolbox_matches_source : forall e aes_cmac tokens,
  (forall k r, PySourceToolbox.run e aes_cmac tokens src_ah_params src_ah [VBytes k; VBytes r] = VBytes (ah e k r)) /\
  (forall k r preq pres iat rat ia ra,
     PySourceToolbox.run e aes_cmac tokens src_c1_params src_c1
       [VBytes k; VBytes r; VBytes preq; VBytes pres; VInt iat; VInt rat; VBytes ia; VBytes ra] =
     match c1 e k r preq pres iat rat ia ra with Some o => VBytes o | None => VErr end) /\
  (forall k r1 r2, PySourceToolbox.run e aes_cmac tokens src_s1_params src_s1 [VBytes k; VBytes r1; VBytes r2] = VBytes (s1 e k r1 r2)) /\
  (forall u v x z, PySourceToolbox.run e aes_cmac tokens src_f4_params src_f4 [VBytes u; VBytes v; VBytes x; VBytes z] =
     VBytes (f4 aes_cmac u v x z)) /\
  (forall w n1 n2 a1 a2, PySourceToolbox.run e aes_cmac tokens src_f5_params src_f5 [VBytes w; VBytes n1; VBytes n2; VBytes a1; VBytes a2] =
     VTuple [VBytes (fst (f5 aes_cmac w n1 n2 a1 a2)); VBytes (snd (f5 aes_cmac w n1 n2 a1 a2))]) /\
  (forall w n1 n2 r io_cap a1 a2,
     PySourceToolbox.run e aes_cmac tokens src_f6_params src_f6
       [VBytes w; VBytes n1; VBytes n2; VBytes r; VBytes io_cap; VBytes a1; VBytes a2] = VBytes (f6 aes_cmac w n1 n2 r io_cap a1 a2)) /\
  (forall u v x y, PySourceToolbox.run e aes_cmac tokens src_g2_params src_g2 [VBytes u; VBytes v; VBytes x; VBytes y] =
     VInt (g2 aes_cmac u v x y)) /\
  (forall w key_id, PySourceToolbox.run e aes_cmac tokens src_h6_params src_h6 [VBytes w; VBytes key_id] = VBytes (h6 aes_cmac w key_id)) /\
  (forall salt w, PySourceToolbox.run e aes_cmac tokens src_h7_params src_h7 [VBytes salt; VBytes w] = VBytes (h7 aes_cmac salt w)) /\
  (forall x y, PySourceToolbox.run e aes_cmac tokens src_xor_params src_xor [VBytes x; VBytes y] =
     match xor_assert x y with Some r => VBytes r | None => VErr end) /\
  (forall b, PySourceToolbox.run e aes_cmac tokens src_reverse_params src_reverse [VBytes b] = VBytes (rev b)).
Proof. exact toolbox_matches_source. Qed.
Print Assumptions C14_toolbox_matches_source.

Theorem C14_generate_prand_matches_source : forall e aes_cmac tokens, length tokens = 6%nat ->
  PySourceToolbox.run e aes_cmac tokens src_generate_prand_params src_generate_prand [] = VBytes (prand_of tokens).
Proof. exact generate_prand_matches_source. Qed.
Print Assumptions C14_generate_prand_matches_source.

(* _JacobianPoint.double / __add__ / to_affine, _EllipticCurve.is_on_curve / ecdh_shared_secret,
   EccKey.dh, for any curve whose modulus is positive (written Z.pos pp) and fits in 32 bytes *)
Theorem C14_jac_double_matches_source : forall pp a b n gx gy P,
  PySourceEc.run pp a b n gx gy (("self"%string, jacv P) :: jac_env pp a b n gx gy P)
    src_jac_double_params src_jac_double [jacv P] = jacv (jac_double (PySourceEc.c pp a b n gx gy) P).
Proof. exact jac_double_matches_source. Qed.
Print Assumptions C14_jac_double_matches_source.

Theorem C14_jac_add_matches_source : forall pp a b n gx gy P Q,
  PySourceEc.run pp a b n gx gy (("self"%string, jacv P) :: jac_env pp a b n gx gy P)
    src_jac_add_params src_jac_add [jacv P; jacv Q] = jacv (jac_add (PySourceEc.c pp a b n gx gy) P Q).
Proof. exact jac_add_matches_source. Qed.
Print Assumptions C14_jac_add_matches_source.

Theorem C14_jac_to_affine_matches_source : forall pp a b n gx gy P,
  PySourceEc.run pp a b n gx gy (("self"%string, jacv P) :: jac_env pp a b n gx gy P)
    src_jac_to_affine_params src_jac_to_affine [jacv P] = affv (to_affine (PySourceEc.c pp a b n gx gy) P).
Proof. exact jac_to_affine_matches_source. Qed.
Print Assumptions C14_jac_to_affine_matches_source.

Theorem C14_is_on_curve_matches_source : forall pp a b n gx gy x y,
  PySourceEc.run pp a b n gx gy (("self"%string, VStr "curve"%string) :: curve_env pp a b n gx gy)
    src_is_on_curve_params src_is_on_curve [VStr "curve"%string; VTuple [VInt x; VInt y; VBool false]] =
  VBool (on_curve (PySourceEc.c pp a b n gx gy) x y).
Proof. exact is_on_curve_matches_source. Qed.
Print Assumptions C14_is_on_curve_matches_source.

Theorem C14_ecdh_shared_secret_matches_source : forall pp a b n gx gy, Z.pos pp <= 2 ^ 256 -> forall d x y,
  PySourceEc.run pp a b n gx gy (("self"%string, VStr "curve"%string) :: curve_env pp a b n gx gy)
    src_ecdh_shared_secret_params src_ecdh_shared_secret
    [VStr "curve"%string; VInt d; VTuple [VInt x; VInt y; VBool false]] = dhv (ecdh (PySourceEc.c pp a b n gx gy) d x y).
Proof. exact ecdh_shared_secret_matches_source. Qed.
Print Assumptions C14_ecdh_shared_secret_matches_source.

Theorem C14_ecc_dh_matches_source : forall pp a b n gx gy d xb yb,
  PySourceEc.run pp a b n gx gy (("self"%string, VStr "key"%string) :: key_env d) src_ecc_dh_params src_ecc_dh
    [VStr "key"%string; VBytes xb; VBytes yb] = dhv (ecc_dh (PySourceEc.c pp a b n gx gy) d xb yb).
Proof. exact ecc_dh_matches_source. Qed.
Print Assumptions C14_ecc_dh_matches_source.

(* _CMAC.digest (with its truthiness guard on _last_pt), _CMAC._update and _shift_bytes *)
Theorem C14_cmac_digest_matches_source : forall E s,
  result_of (PySourceCmac.run E 40 (cmac_env E s) src_cmac_digest_params src_cmac_digest [VStr "cmac"%string]) =
  match digest E s with Some t => VBytes t | None => VErr end.
Proof. exact cmac_digest_matches_source. Qed.
Print Assumptions C14_cmac_digest_matches_source.

Theorem C14_cmac_update_aligned_matches_source : forall E s data, (len data mod 16 =? 0) = true ->
  state_in (env_of (PySourceCmac.run E 40 (cmac_env E s) src_cmac_update_aligned_params src_cmac_update_aligned
                      [VStr "cmac"%string; VBytes data]))
           (update_aligned E s data).
Proof. exact cmac_update_aligned_matches_source. Qed.
Print Assumptions C14_cmac_update_aligned_matches_source.

Theorem C14_shift_bytes_matches_source : forall E bs x, bytes_ok bs = true -> 0 <= x < 256 ->
  result_of (PySourceCmac.run E 10 [] src_shift_bytes_params src_shift_bytes [VBytes bs; VInt x]) =
  VBytes (shift_bytes bs x).
Proof. exact shift_bytes_matches_source. Qed.
Print Assumptions C14_shift_bytes_matches_source.

(* Address.generate_private_address (resolvable branch), Address.is_resolvable, verify_rpa_with_irk *)
Theorem C14_generate_private_address_matches_source : forall e tokens irk, (len irk =? 0) = false ->
  PySourceRpa.run e tokens class_env src_generate_private_address_params src_generate_private_address
    [VStr "cls"%string; VBytes irk] = VTuple [VBytes (rpa_generate e irk tokens); VInt 1].
Proof. exact generate_private_address_resolvable_matches_source. Qed.
Print Assumptions C14_generate_private_address_matches_source.

Theorem C14_is_resolvable_matches_source : forall e tokens t b, length b = 6%nat ->
  PySourceRpa.run e tokens
    [("self.address_type"%string, VInt t); ("self.RANDOM_DEVICE_ADDRESS"%string, VInt 1); ("self.address_bytes"%string, VBytes b)]
    src_is_resolvable_params src_is_resolvable [VStr "address"%string] = VBool ((t =? 1) && is_resolvable_bytes b).
Proof. exact is_resolvable_matches_source. Qed.
Print Assumptions C14_is_resolvable_matches_source.

Theorem C14_verify_rpa_with_irk_matches_source : forall e tokens addr irk,
  PySourceRpa.run e tokens [] src_verify_rpa_with_irk_params src_verify_rpa_with_irk [VBytes addr; VBytes irk] =
  VBool (list_eqb (py_slice (ah e irk (py_from addr 3)) 0 3) (py_slice addr 0 3)).
Proof. exact verify_rpa_with_irk_matches_source. Qed.
Print Assumptions C14_verify_rpa_with_irk_matches_source.

(* Functions whose meaning is not derived from the translated source - _CMAC.__init__ / update
   (interpreted through their callees), aes_cmac, e - must be syntactically the recorded ones;
   functions with loops (_AES, _ECB.encrypt, _CBC.encrypt, __mul__, AddressResolver.resolve, ...)
   and the field sets of _Point / _JacobianPoint / EccKey / _CMAC / AddressResolver must have the
   recorded digest of their normalised AST.  (A per-object cache added to EccKey.dh or to
   AddressResolver.resolve, or _last_pt kept as an int, breaks one of these or a theorem above.) *)
Theorem C14_cmac_init_source_unchanged : src_cmac_init = expected_cmac_init.
Proof. exact cmac_init_source_unchanged. Qed.
Print Assumptions C14_cmac_init_source_unchanged.

Theorem C14_cmac_update_source_unchanged : src_cmac_update = expected_cmac_update.
Proof. exact cmac_update_source_unchanged. Qed.
Print Assumptions C14_cmac_update_source_unchanged.

Theorem C14_builtin_aes_cmac_source_unchanged : src_builtin_aes_cmac = expected_builtin_aes_cmac.
Proof. exact builtin_aes_cmac_source_unchanged. Qed.
Print Assumptions C14_builtin_aes_cmac_source_unchanged.

Theorem C14_builtin_e_source_unchanged : src_builtin_e = expected_builtin_e.
Proof. exact builtin_e_source_unchanged. Qed.
Print Assumptions C14_builtin_e_source_unchanged.

Theorem C14_loop_functions_source_unchanged : source_fingerprints = expected_fingerprints.
Proof. exact loop_functions_source_unchanged. Qed.
Print Assumptions C14_loop_functions_source_unchanged.

(* ------------------------------------------------------------------ modular inverse / to_affine *)
Theorem C14_modinv_correct : forall z p x, 0 < p ->
  modinv z p = Some x -> (z * x) mod p = 1 mod p /\ 0 <= x < p.
Proof. exact modinv_correct. Qed.
Print Assumptions C14_modinv_correct.

Theorem C14_to_affine_correct : forall c X Y Z0 x y, 0 < cp c ->
  to_affine c (X, Y, Z0) = Affine x y ->
  (x * Z0 ^ 2) mod cp c = X mod cp c /\ (y * Z0 ^ 3) mod cp c = Y mod cp c /\
  0 <= x < cp c /\ 0 <= y < cp c.
Proof. exact to_affine_correct. Qed.
Print Assumptions C14_to_affine_correct.

(* ------------------------------------------------------------------ tests (vm_compute), not proofs *)
Definition hex_block (v : Z) : list Z := to_be 16 v.

(* FIPS-197 Appendix C.1 / C.2 / C.3 *)
Example C14_test_fips197 :
  let pt := hex_block 0x00112233445566778899aabbccddeeff in
  (match aes_init (hex_block 0x000102030405060708090a0b0c0d0e0f) with Some ke => aes_encrypt ke pt | None => None end)
    = Some (hex_block 0x69c4e0d86a7b0430d8cdb78070b4c55a) /\
  (match aes_init (to_be 24 0x000102030405060708090a0b0c0d0e0f1011121314151617) with Some ke => aes_encrypt ke pt | None => None end)
    = Some (hex_block 0xdda97ca4864cdfe06eaf70a0ec0d7191) /\
  (match aes_init (to_be 32 0x000102030405060708090a0b0c0d0e0f101112131415161718191a1b1c1d1e1f) with Some ke => aes_encrypt ke pt | None => None end)
    = Some (hex_block 0x8ea2b7ca516745bfeafc49904b496089).
Proof. vm_compute. repeat split. Qed.

(* RFC 4493 section 4 examples 1-4 (= Core Vol 3 Part H D.1) *)
Example C14_test_rfc4493 :
  let k := hex_block 0x2b7e151628aed2a6abf7158809cf4f3c in
  let m := to_be 64 0x6bc1bee22e409f96e93d7e117393172aae2d8a571e03ac9c9eb76fac45af8e5130c81c46a35ce411e5fbc1191a0a52eff69f2445df4f9b17ad2b417be66c3710 in
  aes_cmac_builtin [] k = Some (hex_block 0xbb1d6929e95937287fa37d129b756746) /\
  aes_cmac_builtin (firstn 16 m) k = Some (hex_block 0x070a16b46b4d4144f79bdd9dd04a287c) /\
  aes_cmac_builtin (firstn 40 m) k = Some (hex_block 0xdfa66747de9ae63030ca32611497c827) /\
  aes_cmac_builtin m k = Some (hex_block 0x51f0bebf7e3b9d92fc49741779363cfe) /\
  key_k1 (aes_block (unopt_ke (aes_init k))) = hex_block 0xfbeed618357133667c85e08f7236a8de /\
  key_k2 (aes_block (unopt_ke (aes_init k))) = hex_block 0xf7ddac306ae266ccf90bc11ee46d513b.
Proof. vm_compute. repeat split. Qed.

(* Core Vol 3 Part H Appendix D sample data (values written as in the specification,
   most significant byte first; the code takes them reversed) *)
Example C14_test_core_sample_data :
  let r16 v := rev (to_be 16 v) in
  let U := rev (to_be 32 0x20b003d2f297be2c5e2c83a7e9f9a5b9eff49111acf4fddbcc0301480e359de6) in
  let V := rev (to_be 32 0x55188b3d32f6bb9a900afcfbeed4e72a59cb9ac2f19d7cfb6b4fdd49f47fc5fd) in
  let X := r16 0xd5cb8454d177733effffb2ec712baeab in
  let Y := r16 0xa6e8e7cc25a75f6e216583f7ff3dc4cf in
  let W := rev (to_be 32 0xec0234a357c8ad05341010a60a397d9b99796b13b4f866f1868d34f373bfa698) in
  let A1 := rev (to_be 7 0x0056123737bfce) in
  let A2 := rev (to_be 7 0x00a713702dcfc1) in
  let MacKey := r16 0x2965f176a1084a02fd3f6a20ce636e20 in
  let KEY := r16 0xec0234a357c8ad05341010a60a397d9b in
  (* D.2 f4, D.3 f5, D.4 f6, D.5 g2, D.6 h6, D.7 ah, D.8 h7; 2.2.3 c1 and 2.2.4 s1 examples *)
  b_f4 U V X [0] = r16 0xf2c916f107a9bd1cf1eda1bea974872d /\
  b_f5 W X Y A1 A2 = (MacKey, r16 0x6986791169d7cd23980522b594750a38) /\
  b_f6 MacKey X Y (r16 0x12a3343bb453bb5408da42d20c2d0fc8) (rev (to_be 3 0x010102)) A1 A2
    = r16 0xe3c473989cd0e8c5d26c0b09da958f61 /\
  b_g2 U V X Y = 0x2f9ed5ba /\
  b_h6 KEY (to_be 4 0x6c656272) = r16 0x2d9ae102e76dc91ce8d3a9e280b16399 /\
  b_ah KEY (rev (to_be 3 0x708194)) = rev (to_be 3 0x0dfbaa) /\
  b_h7 (to_be 16 0x000000000000000000000000746D7031) KEY = r16 0xfb173597c6a3c0ecd2998c2a75a57011 /\
  b_c1 (zeros 16) (r16 0x5783D52156AD6F0E6388274EC6702EE0) (rev (to_be 7 0x07071000000101))
       (rev (to_be 7 0x05000800000302)) 1 0 (rev (to_be 6 0xA1A2A3A4A5A6)) (rev (to_be 6 0xB1B2B3B4B5B6))
    = Some (r16 0x1e1e3fef878988ead2a74dc5bef13b86) /\
  b_s1 (zeros 16) (r16 0x000F0E0D0C0B0A091122334455667788) (r16 0x010203040506070899AABBCCDDEEFF00)
    = r16 0x9a1fe1f0e8b0f49b5b4216ae796da062.
Proof. vm_compute. repeat split. Qed.

(* non-vacuity of the hypotheses used above: the model of the built-in AES satisfies the
   block-function hypotheses, and a generated address resolves *)
Example C14_nonvacuous :
  let k := hex_block 0x2b7e151628aed2a6abf7158809cf4f3c in
  let tb := [1; 2; 255; 4; 5; 6] in
  length (e_total k (zeros 16)) = 16%nat /\
  b_rpa_matches k (b_rpa_generate k tb) = true /\
  b_rpa_matches (zeros 16) (b_rpa_generate k tb) = false /\
  nth 5 (b_rpa_generate k tb) 0 = 127 /\
  ecdh secp256r1 5 1 1 = InvalidKey /\
  (exists s, ecdh secp256r1 5 (cgx secp256r1) (cgy secp256r1) = Secret s).
Proof. vm_compute. repeat split. eexists. reflexivity. Qed.
