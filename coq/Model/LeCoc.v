(* Model of bumble/l2cap.py LeCreditBasedChannel (LE and enhanced credit-based
   channels) and of the part of ChannelManager that routes K-frames and
   L2CAP_LE_Flow_Control_Credit packets to it.  Executable Gallina only; the
   proofs are in Proofs/LeCoc.v.

   Reading of the code (l2cap.py, after fix D07):

   sender half of a channel (write / process_output / on_credits)
     - write(data): out_queue.append(data); drained.clear(); process_output()
     - process_output(): while credits > 0:
         * out_sdu is not None: packet = out_sdu[:peer_mps]; send_pdu(packet);
           credits -= 1; out_sdu = None if everything was sent else the rest
         * else if out_queue: payload = up to peer_mtu bytes gathered across the
           queued writes (a write is split when it does not fit, an emptied
           entry is popped); out_sdu = pack('<H', len(payload)) + payload
         * else: drained.set(); return
       [po] merges "assemble the SDU" with the iteration that follows it (which
       always sends the first frame, the credit count being unchanged and > 0),
       so that it recurses structurally on the credit count.
     - on_credits(n): credits += n; process_output()
   receiver half (on_pdu)
     - peer_credits == 0: warning only, the frame is still processed
       else peer_credits -= 1; if peer_credits <= peer_max_credits // 2: send
       L2CAP_LE_Flow_Control_Credit(cid = source_cid, credits = max - peer_credits)
       and peer_credits = max
     - in_sdu = pdu if in_sdu is None else in_sdu + pdu
     - in_sdu_length == 0 means "not known yet": read it from the first two bytes
       when there are two; still 0 -> return; fewer than 2 + length bytes ->
       return; more -> overflow: drop the buffer (no disconnect, "TODO" in the
       code); exactly -> sink(in_sdu[2:]) and reset.
   manager
     - a K-frame addressed to CID c goes to channels[handle][c], keyed by the
       channel's own source CID
     - a credit packet for CID c goes to le_coc_channels[handle][c]; the four
       places that file a channel there (LE / enhanced acceptor: when the request
       is accepted; LE / enhanced initiator: when the response is processed, since
       fix D09f) all use the channel's destination CID (the enhanced acceptor used
       the source CID before fix D07).  [e_key] is the key a
       channel is filed under; Gen/C07Tables.v is regenerated from the source on
       every run and says which of source / destination each place uses.

   Abstractions, exactly:
     - a channel is CONNECTED with a sink set (write in another state drops the
       data, on_pdu without a sink drops the frame before the credit accounting:
       neither is in the model); connection set-up and tear-down belong to C09/C18
     - one channel per manager table (Proofs/LeCoc.v has the lookup lemmas for
       tables with any number of channels)
     - struct.pack('<H') cannot fail: the payload is at most peer_mtu bytes and
       peer_mtu comes from a 16-bit field; the theorems assume mtu <= 65535
     - write(b'') is outside the property (sizes >= 1); in the code an SDU made
       only of empty writes trips "assert len(payload) != 0"; the model would
       emit a 2-byte SDU.  Schedules are restricted by [label_ok].
     - bytes are opaque Z values. *)
From Coq Require Import ZArith List Bool.
Import ListNotations.
Open Scope Z_scope.

Definition bytes := list Z.
Definition zlen {A : Type} (l : list A) : Z := Z.of_nat (length l).
Definition ztake {A : Type} (n : Z) (l : list A) : list A := firstn (Z.to_nat n) l.
Definition zdrop {A : Type} (n : Z) (l : list A) : list A := skipn (Z.to_nat n) l.

(* struct.pack('<H', n), 0 <= n < 65536 *)
Definition le16 (n : Z) : bytes := [n mod 256; (n / 256) mod 256].
(* struct.unpack_from('<H', b, 0)[0]; called only when len(b) >= 2 *)
Definition un16 (b : bytes) : Z :=
  match b with b0 :: b1 :: _ => b0 + 256 * b1 | _ => 0 end.

Definition enc_sdu (payload : bytes) : bytes := le16 (zlen payload) ++ payload.

(* ------------------------------------------------------------------ sender *)
Record sndr := mkSnd {
  s_credits : Z;            (* credits *)
  s_mtu : Z;                (* peer_mtu *)
  s_mps : Z;                (* peer_mps *)
  s_queue : list bytes;     (* out_queue, oldest first *)
  s_sdu : option bytes;     (* out_sdu *)
  s_drained : bool          (* drained.is_set() *)
}.

(* the inner loop "while self.out_queue and len(payload) < self.peer_mtu";
   room = peer_mtu - len(payload).  When an entry does not fit, the chunk taken
   fills the room exactly, so the loop condition fails on the next test. *)
Fixpoint gather (room : Z) (q : list bytes) : bytes * list bytes :=
  match q with
  | [] => ([], [])
  | d :: q' =>
      if room <=? 0 then ([], q)
      else
        let chunk := ztake room d in
        match zdrop room d with
        | [] => let '(p, q'') := gather (room - zlen chunk) q' in (chunk ++ p, q'')
        | rest => (chunk, rest :: q')
        end
  end.

(* packet = out_sdu[:peer_mps]; what is left of out_sdu afterwards *)
Definition emit (mps : Z) (s : bytes) : bytes * option bytes :=
  let packet := ztake mps s in
  (packet, if Nat.eqb (length packet) (length s) then None else Some (skipn (length packet) s)).

(* process_output with n = credits; returns frames sent (in order), queue, out_sdu, drained *)
Fixpoint po (n : nat) (mtu mps : Z) (q : list bytes) (sdu : option bytes) (dr : bool)
  : list bytes * list bytes * option bytes * bool :=
  match n with
  | O => ([], q, sdu, dr)
  | S n' =>
      match sdu with
      | Some s =>
          let '(packet, sdu') := emit mps s in
          let '(fs, q2, sdu2, dr2) := po n' mtu mps q sdu' dr in
          (packet :: fs, q2, sdu2, dr2)
      | None =>
          match q with
          | [] => ([], [], None, true)
          | _ :: _ =>
              let '(payload, q') := gather mtu q in
              let '(packet, sdu') := emit mps (enc_sdu payload) in
              let '(fs, q2, sdu2, dr2) := po n' mtu mps q' sdu' dr in
              (packet :: fs, q2, sdu2, dr2)
          end
      end
  end.

Definition process_output (s : sndr) : sndr * list bytes :=
  let '(fs, q, sdu, dr) :=
    po (Z.to_nat (s_credits s)) (s_mtu s) (s_mps s) (s_queue s) (s_sdu s) (s_drained s) in
  (mkSnd (s_credits s - zlen fs) (s_mtu s) (s_mps s) q sdu dr, fs).

Definition s_write (s : sndr) (d : bytes) : sndr * list bytes :=
  process_output (mkSnd (s_credits s) (s_mtu s) (s_mps s) (s_queue s ++ [d]) (s_sdu s) false).

Definition s_on_credits (s : sndr) (n : Z) : sndr * list bytes :=
  process_output (mkSnd (s_credits s + n) (s_mtu s) (s_mps s) (s_queue s) (s_sdu s) (s_drained s)).

Definition snd_init (credits mtu mps : Z) : sndr := mkSnd credits mtu mps [] None true.

(* ---------------------------------------------------------------- receiver *)
Record rcvr := mkRcv {
  r_credits : Z;            (* peer_credits *)
  r_max : Z;                (* peer_max_credits *)
  r_sdu : option bytes;     (* in_sdu *)
  r_len : Z                 (* in_sdu_length, 0 = unknown *)
}.

Definition r_thresh (r : rcvr) : Z := r_max r / 2.   (* peer_max_credits // 2 *)

(* credit bookkeeping of on_pdu: new peer_credits and the credit packet, if any *)
Definition r_account (r : rcvr) : Z * option Z :=
  if r_credits r =? 0 then (0, None)
  else
    let c := r_credits r - 1 in
    if c <=? r_thresh r then (r_max r, Some (r_max r - c)) else (c, None).

Record rres := mkRres {
  rr_state : rcvr;
  rr_credit : option Z;     (* credits returned to the peer *)
  rr_sink : option bytes;   (* SDU handed to the sink *)
  rr_overflow : bool        (* the "SDU overflow" branch was taken *)
}.

Definition r_on_pdu (r : rcvr) (pdu : bytes) : rres :=
  let '(c, cr) := r_account r in
  let buf := match r_sdu r with None => pdu | Some s => s ++ pdu end in
  let len := if r_len r =? 0
             then (if 2 <=? zlen buf then un16 buf else 0)
             else r_len r in
  if len =? 0 then mkRres (mkRcv c (r_max r) (Some buf) 0) cr None false
  else if zlen buf <? 2 + len then mkRres (mkRcv c (r_max r) (Some buf) len) cr None false
  else if negb (zlen buf =? 2 + len) then mkRres (mkRcv c (r_max r) None 0) cr None true
  else mkRres (mkRcv c (r_max r) None 0) cr (Some (skipn 2 buf)) false.

Definition rcv_init (max_credits : Z) : rcvr := mkRcv max_credits max_credits None 0.

(* ---------------------------------------------------- endpoint and routing *)
Inductive pkt :=
| PFrame (cid : Z) (d : bytes)      (* K-frame addressed to channel cid *)
| PCredit (cid : Z) (n : Z).        (* L2CAP_LE_Flow_Control_Credit(cid, credits) *)

(* the four places a channel is filed in le_coc_channels *)
Inductive kind := LeInitiator | LeAcceptor | EnhInitiator | EnhAcceptor.
Inductive keysel := KSrc | KDst.
Definition key_of (sel : keysel) (src dst : Z) : Z :=
  match sel with KSrc => src | KDst => dst end.
(* l2cap.py after fix D07; Gen/C07Tables.v carries what the current source says *)
Definition lecoc_keysel (k : kind) : keysel := KDst.

Record ep := mkEp {
  e_src : Z;                (* source_cid: key in channels[handle] *)
  e_dst : Z;                (* destination_cid *)
  e_key : Z;                (* key in le_coc_channels[handle] *)
  e_snd : sndr;
  e_rcv : rcvr
}.

Inductive ev := EWrite (d : bytes) | ERecv (p : pkt).

Record eres := mkEres {
  er_state : ep;
  er_out : list pkt;        (* packets handed to the host, in order *)
  er_sink : option bytes;
  er_dropped : bool;        (* "channel not found" / "credits for an unknown channel" *)
  er_overflow : bool
}.

Definition with_snd (e : ep) (s : sndr) : ep := mkEp (e_src e) (e_dst e) (e_key e) s (e_rcv e).
Definition with_rcv (e : ep) (r : rcvr) : ep := mkEp (e_src e) (e_dst e) (e_key e) (e_snd e) r.

Definition frames_out (e : ep) (fs : list bytes) : list pkt := map (PFrame (e_dst e)) fs.

Definition ep_step (e : ep) (v : ev) : eres :=
  match v with
  | EWrite d =>
      let '(s, fs) := s_write (e_snd e) d in
      mkEres (with_snd e s) (frames_out e fs) None false false
  | ERecv (PFrame cid d) =>
      if cid =? e_src e then
        let rr := r_on_pdu (e_rcv e) d in
        mkEres (with_rcv e (rr_state rr))
               (match rr_credit rr with Some n => [PCredit (e_src e) n] | None => [] end)
               (rr_sink rr) false (rr_overflow rr)
      else mkEres e [] None true false
  | ERecv (PCredit cid n) =>
      if cid =? e_key e then
        let '(s, fs) := s_on_credits (e_snd e) n in
        mkEres (with_snd e s) (frames_out e fs) None false false
      else mkEres e [] None true false
  end.

(* a channel as negotiation leaves it: own (mtu, mps, max_credits) and the peer's *)
Definition ep_init (sel : keysel) (src dst : Z)
                   (credits peer_mtu peer_mps peer_credits : Z) : ep :=
  mkEp src dst (key_of sel src dst) (snd_init credits peer_mtu peer_mps) (rcv_init peer_credits).

(* ------------------------------------------------------ two-party system *)
Record lsys := mkL { l_a : ep; l_b : ep; l_ab : list pkt; l_ba : list pkt }.

Inductive label := WriteA (d : bytes) | WriteB (d : bytes) | DeliverAB | DeliverBA.

Record lres := mkLres {
  lr_state : lsys;
  lr_ab : list pkt;          (* appended to the A->B wire by this step *)
  lr_ba : list pkt;
  lr_sink_a : option bytes;  (* delivered to A's sink *)
  lr_sink_b : option bytes;
  lr_dropped : bool;
  lr_overflow : bool
}.

(* a disabled label (empty wire) is a stutter *)
Definition l_step (st : lsys) (l : label) : lres :=
  match l with
  | WriteA d =>
      let r := ep_step (l_a st) (EWrite d) in
      mkLres (mkL (er_state r) (l_b st) (l_ab st ++ er_out r) (l_ba st))
             (er_out r) [] None None false false
  | WriteB d =>
      let r := ep_step (l_b st) (EWrite d) in
      mkLres (mkL (l_a st) (er_state r) (l_ab st) (l_ba st ++ er_out r))
             [] (er_out r) None None false false
  | DeliverAB =>
      match l_ab st with
      | [] => mkLres st [] [] None None false false
      | p :: w =>
          let r := ep_step (l_b st) (ERecv p) in
          mkLres (mkL (l_a st) (er_state r) w (l_ba st ++ er_out r))
                 [] (er_out r) None (er_sink r) (er_dropped r) (er_overflow r)
      end
  | DeliverBA =>
      match l_ba st with
      | [] => mkLres st [] [] None None false false
      | p :: w =>
          let r := ep_step (l_a st) (ERecv p) in
          mkLres (mkL (er_state r) (l_b st) (l_ab st ++ er_out r) w)
                 (er_out r) [] (er_sink r) None (er_dropped r) (er_overflow r)
      end
  end.

Fixpoint l_run (st : lsys) (ls : list label) : lsys * list lres :=
  match ls with
  | [] => (st, [])
  | l :: ls' =>
      let r := l_step st l in
      let '(st', rs) := l_run (lr_state r) ls' in
      (st', r :: rs)
  end.

(* A opened towards B.  mtu/mps/credits with suffix a are the values A
   advertised (what B may send to A), suffix b what B advertised. *)
Definition l_init (sel_a sel_b : keysel) (cid_a cid_b : Z)
                  (mtu_a mps_a cr_a mtu_b mps_b cr_b : Z) : lsys :=
  mkL (ep_init sel_a cid_a cid_b cr_b mtu_b mps_b cr_a)
      (ep_init sel_b cid_b cid_a cr_a mtu_a mps_a cr_b) [] [].

Fixpoint ep_run (e : ep) (vs : list ev) : ep * list eres :=
  match vs with
  | [] => (e, [])
  | v :: vs' =>
      let r := ep_step e v in
      let '(e', rs) := ep_run (er_state r) vs' in
      (e', r :: rs)
  end.

(* ------------------------------------- observables for the correspondence *)
(* a position-weighted checksum (sum of bytes, sum of (i+1) * byte i); no modulus,
   so that vm_compute stays cheap on long frames *)
Fixpoint hash_from (i s1 s2 : Z) (b : bytes) : Z * Z :=
  match b with
  | [] => (s1, s2)
  | x :: b' => hash_from (i + 1) (s1 + x) (s2 + i * x) b'
  end.
Definition hash (b : bytes) : Z * Z := hash_from 1 0 0 b.
Definition obs_bytes (b : bytes) : Z * (Z * Z) * bytes := (zlen b, hash b, firstn 4 b).
Definition obs_pkt (p : pkt) : Z * Z * (Z * (Z * Z) * bytes) :=
  match p with
  | PFrame cid d => (0, cid, obs_bytes d)
  | PCredit cid n => (1, cid, (n, (0, 0), []))
  end.
Definition obs_opt (o : option bytes) : list (Z * (Z * Z) * bytes) :=
  match o with Some d => [obs_bytes d] | None => [] end.
Definition obs_lres (r : lres) :=
  (map obs_pkt (lr_ab r), map obs_pkt (lr_ba r), obs_opt (lr_sink_a r), obs_opt (lr_sink_b r),
   (s_drained (e_snd (l_a (lr_state r))), s_drained (e_snd (l_b (lr_state r)))),
   (lr_dropped r, lr_overflow r)).
Definition obs_eres (r : eres) :=
  (map obs_pkt (er_out r), obs_opt (er_sink r), s_drained (e_snd (er_state r)),
   (er_dropped r, er_overflow r)).
Definition obs_ep (e : ep) :=
  (s_credits (e_snd e), zlen (s_queue (e_snd e)), r_credits (e_rcv e)).

(* test data: len bytes (start + i) mod 251; the counter wraps without a division *)
Fixpoint pattern (n : nat) (c : Z) : bytes :=
  match n with O => [] | S n' => c :: pattern n' (if c + 1 =? 251 then 0 else c + 1) end.
Definition mk_data (start len : Z) : bytes := pattern (Z.to_nat len) (start mod 251).

(* ------------------------------------------ manager tables, many channels *)
(* channels[handle] and le_coc_channels[handle] as dictionaries: the most recent
   binding of a key is first.  A channel is named by an identifier (Z). *)
Definition table := list (Z * Z).
Fixpoint t_get (t : table) (k : Z) : option Z :=
  match t with
  | [] => None
  | (k', v) :: t' => if k' =? k then Some v else t_get t' k
  end.
Definition t_set (t : table) (k v : Z) : table := (k, v) :: t.

Record mgr := mkMgr { m_channels : table; m_lecoc : table }.

Record chan_desc := mkCd { cd_id : Z; cd_kind : kind; cd_src : Z; cd_dst : Z }.

(* connection_channels[source_cid] = channel; le_connection_channels[<key>] = channel *)
Definition file_channel (sel : kind -> keysel) (m : mgr) (c : chan_desc) : mgr :=
  mkMgr (t_set (m_channels m) (cd_src c) (cd_id c))
        (t_set (m_lecoc m) (key_of (sel (cd_kind c)) (cd_src c) (cd_dst c)) (cd_id c)).

(* the head of the list is the channel filed last *)
Fixpoint file_all (sel : kind -> keysel) (cs : list chan_desc) : mgr :=
  match cs with
  | [] => mkMgr [] []
  | c :: cs' => file_channel sel (file_all sel cs') c
  end.

(* ChannelManager.on_pdu / on_l2cap_le_flow_control_credit: which channel gets it *)
Definition route (m : mgr) (p : pkt) : option Z :=
  match p with
  | PFrame cid _ => t_get (m_channels m) cid
  | PCredit cid _ => t_get (m_lecoc m) cid
  end.

Definition routes_obs (sel : kind -> keysel) (cs : list chan_desc) : list (option Z * option Z) :=
  let m := file_all sel cs in
  map (fun c => (route m (PFrame (cd_src c) []), route m (PCredit (cd_dst c) 0))) cs.

(* ------------------------------------------------ shape of the source code *)
(* The comparison operators and integer constants of __init__ / on_pdu /
   process_output are read from bumble/l2cap.py on every run (Gen/C07Tables.v,
   [gen_shape]; the translator matches the whole normalised function bodies against
   a template and fails closed on any other difference).  [r_on_pdu_g] and
   [process_output_g] are the receiver and the sender written over such a shape;
   Proofs/LeCoc.v shows that the model above is their instance at [model_shape]
   and Props/C07.v that [gen_shape = model_shape]. *)
Inductive cmp := CEq | CNe | CLt | CLe | CGt | CGe.
Definition cmp_eval (c : cmp) (a b : Z) : bool :=
  match c with
  | CEq => a =? b | CNe => negb (a =? b)
  | CLt => a <? b | CLe => a <=? b
  | CGt => b <? a | CGe => b <=? a
  end.

Record shape := mkShape {
  sh_thresh_div : Z;                              (* peer_credits_threshold = peer_max_credits // 2 *)
  sh_nocredit_cmp : cmp; sh_nocredit_const : Z;   (* if self.peer_credits == 0 *)
  sh_rx_dec : Z;                                  (* self.peer_credits -= 1 *)
  sh_replenish_cmp : cmp;                         (* if self.peer_credits <= self.peer_credits_threshold *)
  sh_unknown1_cmp : cmp; sh_unknown1 : Z;         (* if self.in_sdu_length == 0 (first) *)
  sh_hdr_cmp : cmp; sh_hdr_len : Z;               (* if len(self.in_sdu) >= 2 *)
  sh_unknown2_cmp : cmp; sh_unknown2 : Z;         (* if self.in_sdu_length == 0 (second) *)
  sh_incomplete_cmp : cmp; sh_incomplete_hdr : Z; (* if len(self.in_sdu) < 2 + self.in_sdu_length *)
  sh_overflow_cmp : cmp; sh_overflow_hdr : Z;     (* if len(self.in_sdu) != 2 + self.in_sdu_length *)
  sh_sink_skip : Z;                               (* self.sink(self.in_sdu[2:]) *)
  sh_loop_cmp : cmp; sh_loop_const : Z;           (* while self.credits > 0 *)
  sh_tx_dec : Z;                                  (* self.credits -= 1 *)
  sh_whole_cmp : cmp;                             (* if len(packet) == len(self.out_sdu) *)
  sh_gather_cmp : cmp;                            (* while ... len(payload) < self.peer_mtu *)
  sh_empty_cmp : cmp; sh_empty_const : Z          (* if len(self.out_queue[0]) == 0 *)
}.

Definition model_shape : shape :=
  mkShape 2 CEq 0 1 CLe CEq 0 CGe 2 CEq 0 CLt 2 CNe 2 2 CGt 0 1 CEq CLt CEq 0.

Definition r_account_g (sh : shape) (r : rcvr) : Z * option Z :=
  if cmp_eval (sh_nocredit_cmp sh) (r_credits r) (sh_nocredit_const sh) then (r_credits r, None)
  else
    let c := r_credits r - sh_rx_dec sh in
    if cmp_eval (sh_replenish_cmp sh) c (r_max r / sh_thresh_div sh)
    then (r_max r, Some (r_max r - c)) else (c, None).

Definition r_on_pdu_g (sh : shape) (r : rcvr) (pdu : bytes) : rres :=
  let '(c, cr) := r_account_g sh r in
  let buf := match r_sdu r with None => pdu | Some s => s ++ pdu end in
  let len := if cmp_eval (sh_unknown1_cmp sh) (r_len r) (sh_unknown1 sh)
             then (if cmp_eval (sh_hdr_cmp sh) (zlen buf) (sh_hdr_len sh) then un16 buf else r_len r)
             else r_len r in
  if cmp_eval (sh_unknown2_cmp sh) len (sh_unknown2 sh)
  then mkRres (mkRcv c (r_max r) (Some buf) len) cr None false
  else if cmp_eval (sh_incomplete_cmp sh) (zlen buf) (sh_incomplete_hdr sh + len)
  then mkRres (mkRcv c (r_max r) (Some buf) len) cr None false
  else if cmp_eval (sh_overflow_cmp sh) (zlen buf) (sh_overflow_hdr sh + len)
  then mkRres (mkRcv c (r_max r) None 0) cr None true
  else mkRres (mkRcv c (r_max r) None 0) cr (Some (zdrop (sh_sink_skip sh) buf)) false.

Definition emit_g (sh : shape) (mps : Z) (s : bytes) : bytes * option bytes :=
  let packet := ztake mps s in
  (packet, if cmp_eval (sh_whole_cmp sh) (zlen packet) (zlen s)
           then None else Some (skipn (length packet) s)).

Fixpoint gather_g (sh : shape) (mtu room : Z) (q : list bytes) : bytes * list bytes :=
  match q with
  | [] => ([], [])
  | d :: q' =>
      if cmp_eval (sh_gather_cmp sh) (mtu - room) mtu then
        let chunk := ztake room d in
        let rest := zdrop room d in
        if cmp_eval (sh_empty_cmp sh) (zlen rest) (sh_empty_const sh)
        then let '(p, q'') := gather_g sh mtu (room - zlen chunk) q' in (chunk ++ p, q'')
        else (chunk, rest :: q')
      else ([], q)
  end.

(* the loop of process_output with its test evaluated on every iteration; fuel is
   the number of iterations that send a frame *)
Fixpoint po_g (sh : shape) (fuel : nat) (c mtu mps : Z) (q : list bytes) (sdu : option bytes) (dr : bool)
  : list bytes * Z * list bytes * option bytes * bool :=
  match fuel with
  | O => ([], c, q, sdu, dr)
  | S fuel' =>
      if cmp_eval (sh_loop_cmp sh) c (sh_loop_const sh) then
        match sdu with
        | Some s =>
            let '(packet, sdu') := emit_g sh mps s in
            let '(fs, c2, q2, sdu2, dr2) := po_g sh fuel' (c - sh_tx_dec sh) mtu mps q sdu' dr in
            (packet :: fs, c2, q2, sdu2, dr2)
        | None =>
            match q with
            | [] => ([], c, [], None, true)
            | _ :: _ =>
                let '(payload, q') := gather_g sh mtu mtu q in
                let '(packet, sdu') := emit_g sh mps (enc_sdu payload) in
                let '(fs, c2, q2, sdu2, dr2) := po_g sh fuel' (c - sh_tx_dec sh) mtu mps q' sdu' dr in
                (packet :: fs, c2, q2, sdu2, dr2)
            end
        end
      else ([], c, q, sdu, dr)
  end.

Definition process_output_g (sh : shape) (s : sndr) : sndr * list bytes :=
  let '(fs, c, q, sdu, dr) :=
    po_g sh (Z.to_nat (s_credits s)) (s_credits s) (s_mtu s) (s_mps s) (s_queue s) (s_sdu s) (s_drained s) in
  (mkSnd c (s_mtu s) (s_mps s) q sdu dr, fs).

(* ------------------------------------------- n channels on one link *)
(* Each manager holds a list of channel endpoints (position k on side A is the
   peer of position k on side B); the two wires are shared by all channels.  A
   delivered packet goes to the first endpoint whose table key matches: a K-frame
   to the channel whose source CID it names (channels[handle][cid]), a credit packet
   to the channel filed under that CID (le_coc_channels[handle][cid]); nobody: dropped. *)
Definition accepts (e : ep) (p : pkt) : bool :=
  match p with PFrame cid _ => cid =? e_src e | PCredit cid _ => cid =? e_key e end.

Fixpoint m_recv (es : list ep) (p : pkt) : list ep * option (nat * eres) :=
  match es with
  | [] => ([], None)
  | e :: es' =>
      if accepts e p then let r := ep_step e (ERecv p) in (er_state r :: es', Some (O, r))
      else let '(es'', o) := m_recv es' p in
           (e :: es'', match o with Some (k, r) => Some (S k, r) | None => None end)
  end.

Fixpoint m_write (es : list ep) (i : nat) (d : bytes) : list ep * list pkt :=
  match es, i with
  | [], _ => ([], [])
  | e :: es', O => let r := ep_step e (EWrite d) in (er_state r :: es', er_out r)
  | e :: es', S i' => let '(es'', out) := m_write es' i' d in (e :: es'', out)
  end.

Record msys := mkM { m_a : list ep; m_b : list ep; m_ab : list pkt; m_ba : list pkt }.

Inductive mlabel :=
| MWriteA (i : nat) (d : bytes) | MWriteB (i : nat) (d : bytes) | MDeliverAB | MDeliverBA.

Record mres := mkMres {
  mr_state : msys;
  mr_ab : list pkt;                  (* appended to the A->B wire *)
  mr_ba : list pkt;
  mr_sink_a : option (nat * bytes);  (* channel index and SDU delivered to a sink on side A *)
  mr_sink_b : option (nat * bytes);
  mr_dropped : bool;
  mr_overflow : bool
}.

Definition sink_of (o : option (nat * eres)) : option (nat * bytes) :=
  match o with
  | Some (k, r) => match er_sink r with Some d => Some (k, d) | None => None end
  | None => None
  end.
Definition out_of (o : option (nat * eres)) : list pkt :=
  match o with Some (_, r) => er_out r | None => [] end.
Definition dropped_of (o : option (nat * eres)) : bool :=
  match o with Some (_, r) => er_dropped r | None => true end.
Definition overflow_of (o : option (nat * eres)) : bool :=
  match o with Some (_, r) => er_overflow r | None => false end.

Definition m_step (st : msys) (l : mlabel) : mres :=
  match l with
  | MWriteA i d =>
      let '(es, out) := m_write (m_a st) i d in
      mkMres (mkM es (m_b st) (m_ab st ++ out) (m_ba st)) out [] None None false false
  | MWriteB i d =>
      let '(es, out) := m_write (m_b st) i d in
      mkMres (mkM (m_a st) es (m_ab st) (m_ba st ++ out)) [] out None None false false
  | MDeliverAB =>
      match m_ab st with
      | [] => mkMres st [] [] None None false false
      | p :: w =>
          let '(es, o) := m_recv (m_b st) p in
          mkMres (mkM (m_a st) es w (m_ba st ++ out_of o)) [] (out_of o) None (sink_of o)
                 (dropped_of o) (overflow_of o)
      end
  | MDeliverBA =>
      match m_ba st with
      | [] => mkMres st [] [] None None false false
      | p :: w =>
          let '(es, o) := m_recv (m_a st) p in
          mkMres (mkM es (m_b st) (m_ab st ++ out_of o) w) (out_of o) [] (sink_of o) None
                 (dropped_of o) (overflow_of o)
      end
  end.

Fixpoint m_run (st : msys) (ls : list mlabel) : msys * list mres :=
  match ls with
  | [] => (st, [])
  | l :: ls' =>
      let r := m_step st l in
      let '(st', rs) := m_run (mr_state r) ls' in
      (st', r :: rs)
  end.

(* observables of a multi-channel step for the correspondence *)
Definition obs_sink (o : option (nat * bytes)) : list (Z * (Z * (Z * Z) * bytes)) :=
  match o with Some (k, d) => [(Z.of_nat k, obs_bytes d)] | None => [] end.
Definition obs_mres (r : mres) :=
  (map obs_pkt (mr_ab r), map obs_pkt (mr_ba r), obs_sink (mr_sink_a r), obs_sink (mr_sink_b r),
   (map (fun e => s_drained (e_snd e)) (m_a (mr_state r)), map (fun e => s_drained (e_snd e)) (m_b (mr_state r))),
   (mr_dropped r, mr_overflow r)).

(* ------------------------------------------ a channel without a sink yet *)
(* on_pdu starts with "if self.sink is None: return": a K-frame that reaches a
   channel before the application has set a sink is discarded BEFORE the credit
   accounting (and without being reassembled).  Everything else is unchanged. *)
Definition ep_step_s (has_sink : bool) (e : ep) (v : ev) : eres :=
  match v with
  | ERecv (PFrame cid d) =>
      if (cid =? e_src e) && negb has_sink then mkEres e [] None false false else ep_step e v
  | _ => ep_step e v
  end.

Fixpoint ep_run_s (e : ep) (vs : list (bool * ev)) : ep * list eres :=
  match vs with
  | [] => (e, [])
  | (hs, v) :: vs' =>
      let r := ep_step_s hs e v in
      let '(e', rs) := ep_run_s (er_state r) vs' in
      (e', r :: rs)
  end.
