(* Model of how bumble/host.py Host routes traffic and completion reports to its
   DataPacketQueue objects.  No proofs here.

   Reading of the code (host.py):
     - Host.reset builds the queues (acl / le / iso; the le queue may be the very same
       object as the acl queue).  The model has a list of queues, addressed by index.
     - the link tables (connections, cis_links, bis_links) map a live handle to the
       link object, which holds a reference to ITS queue: `h_links`.
     - get_data_packet_queue(handle) looks the handle up in the CURRENT link tables
       and returns that link's queue (None for an unknown handle): `route`.
       It keeps no state of its own (pinned by Gen/C04Shape.v).
     - send_acl_sdu / send_iso_sdu enqueue on the queue of the link: HSend.
     - on_hci_number_of_completed_packets_event reports each (handle, count) entry to
       get_data_packet_queue(handle), ignoring unknown handles: HDone.
     - on_hci_disconnection_complete_event flushes the handle from EVERY queue and
       removes the link: HClose.  remove_big flushes the handle from the link's own
       queue and removes the link: HCloseOwn.
     - a new link (connection complete, CIS established, BIG created / synced) enters
       the tables with a handle the controller chose; the controller only hands out a
       handle that is not in use: HOpen on a live handle is ignored by the model. *)
From Coq Require Import ZArith List Bool.
From BV Require Import Model.DataQueue.
Import ListNotations.
Open Scope Z_scope.

Record hstate := mkH { h_links : list (Z * nat); h_queues : list qstate }.

Inductive hop :=
| HOpen (h : Z) (qi : nat)
| HClose (h : Z)
| HCloseOwn (h : Z)
| HSend (p h : Z)
| HDone (n h : Z).

Fixpoint route (h : Z) (ls : list (Z * nat)) : option nat :=
  match ls with
  | [] => None
  | (k, qi) :: ls' => if Z.eqb k h then Some qi else route h ls'
  end.

Definition other_link (h : Z) (kq : Z * nat) : bool := negb (Z.eqb (fst kq) h).
Definition unlink (h : Z) (ls : list (Z * nat)) : list (Z * nat) := filter (other_link h) ls.

(* apply one queue operation to the queue at index qi *)
Fixpoint step_at (qi : nat) (o : qop) (qs : list qstate) {struct qs} : list qstate * list (Z * Z) :=
  match qs with
  | [] => ([], [])
  | q :: qs' =>
      match qi with
      | O => let '(q', out) := q_step q o in (q' :: qs', out)
      | S i => let '(qs'', out) := step_at i o qs' in (q :: qs'', out)
      end
  end.

(* apply one queue operation to every queue, in index order *)
Fixpoint step_all (o : qop) (qs : list qstate) : list qstate * list (Z * Z) :=
  match qs with
  | [] => ([], [])
  | q :: qs' =>
      let '(q', out1) := q_step q o in
      let '(qs'', out2) := step_all o qs' in
      (q' :: qs'', out1 ++ out2)
  end.

Definition h_step (s : hstate) (o : hop) : hstate * list (Z * Z) :=
  match o with
  | HOpen h qi =>
      match route h (h_links s) with
      | Some _ => (s, [])
      | None =>
          if Nat.ltb qi (length (h_queues s))
          then (mkH ((h, qi) :: h_links s) (h_queues s), [])
          else (s, [])
      end
  | HClose h =>
      let '(qs, out) := step_all (Flush h) (h_queues s) in
      (mkH (unlink h (h_links s)) qs, out)
  | HCloseOwn h =>
      match route h (h_links s) with
      | None => (s, [])
      | Some qi =>
          let '(qs, out) := step_at qi (Flush h) (h_queues s) in
          (mkH (unlink h (h_links s)) qs, out)
      end
  | HSend p h =>
      match route h (h_links s) with
      | None => (s, [])
      | Some qi =>
          let '(qs, out) := step_at qi (Enqueue p h) (h_queues s) in
          (mkH (h_links s) qs, out)
      end
  | HDone n h =>
      match route h (h_links s) with
      | None => (s, [])
      | Some qi =>
          let '(qs, out) := step_at qi (Completed n h) (h_queues s) in
          (mkH (h_links s) qs, out)
      end
  end.

Fixpoint h_run (s : hstate) (ops : list hop) : hstate * list (Z * Z) :=
  match ops with
  | [] => (s, [])
  | o :: ops' =>
      let '(s1, out1) := h_step s o in
      let '(s2, out2) := h_run s1 ops' in
      (s2, out1 ++ out2)
  end.

Definition h_init (maxfs : list Z) : hstate := mkH [] (map q_init maxfs).

(* Observables for the correspondence check: link table (newest first), per-queue observables. *)
Definition h_obs (s : hstate) := (h_links s, map q_obs (h_queues s)).
